//! Correspondence harness: interprets scenario files against the real bevy_cobweb crate and prints a trace in the
//! same canonical text form as the Lean driver (`lean/Main.lean`).

use bevy::ecs::system::SystemState;
use bevy::prelude::*;
use bevy_cobweb::prelude::*;

use std::any::TypeId;
use std::cell::RefCell;
use std::collections::HashMap;
use std::sync::Arc;

mod scenario;
mod syscall_mode;
use scenario::*;
use scenario::Ref;

//-------------------------------------------------------------------------------------------------------------------
// shared harness state (single-threaded)

#[derive(Default)]
struct Shared
{
    out: Vec<String>,
    ent_names: Vec<Entity>,
    sys_names: Vec<Entity>,
    /// names (indices into `sys_names`) of the systems made by `ReactCommands::once`
    onces: Vec<usize>,
    tokens: Vec<RevokeToken>,
    sigs: Vec<Vec<AutoDespawnSignal>>,
    ready: std::collections::HashSet<Entity>,
    defs: Arc<Vec<Def>>,
    n_wr: usize,
    n_ewr: usize,
}

thread_local! { static SH: RefCell<Shared> = RefCell::new(Shared::default()); }
thread_local! { static EXPECT_PANIC: std::cell::Cell<bool> = std::cell::Cell::new(false); }
// `spawn_rc_system_command[_from]` = spawn a system command + `AutoDespawner::prepare` on it. A batch of one `spawnsys`
// followed by `top sigprepare` of exactly that system goes through it: the first operation makes the call and parks the
// signal here, the second one picks it up.
thread_local! { static RC_NEXT: std::cell::Cell<bool> = std::cell::Cell::new(false); }
thread_local! { static RC_PARKED: RefCell<Option<AutoDespawnSignal>> = RefCell::new(None); }

fn log(line: String) { SH.with(|s| s.borrow_mut().out.push(line)); }

fn name_of(e: Entity) -> String
{
    SH.with(|s| {
        let s = s.borrow();
        if let Some(k) = s.sys_names.iter().position(|x| *x == e) { return format!("s{k}"); }
        if let Some(k) = s.ent_names.iter().position(|x| *x == e) { return format!("e{k}"); }
        "?".to_string()
    })
}

/// Resolves a name. A system whose callback insertion is still queued cannot be named by any action: Bevy's
/// `Commands::spawn` panics if the reserved entity is despawned (directly, or by the garbage collection after a
/// non-persistent registration) before the insert command is applied.
fn resolve(r: Ref) -> Option<Entity>
{
    SH.with(|s| {
        let s = s.borrow();
        match r
        {
            Ref::E(k) => s.ent_names.get(k).copied(),
            Ref::S(k) => s.sys_names.get(k).copied().filter(|e| s.ready.contains(e)),
        }
    })
}

//-------------------------------------------------------------------------------------------------------------------
// payloads, components, resources, canaries

struct Payload(u32);
const SILENT: u32 = u32::MAX;
impl Drop for Payload { fn drop(&mut self) { if self.0 != SILENT { log(format!("drop p{}", self.0)); } } }

struct Pay<const N: usize>(Payload);
/// One Rust type per index is the payload of broadcasts and entity events *and* the reactive resource of that index: the
/// crate keys its broadcast, entity-event and resource tables by `TypeId`, and only a shared type lets one table leak
/// into another show (seeded P04). Field 0: the event payload (silent in a resource value); field 1: the resource value.
struct Evt<const N: usize>(Payload, u32);
impl<const N: usize> Evt<N>
{
    fn ev(pid: u32) -> Self { Evt(Payload(pid), 0) }
    fn res(v: u32) -> Self { Evt(Payload(SILENT), v) }
}
impl<const N: usize> PartialEq for Evt<N> { fn eq(&self, other: &Self) -> bool { self.1 == other.1 } }
impl<const N: usize> ReactResource for Evt<N> {}

#[derive(PartialEq, Clone, Copy)]
struct Comp<const N: usize>(u32);
impl<const N: usize> ReactComponent for Comp<N> {}


struct Canary(usize);
impl Drop for Canary { fn drop(&mut self) { log(format!("canary s{}", self.0)); } }

//-------------------------------------------------------------------------------------------------------------------
// dynamic trigger bundles

#[derive(Copy, Clone)]
enum DynTrig
{
    Bc(usize), Res(usize), Ins(usize), Mut(usize), Rem(usize), AnyEv(usize),
    EIns(Entity, usize), EMut(Entity, usize), ERem(Entity, usize), EEv(Entity, usize), Dsp(Entity),
}

impl DynTrig
{
    fn rt_inner(&self) -> ReactorType
    {
        macro_rules! go { ($n:literal, $mk:expr) => { { let t = $mk; ReactionTrigger::reactor_type(&t) } }; }
        match *self
        {
            DynTrig::Bc(ty) => if ty == 0 { go!(0, broadcast::<Evt<0>>()) } else { go!(1, broadcast::<Evt<1>>()) },
            DynTrig::Res(ty) => if ty == 0 { go!(0, resource_mutation::<Evt<0>>()) } else { go!(1, resource_mutation::<Evt<1>>()) },
            DynTrig::Ins(ty) => if ty == 0 { go!(0, insertion::<Comp<0>>()) } else { go!(1, insertion::<Comp<1>>()) },
            DynTrig::Mut(ty) => if ty == 0 { go!(0, mutation::<Comp<0>>()) } else { go!(1, mutation::<Comp<1>>()) },
            DynTrig::Rem(ty) => if ty == 0 { go!(0, removal::<Comp<0>>()) } else { go!(1, removal::<Comp<1>>()) },
            DynTrig::AnyEv(ty) => if ty == 0 { go!(0, any_entity_event::<Evt<0>>()) } else { go!(1, any_entity_event::<Evt<1>>()) },
            DynTrig::EIns(e, ty) => if ty == 0 { go!(0, entity_insertion::<Comp<0>>(e)) } else { go!(1, entity_insertion::<Comp<1>>(e)) },
            DynTrig::EMut(e, ty) => if ty == 0 { go!(0, entity_mutation::<Comp<0>>(e)) } else { go!(1, entity_mutation::<Comp<1>>(e)) },
            DynTrig::ERem(e, ty) => if ty == 0 { go!(0, entity_removal::<Comp<0>>(e)) } else { go!(1, entity_removal::<Comp<1>>(e)) },
            DynTrig::EEv(e, ty) => if ty == 0 { go!(0, entity_event::<Evt<0>>(e)) } else { go!(1, entity_event::<Evt<1>>(e)) },
            DynTrig::Dsp(e) => go!(0, despawn(e)),
        }
    }

    fn reg_inner(&self, c: &mut Commands, h: &ReactorHandle)
    {
        macro_rules! go { ($n:literal, $mk:expr) => { { let t = $mk; ReactionTrigger::register(&t, c, h) } }; }
        match *self
        {
            DynTrig::Bc(ty) => if ty == 0 { go!(0, broadcast::<Evt<0>>()) } else { go!(1, broadcast::<Evt<1>>()) },
            DynTrig::Res(ty) => if ty == 0 { go!(0, resource_mutation::<Evt<0>>()) } else { go!(1, resource_mutation::<Evt<1>>()) },
            DynTrig::Ins(ty) => if ty == 0 { go!(0, insertion::<Comp<0>>()) } else { go!(1, insertion::<Comp<1>>()) },
            DynTrig::Mut(ty) => if ty == 0 { go!(0, mutation::<Comp<0>>()) } else { go!(1, mutation::<Comp<1>>()) },
            DynTrig::Rem(ty) => if ty == 0 { go!(0, removal::<Comp<0>>()) } else { go!(1, removal::<Comp<1>>()) },
            DynTrig::AnyEv(ty) => if ty == 0 { go!(0, any_entity_event::<Evt<0>>()) } else { go!(1, any_entity_event::<Evt<1>>()) },
            DynTrig::EIns(e, ty) => if ty == 0 { go!(0, entity_insertion::<Comp<0>>(e)) } else { go!(1, entity_insertion::<Comp<1>>(e)) },
            DynTrig::EMut(e, ty) => if ty == 0 { go!(0, entity_mutation::<Comp<0>>(e)) } else { go!(1, entity_mutation::<Comp<1>>(e)) },
            DynTrig::ERem(e, ty) => if ty == 0 { go!(0, entity_removal::<Comp<0>>(e)) } else { go!(1, entity_removal::<Comp<1>>(e)) },
            DynTrig::EEv(e, ty) => if ty == 0 { go!(0, entity_event::<Evt<0>>(e)) } else { go!(1, entity_event::<Evt<1>>(e)) },
            DynTrig::Dsp(e) => go!(0, despawn(e)),
        }
    }
}

const MAX_TRIGS: usize = 16;

/// A dynamically chosen trigger is itself a `ReactionTrigger`, so bundles of them go through the crate's own tuple
/// implementations of `ReactionTriggerBundle` (arity 0..=15, and nested tuples for 16).
impl ReactionTrigger for DynTrig
{
    fn reactor_type(&self) -> ReactorType { self.rt_inner() }
    fn register(&self, commands: &mut Commands, handle: &ReactorHandle) { self.reg_inner(commands, handle) }
}

#[derive(Copy, Clone)]
struct DynBundle { n: usize, t: [DynTrig; MAX_TRIGS] }

macro_rules! tup { ($s:expr; $($i:literal),*) => { ($($s.t[$i],)*) } }
macro_rules! via_tuple
{
    ($s:expr, |$b:ident| $body:expr) =>
    {
        match $s.n
        {
            0 => { let $b = (); $body }
            1 => { let $b = tup!($s; 0); $body }
            2 => { let $b = tup!($s; 0, 1); $body }
            3 => { let $b = tup!($s; 0, 1, 2); $body }
            // nested bundles are bundles too
            4 => { let $b = (tup!($s; 0, 1), tup!($s; 2, 3)); $body }
            5 => { let $b = tup!($s; 0, 1, 2, 3, 4); $body }
            6 => { let $b = (tup!($s; 0), tup!($s; 1, 2, 3, 4), $s.t[5]); $body }
            7 => { let $b = tup!($s; 0, 1, 2, 3, 4, 5, 6); $body }
            8 => { let $b = tup!($s; 0, 1, 2, 3, 4, 5, 6, 7); $body }
            9 => { let $b = tup!($s; 0, 1, 2, 3, 4, 5, 6, 7, 8); $body }
            10 => { let $b = tup!($s; 0, 1, 2, 3, 4, 5, 6, 7, 8, 9); $body }
            11 => { let $b = tup!($s; 0, 1, 2, 3, 4, 5, 6, 7, 8, 9, 10); $body }
            12 => { let $b = tup!($s; 0, 1, 2, 3, 4, 5, 6, 7, 8, 9, 10, 11); $body }
            13 => { let $b = tup!($s; 0, 1, 2, 3, 4, 5, 6, 7, 8, 9, 10, 11, 12); $body }
            14 => { let $b = tup!($s; 0, 1, 2, 3, 4, 5, 6, 7, 8, 9, 10, 11, 12, 13); $body }
            15 => { let $b = tup!($s; 0, 1, 2, 3, 4, 5, 6, 7, 8, 9, 10, 11, 12, 13, 14); $body }
            _ => { let $b = (tup!($s; 0, 1, 2, 3, 4, 5, 6, 7), tup!($s; 8, 9, 10, 11, 12, 13, 14, 15)); $body }
        }
    };
}

impl ReactionTriggerBundle for DynBundle
{
    fn len(&self) -> usize { via_tuple!(self, |b| ReactionTriggerBundle::len(&b)) }
    fn collect_reactor_types(self, func: &mut impl FnMut(ReactorType))
    {
        via_tuple!(self, |b| b.collect_reactor_types(&mut *func))
    }
    fn register_triggers(self, commands: &mut Commands, handle: &ReactorHandle)
    {
        via_tuple!(self, |b| b.register_triggers(commands, handle))
    }
}

fn resolve_trigs(ts: &[STrig]) -> Option<DynBundle>
{
    let mut b = DynBundle{ n: 0, t: [DynTrig::Bc(0); MAX_TRIGS] };
    for t in ts.iter().take(MAX_TRIGS)
    {
        let d = match *t
        {
            STrig::Bc(ty) => DynTrig::Bc(ty), STrig::Res(ty) => DynTrig::Res(ty), STrig::Ins(ty) => DynTrig::Ins(ty),
            STrig::Mut(ty) => DynTrig::Mut(ty), STrig::Rem(ty) => DynTrig::Rem(ty), STrig::AnyEv(ty) => DynTrig::AnyEv(ty),
            STrig::EIns(r, ty) => DynTrig::EIns(resolve(r)?, ty), STrig::EMut(r, ty) => DynTrig::EMut(resolve(r)?, ty),
            STrig::ERem(r, ty) => DynTrig::ERem(resolve(r)?, ty), STrig::EEv(r, ty) => DynTrig::EEv(resolve(r)?, ty),
            STrig::Dsp(r) => DynTrig::Dsp(resolve(r)?),
        };
        b.t[b.n] = d;
        b.n += 1;
    }
    Some(b)
}

//-------------------------------------------------------------------------------------------------------------------
// world reactors

struct Wr<const N: usize>{ def: usize, name: usize }
impl<const N: usize> WorldReactor for Wr<N>
{
    type StartingTriggers = ();
    type Triggers = DynBundle;
    fn reactor(self) -> SystemCommandCallback { make_callback(self.def, self.name, None) }
}

struct Ewr<const N: usize>{ def: usize, name: usize }
impl EntityWorldReactor for Ewr<0>
{
    type Triggers = (EntityMutationTrigger<Comp<0>>, EntityEventTrigger<Evt<0>>);
    type Local = u32;
    fn reactor(self) -> SystemCommandCallback { make_callback(self.def, self.name, Some(0)) }
}
impl EntityWorldReactor for Ewr<1>
{
    type Triggers = (EntityInsertionTrigger<Comp<1>>, EntityRemovalTrigger<Comp<1>>, EntityEventTrigger<Evt<1>>);
    type Local = u32;
    fn reactor(self) -> SystemCommandCallback { make_callback(self.def, self.name, Some(1)) }
}

//-------------------------------------------------------------------------------------------------------------------
// scripted systems

type EvReaders<'w, 's> = (
    SystemEvent<'w, 's, Pay<0>>, SystemEvent<'w, 's, Pay<1>>,
    BroadcastEvent<'w, 's, Evt<0>>, BroadcastEvent<'w, 's, Evt<1>>,
    EntityEvent<'w, 's, Evt<0>>, EntityEvent<'w, 's, Evt<1>>,
);
type EntReaders<'w, 's> = (
    InsertionEvent<'w, 's, Comp<0>>, InsertionEvent<'w, 's, Comp<1>>,
    MutationEvent<'w, 's, Comp<0>>, MutationEvent<'w, 's, Comp<1>>,
    RemovalEvent<'w, 's, Comp<0>>, RemovalEvent<'w, 's, Comp<1>>,
    DespawnEvent<'w>,
);
type Access<'w, 's> = (
    ReactiveMut<'w, 's, Comp<0>>, ReactiveMut<'w, 's, Comp<1>>,
    ReactResMut<'w, Evt<0>>, ReactResMut<'w, Evt<1>>,
    // A param with non-trivial validation (`valid 0|1` scenario lines empty / fill the match): the crate runs its
    // systems whether or not Bevy's `validate_param` holds, and never loses them.
    Populated<'w, 's, Entity, With<VMark>>,
    // how many entities carry each reactive component: with exactly one, the `single*` accessors are used half of the time
    Query<'w, 's, Entity, With<React<Comp<0>>>>, Query<'w, 's, Entity, With<React<Comp<1>>>>,
);

/// Marks the one entity matched by every scripted system's `Populated` param.
#[derive(Component)]
struct VMark;

fn opt(v: Option<u32>) -> String { v.map(|x| x.to_string()).unwrap_or("-".into()) }
fn opt_name(v: Option<Entity>) -> String { v.map(name_of).unwrap_or("-".into()) }
/// Like `opt_name`, with a `!` suffix when the named entity does not exist (an insertion that never happened).
fn opt_name_alive(v: Option<Entity>, ents: &bevy::ecs::entity::Entities) -> String
{
    v.map(|e| if ents.contains(e) { name_of(e) } else { format!("{}!", name_of(e)) }).unwrap_or("-".into())
}

/// Samples every reader. System events are taken (twice); taken payloads are dropped after the line is logged.
fn sample(ev: &mut EvReaders, er: &EntReaders, ents: &bevy::ecs::entity::Entities) -> (String, Vec<Payload>)
{
    let mut taken = Vec::new();
    let mut se = Vec::new();
    let mut se2 = Vec::new();
    match ev.0.take() { Ok(p) => { se.push(Some(p.0.0)); taken.push(p.0); } Err(_) => se.push(None) }
    match ev.1.take() { Ok(p) => { se.push(Some(p.0.0)); taken.push(p.0); } Err(_) => se.push(None) }
    match ev.0.take() { Ok(p) => { se2.push(Some(p.0.0)); taken.push(p.0); } Err(_) => se2.push(None) }
    match ev.1.take() { Ok(p) => { se2.push(Some(p.0.0)); taken.push(p.0); } Err(_) => se2.push(None) }
    let bc = [ev.2.try_read().ok().map(|e| e.0.0), ev.3.try_read().ok().map(|e| e.0.0)];
    let ee = [
        ev.4.try_read().ok().map(|(t, e)| format!("{}:{}", name_of(t), e.0.0)).unwrap_or("-".into()),
        ev.5.try_read().ok().map(|(t, e)| format!("{}:{}", name_of(t), e.0.0)).unwrap_or("-".into()),
    ];
    // every reader has several accessors: they must agree with each other
    macro_rules! bc_check { ($r:expr, $n:literal) => {
        let t = $r.try_read().ok().map(|e| e.0.0);
        if $r.is_empty() != t.is_none() { log(format!("accessor-mismatch bc{} is_empty={} try_read={}", $n, $r.is_empty(), opt(t))); }
        if !$r.is_empty() && t.is_some() && Some($r.read().0.0) != t { log(format!("accessor-mismatch bc{} read", $n)); }
    } }
    bc_check!(ev.2, 0); bc_check!(ev.3, 1);
    macro_rules! ev_check { ($r:expr, $n:literal) => {
        let t = $r.try_read().ok().map(|(t, e)| (t, e.0.0));
        if $r.is_empty() != t.is_none() { log(format!("accessor-mismatch ev{} is_empty={} try_read={}", $n, $r.is_empty(), t.is_some())); }
        if $r.get_entity().ok() != t.map(|x| x.0) { log(format!("accessor-mismatch ev{} get_entity", $n)); }
        if let Some((te, tp)) = t { if !$r.is_empty() { let (re, rp) = $r.read(); if re != te || rp.0.0 != tp || $r.entity() != te { log(format!("accessor-mismatch ev{} read", $n)); } } }
    } }
    ev_check!(ev.4, 0); ev_check!(ev.5, 1);
    macro_rules! er_check { ($r:expr, $n:literal) => {
        let g = $r.get().ok();
        if $r.is_empty() != g.is_none() { log(format!("accessor-mismatch {} is_empty={} get={}", $n, $r.is_empty(), opt_name(g))); }
        if let Some(e) = g { if !$r.is_empty() && $r.entity() != e { log(format!("accessor-mismatch {} entity", $n)); } }
    } }
    er_check!(er.0, "ins0"); er_check!(er.1, "ins1"); er_check!(er.2, "mut0"); er_check!(er.3, "mut1"); er_check!(er.4, "rem0"); er_check!(er.5, "rem1");
    // the three ways of reading a despawn event must agree
    let dsp = er.6.get().ok();
    let dsp2 = if er.6.is_empty() { None } else { Some(er.6.entity()) };
    if dsp != dsp2 { log(format!("accessor-mismatch dsp {} {}", opt_name(dsp), opt_name(dsp2))); }
    let s = format!(
        "se={},{} se2={},{} bc={},{} ev={},{} ins={},{} mut={},{} rem={},{} dsp={}",
        opt(se[0]), opt(se[1]), opt(se2[0]), opt(se2[1]), opt(bc[0]), opt(bc[1]), ee[0], ee[1],
        opt_name_alive(er.0.get().ok(), ents), opt_name_alive(er.1.get().ok(), ents),
        opt_name(er.2.get().ok()), opt_name(er.3.get().ok()),
        opt_name(er.4.get().ok()), opt_name(er.5.get().ok()),
        opt_name(dsp),
    );
    (s, taken)
}

fn script_for(def: usize, run: u32) -> Vec<SAct>
{
    SH.with(|s| s.borrow().defs.get(def).and_then(|d| d.runs.get(run as usize)).cloned().unwrap_or_default())
}

thread_local! {
    /// The scripted action being interpreted: (owner, run, index in the script).
    static CUR_ACT: RefCell<(String, u32, usize)> = RefCell::new((String::new(), 0, 0));
}
/// A reacting accessor call that, by C14, must not trigger (`get_mut` that failed, `set_if_neq` that stored nothing): a `note`
/// line for the C14 automaton, which then demands that the action's marker bracket stays empty. `note` lines are not part of
/// the compared trace (the model prints none).
fn note_no_trigger()
{
    let (o, r, j) = CUR_ACT.with(|c| c.borrow().clone());
    log(format!("note notrigger {o} {r} {j}"));
}

fn marker(c: &mut Commands, plus: bool, owner: &str, run: u32, act: usize)
{
    let line = format!("{} {} {} {}", if plus { "m+" } else { "m-" }, owner, run, act);
    c.queue(move |_: &mut World| log(line));
}

/// Where a scripted action is being interpreted.
/// What a scripted action can use besides `Commands`: the reactive accessors, and — where the system could take them as
/// parameters — the `EntityReactor` handles for a direct `EntityReactor::add` (`ewraddnow`).
enum Ctx<'a, 'w, 's, 'r> { Full(&'a mut Access<'w, 's>, Option<&'a EntityReactor<'r, Ewr<0>>>, Option<&'a EntityReactor<'r, Ewr<1>>>), CommandsOnly }

fn new_system_name(e: Entity) -> usize
{
    SH.with(|s| { let mut s = s.borrow_mut(); s.sys_names.push(e); s.sys_names.len() - 1 })
}
/// Queued right after the command that inserts the system's callback: from then on the system may be despawned.
fn mark_ready(c: &mut Commands, e: Entity) { c.queue(move |_: &mut World| { SH.with(|s| { s.borrow_mut().ready.insert(e); }); }); }
/// A named system whose callback insertion is still queued (despawning it now would make `Commands::spawn` panic).
fn pending_system(e: Entity) -> bool
{
    SH.with(|s| { let s = s.borrow(); s.sys_names.contains(&e) && !s.ready.contains(&e) })
}
fn next_system_name() -> usize { SH.with(|s| s.borrow().sys_names.len()) }

/// Spawns a scripted system command for definition `def` (ordinary or exclusive).
fn spawn_scripted(c: &mut Commands, def: usize) -> Option<SystemCommand>
{
    let excl = SH.with(|s| s.borrow().defs.get(def).map(|d| d.excl))?;
    let name = next_system_name();
    // both spawning entry points: from a system, or from a ready-made callback (alternating by name)
    let sys = if name % 2 == 0
    {
        if excl { c.spawn_system_command(make_exclusive(def, name)) } else { c.spawn_system_command(make_ordinary(def, name, None)) }
    }
    else
    {
        if excl { c.spawn_system_command_from(SystemCommandCallback::new(make_exclusive(def, name))) }
        else { c.spawn_system_command_from(SystemCommandCallback::new(make_ordinary(def, name, None))) }
    };
    new_system_name(*sys);
    mark_ready(c, *sys);
    Some(sys)
}

fn mode_of(m: SMode) -> ReactorMode
{
    match m { SMode::P => ReactorMode::Persistent, SMode::C => ReactorMode::Cleanup, SMode::R => ReactorMode::Revokable }
}

fn interpret(c: &mut Commands, ctx: &mut Ctx, act: &SAct)
{
    match act
    {
        // (only an exclusive body can call the `World`-level senders or flush: see `make_exclusive`)
        SAct::Direct(a) => interpret(c, ctx, a),
        SAct::Flush => {}
        SAct::RunNow(r) => { let Some(e) = resolve(*r) else { return }; c.queue(SystemCommand(e)); }
        SAct::Spawn => { let e = c.spawn_empty().id(); SH.with(|s| s.borrow_mut().ent_names.push(e)); }
        SAct::SpawnSys(d) => { spawn_scripted(c, *d); }
        SAct::On(m, d, ts) =>
        {
            let Some(b) = resolve_trigs(ts) else { return };
            let Some(excl) = SH.with(|s| s.borrow().defs.get(*d).map(|d| d.excl)) else { return };
            let name = next_system_name();
            match m
            {
                SMode::C =>
                {
                    // `on` returns nothing; spell it out as it is implemented so the reactor can be named.
                    let sys = if excl { c.spawn_system_command(make_exclusive(*d, name)) } else { c.spawn_system_command(make_ordinary(*d, name, None)) };
                    new_system_name(*sys);
                    mark_ready(c, *sys);
                    c.react().with(b, sys, ReactorMode::Cleanup);
                }
                SMode::P =>
                {
                    let sys = if excl { c.react().on_persistent(b, make_exclusive(*d, name)) } else { c.react().on_persistent(b, make_ordinary(*d, name, None)) };
                    new_system_name(*sys);
                    mark_ready(c, *sys);
                }
                SMode::R =>
                {
                    let tok = if excl { c.react().on_revokable(b, make_exclusive(*d, name)) } else { c.react().on_revokable(b, make_ordinary(*d, name, None)) };
                    new_system_name(*SystemCommand::from(tok.clone()));
                    mark_ready(c, *SystemCommand::from(tok.clone()));
                    SH.with(|s| s.borrow_mut().tokens.push(tok));
                }
            }
        }
        SAct::With(m, r, ts) =>
        {
            let (Some(sys), Some(b)) = (resolve(*r), resolve_trigs(ts)) else { return };
            if let Some(tok) = c.react().with(b, SystemCommand(sys), mode_of(*m)) { SH.with(|s| s.borrow_mut().tokens.push(tok)); }
        }
        SAct::Once(d, ts) =>
        {
            let Some(b) = resolve_trigs(ts) else { return };
            if SH.with(|s| s.borrow().defs.get(*d).is_none()) { return }
            let name = next_system_name();
            let tok = c.react().once(b, make_ordinary(*d, name, None));
            let k = new_system_name(*SystemCommand::from(tok.clone()));
            SH.with(|s| s.borrow_mut().onces.push(k));
            mark_ready(c, *SystemCommand::from(tok.clone()));
            SH.with(|s| s.borrow_mut().tokens.push(tok));
        }
        SAct::OnceFn(d, ts) =>
        {
            // `once` with a zero-sized function item (what user code usually passes): the same generic `fn` as the app
            // reactors, so several one-off reactors — and persistent reactors — are instances of one system type
            let Some(b) = resolve_trigs(ts) else { return };
            if *d > 3 || SH.with(|s| s.borrow().defs.get(*d).is_none()) { return }
            let tok = match *d
            {
                0 => c.react().once(b, app_reactor::<0>),
                1 => c.react().once(b, app_reactor::<1>),
                2 => c.react().once(b, app_reactor::<2>),
                _ => c.react().once(b, app_reactor::<3>),
            };
            let k = new_system_name(*SystemCommand::from(tok.clone()));
            SH.with(|s| s.borrow_mut().onces.push(k));
            mark_ready(c, *SystemCommand::from(tok.clone()));
            SH.with(|s| s.borrow_mut().tokens.push(tok));
        }
        SAct::Revoke(k) =>
        {
            let Some(tok) = SH.with(|s| s.borrow().tokens.get(*k).cloned()) else { return };
            c.react().revoke(tok);
        }
        SAct::Run(r) => { let Some(e) = resolve(*r) else { return }; c.queue(SystemCommand(e)); }
        SAct::SysEvent(r, ty, pid) =>
        {
            let Some(e) = resolve(*r) else { return };
            log(format!("send p{pid}"));
            if *ty == 0 { c.send_system_event(SystemCommand(e), Pay::<0>(Payload(*pid))); } else { c.send_system_event(SystemCommand(e), Pay::<1>(Payload(*pid))); }
        }
        SAct::Broadcast(ty, pid) =>
        {
            log(format!("send p{pid}"));
            // (every other time through a reborrowed `ReactCommands`)
            if *pid % 2 == 0
            {
                let mut rc = c.react();
                if *ty == 0 { rc.reborrow().broadcast(Evt::<0>::ev(*pid)); } else { rc.reborrow().broadcast(Evt::<1>::ev(*pid)); }
            }
            else if *ty == 0 { c.react().broadcast(Evt::<0>::ev(*pid)); } else { c.react().broadcast(Evt::<1>::ev(*pid)); }
        }
        SAct::EntityEvent(r, ty, pid) =>
        {
            let Some(e) = resolve(*r) else { return };
            log(format!("send p{pid}"));
            if *ty == 0 { c.react().entity_event(e, Evt::<0>::ev(*pid)); } else { c.react().entity_event(e, Evt::<1>::ev(*pid)); }
        }
        SAct::ResMut(ty) =>
        {
            if *ty == 0 { c.react().trigger_resource_mutation::<Evt<0>>(); } else { c.react().trigger_resource_mutation::<Evt<1>>(); }
        }
        SAct::ResSet(ty, v, neq) =>
        {
            let Ctx::Full(acc, ..) = ctx else { log("unsupported-in-exclusive".into()); return };
            if *neq
            {
                let old = if *ty == 0 { acc.2.set_if_neq(c, Evt::<0>::res(*v)).map(|x| x.1) } else { acc.3.set_if_neq(c, Evt::<1>::res(*v)).map(|x| x.1) };
                log(format!("ret {}", opt(old)));
            }
            else if *ty == 0 { acc.2.get_mut(c).1 = *v; } else { acc.3.get_mut(c).1 = *v; }
        }
        SAct::ResRead(ty) =>
        {
            let Ctx::Full(acc, ..) = ctx else { log("unsupported-in-exclusive".into()); return };
            let v = if *ty == 0 { acc.2.1 } else { acc.3.1 };
            log(format!("ret {v}"));
        }
        SAct::Insert(r, ty, v) =>
        {
            let Some(e) = resolve(*r) else { return };
            // (odd values: `ReactCommands` obtained from the entity's `EntityCommands`, when the entity exists)
            if *v % 2 == 1
            {
                if let Some(mut ec) = c.get_entity(e)
                {
                    if *ty == 0 { ec.react().insert(e, Comp::<0>(*v)); } else { ec.react().insert(e, Comp::<1>(*v)); }
                    return
                }
            }
            if *ty == 0 { c.react().insert(e, Comp::<0>(*v)); } else { c.react().insert(e, Comp::<1>(*v)); }
        }
        SAct::MutNr(r, ty, v) =>
        {
            let Some(e) = resolve(*r) else { return };
            let Ctx::Full(acc, ..) = ctx else { log("unsupported-in-exclusive".into()); return };
            let single = *v % 2 == 0 && if *ty == 0 { acc.5.iter().count() == 1 && acc.5.contains(e) } else { acc.6.iter().count() == 1 && acc.6.contains(e) };
            if single { if *ty == 0 { acc.0.single_noreact().1.0 = *v; } else { acc.1.single_noreact().1.0 = *v; } }
            else if *ty == 0 { if let Ok(x) = acc.0.get_noreact(e) { x.0 = *v; } } else { if let Ok(x) = acc.1.get_noreact(e) { x.0 = *v; } }
        }
        SAct::ResNr(ty, v) =>
        {
            let Ctx::Full(acc, ..) = ctx else { log("unsupported-in-exclusive".into()); return };
            if *ty == 0 { acc.2.get_noreact().1 = *v; } else { acc.3.get_noreact().1 = *v; }
        }
        SAct::Mutate(r, ty, v) =>
        {
            let Some(e) = resolve(*r) else { return };
            let Ctx::Full(acc, ..) = ctx else { log("unsupported-in-exclusive".into()); return };
            let single = *v % 2 == 0 && if *ty == 0 { acc.5.iter().count() == 1 && acc.5.contains(e) } else { acc.6.iter().count() == 1 && acc.6.contains(e) };
            if single { if *ty == 0 { acc.0.single_mut(c).1.0 = *v; } else { acc.1.single_mut(c).1.0 = *v; } }
            else if *ty == 0 { if let Ok(x) = acc.0.get_mut(c, e) { x.0 = *v; } else { note_no_trigger(); } }
            else { if let Ok(x) = acc.1.get_mut(c, e) { x.0 = *v; } else { note_no_trigger(); } }
        }
        SAct::SetNeq(r, ty, v) =>
        {
            let Some(e) = resolve(*r) else { return };
            let Ctx::Full(acc, ..) = ctx else { log("unsupported-in-exclusive".into()); return };
            let single = *v % 2 == 0 && if *ty == 0 { acc.5.iter().count() == 1 && acc.5.contains(e) } else { acc.6.iter().count() == 1 && acc.6.contains(e) };
            let old = if single { if *ty == 0 { acc.0.set_single_if_not_eq(c, Comp::<0>(*v)).1.map(|x| x.0) } else { acc.1.set_single_if_not_eq(c, Comp::<1>(*v)).1.map(|x| x.0) } }
                else if *ty == 0 { acc.0.set_if_neq(c, e, Comp::<0>(*v)).map(|x| x.0) } else { acc.1.set_if_neq(c, e, Comp::<1>(*v)).map(|x| x.0) };
            if old.is_none() { note_no_trigger(); }
            log(format!("ret {}", opt(old)));
        }
        SAct::ReadComp(r, ty) =>
        {
            let Some(e) = resolve(*r) else { return };
            let Ctx::Full(acc, ..) = ctx else { log("unsupported-in-exclusive".into()); return };
            let single = if *ty == 0 { acc.5.iter().count() == 1 && acc.5.contains(e) } else { acc.6.iter().count() == 1 && acc.6.contains(e) };
            let v = if single { if *ty == 0 { Some(acc.0.single().1.0) } else { Some(acc.1.single().1.0) } }
                else if *ty == 0 { acc.0.get(e).ok().map(|x| x.0) } else { acc.1.get(e).ok().map(|x| x.0) };
            log(format!("ret {}", opt(v)));
        }
        SAct::Remove(r, ty) =>
        {
            let Some(e) = resolve(*r) else { return };
            let Some(mut ec) = c.get_entity(e) else { return };
            if *ty == 0 { ec.remove::<React<Comp<0>>>(); } else { ec.remove::<React<Comp<1>>>(); }
        }
        SAct::Despawn(r) =>
        {
            let Some(e) = resolve(*r) else { return };
            if pending_system(e) { return }
            let Some(mut ec) = c.get_entity(e) else { return };
            ec.despawn();
        }
        SAct::DespawnRec(r) =>
        {
            let Some(e) = resolve(*r) else { return };
            if pending_system(e) { return }
            let Some(ec) = c.get_entity(e) else { return };
            ec.despawn_recursive();
        }
        SAct::EwrAdd(wr, r, v) =>
        {
            let Some(e) = resolve(*r) else { return };
            if *wr >= SH.with(|s| s.borrow().n_ewr) { return }
            let Some(mut ec) = c.get_entity(e) else { return };
            if *wr == 0 { ec.add_world_reactor::<Ewr<0>>(*v); } else { ec.add_world_reactor::<Ewr<1>>(*v); }
        }
        SAct::EwrAddNow(wr, r, v) =>
        {
            let Some(e) = resolve(*r) else { return };
            if *wr >= SH.with(|s| s.borrow().n_ewr) { return }
            // `EntityReactor::add` called by the body itself where the system has the parameter; the queued form elsewhere
            let direct = match (&*ctx, *wr)
            {
                (Ctx::Full(_, Some(r0), _), 0) => { r0.add(c, e, *v); true }
                (Ctx::Full(_, _, Some(r1)), 1) => { r1.add(c, e, *v); true }
                _ => false,
            };
            if !direct
            {
                let Some(mut ec) = c.get_entity(e) else { return };
                if *wr == 0 { ec.add_world_reactor::<Ewr<0>>(*v); } else { ec.add_world_reactor::<Ewr<1>>(*v); }
            }
        }
        SAct::EwrRemove(wr, ts) =>
        {
            let Some(b) = resolve_trigs(ts) else { return };
            if *wr >= SH.with(|s| s.borrow().n_ewr) { return }
            if *wr == 0
            { c.syscall(b, |In(b): In<DynBundle>, mut c: Commands, r: EntityReactor<Ewr<0>>| { r.remove(&mut c, b); }); }
            else
            { c.syscall(b, |In(b): In<DynBundle>, mut c: Commands, r: EntityReactor<Ewr<1>>| { r.remove(&mut c, b); }); }
        }
        SAct::WrAdd(wr, ts) =>
        {
            let Some(b) = resolve_trigs(ts) else { return };
            if *wr >= SH.with(|s| s.borrow().n_wr) { return }
            if *wr == 0
            { c.syscall(b, |In(b): In<DynBundle>, mut c: Commands, r: Reactor<Wr<0>>| { r.add(&mut c, b); }); }
            else
            { c.syscall(b, |In(b): In<DynBundle>, mut c: Commands, r: Reactor<Wr<1>>| { r.add(&mut c, b); }); }
        }
        SAct::WrRemove(wr, ts) =>
        {
            let Some(b) = resolve_trigs(ts) else { return };
            if *wr >= SH.with(|s| s.borrow().n_wr) { return }
            if *wr == 0
            { c.syscall(b, |In(b): In<DynBundle>, mut c: Commands, r: Reactor<Wr<0>>| { r.remove(&mut c, b); }); }
            else
            { c.syscall(b, |In(b): In<DynBundle>, mut c: Commands, r: Reactor<Wr<1>>| { r.remove(&mut c, b); }); }
        }
        SAct::WrRun(wr) =>
        {
            if *wr >= SH.with(|s| s.borrow().n_wr) { return }
            if *wr == 0
            { c.syscall((), |mut c: Commands, r: Reactor<Wr<0>>| { r.run(&mut c); }); }
            else
            { c.syscall((), |mut c: Commands, r: Reactor<Wr<1>>| { r.run(&mut c); }); }
        }
    }
}

fn run_script(c: &mut Commands, ctx: &mut Ctx, script: &[SAct], owner: &str, run: u32)
{
    for (j, act) in script.iter().enumerate()
    {
        marker(c, true, owner, run, j);
        CUR_ACT.with(|a| *a.borrow_mut() = (owner.to_string(), run, j));
        interpret(c, ctx, act);
        marker(c, false, owner, run, j);
    }
}

fn run_label(local: u32, cap: u32) -> String
{
    if local == cap { format!("r{local}") } else { format!("r{local}!c{cap}") }
}

/// An ordinary scripted system. `ewr` = index of the entity world reactor this system is (it then reads `EntityLocal`).
fn make_ordinary(def: usize, name: usize, ewr: Option<usize>)
    -> impl FnMut(Local<u32>, Commands, EvReaders, EntReaders, Access, (EntityReactor<Ewr<0>>, EntityReactor<Ewr<1>>), &bevy::ecs::entity::Entities) -> AnyRes + Send + Sync + 'static
{
    debug_assert!(ewr.is_none());
    let canary = Canary(name);
    let mut cap = 0u32;
    move |mut local: Local<u32>, mut c: Commands, mut ev: EvReaders, er: EntReaders, mut acc: Access,
          nows: (EntityReactor<Ewr<0>>, EntityReactor<Ewr<1>>), ents: &bevy::ecs::entity::Entities|
    {
        let _ = &canary;
        let run = *local;
        let (obs, taken) = sample(&mut ev, &er, ents);
        log(format!("body s{} {} {} loc=", name, run_label(run, cap), obs));
        drop(taken);
        *local += 1;
        cap += 1;
        if runaway() { return AnyRes::W(OK); }
        let script = script_for(def, run);
        let owner = format!("s{name}");
        run_script(&mut c, &mut Ctx::Full(&mut acc, Some(&nows.0), Some(&nows.1)), &script, &owner, run);
        log(format!("bodyend s{name}"));
        scripted_result(name, run)
    }
}

/// What a scripted system returns. The crate implements `CobwebResult` for `WarnErr`, `DropErr` and `()`; a scripted system
/// uses one of the three by its name, through a wrapper that only delegates to the crate's implementation. Every third
/// (name + run) is an error. The model ignores results, as the crate's bookkeeping must.
pub enum AnyRes { W(WarnErr), D(DropErr), U(()) }

impl CobwebResult for AnyRes
{
    fn need_to_handle(&self) -> bool
    {
        match self { AnyRes::W(r) => r.need_to_handle(), AnyRes::D(r) => r.need_to_handle(), AnyRes::U(r) => r.need_to_handle() }
    }
    fn handle(self, world: &mut World)
    {
        match self { AnyRes::W(r) => r.handle(world), AnyRes::D(r) => r.handle(world), AnyRes::U(r) => r.handle(world) }
    }
}

fn scripted_result(name: usize, run: u32) -> AnyRes
{
    let err = (name + run as usize) % 3 == 0;
    match name % 3
    {
        0 => AnyRes::W(if err { Err(WarnError::Msg(format!("scripted error of s{name} run {run}"))) } else { OK }),
        1 => AnyRes::D(if err { Err(IgnoredError) } else { DONE }),
        _ => AnyRes::U(()),
    }
}

macro_rules! make_ewr_system {
    ($fname:ident, $n:literal, $m:literal, $ctx:expr) => {
        fn $fname(def: usize, name: usize)
            -> impl FnMut(Local<u32>, Commands, EvReaders, EntReaders, Access, EntityLocal<Ewr<$n>>, EntityReactor<Ewr<$m>>, &bevy::ecs::entity::Entities) + Send + Sync + 'static
        {
            let canary = Canary(name);
            let mut cap = 0u32;
            move |mut local: Local<u32>, mut c: Commands, mut ev: EvReaders, er: EntReaders, mut acc: Access,
                  mut loc: EntityLocal<Ewr<$n>>, other: EntityReactor<Ewr<$m>>, ents: &bevy::ecs::entity::Entities|
            {
                let _ = &canary;
                let run = *local;
                let (obs, taken) = sample(&mut ev, &er, ents);
                // `EntityLocal` panics unless the run was caused by an entity reaction for this reactor.
                EXPECT_PANIC.with(|e| e.set(true));
                let l = std::panic::catch_unwind(std::panic::AssertUnwindSafe(|| { let (e, v) = loc.get(); (e, *v) })).ok();
                // the other accessors of `EntityLocal` must agree with `get` (and `get_mut` hands out the same entity's data)
                if let Some((e, v)) = l
                {
                    let e2 = std::panic::catch_unwind(std::panic::AssertUnwindSafe(|| loc.entity())).ok();
                    // ... and every run caused by an entity adds 100 to that entity's local data through `get_mut` (what later
                    // runs for it must see: "as last modified by earlier runs for it")
                    let m = std::panic::catch_unwind(std::panic::AssertUnwindSafe(|| { let (e3, v3) = loc.get_mut(); let r = (e3, *v3); *v3 = r.1 + 100; r })).ok();
                    if e2 != Some(e) || m != Some((e, v))
                    { log(format!("accessor-mismatch EntityLocal get={}:{} entity={:?} get_mut={:?}", name_of(e), v, e2.map(name_of), m.map(|(x, y)| (name_of(x), y)))); }
                }
                EXPECT_PANIC.with(|e| e.set(false));
                let l = l.map(|(e, v)| format!("{}:{}", name_of(e), v)).unwrap_or("-".into());
                log(format!("body s{} {} {} loc={}", name, run_label(run, cap), obs, l));
                drop(taken);
                *local += 1;
                cap += 1;
                if runaway() { return; }
                let script = script_for(def, run);
                let owner = format!("s{name}");
                // its own `EntityReactor` is inside `EntityLocal`; the other reactor's can be a parameter
                run_script(&mut c, &mut $ctx(&mut acc, &other), &script, &owner, run);
                log(format!("bodyend s{name}"));
            }
        }
    };
}
#[derive(Resource, Default)]
struct EntityReactionProbe;
make_ewr_system!(make_ewr0, 0, 1, |acc, other| Ctx::Full(acc, None, Some(other)));
make_ewr_system!(make_ewr1, 1, 0, |acc, other| Ctx::Full(acc, Some(other), None));

fn probe_readers(mut ev: EvReaders, er: EntReaders, ents: &bevy::ecs::entity::Entities) -> String
{
    let (obs, taken) = sample(&mut ev, &er, ents);
    // Payloads taken by the probe are dropped when the caller has logged the line.
    PROBE_TAKEN.with(|t| t.borrow_mut().extend(taken));
    obs
}
thread_local! { static PROBE_TAKEN: RefCell<Vec<Payload>> = RefCell::new(Vec::new()); }
thread_local! { static BODIES: std::cell::Cell<u32> = std::cell::Cell::new(0); }

/// Counts the bodies of a scenario. No generated scenario runs more than about 1500 bodies (every instance executes
/// each of its scripts once); beyond the cap the scripts are skipped so that an implementation which re-creates system
/// state (and therefore re-runs first scripts forever) ends in a reportable trace instead of a stack overflow.
fn runaway() -> bool
{
    let n = BODIES.with(|b| { b.set(b.get() + 1); b.get() });
    if n == 2500 { log("runaway".into()); }
    n >= 2500
}

/// An exclusive scripted system: samples the readers through a `Commands`-free nested syscall and queues its
/// actions on the world queue.
fn make_exclusive(def: usize, name: usize) -> impl FnMut(&mut World, Local<u32>) -> AnyRes + Send + Sync + 'static
{
    let canary = Canary(name);
    let mut cap = 0u32;
    move |world: &mut World, mut local: Local<u32>|
    {
        let _ = &canary;
        let run = *local;
        let obs = world.syscall((), probe_readers);
        log(format!("body s{} {} {} loc=", name, run_label(run, cap), obs));
        let taken: Vec<Payload> = PROBE_TAKEN.with(|t| std::mem::take(&mut *t.borrow_mut()));
        drop(taken);
        *local += 1;
        cap += 1;
        if runaway() { return AnyRes::W(OK); }
        let script = script_for(def, run);
        let owner = format!("s{name}");
        for (j, act) in script.iter().enumerate()
        {
            { let mut c = world.commands(); marker(&mut c, true, &owner, run, j); }
            match act
            {
                SAct::Flush => world.flush(),
                // a command applied in-line over whatever the body has queued: the runner's own poll flushes that
                SAct::RunNow(r) => { if let Some(e) = resolve(*r) { bevy::ecs::world::Command::apply(SystemCommand(e), world); } }
                SAct::Direct(a) =>
                {
                    // the `World`-level senders, in-line: whatever the body queued so far (its own cleanup first) is applied,
                    // then the event is delivered before the body goes on
                    world.flush();
                    direct_send(world, a);
                }
                _ => { let mut c = world.commands(); interpret(&mut c, &mut Ctx::CommandsOnly, act); }
            }
            { let mut c = world.commands(); marker(&mut c, false, &owner, run, j); }
        }
        log(format!("bodyend s{name}"));
        scripted_result(name, run)
    }
}

/// `World::send_system_event` / `World::broadcast` / `World::entity_event` (`ReactWorldExt`); a manual run applied in-line
/// (`SystemCommand::apply`).
fn direct_send(world: &mut World, act: &SAct)
{
    match act
    {
        SAct::Run(r) =>
        {
            let Some(e) = resolve(*r) else { return };
            bevy::ecs::world::Command::apply(SystemCommand(e), world);
        }
        SAct::SysEvent(r, ty, pid) =>
        {
            let Some(e) = resolve(*r) else { return };
            log(format!("send p{pid}"));
            if *ty == 0 { world.send_system_event(SystemCommand(e), Pay::<0>(Payload(*pid))); } else { world.send_system_event(SystemCommand(e), Pay::<1>(Payload(*pid))); }
        }
        SAct::Broadcast(ty, pid) =>
        {
            log(format!("send p{pid}"));
            if *ty == 0 { world.broadcast(Evt::<0>::ev(*pid)); } else { world.broadcast(Evt::<1>::ev(*pid)); }
        }
        SAct::EntityEvent(r, ty, pid) =>
        {
            let Some(e) = resolve(*r) else { return };
            log(format!("send p{pid}"));
            if *ty == 0 { world.entity_event(e, Evt::<0>::ev(*pid)); } else { world.entity_event(e, Evt::<1>::ev(*pid)); }
        }
        _ => {}
    }
}

thread_local! { static CURRENT: RefCell<Vec<Entity>> = RefCell::new(Vec::new()); }
thread_local! { static ZST_RUNS: RefCell<std::collections::HashMap<usize, u32>> = RefCell::new(std::collections::HashMap::new()); }

/// A zero-sized scripted reactor (a plain `fn` item) for `App::add_reactor`: it cannot capture its name, so it looks up
/// the system the runner is executing (maintained by the hook sink); its "captured" counter lives in a side table keyed by
/// that name, so that a `Local` shared between two registrations of the same function shows as a label mismatch.
fn app_reactor<const D: usize>(mut local: Local<u32>, mut c: Commands, mut ev: EvReaders, er: EntReaders, mut acc: Access,
    nows: (EntityReactor<Ewr<0>>, EntityReactor<Ewr<1>>), ents: &bevy::ecs::entity::Entities) -> AnyRes
{
    let Some(me) = CURRENT.with(|c| c.borrow().last().copied()) else { log("app reactor outside the runner".into()); return AnyRes::W(OK) };
    let name = SH.with(|s| s.borrow().sys_names.iter().position(|x| *x == me)).unwrap_or(usize::MAX);
    let cap = ZST_RUNS.with(|z| { let mut z = z.borrow_mut(); let e = z.entry(name).or_insert(0); let v = *e; *e += 1; v });
    let run = *local;
    let (obs, taken) = sample(&mut ev, &er, ents);
    log(format!("body s{} {} {} loc=", name, run_label(run, cap), obs));
    drop(taken);
    *local += 1;
    if runaway() { return AnyRes::W(OK); }
    let script = script_for(D, cap);
    let owner = format!("s{name}");
    run_script(&mut c, &mut Ctx::Full(&mut acc, Some(&nows.0), Some(&nows.1)), &script, &owner, cap);
    log(format!("bodyend s{name}"));
    scripted_result(name, cap)
}

/// `top appreactor d trigs`: `App::add_reactor` with a zero-sized reactor function (exclusive definitions use the ordinary
/// closure path). The markers a batch would queue around the action are logged around the call.
fn add_app_reactor(app: &mut App, t: usize, d: usize, ts: &[STrig])
{
    log(format!("top {t}"));
    log(format!("m+ top{t} 0 0"));
    let done = format!("m- top{t} 0 0");
    let Some(b) = resolve_trigs(ts) else { log(done); return };
    let Some(excl) = SH.with(|s| s.borrow().defs.get(d).map(|d| d.excl)) else { log(done); return };
    let before: Vec<Entity> = app.world().iter_entities().map(|e| e.id()).collect();
    let name = next_system_name();
    if excl { app.add_reactor(b, make_exclusive(d, name)); }
    else
    {
        match d
        {
            0 => { app.add_reactor(b, app_reactor::<0>); }
            1 => { app.add_reactor(b, app_reactor::<1>); }
            2 => { app.add_reactor(b, app_reactor::<2>); }
            3 => { app.add_reactor(b, app_reactor::<3>); }
            _ => { app.add_reactor(b, make_ordinary(d, name, None)); }
        }
    }
    // the reactor entity is the one new entity that carries system command storage
    let new: Vec<Entity> = app.world().iter_entities().map(|e| e.id()).filter(|e| !before.contains(e)).collect();
    if let Some(e) = new.first().copied() { new_system_name(e); SH.with(|s| { s.borrow_mut().ready.insert(e); }); }
    log(done);
}

fn make_callback(def: usize, name: usize, ewr: Option<usize>) -> SystemCommandCallback
{
    let excl = SH.with(|s| s.borrow().defs.get(def).map(|d| d.excl)).unwrap_or(false);
    match ewr
    {
        Some(0) => SystemCommandCallback::new(make_ewr0(def, name)),
        Some(_) => SystemCommandCallback::new(make_ewr1(def, name)),
        None => if excl { SystemCommandCallback::new(make_exclusive(def, name)) } else { SystemCommandCallback::new(make_ordinary(def, name, None)) },
    }
}

//-------------------------------------------------------------------------------------------------------------------
// quiescent snapshot

fn bit(b: bool) -> &'static str { if b { "1" } else { "0" } }

fn ty_of(id: TypeId, which: &str) -> Option<usize>
{
    let c = [TypeId::of::<Comp<0>>(), TypeId::of::<Comp<1>>()];
    let e = [TypeId::of::<Evt<0>>(), TypeId::of::<Evt<1>>()];
    let r = [TypeId::of::<Evt<0>>(), TypeId::of::<Evt<1>>()];
    let arr = match which { "c" => c, "e" => e, _ => r };
    arr.iter().position(|x| *x == id)
}

#[cfg(feature = "hooks")]
fn show_reg(r: &bevy_cobweb::verif::Registration) -> String
{
    match r.strong_count { None => name_of(r.reactor), Some(n) => format!("{}:{}", name_of(r.reactor), n) }
}

fn quiescent(world: &mut World)
{
    let (ents, syss) = SH.with(|s| { let s = s.borrow(); (s.ent_names.clone(), s.sys_names.clone()) });
    let named: Vec<Entity> = ents.iter().chain(syss.iter()).copied().collect();
    let alive = |w: &World, e: Entity| w.get_entity(e).is_ok();
    let qa = format!("qa {} {}",
        ents.iter().map(|e| bit(alive(world, *e))).collect::<String>(),
        syss.iter().map(|e| bit(alive(world, *e))).collect::<String>());
    let qc = format!("qc {}", named.iter().map(|e| format!("{}/{}",
        opt(world.get::<React<Comp<0>>>(*e).map(|c| c.get().0)),
        opt(world.get::<React<Comp<1>>>(*e).map(|c| c.get().0)))).collect::<Vec<_>>().join(","));
    let qr = format!("qr {},{}", world.react_resource::<Evt<0>>().1, world.react_resource::<Evt<1>>().1);
    log(qa); log(qc); log(qr);

    #[cfg(feature = "hooks")]
    {
        use bevy_cobweb::verif::TableKey;
        let snap = bevy_cobweb::verif::snapshot(world);
        let t = snap.trackers;
        log(format!("qs counter={} buffered={} se={}/{} ev={}/{} er={}/{} de={}/{} held={} taken={}",
            snap.counter, snap.buffered, bit(t[0].0), t[0].1, bit(t[1].0), t[1].1, bit(t[2].0), t[2].1, bit(t[3].0), t[3].1,
            bit(snap.despawn_handle_held), snap.taken.len()));
        // canonical table order: type-wide by (table, type), despawn by name order, entity tables by name order
        let mut items: Vec<String> = Vec::new();
        let tw: [(&str, &str, fn(&TableKey) -> Option<TypeId>); 6] = [
            ("ins", "c", |k| if let TableKey::Insertion(id) = k { Some(*id) } else { None }),
            ("mut", "c", |k| if let TableKey::Mutation(id) = k { Some(*id) } else { None }),
            ("rem", "c", |k| if let TableKey::Removal(id) = k { Some(*id) } else { None }),
            ("anyev", "e", |k| if let TableKey::AnyEntityEvent(id) = k { Some(*id) } else { None }),
            ("res", "r", |k| if let TableKey::Resource(id) = k { Some(*id) } else { None }),
            ("bc", "e", |k| if let TableKey::Broadcast(id) = k { Some(*id) } else { None }),
        ];
        for (tname, which, sel) in tw.iter()
        {
            for ty in 0..2usize
            {
                for (key, regs) in snap.tables.iter()
                {
                    let Some(id) = sel(key) else { continue };
                    if ty_of(id, which) != Some(ty) || regs.is_empty() { continue }
                    items.push(format!("{}{}=[{}]", tname, ty, regs.iter().map(show_reg).collect::<Vec<_>>().join(",")));
                }
            }
        }
        for e in named.iter()
        {
            for (key, regs) in snap.tables.iter()
            {
                if let TableKey::Despawn(x) = key { if x == e && !regs.is_empty() {
                    items.push(format!("dsp:{}=[{}]", name_of(*e), regs.iter().map(show_reg).collect::<Vec<_>>().join(",")));
                } }
            }
        }
        for e in named.iter()
        {
            for kind in 0..4usize
            {
                for ty in 0..2usize
                {
                    let mut regs: Vec<String> = Vec::new();
                    for (key, r) in snap.tables.iter()
                    {
                        let m = match (kind, key)
                        {
                            (0, TableKey::EntityInsertion(x, id)) => x == e && ty_of(*id, "c") == Some(ty),
                            (1, TableKey::EntityMutation(x, id)) => x == e && ty_of(*id, "c") == Some(ty),
                            (2, TableKey::EntityRemoval(x, id)) => x == e && ty_of(*id, "c") == Some(ty),
                            (3, TableKey::EntityEvent(x, id)) => x == e && ty_of(*id, "e") == Some(ty),
                            _ => false,
                        };
                        if m { regs.extend(r.iter().map(show_reg)); }
                    }
                    if !regs.is_empty()
                    {
                        let kname = ["eins", "emut", "erem", "eev"][kind];
                        items.push(format!("{}:{}:{}=[{}]", kname, name_of(*e), ty, regs.join(",")));
                    }
                }
            }
        }
        log(format!("qt {}", items.join(" ")));
        let named_alive = named.iter().filter(|e| alive(world, **e)).count();
        // unnamed entities other than the harness's own `VMark` entity
        log(format!("qx {}", world.entities().len() as usize - named_alive - 1));
        log(format!("ql {}", named.iter().map(|e| format!("{}{}",
            bit(bevy_cobweb::verif::has_entity_world_local::<Ewr<0>>(world, *e)),
            bit(bevy_cobweb::verif::has_entity_world_local::<Ewr<1>>(world, *e)))).collect::<Vec<_>>().join(",")));
        log(format!("qk {}", snap.tracked_removals.iter().map(|id| ty_of(*id, "c").map(|x| x.to_string()).unwrap_or("?".into())).collect::<Vec<_>>().join(",")));
    }
}

//-------------------------------------------------------------------------------------------------------------------
// top-level operations

fn top_acts(world: &mut World, t: usize, script: Vec<SAct>)
{
    let owner = format!("top{t}");
    // a batch of one resource action, every other time: the `World`-level resource API (`ReactResWorldExt`), no `Commands`
    if (t % 2 == 0 || RC_NEXT.with(|c| c.get())) && script.len() == 1
    {
        let (plus, minus) = (format!("m+ {owner} 0 0"), format!("m- {owner} 0 0"));
        match script[0]
        {
            SAct::ResMut(ty) =>
            {
                log(plus);
                if ty == 0 { world.trigger_resource_mutation::<Evt<0>>(); } else { world.trigger_resource_mutation::<Evt<1>>(); }
                log(minus);
                return
            }
            SAct::ResNr(ty, v) =>
            {
                if ty == 0 { world.react_resource_mut_noreact::<Evt<0>>().1 = v; } else { world.react_resource_mut_noreact::<Evt<1>>().1 = v; }
                log(plus); log(minus);
                return
            }
            SAct::ResRead(ty) =>
            {
                let v = if ty == 0 { world.react_resource::<Evt<0>>().1 } else { world.react_resource::<Evt<1>>().1 };
                log(format!("ret {v}"));
                log(plus); log(minus);
                return
            }
            SAct::SpawnSys(def) =>
            {
                // `World`-level spawning entry points (`ReactWorldExt`)
                if let Some(excl) = SH.with(|s| s.borrow().defs.get(def).map(|d| d.excl))
                {
                    let name = next_system_name();
                    let sys = if RC_NEXT.with(|c| c.get())
                    {
                        let sig = match (name % 2 == 0, excl)
                        {
                            (true, true) => spawn_rc_system_command(world, make_exclusive(def, name)),
                            (true, false) => spawn_rc_system_command(world, make_ordinary(def, name, None)),
                            (false, true) => spawn_rc_system_command_from(world, SystemCommandCallback::new(make_exclusive(def, name))),
                            (false, false) => spawn_rc_system_command_from(world, SystemCommandCallback::new(make_ordinary(def, name, None))),
                        };
                        let e = sig.entity();
                        RC_PARKED.with(|p| *p.borrow_mut() = Some(sig));
                        SystemCommand(e)
                    }
                    else if name % 2 == 0
                    {
                        if excl { world.spawn_system_command(make_exclusive(def, name)) } else { world.spawn_system_command(make_ordinary(def, name, None)) }
                    }
                    else
                    {
                        if excl { world.spawn_system_command_from(SystemCommandCallback::new(make_exclusive(def, name))) }
                        else { world.spawn_system_command_from(SystemCommandCallback::new(make_ordinary(def, name, None))) }
                    };
                    new_system_name(*sys);
                    SH.with(|s| { s.borrow_mut().ready.insert(*sys); });
                }
                log(plus); log(minus);
                return
            }
            _ => {}
        }
    }
    // every other batch that needs no reactive accessor goes through `World::react` (commands, callback, flush) instead of
    // a one-off system with `Commands`
    let needs_access = script.iter().any(|a| matches!(a, SAct::ResSet(..) | SAct::ResRead(..) | SAct::Mutate(..) | SAct::MutNr(..)
        | SAct::ResNr(..) | SAct::SetNeq(..) | SAct::ReadComp(..)));
    if t % 2 == 1 && !needs_access
    {
        world.react(|rc| { let mut c = rc.commands(); run_script(&mut c, &mut Ctx::CommandsOnly, &script, &owner, 0); });
        return
    }
    world.syscall_once((), move |mut c: Commands, mut acc: Access| {
        run_script(&mut c, &mut Ctx::Full(&mut acc, None, None), &script, &owner, 0);
    });
}

fn run_top(world: &mut World, t: usize, op: &STop)
{
    log(format!("top {t}"));
    match op
    {
        STop::Acts(script) => top_acts(world, t, script.clone()),
        STop::AppReactor(..) | STop::Update | STop::ClearTrackers => {}
        STop::WDespawn(r) => { if let Some(e) = resolve(*r) { world.despawn(e); } else { top_acts(world, t, vec![]) } }
        STop::WDespawnRec(r) =>
        {
            if let Some(e) = resolve(*r) { if let Ok(em) = world.get_entity_mut(e) { em.despawn_recursive(); } } else { top_acts(world, t, vec![]) }
        }
        STop::WRemove(r, ty) =>
        {
            if let Some(e) = resolve(*r)
            {
                if let Ok(mut em) = world.get_entity_mut(e) { if *ty == 0 { em.remove::<React<Comp<0>>>(); } else { em.remove::<React<Comp<1>>>(); } }
            } else { top_acts(world, t, vec![]) }
        }
        STop::WInsertRaw(r, ty, v) =>
        {
            // No public way to build `React<C>` directly: insert without reacting through a command batch that
            // uses `ReactCommands::insert` would react. Use the documented non-reacting path: none exists, so this
            // op is expressed as insert + nothing registered is not equivalent; unsupported.
            let _ = (r, ty, v);
            log("unsupported winsert".into());
        }
        STop::WSetParent(c, p) =>
        {
            if let (Some(c), Some(p)) = (resolve(*c), resolve(*p))
            {
                if c != p && world.get_entity(c).is_ok() && world.get_entity(p).is_ok() { world.entity_mut(c).set_parent(p); }
            } else { top_acts(world, t, vec![]) }
        }
        STop::Gc => garbage_collect_entities(world),
        STop::Poll => schedule_removal_and_despawn_reactors(world),
        STop::FrameEnd => { garbage_collect_entities(world); schedule_removal_and_despawn_reactors(world); }
        STop::WSysEvent(r, ty, pid) =>
        {
            if let Some(e) = resolve(*r)
            {
                log(format!("send p{pid}"));
                if *ty == 0 { world.send_system_event(SystemCommand(e), Pay::<0>(Payload(*pid))); } else { world.send_system_event(SystemCommand(e), Pay::<1>(Payload(*pid))); }
            } else { top_acts(world, t, vec![]) }
        }
        STop::WBroadcast(ty, pid) =>
        {
            log(format!("send p{pid}"));
            if *ty == 0 { world.broadcast(Evt::<0>::ev(*pid)); } else { world.broadcast(Evt::<1>::ev(*pid)); }
        }
        STop::WEntityEvent(r, ty, pid) =>
        {
            if let Some(e) = resolve(*r)
            {
                log(format!("send p{pid}"));
                if *ty == 0 { world.entity_event(e, Evt::<0>::ev(*pid)); } else { world.entity_event(e, Evt::<1>::ev(*pid)); }
            } else { top_acts(world, t, vec![]) }
        }
        STop::SigPrepare(r) =>
        {
            if let Some(e) = resolve(*r)
            {
                let parked = RC_PARKED.with(|p| p.borrow_mut().take());
                let sig = match parked
                {
                    Some(sig) => { assert_eq!(sig.entity(), e, "parked signal of another entity"); sig }
                    None => world.resource::<AutoDespawner>().prepare(e),
                };
                SH.with(|s| s.borrow_mut().sigs.push(vec![sig]));
            } else { top_acts(world, t, vec![]) }
        }
        STop::SigClone(a) =>
        {
            let ok = SH.with(|s| { let mut s = s.borrow_mut(); match s.sigs.get_mut(*a) {
                Some(v) => { if let Some(x) = v.last().cloned() { v.push(x); } true }
                None => false } });
            if !ok { top_acts(world, t, vec![]) }
        }
        STop::SigThreads(a, n) =>
        {
            // clone n times, drop the clones on n worker threads while this thread collects concurrently
            let base = SH.with(|s| s.borrow().sigs.get(*a).and_then(|v| v.last().cloned()));
            match base
            {
                Some(sig) =>
                {
                    let clones: Vec<AutoDespawnSignal> = (0..*n).map(|_| sig.clone()).collect();
                    drop(sig);
                    let handles: Vec<_> = clones.into_iter().map(|c| std::thread::spawn(move || { std::thread::yield_now(); drop(c); })).collect();
                    for _ in 0..4 { garbage_collect_entities(world); std::thread::yield_now(); }
                    for h in handles { let _ = h.join(); }
                    garbage_collect_entities(world);
                }
                None => top_acts(world, t, vec![]),
            }
        }
        STop::SigDropRace(a) =>
        {
            // the handle and a fresh clone of it are dropped by two threads released by one spin gate: if the handle
            // was the last one, the last two holders disappear at (nearly) the same instant. Net effect: one drop.
            let popped = SH.with(|s| { let mut s = s.borrow_mut(); match s.sigs.get_mut(*a) { Some(v) => Some(v.pop()), None => None } });
            match popped
            {
                Some(Some(x)) =>
                {
                    use std::sync::atomic::{AtomicUsize, Ordering};
                    let y = x.clone();
                    let gate = Arc::new(AtomicUsize::new(0));
                    let hs: Vec<_> = [x, y].into_iter().map(|h| { let g = gate.clone(); std::thread::spawn(move || {
                        g.fetch_add(1, Ordering::SeqCst);
                        while g.load(Ordering::Acquire) < 3 { std::hint::spin_loop(); }
                        drop(h);
                    }) }).collect();
                    while gate.load(Ordering::Acquire) < 2 { std::hint::spin_loop(); }
                    gate.store(3, Ordering::Release);
                    for h in hs { let _ = h.join(); }
                }
                Some(None) => {}
                None => top_acts(world, t, vec![]),
            }
        }
        STop::SigDrop(a) =>
        {
            let popped = SH.with(|s| { let mut s = s.borrow_mut(); match s.sigs.get_mut(*a) { Some(v) => Some(v.pop()), None => None } });
            match popped { Some(x) => drop(x), None => top_acts(world, t, vec![]) }
        }
    }
}

//-------------------------------------------------------------------------------------------------------------------

fn run_scenario(path: &str)
{
    let text = std::fs::read_to_string(path).expect("read scenario");
    if text.lines().any(|l| l.trim() == "mode syscall") { syscall_mode::run(path, &text); return }
    let Some(sc) = parse_scenario(&text) else { println!("parse-error"); return };
    println!("scenario {path}");
    BODIES.with(|b| b.set(0));
    CURRENT.with(|c| c.borrow_mut().clear());
    ZST_RUNS.with(|z| z.borrow_mut().clear());
    RC_NEXT.with(|c| c.set(false));
    RC_PARKED.with(|p| { let old = p.borrow_mut().take(); std::mem::forget(old); });
    SH.with(|s| *s.borrow_mut() = Shared{ defs: Arc::new(sc.defs.clone()), n_wr: sc.wrs.len(), n_ewr: sc.ewrs.len(), ..Default::default() });

    let result = std::panic::catch_unwind(std::panic::AssertUnwindSafe(|| {
        let mut app = App::new();
        app.add_plugins(ReactPlugin);
        app.insert_react_resource(Evt::<0>::res(0));
        app.insert_react_resource(Evt::<1>::res(0));
        app.init_resource::<EntityReactionProbe>();
        let vmark = app.world_mut().spawn(VMark).id();
        for (k, d) in sc.wrs.iter().enumerate()
        {
            let name = next_system_name();
            let before: Vec<Entity> = app.world().iter_entities().map(|e| e.id()).collect();
            if k == 0 { app.add_world_reactor(Wr::<0>{ def: *d, name }); } else { app.add_world_reactor_with(Wr::<1>{ def: *d, name }, ()); }
            let e = app.world().iter_entities().map(|e| e.id()).find(|e| !before.contains(e)).expect("wr entity");
            new_system_name(e);
            SH.with(|s| { s.borrow_mut().ready.insert(e); });
        }
        for (k, d) in sc.ewrs.iter().enumerate()
        {
            let name = next_system_name();
            let before: Vec<Entity> = app.world().iter_entities().map(|e| e.id()).collect();
            if k == 0 { app.add_entity_reactor(Ewr::<0>{ def: *d, name }); } else { app.add_entity_reactor(Ewr::<1>{ def: *d, name }); }
            let e = app.world().iter_entities().map(|e| e.id()).find(|e| !before.contains(e)).expect("ewr entity");
            new_system_name(e);
            SH.with(|s| { s.borrow_mut().ready.insert(e); });
        }

        #[cfg(feature = "hooks")]
        bevy_cobweb::verif::set_sink(Some(Box::new(|ev, e| {
            use bevy_cobweb::verif::RunnerEvent::*;
            let n = match ev {
                Applied => "applied", AbortNoEntity => "abortnoentity", AbortNoStorage => "abortnostorage",
                AbortMissingAtRoot => "abortroot", Postponed => "postponed", Enter => "enter", Exit => "exit",
                Reinserted => "reinserted", Dropped => "dropped", Replay => "replay", Discard => "discard", Return => "return",
            };
            if let Enter = ev { CURRENT.with(|c| c.borrow_mut().push(e)); }
            if let Exit = ev { CURRENT.with(|c| { c.borrow_mut().pop(); }); }
            log(format!("{} {}", n, name_of(e)));
        })));

        for (t, op) in sc.tops.iter().enumerate()
        {
            quiescent(app.world_mut());
            for (at, on) in sc.valid.iter()
            {
                if *at != t { continue }
                if *on { app.world_mut().entity_mut(vmark).insert(VMark); } else { app.world_mut().entity_mut(vmark).remove::<VMark>(); }
            }
            if let STop::AppReactor(d, ts) = op { add_app_reactor(&mut app, t, *d, ts); continue }
            let rc_next = match (op, sc.tops.get(t + 1))
            {
                (STop::Acts(a), Some(STop::SigPrepare(Ref::S(k)))) =>
                    a.len() == 1 && matches!(a[0], SAct::SpawnSys(_)) && *k == SH.with(|s| s.borrow().sys_names.len()),
                _ => false,
            };
            RC_NEXT.with(|c| c.set(rc_next));
            // a whole frame through the real schedules: `Last` = garbage collection, then the removal / despawn poll
            // (`App::update` = the schedules, then `World::clear_trackers`; a scenario writes it as `top update` followed by
            // `top cleartrackers`, the second of which is then already done)
            if let STop::Update = op
            {
                assert!(matches!(sc.tops.get(t + 1), Some(STop::ClearTrackers)), "malformed scenario: `top update` without `top cleartrackers`");
                log(format!("top {t}")); app.update(); continue
            }
            if let STop::ClearTrackers = op
            {
                log(format!("top {t}"));
                if t == 0 || !matches!(sc.tops[t - 1], STop::Update) { app.world_mut().clear_trackers(); }
                continue
            }
            run_top(app.world_mut(), t, op);
        }
        let world = app.world_mut();
        quiescent(world);
        log(format!("onces{}", SH.with(|s| s.borrow().onces.iter().map(|k| format!(" s{k}")).collect::<String>())));
        log("end".into());
        // Dropping the app drops every system; silence the canaries/payloads that produces.
        let lines = SH.with(|s| std::mem::take(&mut s.borrow_mut().out));
        drop(app);
        SH.with(|s| s.borrow_mut().out = lines);
    }));
    #[cfg(feature = "hooks")]
    bevy_cobweb::verif::set_sink(None);
    let lines = SH.with(|s| std::mem::take(&mut s.borrow_mut().out));
    for l in lines { println!("{l}"); }
    if let Err(p) = result
    {
        let msg = p.downcast_ref::<String>().cloned().or_else(|| p.downcast_ref::<&str>().map(|s| s.to_string())).unwrap_or_default();
        println!("panic {}", msg.replace('\n', " "));
    }
    // anything still held by the harness (tokens, signals) is dropped silently
    SH.with(|s| { let old = std::mem::take(&mut *s.borrow_mut()); drop(old); });
    SH.with(|s| s.borrow_mut().out.clear());
}

fn main()
{
    // keep panic output off stdout/stderr noise: one line on stderr
    std::panic::set_hook(Box::new(|info| { if !EXPECT_PANIC.with(|e| e.get()) { eprintln!("harness panic: {info}"); } }));
    let _ = SystemState::<()>::new;
    let _: HashMap<u8, u8> = HashMap::new();
    for path in std::env::args().skip(1) { run_scenario(&path); }
}
