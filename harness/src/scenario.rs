//! Scenario language (same grammar as `lean/Cobweb/Scenario.lean`).

#[derive(Copy, Clone, Debug, PartialEq)]
pub enum Ref { E(usize), S(usize) }

#[derive(Copy, Clone, Debug)]
pub enum STrig
{
    Bc(usize), Res(usize), Ins(usize), Mut(usize), Rem(usize), AnyEv(usize),
    EIns(Ref, usize), EMut(Ref, usize), ERem(Ref, usize), EEv(Ref, usize), Dsp(Ref),
}

#[derive(Copy, Clone, Debug)]
pub enum SMode { P, C, R }

#[derive(Clone, Debug)]
pub enum SAct
{
    Spawn, SpawnSys(usize), On(SMode, usize, Vec<STrig>), With(SMode, Ref, Vec<STrig>), Once(usize, Vec<STrig>), OnceFn(usize, Vec<STrig>),
    Revoke(usize), Run(Ref), SysEvent(Ref, usize, u32), Broadcast(usize, u32), EntityEvent(Ref, usize, u32),
    ResMut(usize), ResSet(usize, u32, bool), ResRead(usize), Insert(Ref, usize, u32), Mutate(Ref, usize, u32), MutNr(Ref, usize, u32), ResNr(usize, u32),
    SetNeq(Ref, usize, u32), ReadComp(Ref, usize), Remove(Ref, usize), Despawn(Ref), DespawnRec(Ref),
    EwrAdd(usize, Ref, u32), EwrAddNow(usize, Ref, u32), EwrRemove(usize, Vec<STrig>), WrAdd(usize, Vec<STrig>), WrRemove(usize, Vec<STrig>), WrRun(usize),
    /// The `World`-level form of a sender, called in-line by an exclusive system after a `world.flush()`.
    Direct(Box<SAct>),
    /// `world.flush()` in the middle of an exclusive body.
    Flush,
    /// `SystemCommand::apply(world)` called in-line by an exclusive body, without a flush first.
    RunNow(Ref),
}

#[derive(Clone, Debug)]
pub enum STop
{
    Acts(Vec<SAct>), AppReactor(usize, Vec<STrig>), Update, ClearTrackers, WDespawn(Ref), WDespawnRec(Ref), WRemove(Ref, usize), WInsertRaw(Ref, usize, u32), WSetParent(Ref, Ref),
    Gc, Poll, FrameEnd, WSysEvent(Ref, usize, u32), WBroadcast(usize, u32), WEntityEvent(Ref, usize, u32),
    SigPrepare(Ref), SigClone(usize), SigDrop(usize), SigDropRace(usize), SigThreads(usize, usize),
}

#[derive(Clone, Debug, Default)]
pub struct Def { pub excl: bool, pub runs: Vec<Vec<SAct>> }

#[derive(Clone, Debug, Default)]
pub struct Scenario { pub defs: Vec<Def>, pub wrs: Vec<usize>, pub ewrs: Vec<usize>, pub tops: Vec<STop>, pub valid: Vec<(usize, bool)> }

fn num<T: std::str::FromStr>(t: &str) -> Option<T>
{
    if t.is_empty() || !t.chars().all(|c| c.is_ascii_digit()) { return None }
    t.parse().ok()
}

fn parse_ref(t: &str) -> Option<Ref>
{
    let (h, r) = t.split_at(t.char_indices().nth(1).map(|x| x.0).unwrap_or(t.len()));
    match h { "e" => num(r).map(Ref::E), "s" => num(r).map(Ref::S), _ => None }
}

fn parse_idx(c: char, t: &str) -> Option<usize>
{
    let mut it = t.chars();
    if it.next()? != c { return None }
    num(it.as_str())
}

fn parse_trig(t: &str) -> Option<STrig>
{
    let p: Vec<&str> = t.split(':').collect();
    Some(match p.as_slice()
    {
        ["bc", ty] => STrig::Bc(num(ty)?), ["res", ty] => STrig::Res(num(ty)?), ["ins", ty] => STrig::Ins(num(ty)?),
        ["mut", ty] => STrig::Mut(num(ty)?), ["rem", ty] => STrig::Rem(num(ty)?), ["anyev", ty] => STrig::AnyEv(num(ty)?),
        ["eins", r, ty] => STrig::EIns(parse_ref(r)?, num(ty)?), ["emut", r, ty] => STrig::EMut(parse_ref(r)?, num(ty)?),
        ["erem", r, ty] => STrig::ERem(parse_ref(r)?, num(ty)?), ["eev", r, ty] => STrig::EEv(parse_ref(r)?, num(ty)?),
        ["dsp", r] => STrig::Dsp(parse_ref(r)?),
        _ => return None,
    })
}

fn parse_trigs(ts: &[&str]) -> Option<Vec<STrig>> { ts.iter().map(|t| parse_trig(t)).collect() }

fn parse_mode(t: &str) -> Option<SMode> { match t { "p" => Some(SMode::P), "c" => Some(SMode::C), "r" => Some(SMode::R), _ => None } }

fn parse_act(t: &[&str]) -> Option<SAct>
{
    Some(match t
    {
        ["spawn"] => SAct::Spawn,
        ["spawnsys", d] => SAct::SpawnSys(num(d)?),
        ["on", m, d, ts @ ..] => SAct::On(parse_mode(m)?, num(d)?, parse_trigs(ts)?),
        ["with", m, s, ts @ ..] => SAct::With(parse_mode(m)?, parse_ref(s)?, parse_trigs(ts)?),
        ["once", d, ts @ ..] => SAct::Once(num(d)?, parse_trigs(ts)?),
        ["oncefn", d, ts @ ..] => SAct::OnceFn(num(d)?, parse_trigs(ts)?),
        ["revoke", k] => SAct::Revoke(parse_idx('t', k)?),
        ["run", s] => SAct::Run(parse_ref(s)?),
        ["flush"] => SAct::Flush,
        ["irun", s] => SAct::RunNow(parse_ref(s)?),
        ["drun", s] => SAct::Direct(Box::new(SAct::Run(parse_ref(s)?))),
        ["dsysevent", s, ty, pid] => SAct::Direct(Box::new(SAct::SysEvent(parse_ref(s)?, num(ty)?, num(pid)?))),
        ["dbroadcast", ty, pid] => SAct::Direct(Box::new(SAct::Broadcast(num(ty)?, num(pid)?))),
        ["dentevent", e, ty, pid] => SAct::Direct(Box::new(SAct::EntityEvent(parse_ref(e)?, num(ty)?, num(pid)?))),
        ["sysevent", s, ty, pid] => SAct::SysEvent(parse_ref(s)?, num(ty)?, num(pid)?),
        ["broadcast", ty, pid] => SAct::Broadcast(num(ty)?, num(pid)?),
        ["entevent", e, ty, pid] => SAct::EntityEvent(parse_ref(e)?, num(ty)?, num(pid)?),
        ["resmut", ty] => SAct::ResMut(num(ty)?),
        ["resset", ty, v] => SAct::ResSet(num(ty)?, num(v)?, false),
        ["ressetneq", ty, v] => SAct::ResSet(num(ty)?, num(v)?, true),
        ["resread", ty] => SAct::ResRead(num(ty)?),
        ["insert", e, ty, v] => SAct::Insert(parse_ref(e)?, num(ty)?, num(v)?),
        ["mutate", e, ty, v] => SAct::Mutate(parse_ref(e)?, num(ty)?, num(v)?),
        ["mutnr", e, ty, v] => SAct::MutNr(parse_ref(e)?, num(ty)?, num(v)?),
        ["resnr", ty, v] => SAct::ResNr(num(ty)?, num(v)?),
        ["setneq", e, ty, v] => SAct::SetNeq(parse_ref(e)?, num(ty)?, num(v)?),
        ["read", e, ty] => SAct::ReadComp(parse_ref(e)?, num(ty)?),
        ["remove", e, ty] => SAct::Remove(parse_ref(e)?, num(ty)?),
        ["despawn", e] => SAct::Despawn(parse_ref(e)?),
        ["despawnrec", e] => SAct::DespawnRec(parse_ref(e)?),
        ["ewradd", wr, e, v] => SAct::EwrAdd(num(wr)?, parse_ref(e)?, num(v)?),
        ["ewraddnow", wr, e, v] => SAct::EwrAddNow(num(wr)?, parse_ref(e)?, num(v)?),
        ["ewrremove", wr, ts @ ..] => SAct::EwrRemove(num(wr)?, parse_trigs(ts)?),
        ["wradd", wr, ts @ ..] => SAct::WrAdd(num(wr)?, parse_trigs(ts)?),
        ["wrremove", wr, ts @ ..] => SAct::WrRemove(num(wr)?, parse_trigs(ts)?),
        ["wrrun", wr] => SAct::WrRun(num(wr)?),
        _ => return None,
    })
}

fn parse_top(t: &[&str]) -> Option<STop>
{
    Some(match t
    {
        ["wdespawn", r] => STop::WDespawn(parse_ref(r)?),
        ["wdespawnrec", r] => STop::WDespawnRec(parse_ref(r)?),
        ["wremove", r, ty] => STop::WRemove(parse_ref(r)?, num(ty)?),
        ["winsert", r, ty, v] => STop::WInsertRaw(parse_ref(r)?, num(ty)?, num(v)?),
        ["wsetparent", c, p] => STop::WSetParent(parse_ref(c)?, parse_ref(p)?),
        ["gc"] => STop::Gc,
        ["poll"] => STop::Poll,
        ["frameend"] => STop::FrameEnd,
        ["update"] => STop::Update,
        ["cleartrackers"] => STop::ClearTrackers,
        ["wsysevent", s, ty, pid] => STop::WSysEvent(parse_ref(s)?, num(ty)?, num(pid)?),
        ["wbroadcast", ty, pid] => STop::WBroadcast(num(ty)?, num(pid)?),
        ["wentevent", r, ty, pid] => STop::WEntityEvent(parse_ref(r)?, num(ty)?, num(pid)?),
        ["sigprepare", r] => STop::SigPrepare(parse_ref(r)?),
        ["sigclone", a] => STop::SigClone(parse_idx('a', a)?),
        ["sigdrop", a] => STop::SigDrop(parse_idx('a', a)?),
        ["sigdroprace", a] => STop::SigDropRace(parse_idx('a', a)?),
        ["sigthreads", a, n] => STop::SigThreads(parse_idx('a', a)?, num(n)?),
        _ => return None,
    })
}

fn toks(l: &str) -> Vec<&str> { l.trim().split(' ').filter(|t| !t.is_empty()).collect() }

fn take_acts<'a>(n: usize, lines: &mut std::iter::Peekable<impl Iterator<Item = &'a str>>) -> Option<Vec<SAct>>
{
    let mut out = Vec::new();
    for _ in 0..n { out.push(parse_act(&toks(lines.next()?))?); }
    Some(out)
}

pub fn parse_scenario(text: &str) -> Option<Scenario>
{
    let mut sc = Scenario::default();
    let mut lines = text.split('\n').peekable();
    while let Some(l) = lines.next()
    {
        let t = toks(l);
        match t.as_slice()
        {
            [] => {}
            ["#", ..] => {}
            ["def", excl, n] =>
            {
                let n: usize = num(n)?;
                let mut d = Def{ excl: *excl == "1", runs: Vec::new() };
                for _ in 0..n
                {
                    let rl = toks(lines.next()?);
                    let ["run", k] = rl.as_slice() else { return None };
                    d.runs.push(take_acts(num(k)?, &mut lines)?);
                }
                sc.defs.push(d);
            }
            ["valid", b] => sc.valid.push((sc.tops.len(), *b == "1")),
            ["wr", d] => sc.wrs.push(num(d)?),
            ["ewr", d] => sc.ewrs.push(num(d)?),
            ["top", "acts", n] => { let a = take_acts(num(n)?, &mut lines)?; sc.tops.push(STop::Acts(a)); }
            ["top", "appreactor", d, ts @ ..] => { sc.tops.push(STop::AppReactor(num(d)?, parse_trigs(ts)?)); }
            ["top", rest @ ..] => sc.tops.push(parse_top(rest)?),
            _ => return None,
        }
    }
    Some(sc)
}
