//! C17: scenario interpreter for the syscall family (same grammar as `lean/Cobweb/SyscallScenario.lean`).

use bevy::prelude::*;
use bevy_cobweb::prelude::*;

use std::cell::RefCell;

#[derive(Copy, Clone, Debug, PartialEq)]
pub enum K { F, N, S, O, M }

#[derive(Copy, Clone, Debug)]
pub struct Call { kind: K, key: usize, input: u32 }

#[derive(Copy, Clone, Debug)]
pub enum Op { D(Call), Q(Call), W(u32), X(usize), G(usize), V(usize) }

#[derive(Clone, Debug)]
pub struct Def { kind: K, key: usize, excl: bool, runs: Vec<Vec<Op>> }

#[derive(Clone, Debug)]
pub enum Top { Spawn(usize), Call(Call), Despawn(usize), Reg(usize), Revoke(usize) }

#[derive(Default)]
struct Sh { out: Vec<String>, defs: Vec<Def>, spawned: Vec<(SysId, usize)>, ncalls: usize, nreg: usize }

const CAP_MAX: usize = 150;

/// A call operation: skipped beyond the per-scenario cap, otherwise performed and reported.
fn try_call(world: &mut World, c: Call)
{
    let capped = SH.with(|s| { let mut s = s.borrow_mut(); if s.ncalls >= CAP_MAX { true } else { s.ncalls += 1; false } });
    if capped { log(format!("sc capped {}{}", kname(c.kind), c.key)); return }
    log(format!("sc call {}{}", kname(c.kind), c.key));
    let r = do_call(world, c);
    report(c, r);
}

thread_local! { static SH: RefCell<Sh> = RefCell::new(Sh::default()); }
// Named keys 4, 5, 6 are the *raw* names `SysName::new_raw::<S>(0)` of the function items of the `syscall` keys 0, 1, 2: the
// same function type under a key of another class. The function item cannot know under which key it was called, so the
// caller leaves the key here for the body it is about to start.
thread_local! { static ALIAS: std::cell::Cell<Option<usize>> = std::cell::Cell::new(None); }
const RAW0: usize = 4;
fn log(l: String) { SH.with(|s| s.borrow_mut().out.push(l)); }

fn num<T: std::str::FromStr>(t: &str) -> Option<T> { if t.is_empty() || !t.chars().all(|c| c.is_ascii_digit()) { None } else { t.parse().ok() } }
fn kind(t: &str) -> Option<K> { match t { "f" => Some(K::F), "n" => Some(K::N), "s" => Some(K::S), "o" => Some(K::O), "m" => Some(K::M), _ => None } }
fn kname(k: K) -> &'static str { match k { K::F => "f", K::N => "n", K::S => "s", K::O => "o", K::M => "m" } }
fn parse_call(t: &[&str]) -> Option<Call> { match t { [k, key, x] => Some(Call{ kind: kind(k)?, key: num(key)?, input: num(x)? }), _ => None } }
fn parse_op(t: &[&str]) -> Option<Op>
{
    match t { ["q", r @ ..] => Some(Op::Q(parse_call(r)?)), ["d", r @ ..] => Some(Op::D(parse_call(r)?)), ["w", v] => Some(Op::W(num(v)?)), ["x", v] => Some(Op::X(num(v)?)),
        ["g", v] => Some(Op::G(num(v)?)), ["v", v] => Some(Op::V(num(v)?)), _ => None }
}

pub fn parse(text: &str) -> Option<(Vec<Def>, Vec<Top>)>
{
    let mut defs = Vec::new(); let mut tops = Vec::new();
    let mut lines = text.split('\n');
    while let Some(l) = lines.next()
    {
        let t: Vec<&str> = l.trim().split(' ').filter(|x| !x.is_empty()).collect();
        match t.as_slice()
        {
            [] | ["#", ..] | ["mode", "syscall"] => {}
            ["scdef", k, key, excl, n] =>
            {
                let mut d = Def{ kind: kind(k)?, key: num(key)?, excl: *excl == "1", runs: Vec::new() };
                for _ in 0..num::<usize>(n)?
                {
                    let rl: Vec<&str> = lines.next()?.trim().split(' ').filter(|x| !x.is_empty()).collect();
                    let ["run", c] = rl.as_slice() else { return None };
                    let mut ops = Vec::new();
                    for _ in 0..num::<usize>(c)?
                    {
                        let ol: Vec<&str> = lines.next()?.trim().split(' ').filter(|x| !x.is_empty()).collect();
                        ops.push(parse_op(&ol)?);
                    }
                    d.runs.push(ops);
                }
                defs.push(d);
            }
            ["top", "spawn", d] => tops.push(Top::Spawn(num(d)?)),
            ["top", "despawn", d] => tops.push(Top::Despawn(num(d)?)),
            ["top", "call", r @ ..] => tops.push(Top::Call(parse_call(r)?)),
            ["top", "reg", k] => tops.push(Top::Reg(num(k)?)),
            ["top", "revoke", k] => tops.push(Top::Revoke(num(k)?)),
            _ => return None,
        }
    }
    Some((defs, tops))
}

fn script(k: K, def_key: usize, run: u32) -> (bool, Vec<Op>)
{
    SH.with(|s| {
        let s = s.borrow();
        let (k, def_key) = if k == K::N && def_key >= RAW0 { (K::F, def_key - RAW0) } else { (k, def_key) };
        match s.defs.iter().find(|d| d.kind == k && d.key == def_key)
        {
            Some(d) => (d.excl, d.runs.get(run as usize).cloned().unwrap_or_default()),
            None => (false, Vec::new()),
        }
    })
}

fn report(c: Call, r: Option<u32>)
{
    match r { Some(v) => log(format!("sc ret {}{} {}", kname(c.kind), c.key, v)), None => log(format!("sc err {}{}", kname(c.kind), c.key)) }
}

macro_rules! dispatch4 { ($k:expr, $m:ident) => { match $k { 0 => $m!(0), 1 => $m!(1), 2 => $m!(2), _ => $m!(3) } }; }

/// Performs one call through the real entry points.
fn do_call(world: &mut World, c: Call) -> Option<u32>
{
    let excl = match c.kind
    {
        K::F | K::N => script(c.kind, c.key, 0).0,
        K::M => script(K::N, c.key, 0).0,
        K::O => script(K::F, c.key, 0).0,
        K::S => false,
    };
    match c.kind
    {
        K::F =>
        {
            macro_rules! m { ($n:literal) => { if excl { Some(syscall(world, c.input, sys_x::<0, $n>)) } else { Some(syscall(world, c.input, sys_o::<0, $n>)) } }; }
            dispatch4!(c.key, m)
        }
        K::O =>
        {
            // `syscall_once` with the very function items `syscall` uses for this key: fresh state, nothing cached
            macro_rules! m { ($n:literal) => { if excl { Some(world.syscall_once(c.input, sys_x::<0, $n>)) } else { Some(world.syscall_once(c.input, sys_o::<0, $n>)) } }; }
            dispatch4!(c.key, m)
        }
        K::N =>
        {
            macro_rules! m { ($n:literal) => { if excl { Some(named_syscall(world, c.key as u32, c.input, sys_x::<1, $n>)) } else { Some(named_syscall(world, c.key as u32, c.input, sys_o::<1, $n>)) } }; }
            dispatch4!(c.key, m)
        }
        K::M if c.key >= RAW0 =>
        {
            // a raw name of the `syscall` function item of key `c.key - RAW0`
            macro_rules! m { ($n:literal) => { if excl { raw_name(&sys_x::<0, $n>) } else { raw_name(&sys_o::<0, $n>) } }; }
            let name = dispatch4!(c.key - RAW0, m);
            ALIAS.with(|a| a.set(Some(c.key)));
            let r = named_syscall_direct::<In<u32>, u32>(world, name, c.input).ok();
            ALIAS.with(|a| a.set(None));
            r
        }
        K::M =>
        {
            // `named_syscall_direct`: by name only (the name `named_syscall` derives for this key's function item)
            macro_rules! m { ($n:literal) => { if excl { named_syscall_direct::<In<u32>, u32>(world, sys_name(&sys_x::<1, $n>, c.key as u32), c.input).ok() }
                else { named_syscall_direct::<In<u32>, u32>(world, sys_name(&sys_o::<1, $n>, c.key as u32), c.input).ok() } }; }
            dispatch4!(c.key, m)
        }
        K::S =>
        {
            let Some((id, _)) = SH.with(|s| s.borrow().spawned.get(c.key).copied()) else { return None };
            spawned_syscall::<In<u32>, u32>(world, id, c.input).ok()
        }
    }
}

fn sys_name<S: 'static>(_: &S, id: u32) -> SysName { SysName::new::<S>(id) }
fn raw_name<S: 'static>(_: &S) -> SysName { SysName::new_raw::<S>(0) }

/// `register_named_system` with a fresh system of the key's function item.
fn register_named(world: &mut World, key: usize)
{
    let excl = script(K::N, key, 0).0;
    if key >= RAW0
    {
        macro_rules! m { ($n:literal) => {
            if excl { register_named_system(world, raw_name(&sys_x::<0, $n>), sys_x::<0, $n>) }
            else { register_named_system(world, raw_name(&sys_o::<0, $n>), sys_o::<0, $n>) } }; }
        dispatch4!(key - RAW0, m);
        log(format!("sc registered n{}", key));
        return
    }
    // both registration entry points, alternating by a running count
    let from = SH.with(|s| { let mut s = s.borrow_mut(); s.nreg += 1; s.nreg % 2 == 0 });
    macro_rules! m { ($n:literal) => {
        if from
        {
            if excl { register_named_system_from(world, sys_name(&sys_x::<1, $n>, key as u32), CallbackSystem::new(sys_x::<1, $n>)) }
            else { register_named_system_from(world, sys_name(&sys_o::<1, $n>, key as u32), CallbackSystem::new(sys_o::<1, $n>)) }
        }
        else if excl { register_named_system(world, sys_name(&sys_x::<1, $n>, key as u32), sys_x::<1, $n>) }
        else { register_named_system(world, sys_name(&sys_o::<1, $n>, key as u32), sys_o::<1, $n>) } }; }
    dispatch4!(key, m);
    log(format!("sc registered n{}", key));
}

/// `IdMappedSystems::revoke_sysname` (nothing to do while the resource does not exist).
fn revoke_named(world: &mut World, key: usize)
{
    let excl = script(K::N, key, 0).0;
    macro_rules! m { ($n:literal) => { if excl { sys_name(&sys_x::<1, $n>, key as u32) } else { sys_name(&sys_o::<1, $n>, key as u32) } }; }
    macro_rules! r { ($n:literal) => { if excl { raw_name(&sys_x::<0, $n>) } else { raw_name(&sys_o::<0, $n>) } }; }
    let name = if key >= RAW0 { dispatch4!(key - RAW0, r) } else { dispatch4!(key, m) };
    if let Some(mut r) = world.get_resource_mut::<IdMappedSystems<In<u32>, u32>>() { r.revoke_sysname(name); }
    log(format!("sc revoked n{}", key));
}

/// Body shared by the ordinary systems: `KIND` 0 = syscall, 1 = named, 2 = spawned.
fn body_ordinary(kind: K, key: usize, def_key: usize, x: u32, local: &mut u32, c: &mut Commands) -> u32
{
    let (kind, key, def_key) = match ALIAS.with(|a| a.take()) { Some(k) => (K::N, k, k), None => (kind, key, def_key) };
    let run = *local;
    log(format!("sc enter {}{} r{} x{}", kname(kind), key, run, x));
    let (_, ops) = script(kind, def_key, run);
    for op in ops
    {
        match op
        {
            Op::D(_) => log("unsupported direct call in ordinary system".into()),
            Op::Q(call) => c.queue(move |w: &mut World| try_call(w, call)),
            Op::W(v) => c.queue(move |_: &mut World| log(format!("sc write {v}"))),
            Op::X(id) => c.queue(move |w: &mut World| despawn_spawned(w, id)),
            Op::G(k) => c.queue(move |w: &mut World| register_named(w, k)),
            Op::V(k) => c.queue(move |w: &mut World| revoke_named(w, k)),
        }
    }
    *local += 1;
    x * 100 + run
}

/// Queued despawn of the spawned system with instance number `id` (a no-op on the world if it does not exist).
fn despawn_spawned(world: &mut World, id: usize)
{
    if let Some((sid, _)) = SH.with(|s| s.borrow().spawned.get(id).copied()) { world.despawn(sid.entity()); }
    log(format!("sc despawned s{}", id));
}

fn body_exclusive(kind: K, key: usize, def_key: usize, x: u32, local: &mut u32, world: &mut World) -> u32
{
    let (kind, key, def_key) = match ALIAS.with(|a| a.take()) { Some(k) => (K::N, k, k), None => (kind, key, def_key) };
    let run = *local;
    log(format!("sc enter {}{} r{} x{}", kname(kind), key, run, x));
    let (_, ops) = script(kind, def_key, run);
    for op in ops
    {
        match op
        {
            Op::D(call) => try_call(world, call),
            Op::Q(call) => world.commands().queue(move |w: &mut World| try_call(w, call)),
            Op::W(v) => world.commands().queue(move |_: &mut World| log(format!("sc write {v}"))),
            Op::X(id) => world.commands().queue(move |w: &mut World| despawn_spawned(w, id)),
            Op::G(k) => world.commands().queue(move |w: &mut World| register_named(w, k)),
            Op::V(k) => world.commands().queue(move |w: &mut World| revoke_named(w, k)),
        }
    }
    *local += 1;
    x * 100 + run
}

fn kind_of(n: usize) -> K { match n { 0 => K::F, 1 => K::N, _ => K::S } }

fn sys_o<const KIND: usize, const KEY: usize>(In(x): In<u32>, mut local: Local<u32>, mut c: Commands) -> u32
{
    body_ordinary(kind_of(KIND), KEY, KEY, x, &mut local, &mut c)
}
fn sys_x<const KIND: usize, const KEY: usize>(In(x): In<u32>, world: &mut World, mut local: Local<u32>) -> u32
{
    body_exclusive(kind_of(KIND), KEY, KEY, x, &mut local, world)
}

/// Spawned systems know their id through a captured value.
fn make_spawned(id: usize, def_key: usize, excl: bool) -> CallbackSystem<In<u32>, u32>
{
    if excl
    {
        CallbackSystem::new(move |In(x): In<u32>, world: &mut World, mut local: Local<u32>| body_exclusive(K::S, id, def_key, x, &mut local, world))
    }
    else
    {
        CallbackSystem::new(move |In(x): In<u32>, mut local: Local<u32>, mut c: Commands| body_ordinary(K::S, id, def_key, x, &mut local, &mut c))
    }
}

pub fn run(path: &str, text: &str)
{
    println!("scenario {path}");
    let Some((defs, tops)) = parse(text) else { println!("parse-error"); return };
    SH.with(|s| *s.borrow_mut() = Sh{ defs, ..Default::default() });
    ALIAS.with(|a| a.set(None));
    let result = std::panic::catch_unwind(std::panic::AssertUnwindSafe(|| {
        let mut world = World::new();
        for (t, op) in tops.iter().enumerate()
        {
            log(format!("top {t}"));
            match op
            {
                Top::Spawn(d) =>
                {
                    let id = SH.with(|s| s.borrow().spawned.len());
                    let excl = script(K::S, *d, 0).0;
                    // the four ways to make a spawned system, by id
                    let dk = *d;
                    let sid = match id % 4
                    {
                        0 => spawn_system_from(&mut world, make_spawned(id, dk, excl)),
                        1 =>
                        {
                            if excl { spawn_system(&mut world, move |In(x): In<u32>, world: &mut World, mut local: Local<u32>| body_exclusive(K::S, id, dk, x, &mut local, world)) }
                            else { spawn_system(&mut world, move |In(x): In<u32>, mut local: Local<u32>, mut c: Commands| body_ordinary(K::S, id, dk, x, &mut local, &mut c)) }
                        }
                        2 =>
                        {
                            let sid = world.commands().spawn_system_from(make_spawned(id, dk, excl));
                            world.flush();
                            sid
                        }
                        _ =>
                        {
                            let e = world.spawn_empty().id();
                            let r = if excl { world.commands().insert_system(e, move |In(x): In<u32>, world: &mut World, mut local: Local<u32>| body_exclusive(K::S, id, dk, x, &mut local, world)) }
                                else { world.commands().insert_system(e, move |In(x): In<u32>, mut local: Local<u32>, mut c: Commands| body_ordinary(K::S, id, dk, x, &mut local, &mut c)) };
                            if r.is_err() { log("insert_system failed".into()); }
                            world.flush();
                            SysId::new(e)
                        }
                    };
                    SH.with(|s| s.borrow_mut().spawned.push((sid, *d)));
                    log(format!("sc spawned s{} def{}", id, d));
                }
                Top::Call(c) => try_call(&mut world, *c),
                Top::Reg(k) => register_named(&mut world, *k),
                Top::Revoke(k) => revoke_named(&mut world, *k),
                Top::Despawn(id) =>
                {
                    if let Some((sid, _)) = SH.with(|s| s.borrow().spawned.get(*id).copied()) { world.despawn(sid.entity()); }
                    log(format!("sc despawned s{}", id));
                }
            }
        }
        log("end".into());
    }));
    let lines = SH.with(|s| std::mem::take(&mut s.borrow_mut().out));
    for l in lines { println!("{l}"); }
    if let Err(p) = result
    {
        let msg = p.downcast_ref::<String>().cloned().or_else(|| p.downcast_ref::<&str>().map(|s| s.to_string())).unwrap_or_default();
        println!("panic {}", msg.replace('\n', " "));
    }
}
