#!/usr/bin/env python3
"""Generates lean/Cobweb/Proofs/Frames.lean: one @[simp] lemma `(f s args).fld = s.fld` for every helper function `f`
of the machine and every state field `fld` that `f` does not touch. (Mechanical frame conditions.)"""
FIELDS = """nextEnt alive children comp res removedBuf removedOld storage info counter buffered trkSys trkEvt trkEnt trkDsp data tbl
tblDsp entReactors tracked dspTracker dspChan nextArc arcRc arcEnt autoChan wrSys ewrSys ewLocal wq stack topIdx trace
entNames sysNames tokens sigs""".split()

KILL = "alive storage entReactors removedBuf comp dspTracker dspChan data ewLocal trace arcRc autoChan".split()
TRK = "trkSys trkEvt trkEnt trkDsp".split()

APPLY_T = [f for f in FIELDS if f not in ("counter", "buffered", "info", "res", "children", "topIdx", "entNames", "sysNames", "tokens", "sigs", "wrSys", "ewrSys", "wq", "removedOld")]
ENQ_T = ["nextEnt", "alive", "entNames", "sysNames", "info", "tokens", "res", "comp", "trace"]
# name -> (binders, application, touched fields, tactic)
T_SPLIT = "unfold {f}; repeat' (first | rfl | split | dsimp only)"
T_SIMP = "simp [{f}]"
FUNCS = [
    ("St.emit", "(e : Ev)", "s.emit e", ["trace"], "rfl"),
    ("St.push", "(fs : List Frame)", "s.push fs", ["stack"], "rfl"),
    ("fresh", "", "s.fresh.2", ["nextEnt", "alive"], "rfl"),
    ("dropHandle", "(h : Handle)", "dropHandle s h", ["arcRc", "autoChan"], "unfold dropHandle; split <;> (try (dsimp only; split)) <;> rfl"),
    ("dropHandles", "(hs : List Handle)", "dropHandles s hs", ["arcRc", "autoChan"], "FOLD:dropHandle"),
    ("cloneHandle", "(h : Handle)", "cloneHandle s h", ["arcRc"], "unfold cloneHandle; split <;> rfl"),
    ("newArc", "(e : Nat)", "(newArc s e).2", ["nextArc", "arcRc", "arcEnt"], "rfl"),
    ("killStorage", "(e : Nat)", "killStorage s e", ["alive", "storage"], "rfl"),
    ("killCanary", "(e : Nat)", "killCanary s e", ["trace"], "unfold killCanary; split <;> rfl"),
    ("killReactors", "(e : Nat)", "killReactors s e", ["entReactors", "arcRc", "autoChan"], "unfold killReactors; split <;> simp"),
    ("killComps", "(e : Nat)", "killComps s e", ["removedBuf", "comp"], "KILLCOMPS"),
    ("killTracker", "(e : Nat)", "killTracker s e", ["dspTracker", "dspChan"], "unfold killTracker; split <;> rfl"),
    ("killData", "(e : Nat)", "killData s e", ["data", "trace"], "unfold killData; split <;> (try (dsimp only; split)) <;> rfl"),
    ("kill", "(e : Nat)", "kill s e", KILL, "simp [kill]"),
    ("despawn1", "(e : Nat)", "despawn1 s e", KILL, "unfold despawn1; split <;> simp"),
    ("setupK", "(k : Kind) (sys : Nat)", "setupK s k sys", TRK + ["arcRc", "autoChan"], "unfold setupK; cases k <;> dsimp only <;> (try split) <;> simp"),
    ("tryCleanupData", "(d : Nat)", "tryCleanupData s d", KILL, "BLOCK:unfold tryCleanupData|split|· split|  · split|    · rfl|    · dsimp only; split <;> simp|  · rfl|· rfl"),
    ("cleanupK", "(k : Kind)", "cleanupK s k", TRK + KILL, "unfold cleanupK; cases k <;> dsimp only <;> (try split) <;> simp"),
    ("setTbl", "(t : Tbl) (ty : Nat) (l : List Handle)", "setTbl s t ty l", ["tbl"], "rfl"),
    ("revokeOne", "(sys : Nat) (t : Trig)", "revokeOne s sys t", ["tbl", "tblDsp", "entReactors", "arcRc", "autoChan"], "BLOCK:unfold revokeOne|split|· dsimp only; split <;> simp|· split|  · split|    · simp|    · rfl|  · split|    · dsimp only; split <;> simp|    · rfl"),
    ("revokeAll", "(sys : Nat) (ts : List Trig)", "revokeAll s sys ts", ["tbl", "tblDsp", "entReactors", "arcRc", "autoChan"], "FOLD2:revokeOne"),
    ("regCmds", "(h : Handle) (t : Trig)", "(regCmds s h t).1", ["arcRc"], "BLOCK:unfold regCmds|split|· split <;> simp|· simp|· split|  · simp|  · split <;> simp"),
    ("regAll", "(h : Handle) (ts : List Trig)", "(regAll s h ts).1", ["arcRc"], "REGALL"),
    ("pollRemovals", "", "(pollRemovals s).1", ["removedBuf", "removedOld"], "POLLREM"),
    ("clearTrackers", "", "clearTrackers s", ["removedBuf", "removedOld"], "rfl"),
    ("pollDespawns", "", "(pollDespawns s).1", ["dspChan", "tblDsp"], "POLLDSP"),
    ("bumpLocal", "(w : Option Nat)", "bumpLocal s w", ["ewLocal"], "unfold bumpLocal; split <;> (try split) <;> rfl"),
    ("observe", "(w : Option Nat)", "(observe s w).2", ["data", "ewLocal"], "OBSERVE"),
    ("enqueue", "(a : Act)", "(enqueue s a).1", ["nextEnt", "alive", "entNames", "sysNames", "info", "tokens", "res", "comp", "trace"],
        "cases a <;> simp only [enqueue] <;> repeat' (first | rfl | split | dsimp only)"),
    ("applyCmd", "(c : Cmd)", "applyCmd s c", [f for f in FIELDS if f not in ("counter", "buffered", "info", "res", "children", "topIdx", "entNames", "sysNames", "tokens", "sigs", "wrSys", "ewrSys", "wq", "removedOld")],
        "APPLYCMD"),
    ("preBody", "(sys : Nat) (k : Kind)", "preBody s sys k", TRK + ["arcRc", "autoChan", "trace"], "unfold preBody; dsimp only; split <;> simp"),
    ("startBody", "(sys : Nat) (k : Kind)", "startBody s sys k", TRK + ["arcRc", "autoChan", "trace", "info", "data", "ewLocal"], "STARTBODY"),
    ("doBatch", "(cs : List Cmd)", "doBatch s cs", APPLY_T + ["stack"], "cases cs <;> simp [doBatch, St.push]"),
    ("doFlush", "", "doFlush s", ["wq", "stack"], "unfold doFlush; split <;> simp [St.push]"),
    ("doBodyActs", "(p : Prog) (sys : Nat) (k : Kind) (i : Nat) (acc : List Cmd)", "doBodyActs p s sys k i acc", ENQ_T + ["stack"], "unfold doBodyActs; split <;> simp [St.push]"),
    ("doExclActs", "(p : Prog) (sys i : Nat)", "doExclActs p s sys i", ENQ_T + ["stack", "wq"], "unfold doExclActs; split <;> simp [St.push]"),
    ("doTopActs", "(h : Hist) (t i : Nat)", "doTopActs h s t i", ENQ_T + ["stack", "wq"], "unfold doTopActs; split <;> simp [St.push]"),
    ("doOnceTail", "(sys : Nat)", "doOnceTail s sys", KILL + ["wq", "stack"], "simp [doOnceTail, St.push]"),
    ("doRunnerStart", "(sys : Nat) (k : Kind)", "doRunnerStart s sys k", ["trace", "stack"], "simp [doRunnerStart, St.push]"),
    ("doRunnerLookup", "(sys : Nat) (k : Kind) (idx : Nat)", "doRunnerLookup s sys k idx", TRK + ["arcRc", "autoChan", "trace", "info", "data", "ewLocal", "storage", "counter", "buffered", "stack", "wq"],
        "BLOCK:unfold doRunnerLookup|split|· simp [St.push]|· split|  · simp [St.push]|  · split <;> simp [St.push]|  · dsimp only|    split|    · simp [St.push]|    · split|      · simp [St.push]|      · split <;> simp [St.push]"),
    ("doAfterBody", "(sys idx : Nat)", "doAfterBody s sys idx", ["trace", "stack"], "simp [doAfterBody, St.push]"),
    ("doReinsert", "(sys idx : Nat)", "doReinsert s sys idx", ["storage", "trace", "stack"], "unfold doReinsert; repeat' (first | split | dsimp only) <;> simp [St.push]"),
    ("doReplayTake", "(sys idx : Nat)", "doReplayTake s sys idx", ["buffered", "stack"], "simp [doReplayTake, St.push]"),
    ("doReplayLoop", "(sys : Nat) (r kept : List (Nat × Kind)) (idx : Nat)", "doReplayLoop s sys r kept idx", ["buffered", "trace", "stack"], "unfold doReplayLoop; repeat' (first | split | dsimp only) <;> simp [St.push]"),
    ("doFinish", "(sys idx : Nat)", "doFinish s sys idx", ["counter", "buffered", "trace", "stack"], "unfold doFinish; repeat' (first | split | dsimp only) <;> simp [St.push]"),
    ("doGc", "", "doGc s", ["autoChan", "stack"], "unfold doGc; split <;> simp [St.push]"),
    ("doDespawnWork", "(w : List (Nat × Bool))", "doDespawnWork s w", KILL + ["children", "stack"], "BLOCK:unfold doDespawnWork|split|· rfl|· split|  · split <;> simp [St.push]|  · split <;> simp [St.push]"),
    ("doPoll", "", "doPoll s", ["removedBuf", "removedOld", "dspChan", "tblDsp", "wq", "stack"], "simp [doPoll, St.push]"),
]

def lemma_name(f, fld): return f.replace("St.", "").replace(".", "_") + "_" + fld

out = ["/- GENERATED by tools/gen_frames.py — do not edit. Frame conditions of the machine's helper functions. -/",
       "import Cobweb.Machine", "", "namespace Cobweb", "",
       "theorem foldl_field {σ α β : Type} (v : σ → β) (f : σ → α → σ) (hf : ∀ s a, v (f s a) = v s) (l : List α) (s : σ) :",
       "    v (l.foldl f s) = v s := by",
       "  induction l generalizing s with",
       "  | nil => rfl",
       "  | cons a l ih => exact (ih _).trans (hf s a)", ""]
for f, binders, app, touched, tac in FUNCS:
    for fld in FIELDS:
        if fld in touched: continue
        name = lemma_name(f, fld)
        b = (" " + binders) if binders else ""
        if tac.startswith("FOLD:"):
            inner = tac[5:]
            proof = "foldl_field (fun s => s.%s) %s (fun s a => %s s a) _ _" % (fld, inner, lemma_name(inner, fld))
            out.append("@[simp] theorem %s (s : St)%s : (%s).%s = s.%s := %s" % (name, b, app, fld, fld, proof))
        elif tac.startswith("FOLD2:"):
            inner = tac[6:]
            proof = "foldl_field (fun s => s.%s) (fun s t => %s s sys t) (fun s a => %s s sys a) _ _" % (fld, inner, lemma_name(inner, fld))
            out.append("@[simp] theorem %s (s : St)%s : (%s).%s = s.%s := %s" % (name, b, app, fld, fld, proof))
        elif tac == "KILLCOMPS":
            out.append("@[simp] theorem %s (s : St)%s : (%s).%s = s.%s := by" % (name, b, app, fld, fld))
            out.append("  unfold killComps; dsimp only")
            out.append("  exact foldl_field (fun s => s.%s) (fun (s : St) (p : Nat × Nat) => { s with removedBuf := upd s.removedBuf p.1 (s.removedBuf p.1 ++ [e]) }) (fun _ _ => rfl) _ _" % fld)
        elif tac == "REGALL":
            out.append("@[simp] theorem %s (s : St)%s : (%s).%s = s.%s := by" % (name, b, app, fld, fld))
            out.append("  induction ts generalizing s with")
            out.append("  | nil => rfl")
            out.append("  | cons t ts ih => unfold regAll; dsimp only; rw [ih]; exact %s s h t" % lemma_name("regCmds", fld))
        elif tac == "POLLREM":
            out.append("@[simp] theorem %s (s : St)%s : (%s).%s = s.%s := by" % (name, b, app, fld, fld))
            out.append("  unfold pollRemovals")
            out.append("  exact foldl_field (fun (a : St × List Cmd) => a.1.%s) pollRemStep (fun _ _ => rfl) _ _" % fld)
        elif tac == "POLLDSP":
            out.append("@[simp] theorem %s (s : St)%s : (%s).%s = s.%s := by" % (name, b, app, fld, fld))
            out.append("  unfold pollDespawns")
            out.append("  exact (foldl_field (fun (a : St × List Cmd) => a.1.%s) pollDspStep (fun _ _ => rfl) _ _).trans rfl" % fld)
        elif tac == "STARTBODY":
            out.append("@[simp] theorem %s (s : St)%s : (%s).%s = s.%s := by" % (name, b, app, fld, fld))
            out.append("  unfold startBody; dsimp only")
            out.append("  refine (foldl_field (fun s => s.%s) (fun (s : St) pid => s.emit (Ev.dropPayload pid)) (fun _ _ => rfl) _ _).trans ?_" % fld)
            out.append("  show (observe (preBody s sys k) _).2.%s = _" % fld)
            out.append("  simp")
        elif tac == "OBSERVE":
            out.append("@[simp] theorem %s (s : St)%s : (%s).%s = s.%s := by" % (name, b, app, fld, fld))
            out.append("  unfold observe; dsimp only; rw [bumpLocal_%s]; split <;> (try split) <;> rfl" % fld)
        elif tac == "APPLYCMD":
            out.append("@[simp] theorem %s (s : St)%s : (%s).%s = s.%s := by" % (name, b, app, fld, fld))
            out.append("  cases c <;> simp only [applyCmd] <;> (try split) <;> (try split) <;> (try split) <;> (try simp [St.push, St.fresh])")
        elif tac.startswith("BLOCK:"):
            out.append("@[simp] theorem %s (s : St)%s : (%s).%s = s.%s := by" % (name, b, app, fld, fld))
            for l in tac[6:].split("|"): out.append("  " + l)
        else:
            t = tac.replace("{f}", f)
            out.append("@[simp] theorem %s (s : St)%s : (%s).%s = s.%s := by %s" % (name, b, app, fld, fld, t))
    out.append("")
out.append("end Cobweb")
open("/verif/lean/Cobweb/Proofs/Frames.lean", "w").write("\n".join(out) + "\n")
print("lemmas:", sum(1 for l in out if l.startswith("@[simp]")))
