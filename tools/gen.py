#!/usr/bin/env python3
"""Scenario generator for the bevy_cobweb correspondence check. One PRNG, profiles per property."""
import random

NTY = 2

class Parents:
    """Tracks `set_parent` operations so that no scenario builds a parent cycle (Bevy's `set_parent` does not check;
    `despawn_recursive` on a cyclic hierarchy is Bevy-internal behaviour the model does not describe)."""
    def __init__(self): self.parent = {}
    def line(self, c, p):
        x = p
        while x is not None:
            if x == c: return None          # p is c or a descendant of c
            x = self.parent.get(x)
        self.parent[c] = p
        return "top wsetparent %s %s" % (c, p)

class G:
    def __init__(self, rng, profile="mix"):
        self.r = rng
        self.profile = profile
        self.nE = 0       # named plain entities known to exist at top level
        self.nS = 0       # named systems
        self.nT = 0       # tokens
        self.nA = 0       # signals
        self.ndefs = 0
        self.excl = []
        self.n_wr = 0
        self.n_ewr = 0
        self.pid = 0

    # ---- references -------------------------------------------------------------------------------------------
    def eref(self, slack=1):
        n = self.nE + slack
        if self.nE == 0 and self.r.random() < 0.7: return "e0"
        return "e%d" % self.r.randrange(max(1, n))
    def sref(self, slack=1):
        n = self.nS + slack
        # now and then a `SystemCommand` that names a plain entity (alive, but without a callback)
        if self.r.random() < 0.04: return self.eref()
        return "s%d" % self.r.randrange(max(1, n))
    def anyref(self):
        return self.eref() if self.r.random() < 0.8 else self.sref()
    def ty(self): return self.r.randrange(NTY)
    def newpid(self):
        self.pid += 1
        return self.pid

    def trig(self, kinds=None):
        kinds = kinds or ["bc", "res", "ins", "mut", "rem", "anyev", "eins", "emut", "erem", "eev", "dsp"]
        k = self.r.choice(kinds)
        if k in ("bc", "res", "ins", "mut", "rem", "anyev"): return "%s:%d" % (k, self.ty())
        if k == "dsp": return "dsp:%s" % self.anyref()
        # now and then the target of an entity-scoped trigger is a system entity
        return "%s:%s:%d" % (k, self.eref() if self.r.random() < 0.9 else self.sref(), self.ty())
    def trigs(self, lo=0, hi=3, kinds=None):
        n = self.r.randint(lo, hi)
        if self.r.random() < 0.08: n = 0
        ts = [self.trig(kinds) for _ in range(n)]
        if ts and self.r.random() < 0.1: ts.append(self.r.choice(ts))   # duplicate trigger in a bundle
        return " ".join(ts)

    # ---- actions ----------------------------------------------------------------------------------------------
    def act(self, in_body, excl=False, weights=None, cur_def=-1):
        r = self.r
        w = dict(trigger=5, control=3, register=2, revoke=1, life=1.2, access=1.0, wr=0.0, create=0.5)
        if self.n_wr + self.n_ewr > 0: w["wr"] = 1.5
        if weights: w.update(weights)
        if self.n_wr + self.n_ewr == 0: w["wr"] = 0.0
        cat = r.choices(list(w.keys()), list(w.values()))[0]
        top = not in_body
        if cat == "trigger":
            k = r.choice(["broadcast", "entevent", "resmut", "insert", "mutate", "remove", "setneq", "resset", "ressetneq"])
            if excl and k in ("mutate", "setneq", "resset", "ressetneq"): k = "broadcast"
            if k == "broadcast": return "broadcast %d %d" % (self.ty(), self.newpid())
            if k == "entevent": return "entevent %s %d %d" % (self.anyref(), self.ty(), self.newpid())
            if k == "resmut": return "resmut %d" % self.ty()
            if k == "insert": return "insert %s %d %d" % (self.anyref(), self.ty(), r.randrange(3))
            if k == "mutate": return "mutate %s %d %d" % (self.eref(), self.ty(), r.randrange(3))
            if k == "setneq": return "setneq %s %d %d" % (self.eref(), self.ty(), r.randrange(3))
            if k == "remove": return "remove %s %d" % (self.eref(), self.ty())
            if k == "resset": return "resset %d %d" % (self.ty(), r.randrange(3))
            return "ressetneq %d %d" % (self.ty(), r.randrange(3))
        if cat == "control":
            if r.random() < 0.5: return "run %s" % self.sref()
            return "sysevent %s %d %d" % (self.sref(), self.ty(), self.newpid())
        if cat == "register":
            k = r.choice(["on", "on", "with", "once"])
            if k == "on":
                # bodies may only instantiate later definitions, so instantiation chains are finite
                cand = list(range(cur_def + 1, self.ndefs))
                if not cand: return "resmut %d" % self.ty()
                d = r.choice(cand)
                if top: self.nS += 1
                m = r.choice("pcr")
                if m == "r" and top: self.nT += 1
                return "on %s %d %s" % (m, d, self.trigs())
            if k == "with":
                m = r.choice("pppcr")
                if m == "r" and top: self.nT += 1
                return "with %s %s %s" % (m, self.sref(0), self.trigs())
            cand = [i for i in range(cur_def + 1, self.ndefs) if not self.excl[i]]
            if not cand: return "resmut 0"
            d = r.choice(cand)
            if top: self.nS += 1; self.nT += 1
            # a third of the one-off reactors are made from a zero-sized function item (what user code usually passes;
            # the harness has four such functions, for definitions 0-3): seeded V03
            return "%s %d %s" % ("oncefn" if d < 4 and self.r.random() < 0.35 else "once", d, self.trigs(0, 3))
        if cat == "revoke":
            return "revoke t%d" % r.randrange(max(1, self.nT + 1))
        if cat == "life":
            k = r.choice(["despawn", "despawn", "despawnrec", "remove"])
            if k == "remove": return "remove %s %d" % (self.eref(), self.ty())
            return "%s %s" % (k, self.anyref())
        if cat == "access":
            if excl: return "resmut %d" % self.ty()
            k = r.choice(["read", "resread", "setneq", "ressetneq", "mutnr", "resnr"])
            if k == "mutnr": return "mutnr %s %d %d" % (self.eref(), self.ty(), r.randrange(3))
            if k == "resnr": return "resnr %d %d" % (self.ty(), r.randrange(3))
            if k == "read": return "read %s %d" % (self.eref(), self.ty())
            if k == "resread": return "resread %d" % self.ty()
            if k == "setneq": return "setneq %s %d %d" % (self.eref(), self.ty(), r.randrange(3))
            return "ressetneq %d %d" % (self.ty(), r.randrange(3))
        if cat == "wr":
            opts = []
            if self.n_wr: opts += ["wradd", "wrremove", "wrrun"]
            if self.n_ewr: opts += ["ewradd", "ewradd", "ewrremove"]
            k = r.choice(opts)
            if k == "wradd": return "wradd %d %s" % (r.randrange(self.n_wr), self.trigs(1, 3))
            if k == "wrremove": return "wrremove %d %s" % (r.randrange(self.n_wr), self.trigs(1, 3))
            if k == "wrrun": return "wrrun %d" % r.randrange(self.n_wr)
            if k == "ewradd": return "%s %d %s %d" % ("ewraddnow" if in_body and r.random() < 0.5 else "ewradd", r.randrange(self.n_ewr), self.eref(), r.randrange(5))
            wr = r.randrange(self.n_ewr)
            e = self.eref()
            kinds = ["emut:%s:0", "eev:%s:0"] if wr == 0 else ["eins:%s:1", "erem:%s:1", "eev:%s:1"]
            ts = [k_ % e for k_ in kinds if r.random() < 0.7]
            if r.random() < 0.2: ts.append(self.trig())
            return "ewrremove %d %s" % (wr, " ".join(ts))
        # create
        if r.random() < 0.6:
            if top: self.nE += 1
            return "spawn"
        cand = list(range(cur_def + 1, self.ndefs))
        if not cand: return "spawn"
        if top: self.nS += 1
        return "spawnsys %d" % r.choice(cand)

    def script(self, in_body, excl, lo, hi, weights=None, cur_def=-1):
        return [self.act(in_body, excl, weights, cur_def) for _ in range(self.r.randint(lo, hi))]

def inline_senders(rng, script):
    """An exclusive system can call the `World`-level senders in-line (`world.send_system_event`, `world.broadcast`,
    `world.entity_event`, and `SystemCommand::apply(world)` for a manual run: delivered before the body goes on, after whatever the body queued so far — its own
    reader clean-up first) and can flush the world itself. Half of its sender actions take that form."""
    out = []
    for l in script:
        w = l.split()[0]
        if w == "run" and rng.random() < 0.3: out.append("i" + l)       # `SystemCommand::apply(world)` in-line, no flush first
        elif w in ("sysevent", "broadcast", "entevent", "run") and rng.random() < 0.5: out.append("d" + l)
        else: out.append(l)
        if rng.random() < 0.08: out.append("flush")
    return out

def gen_mix(rng, size=1.0, weights=None, body_weights=None, wr_prob=0.3):
    g = G(rng)
    out = []
    g.ndefs = rng.randint(1, 4)
    g.excl = [rng.random() < 0.15 for _ in range(g.ndefs)]
    if rng.random() < wr_prob:
        g.n_wr = rng.randint(0, 2); g.n_ewr = rng.randint(0, 2)
        if all(g.excl): g.n_ewr = 0
        if wr_prob >= 1.0 and g.n_wr + g.n_ewr == 0: g.n_wr = 1
    # guess at how many things the first top-level batch will create, so bodies may refer to them
    g.nE, g.nS = 2, 3
    defs = []
    for d in range(g.ndefs):
        nruns = rng.randint(1, 3)
        runs = [g.script(True, g.excl[d], 0, int(3 * size) + 1, body_weights, d) for _ in range(nruns)]
        if g.excl[d]: runs = [inline_senders(rng, sc) for sc in runs]
        defs.append(runs)
    g.nE, g.nS, g.nT = 0, 0, 0
    for d, runs in enumerate(defs):
        out.append("def %d %d" % (1 if g.excl[d] else 0, len(runs)))
        for sc in runs:
            out.append("run %d" % len(sc)); out += sc
    for k in range(g.n_wr): out.append("wr %d" % rng.randrange(g.ndefs)); g.nS += 1
    for k in range(g.n_ewr):
        cand = [i for i in range(g.ndefs) if not g.excl[i]]
        if not cand:
            g.n_ewr = k; break
        out.append("ewr %d" % rng.choice(cand)); g.nS += 1
    # setup batch: entities and reactors
    setup = []
    for _ in range(rng.randint(1, 3)): setup.append("spawn"); g.nE += 1
    for _ in range(rng.randint(1, int(4 * size) + 1)):
        setup.append(g.act(False, False, dict(trigger=0, control=0, register=6, revoke=0, life=0, access=0, wr=1.0 if g.n_wr + g.n_ewr else 0, create=1)))
    for e in range(g.nE):
        if rng.random() < 0.6: setup.append("insert e%d %d %d" % (e, g.ty(), rng.randrange(3)))
    out.append("top acts %d" % len(setup)); out += setup
    ntop = rng.randint(2, int(6 * size) + 2)
    parents = Parents()
    for _ in range(ntop):
        x = rng.random()
        if x < 0.6:
            sc = g.script(False, False, 1, int(3 * size) + 1, weights)
            out.append("top acts %d" % len(sc)); out += sc
        elif x < 0.66: out.append("top gc")
        elif x < 0.72: out.append("top poll")
        elif x < 0.78: out.append("top frameend")
        elif x < 0.82: out.append("top wdespawn %s" % g.anyref())
        elif x < 0.85: out.append("top wdespawnrec %s" % g.anyref())
        elif x < 0.88: out.append("top wremove %s %d" % (g.eref(), g.ty()))
        elif x < 0.91: out.append("top wsysevent %s %d %d" % (g.sref(), g.ty(), g.newpid()))
        elif x < 0.94: out.append("top wbroadcast %d %d" % (g.ty(), g.newpid()))
        elif x < 0.97: out.append("top wentevent %s %d %d" % (g.anyref(), g.ty(), g.newpid()))
        else:
            l = parents.line(g.anyref(), g.anyref())      # also systems / reactors as parents and children
            if l: out.append(l)
    out.append("top frameend")
    return "\n".join(out) + "\n"

def gen_signals(rng):
    """C10: prepare / clone / drop / gc / manual despawn / reparent over several entities."""
    out = ["def 0 1", "run 0"]
    n = rng.randint(2, 5)
    out.append("top acts %d" % n); out += ["spawn"] * n
    nsig = 0; nsys = 0
    parents = Parents()
    for _ in range(rng.randint(4, 14)):
        x = rng.random()
        if x < 0.06:
            # a ref-counted system command (`spawn_rc_system_command`): the harness recognises this pair of operations
            out += ["top acts 1", "spawnsys 0", "top sigprepare s%d" % nsys]; nsys += 1; nsig += 1
        elif x < 0.09 and nsys: out += ["top acts 1", "run s%d" % rng.randrange(nsys)]
        elif x < 0.13 and nsys:
            # a plain entity (or another system) as a child of a ref-counted system command: collected with it
            l = parents.line(rng.choice(["e%d" % rng.randrange(n), "s%d" % rng.randrange(nsys)]), "s%d" % rng.randrange(nsys))
            if l: out.append(l)
        elif x < 0.22 or nsig == 0: out.append("top sigprepare e%d" % rng.randrange(n)); nsig += 1
        elif x < 0.40: out.append("top sigclone a%d" % rng.randrange(nsig))
        elif x < 0.62: out.append("top sigdrop a%d" % rng.randrange(nsig))
        elif x < 0.70: out.append("top sigdroprace a%d" % rng.randrange(nsig))
        elif x < 0.78: out.append("top gc")
        elif x < 0.82: out.append("top sigthreads a%d %d" % (rng.randrange(nsig), rng.randint(1, 8)))
        elif x < 0.88: out.append("top wdespawn e%d" % rng.randrange(n))
        elif x < 0.91: out.append("top wdespawnrec e%d" % rng.randrange(n))
        elif x < 0.96:
            # a fresh entity: Bevy hands out the most recently freed slot again (a stale signal must not hit it)
            out += ["top acts 1", "spawn"]; n += 1
        else:
            l = parents.line("e%d" % rng.randrange(n), "e%d" % rng.randrange(n))
            if l: out.append(l)
    out.append("top frameend")
    return "\n".join(out) + "\n"

TRIGGER_ACT = {
    "bc": lambda g, e, ty: "broadcast %d %d" % (ty, g.newpid()),
    "res": lambda g, e, ty: g.r.choice(["resmut %d" % ty, "resset %d %d" % (ty, g.r.randrange(3))]),
    "ins": lambda g, e, ty: "insert %s %d %d" % (e, ty, g.r.randrange(3)),
    "mut": lambda g, e, ty: "mutate %s %d %d" % (e, ty, g.r.randrange(3)),
    "rem": lambda g, e, ty: "remove %s %d" % (e, ty),
    "anyev": lambda g, e, ty: "entevent %s %d %d" % (e, ty, g.newpid()),
    "eins": lambda g, e, ty: "insert %s %d %d" % (e, ty, g.r.randrange(3)),
    "emut": lambda g, e, ty: "mutate %s %d %d" % (e, ty, g.r.randrange(3)),
    "erem": lambda g, e, ty: "remove %s %d" % (e, ty),
    "eev": lambda g, e, ty: "entevent %s %d %d" % (e, ty, g.newpid()),
    "dsp": lambda g, e, ty: "despawn %s" % e,
}

def key_str(kind, e, ty):
    if kind in ("bc", "res", "ins", "mut", "rem", "anyev"): return "%s:%d" % (kind, ty)
    if kind == "dsp": return "dsp:%s" % e
    return "%s:%s:%d" % (kind, e, ty)

def gen_sharedkey(rng):
    """Several reactors share one or two keys; revoke / trigger / despawn in every order (C01, C06, C07, C15)."""
    g = G(rng); out = []
    g.ndefs = rng.randint(1, 3); g.excl = [False] * g.ndefs
    nE = rng.randint(2, 3)
    kinds = ["bc", "res", "ins", "mut", "rem", "anyev", "eins", "emut", "erem", "eev", "dsp"]
    keys = []
    for _ in range(rng.randint(1, 2)):
        k = rng.choice(kinds); keys.append((k, "e%d" % rng.randrange(nE), rng.randrange(NTY)))
    if rng.random() < 0.5:   # a sibling key of the same component type but another kind
        k0 = keys[0]
        sib = {"ins": ["mut", "rem"], "mut": ["ins", "rem"], "rem": ["ins", "mut"], "eins": ["emut", "erem", "eev"], "emut": ["eins", "erem"],
               "erem": ["eins", "emut"], "eev": ["eins", "emut"], "bc": ["anyev"], "anyev": ["bc", "eev"], "res": ["bc"], "dsp": ["erem", "eev"]}[k0[0]]
        keys.append((rng.choice(sib), k0[1], k0[2]))
    # definitions: mostly passive readers; sometimes they revoke / trigger from inside the tree
    for d in range(g.ndefs):
        runs = []
        for _ in range(rng.randint(1, 2)):
            sc = []
            for _ in range(rng.randint(0, 2)):
                x = rng.random()
                k = rng.choice(keys)
                if x < 0.35: sc.append("revoke t%d" % rng.randrange(4))
                elif x < 0.7: sc.append(TRIGGER_ACT[k[0]](g, k[1], k[2]))
                elif x < 0.8: sc.append("despawn s%d" % rng.randrange(4))
                else: sc.append("run s%d" % rng.randrange(4))
            runs.append(sc)
        out.append("def 0 %d" % len(runs))
        for sc in runs: out.append("run %d" % len(sc)); out += sc
    setup = ["spawn"] * nE
    for e in range(nE):
        for ty in range(NTY):
            if rng.random() < 0.7: setup.append("insert e%d %d %d" % (e, ty, rng.randrange(3)))
    nR = rng.randint(2, 4); nT = 0; nS = 0
    for _ in range(nR):
        ts = [key_str(*k) for k in keys if rng.random() < 0.8] or [key_str(*keys[0])]
        if rng.random() < 0.25: ts.append(g.trig())
        if rng.random() < 0.15: ts.append(ts[0])
        x = rng.random()
        d = rng.randrange(g.ndefs)
        if x < 0.5: setup.append("on r %d %s" % (d, " ".join(ts))); nT += 1; nS += 1
        elif x < 0.65: setup.append("%s %d %s" % ("oncefn" if d < 4 and rng.random() < 0.35 else "once", d, " ".join(ts))); nT += 1; nS += 1
        elif x < 0.8: setup.append("on c %d %s" % (d, " ".join(ts))); nS += 1
        else: setup.append("on p %d %s" % (d, " ".join(ts))); nS += 1
        if nS and rng.random() < 0.2:
            setup.append("with %s s%d %s" % (rng.choice("pr"), rng.randrange(nS), key_str(*rng.choice(keys)))); 
            if setup[-1].split()[1] == "r": nT += 1
    # a system that listens to entity-scoped triggers on its own system entity (seeded S06): spawned bare, the triggers come
    # in a later batch through `with`, so the handles stored on its own entity are the only ones it has
    selfwatch = None
    if rng.random() < 0.25:
        setup.append("spawnsys %d" % rng.randrange(g.ndefs)); selfwatch = nS; nS += 1
    out.append("top acts %d" % len(setup)); out += setup
    if selfwatch is not None:
        kind = rng.choice(["eev", "eev", "emut", "eins"]); ty = rng.randrange(NTY); m = rng.choice("ccr")
        sc = ["with %s s%d %s:s%d:%d" % (m, selfwatch, kind, selfwatch, ty)]
        if m == "r": nT += 1
        if kind == "emut": sc.insert(0, "insert s%d %d 1" % (selfwatch, ty))
        keys.append((kind, "s%d" % selfwatch, ty))
        out.append("top acts %d" % len(sc)); out += sc
        if rng.random() < 0.5: out.append("top gc")
        out += ["top acts 1", TRIGGER_ACT[kind](g, "s%d" % selfwatch, ty)]
    for _ in range(rng.randint(3, 8)):
        sc = []
        for _ in range(rng.randint(1, 3)):
            x = rng.random(); k = rng.choice(keys)
            if x < 0.3 and nT: sc.append("revoke t%d" % rng.randrange(nT))
            elif x < 0.8: sc.append(TRIGGER_ACT[k[0]](g, k[1], k[2]))
            elif x < 0.88: sc.append("despawn s%d" % rng.randrange(nS))
            elif x < 0.94: sc.append("despawn e%d" % rng.randrange(nE))
            else: sc.append("insert e%d %d %d" % (rng.randrange(nE), rng.randrange(NTY), rng.randrange(3)))
        y = rng.random()
        out.append("top acts %d" % len(sc)); out += sc
        if y < 0.25: out.append("top gc")
        elif y < 0.4: out.append("top frameend")
    out.append("top frameend")
    return "\n".join(out) + "\n"

def gen_removal2(rng):
    """C08: removals / re-inserts / despawns between polls, entity-scoped and type-wide removal reactors, despawn
    reactors; causes inside reactors, by commands and by direct world access."""
    g = G(rng); out = []
    nE = rng.randint(2, 4)
    g.ndefs = rng.randint(1, 3)
    for d in range(g.ndefs):
        runs = []
        for _ in range(rng.randint(1, 2)):
            sc = []
            for _ in range(rng.randint(0, 2)):
                x = rng.random(); e = "e%d" % rng.randrange(nE); ty = rng.randrange(NTY)
                if x < 0.4: sc.append("remove %s %d" % (e, ty))
                elif x < 0.6: sc.append("despawn %s" % e)
                elif x < 0.8: sc.append("insert %s %d %d" % (e, ty, rng.randrange(3)))
                else: sc.append("run s%d" % rng.randrange(3))
            runs.append(sc)
        out.append("def 0 %d" % len(runs))
        for sc in runs: out.append("run %d" % len(sc)); out += sc
    setup = ["spawn"] * nE
    for e in range(nE):
        for ty in range(NTY):
            if rng.random() < 0.8: setup.append("insert e%d %d %d" % (e, ty, rng.randrange(3)))
    typewide = rng.random() < 0.5
    nS = 0
    for _ in range(rng.randint(1, 4)):
        ts = []
        for _ in range(rng.randint(1, 3)):
            x = rng.random(); e = "e%d" % rng.randrange(nE); ty = rng.randrange(NTY)
            if x < 0.45: ts.append("erem:%s:%d" % (e, ty))
            elif x < 0.65: ts.append("dsp:%s" % e)
            elif x < 0.85 and typewide: ts.append("rem:%d" % ty)
            elif x < 0.92 and typewide: ts.append(rng.choice(["ins", "mut"]) + ":%d" % ty)
            else: ts.append("erem:%s:%d" % (e, ty))
        setup.append("on %s %d %s" % (rng.choice("pcr"), rng.randrange(g.ndefs), " ".join(ts))); nS += 1
    out.append("top acts %d" % len(setup)); out += setup
    for _ in range(rng.randint(2, 7)):
        x = rng.random()
        if x < 0.6:
            sc = []
            for _ in range(rng.randint(1, 4)):
                y = rng.random(); e = "e%d" % rng.randrange(nE); ty = rng.randrange(NTY)
                if y < 0.12:
                    # the same component removed, put back and removed again before the next poll: two removals
                    sc += ["remove %s %d" % (e, ty), "insert %s %d %d" % (e, ty, rng.randrange(3)), "remove %s %d" % (e, ty)]
                elif y < 0.5: sc.append("remove %s %d" % (e, ty))
                elif y < 0.65: sc.append("despawn %s" % e)
                elif y < 0.85: sc.append("insert %s %d %d" % (e, ty, rng.randrange(3)))
                elif y < 0.93: sc.append("run s%d" % rng.randrange(nS))
                else: sc.append("on %s %d erem:%s:%d" % (rng.choice("pc"), rng.randrange(g.ndefs), e, ty))
            out.append("top acts %d" % len(sc)); out += sc
        elif x < 0.7: out.append("top wremove e%d %d" % (rng.randrange(nE), rng.randrange(NTY)))
        elif x < 0.78: out.append("top wdespawn e%d" % rng.randrange(nE))
        elif x < 0.88: out.append("top poll")
        elif x < 0.94: out.append("top frameend")
        else: out.append("top wsysevent s%d 0 %d" % (rng.randrange(nS), g.newpid()))
    out.append("top frameend")
    return "\n".join(out) + "\n"

def gen_dsp(rng):
    """C08/C07: despawn reactors on a few entities: register, revoke, register again on the same (still live) entity, `with`
    on an existing reactor, despawn by command / world access / recursively / from inside a reactor, polls in between."""
    g = G(rng); out = []
    nE = rng.randint(2, 3)
    g.ndefs = rng.randint(1, 2)
    for d in range(g.ndefs):
        runs = []
        for _ in range(rng.randint(1, 2)):
            sc = []
            for _ in range(rng.randint(0, 2)):
                x = rng.random(); e = "e%d" % rng.randrange(nE)
                if x < 0.3: sc.append("despawn %s" % e)
                elif x < 0.5: sc.append("revoke t%d" % rng.randrange(3))
                elif x < 0.7 and d + 1 < g.ndefs: sc.append("on %s %d dsp:%s" % (rng.choice("cr"), d + 1, e))
                elif x < 0.85: sc.append("broadcast 0 %d" % g.newpid())
                else: sc.append("run s%d" % rng.randrange(3))
            runs.append(sc)
        out.append("def 0 %d" % len(runs))
        for sc in runs: out.append("run %d" % len(sc)); out += sc
    setup = ["spawn"] * nE
    nS = 0; nT = 0
    def reg():
        nonlocal nS, nT
        e = "e%d" % rng.randrange(nE)
        ts = ["dsp:%s" % e]
        if rng.random() < 0.3: ts.append("dsp:e%d" % rng.randrange(nE))
        if rng.random() < 0.3: ts.append(rng.choice(["bc:0", "erem:%s:0" % e, "eev:%s:0" % e]))
        rng.shuffle(ts)
        x = rng.random()
        if x < 0.55 or nS == 0:
            m = rng.choice("rrcp"); nS += 1
            if m == "r": nT += 1
            return "on %s %d %s" % (m, rng.randrange(g.ndefs), " ".join(ts))
        if x < 0.8:
            m = rng.choice("rrp")
            if m == "r": nT += 1
            return "with %s s%d %s" % (m, rng.randrange(nS), " ".join(ts))
        nS += 1; nT += 1
        return "once %d %s" % (rng.randrange(g.ndefs), " ".join(ts))
    for _ in range(rng.randint(1, 3)): setup.append(reg())
    for e in range(nE):
        if rng.random() < 0.5: setup.append("insert e%d 0 1" % e)
    twin = rng.random() < 0.35
    if twin:
        # one reactor watches two entities and, while it runs, despawns both and calls another system: the nested runner's
        # poll finds both despawns while the reactor's callback is out, so two despawn reactions for it are postponed
        out.append("def 0 2"); out += ["run 3", "despawn e0", "despawn e1", "run s%d" % (nS + 1), "run 0"]
        out.append("def 0 1"); out += ["run 0"]
        setup.append("on %s %d bc:1 dsp:e0 dsp:e1" % (rng.choice("ppc"), g.ndefs)); nS += 1
        setup.append("spawnsys %d" % (g.ndefs + 1)); nS += 1
    triple = (not twin) and rng.random() < 0.3
    if triple:
        # a cleanup / revokable reactor with *only* despawn triggers, on three entities: the first death starts it, its run
        # despawns the other two and calls another system, so two despawn reactions for it are postponed while the handles
        # travelling with them are all that keeps it alive
        while nE < 3: setup.insert(0, "spawn"); nE += 1
        out.append("def 0 2"); out += ["run 3", "despawn e1", "despawn e2", "run s%d" % (nS + 1), "run 0"]
        out.append("def 0 1"); out += ["run 0"]
        setup.append("on %s %d dsp:e0 dsp:e1 dsp:e2" % (rng.choice("ccr"), g.ndefs)); nS += 1
        setup.append("spawnsys %d" % (g.ndefs + 1)); nS += 1
    out.append("top acts %d" % len(setup)); out += setup
    if twin and rng.random() < 0.7: out += ["top acts 1", "broadcast 1 %d" % g.newpid()]
    if triple and rng.random() < 0.8: out += ["top acts 1", "despawn e0"] + (["top frameend"] if rng.random() < 0.5 else [])
    parents = Parents()
    for _ in range(rng.randint(3, 8)):
        x = rng.random()
        if x < 0.65:
            sc = []
            for _ in range(rng.randint(1, 3)):
                y = rng.random(); e = "e%d" % rng.randrange(nE)
                if y < 0.3 and nT: sc.append("revoke t%d" % rng.randrange(nT))
                elif y < 0.6: sc.append(reg())
                elif y < 0.75: sc.append("despawn %s" % e)
                elif y < 0.8: sc.append("despawnrec %s" % e)
                elif y < 0.9: sc.append("broadcast 0 %d" % g.newpid())
                else: sc.append("run s%d" % rng.randrange(max(1, nS)))
            out.append("top acts %d" % len(sc)); out += sc
        elif x < 0.75: out.append("top poll")
        elif x < 0.85: out.append("top frameend")
        elif x < 0.9: out.append("top gc")
        elif x < 0.95: out.append("top wdespawn e%d" % rng.randrange(nE))
        else:
            l = parents.line("e%d" % rng.randrange(nE), "e%d" % rng.randrange(nE))
            if l: out.append(l)
    if nE >= 2 and rng.random() < 0.25:
        # a notification without an entry ahead of a watched entity's (seeded P03): all despawn reactors of A are revoked
        # (its tracker stays), A dies, then the still-watched B dies, one poll
        a, b = rng.sample(range(nE), 2); d = rng.randrange(g.ndefs)
        out += ["top acts 2", "on r %d dsp:e%d" % (d, a), "on p %d dsp:e%d" % (d, b), "top acts 1", "revoke t%d" % nT,
                "top wdespawn e%d" % a, "top wdespawn e%d" % b, "top poll"]
        nT += 1; nS += 2
    if rng.random() < 0.3:
        # entity id reuse: a watched entity dies by world access (nothing polls), the next spawn gets its slot with a new
        # generation, and a despawn reactor is registered on the newcomer before the death is polled; then the newcomer dies
        x = rng.randrange(nE); d = rng.randrange(g.ndefs)
        out += ["top acts 1", "on p %d dsp:e%d" % (d, x), "top wdespawn e%d" % x,
                "top acts 2", "spawn", "on %s %d dsp:e%d" % (rng.choice("pcr"), d, nE), "top poll"]
        if rng.random() < 0.7: out += ["top acts 1", "despawn e%d" % nE]
        nE += 1
    out.append("top frameend")
    return "\n".join(out) + "\n"

def gen_access2(rng):
    """C14: every accessor against entities whose component / life ends in the same batch: the accessor call sees the entity
    (commands are deferred) while its trigger command is applied after a despawn / removal / re-insert queued earlier;
    type-wide and entity-scoped insertion / mutation probes, resource accessors with equal and different values."""
    g = G(rng); out = []
    nE = rng.randint(2, 3)
    g.ndefs = rng.randint(1, 3)
    def access(e):
        ty = rng.randrange(NTY); x = rng.random()
        if x < 0.08: return "mutnr %s %d %d" % (e, ty, rng.randrange(3))
        if x < 0.12: return "resnr %d %d" % (ty, rng.randrange(3))
        if x < 0.3: return "mutate %s %d %d" % (e, ty, rng.randrange(3))
        if x < 0.55: return "setneq %s %d %d" % (e, ty, rng.randrange(3))
        if x < 0.75: return "insert %s %d %d" % (e, ty, rng.randrange(3))
        if x < 0.82: return "read %s %d" % (e, ty)
        if x < 0.88: return "resset %d %d" % (ty, rng.randrange(3))
        if x < 0.94: return "ressetneq %d %d" % (ty, rng.randrange(3))
        return "resread %d" % ty
    def ender(e):
        x = rng.random()
        if x < 0.4: return "despawn %s" % e
        if x < 0.8: return "remove %s %d" % (e, rng.randrange(NTY))
        return "insert %s %d %d" % (e, rng.randrange(NTY), rng.randrange(3))
    def batch(lo, hi):
        sc = []
        for _ in range(rng.randint(lo, hi)):
            e = "e%d" % rng.randrange(nE)
            if rng.random() < 0.45: sc.append(ender(e)); sc.append(access(e))
            else: sc.append(access(e))
        return sc
    excl = [rng.random() < 0.1 for _ in range(g.ndefs)]
    for d in range(g.ndefs):
        runs = [([] if excl[d] else batch(0, 2)) for _ in range(rng.randint(1, 2))]
        out.append("def %d %d" % (1 if excl[d] else 0, len(runs)))
        for sc in runs: out.append("run %d" % len(sc)); out += sc
    setup = ["spawn"] * nE
    for e in range(nE):
        for ty in range(NTY):
            if rng.random() < 0.85: setup.append("insert e%d %d %d" % (e, ty, rng.randrange(3)))
    for _ in range(rng.randint(2, 4)):
        ts = []
        for _ in range(rng.randint(1, 3)):
            x = rng.random(); e = "e%d" % rng.randrange(nE); ty = rng.randrange(NTY)
            ts.append(rng.choice(["mut:%d" % ty, "mut:%d" % ty, "ins:%d" % ty, "emut:%s:%d" % (e, ty), "eins:%s:%d" % (e, ty), "res:%d" % ty, "rem:%d" % ty]))
        setup.append("on %s %d %s" % (rng.choice("ppc"), rng.randrange(g.ndefs), " ".join(ts)))
    # a third of the scenarios run whole frames (`App::update` clears Bevy's change trackers) and use batches of a single
    # resource action, which the harness sends through the `World`-level resource API every other time
    frames = rng.random() < 0.33
    if frames: setup.append("on p %d %sres:0 res:1" % (rng.randrange(g.ndefs), "rem:0 rem:1 " if rng.random() < 0.5 else ""))
    out.append("top acts %d" % len(setup)); out += setup
    for _ in range(rng.randint(3, 7)):
        sc = batch(1, 3)
        out.append("top acts %d" % len(sc)); out += sc
        if rng.random() < 0.15: out.append("top frameend")
        if frames and rng.random() < 0.6:
            if rng.random() < 0.7: out += UPDATE
            for _ in range(rng.randint(1, 3)):
                ty = rng.randrange(NTY); x = rng.random()
                out.append("top acts 1")
                out.append("resmut %d" % ty if x < 0.6 else "resnr %d %d" % (ty, rng.randrange(3)) if x < 0.8 else "resread %d" % ty)
    out.append("top frameend")
    return "\n".join(out) + "\n"

def gen_wr(rng):
    """C16/C06: the mixed generator with world reactors, half of the time followed by a directed tail: a despawn trigger
    (and others) added to world reactor 0, then — in one batch, so before the next poll — the entity despawned and the
    trigger removed again, in either order; or the removal first and the despawn in a later batch."""
    text = gen_mix(rng, wr_prob=1.0, weights=dict(wr=4), body_weights=dict(wr=2))
    y = rng.random()
    if y < 0.4: return text
    if y < 0.55:
        # redundant removes (the same trigger twice, a trigger that was never added), then a genuine one: it must still stop
        # the reactor (seeded N04: a request counter that redundant removes drain)
        a, b = rng.sample(["bc:0", "bc:1", "res:0", "res:1"], 2)
        out = ["top acts 1", "wradd 0 %s" % a, "top acts 1", "wrremove 0 %s" % a, "top acts 1", "wrremove 0 %s" % a,
               "top acts 1", "wradd 0 %s" % b, "top acts 1", "wrremove 0 %s" % rng.choice(["anyev:0", "mut:1", a]),
               "top acts 1", "wrremove 0 %s" % b, "top acts 2",
               ("broadcast %s 97" % b[3:]) if b.startswith("bc") else ("resmut %s" % b[4:]),
               ("broadcast %s 98" % a[3:]) if a.startswith("bc") else ("resmut %s" % a[4:]), "top frameend"]
        return text + "\n".join(out) + "\n"
    e = "e%d" % rng.randrange(3)
    extra = rng.choice(["", " bc:0", " res:1", " emut:%s:0" % e])
    out = ["top acts 1", "wradd 0 dsp:%s%s" % (e, extra)]
    x = rng.random()
    if x < 0.5: out += ["top acts 2", "despawn %s" % e, "wrremove 0 dsp:%s" % e]
    elif x < 0.75: out += ["top acts 2", "wrremove 0 dsp:%s" % e, "despawn %s" % e]
    else: out += ["top wdespawn %s" % e, "top acts 1", "wrremove 0 dsp:%s" % e]
    out += ["top frameend"]
    if rng.random() < 0.5: out += ["top acts 1", "broadcast 0 99", "top frameend"]
    return text + "\n".join(out) + "\n"

def gen_stale(rng):
    """C18: the mixed generator weighted towards despawns; a third of the time followed by a bundle of three or more triggers
    whose entity-scoped members name a dead entity while another member does not (seeded O01): the live member must be
    registered and fire."""
    text = gen_mix(rng, weights=dict(life=5, trigger=4, control=4, register=2, revoke=2), body_weights=dict(life=4, control=3, trigger=3))
    y = rng.random()
    if y < 0.2:
        # the source of a reaction dies between scheduling and delivery (seeded Q04): several listeners of one insertion /
        # mutation, the first of which despawns the entity; the later ones must still run (they are alive)
        nd = sum(1 for l in text.split("\n") if l.startswith("def "))
        kind, fire = rng.choice([("ins", "insert e1 0 7"), ("mut", "mutate e1 0 7")])
        out = ["def 0 1", "run 1", "despawn e1", "def 0 1", "run 0",
               "top acts 5", "spawn", "insert e1 0 1", "on p %d %s:0" % (nd, kind), "on p %d %s:0" % (nd + 1, kind), "on p %d e%s:e1:0" % (nd + 1, kind),
               "top acts 1", fire, "top frameend"]
        return text + "\n".join(out) + "\n"
    if y >= 0.53: return text
    mid = rng.choice(["bc:0", "bc:1", "res:0", "eev:e1:0"])
    ts = rng.choice(["eev:e0:0 %s dsp:e0", "erem:e0:1 %s eins:e0:0", "emut:e0:0 %s eev:e0:1", "dsp:e0 %s dsp:e0"]) % mid
    fire = {"bc:0": "broadcast 0 96", "bc:1": "broadcast 1 96", "res:0": "resmut 0", "eev:e1:0": "entevent e1 0 96"}[mid]
    out = ["top wdespawn e0", "top acts 1", "on %s 0 %s" % (rng.choice("pcr"), ts), "top acts 1", fire, "top frameend",
           "top acts 1", fire.replace("96", "95"), "top frameend"]
    return text + "\n".join(out) + "\n"

def gen_cascade(rng):
    """C11/C08: chains of polled reactions: the reactor of `despawn(e_k)` / `removal(e_k)` despawns e_{k+1} or removes its
    component, 2-4 levels deep, so that the last detection of a tree happens at a nested runner exit; some reactors
    re-trigger themselves (postponed + replayed run causes the next despawn). Trees are started by system commands."""
    g = G(rng); out = []
    n = rng.randint(2, 4)                      # chain length
    nE = n + 1
    kinds = [rng.choice(["dsp", "erem"]) for _ in range(n)]
    # def k (k < n): reacts to e_k, causes the event for e_{k+1}; def n: kicker (causes the event for e_0); def n+1: noop
    def cause(k):
        if k >= n: return "broadcast 0 %d" % g.newpid()
        return "despawn e%d" % k if kinds[k] == "dsp" else "remove e%d 0" % k
    for k in range(n):
        runs = [[cause(k + 1)]]
        if rng.random() < 0.35: runs = [["run s%d" % k, cause(k + 1)]] if rng.random() < 0.5 else [["run s%d" % k], [cause(k + 1)]]
        if rng.random() < 0.3: runs.append([])
        out.append("def 0 %d" % len(runs))
        for sc in runs: out.append("run %d" % len(sc)); out += sc
    out.append("def 0 2"); out += ["run 1", cause(0), "run 0"]
    out.append("def 0 1"); out += ["run 0"]
    setup = ["spawn"] * nE
    for e in range(nE): setup.append("insert e%d 0 1" % e)
    for k in range(n):
        trig = "dsp:e%d" % k if kinds[k] == "dsp" else "erem:e%d:0" % k
        if rng.random() < 0.2: trig += " rem:0" if kinds[k] == "erem" else " bc:1"
        setup.append("on %s %d %s" % (rng.choice("pc"), k, trig))
    setup.append("spawnsys %d" % n)           # s_n: kicker
    setup.append("spawnsys %d" % (n + 1))     # s_{n+1}: noop
    out.append("top acts %d" % len(setup)); out += setup
    x = rng.random()
    if x < 0.5: out += ["top acts 1", "run s%d" % n]
    elif x < 0.8: out += ["top acts 2", cause(0), "run s%d" % (n + 1)]
    else: out += ["top acts 2", "run s%d" % (n + 1), cause(0)]
    for _ in range(rng.randint(1, 3)):
        y = rng.random()
        if y < 0.4: out += ["top acts 1", "run s%d" % (n + 1)]
        elif y < 0.6: out.append("top poll")
        elif y < 0.8: out += ["top acts 1", "broadcast 1 %d" % g.newpid()]
        else: out.append("top gc")
    out.append("top frameend")
    return "\n".join(out) + "\n"

def gen_deepchain(rng):
    """C09/C02: a chain of 33-40 ordinary systems, each of which only runs the next one in-line, and at the bottom a system
    that targets itself (postponed) and then a sibling, or two systems that target each other: postponement and replay
    order at a nesting depth no other profile reaches (seeded Q07: past a fixed depth, deferred commands were queued
    instead of applied in-line)."""
    g = G(rng); out = []
    n = rng.randint(33, 40)
    for k in range(n): out += ["def 0 1", "run 1", "run s%d" % (k + 1)]
    z, w = n, n + 1
    def msg(t):
        x = rng.random()
        if x < 0.5: return "run s%d" % t
        if x < 0.8: return "sysevent s%d 0 %d" % (t, g.newpid())
        return "broadcast 0 %d" % g.newpid()
    if rng.random() < 0.6:
        out += ["def 0 2", "run 3", msg(z), msg(w), msg(z), "run 0", "def 0 1", "run 0"]
    else:
        out += ["def 0 2", "run 2", msg(w), msg(w), "run 1", msg(w), "def 0 2", "run 2", msg(z), msg(w), "run 0"]
    setup = ["spawnsys %d" % d for d in range(n + 2)]
    if rng.random() < 0.5: setup.append("with p s%d bc:0" % z)
    out.append("top acts %d" % len(setup)); out += setup
    out += ["top acts 1", "run s0", "top frameend"]
    return "\n".join(out) + "\n"

def gen_deeprec(rng):
    """C02/C09/C12: 3-4 systems that do little else than run / message each other and themselves over several runs:
    nested replays, commands postponed during a replay, several pending entries per system, buffers that interleave
    entries of different ancestors."""
    g = G(rng); out = []
    n = rng.randint(3, 4)
    for d in range(n):
        runs = []
        for _ in range(rng.randint(2, 3)):
            sc = []
            for _ in range(rng.randint(0, 3)):
                x = rng.random(); t = rng.randrange(n)
                if x < 0.15: t = d
                if x < 0.7: sc.append("run s%d" % t)
                elif x < 0.9: sc.append("sysevent s%d %d %d" % (t, rng.randrange(NTY), g.newpid()))
                else: sc.append("broadcast 0 %d" % g.newpid())
            runs.append(sc)
        out.append("def %d %d" % (1 if rng.random() < 0.1 else 0, len(runs)))
        for sc in runs: out.append("run %d" % len(sc)); out += sc
    setup = []
    for d in range(n):
        if rng.random() < 0.3: setup.append("on p %d bc:0" % d)
        else: setup.append("spawnsys %d" % d)
    out.append("top acts %d" % len(setup)); out += setup
    for _ in range(rng.randint(1, 3)):
        sc = []
        for _ in range(rng.randint(1, 2)):
            x = rng.random()
            if x < 0.7: sc.append("run s%d" % rng.randrange(n))
            elif x < 0.9: sc.append("sysevent s%d 0 %d" % (rng.randrange(n), g.newpid()))
            else: sc.append("broadcast 0 %d" % g.newpid())
        out.append("top acts %d" % len(sc)); out += sc
    out.append("top frameend")
    return "\n".join(out) + "\n"

def gen_appreact(rng):
    """C13/C01: reactors registered through `App::add_reactor` with plain `fn` items (zero-sized), the same function
    registered several times on the same or different type-wide triggers; triggers fired at top level and from inside
    bodies, so registrations of one function run interleaved and nested."""
    g = G(rng); out = []
    g.ndefs = rng.randint(1, 3)
    nE = 2
    def fire():
        x = rng.random(); ty = rng.randrange(NTY)
        if x < 0.4: return "broadcast %d %d" % (ty, g.newpid())
        if x < 0.6: return "resmut %d" % ty
        if x < 0.8: return "mutate e%d %d %d" % (rng.randrange(nE), ty, rng.randrange(3))
        return "entevent e%d %d %d" % (rng.randrange(nE), ty, g.newpid())
    for d in range(g.ndefs):
        runs = []
        for _ in range(rng.randint(2, 4)):
            sc = [fire() for _ in range(rng.randint(0, 2))]
            if rng.random() < 0.2: sc.append("run s%d" % rng.randrange(4))
            runs.append(sc)
        out.append("def 0 %d" % len(runs))
        for sc in runs: out.append("run %d" % len(sc)); out += sc
    nS = 0
    for _ in range(rng.randint(2, 5)):
        d = rng.randrange(g.ndefs)
        ts = []
        for _ in range(rng.randint(1, 2)):
            ts.append(rng.choice(["bc", "res", "mut", "anyev", "ins"]) + ":%d" % rng.randrange(NTY))
        out.append("top appreactor %d %s" % (d, " ".join(ts))); nS += 1
    setup = ["spawn"] * nE + ["insert e%d %d 0" % (e, ty) for e in range(nE) for ty in range(NTY)]
    out.append("top acts %d" % len(setup)); out += setup
    # half of the time: app reactors with entity-scoped triggers only, whose entities are then despawned — `add_reactor` is
    # persistent, so the reactor (and its state) must outlive every one of its triggers
    scoped = rng.random() < 0.5
    if scoped:
        for _ in range(rng.randint(1, 2)):
            e = rng.randrange(nE)
            t = rng.choice(["emut:e%d:%d" % (e, rng.randrange(NTY)), "eev:e%d:%d" % (e, rng.randrange(NTY)), "dsp:e%d" % e,
                            "eev:e%d:0 dsp:e%d" % (e, e), "erem:e%d:%d eins:e%d:%d" % (e, rng.randrange(NTY), e, rng.randrange(NTY))])
            out.append("top appreactor %d %s" % (rng.randrange(g.ndefs), t)); nS += 1
    for _ in range(rng.randint(3, 7)):
        sc = [fire() for _ in range(rng.randint(1, 2))]
        if scoped and rng.random() < 0.35: sc.append("despawn e%d" % rng.randrange(nE))
        out.append("top acts %d" % len(sc)); out += sc
        if rng.random() < 0.2: out.append("top appreactor %d bc:%d" % (rng.randrange(g.ndefs), rng.randrange(NTY)))
        if scoped and rng.random() < 0.3: out.append("top frameend")
    out.append("top frameend")
    if scoped:
        sc = [fire() for _ in range(2)]
        out.append("top acts %d" % len(sc)); out += sc; out.append("top frameend")
    return "\n".join(out) + "\n"

UPDATE = ["top update", "top cleartrackers"]   # `App::update()`: the schedules, then `World::clear_trackers`

def gen_frames(rng):
    """C08/C10/C11: whole frames through `App::update()` (the `Last` schedule: collector, then the poll) instead of the
    manual `frameend`; each is written `top update` + `top cleartrackers` (the schedules, then `World::clear_trackers`, at
    which Bevy drops the removal events that are two frames old: the model ages them the same way). Three flavours:
    removal reactors for every component type registered first (every poll reads everything); nothing registered first
    (types become tracked late or never: events of untracked types age and vanish); and `entity-only`, where the only
    removal reactors are entity-scoped and there is no despawn reactor at all (nothing in `ReactCache` but the checkers)."""
    g = G(rng); out = []
    nE = rng.randint(2, 4)
    g.ndefs = rng.randint(1, 2)
    for d in range(g.ndefs):
        runs = []
        for _ in range(rng.randint(1, 2)):
            sc = []
            for _ in range(rng.randint(0, 2)):
                x = rng.random(); e = "e%d" % rng.randrange(nE)
                if x < 0.4: sc.append("remove %s %d" % (e, rng.randrange(NTY)))
                elif x < 0.6: sc.append("despawn %s" % e)
                elif x < 0.8: sc.append("insert %s %d 1" % (e, rng.randrange(NTY)))
                else: sc.append("broadcast 0 %d" % g.newpid())
            runs.append(sc)
        out.append("def 0 %d" % len(runs))
        for sc in runs: out.append("run %d" % len(sc)); out += sc
    setup = ["spawn"] * nE
    for e in range(nE):
        for ty in range(NTY): setup.append("insert e%d %d 1" % (e, ty))
    flavour = rng.choice(["all", "all", "late", "late", "entity-only"])
    nS = 0
    if flavour == "all": setup.append("on p %d rem:0 rem:1" % rng.randrange(g.ndefs)); nS += 1
    for _ in range(rng.randint(1, 3)):
        e = "e%d" % rng.randrange(nE)
        if flavour == "entity-only":
            t = rng.choice(["erem:%s:%d" % (e, rng.randrange(NTY)), "erem:%s:0 erem:%s:1" % (e, e), "bc:0 erem:%s:%d" % (e, rng.randrange(NTY))])
        else:
            t = rng.choice(["dsp:%s" % e, "erem:%s:%d" % (e, rng.randrange(NTY)), "bc:0", "dsp:%s erem:%s:0" % (e, e)])
        setup.append("on %s %d %s" % (rng.choice("pcr"), rng.randrange(g.ndefs), t)); nS += 1
    watched = None
    if flavour != "entity-only" and rng.random() < 0.6:
        # an entity watched by a despawn (and a removal) reactor that will die through its last signal, outside any tree
        watched = "e%d" % rng.randrange(nE)
        setup.append("on %s %d dsp:%s" % (rng.choice("ppc"), rng.randrange(g.ndefs), watched)); nS += 1
    out.append("top acts %d" % len(setup)); out += setup
    if rng.random() < 0.3:
        # an entity as a child of a reactor: a cleanup / revokable reactor that is collected takes its descendants with it
        out.append("top wsetparent e%d s%d" % (rng.randrange(nE), rng.randrange(nS)))
    nsig = 0
    for _ in range(rng.randint(3, 9)):
        x = rng.random(); e = "e%d" % rng.randrange(nE)
        if watched and x < 0.12:
            out += ["top sigprepare %s" % watched, "top sigdrop a%d" % nsig] + UPDATE; nsig += 1
            if rng.random() < 0.5: out.append("top acts 1"); out.append("broadcast 0 %d" % g.newpid())
            watched = None
        elif x < 0.25: out += UPDATE
        elif x < 0.27: out.append("top cleartrackers")          # a user who drives the world by hand
        elif x < 0.29 and flavour == "late": out.append("top acts 1"); out.append("on p %d %s" % (rng.randrange(g.ndefs), rng.choice(["rem:0", "rem:1", "erem:%s:%d" % (e, rng.randrange(NTY))]))); nS += 1
        elif x < 0.35: out.append("top sigprepare %s" % e); nsig += 1
        elif x < 0.45 and nsig: out.append("top sigdrop a%d" % rng.randrange(nsig))
        elif x < 0.5 and nsig: out.append("top sigclone a%d" % rng.randrange(nsig))
        elif x < 0.55: out.append("top wremove %s %d" % (e, rng.randrange(NTY)))
        elif x < 0.62: out.append("top wdespawn %s" % e)
        elif x < 0.66: out.append("top wdespawn s%d" % rng.randrange(nS))
        else:
            sc = []
            for _ in range(rng.randint(1, 3)):
                y = rng.random(); e = "e%d" % rng.randrange(nE)
                if y < 0.35: sc.append("remove %s %d" % (e, rng.randrange(NTY)))
                elif y < 0.55: sc.append("despawn %s" % e)
                elif y < 0.7: sc.append("insert %s %d 2" % (e, rng.randrange(NTY)))
                elif y < 0.85: sc.append("despawn s%d" % rng.randrange(nS))
                else: sc.append("broadcast 0 %d" % g.newpid())
            out.append("top acts %d" % len(sc)); out += sc
    out += UPDATE
    if flavour != "all" and rng.random() < 0.5:
        # a late registration after the last frame, then one more poll: what is still readable reacts, what aged out does not
        out += ["top acts 1", "on p %d rem:%d" % (rng.randrange(g.ndefs), rng.randrange(NTY))] + (UPDATE if rng.random() < 0.5 else ["top poll"])
    return "\n".join(out) + "\n"

def gen_wide(rng):
    """Sizes past the inline capacities of the crate (`EntityReactors`: 6, reactor-type lists: 10): 7-12 reactors on one
    hot entity / key, bundles of 9-14 triggers, long batches; small bodies so traces stay short."""
    g = G(rng); out = []
    g.ndefs = rng.randint(2, 3)
    g.excl = [False] * g.ndefs
    hotE = "e0"
    hot = ["eev:%s:0" % hotE, "emut:%s:0" % hotE, "eins:%s:0" % hotE, "erem:%s:0" % hotE, "dsp:%s" % hotE, "bc:0", "res:0", "anyev:0", "mut:0", "rem:0"]
    nT = 0
    for d in range(g.ndefs):
        runs = []
        for _ in range(rng.randint(1, 2)):
            sc = []
            if rng.random() < 0.35:
                x = rng.random()
                if x < 0.3: sc.append("broadcast 1 %d" % g.newpid())
                elif x < 0.5: sc.append("revoke t%d" % rng.randrange(6))
                elif x < 0.65: sc.append("entevent e1 0 %d" % g.newpid())
                elif x < 0.8: sc.append("despawn %s" % rng.choice(["e0", "e1", "s%d" % rng.randrange(8)]))
                else: sc.append("run s%d" % rng.randrange(8))
            runs.append(sc)
        out.append("def 0 %d" % len(runs))
        for sc in runs: out.append("run %d" % len(sc)); out += sc
    setup = ["spawn", "spawn", "spawn", "insert e0 0 1", "insert e1 0 1"]
    nreg = rng.randint(7, 12)
    for i in range(nreg):
        m = rng.choice("ppcrr")
        if rng.random() < 0.2:
            ts = [rng.choice(hot + ["eev:e1:0", "emut:e1:0", "bc:1", "eev:e2:1"]) for _ in range(rng.randint(9, 14))]
        else:
            ts = [rng.choice(hot) for _ in range(rng.randint(1, 3))]
        if m == "r": nT += 1
        setup.append("on %s %d %s" % (m, rng.randrange(g.ndefs), " ".join(ts)))
    out.append("top acts %d" % len(setup)); out += setup
    for _ in range(rng.randint(4, 9)):
        x = rng.random()
        if x < 0.55:
            sc = []
            for _ in range(rng.randint(1, 4) if rng.random() < 0.8 else rng.randint(8, 14)):
                y = rng.random()
                if y < 0.2: sc.append("entevent e0 0 %d" % g.newpid())
                elif y < 0.35: sc.append("mutate e0 0 %d" % rng.randrange(3))
                elif y < 0.45: sc.append("insert e0 0 %d" % rng.randrange(3))
                elif y < 0.55: sc.append("broadcast 0 %d" % g.newpid())
                elif y < 0.62: sc.append("resmut 0")
                elif y < 0.7: sc.append("entevent e1 0 %d" % g.newpid())
                elif y < 0.8 and nT: sc.append("revoke t%d" % rng.randrange(nT))
                elif y < 0.86: sc.append("remove e0 0")
                elif y < 0.9: sc.append("despawn %s" % rng.choice(["e0", "e1", "s%d" % rng.randrange(nreg)]))
                elif y < 0.95: sc.append("with %s s%d %s" % (rng.choice("pcr"), rng.randrange(nreg), rng.choice(hot)))
                else: sc.append("run s%d" % rng.randrange(nreg))
            out.append("top acts %d" % len(sc)); out += sc
        elif x < 0.7: out.append("top frameend")
        elif x < 0.8: out.append("top wentevent e0 0 %d" % g.newpid())
        elif x < 0.9: out.append("top wbroadcast 0 %d" % g.newpid())
        else: out.append("top wdespawn %s" % rng.choice(["e0", "e1", "s%d" % rng.randrange(nreg)]))
    out.append("top frameend")
    return "\n".join(out) + "\n"

def gen_huge(rng):
    """Counts past byte-sized thresholds: 260-330 reactors on one event (fan-out of one tree when the event is sent from a
    body), so one tree runs more than 256 commands and one payload has more than 255 readers."""
    g = G(rng); out = []
    # def 0: the sender (one run); def 1: a reader that does nothing; def 2: a reader that re-sends once
    out += ["def 0 2", "run 1", rng.choice(["broadcast 0 1", "entevent e0 0 1"]), "run 1", rng.choice(["broadcast 0 2", "entevent e0 0 2", "run s1"])]
    out += ["def 0 1", "run 0"]
    out += ["def 0 2", "run 1", rng.choice(["broadcast 1 3", "resmut 0", "run s0"]), "run 0"]
    n = rng.randint(260, 330)
    setup = ["spawn", "spawnsys 0"]
    kinds = rng.choice([["bc:0"], ["eev:e0:0", "anyev:0"], ["bc:0", "eev:e0:0", "anyev:0"]])
    special = rng.randrange(n)
    for i in range(n):
        d = 2 if i == special else 1
        t = rng.choice(kinds)
        if rng.random() < 0.03: t = t + " " + rng.choice(kinds)
        setup.append("on %s %d %s" % (rng.choice("ppc"), d, t))
    out.append("top acts %d" % len(setup)); out += setup
    out += ["top acts 1", "run s0"]
    x = rng.random()
    if x < 0.4: out += ["top acts 1", "run s0"]
    elif x < 0.7: out += ["top wbroadcast 0 9"]
    else: out += ["top wentevent e0 0 9"]
    out.append("top frameend")
    return "\n".join(out) + "\n"

def gen_burst(rng):
    """Bursts: one run makes 9-24 deliveries of mixed kinds to systems that are executing (so they are postponed) — counts
    past any small batch size in the replay path."""
    g = G(rng); out = []
    nsys = rng.randint(2, 3)
    def burst(n):
        sc = []
        for _ in range(n):
            x = rng.random(); tgt = "s%d" % rng.randrange(nsys)
            if x < 0.35: sc.append("run %s" % tgt)
            elif x < 0.5: sc.append("sysevent %s %d %d" % (tgt, rng.randrange(NTY), g.newpid()))
            elif x < 0.7: sc.append("broadcast 0 %d" % g.newpid())
            elif x < 0.9: sc.append("resmut 0")
            else: sc.append("entevent e0 0 %d" % g.newpid())
        return sc
    for d in range(nsys):
        runs = [burst(rng.randint(9, 24)) if (d == 0 or rng.random() < 0.4) else burst(rng.randint(0, 3))]
        for _ in range(rng.randint(0, 2)): runs.append(burst(rng.randint(0, 2)))
        out.append("def 0 %d" % len(runs))
        for sc in runs: out.append("run %d" % len(sc)); out += sc
    setup = ["spawn"]
    for d in range(nsys):
        ts = [t for t in ["bc:0", "res:0", "eev:e0:0"] if rng.random() < 0.6]
        setup.append("on p %d %s" % (d, " ".join(ts)))
    out.append("top acts %d" % len(setup)); out += setup
    out += ["top acts 1", "run s0"]
    if rng.random() < 0.5: out += ["top acts 1", rng.choice(["broadcast 0 %d" % g.newpid(), "run s1", "resmut 0"])]
    out.append("top frameend")
    return "\n".join(out) + "\n"

def gen_sigrace(rng):
    """C10, concurrent last drops: many entities, each with one signal whose last handle and a fresh clone of it are dropped
    by two racing threads; then one collection must despawn them all."""
    out = ["def 0 1", "run 0"]
    n = rng.randint(20, 40)
    out.append("top acts %d" % n); out += ["spawn"] * n
    for e in range(n): out.append("top sigprepare e%d" % e)
    order = list(range(n)); rng.shuffle(order)
    for a in order:
        out.append("top sigdroprace a%d" % a if rng.random() < 0.9 else "top sigdrop a%d" % a)
        if rng.random() < 0.1: out.append("top gc")
    out.append("top gc")
    out.append("top frameend")
    return "\n".join(out) + "\n"

def gen_visibility(rng):
    """C03/C04/C05: several listeners per event; bodies run other systems (probes) and send further events, so readers
    are sampled at every position of the tree while data entities are still alive."""
    g = G(rng); out = []
    g.ndefs = rng.randint(2, 4); g.excl = [rng.random() < 0.2 for _ in range(g.ndefs)]
    nE = rng.randint(1, 3); nS = rng.randint(3, 5)
    for d in range(g.ndefs):
        runs = []
        for _ in range(rng.randint(1, 3)):
            sc = []
            for _ in range(rng.randint(1, 3)):
                x = rng.random()
                if x < 0.35: sc.append("run s%d" % rng.randrange(nS))
                elif x < 0.5: sc.append("sysevent s%d %d %d" % (rng.randrange(nS), rng.randrange(NTY), g.newpid()))
                elif x < 0.7: sc.append("broadcast %d %d" % (rng.randrange(NTY), g.newpid()))
                elif x < 0.85: sc.append("entevent e%d %d %d" % (rng.randrange(nE), rng.randrange(NTY), g.newpid()))
                elif x < 0.93: sc.append("resmut %d" % rng.randrange(NTY))
                else: sc.append("despawn s%d" % rng.randrange(nS))
            runs.append(sc)
        out.append("def %d %d" % (1 if g.excl[d] else 0, len(runs)))
        for sc in runs: out.append("run %d" % len(sc)); out += sc
    setup = ["spawn"] * nE
    for k in range(nS):
        ts = []
        for _ in range(rng.randint(1, 3)):
            x = rng.random()
            if x < 0.45: ts.append("bc:%d" % rng.randrange(NTY))
            elif x < 0.65: ts.append("eev:e%d:%d" % (rng.randrange(nE), rng.randrange(NTY)))
            elif x < 0.8: ts.append("anyev:%d" % rng.randrange(NTY))
            else: ts.append("res:%d" % rng.randrange(NTY))
        setup.append("on %s %d %s" % (rng.choice("ppcr"), rng.randrange(g.ndefs), " ".join(ts)))
    out.append("top acts %d" % len(setup)); out += setup
    for _ in range(rng.randint(2, 5)):
        sc = []
        for _ in range(rng.randint(1, 2)):
            x = rng.random()
            if x < 0.45: sc.append("broadcast %d %d" % (rng.randrange(NTY), g.newpid()))
            elif x < 0.7: sc.append("entevent e%d %d %d" % (rng.randrange(nE), rng.randrange(NTY), g.newpid()))
            elif x < 0.8: sc.append("resmut %d" % rng.randrange(NTY))
            elif x < 0.9: sc.append("sysevent s%d %d %d" % (rng.randrange(nS), rng.randrange(NTY), g.newpid()))
            else: sc.append("run s%d" % rng.randrange(nS))
        out.append("top acts %d" % len(sc)); out += sc
    out.append("top frameend")
    return "\n".join(out) + "\n"

def gen_ewr(rng):
    """C16: world reactors and entity world reactors: add / remove (full, partial, multi-entity bundles) / trigger /
    despawn, triggers from inside the reactor."""
    g = G(rng); out = []
    nE = rng.randint(2, 4)
    g.ndefs = rng.randint(2, 3); g.excl = [False] * g.ndefs
    g.n_wr = rng.randint(0, 2); g.n_ewr = rng.randint(1, 2)
    def ewr_trigs(wr, e, full=False):
        kinds = ["emut:%s:0", "eev:%s:0"] if wr == 0 else ["eins:%s:1", "erem:%s:1", "eev:%s:1"]
        ts = [k % e for k in kinds if full or rng.random() < 0.6]
        return ts
    def fire(e):
        return rng.choice(["mutate %s 0 %d" % (e, rng.randrange(4)), "entevent %s 0 %d" % (e, g.newpid()), "insert %s 1 %d" % (e, rng.randrange(4)),
                           "remove %s 1" % e, "entevent %s 1 %d" % (e, g.newpid()), "insert %s 0 %d" % (e, rng.randrange(4))])
    for d in range(g.ndefs):
        runs = []
        for _ in range(rng.randint(1, 3)):
            sc = []
            for _ in range(rng.randint(0, 2)):
                x = rng.random(); e = "e%d" % rng.randrange(nE)
                if x < 0.5: sc.append(fire(e))
                elif x < 0.65:
                    # half of the time `EntityReactor::add` called by the body itself (`ewraddnow`), and then often right
                    # behind a queued despawn of that entity: alive at the call, dead when the queued insertion is applied
                    # (seeded S07)
                    if rng.random() < 0.5:
                        if rng.random() < 0.5: sc.append("despawn %s" % e)
                        sc.append("ewraddnow %d %s %d" % (rng.randrange(g.n_ewr), e, rng.randrange(9)))
                    else: sc.append("ewradd %d %s %d" % (rng.randrange(g.n_ewr), e, rng.randrange(9)))
                elif x < 0.8: sc.append("ewrremove %d %s" % ((lambda w: (w, " ".join(ewr_trigs(w, e))))(rng.randrange(g.n_ewr))))
                elif x < 0.9 and g.n_wr: sc.append("wrrun %d" % rng.randrange(g.n_wr))
                else: sc.append("despawn %s" % e)
            runs.append(sc)
        out.append("def 0 %d" % len(runs))
        for sc in runs: out.append("run %d" % len(sc)); out += sc
    # a third of the scenarios: entity world reactor 0 re-sends, in its first run, the entity event it reacts to, while a
    # plain reactor listens to the same event on the same entity (registered before or after it): sibling reactions of one
    # event are postponed / replayed out of their preparation order
    resend = rng.random() < 0.33
    if resend:
        out.append("def 0 2"); out += ["run 1", "entevent e0 0 %d" % g.newpid(), "run 0"]
    for k in range(g.n_wr): out.append("wr %d" % rng.randrange(g.ndefs))
    for k in range(g.n_ewr): out.append("ewr %d" % (g.ndefs if (resend and k == 0) else rng.randrange(g.ndefs)))
    setup = ["spawn"] * nE
    if resend:
        plain = "on p %d eev:e0:0" % rng.randrange(g.ndefs)
        setup += [plain, "ewradd 0 e0 %d" % rng.randrange(9)] if rng.random() < 0.5 else ["ewradd 0 e0 %d" % rng.randrange(9), plain]
    for e in range(nE):
        if rng.random() < 0.8: setup.append("insert e%d 0 %d" % (e, rng.randrange(4)))
        if rng.random() < 0.5: setup.append("insert e%d 1 %d" % (e, rng.randrange(4)))
    for e in range(nE):
        for w in range(g.n_ewr):
            if rng.random() < 0.7: setup.append("ewradd %d e%d %d" % (w, e, rng.randrange(9)))
    for w in range(g.n_wr):
        setup.append("wradd %d %s" % (w, g.trigs(1, 3, ["bc", "res", "mut", "ins", "eev", "emut"])))
    out.append("top acts %d" % len(setup)); out += setup
    if resend: out += ["top acts 1", "entevent e0 0 %d" % g.newpid()]
    if g.n_wr and rng.random() < 0.4:
        # a world reactor with triggers on two entities and a broadcast; one entity dies; the whole bundle is removed
        ea, eb = rng.sample(range(nE), 2)
        kind = rng.choice(["eev", "emut"])
        bundle = "%s:e%d:0 %s:e%d:0 bc:0" % (kind, ea, kind, eb)
        out += ["top acts 1", "wradd 0 " + bundle]
        out += ["top acts 1", rng.choice(["despawn e%d" % ea, "despawn e%d" % eb, "resmut 0"])]
        out += ["top acts 1", "wrremove 0 " + bundle]
        out += ["top acts 3", "entevent e%d 0 %d" % (eb, g.newpid()), "mutate e%d 0 3" % eb, "broadcast 0 %d" % g.newpid()]
    if rng.random() < 0.4:
        # piecewise removal: one trigger kind per call, in a random order; the local data must go with the last one
        w = rng.randrange(g.n_ewr); e = "e%d" % rng.randrange(nE)
        kinds = ["emut:%s:0", "eev:%s:0"] if w == 0 else ["eins:%s:1", "erem:%s:1", "eev:%s:1"]
        rng.shuffle(kinds)
        out += ["top acts 1", "ewradd %d %s %d" % (w, e, rng.randrange(9))]
        for kd in kinds:
            out += ["top acts 1", "ewrremove %d %s" % (w, kd % e)]
            if rng.random() < 0.3: out += ["top acts 1", fire(e)]
    for _ in range(rng.randint(3, 8)):
        sc = []
        for _ in range(rng.randint(1, 3)):
            x = rng.random(); e = "e%d" % rng.randrange(nE)
            if x < 0.45: sc.append(fire(e))
            elif x < 0.55: sc.append("ewradd %d %s %d" % (rng.randrange(g.n_ewr), e, rng.randrange(9)))
            elif x < 0.8:
                w = rng.randrange(g.n_ewr)
                ts = ewr_trigs(w, e, full=rng.random() < 0.5)
                if rng.random() < 0.5:
                    e2 = "e%d" % rng.randrange(nE); ts = ewr_trigs(w, e2, full=rng.random() < 0.6) + ts
                sc.append("ewrremove %d %s" % (w, " ".join(ts)))
            elif x < 0.86 and g.n_wr: sc.append(rng.choice(["wrrun %d" % rng.randrange(g.n_wr), "wrremove %d %s" % (rng.randrange(g.n_wr), g.trigs(1, 2, ["bc", "res", "mut"])), "broadcast 0 %d" % g.newpid(), "resmut 0"]))
            elif x < 0.93: sc.append("despawn %s" % e)
            else: sc.append("broadcast %d %d" % (rng.randrange(NTY), g.newpid()))
        out.append("top acts %d" % len(sc)); out += sc
        if rng.random() < 0.2: out.append("top frameend")
    out.append("top frameend")
    return "\n".join(out) + "\n"

def gen_once2(rng):
    """C15: once-reactors with 0..3 triggers (including several despawn triggers), several of their triggers firing in one
    batch / nested / later, self-triggering bodies, revocation at any point."""
    g = G(rng); out = []
    nE = rng.randint(2, 4)
    g.ndefs = rng.randint(1, 3); g.excl = [False] * g.ndefs
    keys = [("bc", None, rng.randrange(NTY)), ("res", None, rng.randrange(NTY))]
    for e in range(nE): keys.append(("dsp", "e%d" % e, 0))
    keys.append(("eev", "e%d" % rng.randrange(nE), rng.randrange(NTY)))
    keys.append(("emut", "e%d" % rng.randrange(nE), 0))
    for d in range(g.ndefs):
        runs = []
        for _ in range(rng.randint(1, 2)):
            sc = []
            for _ in range(rng.randint(0, 2)):
                k = rng.choice(keys); x = rng.random()
                if x < 0.7: sc.append(TRIGGER_ACT[k[0]](g, k[1], k[2]))
                elif x < 0.85: sc.append("revoke t%d" % rng.randrange(4))
                else: sc.append("run s%d" % rng.randrange(3))
            runs.append(sc)
        out.append("def 0 %d" % len(runs))
        for sc in runs: out.append("run %d" % len(sc)); out += sc
    setup = ["spawn"] * nE
    for e in range(nE): setup.append("insert e%d 0 1" % e)
    nT = 0
    for _ in range(rng.randint(1, 4)):
        n = rng.choice([0, 1, 1, 2, 2, 3])
        ks = [rng.choice(keys) for _ in range(n)]
        if rng.random() < 0.3: ks = [k for k in keys if k[0] == "dsp"][:rng.randint(2, 3)]
        dd = rng.randrange(g.ndefs)
        setup.append("%s %d %s" % ("oncefn" if dd < 4 and rng.random() < 0.35 else "once", dd, " ".join(key_str(*k) for k in ks))); nT += 1
    if rng.random() < 0.4: setup.append("on %s %d %s" % (rng.choice("pc"), rng.randrange(g.ndefs), key_str(*rng.choice(keys))))
    out.append("top acts %d" % len(setup)); out += setup
    for _ in range(rng.randint(2, 6)):
        sc = []
        for _ in range(rng.randint(1, 4)):
            k = rng.choice(keys); x = rng.random()
            if x < 0.75: sc.append(TRIGGER_ACT[k[0]](g, k[1], k[2]))
            elif x < 0.9: sc.append("revoke t%d" % rng.randrange(nT))
            else: sc.append("despawn s%d" % rng.randrange(nT))
        out.append("top acts %d" % len(sc)); out += sc
        x = rng.random()
        if x < 0.3: out.append("top gc")
        elif x < 0.5: out.append("top frameend")
        elif x < 0.6: out.append("top poll")
    out.append("top frameend")
    return "\n".join(out) + "\n"

def gen_syscall(rng):
    """C17: sequences of calls over several keys and entry points, nested (direct) calls in exclusive systems and calls
    made from queued commands, same-key re-entrancy, spawned systems missing / running / despawned.
    Run-0 scripts of syscall / named_syscall keys only call higher-ranked keys; later runs may call back (same-key
    re-entrancy); harness and model cap the number of calls per scenario, so every scenario terminates."""
    out = ["mode syscall"]
    ranks = [(k, key) for k in "fns" for key in range(3)]
    # a third of the scenarios also address the `syscall` function items through raw names (`SysName::new_raw::<S>(0)`,
    # named keys 4-6): the same function type under a key of another class must have its own state
    raw = rng.random() < 0.33
    def regkey(): return rng.randrange(4, 7) if raw and rng.random() < 0.6 else rng.randrange(3)
    def call(min_rank):
        cand = ranks[min_rank:]
        if not cand: return None
        k, key = rng.choice(cand)
        if k == "s": key = rng.randrange(4)
        if k == "f" and raw and rng.random() < 0.2: return "m %d %d" % (key + 4, rng.randrange(1, 9))   # the raw name of the same function item
        if k == "f" and rng.random() < 0.25: k = "o"      # syscall_once of the same function: fresh state, not cached
        if k == "n" and rng.random() < 0.3: k = "m"       # named_syscall_direct: by name only, fails if unregistered / running
        return "%s %d %d" % (k, key, rng.randrange(1, 9))
    for r, (k, key) in enumerate(ranks):
        excl = rng.random() < 0.4
        runs = []
        for run in range(rng.randint(0, 4)):
            ops = []
            for _ in range(rng.randint(0, 2)):
                x = rng.random()
                # syscall / named_syscall scripts only call higher-ranked keys (no cycles through re-entrant fresh state);
                # spawned systems may call anything: a cycle through a running spawned system is cut by its error
                c = call(0 if (k == "s" or (run >= 1 and rng.random() < 0.35)) else r + 1)
                if x >= 0.96: ops.append(rng.choice(["g %d", "g %d", "v %d"]) % regkey())
                elif x >= 0.9 or (k == "s" and x >= 0.8): ops.append("x %d" % rng.randrange(4))
                elif c is None or x >= 0.75: ops.append("w %d" % rng.randrange(100))
                elif x < 0.3 and excl: ops.append("d " + c)
                else: ops.append("q " + c)
            if run == 1 and k in "fn" and rng.random() < 0.3:
                # same-key re-entrancy: the nested call gets a fresh system (which runs script 0), the outer one must persist
                kk = "m" if (k == "n" and rng.random() < 0.2) else k
                ops.append(("d " if excl and rng.random() < 0.5 else "q ") + "%s %d %d" % (kk, key, rng.randrange(1, 9)))
            runs.append(ops)
        out.append("scdef %s %d %d %d" % (k, key, 1 if excl else 0, len(runs)))
        for ops in runs: out.append("run %d" % len(ops)); out += ops
    for _ in range(rng.randint(1, 3)): out.append("top spawn %d" % rng.randrange(3))
    for _ in range(rng.randint(4, 14)):
        x = rng.random()
        if x < 0.74: out.append("top call " + call(0))
        elif x < 0.8 or (raw and x < 0.86): out.append(rng.choice(["top reg %d", "top reg %d", "top revoke %d"]) % regkey())
        elif x < 0.9: out.append("top spawn %d" % rng.randrange(3))
        else: out.append("top despawn %d" % rng.randrange(4))
    return "\n".join(out) + "\n"

PROFILES = {
    "mix": lambda rng: gen_mix(rng),
    "big": lambda rng: gen_mix(rng, size=2.0),
    "wr": lambda rng: gen_wr(rng),
    "recursion": lambda rng: gen_mix(rng, size=1.5, body_weights=dict(control=8, trigger=6, register=0.5, life=0.5), weights=dict(control=5, trigger=5)),
    "lifetime": lambda rng: gen_mix(rng, weights=dict(register=4, revoke=4, life=3, trigger=3), body_weights=dict(revoke=2, life=2, register=2)),
    "signals": gen_signals,
    "syscall": gen_syscall,
    "ewr": gen_ewr,
    "once2": gen_once2,
    "visibility": gen_visibility,
    "sharedkey": gen_sharedkey,
    "removal2": gen_removal2,
    "dsp": gen_dsp,
    "cascade": gen_cascade,
    "frames": gen_frames,
    "wide": gen_wide,
    "huge": gen_huge,
    "burst": gen_burst,
    "sigrace": gen_sigrace,
    "appreact": gen_appreact,
    "deeprec": gen_deeprec,
    "deepchain": gen_deepchain,
    "access2": gen_access2,
    "access": lambda rng: gen_mix(rng, weights=dict(access=6, trigger=5, register=1.5), body_weights=dict(access=4, trigger=4)),
    "once": lambda rng: gen_mix(rng, weights=dict(register=3, trigger=6, revoke=2, life=1), body_weights=dict(trigger=5, register=1.5, revoke=1)),
    "stale": lambda rng: gen_stale(rng),
    "removal": lambda rng: gen_mix(rng, weights=dict(life=5, trigger=5, register=2), body_weights=dict(life=3, trigger=4)),
}

def with_validity(text, rng):
    """Environment dimension the crate must ignore: `valid 0|1` lines (between top-level operations) empty / fill the
    match of the `Populated` param every scripted system carries. One scenario in four gets them."""
    if text.startswith("mode syscall") or rng.random() >= 0.25: return text
    out, on = [], True
    for l in text.split("\n"):
        if l.startswith("top ") and l != "top cleartrackers" and rng.random() < (0.3 if on else 0.2):
            on = not on
            out.append("valid %d" % (1 if on else 0))
        out.append(l)
    return "\n".join(out)

ENUM_SLICES = 20

def enum_small(slice_no):
    """Exhaustive small scope (thorough tier): every scenario of a tiny grammar — system A (run-0 body of at most two
    actions, registered on one trigger), system B (at most one action, one trigger, persistent or revokable), one top-level
    trigger, end of frame — cut into ENUM_SLICES slices. About 250 000 scenarios in all."""
    ALPH = ["run s0", "run s1", "sysevent s0 0 %d", "sysevent s1 0 %d", "broadcast 0 %d", "entevent e0 0 %d", "resmut 0",
            "despawn e0", "despawn s0", "despawn s1", "revoke t0", "mutate e0 0 1", "remove e0 0", "insert e0 0 2"]
    bodiesA = [[]] + [[a] for a in ALPH] + [[a, b] for a in ALPH for b in ALPH]
    bodiesB = [[]] + [[a] for a in ALPH]
    trigA = ["bc:0", "eev:e0:0"]; trigB = ["bc:0", "res:0", "dsp:e0", "emut:e0:0"]; modeB = ["p", "r"]
    tops = ["broadcast 0 %d", "entevent e0 0 %d", "run s0", "resmut 0", "mutate e0 0 2"]
    k = 0
    for A in bodiesA:
        for B in bodiesB:
            for ta in trigA:
                for tb in trigB:
                    for mb in modeB:
                        for top in tops:
                            k += 1
                            if k % ENUM_SLICES != slice_no % ENUM_SLICES: continue
                            pid = [0]
                            def sub(a):
                                if "%d" in a:
                                    pid[0] += 1
                                    return a % pid[0]
                                return a
                            out = ["def 0 2", "run %d" % len(A)] + [sub(a) for a in A] + ["run 0",
                                   "def 0 2", "run %d" % len(B)] + [sub(b) for b in B] + ["run 0",
                                   "top acts 4", "spawn", "insert e0 0 1", "on p 0 %s" % ta, "on %s 1 %s" % (mb, tb),
                                   "top acts 1", sub(top), "top frameend"]
                            yield "\n".join(out) + "\n"

def enum_small2(slice_no):
    """A second exhaustive family (thorough tier): system A is a one-off, cleanup or revokable reactor on one or two
    triggers with a run-0 body of at most two actions (including `with()` on itself / on B, a `SystemCommand` naming a plain
    entity, self-revocation and self-despawn); system B is persistent with at most one action; the top level applies *two*
    triggers in one batch. About 370 000 scenarios, cut into ENUM_SLICES slices."""
    ALPH = ["run s0", "sysevent s0 0 %d", "broadcast 0 %d", "entevent e0 0 %d", "despawn e0", "despawn s0", "revoke t0",
            "with r s1 bc:0", "with c s0 res:0", "run e0"]
    bodiesA = [[]] + [[a] for a in ALPH] + [[a, b] for a in ALPH for b in ALPH]
    bodiesB = [[]] + [[a] for a in ALPH]
    regA = ["once 0 bc:0 eev:e0:0", "once 0 bc:0", "on c 0 bc:0 dsp:e0", "on r 0 eev:e0:0 res:0"]
    trigB = ["bc:0", "res:0", "eev:e0:0"]
    tops = ["broadcast 0 %d", "entevent e0 0 %d", "run s0", "resmut 0", "despawn e0"]
    k = 0
    for A in bodiesA:
        for B in bodiesB:
            for ra in regA:
                for tb in trigB:
                    for t1 in tops:
                        for t2 in tops:
                            k += 1
                            if k % ENUM_SLICES != slice_no % ENUM_SLICES: continue
                            pid = [0]
                            def sub(a):
                                if "%d" in a:
                                    pid[0] += 1
                                    return a % pid[0]
                                return a
                            out = ["def 0 2", "run %d" % len(A)] + [sub(a) for a in A] + ["run 0",
                                   "def 0 2", "run %d" % len(B)] + [sub(b) for b in B] + ["run 0",
                                   "top acts 4", "spawn", "insert e0 0 1", ra, "on p 1 %s" % tb,
                                   "top acts 2", sub(t1), sub(t2), "top frameend"]
                            yield "\n".join(out) + "\n"

def enum_small3(slice_no):
    """A third exhaustive family (thorough tier): entity world reactor 0 (its system A has a run-0 body of at most two
    actions, among them adding / removing entities of the reactor, mutations, entity events, removal and re-insertion of
    the component, despawns) next to a plain reactor B on a removal / despawn / insertion / mutation trigger with at most one
    action; two top-level actions, then the end of the frame. About 290 000 scenarios in ENUM_SLICES slices."""
    ALPH = ["mutate e0 0 2", "entevent e0 0 %d", "remove e0 0", "insert e0 0 3", "despawn e0", "ewradd 0 e1 7",
            "ewrremove 0 emut:e0:0 eev:e0:0", "ewrremove 0 emut:e0:0", "mutate e1 0 4", "run s0"]
    bodiesA = [[]] + [[a] for a in ALPH] + [[a, b] for a in ALPH for b in ALPH]
    bodiesB = [[]] + [[a] for a in ALPH]
    trigB = ["erem:e0:0", "dsp:e0", "ins:0", "emut:e1:0", "rem:0"]
    modeB = ["p", "c"]
    tops = ["mutate e0 0 5", "entevent e0 0 %d", "remove e0 0", "despawn e0", "ewradd 0 e1 8", "ewrremove 0 emut:e0:0 eev:e0:0"]
    k = 0
    for A in bodiesA:
        for B in bodiesB:
            for tb in trigB:
                for mb in modeB:
                    for t1 in tops:
                        k += 1
                        if k % ENUM_SLICES != slice_no % ENUM_SLICES: continue
                        for t2 in (tops[(tops.index(t1) + 1) % len(tops)], tops[(tops.index(t1) + 3) % len(tops)]):
                            pid = [0]
                            def sub(a):
                                if "%d" in a:
                                    pid[0] += 1
                                    return a % pid[0]
                                return a
                            out = ["def 0 2", "run %d" % len(A)] + [sub(a) for a in A] + ["run 0",
                                   "def 0 2", "run %d" % len(B)] + [sub(b) for b in B] + ["run 0",
                                   "ewr 0",
                                   "top acts 6", "spawn", "spawn", "insert e0 0 1", "insert e1 0 1", "ewradd 0 e0 5", "on %s 1 %s" % (mb, tb),
                                   "top acts 2", sub(t1), sub(t2), "top frameend"]
                            yield "\n".join(out) + "\n"

def generate(prof, seed):
    text = PROFILES[prof](random.Random(seed))
    return with_validity(text, random.Random(seed ^ 0x5eed))

if __name__ == "__main__":
    import sys
    seed = int(sys.argv[1]) if len(sys.argv) > 1 else 0
    prof = sys.argv[2] if len(sys.argv) > 2 else "mix"
    sys.stdout.write(generate(prof, seed))
