#!/bin/bash
# Optional measurement (not a registered check): line coverage of /repo/src under the correspondence harness.
# Builds the harness with -C instrument-coverage on the nightly toolchain (its llvm-tools read the profiles), runs
# generated scenarios of every profile used by tools/props.py through it, and prints llvm-cov's per-file report plus the
# lines never executed. Scratch lives in /tmp/cobweb-cov and is removed at the end. Usage: tools/coverage.sh [n-per-profile]
set -e
N=${1:-250}
W=/tmp/cobweb-cov
T=$(ls -d ~/.rustup/toolchains/nightly-x86_64-unknown-linux-gnu/lib/rustlib/x86_64-unknown-linux-gnu/bin)
rm -rf $W; mkdir -p $W/sc $W/prof
cp /repo/Cargo.lock /verif/harness/Cargo.lock 2>/dev/null || true
( cd /verif/harness && LLVM_PROFILE_FILE=$W/build-%p-%m.profraw CARGO_NET_OFFLINE=true CARGO_TARGET_DIR=$W/target RUSTFLAGS="-C instrument-coverage" cargo +nightly build --offline 2>&1 | tail -1 )
( cd /verif/tools && python3 - $N <<'PY'
import gen, props, sys
n = int(sys.argv[1]); profs = sorted({p for mix in props.PROFILES.values() for p, _ in mix})
k = 0
for prof in profs:
    for sd in range(max(10, n // 4) if prof == "huge" else n):
        open("/tmp/cobweb-cov/sc/%s_%d.scn" % (prof, sd), "w").write(gen.generate(prof, sd)); k += 1
print("scenarios:", k, "profiles:", len(profs))
PY
)
ls $W/sc/*.scn | xargs -n 40 -P 16 sh -c "LLVM_PROFILE_FILE=$W/prof/p-%p-%m.profraw $W/target/debug/cobweb-harness \"\$@\" > /dev/null 2>&1 || true" _
$T/llvm-profdata merge -sparse $W/prof/*.profraw -o $W/all.profdata
$T/llvm-cov report $W/target/debug/cobweb-harness -instr-profile=$W/all.profdata --sources /repo/src 2>/dev/null \
  | awk 'NR==1 || /^-/ {next} {printf "%-34s lines %5s missed %5s  %s\n", $1, $(NF-5), $(NF-4), $(NF-3)}'
echo "--- lines never executed (error/Display impls omitted)"
$T/llvm-cov show $W/target/debug/cobweb-harness -instr-profile=$W/all.profdata --sources /repo/src 2>/dev/null \
  | awk '/^\/repo/ {f=$0} /^ +[0-9]+\| +0\|/ {print f; print $0}' | awk '/^\/repo/ {if ($0!=last) {print; last=$0}; next} {print}' \
  | cut -c1-150 | grep -v "tracing::\|debug_assert" 
rm -rf $W
