#!/bin/bash
# usage: verify_mutant.sh <outdir with patch.diff demo.rs> <scratch worktree>
# Confirms: suite passes with the change; demo fails with the change; demo passes without it.
out=$1; wt=$2
cd "$wt" || exit 2
git checkout -q -- . ; git clean -fdq -e target
cp "$out/demo.rs" tests/demo.rs
printf '\n[[test]]\nname = "demo"\npath = "tests/demo.rs"\ndoctest = false\n' >> Cargo.toml
git apply "$out/patch.diff" || { echo "PATCH-FAIL"; exit 2; }
find src -name '*.rs' -exec touch {} +
suite=$(cargo test --offline --test tests 2>&1 | grep -E "^test result" | tail -1)
demo_with=$(cargo test --offline --test demo 2>&1 | grep -E "^test result" | tail -1)
hooks=$(cargo build --offline --features verif_hooks 2>&1 | tail -1)
git apply -R "$out/patch.diff"
find src -name '*.rs' -exec touch {} +
demo_without=$(cargo test --offline --test demo 2>&1 | grep -E "^test result" | tail -1)
echo "suite_with_change: $suite"
echo "demo_with_change: $demo_with"
echo "hooks_build_with_change: $hooks"
echo "demo_without_change: $demo_without"
git checkout -q -- . ; rm -f tests/demo.rs
