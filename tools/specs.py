"""Per-property specification automata over traces (the text alphabet of DESIGN §4.1).

Each `spec_Cnn(lines, ghost)` returns a list of failure messages (empty = the trace satisfies the property).
`lines` is an implementation trace (or a model trace without ghost lines); `ghost` is the model trace *with* ghost
lines, used only by the specs that need the ghost `expect` / `misclaim` events; those specs are evaluated on the
model trace and transfer to the implementation through trace equality on the property's projection.
"""
import re

def tok(l): return l.split(" ")

def parse_obs(fields):
    d = {}
    for f in fields:
        if "=" in f:
            k, v = f.split("=", 1)
            d[k] = v
    return d

def obs_pids(obs):
    """payload ids visible in a body observation: (reader, pid)"""
    out = []
    for k in ("se", "se2", "bc"):
        for i, v in enumerate(obs.get(k, "").split(",")):
            if v not in ("-", ""): out.append((k + str(i), int(v)))
    for i, v in enumerate(obs.get("ev", "").split(",")):
        if v not in ("-", ""): out.append(("ev" + str(i), int(v.split(":")[1])))
    return out

# ---------------------------------------------------------------------------------------------------------------
def spec_C02(lines, ghost=None):
    """Runner bracket automaton: applied -> exactly one outcome; enter/exit well nested; no system entered while
    executing; postponed only while executing and replayed exactly once; nothing discarded; quiescent = all closed."""
    bad = []
    stack = []          # ('applied'|'run'|'post', sys)
    postponed = {}
    replayed = {}
    for i, l in enumerate(lines):
        t = tok(l)
        k = t[0]
        if k == "applied": stack.append(["applied", t[1]])
        elif k in ("abortnoentity", "abortnostorage", "abortroot", "postponed", "enter"):
            if not stack or stack[-1] != ["applied", t[1]]:
                bad.append("line %d: outcome %s without matching applied" % (i, l)); continue
            stack.pop()
            if k == "abortroot": bad.append("line %d: callback missing at the root of a tree (%s)" % (i, t[1]))
            if k == "postponed":
                if ["run", t[1]] not in stack: bad.append("line %d: %s postponed while not executing" % (i, t[1]))
                postponed[t[1]] = postponed.get(t[1], 0) + 1
            if k == "enter":
                if ["run", t[1]] in stack: bad.append("line %d: %s entered while already executing" % (i, t[1]))
                stack.append(["run", t[1]])
        elif k == "exit":
            if not stack or stack[-1] != ["run", t[1]]: bad.append("line %d: exit %s not innermost" % (i, t[1]))
            else: stack[-1][0] = "post"
        elif k in ("reinserted", "dropped"):
            if not stack or stack[-1] != ["post", t[1]]: bad.append("line %d: %s out of place" % (i, l))
        elif k == "replay":
            if not stack or stack[-1] != ["post", t[1]]: bad.append("line %d: replay %s outside its runner" % (i, t[1]))
            replayed[t[1]] = replayed.get(t[1], 0) + 1
        elif k == "return":
            if not stack or stack[-1] != ["post", t[1]]: bad.append("line %d: return %s out of place" % (i, t[1]))
            else: stack.pop()
        elif k == "discard": bad.append("line %d: postponed command discarded (%s)" % (i, t[1]))
        elif k == "qs":
            if stack: bad.append("line %d: quiescent with open runner brackets %r" % (i, stack))
            if postponed != replayed: bad.append("line %d: postponed %r but replayed %r" % (i, postponed, replayed))
            f = parse_obs(t[1:])
            if f.get("counter") != "0" or f.get("buffered") != "0" or f.get("taken") != "0":
                bad.append("line %d: residue at quiescence: %s" % (i, l))
    return bad

def spec_C11(lines, ghost=None):
    bad = []
    for i, l in enumerate(lines):
        if l.startswith("qs ") and l != "qs counter=0 buffered=0 se=0/0 ev=0/0 er=0/0 de=0/0 held=0 taken=0":
            bad.append("line %d: residue at quiescence: %s" % (i, l))
        if l.startswith("qx ") and l != "qx 0": bad.append("line %d: bookkeeping entities outlive the tree: %s" % (i, l))
    return bad

def spec_C13(lines, ghost=None):
    bad = []; n = {}
    for i, l in enumerate(lines):
        if l.startswith("body "):
            t = tok(l); s = t[1]; r = t[2]
            exp = "r%d" % n.get(s, 0)
            if r != exp: bad.append("line %d: %s ran with run label %s, expected %s (state reset or shared)" % (i, s, r, exp))
            n[s] = n.get(s, 0) + 1
    return bad

def spec_C05(lines, ghost=None):
    """send/drop discipline: each sent payload is dropped exactly once, not before it is sent, never read after it was
    dropped, and at the latest by the next quiescent point; no data entity at quiescence."""
    bad = []; sent = {}; dropped = {}
    for i, l in enumerate(lines):
        t = tok(l)
        if t[0] == "send": sent[t[1]] = sent.get(t[1], 0) + 1
        elif t[0] == "drop":
            dropped[t[1]] = dropped.get(t[1], 0) + 1
            if dropped[t[1]] > sent.get(t[1], 0): bad.append("line %d: %s dropped more often than sent" % (i, t[1]))
        elif t[0] == "body":
            for rd, pid in obs_pids(parse_obs(t[3:])):
                p = "p%d" % pid
                if rd.startswith("se"): continue   # taken by this very body, dropped right after
                if dropped.get(p, 0) >= sent.get(p, 0) and sent.get(p, 0) > 0:
                    bad.append("line %d: %s read after it was dropped" % (i, p))
        elif t[0] == "qx":
            if l != "qx 0": bad.append("line %d: event bookkeeping entity outlives the tree" % i)
            for p, n in sent.items():
                if dropped.get(p, 0) != n: bad.append("line %d: %s sent %d times, dropped %d times by quiescence" % (i, p, n, dropped.get(p, 0)))
    return bad

def spec_C04(lines, ghost=None):
    """A second take in the same run returns nothing; the accessors of one reader (is_empty / try_read / read / get /
    entity) agree with each other."""
    bad = []
    for i, l in enumerate(lines):
        if l.startswith("accessor-mismatch "): bad.append("line %d: the accessors of one reader disagree: %s" % (i, l[18:]))
        if l.startswith("body "):
            o = parse_obs(tok(l)[3:])
            if o.get("se2") != "-,-": bad.append("line %d: system event taken twice" % i)
    return bad

def spec_expect(lines, ghost):
    """C03/C04/C12 on the model trace: every body observation equals the ghost expectation of the command that caused
    the run (its own event in its own reader, nothing elsewhere)."""
    bad = []; exp = None
    for i, l in enumerate(ghost or []):
        if l.startswith("ghost expect "):
            exp = l.split(" ", 3)
        elif l.startswith("body "):
            t = l.split(" ", 3)
            if exp is None or exp[2] != t[1]: bad.append("ghost line %d: body without expectation" % i)
            elif exp[3] != t[3]:
                bad.append("ghost line %d: %s reads [%s] but the event that caused the run is [%s]" % (i, t[1], t[3], exp[3]))
            exp = None
    return bad

def misclaims(ghost): return sum(1 for l in (ghost or []) if l.startswith("ghost misclaim"))

def spec_C12(lines, ghost=None):
    """Per (sender body, target): system-event payloads are consumed in the order they were sent."""
    bad = []
    cur = []                 # stack of running bodies (name, run)
    sends = {}               # (sender inst) -> list of pids in send order (system events only known by 'se' reads)
    order = []               # global list of (pid, sender)
    reads = {}               # target -> list of pids read via se
    for i, l in enumerate(lines):
        t = tok(l)
        if t[0] == "body":
            cur.append((t[1], t[2]))
            for rd, pid in obs_pids(parse_obs(t[3:])):
                if rd in ("se0", "se1"): reads.setdefault(t[1], []).append(pid)
        elif t[0] == "bodyend":
            if cur: cur.pop()
    # send order is attributed through the markers: 'send' lines appear while the sender body is interpreting
    cur = []; sender_sends = {}
    for i, l in enumerate(lines):
        t = tok(l)
        if t[0] == "body": cur.append((t[1], t[2]))
        elif t[0] == "bodyend":
            if cur: cur.pop()
        elif t[0] == "top": cur = [("top" + t[1], "0")]
        elif t[0] == "send" and cur:
            sender_sends.setdefault(cur[-1], []).append(int(t[1][1:]))
    for tgt, rs in reads.items():
        pos = {}
        for j, p in enumerate(rs): pos.setdefault(p, []).append(j)
        for snd, ps in sender_sends.items():
            mine = [p for p in ps if p in pos and len(pos[p]) == 1 and ps.count(p) == 1]
            idx = [pos[p][0] for p in mine]
            if idx != sorted(idx):
                bad.append("%s consumed the system events of %s %s in the order %r, sent as %r" %
                           (tgt, snd[0], snd[1], [p for _, p in sorted(zip(idx, mine))], mine))
    return bad

def spec_C14(lines, ghost=None):
    """An insertion that did not happen (entity gone when the insert command is applied — the model marks the action's
    bracket with `ghost insnoop`) schedules no reaction: the same bracket of the implementation trace contains no
    `applied` line."""
    bad = []
    noop = set(); cur = []
    for l in (ghost or []):
        if l.startswith("m+ "): cur.append(l[3:])
        elif l.startswith("m- "):
            if cur: cur.pop()
        elif l.startswith("ghost insnoop") and cur: noop.add(cur[-1])
    if not noop: return bad
    cur = []
    for i, l in enumerate(lines):
        if l.startswith("m+ "): cur.append(l[3:])
        elif l.startswith("m- "):
            if cur: cur.pop()
        elif l.startswith("applied ") and cur and cur[-1] in noop:
            bad.append("line %d: insertion reaction scheduled although the component was not inserted (action %s): %s" % (i, cur[-1], l))
    return bad

def spec_C17(lines, ghost=None):
    """syscall family: every call runs once with its input and returns input*100+state; state persists per key across
    non re-entrant calls and is independent between keys; a re-entered syscall / named_syscall key gets fresh state and
    the outer-most state is what persists; spawned systems that are missing, despawned or running return an error
    without running; `named_syscall_direct` (call kind m) runs the registered system of the name or fails without running;
    queued writes are applied before the call returns."""
    def body_key(k):
        # `syscall_once` of key k (o<k>) runs the function of `syscall` key k; `named_syscall_direct` (m<k>) the named one
        return ("f" if k[0] == "o" else "n" if k[0] == "m" else k[0]) + k[1:]
    bad = []; stack = []; stored = {}; alive = set(); calls = []; present = set()
    for i, l in enumerate(lines):
        t = tok(l)
        if t[0] != "sc": continue
        if t[1] == "call": calls.append([t[2], False, t[2] in alive]); continue      # (key, entered, existed when called)
        if t[1] == "registered": present.add(t[2]); stored[t[2]] = 0; continue
        if t[1] == "revoked": present.discard(t[2]); stored[t[2]] = 0; continue
        if t[1] == "enter" and calls and body_key(calls[-1][0]) == t[2] and not calls[-1][1]:
            calls[-1][1] = True
            if calls[-1][0][0] == "o":
                r = int(t[3][1:]); x = int(t[4][1:])
                if r != 0: bad.append("line %d: syscall_once of %s entered with state %d, expected fresh state" % (i, t[2], r))
                stack.append((t[2], r, x, "once")); continue
            if calls[-1][0][0] == "m":
                busy = any(e[0] == t[2] and e[3] != "once" for e in stack)
                if t[2] not in present and not busy:
                    bad.append("line %d: named_syscall_direct ran %s although no system is registered under the name" % (i, t[2]))
        if t[1] in ("ret", "err") and calls and calls[-1][0] == t[2]:
            c = calls.pop()
            if t[1] == "err" and c[1]: bad.append("line %d: the call of %s ran its system but returned an error" % (i, t[2]))
            if t[1] == "ret" and not c[1]: bad.append("line %d: the call of %s returned a value without running" % (i, t[2]))
        if t[1] == "spawned": alive.add(t[2]); stored[t[2]] = 0
        elif t[1] == "despawned": alive.discard(t[2])
        elif t[1] == "enter":
            key = t[2]; r = int(t[3][1:]); x = int(t[4][1:])
            reentrant = any(e[0] == key and e[3] != "once" for e in stack)   # a syscall_once run does not occupy the cache
            if key[0] == "s":
                # existence is judged when the call is made: a command that was already pending may despawn the system
                # between the call and its body (benign B51: an exclusive system flushes the world queue before it runs)
                existed = calls[-1][2] if (calls and calls[-1][0] == key) else (key in alive)
                if not existed: bad.append("line %d: %s ran although it did not exist when it was called" % (i, key))
                if reentrant: bad.append("line %d: spawned system %s ran while running" % (i, key))
            # (same-key re-entrancy of syscall / named_syscall is the crate's documented hazard: the state such a
            #  call sees is unspecified; only the outer-most call's state persists, which is what is checked)
            if not reentrant and r != stored.get(key, 0):
                bad.append("line %d: %s entered with state %d, expected %d" % (i, key, r, stored.get(key, 0)))
            stack.append((key, r, x, reentrant))
        elif t[1] == "ret":
            key = t[2]; v = int(t[3])
            if key[0] == "o" and stack and stack[-1][0] == "f" + key[1:] and stack[-1][3] == "once":
                k, r, x, re_ = stack.pop()
                if v != x * 100 + r: bad.append("line %d: %s returned %d for input %d state %d" % (i, key, v, x, r))
            elif stack and stack[-1][0] == body_key(key) and (key[0] != "m" or True):
                k, r, x, re_ = stack.pop()
                if v != x * 100 + r: bad.append("line %d: %s returned %d for input %d state %d" % (i, key, v, x, r))
                if not re_:
                    stored[k] = r + 1
                    if k[0] == "n": present.add(k)
            # a `ret` without an open enter is the report line of a queued / top-level call: already matched
        elif t[1] == "err":
            key = t[2]
            if key[0] == "m":
                nk = "n" + key[1:]
                if nk in present and not any(e[0] == nk for e in stack):
                    bad.append("line %d: named_syscall_direct of the registered idle name %s failed" % (i, nk))
            elif key[0] != "s": bad.append("line %d: %s returned an error" % (i, key))
            elif key in alive and not any(e[0] == key for e in stack) and not any(c[0] == key for c in calls):
                # (a call of the same system that has been made and has not returned counts as running, entered or not)
                bad.append("line %d: call to live idle spawned system %s failed" % (i, key))
    if stack: bad.append("unbalanced enter/ret: %r" % (stack,))
    return bad

def spec_C08(lines, ghost=None):
    """A despawn reaction names a dead entity: if a body reads `dsp=X` and X is alive at the next quiescent snapshot
    (entities are never resurrected), a despawn reactor ran for an entity that is alive."""
    bad = []; pending = []
    for i, l in enumerate(lines):
        t = tok(l)
        if t[0] == "body":
            x = parse_obs(t[3:]).get("dsp", "-")
            if x not in ("-", "", "?"): pending.append((i, t[1], x))
        elif t[0] == "qa":
            ebits = t[1] if len(t) > 1 else ""; sbits = t[2] if len(t) > 2 else ""
            for (j, sysn, x) in pending:
                bits = ebits if x[0] == "e" else sbits
                try: k = int(x[1:])
                except ValueError: continue
                if k < len(bits) and bits[k] == "1":
                    bad.append("line %d: %s ran a despawn reaction for %s, which is still alive at the next quiescent point" % (j, sysn, x))
            pending = []
    return bad

def spec_C15(lines, ghost=None):
    """One-off reactors (the systems made by `ReactCommands::once`, listed by the trace's closing `onces` line): the scripted
    body runs at most once, and at the first quiescent point after it ran the reactor's entity is gone (the wrapper
    despawns it in the same run)."""
    onces = set()
    for l in lines:
        if l.startswith("onces"): onces = set(l.split()[1:])
    bad = []; ran = {}; pending = []
    for i, l in enumerate(lines):
        t = tok(l)
        if t[0] == "body" and len(t) > 1 and t[1] in onces:
            ran[t[1]] = ran.get(t[1], 0) + 1
            if ran[t[1]] == 2: bad.append("line %d: one-off reactor %s runs a second time" % (i, t[1]))
            pending.append((i, t[1]))
        elif t[0] == "qa":
            sbits = t[2] if len(t) > 2 else ""
            for (j, x) in pending:
                k = int(x[1:])
                if k < len(sbits) and sbits[k] == "1":
                    bad.append("line %d: one-off reactor %s has run but still exists at the next quiescent point" % (j, x))
            pending = []
    return bad

def spec_none(lines, ghost=None): return []

SPECS = {
    "C01": [], "C02": [spec_C02], "C03": [spec_expect], "C04": [spec_C04, spec_expect], "C05": [spec_C05],
    "C06": [], "C07": [], "C08": [spec_C08], "C09": [spec_C02], "C10": [], "C11": [spec_C11, spec_C02],
    "C12": [spec_C12, spec_expect], "C13": [spec_C13], "C14": [spec_C14], "C15": [spec_C15], "C16": [spec_expect], "C17": [spec_C17],
    "C18": [spec_C05, spec_C14],
}

# specs evaluated on the model trace with ghosts; a failure there only counts for the implementation when the
# projections agree
GHOST_SPECS = {spec_expect}
