"""Per-property specification automata over traces (the text alphabet of DESIGN §4.1).

Each `spec_Cnn(lines, ghost)` returns a list of failure messages (empty = the trace satisfies the property).
`lines` is an implementation trace (or a model trace without ghost lines); `ghost` is the model trace *with* ghost
lines, used only by the specs that need the ghost `expect` / `misclaim` events; those specs are evaluated on the
model trace and transfer to the implementation through trace equality on the property's projection.
"""
import re

def tok(l): return l.split(" ")

def parse_obs(fields):
    d = {}
    for f in fields:
        if "=" in f:
            k, v = f.split("=", 1)
            d[k] = v
    return d

def obs_pids(obs):
    """payload ids visible in a body observation: (reader, pid)"""
    out = []
    for k in ("se", "se2", "bc"):
        for i, v in enumerate(obs.get(k, "").split(",")):
            if v not in ("-", ""): out.append((k + str(i), int(v)))
    for i, v in enumerate(obs.get("ev", "").split(",")):
        if v not in ("-", ""): out.append(("ev" + str(i), int(v.split(":")[1])))
    return out

# ---------------------------------------------------------------------------------------------------------------
def spec_C02(lines, ghost=None):
    """Runner bracket automaton: applied -> exactly one outcome; enter/exit well nested; no system entered while
    executing; postponed only while executing and replayed exactly once; nothing discarded; quiescent = all closed."""
    bad = []
    stack = []          # ('applied'|'run'|'post', sys)
    postponed = {}
    replayed = {}
    for i, l in enumerate(lines):
        t = tok(l)
        k = t[0]
        if k == "applied": stack.append(["applied", t[1]])
        elif k in ("abortnoentity", "abortnostorage", "abortroot", "postponed", "enter"):
            if not stack or stack[-1] != ["applied", t[1]]:
                bad.append("line %d: outcome %s without matching applied" % (i, l)); continue
            stack.pop()
            if k == "abortroot": bad.append("line %d: callback missing at the root of a tree (%s)" % (i, t[1]))
            if k == "postponed":
                if ["run", t[1]] not in stack: bad.append("line %d: %s postponed while not executing" % (i, t[1]))
                postponed[t[1]] = postponed.get(t[1], 0) + 1
            if k == "enter":
                if ["run", t[1]] in stack: bad.append("line %d: %s entered while already executing" % (i, t[1]))
                stack.append(["run", t[1]])
        elif k == "exit":
            if not stack or stack[-1] != ["run", t[1]]: bad.append("line %d: exit %s not innermost" % (i, t[1]))
            else: stack[-1][0] = "post"
        elif k in ("reinserted", "dropped"):
            if not stack or stack[-1] != ["post", t[1]]: bad.append("line %d: %s out of place" % (i, l))
        elif k == "replay":
            if not stack or stack[-1] != ["post", t[1]]: bad.append("line %d: replay %s outside its runner" % (i, t[1]))
            replayed[t[1]] = replayed.get(t[1], 0) + 1
        elif k == "return":
            if not stack or stack[-1] != ["post", t[1]]: bad.append("line %d: return %s out of place" % (i, t[1]))
            else: stack.pop()
        elif k == "discard": bad.append("line %d: postponed command discarded (%s)" % (i, t[1]))
        elif k == "qs":
            if stack: bad.append("line %d: quiescent with open runner brackets %r" % (i, stack))
            if postponed != replayed: bad.append("line %d: postponed %r but replayed %r" % (i, postponed, replayed))
            f = parse_obs(t[1:])
            if f.get("counter") != "0" or f.get("buffered") != "0" or f.get("taken") != "0":
                bad.append("line %d: residue at quiescence: %s" % (i, l))
    return bad

def spec_C11(lines, ghost=None):
    bad = []
    for i, l in enumerate(lines):
        if l.startswith("qs ") and l != "qs counter=0 buffered=0 se=0/0 ev=0/0 er=0/0 de=0/0 held=0 taken=0":
            bad.append("line %d: residue at quiescence: %s" % (i, l))
        if l.startswith("qx ") and l != "qx 0": bad.append("line %d: bookkeeping entities outlive the tree: %s" % (i, l))
    return bad

def spec_C13(lines, ghost=None):
    bad = []; n = {}
    for i, l in enumerate(lines):
        if l.startswith("body "):
            t = tok(l); s = t[1]; r = t[2]
            exp = "r%d" % n.get(s, 0)
            if r != exp: bad.append("line %d: %s ran with run label %s, expected %s (state reset or shared)" % (i, s, r, exp))
            n[s] = n.get(s, 0) + 1
    return bad

def spec_C05(lines, ghost=None):
    """send/drop discipline: each sent payload is dropped exactly once, not before it is sent, never read after it was
    dropped, and at the latest by the next quiescent point; no data entity at quiescence."""
    bad = []; sent = {}; dropped = {}
    for i, l in enumerate(lines):
        t = tok(l)
        if t[0] == "send": sent[t[1]] = sent.get(t[1], 0) + 1
        elif t[0] == "drop":
            dropped[t[1]] = dropped.get(t[1], 0) + 1
            if dropped[t[1]] > sent.get(t[1], 0): bad.append("line %d: %s dropped more often than sent" % (i, t[1]))
        elif t[0] == "body":
            for rd, pid in obs_pids(parse_obs(t[3:])):
                p = "p%d" % pid
                if rd.startswith("se"): continue   # taken by this very body, dropped right after
                if dropped.get(p, 0) >= sent.get(p, 0) and sent.get(p, 0) > 0:
                    bad.append("line %d: %s read after it was dropped" % (i, p))
        elif t[0] == "qx":
            if l != "qx 0": bad.append("line %d: event bookkeeping entity outlives the tree" % i)
            for p, n in sent.items():
                if dropped.get(p, 0) != n: bad.append("line %d: %s sent %d times, dropped %d times by quiescence" % (i, p, n, dropped.get(p, 0)))
    return bad

def spec_C04(lines, ghost=None):
    """A second take in the same run returns nothing; the accessors of one reader (is_empty / try_read / read / get /
    entity) agree with each other."""
    bad = []
    for i, l in enumerate(lines):
        if l.startswith("accessor-mismatch "): bad.append("line %d: the accessors of one reader disagree: %s" % (i, l[18:]))
        if l.startswith("body "):
            o = parse_obs(tok(l)[3:])
            if o.get("se2") != "-,-": bad.append("line %d: system event taken twice" % i)
    return bad

def spec_expect(lines, ghost):
    """C03/C04/C12 on the model trace: every body observation equals the ghost expectation of the command that caused
    the run (its own event in its own reader, nothing elsewhere)."""
    bad = []; exp = None
    for i, l in enumerate(ghost or []):
        if l.startswith("ghost expect "):
            exp = l.split(" ", 3)
        elif l.startswith("body "):
            t = l.split(" ", 3)
            if exp is None or exp[2] != t[1]: bad.append("ghost line %d: body without expectation" % i)
            elif exp[3] != t[3]:
                bad.append("ghost line %d: %s reads [%s] but the event that caused the run is [%s]" % (i, t[1], t[3], exp[3]))
            exp = None
    return bad

def misclaims(ghost): return sum(1 for l in (ghost or []) if l.startswith("ghost misclaim"))

def spec_C12(lines, ghost=None):
    """Per (sender body, target): system-event payloads are consumed in the order they were sent."""
    bad = []
    cur = []                 # stack of running bodies (name, run)
    sends = {}               # (sender inst) -> list of pids in send order (system events only known by 'se' reads)
    order = []               # global list of (pid, sender)
    reads = {}               # target -> list of pids read via se
    for i, l in enumerate(lines):
        t = tok(l)
        if t[0] == "body":
            cur.append((t[1], t[2]))
            for rd, pid in obs_pids(parse_obs(t[3:])):
                if rd in ("se0", "se1"): reads.setdefault(t[1], []).append(pid)
        elif t[0] == "bodyend":
            if cur: cur.pop()
    # send order is attributed through the markers: 'send' lines appear while the sender body is interpreting
    cur = []; sender_sends = {}
    for i, l in enumerate(lines):
        t = tok(l)
        if t[0] == "body": cur.append((t[1], t[2]))
        elif t[0] == "bodyend":
            if cur: cur.pop()
        elif t[0] == "top": cur = [("top" + t[1], "0")]
        elif t[0] == "send" and cur:
            sender_sends.setdefault(cur[-1], []).append(int(t[1][1:]))
    for tgt, rs in reads.items():
        pos = {}
        for j, p in enumerate(rs): pos.setdefault(p, []).append(j)
        for snd, ps in sender_sends.items():
            mine = [p for p in ps if p in pos and len(pos[p]) == 1 and ps.count(p) == 1]
            idx = [pos[p][0] for p in mine]
            if idx != sorted(idx):
                bad.append("%s consumed the system events of %s %s in the order %r, sent as %r" %
                           (tgt, snd[0], snd[1], [p for _, p in sorted(zip(idx, mine))], mine))
    return bad

def spec_C14(lines, ghost=None):
    """An insertion that did not happen (entity gone when the insert command is applied — the model marks the action's
    bracket with `ghost insnoop`) schedules no reaction: the same bracket of the implementation trace contains no
    `applied` line."""
    bad = []
    noop = set(); cur = []
    for l in (ghost or []):
        if l.startswith("m+ "): cur.append(l[3:])
        elif l.startswith("m- "):
            if cur: cur.pop()
        elif l.startswith("ghost insnoop") and cur: noop.add(cur[-1])
    # reacting accessor calls that must not trigger (`get_mut` that failed, `set_if_neq` that stored nothing): the harness
    # notes them at the call (`note notrigger <owner> <run> <action>`); the action queued nothing, so its marker bracket
    # must stay empty
    quiet = set(l[len("note notrigger "):] for l in lines if l.startswith("note notrigger "))
    if not noop and not quiet: return bad
    cur = []
    for i, l in enumerate(lines):
        if l.startswith("m+ "): cur.append(l[3:])
        elif l.startswith("m- "):
            if cur: cur.pop()
        elif l.startswith("applied ") and cur and cur[-1] in noop:
            bad.append("line %d: insertion reaction scheduled although the component was not inserted (action %s): %s" % (i, cur[-1], l))
        elif l.startswith("applied ") and cur and cur[-1] in quiet:
            bad.append("line %d: a reaction was scheduled by an accessor call that must not trigger — get_mut failed or set_if_neq stored nothing (action %s): %s" % (i, cur[-1], l))
    return bad

def spec_C17(lines, ghost=None):
    """syscall family: every call runs once with its input and returns input*100+state; state persists per key across
    non re-entrant calls and is independent between keys; a re-entered syscall / named_syscall key gets fresh state and
    the outer-most state is what persists; spawned systems that are missing, despawned or running return an error
    without running; `named_syscall_direct` (call kind m) runs the registered system of the name or fails without running;
    queued writes are applied before the call returns."""
    def body_key(k):
        # `syscall_once` of key k (o<k>) runs the function of `syscall` key k; `named_syscall_direct` (m<k>) the named one
        return ("f" if k[0] == "o" else "n" if k[0] == "m" else k[0]) + k[1:]
    bad = []; stack = []; stored = {}; alive = set(); calls = []; present = set()
    for i, l in enumerate(lines):
        t = tok(l)
        if t[0] != "sc": continue
        if t[1] == "call": calls.append([t[2], False, t[2] in alive]); continue      # (key, entered, existed when called)
        if t[1] == "registered": present.add(t[2]); stored[t[2]] = 0; continue
        if t[1] == "revoked": present.discard(t[2]); stored[t[2]] = 0; continue
        if t[1] == "enter" and calls and body_key(calls[-1][0]) == t[2] and not calls[-1][1]:
            calls[-1][1] = True
            if calls[-1][0][0] == "o":
                r = int(t[3][1:]); x = int(t[4][1:])
                if r != 0: bad.append("line %d: syscall_once of %s entered with state %d, expected fresh state" % (i, t[2], r))
                stack.append((t[2], r, x, "once")); continue
            if calls[-1][0][0] == "m":
                busy = any(e[0] == t[2] and e[3] != "once" for e in stack)
                if t[2] not in present and not busy:
                    bad.append("line %d: named_syscall_direct ran %s although no system is registered under the name" % (i, t[2]))
        if t[1] in ("ret", "err") and calls and calls[-1][0] == t[2]:
            c = calls.pop()
            if t[1] == "err" and c[1]: bad.append("line %d: the call of %s ran its system but returned an error" % (i, t[2]))
            if t[1] == "ret" and not c[1]: bad.append("line %d: the call of %s returned a value without running" % (i, t[2]))
        if t[1] == "spawned": alive.add(t[2]); stored[t[2]] = 0
        elif t[1] == "despawned": alive.discard(t[2])
        elif t[1] == "enter":
            key = t[2]; r = int(t[3][1:]); x = int(t[4][1:])
            reentrant = any(e[0] == key and e[3] != "once" for e in stack)   # a syscall_once run does not occupy the cache
            if key[0] == "s":
                # existence is judged when the call is made: a command that was already pending may despawn the system
                # between the call and its body (benign B51: an exclusive system flushes the world queue before it runs)
                existed = calls[-1][2] if (calls and calls[-1][0] == key) else (key in alive)
                if not existed: bad.append("line %d: %s ran although it did not exist when it was called" % (i, key))
                if reentrant: bad.append("line %d: spawned system %s ran while running" % (i, key))
            # (same-key re-entrancy of syscall / named_syscall is the crate's documented hazard: the state such a
            #  call sees is unspecified; only the outer-most call's state persists, which is what is checked)
            if not reentrant and r != stored.get(key, 0):
                bad.append("line %d: %s entered with state %d, expected %d" % (i, key, r, stored.get(key, 0)))
            stack.append((key, r, x, reentrant))
        elif t[1] == "ret":
            key = t[2]; v = int(t[3])
            if key[0] == "o" and stack and stack[-1][0] == "f" + key[1:] and stack[-1][3] == "once":
                k, r, x, re_ = stack.pop()
                if v != x * 100 + r: bad.append("line %d: %s returned %d for input %d state %d" % (i, key, v, x, r))
            elif stack and stack[-1][0] == body_key(key) and (key[0] != "m" or True):
                k, r, x, re_ = stack.pop()
                if v != x * 100 + r: bad.append("line %d: %s returned %d for input %d state %d" % (i, key, v, x, r))
                if not re_:
                    stored[k] = r + 1
                    if k[0] == "n": present.add(k)
            # a `ret` without an open enter is the report line of a queued / top-level call: already matched
        elif t[1] == "err":
            key = t[2]
            if key[0] == "m":
                nk = "n" + key[1:]
                if nk in present and not any(e[0] == nk for e in stack):
                    bad.append("line %d: named_syscall_direct of the registered idle name %s failed" % (i, nk))
            elif key[0] != "s": bad.append("line %d: %s returned an error" % (i, key))
            elif key in alive and not any(e[0] == key for e in stack) and not any(c[0] == key for c in calls):
                # (a call of the same system that has been made and has not returned counts as running, entered or not)
                bad.append("line %d: call to live idle spawned system %s failed" % (i, key))
    if stack: bad.append("unbalanced enter/ret: %r" % (stack,))
    return bad

def spec_C08(lines, ghost=None):
    """A despawn reaction names a dead entity: if a body reads `dsp=X` and X is alive at the next quiescent snapshot
    (entities are never resurrected), a despawn reactor ran for an entity that is alive."""
    bad = []; pending = []
    for i, l in enumerate(lines):
        t = tok(l)
        if t[0] == "body":
            x = parse_obs(t[3:]).get("dsp", "-")
            if x not in ("-", "", "?"): pending.append((i, t[1], x))
        elif t[0] == "qa":
            ebits = t[1] if len(t) > 1 else ""; sbits = t[2] if len(t) > 2 else ""
            for (j, sysn, x) in pending:
                bits = ebits if x[0] == "e" else sbits
                try: k = int(x[1:])
                except ValueError: continue
                if k < len(bits) and bits[k] == "1":
                    bad.append("line %d: %s ran a despawn reaction for %s, which is still alive at the next quiescent point" % (j, sysn, x))
            pending = []
    return bad

def spec_C15(lines, ghost=None):
    """One-off reactors (the systems made by `ReactCommands::once`, listed by the trace's closing `onces` line): the scripted
    body runs at most once, and at the first quiescent point after it ran the reactor's entity is gone (the wrapper
    despawns it in the same run)."""
    onces = set()
    for l in lines:
        if l.startswith("onces"): onces = set(l.split()[1:])
    bad = []; ran = {}; pending = []
    for i, l in enumerate(lines):
        t = tok(l)
        if t[0] == "body" and len(t) > 1 and t[1] in onces:
            ran[t[1]] = ran.get(t[1], 0) + 1
            if ran[t[1]] == 2: bad.append("line %d: one-off reactor %s runs a second time" % (i, t[1]))
            pending.append((i, t[1]))
        elif t[0] == "qa":
            sbits = t[2] if len(t) > 2 else ""
            for (j, x) in pending:
                k = int(x[1:])
                if k < len(sbits) and sbits[k] == "1":
                    bad.append("line %d: one-off reactor %s has run but still exists at the next quiescent point" % (j, x))
            pending = []
    return bad

SCENARIO = None   # text of the scenario being judged (set by the check before the implementation-side automata run)

def _tables(qt_line):
    """`qt bc0=[s0:2,s1] eev:e1:0=[s2:2]` -> {key: [system names]} (a handle is `sK` or `sK:<strong count>`)."""
    d = {}
    for f in qt_line.split(" ")[1:]:
        if "=[" not in f: continue
        k, v = f.split("=[", 1)
        v = v.rstrip("]")
        d[k] = [h.split(":")[0] for h in v.split(",") if h]
    return d

def spec_C01(lines, ghost=None):
    """Dispatch of an event the user sends by direct world access between trees (`top wbroadcast ty pid`,
    `top wentevent e ty pid`): the registrations live at that instant are the implementation's own table snapshot of the
    quiescent point just before; every system in that list that exists before and after the tree must run reading this
    very payload once per entry, and no system outside the list may read it."""
    if not SCENARIO: return []
    tops = []
    sl = SCENARIO.split("\n"); a = 0
    while a < len(sl):
        if sl[a].startswith("top "):
            op = sl[a].split()
            if len(op) == 3 and op[1] == "acts" and op[2] == "1" and a + 1 < len(sl):
                act = sl[a + 1].split()
                # a batch of one action that sends one event: the same as the direct form
                if len(act) == 3 and act[0] == "broadcast": op = ["top", "wbroadcast", act[1], act[2]]
                elif len(act) == 4 and act[0] == "entevent": op = ["top", "wentevent", act[1], act[2], act[3]]
                elif len(act) == 4 and act[0] in ("mutate", "insert"): op = ["top", "w" + act[0], act[1], act[2]]
            tops.append(op)
        a += 1
    bad = []
    qt = None; qa = None; qc = None
    i = 0; n = len(lines)
    while i < n:
        l = lines[i]
        if l.startswith("qt"): qt = l
        elif l.startswith("qa"): qa = l
        elif l.startswith("qc"): qc = l
        elif l.startswith("top "):
            t = tok(l)
            try: k = int(t[1])
            except ValueError: k = -1
            op = tops[k] if 0 <= k < len(tops) else None
            if op and qt is not None and qa is not None and len(op) >= 2 and op[1] in ("wbroadcast", "wentevent", "wmutate", "winsert"):
                tb = _tables(qt)
                if op[1] == "wbroadcast" and len(op) == 4:
                    ty, pid = op[2], op[3]; expect = list(tb.get("bc" + ty, [])); field = "bc"; want = pid; tgt = None
                elif op[1] == "wentevent" and len(op) == 5:
                    tgt, ty, pid = op[2], op[3], op[4]
                    expect = list(tb.get("eev:%s:%s" % (tgt, ty), [])) + list(tb.get("anyev" + ty, [])); field = "ev"; want = "%s:%s" % (tgt, pid)
                    # a target that does not exist (any more): C18 territory, no claim here
                    bb = qa.split(" ")
                    try:
                        kk = int(tgt[1:]); bits = bb[1] if tgt[0] == "e" else (bb[2] if len(bb) > 2 else "")
                        if not (kk < len(bits) and bits[kk] == "1"): expect = None
                    except (ValueError, IndexError): expect = None
                elif op[1] in ("wmutate", "winsert") and len(op) == 4:
                    # one mutation / insertion of a reactive component (no payload to tell the runs apart: only the lower
                    # bound is judged); the entity must exist and, for a mutation, carry the component
                    tgt, ty = op[2], op[3]; pid = "-"
                    kind = "mut" if op[1] == "wmutate" else "ins"
                    expect = list(tb.get("e%s:%s:%s" % (kind, tgt, ty), [])) + list(tb.get(kind + ty, [])); field = kind; want = tgt
                    bb = qa.split(" ")
                    try:
                        kk = int(tgt[1:]); eb = bb[1]; sb = bb[2] if len(bb) > 2 else ""
                        bits = eb if tgt[0] == "e" else sb
                        if not (kk < len(bits) and bits[kk] == "1"): expect = None
                        elif kind == "mut":
                            comps = qc.split(" ", 1)[1].split(",") if qc and " " in qc else []
                            ci = kk if tgt[0] == "e" else len(eb) + kk
                            if not (ci < len(comps) and comps[ci].split("/")[int(ty)] != "-"): expect = None
                    except (ValueError, IndexError): expect = None
                else: expect = None
                if expect is not None:
                    before = qa.split(" ")
                    j = i + 1; ran = []
                    while j < n and not lines[j].startswith("qa"):
                        if lines[j].startswith("body "):
                            bt = tok(lines[j]); vals = parse_obs(bt[3:]).get(field, "").split(",")
                            try: idx = int(ty)
                            except ValueError: idx = -1
                            # `eK!` = the reader names an entity that no longer exists
                            if 0 <= idx < len(vals) and vals[idx].rstrip("!") == want: ran.append(bt[1])
                        j += 1
                    after = lines[j].split(" ") if j < n else None
                    def alive(bits, name):
                        try: kk = int(name[1:])
                        except ValueError: return False
                        b = bits[2] if len(bits) > 2 else ""
                        return kk < len(b) and b[kk] == "1"
                    if after is not None and not any(x.startswith(("panic", "<", "runaway")) for x in lines[i:j]):
                        for sname in sorted(set(expect)):
                            if sname.startswith("s") and alive(before, sname) and alive(after, sname) and ran.count(sname) < expect.count(sname):
                                bad.append("line %d: %s is registered %d time(s) for this event (table snapshot before the tree) and exists before and after it, but ran %d time(s) reading p%s" % (i, sname, expect.count(sname), ran.count(sname), pid))
                        for sname in sorted(set(ran)):
                            if sname not in expect and pid != "-":
                                bad.append("line %d: %s read p%s although it has no registration for this event in the table snapshot before the tree" % (i, sname, pid))
        i += 1
    return bad

def spec_C07(lines, ghost=None):
    """No leak: a system that was seen registered through a ref-counted handle (`sK:<n>` in a table snapshot — cleanup /
    revokable mode) and that no registration table lists any more at a quiescent point has lost every clone of its signal
    (tables and the despawn tracker are the only holders between trees); the next top-level garbage collection (`top gc`,
    `top frameend`, `top update`) must despawn it."""
    if not SCENARIO: return []
    sl = SCENARIO.split("\n")
    tops = [l.split() for l in sl if l.startswith("top ")]
    # Systems that can die with a registration still holding a signal, legitimately: named by a despawn of any form, part of a
    # hierarchy, registered a second time in a ref-counted mode (`with c|r`: two independent signals, the documented hazard
    # R2), one-off reactors (they despawn themselves). For every other system: dead while a table still lists a ref-counted
    # handle of it = despawned although one of its triggers is still registered.
    excl = set()
    for l in sl:
        w = l.split()
        if not w: continue
        if w[0] == "top": w = w[1:]
        if not w: continue
        if w[0] in ("despawn", "despawnrec", "wdespawn", "wdespawnrec", "wsetparent", "sigprepare") or (w[0] == "with" and len(w) > 2 and w[1] in ("c", "r")):
            excl.update(x for x in w[1:] if re.fullmatch(r"[es]\d+", x))
    for l in lines:
        if l.startswith("onces"): excl.update(l.split()[1:])
    clean = not any(x.startswith(("panic", "<", "runaway")) for x in lines)
    bad = []; counted = set(); qt = None
    i = 0; n = len(lines)
    while i < n:
        l = lines[i]
        if l.startswith("qt"):
            qt = l
            held = set()
            for f in l.split(" ")[1:]:
                if "=[" in f:
                    for h in f.split("=[", 1)[1].rstrip("]").split(","):
                        if ":" in h and h.startswith("s"):
                            counted.add(h.split(":")[0])
                            if h.split(":")[1] not in ("", "0"): held.add(h.split(":")[0])
            # the `qa` line of this quiescent point precedes its `qt` line
            j = i - 1
            while j >= 0 and not lines[j].startswith("qa") and not lines[j].startswith("top "): j -= 1
            if clean and j >= 0 and lines[j].startswith("qa"):
                sb = lines[j].split(" "); sbits = sb[2] if len(sb) > 2 else ""
                for sname in sorted(held - excl):
                    try: kk = int(sname[1:])
                    except ValueError: continue
                    if kk < len(sbits) and sbits[kk] == "0":
                        excl.add(sname)   # reported once
                        bad.append("line %d: %s has been despawned although a registration still holds its signal (nothing in the scenario despawns it)" % (i, sname))
        elif l.startswith("top ") and qt is not None:
            t = tok(l)
            try: k = int(t[1])
            except ValueError: k = -1
            op = tops[k] if 0 <= k < len(tops) else None
            if op and len(op) >= 2 and op[1] in ("gc", "frameend", "update"):
                listed = set()
                for f in qt.split(" ")[1:]:
                    if "=[" in f:
                        for h in f.split("=[", 1)[1].rstrip("]").split(","):
                            if h: listed.add(h.split(":")[0])
                j = i + 1
                while j < n and not lines[j].startswith("qa"): j += 1
                if j < n and not any(x.startswith(("panic", "<", "runaway")) for x in lines[i:j]):
                    sb = lines[j].split(" ")
                    sbits = sb[2] if len(sb) > 2 else ""
                    for sname in sorted(counted - listed):
                        try: kk = int(sname[1:])
                        except ValueError: continue
                        if kk < len(sbits) and sbits[kk] == "1":
                            bad.append("line %d: %s was registered through a ref-counted handle, no table lists it any more, and it survives this garbage collection" % (i, sname))
        i += 1
    return bad

def spec_mismatch(lines, ghost=None):
    """Two accessors of one reader disagree (the harness calls all of them in every body and logs `accessor-mismatch`)."""
    return ["line %d: %s" % (i, l) for i, l in enumerate(lines) if l.startswith("accessor-mismatch")]

def spec_none(lines, ghost=None): return []

SPECS = {
    "C01": [spec_C01], "C02": [spec_C02], "C03": [spec_expect], "C04": [spec_C04, spec_expect], "C05": [spec_C05],
    "C06": [], "C07": [spec_C07], "C08": [spec_C08], "C09": [spec_C02], "C10": [], "C11": [spec_C11, spec_C02],
    "C12": [spec_C12, spec_expect], "C13": [spec_C13], "C14": [spec_C14], "C15": [spec_C15], "C16": [spec_expect, spec_mismatch], "C17": [spec_C17],
    "C18": [spec_C05, spec_C14],
}

# specs evaluated on the model trace with ghosts; a failure there only counts for the implementation when the
# projections agree
GHOST_SPECS = {spec_expect}
