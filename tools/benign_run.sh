#!/bin/bash
# usage: benign_run.sh <id>: applies the benign patch, runs all 18 quick checks, prints concrete claims and summary
id=$1
cd /repo && git apply /verif/seeded/benign/$id/patch.diff || { echo "patch does not apply"; exit 2; }
cd /verif
for i in 01 02 03 04 05 06 07 08 09 10 11 12 13 14 15 16 17 18; do
  out=$(./check C$i quick 2>&1)
  conc=$(echo "$out" | grep "^VIOLATION" | grep -vc "no-failing-input-found")
  nf=$(echo "$out" | grep "^VIOLATION" | grep -c "no-failing-input-found")
  line=$(echo "$out" | grep "quick:" | sed -E 's/.*scenarios [0-9]+ \(([^)]*)\).*/\1/')
  echo "$id C$i concrete=$conc nofail=$nf [$line]"
  if [ "$conc" != "0" ]; then echo "$out" | grep -B1 "^VIOLATION" | grep -v "no-failing-input-found" | grep -v "^--" | head -4 | cut -c1-300; fi
done
cd /repo && git checkout -- . && cd /verif/harness && cargo build --offline 2>&1 | tail -1
cd /verif && git checkout -- evidence 2>/dev/null
