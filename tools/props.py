"""Per-property configuration: theorem module, generator profiles, trace projection, scenario counts."""

RUNNER = ["applied", "abortnoentity", "abortnostorage", "abortroot", "postponed", "enter", "exit", "reinserted",
          "dropped", "replay", "discard", "return"]
ABORTS = ["abortnoentity", "abortnostorage", "abortroot", "discard"]

# Which trace lines each property's correspondence reads (first token of the line). 'top', 'end', 'panic' and the
# harness markers '<timeout>'/'<crash' are always kept.
PROJ = {
    "C01": ["m+", "m-", "applied", "body", "qt", "send"],
    "C02": RUNNER + ["body", "qs"],
    "C03": ["enter", "body", "accessor-mismatch", "m+", "m-", "send"],
    "C04": ["enter", "exit", "body", "accessor-mismatch", "bodyend", "m+", "m-"],
    "C05": ["send", "drop", "body", "qx", "m+", "m-", "applied"] + ABORTS,
    "C06": ["m+", "m-", "applied", "body", "qt"],
    "C07": ["qa", "canary", "qt", "m+", "m-", "dropped"],
    "C08": ["applied", "body", "accessor-mismatch", "m+", "m-", "qk", "qa"],
    "C09": RUNNER + ["m+", "m-", "body", "bodyend"],
    "C10": ["qa", "canary"],
    "C11": ["qs", "qx"],
    "C12": ["body", "m+", "m-", "send"],
    "C13": ["body"],
    "C14": ["ret", "body", "m+", "m-", "qc", "qr", "applied"],
    "C15": ["body", "qa", "qt", "canary"],
    "C16": ["body", "accessor-mismatch", "ql", "qt", "qa"],
    "C17": ["sc"],
    "C18": ABORTS + ["drop", "body", "qt", "qx", "send"],
}

# (profile, weight) mixes for the generator
PROFILES = {
    "C01": [("sharedkey", 3), ("mix", 2), ("big", 1), ("lifetime", 1), ("appreact", 1), ("wide", 1), ("huge", 0.15)],
    "C02": [("recursion", 3), ("deeprec", 2), ("mix", 1), ("big", 1), ("wide", 1), ("huge", 0.15), ("burst", 1), ("cascade", 1), ("deepchain", 0.3)],
    "C03": [("visibility", 3), ("recursion", 2), ("mix", 1), ("ewr", 1), ("dsp", 1), ("wide", 1), ("huge", 0.15), ("burst", 1)],
    "C04": [("visibility", 4), ("recursion", 1), ("mix", 1), ("huge", 0.15)],
    "C05": [("visibility", 2), ("mix", 2), ("recursion", 1), ("lifetime", 1), ("sharedkey", 1), ("wide", 1), ("huge", 0.15)],
    "C06": [("sharedkey", 4), ("lifetime", 2), ("mix", 1), ("wr", 1), ("ewr", 1), ("wide", 1)],
    "C07": [("sharedkey", 3), ("lifetime", 3), ("dsp", 2), ("mix", 1), ("removal2", 1), ("frames", 1), ("appreact", 1), ("wide", 1)],
    "C08": [("removal2", 4), ("dsp", 3), ("cascade", 2), ("frames", 2), ("removal", 1), ("lifetime", 1), ("mix", 1)],
    "C09": [("recursion", 3), ("deeprec", 3), ("big", 1), ("mix", 1), ("wide", 1), ("huge", 0.15), ("burst", 1), ("cascade", 1), ("deepchain", 0.3)],
    "C10": [("signals", 3), ("lifetime", 1), ("frames", 1), ("sigrace", 1)],
    "C11": [("recursion", 2), ("mix", 1), ("lifetime", 1), ("removal", 1), ("dsp", 1), ("removal2", 1), ("cascade", 2), ("frames", 1), ("burst", 1)],
    "C12": [("recursion", 3), ("deeprec", 1), ("visibility", 2), ("mix", 1), ("ewr", 1), ("dsp", 1), ("wide", 1), ("burst", 1)],
    "C13": [("recursion", 2), ("deeprec", 1), ("appreact", 2), ("mix", 1), ("lifetime", 1), ("huge", 0.15), ("once2", 0.6)],
    "C14": [("access2", 3), ("access", 2), ("mix", 1)],
    "C15": [("once2", 4), ("once", 1), ("sharedkey", 1), ("mix", 1)],
    "C16": [("ewr", 5), ("wr", 1), ("mix", 1)],
    "C17": [("syscall", 1)],
    "C18": [("stale", 3), ("lifetime", 1), ("mix", 1), ("wide", 1), ("ewr", 0.6)],
}

THEOREM_MODULE = {p: "Cobweb.Theorems.%s" % p for p in PROJ}

N_QUICK = 1500
N_THOROUGH = 30000

def project(pid, lines):
    keep = set(PROJ[pid]) | {"top", "end", "panic", "<timeout>", "fuel-out", "parse-error", "unsupported", "unsupported-in-exclusive", "runaway"}
    out = []
    nenter = 0
    for l in lines:
        t = l.split(" ", 1)[0]
        if pid == "C11":
            # residue shows as work that moves from the tree that caused it into a later top-level operation: compare
            # the number of runs per top-level operation
            if t == "enter": nenter += 1
            elif t in ("top", "end"):
                out.append("runs-in-previous-op %d" % nenter); nenter = 0
        if t in keep or t.startswith("<crash"): out.append(l)
    return out
