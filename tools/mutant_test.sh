#!/bin/bash
# usage: tools/mutant_test.sh <patch.diff> <prop> [<prop>...]   -- applies the patch to /repo, runs the quick checks, reverts
patch=$1; shift
cd /repo && git apply "$patch" || { echo "patch does not apply"; exit 2; }
cd /verif
for p in "$@"; do
  echo "--- $p"
  ./check $p quick 2>&1 | grep -E "VIOLATION|KNOWN|spec failure|correspondence|^C[0-9]+ " | cut -c1-260
done
cd /repo && git checkout -- . && cd /verif/harness && cargo build --offline 2>&1 | tail -1
# the runs above rewrote evidence/ with data of the changed tree: put the committed files back
cd /verif && git checkout -- evidence 2>/dev/null
