#!/usr/bin/env python3
"""Runs scenarios through the Rust harness (implementation) and the Lean driver (model), in parallel chunks."""
import os, subprocess, sys
from concurrent.futures import ThreadPoolExecutor

HARNESS = "/verif/harness/target/debug/cobweb-harness"
DRIVER = "/verif/lean/.lake/build/bin/cobweb-driver"

def split(out):
    res = {}; cur = None
    for l in out.split("\n"):
        if l.startswith("scenario "): cur = l[9:]; res[cur] = []
        elif cur is not None and l != "": res[cur].append(l)
    return res

def _run_bin(binary, paths, timeout):
    try:
        p = subprocess.run([binary] + paths, capture_output=True, text=True, timeout=timeout)
        return split(p.stdout), p.returncode
    except subprocess.TimeoutExpired as e:
        out = e.stdout.decode() if isinstance(e.stdout, bytes) else (e.stdout or "")
        return split(out), -9

def _run_chunk(binary, paths, per_timeout):
    res, rc = _run_bin(binary, paths, per_timeout * len(paths) + 5)
    done = {p: res[p] for p in paths if p in res and res[p] and res[p][-1] in ("end",) or (p in res and any(l.startswith("panic") for l in res[p]))}
    if rc == 0 and len(done) == len(paths): return done
    # a crash or hang: rerun the unfinished ones one by one
    for p in paths:
        if p in done: continue
        r1, rc1 = _run_bin(binary, [p], per_timeout)
        lines = r1.get(p, [])
        if rc1 == -9: lines = lines + ["<timeout>"]
        elif rc1 != 0: lines = lines + ["<crash rc=%d>" % rc1]
        done[p] = lines
    return done

def run_both(paths, jobs=16, chunk=16, per_timeout=10, harness=HARNESS, driver=DRIVER):
    """Returns {path: (impl_lines, model_lines)}."""
    chunks = [paths[i:i + chunk] for i in range(0, len(paths), chunk)]
    impl, model = {}, {}
    with ThreadPoolExecutor(max_workers=jobs) as ex:
        fi = [ex.submit(_run_chunk, harness, c, per_timeout) for c in chunks]
        fm = [ex.submit(_run_chunk, driver, c, per_timeout) for c in chunks]
        for f in fi: impl.update(f.result())
        for f in fm: model.update(f.result())
    return {p: (impl.get(p, []), model.get(p, [])) for p in paths}

def strip_ghost(lines):
    return [l for l in lines if not l.startswith("ghost ")]

def first_diff(a, b):
    for i, (x, y) in enumerate(zip(a + ["<eof>"], b + ["<eof>"])):
        if x != y: return i, x, y
    return None
