#!/usr/bin/env python3
"""Quick differential run: generate N scenarios, run harness and Lean driver, report first differences."""
import os, random, sys
sys.path.insert(0, os.path.dirname(__file__))
import gen, corr

if __name__ == "__main__":
    import subprocess
    subprocess.run(["cargo", "build", "--offline"], cwd="/verif/harness", capture_output=True)
    seed = int(sys.argv[1]); n = int(sys.argv[2]); prof = sys.argv[3] if len(sys.argv) > 3 else "mix"
    d = "/verif/work/diff"; os.makedirs(d, exist_ok=True)
    paths = []
    for i in range(n):
        p = "%s/%s_%d.scn" % (d, prof, seed + i)
        open(p, "w").write(gen.generate(prof, seed + i))
        paths.append(p)
    res = corr.run_both(paths)
    bad = 0; panics = 0; odd = 0
    for p in paths:
        a, b = res[p]
        b = corr.strip_ghost(b)
        if any(l.startswith("panic") for l in a): panics += 1
        if a and a[-1].startswith("<") or b and b[-1].startswith("<"): odd += 1
        if a != b:
            bad += 1
            if bad <= int(os.environ.get("SHOW", "3")):
                print("DIFF", p)
                fd = corr.first_diff(a, b)
                if fd:
                    i, x, y = fd
                    print("  line", i); print("   impl :", x); print("   model:", y)
                    for l in a[max(0, i - int(os.environ.get("CTX", "6"))):i]: print("      ", l)
    print("scenarios", n, "differing", bad, "impl panics", panics, "timeouts/crashes", odd)
