#!/bin/bash
# usage: tools/process_mutant.sh <id> <prop>...   (worktree /tmp/mut/<id> with _out/)
id=$1; shift
mkdir -p /verif/seeded/$id && cp /tmp/mut/$id/_out/* /verif/seeded/$id/
echo "=== $id verify"
/verif/tools/verify_mutant.sh /verif/seeded/$id /tmp/mut/$id 2>&1 | tail -4
echo "=== $id detect"
/verif/tools/mutant_test.sh /verif/seeded/$id/patch.diff "$@" 2>&1 | grep -v "^KNOWN" | cut -c1-220
