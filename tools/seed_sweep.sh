#!/bin/bash
# usage: tools/seed_sweep.sh <from> <to> [tier]  -- runs every check for each seed, prints only alarms and a summary
cd /verif
for sd in $(seq $1 $2); do
  for p in C01 C02 C03 C04 C05 C06 C07 C08 C09 C10 C11 C12 C13 C14 C15 C16 C17 C18; do
    out=$(VERIF_SEED=$sd ./check $p ${3:-quick} 2>&1)
    rc=$?
    if [ $rc -ne 0 ] || echo "$out" | grep -q VIOLATION; then echo "ALARM seed=$sd $p rc=$rc"; echo "$out" | grep -E "VIOLATION|spec failure|correspondence" | head -3 | cut -c1-300; fi
  done
done
echo "sweep done $1..$2"
