#!/usr/bin/env python3
"""Re-runs the quick checks against every seeded change (applies seeded/<id>/patch.diff to /repo, runs the checks named in
its meta.json until one reports a violation, reverts). Prints one line per change. Not a registered check; /repo is
restored after every change. Usage: tools/regress_seeded.py [id ...]"""
import json, os, re, subprocess, sys
ROOT = "/verif"
def sh(cmd, cwd=ROOT):
    return subprocess.run(cmd, cwd=cwd, shell=True, capture_output=True, text=True)
ids = sys.argv[1:] or sorted(d for d in os.listdir(ROOT + "/seeded") if os.path.exists("%s/seeded/%s/patch.diff" % (ROOT, d)))
caught = missed = 0
for i in ids:
    meta = json.load(open("%s/seeded/%s/meta.json" % (ROOT, i)))
    det = meta.get("detection", "")
    props = []
    for p in re.findall(r"C\d\d", det) + meta.get("breaks", []):
        if p not in props: props.append(p)
    expected_miss = det.lower().startswith(("not detected", "missed", "none"))
    if "superseded" in meta:
        print("%-5s superseded by the F1 repair (applies to 69b45c6 only)" % i, flush=True); continue
    assert sh("git status --porcelain", "/repo").stdout.strip() == "", "/repo not clean"
    a = sh("git apply %s/seeded/%s/patch.diff" % (ROOT, i), "/repo")
    if a.returncode != 0:
        print("%-5s patch does not apply" % i); continue
    hit = None
    try:
        for p in props:
            r = sh("./check %s quick" % p)
            if "VIOLATION" in r.stdout:
                m = re.search(r"scenarios \d+ \(([^)]*)\)", r.stdout)
                hit = "%s [%s]%s" % (p, m.group(1) if m else "", " no-failing-input-found" if "no-failing-input-found" in r.stdout else "")
                break
    finally:
        sh("git checkout -- .", "/repo")
    if hit: caught += 1
    else: missed += 1
    print("%-5s %s%s" % (i, "caught by " + hit if hit else "NOT caught (tried %s)" % ",".join(props), "  (recorded as not detected)" if expected_miss else ""), flush=True)
sh("cargo build --offline", ROOT + "/harness")
sh("git checkout -- evidence")   # the runs above rewrote evidence/ with data of changed trees
print("caught %d, not caught %d" % (caught, missed))
