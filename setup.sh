#!/bin/bash
# Builds the verification framework from files on disk only (offline).
set -e
export CARGO_NET_OFFLINE=true
cd /verif/lean
lake build Cobweb cobweb-driver
for f in Cobweb/Theorems/*.lean; do m=$(echo "${f%.lean}" | tr '/' '.'); lake build "$m"; done
cd /verif/harness
[ -f /repo/Cargo.lock ] && cp /repo/Cargo.lock Cargo.lock
cargo build --offline
echo "setup ok"
