import Cobweb.Types
import Cobweb.State
import Cobweb.Machine
import Cobweb.Exec
import Cobweb.Scenario
import Cobweb.Syscall
import Cobweb.SyscallScenario
