import Cobweb.Theorems.C02
#print axioms Cobweb.C02.no_double_entry
#print axioms Cobweb.C02.postponed_only_when_executing
#print axioms Cobweb.C02.abortRoot_unreachable
#print axioms Cobweb.C02.postponed_waits
#print axioms Cobweb.C02.discard_unreachable
#print axioms Cobweb.C02.complete_at_quiescence
