import Cobweb.Theorems.C11
#print axioms Cobweb.C11.quiescent_control
