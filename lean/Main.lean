import Cobweb.Scenario
import Cobweb.SyscallScenario
open Cobweb

/-- Prints (oldest first) and clears the ghost trace. -/
def flushTrace (s : St) : IO St := do
  for e in s.trace.reverse do
    IO.println (showEv s e)
  pure { s with trace := [] }

partial def loop (p : Prog) (h : Hist) (s : St) (fuel : Nat) : IO Unit := do
  if fuel = 0 then
    IO.println "fuel-out"
    return
  match step p h s with
  | some s' =>
    let s' ← flushTrace s'
    loop p h s' (fuel - 1)
  | none =>
    -- quiescent
    for l in showQuiescent s do IO.println l
    match tick p h s with
    | some s' =>
      let s' ← flushTrace s'
      loop p h s' (fuel - 1)
    | none =>
      IO.println (showOnces s)
      IO.println "end"

def runFile (path : String) : IO Unit := do
  let text ← IO.FS.readFile path
  if (text.splitOn "\n").any (fun l => l.trimAscii.toString == "mode syscall") then
    IO.println s!"scenario {path}"
    match Sc.parseSc text with
    | none => IO.println "parse-error"
    | some sc => for l in Sc.runScenario sc do IO.println l
    return
  match parseScenario text with
  | none => IO.println "parse-error"
  | some sc =>
    IO.println s!"scenario {path}"
    loop sc.prog sc.hist sc.init 2000000

def main (args : List String) : IO Unit := do
  for a in args do
    runFile a
