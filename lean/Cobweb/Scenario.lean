/-
  Cobweb.Scenario — the scenario language shared with the Rust harness: parsing, name resolution, the scripted
  `Prog`/`Hist` a scenario denotes, and the canonical text form of trace events and quiescent snapshots.
-/
import Cobweb.Exec

namespace Cobweb

/-- A symbolic entity reference: `e<k>` = k-th named plain entity, `s<k>` = k-th named system. -/
inductive Ref | e (k : Nat) | s (k : Nat)
deriving DecidableEq, Repr, Inhabited

inductive STrig
  | eIns (r : Ref) (ty : Nat) | eMut (r : Ref) (ty : Nat) | eRem (r : Ref) (ty : Nat) | eEv (r : Ref) (ty : Nat)
  | anyEv (ty : Nat) | cIns (ty : Nat) | cMut (ty : Nat) | cRem (ty : Nat)
  | res (ty : Nat) | bc (ty : Nat) | dsp (r : Ref)
deriving Repr, Inhabited

inductive SAct
  | direct (a : SAct)       -- the `World`-level form of a sender, called in-line by an exclusive system (`world.flush()` first)
  | flush                   -- `world.flush()` in the middle of an exclusive body
  | runNow (s : Ref)        -- `SystemCommand::apply(world)` called in-line by an exclusive body, no flush first
  | spawn
  | spawnSys (d : Nat)
  | on (mode : Mode) (d : Nat) (trigs : List STrig)
  | withT (mode : Mode) (s : Ref) (trigs : List STrig)
  | once (d : Nat) (trigs : List STrig)
  | onceFn (d : Nat) (trigs : List STrig)
  | revoke (tok : Nat)
  | run (s : Ref)
  | sysEvent (s : Ref) (ty pid : Nat)
  | broadcast (ty pid : Nat)
  | entityEvent (e : Ref) (ty pid : Nat)
  | resMut (ty : Nat)
  | resSet (ty v : Nat) (neq : Bool)
  | resRead (ty : Nat)
  | insert (e : Ref) (ty v : Nat)
  | mutate (e : Ref) (ty v : Nat)
  | mutNoReact (e : Ref) (ty v : Nat)
  | resNoReact (ty v : Nat)
  | setNeq (e : Ref) (ty v : Nat)
  | readComp (e : Ref) (ty : Nat)
  | remove (e : Ref) (ty : Nat)
  | despawn (e : Ref)
  | despawnRec (e : Ref)
  | ewrAdd (wr : Nat) (e : Ref) (v : Nat)
  | ewrAddNow (wr : Nat) (e : Ref) (v : Nat)
  | ewrRemove (wr : Nat) (trigs : List STrig)
  | wrAdd (wr : Nat) (trigs : List STrig)
  | wrRemove (wr : Nat) (trigs : List STrig)
  | wrRun (wr : Nat)
deriving Repr, Inhabited

inductive STop
  | acts (l : List SAct)
  | wDespawn (r : Ref) | wDespawnRec (r : Ref) | wRemove (r : Ref) (ty : Nat) | wInsertRaw (r : Ref) (ty v : Nat)
  | wSetParent (c p : Ref) | gc | poll | frameEnd | clearTrackers
  | wSysEvent (s : Ref) (ty pid : Nat) | wBroadcast (ty pid : Nat) | wEntityEvent (r : Ref) (ty pid : Nat)
  | sigPrepare (r : Ref) | sigClone (a : Nat) | sigDrop (a : Nat) | sigThreads (a n : Nat)
deriving Repr, Inhabited

structure Def where
  excl : Bool
  runs : List (List SAct)
deriving Repr, Inhabited

structure Scenario where
  defs : List Def := []
  wrs : List Nat := []        -- world reactor k runs def wrs[k]
  ewrs : List Nat := []
  tops : List STop := []
deriving Repr, Inhabited

/-! ### parsing -/

def parseRef (t : String) : Option Ref :=
  match t.toList with
  | 'e' :: r => (String.ofList r).toNat?.map Ref.e
  | 's' :: r => (String.ofList r).toNat?.map Ref.s
  | _ => none

def parseIdx (c : Char) (t : String) : Option Nat :=
  match t.toList with
  | c' :: r => if c' = c then (String.ofList r).toNat? else none
  | _ => none

def parseTrig (t : String) : Option STrig :=
  match t.splitOn ":" with
  | ["bc", ty] => ty.toNat?.map STrig.bc
  | ["res", ty] => ty.toNat?.map STrig.res
  | ["ins", ty] => ty.toNat?.map STrig.cIns
  | ["mut", ty] => ty.toNat?.map STrig.cMut
  | ["rem", ty] => ty.toNat?.map STrig.cRem
  | ["anyev", ty] => ty.toNat?.map STrig.anyEv
  | ["eins", r, ty] => do pure (STrig.eIns (← parseRef r) (← ty.toNat?))
  | ["emut", r, ty] => do pure (STrig.eMut (← parseRef r) (← ty.toNat?))
  | ["erem", r, ty] => do pure (STrig.eRem (← parseRef r) (← ty.toNat?))
  | ["eev", r, ty] => do pure (STrig.eEv (← parseRef r) (← ty.toNat?))
  | ["dsp", r] => (parseRef r).map STrig.dsp
  | _ => none

def parseTrigs (ts : List String) : Option (List STrig) := ts.mapM parseTrig

def parseMode (t : String) : Option Mode :=
  match t with
  | "p" => some .persistent
  | "c" => some .cleanup
  | "r" => some .revokable
  | _ => none

def parseAct (toks : List String) : Option SAct :=
  match toks with
  | ["spawn"] => some .spawn
  | ["spawnsys", d] => d.toNat?.map .spawnSys
  | "on" :: m :: d :: ts => do pure (.on (← parseMode m) (← d.toNat?) (← parseTrigs ts))
  | "with" :: m :: s :: ts => do pure (.withT (← parseMode m) (← parseRef s) (← parseTrigs ts))
  | "once" :: d :: ts => do pure (.once (← d.toNat?) (← parseTrigs ts))
  | "oncefn" :: d :: ts => do pure (.onceFn (← d.toNat?) (← parseTrigs ts))
  | ["revoke", t] => (parseIdx 't' t).map .revoke
  | ["run", s] => (parseRef s).map .run
  | ["flush"] => some .flush
  | ["irun", s] => (parseRef s).map .runNow
  | ["drun", s] => (parseRef s).map (fun r => .direct (.run r))
  | ["dsysevent", s, ty, pid] => do pure (.direct (.sysEvent (← parseRef s) (← ty.toNat?) (← pid.toNat?)))
  | ["dbroadcast", ty, pid] => do pure (.direct (.broadcast (← ty.toNat?) (← pid.toNat?)))
  | ["dentevent", e, ty, pid] => do pure (.direct (.entityEvent (← parseRef e) (← ty.toNat?) (← pid.toNat?)))
  | ["sysevent", s, ty, pid] => do pure (.sysEvent (← parseRef s) (← ty.toNat?) (← pid.toNat?))
  | ["broadcast", ty, pid] => do pure (.broadcast (← ty.toNat?) (← pid.toNat?))
  | ["entevent", e, ty, pid] => do pure (.entityEvent (← parseRef e) (← ty.toNat?) (← pid.toNat?))
  | ["resmut", ty] => ty.toNat?.map .resMut
  | ["resset", ty, v] => do pure (.resSet (← ty.toNat?) (← v.toNat?) false)
  | ["ressetneq", ty, v] => do pure (.resSet (← ty.toNat?) (← v.toNat?) true)
  | ["resread", ty] => ty.toNat?.map .resRead
  | ["insert", e, ty, v] => do pure (.insert (← parseRef e) (← ty.toNat?) (← v.toNat?))
  | ["mutate", e, ty, v] => do pure (.mutate (← parseRef e) (← ty.toNat?) (← v.toNat?))
  | ["mutnr", e, ty, v] => do pure (.mutNoReact (← parseRef e) (← ty.toNat?) (← v.toNat?))
  | ["resnr", ty, v] => do pure (.resNoReact (← ty.toNat?) (← v.toNat?))
  | ["setneq", e, ty, v] => do pure (.setNeq (← parseRef e) (← ty.toNat?) (← v.toNat?))
  | ["read", e, ty] => do pure (.readComp (← parseRef e) (← ty.toNat?))
  | ["remove", e, ty] => do pure (.remove (← parseRef e) (← ty.toNat?))
  | ["despawn", e] => (parseRef e).map .despawn
  | ["despawnrec", e] => (parseRef e).map .despawnRec
  | ["ewradd", wr, e, v] => do pure (.ewrAdd (← wr.toNat?) (← parseRef e) (← v.toNat?))
  | ["ewraddnow", wr, e, v] => do pure (.ewrAddNow (← wr.toNat?) (← parseRef e) (← v.toNat?))
  | "ewrremove" :: wr :: ts => do pure (.ewrRemove (← wr.toNat?) (← parseTrigs ts))
  | "wradd" :: wr :: ts => do pure (.wrAdd (← wr.toNat?) (← parseTrigs ts))
  | "wrremove" :: wr :: ts => do pure (.wrRemove (← wr.toNat?) (← parseTrigs ts))
  | ["wrrun", wr] => wr.toNat?.map .wrRun
  | _ => none

def parseTop (toks : List String) : Option STop :=
  match toks with
  | ["wdespawn", r] => (parseRef r).map .wDespawn
  | ["wdespawnrec", r] => (parseRef r).map .wDespawnRec
  | ["wremove", r, ty] => do pure (.wRemove (← parseRef r) (← ty.toNat?))
  | ["winsert", r, ty, v] => do pure (.wInsertRaw (← parseRef r) (← ty.toNat?) (← v.toNat?))
  | ["wsetparent", c, p] => do pure (.wSetParent (← parseRef c) (← parseRef p))
  | ["gc"] => some .gc
  | ["poll"] => some .poll
  | ["frameend"] => some .frameEnd
  -- `App::update()` is written as two lines, `top update` + `top cleartrackers`: the `Last` schedule (collector, then the
  -- poll) and the `World::clear_trackers` that ends the frame
  | ["update"] => some .frameEnd
  | ["cleartrackers"] => some .clearTrackers
  | ["wsysevent", s, ty, pid] => do pure (.wSysEvent (← parseRef s) (← ty.toNat?) (← pid.toNat?))
  | ["wbroadcast", ty, pid] => do pure (.wBroadcast (← ty.toNat?) (← pid.toNat?))
  | ["wentevent", r, ty, pid] => do pure (.wEntityEvent (← parseRef r) (← ty.toNat?) (← pid.toNat?))
  | ["sigprepare", r] => (parseRef r).map .sigPrepare
  | ["sigclone", a] => (parseIdx 'a' a).map .sigClone
  | ["sigdrop", a] => (parseIdx 'a' a).map .sigDrop
  -- the handle and a fresh clone of it dropped by two racing threads: for the model, one drop
  | ["sigdroprace", a] => (parseIdx 'a' a).map .sigDrop
  | ["sigthreads", a, n] => do pure (.sigThreads (← parseIdx 'a' a) (← n.toNat?))
  | _ => none

def toks (line : String) : List String := (line.trimAscii.toString.splitOn " ").filter (· ≠ "")

/-- Takes `n` act lines. -/
def takeActs : Nat → List String → Option (List SAct × List String)
  | 0, ls => some ([], ls)
  | n + 1, l :: ls => do
    let a ← parseAct (toks l)
    let (as, rest) ← takeActs n ls
    pure (a :: as, rest)
  | _ + 1, [] => none

def takeRuns : Nat → List String → Option (List (List SAct) × List String)
  | 0, ls => some ([], ls)
  | n + 1, l :: ls =>
    match toks l with
    | ["run", k] => do
      let k ← k.toNat?
      let (as, rest) ← takeActs k ls
      let (rs, rest) ← takeRuns n rest
      pure (as :: rs, rest)
    | _ => none
  | _ + 1, [] => none

/-- Parses a whole scenario; `fuel` bounds the number of declarations. -/
def parseLines : Nat → List String → Scenario → Option Scenario
  | 0, _, _ => none
  | _ + 1, [], sc => some sc
  | fuel + 1, l :: ls, sc =>
    match toks l with
    | [] => parseLines fuel ls sc
    | "#" :: _ => parseLines fuel ls sc
    | ["def", excl, n] => do
      let n ← n.toNat?
      let (runs, rest) ← takeRuns n ls
      parseLines fuel rest { sc with defs := sc.defs ++ [{ excl := excl = "1", runs := runs }] }
    -- `valid 0|1`: empties / fills the match of the scripted systems' `Populated` param. The crate runs its systems
    -- whatever Bevy's `validate_param` says, so the model ignores the line.
    | ["valid", _] => parseLines fuel ls sc
    | ["wr", d] => do parseLines fuel ls { sc with wrs := sc.wrs ++ [← d.toNat?] }
    | ["ewr", d] => do parseLines fuel ls { sc with ewrs := sc.ewrs ++ [← d.toNat?] }
    | ["top", "acts", n] => do
      let n ← n.toNat?
      let (as, rest) ← takeActs n ls
      parseLines fuel rest { sc with tops := sc.tops ++ [.acts as] }
    | "top" :: "appreactor" :: d :: ts => do
      -- `App::add_reactor(triggers, f)` = `app.react(|rc| rc.on_persistent(triggers, f))`: one batch with one action
      parseLines fuel ls { sc with tops := sc.tops ++ [.acts [.on .persistent (← d.toNat?) (← parseTrigs ts)]] }
    | "top" :: r => do
      let t ← parseTop r
      parseLines fuel ls { sc with tops := sc.tops ++ [t] }
    | _ => none

def parseScenario (text : String) : Option Scenario :=
  let ls := text.splitOn "\n"
  parseLines (ls.length + 1) ls {}

/-! ### resolution against the ghost name tables -/

/-- A named system whose `SystemCommandStorage` insertion is still queued: Bevy's `Commands::spawn` panics if such an
    entity dies before its insert command is applied, so no scripted action can name it (harness and model alike). -/
def pendingSystem (s : St) (e : Nat) : Bool := s.sysNames.contains e && s.alive e && (s.storage e).isNone

def resolveRef (s : St) : Ref → Option Nat
  | .e k => s.entNames[k]?
  | .s k => (s.sysNames[k]?).bind (fun e => if pendingSystem s e then none else some e)

def resolveTrig (s : St) : STrig → Option Trig
  | .eIns r ty => (resolveRef s r).map (Trig.eIns · ty)
  | .eMut r ty => (resolveRef s r).map (Trig.eMut · ty)
  | .eRem r ty => (resolveRef s r).map (Trig.eRem · ty)
  | .eEv r ty => (resolveRef s r).map (Trig.eEv · ty)
  | .anyEv ty => some (.anyEv ty)
  | .cIns ty => some (.cIns ty)
  | .cMut ty => some (.cMut ty)
  | .cRem ty => some (.cRem ty)
  | .res ty => some (.res ty)
  | .bc ty => some (.bc ty)
  | .dsp r => (resolveRef s r).map Trig.dsp

def resolveTrigs (s : St) (ts : List STrig) : Option (List Trig) := ts.mapM (resolveTrig s)

/-- Resolves a scripted action; `none` = it names something that does not exist (yet): the action is skipped. -/
def resolveAct (sc : Scenario) (s : St) : SAct → Option Act
  | .direct a => resolveAct sc s a
  | .flush => some .flushWorld
  | .runNow r => (resolveRef s r).map Act.runNow
  | .spawn => some .spawn
  | .spawnSys d => (sc.defs[d]?).map (fun df => Act.spawnSys d df.excl)
  | .on m d ts => do pure (Act.on m d (← sc.defs[d]?).excl (← resolveTrigs s ts))
  | .withT m r ts => do pure (Act.withT m (← resolveRef s r) (← resolveTrigs s ts))
  | .once d ts => do let _ ← sc.defs[d]?; pure (Act.once d (← resolveTrigs s ts))
  | .onceFn d ts => do let _ ← sc.defs[d]?; if d < 4 then pure (Act.onceFn d (← resolveTrigs s ts)) else none
  | .revoke k => (s.tokens[k]?).map (fun t => Act.revoke t.1 t.2)
  | .run r => (resolveRef s r).map Act.run
  | .sysEvent r ty pid => (resolveRef s r).map (Act.sysEvent · ty pid)
  | .broadcast ty pid => some (.broadcast ty pid)
  | .entityEvent r ty pid => (resolveRef s r).map (Act.entityEvent · ty pid)
  | .resMut ty => some (.resMut ty)
  | .resSet ty v neq => some (.resSet ty v neq)
  | .resRead ty => some (.resRead ty)
  | .insert r ty v => (resolveRef s r).map (Act.insert · ty v)
  | .mutate r ty v => (resolveRef s r).map (Act.mutate · ty v)
  | .mutNoReact r ty v => (resolveRef s r).map (Act.mutNoReact · ty v)
  | .resNoReact ty v => some (.resNoReact ty v)
  | .setNeq r ty v => (resolveRef s r).map (Act.setNeq · ty v)
  | .readComp r ty => (resolveRef s r).map (Act.readComp · ty)
  | .remove r ty => (resolveRef s r).map (Act.remove · ty)
  | .despawn r => (resolveRef s r).bind (fun e => if pendingSystem s e then none else some (Act.despawn e))
  | .despawnRec r => (resolveRef s r).bind (fun e => if pendingSystem s e then none else some (Act.despawnRec e))
  | .ewrAdd wr r v => if wr < sc.ewrs.length then (resolveRef s r).map (Act.ewrAdd wr · v) else none
  | .ewrAddNow wr r v => if wr < sc.ewrs.length then (resolveRef s r).map (Act.ewrAddNow wr · v) else none
  | .ewrRemove wr ts => if wr < sc.ewrs.length then (resolveTrigs s ts).map (Act.ewrRemove wr) else none
  | .wrAdd wr ts => if wr < sc.wrs.length then (resolveTrigs s ts).map (Act.wrAdd wr) else none
  | .wrRemove wr ts => if wr < sc.wrs.length then (resolveTrigs s ts).map (Act.wrRemove wr) else none
  | .wrRun wr => if wr < sc.wrs.length then some (.wrRun wr) else none

/-- The `i`-th call of a scripted action list: action `j` occupies slots `5j` (marker⁺), `5j+1`, `5j+2` (the action),
    `5j+3`, `5j+4` (marker⁻). Slots `5j+1` and `5j+3` are a `world.flush()` around an in-line `World`-level sender
    (`direct`; only an exclusive body can make one — elsewhere the flush is nothing) and nothing otherwise. -/
def scriptAt (sc : Scenario) (s : St) (script : List SAct) (owner run i : Nat) : Option Act :=
  let j := i / 5
  match script[j]? with
  | none => none
  | some a =>
    if i % 5 = 0 then some (.marker { plus := true, owner := owner, run := run, act := j })
    else if i % 5 = 4 then some (.marker { plus := false, owner := owner, run := run, act := j })
    else if i % 5 = 2 then some ((resolveAct sc s a).getD .nop)
    else match a with
      | .direct _ => some .flushWorld
      | _ => some .nop

def indexOf? (l : List Nat) (x : Nat) : Option Nat := findIdx' (· == x) l 0

def topOwner (t : Nat) : Nat := 1000000 + t

/-- `EntityReactor::add` can be called by the body itself only where the system can take the `EntityReactor<T>` parameter: not
    in an exclusive system and not in the entity world reactor `T` itself (its `EntityLocal<T>` already holds it). Elsewhere
    the scripted `ewraddnow` is the queued form (`EntityCommands::add_world_reactor`), as in the harness. -/
def demoteNow (s : St) (sys : Nat) : Act → Act
  | .ewrAddNow wr e v => if (s.info sys).excl || s.ewrSys wr == sys then .ewrAdd wr e v else .ewrAddNow wr e v
  | a => a

/-- A top-level batch has no `EntityReactor` parameter: there `ewraddnow` is always the queued form. -/
def demoteTop : Act → Act
  | .ewrAddNow wr e v => .ewrAdd wr e v
  | a => a

/-- The program a scenario denotes. -/
def Scenario.prog (sc : Scenario) : Prog := fun sys i s =>
  let inf := s.info sys
  let run := inf.nruns - 1
  match sc.defs[inf.defn]? with
  | none => none
  | some df =>
    match df.runs[run]? with
    | none => none
    | some script => (scriptAt sc s script ((indexOf? s.sysNames sys).getD 999999) run i).map (demoteNow s sys)

def resolveTop (s : St) : STop → Option TopOp
  | .acts _ => some .acts
  | .wDespawn r => (resolveRef s r).map .wDespawn
  | .wDespawnRec r => (resolveRef s r).map .wDespawnRec
  | .wRemove r ty => (resolveRef s r).map (TopOp.wRemove · ty)
  | .wInsertRaw r ty v => (resolveRef s r).map (TopOp.wInsertRaw · ty v)
  | .wSetParent c p => do pure (.wSetParent (← resolveRef s c) (← resolveRef s p))
  | .gc => some .gc
  | .poll => some .poll
  | .frameEnd => some .frameEnd
  | .clearTrackers => some .clearTrackers
  | .wSysEvent r ty pid => (resolveRef s r).map (TopOp.wSysEvent · ty pid)
  | .wBroadcast ty pid => some (.wBroadcast ty pid)
  | .wEntityEvent r ty pid => (resolveRef s r).map (TopOp.wEntityEvent · ty pid)
  | .sigPrepare r => (resolveRef s r).map .sigPrepare
  | .sigClone a => (s.sigs[a]?).map .sigClone
  | .sigDrop a => (s.sigs[a]?).map .sigDrop
  | .sigThreads a n => (s.sigs[a]?).bind (fun arc => if s.arcRc arc > 0 then some (.sigThreads arc n) else none)

/-- The history a scenario denotes. An unresolvable top-level operation degenerates to an empty batch. -/
def Scenario.hist (sc : Scenario) : Hist where
  op := fun t s =>
    match sc.tops[t]? with
    | none => none
    | some st => some ((resolveTop s st).getD .acts)
  act := fun t i s =>
    match sc.tops[t]? with
    | some (.acts script) => (scriptAt sc s script (topOwner t) 0 i).map demoteTop
    | _ => none

/-- Spawns world reactor number `acc.2` (of the kind `isEwr` says) from definition `d`: a system command with its callback
    stored, as `add_world_reactor` / `add_entity_reactor` do while the `App` is built. -/
def Scenario.addSys (sc : Scenario) (isEwr : Bool) (acc : St × Nat) (d : Nat) : St × Nat :=
  let s := acc.1.fresh.2
  let e := acc.1.nextEnt
  let excl := ((sc.defs[d]?).map (·.excl)).getD false
  let s1 : St := { s with sysNames := s.sysNames ++ [e], info := upd s.info e { defn := d, excl := excl },
                          storage := upd s.storage e (some true) }
  (if isEwr then { s1 with ewrSys := upd s1.ewrSys acc.2 e } else { s1 with wrSys := upd s1.wrSys acc.2 e }, acc.2 + 1)

/-- Initial state: the world reactors of the scenario are spawned as named persistent systems. -/
def Scenario.init (sc : Scenario) : St :=
  let s0 : St := { wrSys := fun _ => 4000000000, ewrSys := fun _ => 4000000000 }
  let r1 := sc.wrs.foldl (sc.addSys false) (s0, 0)
  let r2 := sc.ewrs.foldl (sc.addSys true) (r1.1, 0)
  r2.1

/-! ### canonical text -/

def showName (s : St) (x : Nat) : String :=
  match indexOf? s.sysNames x with
  | some k => s!"s{k}"
  | none =>
    match indexOf? s.entNames x with
    | some k => s!"e{k}"
    | none => "?"

def showOpt (o : Option Nat) : String := match o with | some v => toString v | none => "-"
def showOptName (s : St) (o : Option Nat) : String := match o with | some v => showName s v | none => "-"

def commaSep (l : List String) : String := ",".intercalate l

def showObs (s : St) (o : Obs) : String :=
  let ev := o.ev.map (fun x => match x with | some (t, p) => s!"{showName s t}:{p}" | none => "-")
  let loc := o.loc.map (fun x => match x with | some (e, v) => s!"{showName s e}:{v}" | none => "-")
  s!"se={commaSep (o.sysEv.map showOpt)} se2={commaSep (o.sysEv2.map showOpt)} bc={commaSep (o.bc.map showOpt)} ev={commaSep ev} ins={commaSep (o.insE.map (fun x => match x with | some e => (if s.alive e then showName s e else showName s e ++ "!") | none => "-"))} mut={commaSep (o.mutE.map (showOptName s))} rem={commaSep (o.remE.map (showOptName s))} dsp={showOptName s o.dsp} loc={commaSep loc}"

def showOwner (o : Nat) : String := if o ≥ 1000000 then s!"top{o - 1000000}" else s!"s{o}"

def showMarker (m : Marker) : String :=
  s!"{if m.plus then "m+" else "m-"} {showOwner m.owner} {m.run} {m.act}"

def showEv (s : St) : Ev → String
  | .top i => s!"top {i}"
  | .marker m => showMarker m
  | .body sys run obs => s!"body {showName s sys} r{run} {showObs s obs}"
  | .bodyEnd sys => s!"bodyend {showName s sys}"
  | .ret v => s!"ret {showOpt v}"
  | .send pid => s!"send p{pid}"
  | .dropPayload pid => s!"drop p{pid}"
  | .expect sys obs => s!"ghost expect {showName s sys} {showObs s obs}"
  | .misclaim sys => s!"ghost misclaim {showName s sys}"
  | .insNoop e ty => s!"ghost insnoop {showName s e} {ty}"
  | .canary sys => s!"canary {showName s sys}"
  | .noCanary sys => s!"ghost nocanary {showName s sys}"
  | .applied sys => s!"applied {showName s sys}"
  | .abortNoEntity sys => s!"abortnoentity {showName s sys}"
  | .abortNoStorage sys => s!"abortnostorage {showName s sys}"
  | .abortRoot sys => s!"abortroot {showName s sys}"
  | .postponed sys => s!"postponed {showName s sys}"
  | .enter sys => s!"enter {showName s sys}"
  | .exit sys => s!"exit {showName s sys}"
  | .reinserted sys => s!"reinserted {showName s sys}"
  | .dropped sys => s!"dropped {showName s sys}"
  | .replay sys => s!"replay {showName s sys}"
  | .discard sys => s!"discard {showName s sys}"
  | .ret_ sys => s!"return {showName s sys}"

def bit (b : Bool) : String := if b then "1" else "0"

def showHandle (s : St) (h : Handle) : String :=
  match h.arc with
  | none => showName s h.sys
  | some a => s!"{showName s h.sys}:{s.arcRc a}"

/-- The systems made by `ReactCommands::once` so far (printed once, at the end of the trace: the C15 specification on the
    implementation's trace needs to know which systems are one-off reactors). -/
def showOnces (s : St) : String :=
  "onces" ++ String.join ((s.sysNames.filter (fun e => ((s.info e).once).isSome)).map (fun e => " " ++ showName s e))

/-- The quiescent snapshot lines (compared with the hook snapshot of the implementation). -/
def showQuiescent (s : St) : List String :=
  let named := s.entNames ++ s.sysNames
  let tys := List.range numTy
  let qa := s!"qa {String.join (s.entNames.map (fun e => bit (s.alive e)))} {String.join (s.sysNames.map (fun e => bit (s.alive e)))}"
  let qc := "qc " ++ commaSep (named.map (fun e => "/".intercalate (tys.map (fun ty => showOpt (alookup (s.comp e) ty)))))
  let qr := "qr " ++ commaSep (tys.map (fun ty => toString (s.res ty)))
  let taken := (List.range s.nextEnt).filter (fun e => s.alive e && s.storage e == some false)
  let qs := s!"qs counter={s.counter} buffered={s.buffered.length} se={bit s.trkSys.reacting}/{s.trkSys.prepared.length} ev={bit s.trkEvt.reacting}/{s.trkEvt.prepared.length} er={bit s.trkEnt.reacting}/{s.trkEnt.prepared.length} de={bit s.trkDsp.reacting}/{s.trkDsp.prepared.length} held={bit s.trkDsp.curHandle.isSome} taken={taken.length}"
  let tname : Tbl → String := fun t => match t with
    | .ins => "ins" | .mut => "mut" | .rem => "rem" | .anyEv => "anyev" | .res => "res" | .bc => "bc"
  let tw := ([Tbl.ins, .mut, .rem, .anyEv, .res, .bc].flatMap (fun t => tys.filterMap (fun ty =>
    let l := s.tbl t ty
    if l.isEmpty then none else some s!"{tname t}{ty}=[{commaSep (l.map (showHandle s))}]")))
  let dsp := named.filterMap (fun e =>
    let l := s.tblDsp e
    if l.isEmpty then none else some s!"dsp:{showName s e}=[{commaSep (l.map (showHandle s))}]")
  let kname : RKind → String := fun k => match k with | .ins => "eins" | .mut => "emut" | .rem => "erem" | .ev => "eev"
  let ent := named.flatMap (fun e =>
    match s.entReactors e with
    | none => []
    | some l => [RKind.ins, .mut, .rem, .ev].flatMap (fun k => tys.filterMap (fun ty =>
        let m := l.filter (fun p => p.1 == (⟨k, ty⟩ : RType))
        if m.isEmpty then none else some s!"{kname k}:{showName s e}:{ty}=[{commaSep (m.map (fun p => showHandle s p.2))}]")))
  let qt := "qt " ++ " ".intercalate (tw ++ dsp ++ ent)
  let extra := (List.range s.nextEnt).filter (fun e => s.alive e && !(named.contains e))
  let qx := s!"qx {extra.length}"
  let ql := "ql " ++ commaSep (named.map (fun e => String.join ((List.range numTy).map (fun wr => bit (alookup (s.ewLocal e) wr).isSome))))
  let qk := "qk " ++ commaSep (s.tracked.map toString)
  [qa, qc, qr, qs, qt, qx, ql, qk]

end Cobweb
