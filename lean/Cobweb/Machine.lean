/-
  Cobweb.Machine — the small-step abstract machine: body-time effects of API calls (`enqueue`), application of
  one command (`applyCmd`), and `step`, a single non-recursive match on the top continuation frame.
-/
import Cobweb.State

namespace Cobweb

/-- User programs: the `i`-th API call of the body of system `sys`, as an arbitrary function of the whole state. -/
abbrev Prog := Nat → Nat → St → Option Act

/-- Top-level histories: the `t`-th operation, and for `TopOp.acts` its `i`-th API call. -/
structure Hist where
  op : Nat → St → Option TopOp
  act : Nat → Nat → St → Option Act

/-! ### body-time effects of API calls -/

/-- Triggers of the entity world reactor `wr` for entity `e` (`<T as EntityWorldReactor>::Triggers::new_bundle`). -/
def ewrBundle (wr e : Nat) : List Trig :=
  if wr = 0 then [.eMut e 0, .eEv e 0] else [.eIns e 1, .eRem e 1, .eEv e 1]

def uniqueEntities : List Trig → List Nat → List Nat
  | [], _ => []
  | t :: ts, seen =>
    let e? := match t with
      | .dsp e => some e
      | _ => (rtOfTrig t).map (·.2)
    match e? with
    | some e => if seen.contains e then uniqueEntities ts seen else e :: uniqueEntities ts (e :: seen)
    | none => uniqueEntities ts seen

/-- What calling the API does *while the body runs*: checks, reservations, immediate writes; returns the commands
    it queues. -/
def enqueue (s : St) (a : Act) : St × List Cmd :=
  match a with
  | .nop => (s, [])
  | .flushWorld => (s, [])
  | .runNow t => (s, [.run t])          -- anywhere but in an exclusive body: the queued form
  | .marker m => (s, [.marker m])
  | .spawn =>
    let (e, s) := s.fresh
    ({ s with entNames := s.entNames ++ [e] }, [])
  | .spawnSys d excl =>
    let (e, s) := s.fresh
    ({ s with sysNames := s.sysNames ++ [e], info := upd s.info e { defn := d, excl := excl } }, [.spawnStorage e])
  | .on mode d excl trigs =>
    let (e, s) := s.fresh
    let s := { s with sysNames := s.sysNames ++ [e], info := upd s.info e { defn := d, excl := excl } }
    let s := if mode = .revokable then { s with tokens := s.tokens ++ [(e, trigs)] } else s
    (s, [.spawnStorage e, .register trigs e mode])
  | .withT mode sys trigs =>
    let s := if mode = .revokable then { s with tokens := s.tokens ++ [(sys, trigs)] } else s
    (s, [.register trigs sys mode])
  | .once d trigs =>
    let (e, s) := s.fresh
    let s := { s with sysNames := s.sysNames ++ [e], info := upd s.info e { defn := d, once := some trigs },
                      tokens := s.tokens ++ [(e, trigs)] }
    (s, [.register trigs e .revokable, .insertOnce e])
  | .onceFn d trigs =>
    -- `once` with a zero-sized function item: the same wrapper, nothing to drop with it
    let (e, s) := s.fresh
    let s := { s with sysNames := s.sysNames ++ [e], info := upd s.info e { defn := d, once := some trigs, zst := true },
                      tokens := s.tokens ++ [(e, trigs)] }
    (s, [.register trigs e .revokable, .insertOnce e])
  | .revoke sys trigs => (s, [.revoke sys trigs])
  | .run sys => (s, [.run sys])
  | .sysEvent sys ty pid =>
    let (d, s) := (s.emit (.send pid)).fresh
    (s, [.spawnData d { kind := .sys, ty := ty, pid := pid, target := 0, cnt := 0, taken := false }, .sysEvent sys d])
  | .broadcast ty pid => (s.emit (.send pid), [.broadcast ty pid])
  | .entityEvent e ty pid => (s.emit (.send pid), [.entityEvent e ty pid])
  | .resMut ty => (s, [.resMut ty])
  | .resSet ty v neq =>
    if neq then
      if s.res ty = v then (s.emit (.ret none), [])
      else (({ s with res := upd s.res ty v }).emit (.ret (some (s.res ty))), [.resMut ty])
    else ({ s with res := upd s.res ty v }, [.resMut ty])
  | .resRead ty => (s.emit (.ret (some (s.res ty))), [])
  | .insert e ty v => if s.alive e then (s, [.tryInsert e ty v, .insReact e ty]) else (s, [])
  | .mutate e ty v =>
    match alookup (s.comp e) ty with
    | some _ => ({ s with comp := upd s.comp e (aset (s.comp e) ty v) }, [.mutReact e ty])
    | none => (s, [])
  | .setNeq e ty v =>
    match alookup (s.comp e) ty with
    | some old =>
      if old = v then (s.emit (.ret none), [])
      else (({ s with comp := upd s.comp e (aset (s.comp e) ty v) }).emit (.ret (some old)), [.mutReact e ty])
    | none => (s.emit (.ret none), [])
  | .readComp e ty => (s.emit (.ret (alookup (s.comp e) ty)), [])
  | .remove e ty => if s.alive e then (s, [.removeComp e ty]) else (s, [])
  | .despawn e => if s.alive e then (s, [.despawn e]) else (s, [])
  | .despawnRec e => if s.alive e then (s, [.despawnRec e]) else (s, [])
  | .ewrAdd wr e v =>
    -- `EntityCommands::add_world_reactor` queues a syscall; `EntityReactor::add` looks the entity up again when it runs
    if s.alive e then (s, [.ewrAdd e wr v (s.ewrSys wr)]) else (s, [])
  | .ewrAddNow wr e v =>
    -- `EntityReactor::add` called by the body itself: the entity is looked up now; the local data (`try_insert`) and the
    -- registration (`ReactCommands::with`, persistent) are queued behind whatever the body queued before
    if s.alive e then (s, [.ewrInsertLocal e wr v, .register (ewrBundle wr e) (s.ewrSys wr) .persistent]) else (s, [])
  | .ewrRemove wr trigs =>
    (s, [.revoke (s.ewrSys wr) trigs] ++ (uniqueEntities trigs []).map (fun e => Cmd.ewrCleanupData (s.ewrSys wr) e wr))
  | .wrAdd wr trigs => (s, [.register trigs (s.wrSys wr) .persistent])
  | .wrRemove wr trigs => (s, [.revoke (s.wrSys wr) trigs])
  | .wrRun wr => (s, [.run (s.wrSys wr)])
  | .mutNoReact e ty v =>
    match alookup (s.comp e) ty with
    | some _ => ({ s with comp := upd s.comp e (aset (s.comp e) ty v) }, [])
    | none => (s, [])
  | .resNoReact ty v => ({ s with res := upd s.res ty v }, [])

/-! ### applying one command -/

/-- Which entity world reactor (if any) a system entity is. -/
def ewrOf (s : St) (sys : Nat) : Option Nat :=
  if s.ewrSys 0 = sys then some 0 else if s.ewrSys 1 = sys then some 1 else none

/-- Applies one command. Non re-entrant commands complete here; the others push continuation frames.
    (The caller pushes the `flush` that follows every command.) -/
def applyCmd (s : St) (c : Cmd) : St :=
  match c with
  | .marker m => s.emit (.marker m)
  | .run sys => s.push [.runnerStart sys .plain]
  | .sysEvent sys d =>
    ({ s with trkSys := { s.trkSys with prepared := s.trkSys.prepared ++ [(sys, d)] } }).push [.runnerStart sys (.sysEv d)]
  | .reactRes sys => s.push [.runnerStart sys .plain]
  | .reactEnt src rt sys =>
    ({ s with trkEnt := { s.trkEnt with prepared := s.trkEnt.prepared ++ [(sys, src, rt)] } }).push [.runnerStart sys (.entReact src rt)]
  | .reactDsp src sys h =>
    ({ s with trkDsp := { s.trkDsp with prepared := s.trkDsp.prepared ++ [(sys, src, h)] } }).push [.runnerStart sys (.dspReact src h)]
  | .reactEv target d sys =>
    ({ s with trkEnt := { s.trkEnt with prepared := s.trkEnt.prepared ++ [(sys, target, evUnit)] },
              trkEvt := { s.trkEvt with prepared := s.trkEvt.prepared ++ [(sys, d)] } }).push [.runnerStart sys (.entEv target d)]
  | .reactBc d sys =>
    ({ s with trkEvt := { s.trkEvt with prepared := s.trkEvt.prepared ++ [(sys, d)] } }).push [.runnerStart sys (.bcEv d)]
  -- `commands.spawn(SystemCommandStorage)` targets a freshly reserved entity, which never has the component yet
  | .spawnStorage sys =>
    if s.alive sys ∧ s.storage sys = none then { s with storage := upd s.storage sys (some true) } else s
  | .insertOnce sys =>
    if s.alive sys ∧ s.storage sys = none then { s with storage := upd s.storage sys (some true) }
    else s.emit (canaryEv s sys)
  | .spawnData d x => if s.alive d then { s with data := upd s.data d (some x) } else s.emit (.dropPayload x.pid)
  | .broadcast ty pid =>
    let hs := s.tbl .bc ty
    if hs.isEmpty then s.emit (.dropPayload pid) else
    let (d, s) := s.fresh
    let x : DataEnt := { kind := .bc, ty := ty, pid := pid, target := 0, cnt := hs.length, taken := false }
    s.push [.flush, .batch (Cmd.spawnData d x :: hs.map (fun h => Cmd.reactBc d h.sys))]
  | .entityEvent e ty pid =>
    let ls := entListeners s e ⟨.ev, ty⟩
    let hs := s.tbl .anyEv ty
    if ls.length + hs.length = 0 then s.emit (.dropPayload pid) else
    let (d, s) := s.fresh
    let x : DataEnt := { kind := .ev, ty := ty, pid := pid, target := e, cnt := ls.length + hs.length, taken := false }
    s.push [.flush, .batch (Cmd.spawnData d x :: (ls.map (fun r => Cmd.reactEv e d r) ++ hs.map (fun h => Cmd.reactEv e d h.sys)))]
  | .resMut ty => s.push [.flush, .batch ((s.tbl .res ty).map (fun h => Cmd.reactRes h.sys))]
  | .tryInsert e ty v => if s.alive e then { s with comp := upd s.comp e (aset (s.comp e) ty v) } else s
  | .insReact e ty =>
    -- (after the F2 fix) react only if the component was actually inserted
    if (alookup (s.comp e) ty).isNone then s.emit (.insNoop e ty) else
    let rt : RType := ⟨.ins, ty⟩
    s.push [.flush, .batch ((entListeners s e rt).map (fun r => Cmd.reactEnt e rt r) ++ (s.tbl .ins ty).map (fun h => Cmd.reactEnt e rt h.sys))]
  | .mutReact e ty =>
    let rt : RType := ⟨.mut, ty⟩
    s.push [.flush, .batch ((entListeners s e rt).map (fun r => Cmd.reactEnt e rt r) ++ (s.tbl .mut ty).map (fun h => Cmd.reactEnt e rt h.sys))]
  | .register trigs sys mode =>
    -- `register_reactors`: prepare the handle, queue one sub-syscall per trigger (each owning a clone), drop the
    -- original when the system function returns, then apply the sub-syscalls.
    match mode with
    | .persistent =>
      let (s, cs) := regAll s ⟨sys, none⟩ trigs
      s.push [.flush, .batch cs]
    | _ =>
      let (a, s) := newArc s sys
      let h : Handle := ⟨sys, some a⟩
      let (s, cs) := regAll s h trigs
      let s := dropHandle s h
      s.push [.flush, .batch cs]
  | .regType t ty h =>
    -- `register_removal_reactor` also starts tracking removals of the component type
    let s : St := if t = .rem ∧ !s.tracked.contains ty then { s with tracked := s.tracked ++ [ty] } else s
    setTbl s t ty (s.tbl t ty ++ [h])
  | .regEnt rt e h =>
    match s.entReactors e with
    | some l => { s with entReactors := upd s.entReactors e (some (l ++ [(rt, h)])) }
    | none => if s.alive e then { s with entReactors := upd s.entReactors e (some [(rt, h)]) } else dropHandle s h
  | .regDsp e h =>
    if s.alive e then { s with tblDsp := upd s.tblDsp e (s.tblDsp e ++ [h]), dspTracker := upd s.dspTracker e true }
    else dropHandle s h
  | .trackRemovals ty => if s.tracked.contains ty then s else { s with tracked := s.tracked ++ [ty] }
  | .revoke sys trigs => revokeAll s sys trigs
  | .despawn e => despawn1 s e
  | .despawnRec e => s.push [.despawnWork [(e, false)]]
  | .removeComp e ty =>
    match alookup (s.comp e) ty with
    | some _ => { s with comp := upd s.comp e (aerase (s.comp e) ty), removedBuf := upd s.removedBuf ty (s.removedBuf ty ++ [e]) }
    | none => s
  | .cleanup k => cleanupK s k
  | .ewrInsertLocal e wr v => if s.alive e then { s with ewLocal := upd s.ewLocal e (aset (s.ewLocal e) wr v) } else s
  | .ewrCleanupData sys e wr =>
    match s.entReactors e with
    | some l => if l.any (fun p => p.2.sys == sys) then s else { s with ewLocal := upd s.ewLocal e (aerase (s.ewLocal e) wr) }
    | none => s
  | .ewrAdd e wr v sys =>
    -- `EntityReactor::add`: nothing if the entity is gone by now, otherwise the local data and the registration
    if s.alive e then s.push [.flush, .batch [.ewrInsertLocal e wr v, .register (ewrBundle wr e) sys .persistent]] else s

/-! ### the step function -/

/-- Pushes the frames of `cleanup_on_abort`. -/
def abortFrames (sys : Nat) (k : Kind) : List Frame := [.abort sys k, .gc, .poll]

/-! Each frame's transition is a named function of the *popped* state, so that invariants are proved frame by frame. -/

def doBatch (s : St) : List Cmd → St
  | [] => s
  | c :: cs => applyCmd (s.push [.flush, .batch cs]) c

def doFlush (s : St) : St := if s.wq.isEmpty then s else ({ s with wq := [] }).push [.batch s.wq]

def doBodyActs (p : Prog) (s : St) (sys : Nat) (k : Kind) (i : Nat) (acc : List Cmd) : St :=
  match p sys i s with
  | none => (s.emit (.bodyEnd sys)).push [.cleanup k, .flush, .batch acc]
  | some a => (enqueue s a).1.push [.bodyActs sys k (i + 1) (acc ++ (enqueue s a).2)]

def doExclActs (p : Prog) (s : St) (sys : Nat) (i : Nat) : St :=
  match p sys i s with
  | none => (s.emit (.bodyEnd sys)).push [.flush]
  -- an explicit `world.flush()` (also what every `World`-level sender does) applies what is queued so far — the run's own
  -- cleanup first, which `run_initialized_system` queued before the body — and then the body goes on
  -- a command applied in-line: the runner starts over whatever the body has queued (its own clean-up first), and the
  -- runner's poll flushes that before the target is looked up
  | some (.runNow t) => s.push [.runnerStart t .plain, .exclActs sys (i + 1)]
  | some a => ({ (enqueue s a).1 with wq := (enqueue s a).1.wq ++ (enqueue s a).2 }).push
      (if a = Act.flushWorld then [Frame.flush, Frame.exclActs sys (i + 1)] else [Frame.exclActs sys (i + 1)])

def doTopActs (h : Hist) (s : St) (t i : Nat) : St :=
  match h.act t i s with
  | none => s.push [.flush]
  | some a => ({ (enqueue s a).1 with wq := (enqueue s a).1.wq ++ (enqueue s a).2 }).push [.topActs t (i + 1)]

/-- `world.get_entity_mut(entity).ok().map(|e| e.despawn()); world.react(|rc| rc.revoke(token))`, then the wrapped
    system (and what it captured) is dropped. -/
def doOnceTail (s : St) (sys : Nat) : St :=
  let s := despawn1 s sys
  ({ s with wq := s.wq ++ [Cmd.revoke sys (((s.info sys).once).getD [])] }).push [.flush, .dropCallback sys]

def doRunnerStart (s : St) (sys : Nat) (k : Kind) : St :=
  (s.emit (.applied sys)).push [.gc, .poll, .runnerLookup sys k s.counter]

/-- `setup`, then the ghost events: whether the claim was exact and what the readers should return. -/
def preBody (s : St) (sys : Nat) (k : Kind) : St :=
  let s := (setupK s k sys).emit (.enter sys)
  let s := if claimedOwn s k then s else s.emit (.misclaim sys)
  s.emit (.expect sys (expectObs s k (ewrOf s sys)))

/-- Prologue of a body: `setup`, then the first statement of the scripted system samples every reader; the run is
    counted (`Local`), taken system-event payloads are dropped by the body. -/
def startBody (s : St) (sys : Nat) (k : Kind) : St :=
  let s := preBody s sys k
  let inf := s.info sys
  let r := observe s (ewrOf s sys)
  let s : St := { r.2 with info := upd r.2.info sys { inf with onceTaken := inf.once.isSome || inf.onceTaken, nruns := inf.nruns + 1 } }
  let s := s.emit (.body sys inf.nruns r.1)
  (r.1.sysEv.filterMap id).foldl (fun (s : St) pid => s.emit (.dropPayload pid)) s

def doRunnerLookup (s : St) (sys : Nat) (k : Kind) (idx : Nat) : St :=
  if !s.alive sys then (s.emit (.abortNoEntity sys)).push (abortFrames sys k) else
  match s.storage sys with
  | none => (s.emit (.abortNoStorage sys)).push (abortFrames sys k)
  | some false =>
    if idx = 0 then (s.emit (.abortRoot sys)).push (abortFrames sys k)
    else ({ s with buffered := s.buffered ++ [(sys, k)] }).emit (.postponed sys)
  | some true =>
    let s : St := { s with storage := upd s.storage sys (some false), counter := s.counter + 1 }
    let inf := s.info sys
    if inf.once.isSome && inf.onceTaken then
      -- the `once` wrapper finds its inner system gone: nothing runs (not even the cleanup)
      ((setupK s k sys).emit (.enter sys)).push [.afterBody sys idx]
    else
      let s := startBody s sys k
      if inf.once.isSome then s.push [.bodyActs sys k 0 [], .onceTail sys, .afterBody sys idx]
      else if inf.excl then ({ s with wq := s.wq ++ [Cmd.cleanup k] }).push [.exclActs sys 0, .afterBody sys idx]
      else s.push [.bodyActs sys k 0 [], .afterBody sys idx]

def doAfterBody (s : St) (sys idx : Nat) : St := (s.emit (.exit sys)).push [.gc, .reinsert sys idx]

/-- Reinsert the callback if its entity survived, otherwise drop it; then poll and replay. -/
def doReinsert (s : St) (sys idx : Nat) : St :=
  match s.alive sys, s.storage sys with
  | true, some _ =>
    (({ s with storage := upd s.storage sys (some true) } : St).emit (.reinserted sys)).push [.poll, .replayTake sys idx]
  | true, none =>
    let s := s.emit (.dropped sys)
    let s := if (s.info sys).once.isSome then s else s.emit (canaryEv s sys)
    s.push [.despawnWork [(sys, false)], .gc, .poll, .replayTake sys idx]
  | false, _ =>
    let s := s.emit (.dropped sys)
    let s := if (s.info sys).once.isSome then s else s.emit (canaryEv s sys)
    s.push [.gc, .poll, .replayTake sys idx]

def doReplayTake (s : St) (sys idx : Nat) : St := ({ s with buffered := [] }).push [.replayLoop sys s.buffered [] idx]

def doReplayLoop (s : St) (sys : Nat) (rest kept : List (Nat × Kind)) (idx : Nat) : St :=
  match rest with
  | [] => ({ s with buffered := s.buffered ++ kept }).push [.finish sys idx]
  | b :: bs =>
    if b.1 = sys then (s.emit (.replay sys)).push [.runnerStart b.1 b.2, .replayLoop sys bs kept idx]
    else s.push [.replayLoop sys bs (kept ++ [b]) idx]

def doFinish (s : St) (sys idx : Nat) : St :=
  if idx = 0 then
    match s.buffered with
    | [] => ({ s with counter := 0 }).emit (.ret_ sys)
    | b :: bs => (({ s with buffered := bs }).emit (.discard b.1)).push (abortFrames b.1 b.2 ++ [Frame.finish sys idx])
  else s.emit (.ret_ sys)

def doGc (s : St) : St :=
  match s.autoChan with
  | [] => s
  | e :: es => ({ s with autoChan := es }).push [.despawnWork [(e, false)], .gc]

def doDespawnWork (s : St) : List (Nat × Bool) → St
  | [] => s
  | (e, expanded) :: work =>
    if expanded then
      -- `World::despawn` flushes the world queue before it removes the entity
      if s.wq.isEmpty then (despawn1 s e).push [.despawnWork work]
      else s.push [.flush, .despawnWork ((e, true) :: work)]
    else if s.alive e then
      ({ s with children := upd s.children e [] }).push [.despawnWork ((s.children e).map (fun c => (c, false)) ++ (e, true) :: work)]
    else s.push [.despawnWork work]

def doPoll (s : St) : St :=
  let r1 := pollRemovals s
  let r2 := pollDespawns r1.1
  ({ r2.1 with wq := r2.1.wq ++ r1.2 ++ r2.2 }).push [.flush]

/-- Runs frame `f` on the popped state `s`. -/
def runFrame (p : Prog) (h : Hist) (s : St) : Frame → St
  | .batch cs => doBatch s cs
  | .flush => doFlush s
  | .bodyActs sys k i acc => doBodyActs p s sys k i acc
  | .exclActs sys i => doExclActs p s sys i
  | .topActs t i => doTopActs h s t i
  | .cleanup k => cleanupK s k
  | .onceTail sys => doOnceTail s sys
  | .dropCallback sys => s.emit (canaryEv s sys)
  | .runnerStart sys k => doRunnerStart s sys k
  | .runnerLookup sys k idx => doRunnerLookup s sys k idx
  | .afterBody sys idx => doAfterBody s sys idx
  | .reinsert sys idx => doReinsert s sys idx
  | .replayTake sys idx => doReplayTake s sys idx
  | .replayLoop sys rest kept idx => doReplayLoop s sys rest kept idx
  | .finish sys idx => doFinish s sys idx
  | .abort sys k => cleanupK (setupK s k sys) k
  | .gc => doGc s
  | .despawnWork work => doDespawnWork s work
  | .poll => doPoll s

/-- One step: pop the top frame and run it. `none` iff the stack is empty. -/
def step (p : Prog) (h : Hist) (s0 : St) : Option St :=
  match s0.stack with
  | [] => none
  | f :: rest => some (runFrame p h { s0 with stack := rest } f)

end Cobweb
