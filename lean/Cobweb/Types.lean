/-
  Cobweb.Types — data of the abstract machine that models bevy_cobweb's react framework.

  Everything is first-order data over `Nat` (entities, component/event/resource types, payload ids, values),
  plus functions `Nat → α` with pointwise update. No Mathlib, no `partial`, no `unsafe`.
-/

namespace Cobweb

/-- Pointwise update of a function. -/
def upd {β : Type} (f : Nat → β) (a : Nat) (b : β) : Nat → β := fun x => if x = a then b else f x

@[simp] theorem upd_same {β : Type} (f : Nat → β) (a : Nat) (b : β) : upd f a b a = b := by simp [upd]
@[simp] theorem upd_other {β : Type} (f : Nat → β) (a x : Nat) (b : β) (h : x ≠ a) : upd f a b x = f x := by
  simp [upd, h]

/-- Kind of an entity reaction (`EntityReactionType` without its `TypeId`). -/
inductive RKind | ins | mut | rem | ev
deriving DecidableEq, Repr, Inhabited

/-- `EntityReactionType`. -/
structure RType where
  kind : RKind
  ty : Nat
deriving DecidableEq, Repr, Inhabited

/-- `ReactorHandle`: `arc = none` is `Persistent`, `arc = some a` is `AutoDespawn` holding one clone of arc `a`. -/
structure Handle where
  sys : Nat
  arc : Option Nat
deriving DecidableEq, Repr, Inhabited

/-- `ReactorType` (the entries of a `RevokeToken`, and the triggers of a bundle). -/
inductive Trig
  | eIns (e ty : Nat) | eMut (e ty : Nat) | eRem (e ty : Nat) | eEv (e ty : Nat)
  | anyEv (ty : Nat) | cIns (ty : Nat) | cMut (ty : Nat) | cRem (ty : Nat)
  | res (ty : Nat) | bc (ty : Nat) | dsp (e : Nat)
deriving DecidableEq, Repr, Inhabited

/-- `ReactorMode`. -/
inductive Mode | persistent | cleanup | revokable
deriving DecidableEq, Repr, Inhabited

/-- The (setup, cleanup) function-pointer pair a system command is run with. The arguments are *ghost*: the metadata
    the command prepared when it was applied. The Rust command carries only the two function pointers; `setupK` and
    `cleanupK` ignore the arguments, which exist so that specifications can say "its own event". -/
inductive Kind
  | plain
  | sysEv (d : Nat)
  | entReact (src : Nat) (rt : RType)
  | dspReact (src : Nat) (h : Handle)
  | entEv (target d : Nat)
  | bcEv (d : Nat)
deriving DecidableEq, Repr, Inhabited

/-- The seven type-wide registration tables of `ReactCache`. -/
inductive Tbl | ins | mut | rem | anyEv | res | bc
deriving DecidableEq, Repr, Inhabited

/-- Kind of event data stored on a data entity. -/
inductive DKind | sys | bc | ev
deriving DecidableEq, Repr, Inhabited

/-- A data entity: `SystemEventData` / `BroadcastEventData` / `EntityEventData` plus `DataEntityCounter`. -/
structure DataEnt where
  kind : DKind
  ty : Nat
  pid : Nat
  target : Nat        -- entity events only
  cnt : Nat           -- `DataEntityCounter` (bc / ev only)
  taken : Bool        -- `SystemEventData.data` was taken
deriving DecidableEq, Repr, Inhabited

/-- Harness marker: brackets the commands of one scripted action. `sys = none` for top-level batches. -/
structure Marker where
  plus : Bool
  owner : Nat         -- name index of the system (or the top-level op index + 1000000)
  run : Nat
  act : Nat
deriving DecidableEq, Repr, Inhabited

/-- Everything that can sit in a Bevy command queue. -/
inductive Cmd
  | marker (m : Marker)
  | run (s : Nat)
  | sysEvent (s d : Nat)
  | reactRes (s : Nat)
  | reactEnt (src : Nat) (rt : RType) (s : Nat)
  | reactDsp (src s : Nat) (h : Handle)
  | reactEv (target d s : Nat)
  | reactBc (d s : Nat)
  | spawnStorage (s : Nat)
  | insertOnce (s : Nat)
  | spawnData (d : Nat) (x : DataEnt)
  | broadcast (ty pid : Nat)
  | entityEvent (e ty pid : Nat)
  | resMut (ty : Nat)
  | tryInsert (e ty v : Nat)
  | insReact (e ty : Nat)
  | mutReact (e ty : Nat)
  | register (trigs : List Trig) (s : Nat) (mode : Mode)
  | regType (t : Tbl) (ty : Nat) (h : Handle)
  | regEnt (rt : RType) (e : Nat) (h : Handle)
  | regDsp (e : Nat) (h : Handle)
  | trackRemovals (ty : Nat)
  | revoke (s : Nat) (trigs : List Trig)
  | despawn (e : Nat)
  | despawnRec (e : Nat)
  | removeComp (e ty : Nat)
  | cleanup (k : Kind)
  | ewrInsertLocal (e wr v : Nat)
  | ewrCleanupData (sys e wr : Nat)
  | ewrAdd (e wr v sys : Nat)
deriving DecidableEq, Repr, Inhabited

/-- What a scripted body (or a top-level batch) can call. Entity arguments are raw ids. -/
inductive Act
  | nop
  | marker (m : Marker)
  | spawn
  | spawnSys (d : Nat) (excl : Bool)
  | on (mode : Mode) (d : Nat) (excl : Bool) (trigs : List Trig)
  | withT (mode : Mode) (s : Nat) (trigs : List Trig)
  | once (d : Nat) (trigs : List Trig)
  | onceFn (d : Nat) (trigs : List Trig)
  | revoke (s : Nat) (trigs : List Trig)
  | run (s : Nat)
  | sysEvent (s ty pid : Nat)
  | broadcast (ty pid : Nat)
  | entityEvent (e ty pid : Nat)
  | resMut (ty : Nat)
  | resSet (ty v : Nat) (neq : Bool)
  | resRead (ty : Nat)
  | insert (e ty v : Nat)
  | mutate (e ty v : Nat)
  | setNeq (e ty v : Nat)
  | readComp (e ty : Nat)
  | remove (e ty : Nat)
  | despawn (e : Nat)
  | despawnRec (e : Nat)
  | ewrAdd (wr e v : Nat)
  | ewrAddNow (wr e v : Nat)
  | ewrRemove (wr : Nat) (trigs : List Trig)
  | wrAdd (wr : Nat) (trigs : List Trig)
  | wrRemove (wr : Nat) (trigs : List Trig)
  | wrRun (wr : Nat)
  | mutNoReact (e ty v : Nat)            -- `ReactiveMut::get_noreact`: write without triggering
  | resNoReact (ty v : Nat)              -- `ReactResMut::get_noreact`
  | flushWorld                           -- `world.flush()` called by an exclusive system in the middle of its body
  | runNow (s : Nat)                     -- `SystemCommand::apply(world)` called in-line by an exclusive system (no flush first)
deriving DecidableEq, Repr, Inhabited

/-- Top-level operations performed by the harness between reaction trees (stack empty). -/
inductive TopOp
  | acts                                  -- `world.commands()` ... `world.flush()`; the acts come from the history
  | wDespawn (e : Nat)
  | wDespawnRec (e : Nat)
  | wRemove (e ty : Nat)
  | wInsertRaw (e ty v : Nat)             -- direct `world.entity_mut(e).insert(React{..})` (no reaction)
  | wSetParent (c p : Nat)
  | gc
  | poll
  | frameEnd                              -- `Last`: gc then poll
  | clearTrackers                         -- `World::clear_trackers` (the end of `App::update`): removal events age
  | wSysEvent (s ty pid : Nat)
  | wBroadcast (ty pid : Nat)
  | wEntityEvent (e ty pid : Nat)
  | sigPrepare (e : Nat)                  -- `AutoDespawner::prepare`
  | sigClone (a : Nat)
  | sigDrop (a : Nat)
  | sigThreads (a n : Nat)                -- clone `n` times, drop the clones on `n` worker threads while the main thread collects
deriving DecidableEq, Repr, Inhabited

/-- What the readers of a scripted body return (sampled by its first statement). -/
structure Obs where
  sysEv : List (Option Nat)              -- per payload type: taken pid
  sysEv2 : List (Option Nat)             -- second take in the same run
  bc : List (Option Nat)                 -- per event type: pid
  ev : List (Option (Nat × Nat))         -- per event type: (target, pid)
  insE : List (Option Nat)               -- per component type: source entity
  mutE : List (Option Nat)
  remE : List (Option Nat)
  dsp : Option Nat
  loc : List (Option (Nat × Nat))        -- per entity world reactor: EntityLocal (entity, value) when usable
deriving DecidableEq, Repr, Inhabited

/-- Observable / hook events. The trace is the list of these, newest first. -/
inductive Ev
  | top (i : Nat)
  | marker (m : Marker)
  | body (sys run : Nat) (obs : Obs)
  | bodyEnd (sys : Nat)
  | ret (v : Option Nat)
  | send (pid : Nat)
  | dropPayload (pid : Nat)
  | expect (sys : Nat) (obs : Obs)      -- ghost: what the readers should return for the command that caused this run
  | insNoop (e ty : Nat)                -- ghost: an insertion reaction was requested for an entity without the component
  | misclaim (sys : Nat)                -- ghost: a tracker `start` claimed metadata prepared by another command
  | canary (sys : Nat)
  | noCanary (sys : Nat)                 -- ghost: the state of a zero-sized system function is dropped (nothing observable)
  | applied (sys : Nat)
  | abortNoEntity (sys : Nat)
  | abortNoStorage (sys : Nat)
  | abortRoot (sys : Nat)
  | postponed (sys : Nat)
  | enter (sys : Nat)
  | exit (sys : Nat)
  | reinserted (sys : Nat)
  | dropped (sys : Nat)
  | replay (sys : Nat)
  | discard (sys : Nat)
  | ret_ (sys : Nat)
deriving DecidableEq, Repr, Inhabited

/-- `EventAccessTracker` / `SystemEventAccessTracker`. -/
structure TrkData where
  reacting : Bool := false
  cur : Nat := 0
  prepared : List (Nat × Nat) := []
deriving DecidableEq, Repr, Inhabited

/-- `EntityReactionAccessTracker`. -/
structure TrkEnt where
  reacting : Bool := false
  curSys : Nat := 0
  curSrc : Nat := 0
  curRt : RType := ⟨.ins, 0⟩
  prepared : List (Nat × Nat × RType) := []
deriving DecidableEq, Repr, Inhabited

/-- `DespawnAccessTracker`. -/
structure TrkDsp where
  reacting : Bool := false
  curSrc : Nat := 0
  curHandle : Option Handle := none
  prepared : List (Nat × Nat × Handle) := []
deriving DecidableEq, Repr, Inhabited

/-- Per-system ghost/program information. `storage` says whether the callback is present. -/
structure SysInfo where
  defn : Nat := 0
  excl : Bool := false
  once : Option (List Trig) := none      -- `once` wrapper with its revoke token
  zst : Bool := false                     -- made from a zero-sized function item (nothing is dropped visibly with it)
  onceTaken : Bool := false
  nruns : Nat := 0                        -- number of bodies started (the `Local` counter)
deriving DecidableEq, Repr, Inhabited

/-- Continuation frames: one constructor per resumable point of the Rust code. -/
inductive Frame
  | batch (cs : List Cmd)
  | flush
  | bodyActs (sys : Nat) (k : Kind) (i : Nat) (acc : List Cmd)
  | exclActs (sys : Nat) (i : Nat)
  | topActs (t : Nat) (i : Nat)
  | cleanup (k : Kind)
  | onceTail (sys : Nat)
  | runnerStart (sys : Nat) (k : Kind)
  | runnerLookup (sys : Nat) (k : Kind) (idx : Nat)
  | afterBody (sys : Nat) (idx : Nat)
  | dropCallback (sys : Nat)
  | reinsert (sys : Nat) (idx : Nat)
  | replayTake (sys : Nat) (idx : Nat)
  | replayLoop (sys : Nat) (rest kept : List (Nat × Kind)) (idx : Nat)
  | finish (sys : Nat) (idx : Nat)
  | abort (sys : Nat) (k : Kind)
  | gc
  | despawnWork (work : List (Nat × Bool))
  | poll
deriving DecidableEq, Repr, Inhabited

end Cobweb
