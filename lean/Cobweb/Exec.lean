/-
  Cobweb.Exec — running the machine: top-level operations are injected whenever the control stack is empty
  (quiescence); `exec` iterates `tick`.
-/
import Cobweb.Machine

namespace Cobweb

/-- Starts the `t`-th top-level operation on a quiescent state. -/
def startTop (s : St) (t : Nat) (op : TopOp) : St :=
  let s := s.emit (.top t)
  match op with
  | .acts => s.push [.topActs t 0]
  | .wDespawn e => despawn1 s e
  | .wDespawnRec e => s.push [.despawnWork [(e, false)]]
  | .wRemove e ty => applyCmd s (.removeComp e ty)
  | .wInsertRaw e ty v => applyCmd s (.tryInsert e ty v)
  | .wSetParent c p =>
    -- `set_parent`: the child leaves its previous parent's list and goes to the end of the new parent's list
    if s.alive c ∧ s.alive p ∧ c ≠ p then
      { s with children := fun x => if x = p then (s.children p).erase c ++ [c] else (s.children x).erase c }
    else s
  | .gc => s.push [.gc]
  | .poll => s.push [.poll]
  | .frameEnd => s.push [.gc, .poll]
  | .clearTrackers => clearTrackers s
  | .wSysEvent sys ty pid =>
    let (d, s) := (s.emit (.send pid)).fresh
    let s := { s with data := upd s.data d (some { kind := .sys, ty := ty, pid := pid, target := 0, cnt := 0, taken := false }) }
    applyCmd s (.sysEvent sys d)
  | .wBroadcast ty pid => applyCmd (s.emit (.send pid)) (.broadcast ty pid)
  | .wEntityEvent e ty pid => applyCmd (s.emit (.send pid)) (.entityEvent e ty pid)
  | .sigPrepare e =>
    let (a, s) := newArc s e
    { s with sigs := s.sigs ++ [a] }
  | .sigClone a => if s.arcRc a > 0 then cloneHandle s ⟨0, some a⟩ else s
  | .sigDrop a => if s.arcRc a > 0 then dropHandle s ⟨0, some a⟩ else s
  | .sigThreads _ _ => s.push [.gc]

/-- One tick: a machine step, or — at quiescence — the start of the next top-level operation. -/
def tick (p : Prog) (h : Hist) (s : St) : Option St :=
  match step p h s with
  | some s' => some s'
  | none =>
    match h.op s.topIdx s with
    | some op => some (startTop { s with topIdx := s.topIdx + 1 } s.topIdx op)
    | none => none

/-- `n` ticks (stops early when the history is exhausted at quiescence). -/
def exec (p : Prog) (h : Hist) : Nat → St → St
  | 0, s => s
  | n + 1, s =>
    match tick p h s with
    | some s' => exec p h n s'
    | none => s

/-- States reachable from `s0`. -/
inductive Reach (p : Prog) (h : Hist) (s0 : St) : St → Prop
  | refl : Reach p h s0 s0
  | tick {s s' : St} : Reach p h s0 s → tick p h s = some s' → Reach p h s0 s'

theorem reach_exec (p : Prog) (h : Hist) (s0 : St) (n : Nat) : Reach p h s0 (exec p h n s0) := by
  suffices ∀ n s, Reach p h s0 s → Reach p h s0 (exec p h n s) from this n s0 .refl
  intro n
  induction n with
  | zero => intro s hs; simpa [exec] using hs
  | succ n ih =>
    intro s hs
    unfold exec
    cases ht : tick p h s with
    | none => simpa using hs
    | some s' => simpa using ih s' (.tick hs ht)

end Cobweb
