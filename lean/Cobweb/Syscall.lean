/-
  Cobweb.Syscall — model of the syscall family (`syscall`, `named_syscall`, `spawned_syscall`): three keyed stores of
  cached systems with take / run / apply-deferred / put-back, nested and queued calls. Fuel bounds the nesting depth.
-/
namespace Cobweb.Sc

inductive SKind | f | n | s | o | m
deriving DecidableEq, Repr, Inhabited

structure SCall where
  kind : SKind
  key : Nat
  input : Nat
deriving DecidableEq, Repr, Inhabited

/-- What a scripted system does: direct nested call (exclusive systems), queued call, queued write, queued despawn of a spawned system. -/
inductive SOp
  | d (c : SCall)
  | q (c : SCall)
  | w (v : Nat)
  | x (id : Nat)
  | g (key : Nat)                  -- queued `register_named_system(key, fresh system)`
  | v (key : Nat)                  -- queued `IdMappedSystems::revoke(key)`
deriving DecidableEq, Repr, Inhabited

inductive SEv
  | enter (k : SKind) (key run input : Nat)
  | write (v : Nat)
  | ret (k : SKind) (key v : Nat)
  | err (k : SKind) (key : Nat)
  | spawned (id defKey : Nat)
  | despawned (id : Nat)
  | capped (k : SKind) (key : Nat)
  | call (k : SKind) (key : Nat)
  | registered (key : Nat)
  | revoked (key : Nat)
deriving DecidableEq, Repr, Inhabited

def upd {β : Type} (f : Nat → β) (a : Nat) (b : β) : Nat → β := fun x => if x = a then b else f x

structure SSt where
  fstore : Nat → Option Nat := fun _ => none              -- `InitializedSystem<I,O,S>` resource (absent while running)
  nstore : Nat → Option (Option Nat) := fun _ => none     -- `IdMappedSystems` node: `some none` = taken
  sstore : Nat → Option (Option Nat) := fun _ => none     -- `SpawnedSystem` component: `none` = no such system
  sdef : Nat → Nat := fun _ => 0                          -- definition a spawned system was made from
  nspawn : Nat := 0
  wq : List SOp := []                                     -- the world command queue (exclusive systems queue here)
  ncalls : Nat := 0                                       -- harness: number of calls made (scenarios are capped)
  log : List SEv := []
  oof : Bool := false                                      -- ghost: the executor ran out of fuel somewhere

instance : Inhabited SSt := ⟨{}⟩

/-- Scripts: kind, definition key, run counter ↦ operations; and whether the definition is an exclusive system. -/
structure SProg where
  ops : SKind → Nat → Nat → List SOp
  excl : SKind → Nat → Bool

def SSt.emit (s : SSt) (e : SEv) : SSt := { s with log := e :: s.log }

inductive Task
  | call (c : SCall)
  | apply (op : SOp)
  | flush
deriving DecidableEq, Repr, Inhabited

def report (r : SSt × Option Nat) (c : SCall) : SSt :=
  match r.2 with
  | some v => r.1.emit (.ret c.kind c.key v)
  | none => r.1.emit (.err c.kind c.key)

/-- Harness cap on the number of calls per scenario (both sides skip a call operation beyond it). -/
def capMax : Nat := 150

/-- A call *operation* of a script or of the top level: skipped beyond the cap, otherwise performed and reported. -/
def tryCall (k : SSt → Task → SSt × Option Nat) (st : SSt) (c : SCall) : SSt :=
  if st.ncalls ≥ capMax then st.emit (.capped c.kind c.key)
  else report (k (({ st with ncalls := st.ncalls + 1 } : SSt).emit (.call c.kind c.key)) (.call c)) c

/-- Runs the body of a system whose `Local` counter is `cnt`. An ordinary system collects its commands in its own buffer:
    after the body the world queue is flushed, then the buffer is applied, each command followed by a flush. An exclusive
    system calls directly (`d`) and queues on the world queue, which is flushed when it returns — or earlier, by the
    `apply_deferred` of anything it calls. `k` is the recursive executor (less fuel). -/
def runBody (k : SSt → Task → SSt × Option Nat) (p : SProg) (st : SSt) (kind : SKind) (key defKey cnt input : Nat) :
    SSt × Nat :=
  let st := st.emit (.enter kind key cnt input)
  let ops := p.ops kind defKey cnt
  if p.excl kind defKey then
    let st := ops.foldl (fun (st : SSt) op =>
      match op with
      | .d c => tryCall k st c
      | other => { st with wq := st.wq ++ [other] }) st
    ((k st .flush).1, input * 100 + cnt)
  else
    let buf := ops.filter (fun op => match op with | .d _ => false | _ => true)
    let st := (k st .flush).1
    let st := buf.foldl (fun (st : SSt) op => (k (k st (.apply op)).1 .flush).1) st
    (st, input * 100 + cnt)

/-- The executor: a call through an entry point, the application of one queued command, or a flush of the world queue.
    `none` = error (spawned only) or out of fuel. -/
def exec (p : SProg) : Nat → SSt → Task → SSt × Option Nat
  | 0, st, .flush => (if st.wq.isEmpty then st else { st with oof := true }, none)   -- nothing to flush: nothing lost
  | 0, st, _ => ({ st with oof := true }, none)
  | fuel + 1, st, .flush =>
    match st.wq with
    | [] => (st, none)
    | batch => (batch.foldl (fun (st : SSt) op => (exec p fuel (exec p fuel st (.apply op)).1 .flush).1) { st with wq := [] }, none)
  | fuel + 1, st, .apply op =>
    match op with
    | .q c => (tryCall (exec p fuel) st c, none)
    | .w v => (st.emit (.write v), none)
    | .x id => (({ st with sstore := upd st.sstore id none } : SSt).emit (.despawned id), none)
    -- `register_named_system`: the slot gets a fresh system, whatever it held (also while the key's system is running)
    | .g key => (({ st with nstore := upd st.nstore key (some (some 0)) } : SSt).emit (.registered key), none)
    -- `revoke`: the slot is removed
    | .v key => (({ st with nstore := upd st.nstore key none } : SSt).emit (.revoked key), none)
    | .d _ => (st, none)
  | fuel + 1, st, .call c =>
    match c.kind with
    | .f =>
      -- take the resource (absent ⇒ a fresh system), run, insert the resource (overwrites)
      let cnt := (st.fstore c.key).getD 0
      let st := { st with fstore := upd st.fstore c.key none }
      let r := runBody (exec p fuel) p st .f c.key c.key cnt c.input
      ({ r.1 with fstore := upd r.1.fstore c.key (some (cnt + 1)) }, some r.2)
    | .n =>
      let cnt := match st.nstore c.key with
        | some (some n) => n
        | _ => 0
      let st := match st.nstore c.key with
        | some _ => { st with nstore := upd st.nstore c.key (some none) }
        | none => st
      let r := runBody (exec p fuel) p st .n c.key c.key cnt c.input
      ({ r.1 with nstore := upd r.1.nstore c.key (some (some (cnt + 1))) }, some r.2)
    | .o =>
      -- `syscall_once`: the function of `syscall` key `c.key`, built and initialised afresh, run, and thrown away; the
      -- cached system of the key is neither used nor touched
      let r := runBody (exec p fuel) p st .f c.key c.key 0 c.input
      (r.1, some r.2)
    | .m =>
      -- `named_syscall_direct`: only a registered system that is not running can be called; put back like `named_syscall`
      match st.nstore c.key with
      | some (some cnt) =>
        let st := { st with nstore := upd st.nstore c.key (some none) }
        let r := runBody (exec p fuel) p st .n c.key c.key cnt c.input
        ({ r.1 with nstore := upd r.1.nstore c.key (some (some (cnt + 1))) }, some r.2)
      | _ => (st, none)
    | .s =>
      match st.sstore c.key with
      | none => (st, none)
      | some none => (st, none)
      | some (some cnt) =>
        let st := { st with sstore := upd st.sstore c.key (some none) }
        let r := runBody (exec p fuel) p st .s c.key (st.sdef c.key) cnt c.input
        -- reinsert if the entity still has the component
        let st' := match r.1.sstore c.key with
          | some _ => { r.1 with sstore := upd r.1.sstore c.key (some (some (cnt + 1))) }
          | none => r.1
        (st', some r.2)

def call (p : SProg) (fuel : Nat) (st : SSt) (c : SCall) : SSt × Option Nat := exec p fuel st (.call c)

inductive STop
  | spawn (defKey : Nat)
  | call (c : SCall)
  | despawn (id : Nat)
  | reg (key : Nat)
  | revoke (key : Nat)
deriving DecidableEq, Repr, Inhabited

def fuelMax : Nat := 4000

def runTop (p : SProg) (st : SSt) : STop → SSt
  | .spawn d => ({ st with sstore := upd st.sstore st.nspawn (some (some 0)), sdef := upd st.sdef st.nspawn d, nspawn := st.nspawn + 1 } : SSt).emit (.spawned st.nspawn d)
  | .call c => tryCall (exec p fuelMax) st c
  | .despawn id => ({ st with sstore := upd st.sstore id none } : SSt).emit (.despawned id)
  | .reg key => ({ st with nstore := upd st.nstore key (some (some 0)) } : SSt).emit (.registered key)
  | .revoke key => ({ st with nstore := upd st.nstore key none } : SSt).emit (.revoked key)

end Cobweb.Sc
