/-
  Cobweb.AutoDespawn — interleaving model of `AutoDespawnSignal` (C10): an `Arc` per `prepare` call, clones dropped on
  any thread, the drop of the last clone sends the entity on a channel, `garbage_collect_entities` on the main thread
  receives and despawns recursively. A *schedule* is any list of atomic actions; actions that are not enabled are no-ops,
  so every interleaving of per-thread programs is a schedule.
-/
namespace Cobweb.Ad

def upd {β : Type} (f : Nat → β) (a : Nat) (b : β) : Nat → β := fun x => if x = a then b else f x

structure ASt where
  nArc : Nat := 0
  count : Nat → Nat := fun _ => 0            -- strong count of arc `a`
  ent : Nat → Nat := fun _ => 0              -- entity of arc `a`
  zeroed : Nat → Bool := fun _ => false      -- some thread decremented `a` to zero and has not run the destructor yet
  sent : Nat → Bool := fun _ => false        -- the destructor of `a` has sent the entity
  chan : List Nat := []                      -- channel contents (ghost: the sending arc; the receiver reads `ent a`)
  received : List Nat := []                  -- ghost: arcs whose message the collector has received
  alive : Nat → Bool := fun _ => false
  parent : Nat → Option Nat := fun _ => none
  nEnt : Nat := 0
  fwDespawned : List Nat := []               -- ghost: entities on which the framework called `despawn_recursive`

inductive Action
  | spawn                                    -- main: a new entity
  | prepare (e : Nat)                        -- main: `AutoDespawner::prepare`
  | clone (a : Nat)                          -- any thread holding a clone
  | dec (a : Nat)                            -- any thread: drop a clone (atomic decrement)
  | send (a : Nat)                           -- the thread that reached zero runs `Drop for AutoDespawnSignalInner`
  | recv                                     -- main: one iteration of `garbage_collect_entities`
  | manualDespawn (e : Nat)                  -- main: user despawns (non recursively)
  | setParent (c p : Nat)                    -- main
deriving DecidableEq, Repr

/-- `x` is `e` or a descendant of `e` (following at most `fuel` parent links). -/
def reaches (parent : Nat → Option Nat) : Nat → Nat → Nat → Bool
  | 0, x, e => x == e
  | fuel + 1, x, e => x == e || (match parent x with | some p => reaches parent fuel p e | none => false)

/-- `despawn_recursive e`: `e` and all its current descendants die. -/
def despawnRec (s : ASt) (e : Nat) : ASt :=
  { s with alive := fun x => s.alive x && !(reaches s.parent s.nEnt x e) }

def act (s : ASt) : Action → ASt
  | .spawn => { s with alive := upd s.alive s.nEnt true, nEnt := s.nEnt + 1 }
  | .prepare e => { s with nArc := s.nArc + 1, count := upd s.count s.nArc 1, ent := upd s.ent s.nArc e }
  | .clone a => if s.count a > 0 then { s with count := upd s.count a (s.count a + 1) } else s
  | .dec a =>
    if s.count a > 0 then
      let s' := { s with count := upd s.count a (s.count a - 1) }
      if s.count a = 1 then { s' with zeroed := upd s'.zeroed a true } else s'
    else s
  | .send a =>
    if s.zeroed a && !s.sent a then { s with sent := upd s.sent a true, zeroed := upd s.zeroed a false, chan := s.chan ++ [a] } else s
  | .recv =>
    match s.chan with
    | [] => s
    | a :: rest =>
      let s' := { s with chan := rest, received := a :: s.received }
      if s'.alive (s.ent a) then { despawnRec s' (s.ent a) with fwDespawned := s.ent a :: s'.fwDespawned } else s'
  | .manualDespawn e => { s with alive := upd s.alive e false }
  | .setParent c p => if c ≠ p then { s with parent := upd s.parent c (some p) } else s

def run (s : ASt) (sched : List Action) : ASt := sched.foldl act s

/-- A complete collection pass with nothing interleaved: receive until the channel is empty. -/
def drain (s : ASt) : ASt := (s.chan.map (fun _ => Action.recv)).foldl act s

end Cobweb.Ad
