/-
  C07 — Reactor lifetime follows its mode: no leak, no premature despawn.

  A non-persistent registration call owns one arc (`newArc`), every effective trigger holds one clone, a pending
  despawn reaction holds the clone it took from the table. `dropHandle` is the drop of one clone; the entity goes on the
  garbage-collection channel exactly when the count reaches zero, and `gc` despawns exactly what is on the channel.
  Stated per registration call (DESIGN §8 R2).
-/
import Cobweb.Proofs.Kill

namespace Cobweb.C07

/-- A persistent handle owns no arc: dropping or cloning it does nothing, so the framework never despawns the reactor. -/
theorem persistent_never (s : St) (sys : Nat) : dropHandle s ⟨sys, none⟩ = s ∧ cloneHandle s ⟨sys, none⟩ = s := by
  simp [dropHandle, cloneHandle]

/-- Registering in persistent mode creates no arc and queues nothing for garbage collection. -/
theorem persistent_register_no_arc (s : St) (trigs : List Trig) (sys : Nat) :
    (applyCmd s (.register trigs sys .persistent)).nextArc = s.nextArc ∧
    (applyCmd s (.register trigs sys .persistent)).autoChan = s.autoChan := by
  have h1 : ∀ (ts : List Trig) (t : St), (regAll t ⟨sys, none⟩ ts).1 = t := by
    intro ts
    induction ts with
    | nil => intro t; rfl
    | cons x ts ih =>
      intro t
      have hx : (regCmds t ⟨sys, none⟩ x).1 = t := by
        unfold regCmds
        split
        · split <;> simp [cloneHandle]
        · simp [cloneHandle]
        · split
          · simp [cloneHandle]
          · split <;> simp [cloneHandle]
      simp only [regAll]; rw [hx]; exact ih t
  simp [applyCmd, h1, St.push]

/-- **No premature despawn**: dropping a clone while others remain only decrements. -/
theorem drop_not_last (s : St) (sys a : Nat) (h : s.arcRc a ≥ 2) :
    (dropHandle s ⟨sys, some a⟩).arcRc a = s.arcRc a - 1 ∧ (dropHandle s ⟨sys, some a⟩).autoChan = s.autoChan := by
  have : s.arcRc a - 1 ≠ 0 := by omega
  simp [dropHandle, this]

/-- **No leak**: dropping the last clone puts the reactor entity on the garbage-collection channel, exactly once. -/
theorem drop_last (s : St) (sys a : Nat) (h : s.arcRc a ≤ 1) :
    (dropHandle s ⟨sys, some a⟩).arcRc a = 0 ∧ (dropHandle s ⟨sys, some a⟩).autoChan = s.autoChan ++ [s.arcEnt a] := by
  have : s.arcRc a - 1 = 0 := by omega
  simp [dropHandle, this]

/-- Dropping one handle never touches another arc's count. -/
theorem drop_other (s : St) (h : Handle) (b : Nat) (hne : h.arc ≠ some b) : (dropHandle s h).arcRc b = s.arcRc b := by
  unfold dropHandle
  split
  · rfl
  · rename_i a ha
    have : b ≠ a := fun hb => hne (by rw [ha, hb])
    dsimp only; split <;> simp [this]

/-- A cleanup / revokable registration with no effective trigger (empty bundle) is queued for collection at once: the
    handle made by `prepare` is dropped when `register_reactors` returns. -/
theorem empty_bundle_collected (s : St) (sys : Nat) :
    (applyCmd s (.register [] sys .cleanup)).autoChan = s.autoChan ++ [sys] ∧
    (applyCmd s (.register [] sys .revokable)).autoChan = s.autoChan ++ [sys] := by
  simp [applyCmd, newArc, regAll, dropHandle, St.push]

/-- A registration with one type-wide trigger keeps exactly one clone alive (the table entry): count 1, not queued. -/
theorem one_trigger_one_clone (s : St) (sys ty : Nat) :
    (applyCmd s (.register [.bc ty] sys .cleanup)).arcRc s.nextArc = 1 ∧
    (applyCmd s (.register [.bc ty] sys .cleanup)).autoChan = s.autoChan := by
  simp [applyCmd, newArc, regAll, regCmds, rtOfTrig, tblOfTrig, cloneHandle, dropHandle, St.push]

/-- **Garbage collection** takes one entity from the channel and despawns it (recursively); with an empty channel it
    does nothing. -/
theorem gc_step (s : St) (e : Nat) (es : List Nat) (h : s.autoChan = e :: es) :
    doGc s = ({ s with autoChan := es }).push [.despawnWork [(e, false)], .gc] := by
  simp [doGc, h]

theorem gc_idle (s : St) (h : s.autoChan = []) : doGc s = s := by simp [doGc, h]

/-- Despawning the reactor drops its system state and everything it captured (the canary), unless the callback is
    currently taken (then the runner drops it after the run). -/
theorem despawn_drops_state (s : St) (e : Nat) (h : s.storage e = some true) :
    Ev.canary e ∈ (kill s e).trace ∧ (kill s e).storage e = none := by
  refine ⟨?_, by simp [kill_storage]⟩
  have hc : Ev.canary e ∈ (killCanary s e).trace := by simp [killCanary, h, St.emit]
  have mono : ∀ (t : St), Ev.canary e ∈ t.trace → Ev.canary e ∈ (killData t e).trace := by
    intro t ht
    unfold killData
    split
    · dsimp only; split <;> simp [St.emit, ht]
    · exact ht
  simp only [kill]
  show Ev.canary e ∈ (killData _ e).trace
  apply mono
  simpa using hc

/-- When the target entity of an entity-scoped trigger dies, the clones held by its `EntityReactors` are released. -/
theorem entity_death_releases (s : St) (e : Nat) (l : List (RType × Handle)) (h : s.entReactors e = some l) :
    killReactors s e = dropHandles { s with entReactors := upd s.entReactors e none } (l.map (fun p => p.2)) := by
  simp [killReactors, h]

/-- A despawn reaction owns the clone it took from the table until its run (or abort) has finished: `cleanup` drops it. -/
theorem despawn_reaction_releases (s : St) (src : Nat) (h : Handle) (hc : s.trkDsp.curHandle = some h) :
    (cleanupK s (.dspReact src)).trkDsp.curHandle = none ∧
    (cleanupK s (.dspReact src)).arcRc = (dropHandle { s with trkDsp := { s.trkDsp with reacting := false, curHandle := none } } h).arcRc := by
  simp [cleanupK, hc]

example : (dropHandle ({ arcRc := fun _ => 1, arcEnt := fun _ => 9 } : St) ⟨9, some 0⟩).autoChan = [9] :=
  (drop_last _ 9 0 (by simp)).2

end Cobweb.C07
