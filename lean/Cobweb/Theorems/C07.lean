/-
  C07 — Reactor lifetime follows its mode: no leak, no premature despawn.

  A non-persistent registration call owns one arc (`newArc`), every effective trigger holds one clone, a pending
  despawn reaction holds the clone it took from the table. `dropHandle` is the drop of one clone; the entity goes on the
  garbage-collection channel exactly when the count reaches zero, and `gc` despawns exactly what is on the channel.
  Stated per registration call (DESIGN §8 R2).
-/
import Cobweb.Proofs.DeathCause
import Cobweb.Proofs.Boot
import Cobweb.Proofs.Kill
import Cobweb.Proofs.ArcCount
import Cobweb.Proofs.GcSend

namespace Cobweb.C07

/-- A persistent handle owns no arc: dropping or cloning it does nothing, so the framework never despawns the reactor. -/
theorem persistent_never (s : St) (sys : Nat) : dropHandle s ⟨sys, none⟩ = s ∧ cloneHandle s ⟨sys, none⟩ = s := by
  simp [dropHandle, cloneHandle]

/-- Registering in persistent mode creates no arc and queues nothing for garbage collection. -/
theorem persistent_register_no_arc (s : St) (trigs : List Trig) (sys : Nat) :
    (applyCmd s (.register trigs sys .persistent)).nextArc = s.nextArc ∧
    (applyCmd s (.register trigs sys .persistent)).autoChan = s.autoChan := by
  have h1 : ∀ (ts : List Trig) (t : St), (regAll t ⟨sys, none⟩ ts).1 = t := by
    intro ts
    induction ts with
    | nil => intro t; rfl
    | cons x ts ih =>
      intro t
      have hx : (regCmds t ⟨sys, none⟩ x).1 = t := by
        unfold regCmds
        split
        · split <;> simp [cloneHandle]
        · simp [cloneHandle]
        · split
          · simp [cloneHandle]
          · split <;> simp [cloneHandle]
      simp only [regAll]; rw [hx]; exact ih t
  simp [applyCmd, h1, St.push]

/-- **No premature despawn**: dropping a clone while others remain only decrements. -/
theorem drop_not_last (s : St) (sys a : Nat) (h : s.arcRc a ≥ 2) :
    (dropHandle s ⟨sys, some a⟩).arcRc a = s.arcRc a - 1 ∧ (dropHandle s ⟨sys, some a⟩).autoChan = s.autoChan := by
  have : s.arcRc a - 1 ≠ 0 := by omega
  simp [dropHandle, this]

/-- **No leak**: dropping the last clone puts the reactor entity on the garbage-collection channel, exactly once. -/
theorem drop_last (s : St) (sys a : Nat) (h : s.arcRc a ≤ 1) :
    (dropHandle s ⟨sys, some a⟩).arcRc a = 0 ∧ (dropHandle s ⟨sys, some a⟩).autoChan = s.autoChan ++ [s.arcEnt a] := by
  have : s.arcRc a - 1 = 0 := by omega
  simp [dropHandle, this]

/-- Dropping one handle never touches another arc's count. -/
theorem drop_other (s : St) (h : Handle) (b : Nat) (hne : h.arc ≠ some b) : (dropHandle s h).arcRc b = s.arcRc b := by
  unfold dropHandle
  split
  · rfl
  · rename_i a ha
    have : b ≠ a := fun hb => hne (by rw [ha, hb])
    dsimp only; split <;> simp [this]

/-- A cleanup / revokable registration with no effective trigger (empty bundle) is queued for collection at once: the
    handle made by `prepare` is dropped when `register_reactors` returns. -/
theorem empty_bundle_collected (s : St) (sys : Nat) :
    (applyCmd s (.register [] sys .cleanup)).autoChan = s.autoChan ++ [sys] ∧
    (applyCmd s (.register [] sys .revokable)).autoChan = s.autoChan ++ [sys] := by
  simp [applyCmd, newArc, regAll, dropHandle, St.push]

/-- A registration with one type-wide trigger keeps exactly one clone alive (the table entry): count 1, not queued. -/
theorem one_trigger_one_clone (s : St) (sys ty : Nat) :
    (applyCmd s (.register [.bc ty] sys .cleanup)).arcRc s.nextArc = 1 ∧
    (applyCmd s (.register [.bc ty] sys .cleanup)).autoChan = s.autoChan := by
  simp [applyCmd, newArc, regAll, regCmds, rtOfTrig, tblOfTrig, cloneHandle, dropHandle, St.push]

/-- **Garbage collection** takes one entity from the channel and despawns it (recursively); with an empty channel it
    does nothing. -/
theorem gc_step (s : St) (e : Nat) (es : List Nat) (h : s.autoChan = e :: es) :
    doGc s = ({ s with autoChan := es }).push [.despawnWork [(e, false)], .gc] := by
  simp [doGc, h]

theorem gc_idle (s : St) (h : s.autoChan = []) : doGc s = s := by simp [doGc, h]

/-- Despawning the reactor drops its system state and everything it captured (the canary — for a system made from a
    zero-sized function item there is nothing to see, `canaryEv` is then a ghost event), unless the callback is currently
    taken (then the runner drops it after the run). -/
theorem despawn_drops_state (s : St) (e : Nat) (h : s.storage e = some true) :
    canaryEv s e ∈ (kill s e).trace ∧ (kill s e).storage e = none := by
  refine ⟨?_, by simp [kill_storage]⟩
  have hc : canaryEv s e ∈ (killCanary s e).trace := by simp [killCanary, h, St.emit]
  have mono : ∀ (t : St), canaryEv s e ∈ t.trace → canaryEv s e ∈ (killData t e).trace := by
    intro t ht
    unfold killData
    split
    · dsimp only; split <;> simp [St.emit, ht]
    · exact ht
  simp only [kill]
  show canaryEv s e ∈ (killData _ e).trace
  apply mono
  simpa using hc

/-- When the target entity of an entity-scoped trigger dies, the clones held by its `EntityReactors` are released. -/
theorem entity_death_releases (s : St) (e : Nat) (l : List (RType × Handle)) (h : s.entReactors e = some l) :
    killReactors s e = dropHandles { s with entReactors := upd s.entReactors e none } (l.map (fun p => p.2)) := by
  simp [killReactors, h]

/-- A despawn reaction owns the clone it took from the table until its run (or abort) has finished: `cleanup` drops it. -/
theorem despawn_reaction_releases (s : St) (src : Nat) (h : Handle) (hc : s.trkDsp.curHandle = some h) :
    (cleanupK s (.dspReact src h)).trkDsp.curHandle = none ∧
    (cleanupK s (.dspReact src h)).arcRc = (dropHandle { s with trkDsp := { s.trkDsp with reacting := false, curHandle := none } } h).arcRc := by
  simp [cleanupK, hc]

example : (dropHandle ({ arcRc := fun _ => 1, arcEnt := fun _ => 9 } : St) ⟨9, some 0⟩).autoChan = [9] :=
  (drop_last _ 9 0 (by simp)).2

/-! ### whole-execution theorems (invariant `ArcInv`, `Proofs/ArcCount.lean`)

  For every program and every history in which the user only drops signals it holds (`SigOK`), in every state reachable
  from the empty world: the reference count of an arc that is not a user-held signal is at least the number of handles
  of that arc the framework holds — in the type-wide tables, in the per-entity tables, in the despawn-reactor lists, in
  queued commands and in the despawn tracker. Hence **no premature release**: as long as one trigger of a registration
  call is still registered, or a despawn reaction for it is pending, the count of its arc is positive, so the drop that
  sends the reactor to the garbage collector (`drop_last`: the one that reaches zero) has not happened. -/

/-- A type-wide registration keeps its arc alive. -/
theorem registered_typewide_alive {p : Prog} {hh : Hist} (hsig : SigOK hh) {s : St} {s0 : St} (hI0 : AllInv s0) (hr : Reach p hh s0 s)
    (t : Tbl) (ty : Nat) (h : Handle) (a : Nat) (hm : h ∈ s.tbl t ty) (ha : h.arc = some a) (hu : a ∉ s.sigs) :
    1 ≤ s.arcRc a := by
  have I := arc_reach_from p hh hsig hI0.arc hr
  have := I.le (ty + 1) 0 a hu
  have := holders_ge_tbl a s t ty 0
  have := hcount_pos_of_mem hm ha
  omega

/-- An entity-scoped registration keeps its arc alive. -/
theorem registered_entity_alive {p : Prog} {hh : Hist} (hsig : SigOK hh) {s : St} {s0 : St} (hI0 : AllInv s0) (hr : Reach p hh s0 s)
    (e : Nat) (l : List (RType × Handle)) (rt : RType) (h : Handle) (a : Nat) (hl : s.entReactors e = some l)
    (hm : (rt, h) ∈ l) (ha : h.arc = some a) (hu : a ∉ s.sigs) : 1 ≤ s.arcRc a := by
  have I := arc_reach_from p hh hsig hI0.arc hr
  have := I.le 0 (e + 1) a hu
  have := holders_ge_ent a s e 0
  have hm' : h ∈ entHandles s e := by
    simp only [entHandles, hl, optHandles]
    exact List.mem_map.mpr ⟨(rt, h), hm, rfl⟩
  have := hcount_pos_of_mem hm' ha
  omega

/-- A despawn trigger keeps its arc alive. -/
theorem registered_despawn_alive {p : Prog} {hh : Hist} (hsig : SigOK hh) {s : St} {s0 : St} (hI0 : AllInv s0) (hr : Reach p hh s0 s)
    (e : Nat) (h : Handle) (a : Nat) (hm : h ∈ s.tblDsp e) (ha : h.arc = some a) (hu : a ∉ s.sigs) : 1 ≤ s.arcRc a := by
  have I := arc_reach_from p hh hsig hI0.arc hr
  have := I.le 0 (e + 1) a hu
  have := holders_ge_dsp a s e 0
  have := hcount_pos_of_mem hm ha
  omega

/-- A pending despawn reaction (its handle waits in the despawn tracker, or is the one being reacted to) keeps its arc
    alive. -/
theorem pending_despawn_reaction_alive {p : Prog} {hh : Hist} (hsig : SigOK hh) {s : St} {s0 : St} (hI0 : AllInv s0) (hr : Reach p hh s0 s)
    (h : Handle) (a : Nat) (ha : h.arc = some a) (hu : a ∉ s.sigs)
    (hm : (∃ sys src, (sys, src, h) ∈ s.trkDsp.prepared) ∨ s.trkDsp.curHandle = some h) : 1 ≤ s.arcRc a := by
  have I := arc_reach_from p hh hsig hI0.arc hr
  have hle := I.le 0 0 a hu
  have : 1 ≤ trkH a s := by
    rw [trkH_eq]
    rcases hm with ⟨sys, src, hm⟩ | hm
    · have : h ∈ s.trkDsp.prepared.map (·.2.2) := List.mem_map.mpr ⟨(sys, src, h), hm, rfl⟩
      have := hcount_pos_of_mem this ha
      omega
    · simp [hm, optOne, hOne, ha]
  simp only [holders] at hle
  omega

/-- An arc that does not exist yet has no holder and count zero. -/
theorem unborn_arc {p : Prog} {hh : Hist} (hsig : SigOK hh) {s : St} {s0 : St} (hI0 : AllInv s0) (hr : Reach p hh s0 s) (a : Nat)
    (ha : s.nextArc ≤ a) : s.arcRc a = 0 :=
  ((arc_reach_from p hh hsig hI0.arc hr).fresh 0 0 a ha).2

example : ArcInv ({} : St) := arc_default

/-- Non-vacuity: a cleanup reactor with two broadcast triggers: after registration the count of its arc (arc 0) is 2 and
    both tables hold a handle of it. -/
def demoProg : Prog := fun _ _ _ => none
def demoHist : Hist :=
  { op := fun t _ => if t = 0 then some .acts else none,
    act := fun _ i _ => match i with
      | 0 => some (.on .cleanup 0 false [.bc 0, .bc 1])
      | _ => none }

example : (exec demoProg demoHist 40 {}).stack = [] ∧ (exec demoProg demoHist 40 {}).arcRc 0 = 2 ∧
    ((exec demoProg demoHist 40 {}).tbl .bc 0).map (·.arc) = [some 0] ∧
    ((exec demoProg demoHist 40 {}).tbl .bc 1).map (·.arc) = [some 0] := by decide

example : SigOK demoHist := by intro t s a h; simp only [demoHist] at h; split at h <;> cases h

/-! ### the count is exact, and reaching zero sends the reactor to the collector (`Proofs/ArcExact.lean`, `GcSend.lean`) -/

/-- **`arcRc a` = number of holders of `a`**, along every execution in which the user clones and drops only signals it
    holds: beyond some bounds on the table keys, the handles of `a` in the type-wide tables, the per-entity tables, the
    despawn tables, the queued registration / despawn-reaction commands and the despawn tracker number exactly `arcRc a`.
    Together: a cleanup / revokable reactor's count is positive exactly as long as one of its triggers is registered (or
    being registered) or a despawn reaction for it is pending. -/
theorem count_is_number_of_holders {p : Prog} {hh : Hist} (hsig : SigOK2 hh) {s : St} {s0 : St} (hI0 : AllInv s0) (hr : Reach p hh s0 s)
    (a : Nat) (ha : a ∉ s.sigs) : ∃ B N, ∀ B' N', B ≤ B' → N ≤ N' → holders B' N' a s = s.arcRc a :=
  arc_exact_from p hh hsig hI0 hr a ha

/-- **No leak**: an arc nobody holds has count zero. -/
theorem unheld_arc_has_count_zero {p : Prog} {hh : Hist} (hsig : SigOK2 hh) {s : St} {s0 : St} (hI0 : AllInv s0) (hr : Reach p hh s0 s)
    (a : Nat) (ha : a ∉ s.sigs) (h0 : ∀ B N, holders B N a s = 0) : s.arcRc a = 0 :=
  no_holder_zero_from p hh hsig hI0 hr a ha h0

/-- **The step in which the last holder disappears hands the reactor to the collector**: if the count of an existing arc
    is positive before a step and zero after it, the arc's entity is on the auto-despawn channel after the step. -/
theorem last_release_sends_to_collector {p : Prog} {hh : Hist} {s s' : St} (ht : tick p hh s = some s') (a : Nat)
    (ha : a < s.nextArc) (hp : 0 < s.arcRc a) (h0 : s'.arcRc a = 0) : s.arcEnt a ∈ s'.autoChan :=
  zero_sends ht a ha hp h0

/-- **Nothing is despawned without a reason** (every tick of every execution, from any state): an entity that is not event
    data named by a tracker (or by an aborting command) dies only in a tick that applies a `despawn` command naming it, whose
    despawn work — a recursive despawn, the collector working off the auto-despawn channel, a runner dropping a system that
    lost its storage — has reached it, that runs the tail of the one-off reactor it is, or that starts the user's direct
    `World::despawn`. Registration, revocation, dispatch, polls, replays, clean-ups and aborts of other commands never kill a
    reactor: with `count_is_number_of_holders` and `last_release_sends_to_collector` (an entity reaches the channel only in
    the step that takes one of its counts to zero) this is "no premature despawn" for entities, not only for counts. -/
theorem dies_only_for_a_reason (p : Prog) (h : Hist) {s s' : St} (ht : tick p h s = some s') (x : Nat) (ha : s.alive x = true)
    (hd : s'.alive x = false) (h1 : x ≠ s.trkSys.cur) (h2 : x ≠ s.trkEvt.cur)
    (h3 : ∀ sys k rest, s.stack = .abort sys k :: rest → k.data? ≠ some x) :
    (∃ cs rest, s.stack = .batch (.despawn x :: cs) :: rest) ∨ (∃ w rest, s.stack = .despawnWork ((x, true) :: w) :: rest) ∨
    (∃ rest, s.stack = .onceTail x :: rest) ∨ (s.stack = [] ∧ h.op s.topIdx s = some (.wDespawn x)) :=
  tick_death p h ht x ha hd h1 h2 h3

/-- Non-vacuity: a live entity 3 that is no event data, under a batch whose next command despawns it: the tick kills it,
    and the first cause is the one that holds. -/
example : ∃ s s' : St, tick (fun _ _ _ => none) { op := fun _ _ => none, act := fun _ _ _ => none } s = some s' ∧
    s.alive 3 = true ∧ s'.alive 3 = false ∧ 3 ≠ s.trkSys.cur ∧ 3 ≠ s.trkEvt.cur ∧
    s.stack = .batch [.despawn 3] :: [] := by
  refine ⟨{ alive := fun e => e == 3, nextEnt := 4, stack := [.batch [.despawn 3]] }, _, rfl, rfl, ?_, by decide, by decide, rfl⟩
  simp [runFrame, doBatch, applyCmd, despawn1, St.push, kill, killCanary, killStorage, killReactors, killComps, killTracker, killData, upd]

/-- In particular a revocation never despawns anything by itself (the reactor goes when the collector finds it). -/
theorem revoke_never_despawns (s : St) (sys : Nat) (trigs : List Trig) (x : Nat) (ha : s.alive x = true) :
    (applyCmd s (.revoke sys trigs)).alive x = true := by
  cases hx : (applyCmd s (.revoke sys trigs)).alive x with
  | true => rfl
  | false => rcases applyCmd_death s _ x ha hx with hc | ⟨⟨k, hc⟩, _⟩ <;> cases hc

/-- ... and neither does a registration, whatever its mode and triggers. -/
theorem register_never_despawns (s : St) (trigs : List Trig) (sys : Nat) (m : Mode) (x : Nat) (ha : s.alive x = true) :
    (applyCmd s (.register trigs sys m)).alive x = true := by
  cases hx : (applyCmd s (.register trigs sys m)).alive x with
  | true => rfl
  | false => rcases applyCmd_death s _ x ha hx with hc | ⟨⟨k, hc⟩, _⟩ <;> cases hc

/-- The collector takes what is on the channel, oldest first, and despawns it if it is still alive. -/
theorem collector_drains (s : St) (e : Nat) (es : List Nat) (h : s.autoChan = e :: es) :
    (doGc s).autoChan = es ∧ (doGc s).stack = .despawnWork [(e, false)] :: .gc :: s.stack := gc_takes_oldest s e es h

theorem collector_despawns (s : St) (e : Nat) (work : List (Nat × Bool)) (hw : s.wq = []) :
    doDespawnWork s ((e, true) :: work) = (despawn1 s e).push [.despawnWork work] := despawn_work_kills s e work hw

/-- With commands waiting on the world's queue (only possible under a command an exclusive body applies in-line),
    `World::despawn` applies them first and then removes the entity. -/
theorem collector_flushes_first (s : St) (e : Nat) (work : List (Nat × Bool)) (hw : s.wq ≠ []) :
    doDespawnWork s ((e, true) :: work) = s.push [.flush, .despawnWork ((e, true) :: work)] := despawn_work_flushes_first s e work hw

/-- Non-vacuity: a revokable reactor with two triggers is registered, then revoked, then a frame ends: after the revoke
    its count is 0 and it is on the collector's channel; after the frame it is gone and the tables are empty. -/
def demoHist2 : Hist :=
  { op := fun t _ => if t < 2 then some .acts else if t = 2 then some .frameEnd else none,
    act := fun t i _ => match t, i with
      | 0, 0 => some (.on .revokable 0 false [.bc 0, .res 1])
      | 1, 0 => some (.revoke 0 [.bc 0, .res 1])
      | _, _ => none }

example : (exec demoProg demoHist2 12 {}).arcRc 0 = 2 ∧ (exec demoProg demoHist2 12 {}).alive 0 = true := by decide

example : (exec demoProg demoHist2 20 {}).arcRc 0 = 0 ∧ (exec demoProg demoHist2 20 {}).autoChan = [0] ∧
    (exec demoProg demoHist2 20 {}).alive 0 = true := by decide

example : (exec demoProg demoHist2 40 {}).stack = [] ∧ (exec demoProg demoHist2 40 {}).alive 0 = false ∧
    (exec demoProg demoHist2 40 {}).autoChan = [] ∧ (exec demoProg demoHist2 40 {}).tbl .bc 0 = [] := by decide

example : SigOK2 demoHist2 := by
  intro t s a h
  simp only [demoHist2] at h
  rcases h with h | h <;> (split at h <;> (try split at h) <;> cases h)

end Cobweb.C07
