/-
  C14 — Reactive accessors trigger reactions exactly as documented.

  The accessors are the body-time half (`enqueue`) of the API calls; what a call "triggers" is the list of commands it
  queues. The theorems hold for every state (hence for any number of calls per run, in any order).
-/
import Cobweb.Machine
import Cobweb.Proofs.TrigSrc

namespace Cobweb.C14

/-- Commands that schedule reactions. -/
def isTrigger : Cmd → Bool
  | .mutReact _ _ => true
  | .insReact _ _ => true
  | .resMut _ => true
  | _ => false

def triggers (cs : List Cmd) : Nat := (cs.filter isTrigger).length

/-- `ReactiveMut::get_mut` / `React::get_mut`: exactly one mutation trigger per call on an entity that has the component,
    and the value is written immediately. -/
theorem mutate_one (s : St) (e ty v old : Nat) (h : alookup (s.comp e) ty = some old) :
    (enqueue s (.mutate e ty v)).2 = [.mutReact e ty] ∧
    (enqueue s (.mutate e ty v)).1.comp e = aset (s.comp e) ty v := by
  simp [enqueue, h]

/-- ... and nothing at all when the entity lacks the component (the accessor returns an error). -/
theorem mutate_missing (s : St) (e ty v : Nat) (h : alookup (s.comp e) ty = none) :
    enqueue s (.mutate e ty v) = (s, []) := by
  simp [enqueue, h]

/-- `set_if_neq`: stores the value, returns the old one and triggers iff the new value differs. -/
theorem setNeq_differs (s : St) (e ty v old : Nat) (h : alookup (s.comp e) ty = some old) (hne : old ≠ v) :
    (enqueue s (.setNeq e ty v)).2 = [.mutReact e ty] ∧
    (enqueue s (.setNeq e ty v)).1.comp e = aset (s.comp e) ty v ∧
    (enqueue s (.setNeq e ty v)).1.trace = .ret (some old) :: s.trace := by
  simp [enqueue, h, hne, St.emit]

theorem setNeq_same (s : St) (e ty v : Nat) (h : alookup (s.comp e) ty = some v) :
    (enqueue s (.setNeq e ty v)).2 = [] ∧
    (enqueue s (.setNeq e ty v)).1.comp = s.comp ∧
    (enqueue s (.setNeq e ty v)).1.trace = .ret none :: s.trace := by
  simp [enqueue, h, St.emit]

/-- `set_if_neq` triggers if and only if the new value differs from the stored one. -/
theorem setNeq_iff (s : St) (e ty v old : Nat) (h : alookup (s.comp e) ty = some old) :
    triggers (enqueue s (.setNeq e ty v)).2 = 1 ↔ old ≠ v := by
  by_cases hv : old = v
  · subst hv; simp [enqueue, h, triggers]
  · simp [enqueue, h, hv, triggers]; rfl

/-- Resource accessors: `get_mut` / `trigger_resource_mutation` trigger exactly once; `set_if_neq` iff different. -/
theorem resSet_always (s : St) (ty v : Nat) :
    (enqueue s (.resSet ty v false)).2 = [.resMut ty] ∧ (enqueue s (.resSet ty v false)).1.res ty = v := by
  simp [enqueue]

theorem resMut_one (s : St) (ty : Nat) : enqueue s (.resMut ty) = (s, [.resMut ty]) := by simp [enqueue]

theorem resSetNeq_iff (s : St) (ty v : Nat) :
    triggers (enqueue s (.resSet ty v true)).2 = 1 ↔ s.res ty ≠ v := by
  by_cases hv : s.res ty = v
  · simp [enqueue, hv, triggers]
  · simp [enqueue, hv, triggers]; rfl

theorem resSetNeq_returns_old (s : St) (ty v : Nat) (hv : s.res ty ≠ v) :
    (enqueue s (.resSet ty v true)).1.trace = .ret (some (s.res ty)) :: s.trace ∧
    (enqueue s (.resSet ty v true)).1.res ty = v := by
  simp [enqueue, hv, St.emit]

/-- Reads and the explicitly non-reacting accessors never trigger. -/
theorem reads_never_trigger (s : St) (e ty : Nat) :
    (enqueue s (.readComp e ty)).2 = [] ∧ (enqueue s (.resRead ty)).2 = [] := by
  simp [enqueue]

/-- `ReactCommands::insert` on an entity that exists when called queues the insertion and one insertion trigger;
    on a missing entity it does nothing. -/
theorem insert_alive (s : St) (e ty v : Nat) (h : s.alive e = true) :
    (enqueue s (.insert e ty v)).2 = [.tryInsert e ty v, .insReact e ty] := by simp [enqueue, h]

theorem insert_dead (s : St) (e ty v : Nat) (h : s.alive e = false) : enqueue s (.insert e ty v) = (s, []) := by
  simp [enqueue, h]

/-- The explicitly non-reacting accessors (`get_noreact`, `React::get_noreact`, `ReactResMut::get_noreact`) write the value
    and queue nothing — whatever the value. -/
theorem noreact_never_triggers (s : St) (e ty v : Nat) :
    (enqueue s (.mutNoReact e ty v)).2 = [] ∧ (enqueue s (.resNoReact ty v)).2 = [] ∧
    (enqueue s (.resNoReact ty v)).1.res ty = v := by
  refine ⟨?_, by simp [enqueue], by simp [enqueue, upd]⟩
  simp only [enqueue]; split <;> rfl

theorem alookup_aset_same (l : List (Nat × Nat)) (k v : Nat) : alookup (aset l k v) k = some v := by
  induction l with
  | nil => simp [aset, alookup]
  | cons x l ih =>
    obtain ⟨a, b⟩ := x
    by_cases h : a = k
    · simp [aset, alookup, h]
    · simp [aset, alookup, h, ih]

/-- **Inserting triggers an insertion if and only if the component was actually inserted on an existing entity**: the
    queued pair `tryInsert; insReact` dispatches to the insertion reactors when the entity is still alive at apply time (the
    component is then there), and to nobody when the entity died in between (finding F2, repaired). -/
theorem insert_triggers_iff_inserted (s : St) (e ty v : Nat) :
    (s.alive e = true → (alookup ((applyCmd s (.tryInsert e ty v)).comp e) ty).isSome) ∧
    (s.alive e = false → alookup (s.comp e) ty = none →
      applyCmd (applyCmd s (.tryInsert e ty v)) (.insReact e ty) = (applyCmd s (.tryInsert e ty v)).emit (.insNoop e ty)) := by
  constructor
  · intro h; simp [applyCmd, h, upd, alookup_aset_same]
  · intro h hn; simp [applyCmd, h, hn]

/-- For any sequence of accessor calls, the number of triggers queued is the number of reacting calls made:
    folding `enqueue` over the calls adds the per-call counts. -/
def runCalls : St → List Act → St × List Cmd
  | s, [] => (s, [])
  | s, a :: as =>
    let r := enqueue s a
    let r' := runCalls r.1 as
    (r'.1, r.2 ++ r'.2)

theorem calls_additive (s : St) (a : Act) (as : List Act) :
    triggers (runCalls s (a :: as)).2 = triggers (enqueue s a).2 + triggers (runCalls (enqueue s a).1 as).2 := by
  simp [runCalls, triggers, List.filter_append]

/-- Non-vacuity: a state where an entity carries a component. -/
example : alookup (({ comp := fun _ => [(0, 5)] } : St).comp 3) 0 = some 5 := by decide

/-! ### whole executions: triggers come from reacting calls and from nowhere else

`nTrig s` counts the trigger commands waiting anywhere in state `s` (world queue, batches, what a running body has
queued so far); `producedAt` is what the scripted action performed by the next tick queues (`enqueue`, characterised accessor
by accessor above); `consumedAt` is the trigger command the next tick applies (`Proofs/TrigSrc.lean`). -/

/-- The counting function of `Proofs/TrigSrc.lean` is the one used above. -/
theorem cTrig_is_triggers (cs : List Cmd) : cTrig cs = triggers cs := by
  have : isTrig = isTrigger := by funext c; cases c <;> rfl
  simp [cTrig, triggers, this, List.countP_eq_length_filter]

/-- **Every tick of every execution** (any program, any history, any state): the trigger commands waiting anywhere change
    by exactly what this tick's scripted action queues, minus the trigger command this tick applies. Reactions, polls,
    registrations, revocations, despawns, clean-ups, replays and top-level world operations make none. -/
theorem triggers_accounted (p : Prog) (h : Hist) {s s' : St} (ht : tick p h s = some s') :
    nTrig s' + consumedAt s = nTrig s + producedAt p h s := tick_nTrig p h ht

/-- A tick whose action (if it performs one) makes no reacting call adds no trigger: in particular reads and the
    explicitly non-reacting accessors (`reads_never_trigger`, `noreact_never_triggers`) never cause a reaction, whatever
    else is going on in the tree. -/
theorem no_trigger_without_reacting_call (p : Prog) (h : Hist) {s s' : St} (ht : tick p h s = some s')
    (hq : producedAt p h s = 0) : nTrig s' ≤ nTrig s := by
  have := tick_nTrig p h ht; omega

/-- Executions in which no action makes a reacting call. -/
inductive SilentReach (p : Prog) (h : Hist) (s0 : St) : St → Prop
  | refl : SilentReach p h s0 s0
  | tick {s s' : St} : SilentReach p h s0 s → producedAt p h s = 0 → tick p h s = some s' → SilentReach p h s0 s'

/-- From a state with no trigger pending, no trigger is ever pending as long as no reacting call is made. -/
theorem silent_stays_silent {p : Prog} {h : Hist} {s0 s : St} (hr : SilentReach p h s0 s) (h0 : nTrig s0 = 0) : nTrig s = 0 := by
  induction hr with
  | refl => exact h0
  | tick _ hq ht ih => have := no_trigger_without_reacting_call p h ht hq; omega

/-- What a body's tick adds is what the accessor table says for the action it performs. -/
theorem body_tick_adds (p : Prog) (h : Hist) (s : St) (sys : Nat) (k : Kind) (i : Nat) (acc : List Cmd) (rest : List Frame)
    (a : Act) (hs : s.stack = .bodyActs sys k i acc :: rest) (ha : p sys i { s with stack := rest } = some a) :
    producedAt p h s = triggers (enqueue { s with stack := rest } a).2 := by
  simp [producedAt, hs, produced, ha, cTrig_is_triggers]

/-- Non-vacuity: a body about to call `ReactResMut::get_mut` adds one trigger; one about to call `ReactRes::get` adds none. -/
example : producedAt (fun _ _ _ => some (.resMut 0)) { op := fun _ _ => none, act := fun _ _ _ => none }
    ({ stack := [.bodyActs 7 .plain 0 []] } : St) = 1 := by
  simp [producedAt, produced, enqueue, cTrig_cons, isTrig]
example : producedAt (fun _ _ _ => some (.resRead 0)) { op := fun _ _ => none, act := fun _ _ _ => none }
    ({ stack := [.bodyActs 7 .plain 0 []] } : St) = 0 := by
  simp [producedAt, produced, enqueue]

end Cobweb.C14
