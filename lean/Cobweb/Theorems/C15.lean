/-
  C15 — One-off reactors run exactly once and then vanish.

  `once` reserves the reactor entity, registers the bundle in revokable mode and inserts a wrapper callback. The wrapper
  holds the inner system in an `Option` (`onceTaken`): the first invocation takes it, runs it (with cleanup), then
  despawns the reactor entity and revokes its own token (`doOnceTail`).
-/
import Cobweb.Proofs.Kill
import Cobweb.Proofs.Once
import Cobweb.Proofs.Dead
import Cobweb.Theorems.C13
import Cobweb.Theorems.C07

namespace Cobweb.C15

/-- Registering a one-off reactor: a fresh entity, its token recorded, the bundle registered in revokable mode, then
    the wrapper inserted. -/
theorem once_registers (s : St) (d : Nat) (trigs : List Trig) :
    (enqueue s (.once d trigs)).2 = [.register trigs s.nextEnt .revokable, .insertOnce s.nextEnt] ∧
    ((enqueue s (.once d trigs)).1.info s.nextEnt).once = some trigs ∧
    ((enqueue s (.once d trigs)).1.info s.nextEnt).onceTaken = false := by
  simp [enqueue, St.fresh]

/-- Starting the body of a one-off reactor marks the inner system as taken, for good. -/
theorem first_run_takes (s : St) (sys : Nat) (k : Kind) (trigs : List Trig) (h : (s.info sys).once = some trigs) :
    ((startBody s sys k).info sys).onceTaken = true ∧ ((startBody s sys k).info sys).once = some trigs := by
  rw [C13.startBody_info]; simp [h]

/-- **Never again**: once taken, an invocation of the wrapper runs no body: no `body` event, no script, the run counter
    is not touched (compare `C13.startBody_counts`). -/
theorem taken_runs_nothing (s : St) (sys idx : Nat) (k : Kind) (hal : s.alive sys = true) (hst : s.storage sys = some true)
    (trigs : List Trig) (ho : (s.info sys).once = some trigs) (ht : (s.info sys).onceTaken = true) :
    (doRunnerLookup s sys k idx).info = s.info ∧
    (doRunnerLookup s sys k idx).stack = Frame.afterBody sys idx :: s.stack := by
  simp [doRunnerLookup, hal, hst, ho, ht, St.push]

/-- **Whole executions**: whenever the runner finds the callback of a live one-off reactor, its inner system has not
    been taken — so the "never again" branch is never even reached: after its first run the reactor is either still on
    the control stack (callback absent, further triggers are postponed and abort later) or dead. -/
theorem never_invoked_twice (p : Prog) (h : Hist) {s0 s : St} (hc : Ctl s0) (ho : OnceInv s0) (hr : Reach p h s0 s)
    {sys idx : Nat} {k : Kind} {rest : List Frame} (hst : s.stack = .runnerLookup sys k idx :: rest)
    (hal : s.alive sys = true) (hsto : s.storage sys = some true) (honce : (s.info sys).once.isSome = true) :
    (s.info sys).onceTaken = false :=
  once_taken_unreachable p h hc ho hr hst hal hsto honce

/-- A one-off reactor whose inner system has run and whose entity still exists is on the control stack (its run has
    not returned yet). -/
theorem taken_live_is_running (p : Prog) (h : Hist) {s0 s : St} (hc : Ctl s0) (ho : OnceInv s0) (hr : Reach p h s0 s)
    (sys : Nat) (h1 : (s.info sys).once.isSome = true) (h2 : (s.info sys).onceTaken = true) (h3 : s.alive sys = true) :
    sys ∈ running s.stack :=
  (ctl_once_reach p h hc ho hr).2.running sys ⟨h1, h2, h3⟩

/-- The first run is followed — after its cleanup and its own commands, before the runner reinserts anything — by the
    tail that makes the reactor vanish. -/
theorem first_run_then_tail (s : St) (sys idx : Nat) (k : Kind) (hal : s.alive sys = true) (hst : s.storage sys = some true)
    (trigs : List Trig) (ho : (s.info sys).once = some trigs) (ht : (s.info sys).onceTaken = false) :
    (doRunnerLookup s sys k idx).stack =
      Frame.bodyActs sys k 0 [] :: Frame.onceTail sys :: Frame.afterBody sys idx :: s.stack := by
  simp [doRunnerLookup, hal, hst, ho, ht, St.push]

/-- **Afterwards its entity is gone and its triggers are revoked**: the tail despawns the reactor entity and queues the
    revocation of exactly its own token, flushed at once. -/
theorem tail_despawns_and_revokes (s : St) (sys : Nat) (trigs : List Trig) (ho : (s.info sys).once = some trigs) :
    (doOnceTail s sys).alive sys = false ∧
    (doOnceTail s sys).wq = (despawn1 s sys).wq ++ [Cmd.revoke sys trigs] ∧
    (doOnceTail s sys).stack = Frame.flush :: Frame.dropCallback sys :: s.stack := by
  refine ⟨?_, ?_, ?_⟩
  · simp only [doOnceTail, St.push]
    simp only [despawn1]
    split
    · exact kill_alive_self s sys
    · rename_i h; simpa using h
  · simp [doOnceTail, St.push, ho]
  · simp [doOnceTail, St.push]

/-- **... and it is gone for good** (every execution): from the step that runs the tail of a one-off reactor on, the
    reactor's entity is dead in every later state — ids are never reused (`Proofs/Dead.lean`) — so by
    `dead_once_never_runs` no later trigger, in the same tree or any later one, runs it. -/
theorem once_gone_for_good {p : Prog} {h : Hist} {s s1 s' : St} (sys : Nat) (rest : List Frame)
    (hs : s.stack = .onceTail sys :: rest) (hx : sys < s.nextEnt) (h1 : step p h s = some s1) (hr : Reach p h s1 s') :
    s'.alive sys = false := by
  have e1 : s1 = doOnceTail { s with stack := rest } sys := by
    unfold step at h1; rw [hs] at h1; simp only [Option.some.injEq] at h1; exact h1.symm
  have hd : s1.alive sys = false := by
    rw [e1]
    simp only [doOnceTail, St.push]
    exact despawn1_dead _ sys
  have hn : sys < s1.nextEnt := by
    rw [e1]; simpa [doOnceTail, St.push] using hx
  exact dead_stays_dead hr sys hn hd

/-- A dead reactor is never run (C18): every later trigger of a one-off reactor that has run aborts at lookup. -/
theorem dead_once_never_runs (s : St) (sys idx : Nat) (k : Kind) (h : s.alive sys = false) :
    (doRunnerLookup s sys k idx).info = s.info := by
  simp [doRunnerLookup, h, St.push, St.emit]

/-- **Revoked before any trigger fires**: the revoke removes the registrations (C06), the handle count drops to zero and
    the garbage collection despawns the reactor, dropping the wrapper (and the system it holds) without running it. -/
theorem revoked_never_runs_dropped (s : St) (e : Nat) (h : s.storage e = some true) : canaryEv s e ∈ (kill s e).trace :=
  (C07.despawn_drops_state s e h).1

/-- **Empty bundle**: nothing is registered, the reactor is queued for collection by the registration itself. -/
theorem empty_bundle_dropped (s : St) (sys : Nat) :
    (applyCmd s (.register [] sys .revokable)).autoChan = s.autoChan ++ [sys] ∧
    (applyCmd s (.register [] sys .revokable)).tbl = s.tbl :=
  ⟨(C07.empty_bundle_collected s sys).2, by simp [applyCmd, newArc, regAll, dropHandle, St.push]⟩

/-- If the reactor entity died before the wrapper could be inserted, the wrapper (and the system) is dropped at once. -/
theorem insert_on_dead_drops (s : St) (sys : Nat) (h : s.alive sys = false) :
    applyCmd s (.insertOnce sys) = s.emit (canaryEv s sys) := by
  simp [applyCmd, h]

example : ((startBody ({ info := fun _ => { once := some [] } } : St) 3 .plain).info 3).onceTaken = true :=
  (first_run_takes _ 3 .plain [] rfl).1

end Cobweb.C15
