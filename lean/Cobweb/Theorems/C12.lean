/-
  C12 — Events sent to one system from one run arrive in the order sent.  **Violated by the pinned code (finding F1).**

  Deliveries to an idle target are consumed in-line, each before the next command of the sender is applied (C09
  telescoping). Deliveries to a busy target are postponed in sending order and replayed front to back by the target's
  runner (`replay_*`): the *runs* happen in sending order. What each run *reads* is decided by the trackers: the claim
  order equals the sending order when at most two entries are pending for the target in a tracker (`claims_in_order_two`),
  and differs for three or more (`C12_false`, witness X1 of DESIGN §8).
-/
import Cobweb.Proofs.Trackers
import Cobweb.Theorems.C09
import Cobweb.Theorems.C03

namespace Cobweb.C12

/-- A postponed delivery is appended to the *end* of the postponed queue: sending order is queue order. -/
theorem postponed_in_sending_order (s : St) (sys idx : Nat) (k : Kind) (hal : s.alive sys = true)
    (hb : s.storage sys = some false) (hidx : idx ≠ 0) :
    (doRunnerLookup s sys k idx).buffered = s.buffered ++ [(sys, k)] :=
  (C09.postponed_when_busy s sys idx k hal hb hidx).2

/-- The replay loop walks the queue front to back: the first entry of the target is run first ... -/
theorem replay_front_first (s : St) (sys idx : Nat) (k : Kind) (bs kept : List (Nat × Kind)) :
    (doReplayLoop s sys ((sys, k) :: bs) kept idx).stack =
      Frame.runnerStart sys k :: Frame.replayLoop sys bs kept idx :: s.stack :=
  C09.replay_runs_own_entries s sys idx k bs kept

/-- ... and entries of other targets keep their relative order (stable `retain`, then `append`). -/
theorem replay_stable (s : St) (sys other idx : Nat) (k : Kind) (bs kept : List (Nat × Kind)) (hne : other ≠ sys) :
    doReplayLoop s sys ((other, k) :: bs) kept idx = s.push [.replayLoop sys bs (kept ++ [(other, k)]) idx] :=
  C09.replay_keeps_others s sys other idx k bs kept hne

/-- **In order for one or two pending events**: the first `start` claims the first entry, the second the remaining one. -/
theorem claims_in_order_two (sys a b : Nat) :
    C03.claimOrder 2 { prepared := [(sys, a), (sys, b)] } sys = [a, b] := by
  simp [C03.claimOrder, TrkData.start, findIdx', swapRemove]

/-- **C12 is false of the pinned code** (finding F1): four system events sent in the order 1,2,3,4 to a busy system are
    read in the order 1,4,3,2. -/
theorem C12_false : C03.claimOrder 4 { prepared := [(7, 1), (7, 2), (7, 3), (7, 4)] } 7 ≠ [1, 2, 3, 4] := by decide

/-- Entries of other systems in between do not disturb the claim of the first matching entry. -/
theorem claim_skips_others (t : TrkData) (sys d : Nat) (pre post : List (Nat × Nat))
    (hp : t.prepared = pre ++ (sys, d) :: post) (hpre : ∀ x ∈ pre, x.1 ≠ sys) : (t.start sys).cur = d :=
  C03.claim_exact_of_first t sys d pre post hp hpre

example : C03.claimOrder 2 { prepared := [(3, 10), (3, 20)] } 3 = [10, 20] := claims_in_order_two 3 10 20

end Cobweb.C12
