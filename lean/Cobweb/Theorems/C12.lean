/-
  C12 — Events sent to one system from one run arrive in the order sent.  **Holds after the repair of finding F1.**

  Deliveries to an idle target are consumed in-line, each before the next command of the sender is applied (C09
  telescoping). Deliveries to a busy target are postponed in sending order and replayed front to back by the target's
  runner (`replay_*`): the *runs* happen in sending order. What each run *reads* is decided by the trackers: every run
  claims the entry its own command prepared (`each_with_its_own_data`, for every execution: `C03.C03_all`), so the data
  arrive in sending order too — for any number of pending events (`claims_in_order`, and the former counter-witness
  `four_events_in_order`).
-/
import Cobweb.Proofs.Boot
import Cobweb.Proofs.Trackers
import Cobweb.Theorems.C09
import Cobweb.Theorems.C03

namespace Cobweb.C12

/-- A postponed delivery is appended to the *end* of the postponed queue: sending order is queue order. -/
theorem postponed_in_sending_order (s : St) (sys idx : Nat) (k : Kind) (hal : s.alive sys = true)
    (hb : s.storage sys = some false) (hidx : idx ≠ 0) :
    (doRunnerLookup s sys k idx).buffered = s.buffered ++ [(sys, k)] :=
  (C09.postponed_when_busy s sys idx k hal hb hidx).2

/-- The replay loop walks the queue front to back: the first entry of the target is run first ... -/
theorem replay_front_first (s : St) (sys idx : Nat) (k : Kind) (bs kept : List (Nat × Kind)) :
    (doReplayLoop s sys ((sys, k) :: bs) kept idx).stack =
      Frame.runnerStart sys k :: Frame.replayLoop sys bs kept idx :: s.stack :=
  C09.replay_runs_own_entries s sys idx k bs kept

/-- ... and entries of other targets keep their relative order (stable `retain`, then `append`). -/
theorem replay_stable (s : St) (sys other idx : Nat) (k : Kind) (bs kept : List (Nat × Kind)) (hne : other ≠ sys) :
    doReplayLoop s sys ((other, k) :: bs) kept idx = s.push [.replayLoop sys bs (kept ++ [(other, k)]) idx] :=
  C09.replay_keeps_others s sys other idx k bs kept hne

/-- **In order for any number of pending events**: successive `start`s, each with the ticket of its own command, read the
    events in the order in which the commands run — when that is the sending order (queue order, above), the data arrive in
    sending order. Stated for a tracker holding exactly the entries of one system, without repetition. -/
theorem claims_in_order (sys : Nat) : ∀ (ds : List Nat), ds.Nodup →
    ∀ (t : TrkData), t.prepared = ds.map (fun d => (sys, d)) → C03.claimOrder ds t sys = ds := by
  intro ds
  induction ds with
  | nil => intro _ t _; rfl
  | cons d ds ih =>
    intro hn t hp
    have hm : (sys, d) ∈ t.prepared := by rw [hp]; simp
    obtain ⟨_, h2, h3⟩ := TrkData.start_claims_own t sys d hm
    simp only [C03.claimOrder, h2]
    rw [ih (List.nodup_cons.mp hn).2 (t.start sys d) (by rw [h3, hp]; simp)]

/-- The former counter-witness of finding F1: four system events sent in the order 1,2,3,4 to a busy system are read in the
    order 1,2,3,4 (the pinned code read 1,4,3,2). -/
theorem four_events_in_order : C03.claimOrder [1, 2, 3, 4] { prepared := [(7, 1), (7, 2), (7, 3), (7, 4)] } 7 = [1, 2, 3, 4] :=
  C03.claims_in_sending_order

/-- Entries of other systems, or other entries of the same system, do not disturb the claim of a command's own entry. -/
theorem claim_skips_others (t : TrkData) (sys d : Nat) (h : (sys, d) ∈ t.prepared) : (t.start sys d).cur = d :=
  C03.claim_exact_of_present t sys d h

/-- **Each with its own data, for every execution**: whenever a command reaches its run — in-line or replayed after a
    postponement — the trackers hold exactly the metadata this command prepared. -/
theorem each_with_its_own_data (p : Prog) (h : Hist) {s : St} {s0 : St} (hI0 : CoreInv s0) (hr : Reach p h s0 s) {sys idx : Nat} {k : Kind}
    {rest : List Frame} (hst : s.stack = Frame.runnerLookup sys k idx :: rest) :
    claimedOwn (setupK { s with stack := rest, storage := upd s.storage sys (some false), counter := s.counter + 1 } k sys) k = true :=
  (C03.C03_all p h hI0 hr hst).1

example : C03.claimOrder [10, 20] { prepared := [(3, 10), (3, 20)] } 3 = [10, 20] :=
  claims_in_order 3 [10, 20] (by decide) _ rfl

end Cobweb.C12
