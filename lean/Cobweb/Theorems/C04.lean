/-
  C04 — Event data is invisible outside the run it caused.

  Readers are gated by the trackers' `currently_reacting` flags. `setup` (tracker `start`) runs immediately before the
  body; `cleanup` (tracker `end`) runs after the body and *before* anything the body queued: for an ordinary system it
  is the frame directly after the body, for an exclusive system it is queued on the world queue before the body runs.
  Hence every command applied by anyone — nested reactions, manual runs, a re-run of the same reactor, probes — starts
  from cleared flags and sees only what its own `setup` establishes.
-/
import Cobweb.Proofs.Frames
import Cobweb.Proofs.Boot
import Cobweb.Proofs.Trackers
import Cobweb.Proofs.Flags
import Cobweb.Theorems.C03
import Cobweb.Proofs.FlagsExact

namespace Cobweb.C04

/-- All four trackers idle (componentwise form of `Cobweb.Idle`). -/
def Idle (s : St) : Prop :=
  s.trkSys.reacting = false ∧ s.trkEvt.reacting = false ∧ s.trkEnt.reacting = false ∧ s.trkDsp.reacting = false

theorem idle_iff (s : St) : Cobweb.Idle s ↔ Idle s := by
  simp [Cobweb.Idle, Fl, Idle]

/-- **C04, whole executions.** In every state reachable by any program and any history, whenever the runner is about to
    look up the target of a command — a nested reaction, a manual run, a re-run of the same reactor, a probe, at any
    depth of any tree — all four trackers are idle and the world queue is empty: the run that follows can read only what
    its own `setup` establishes (`idle_sees_nothing`, `C03` partial theorems), never the data of the run that queued it. -/
theorem C04_every_run_starts_idle (p : Prog) (h : Hist) {s0 s : St} (hc : Ctl s0) (ho : OnceInv s0) (hf : FlagInv s0)
    (hr : Reach p h s0 s) {sys idx : Nat} {k : Kind} {rest : List Frame} (hst : s.stack = .runnerLookup sys k idx :: rest) :
    Idle s ∧ s.wq = [] := by
  obtain ⟨_, _, f⟩ := all_reach p h hc ho hf hr
  have := f.top; rw [hst] at this
  exact ⟨(idle_iff s).mp this.1, this.2⟩

/-- **An exclusive run's access ends with its first flush.** In every execution: while the body of an exclusive system is
    running, either its reader clean-up is still the first command on the world queue — nothing the body queued has been
    applied yet — or all four trackers are idle. In particular, once the world queue has been flushed in the middle of the
    body (`world.flush()`, or an in-line `World`-level sender, which flushes) the rest of the body reads no event, and neither
    does anything that flush applied (`C04_commands_start_idle`). (Reading R6: `run_initialized_system` queues an exclusive
    system's clean-up before its body.) -/
theorem C04_exclusive_body_access (p : Prog) (h : Hist) {s0 s : St} (hc : Ctl s0) (ho : OnceInv s0) (hf : FlagInv s0)
    (hr : Reach p h s0 s) {sys i : Nat} {rest : List Frame} (hst : s.stack = .exclActs sys i :: rest) :
    (∃ k tl, s.wq = Cmd.cleanup k :: tl) ∨ Idle s := by
  obtain ⟨_, _, f⟩ := all_reach p h hc ho hf hr
  have := f.top; rw [hst] at this
  rcases this with ⟨k, tl, hwq, _, _⟩ | ⟨hi, _⟩
  · exact Or.inl ⟨k, tl, hwq⟩
  · exact Or.inr ((idle_iff s).mp hi)

theorem C04_exclusive_body_after_flush (p : Prog) (h : Hist) {s0 s : St} (hc : Ctl s0) (ho : OnceInv s0) (hf : FlagInv s0)
    (hr : Reach p h s0 s) {sys i : Nat} {rest : List Frame} (hst : s.stack = .exclActs sys i :: rest) (hw : s.wq = []) : Idle s := by
  rcases C04_exclusive_body_access p h hc ho hf hr hst with ⟨k, tl, hwq⟩ | hi
  · rw [hw] at hwq; cases hwq
  · exact hi

/-- Non-vacuity: a body that flushes leaves its own frame below the flush, the queued clean-up still first in line. -/
example : (doExclActs (fun _ _ _ => some Act.flushWorld) ({ wq := [Cmd.cleanup .plain] } : St) 3 0).stack = [Frame.flush, Frame.exclActs 3 1] ∧
    (doExclActs (fun _ _ _ => some Act.flushWorld) ({ wq := [Cmd.cleanup .plain] } : St) 3 0).wq = [Cmd.cleanup .plain] := by
  constructor <;> rfl

/-- The same at every command boundary: when a batch is about to apply a command that is not the queued cleanup of an
    exclusive system, the trackers are idle. -/
theorem C04_commands_start_idle (p : Prog) (h : Hist) {s0 s : St} (hc : Ctl s0) (ho : OnceInv s0) (hf : FlagInv s0)
    (hr : Reach p h s0 s) {c : Cmd} {cs : List Cmd} {rest : List Frame} (hst : s.stack = .batch (c :: cs) :: rest)
    (hnc : isCleanup c = false) : Idle s := by
  obtain ⟨_, _, f⟩ := all_reach p h hc ho hf hr
  have := f.top; rw [hst] at this
  rcases this with ⟨k, tl, hcs, _⟩ | ⟨hi, _, _⟩
  · simp only [List.cons.injEq] at hcs; rw [hcs.1] at hnc; cases hnc
  · exact (idle_iff s).mp hi

/-- A flag is set only while the cleanup that clears it is the very next thing the machine does: the top of the stack
    is the body (ordinary), its `cleanup` frame, or — for an exclusive system — the body / the flush / the batch whose
    first command is the queued cleanup; or — when an exclusive body applies a command in-line — the prelude of that
    command's runner (collector, poll), which runs with the body's clean-up still first in the world queue and ends in
    the poll's flush (`FlagInv.lead`). -/
theorem C04_flag_means_cleanup_pending (p : Prog) (h : Hist) {s0 s : St} (hc : Ctl s0) (ho : OnceInv s0) (hf : FlagInv s0)
    (hr : Reach p h s0 s) (hflag : ¬ Idle s) :
    ∃ f rest, s.stack = f :: rest ∧
      ((∃ sys k i acc, f = .bodyActs sys k i acc) ∨ (∃ k, f = .cleanup k) ∨ (∃ sys i, f = .exclActs sys i) ∨
       f = .flush ∨ (∃ k tl, f = .batch (Cmd.cleanup k :: tl)) ∨
       (((∃ sys k, f = .runnerStart sys k) ∨ f = .gc ∨ (∃ w, f = .despawnWork w) ∨ f = .poll) ∧
        ∃ k tl, s.wq = Cmd.cleanup k :: tl)) := by
  obtain ⟨_, _, fi⟩ := all_reach p h hc ho hf hr
  have ht := fi.top
  cases hst : s.stack with
  | nil => rw [hst] at ht; exact absurd ((idle_iff s).mp ht.1) hflag
  | cons f rest =>
    rw [hst] at ht
    refine ⟨f, rest, rfl, ?_⟩
    cases f with
    | bodyActs sys k i acc => exact Or.inl ⟨sys, k, i, acc, rfl⟩
    | cleanup k => exact Or.inr (Or.inl ⟨k, rfl⟩)
    | exclActs sys i => exact Or.inr (Or.inr (Or.inl ⟨sys, i, rfl⟩))
    | flush => exact Or.inr (Or.inr (Or.inr (Or.inl rfl)))
    | batch cs =>
      rcases ht with ⟨k, tl, hcs, _⟩ | ⟨hi, _, _⟩
      · exact Or.inr (Or.inr (Or.inr (Or.inr (Or.inl ⟨k, tl, by rw [hcs]⟩))))
      · exact absurd ((idle_iff s).mp hi) hflag
    | topActs t i => exact absurd ((idle_iff s).mp ht.1) hflag
    | runnerStart sys k =>
      rcases ht with ⟨k', tl, hwq, _, _⟩ | ⟨hi, _⟩
      · exact Or.inr (Or.inr (Or.inr (Or.inr (Or.inr ⟨Or.inl ⟨sys, k, rfl⟩, k', tl, hwq⟩))))
      · exact absurd ((idle_iff s).mp hi) hflag
    | gc =>
      rcases ht with ⟨k', tl, hwq, _, _⟩ | ⟨hi, _⟩
      · exact Or.inr (Or.inr (Or.inr (Or.inr (Or.inr ⟨Or.inr (Or.inl rfl), k', tl, hwq⟩))))
      · exact absurd ((idle_iff s).mp hi) hflag
    | despawnWork w =>
      rcases ht with ⟨k', tl, hwq, _, _⟩ | ⟨hi, _⟩
      · exact Or.inr (Or.inr (Or.inr (Or.inr (Or.inr ⟨Or.inr (Or.inr (Or.inl ⟨w, rfl⟩)), k', tl, hwq⟩))))
      · exact absurd ((idle_iff s).mp hi) hflag
    | poll =>
      rcases ht with ⟨k', tl, hwq, _, _⟩ | ⟨hi, _⟩
      · exact Or.inr (Or.inr (Or.inr (Or.inr (Or.inr ⟨Or.inr (Or.inr (Or.inr rfl)), k', tl, hwq⟩))))
      · exact absurd ((idle_iff s).mp hi) hflag
    | _ => exact absurd ((idle_iff s).mp ht.1) hflag

example : FlagInv ({} : St) := flag_default

/-- With idle trackers every reader reports nothing — whatever stale `data_entity` / source the trackers still hold
    and even if that data entity is still alive (a broadcast with further readers to come). -/
theorem idle_sees_nothing (s : St) (h : Idle s) :
    (∀ kd ty, readData s s.trkEvt kd ty = none) ∧ (∀ ty, readData s s.trkSys .sys ty = none) ∧
    (∀ k ty, readEnt s k ty = none) ∧ (observe s none).1.dsp = none := by
  obtain ⟨h1, h2, h3, h4⟩ := h
  exact ⟨fun kd ty => C03.readData_idle s _ _ ty h2, fun ty => C03.readData_idle s _ _ ty h1,
         fun k ty => C03.readEnt_idle s k ty h3, by simp [observe, h4]⟩

/-- `cleanup` of a kind clears exactly the flags its `setup` can set: after a run's cleanup the trackers are idle again
    (given that only that run's trackers were flagged). -/
theorem cleanup_restores_idle (s : St) (k : Kind) (hf : C03.FlagsFor s k) : Idle (cleanupK s k) := by
  cases k <;> simp only [C03.FlagsFor] at hf <;> obtain ⟨h1, h2, h3, h4⟩ := hf
  · exact ⟨h1, h2, h3, h4⟩
  · refine ⟨by simp [cleanupK], ?_, ?_, ?_⟩ <;> simp [cleanupK, h2, h3, h4]
  · refine ⟨?_, ?_, by simp [cleanupK], ?_⟩ <;> simp [cleanupK, h1, h2, h4]
  · refine ⟨?_, ?_, ?_, ?_⟩
    · simp only [cleanupK]; split <;> simp [h1]
    · simp only [cleanupK]; split <;> simp [h2]
    · simp only [cleanupK]; split <;> simp [h3]
    · simp only [cleanupK]; split <;> simp
  · refine ⟨?_, ?_, ?_, ?_⟩ <;> simp [cleanupK, h1, h4]
  · refine ⟨?_, ?_, ?_, ?_⟩ <;> simp [cleanupK, h1, h3, h4]

/-- `setup` from idle trackers flags at most the trackers of its own kind. -/
theorem setup_flags_own_only (s : St) (k : Kind) (sys : Nat) (h : Idle s) :
    (∀ d, k ≠ .sysEv d) → (setupK s k sys).trkSys.reacting = false := by
  obtain ⟨h1, _, _, _⟩ := h
  intro hk
  cases k <;> simp_all [setupK]
  · split <;> simp [h1]

/-- **Cleanup placement, ordinary systems**: when the body of an ordinary system ends, the next frame is its cleanup;
    the body's own commands (`batch acc`) come after it. -/
theorem ordinary_cleanup_first (p : Prog) (s : St) (sys : Nat) (k : Kind) (i : Nat) (acc : List Cmd) (hend : p sys i s = none) :
    (doBodyActs p s sys k i acc).stack = Frame.cleanup k :: Frame.flush :: Frame.batch acc :: s.stack := by
  simp [doBodyActs, hend, St.push, St.emit]

/-- **Cleanup placement, exclusive systems**: the cleanup is on the world queue before the body queues anything, so it
    is the first command the flush after the body applies. -/
theorem exclusive_cleanup_queued_first (s : St) (sys idx : Nat) (k : Kind) (hal : s.alive sys = true)
    (hst : s.storage sys = some true) (hno : (s.info sys).once = none) (hex : (s.info sys).excl = true) :
    ∃ s' : St, (doRunnerLookup s sys k idx).wq = s'.wq ++ [Cmd.cleanup k] ∧ s'.wq = s.wq ∧
      (doRunnerLookup s sys k idx).stack = Frame.exclActs sys 0 :: Frame.afterBody sys idx :: s.stack := by
  refine ⟨startBody { s with storage := upd s.storage sys (some false), counter := s.counter + 1 } sys k, ?_, by simp, ?_⟩
  · simp [doRunnerLookup, hal, hst, hno, hex, St.push]
  · simp [doRunnerLookup, hal, hst, hno, hex, St.push]

/-- Commands an exclusive body queues go behind the cleanup. -/
theorem exclusive_body_appends (p : Prog) (s : St) (sys i : Nat) (a : Act) (h : p sys i s = some a) (hn : ∀ t, a ≠ .runNow t) :
    (doExclActs p s sys i).wq = (enqueue s a).1.wq ++ (enqueue s a).2 := by
  unfold doExclActs
  split
  · rename_i h0; rw [h] at h0; cases h0
  · rename_i t h0; rw [h] at h0; cases h0; exact absurd rfl (hn t)
  · rename_i a' _ h0; rw [h] at h0; cases h0; simp [St.push]

/-- ... except a command applied in-line (`SystemCommand::apply(world)`): its runner starts at once, over whatever the body
    has queued; the runner's own poll flushes that — the body's clean-up first — before the target is looked up
    (`C04_every_run_starts_idle` still holds for it). -/
theorem exclusive_body_applies_inline (p : Prog) (s : St) (sys i t : Nat) (h : p sys i s = some (.runNow t)) :
    (doExclActs p s sys i).stack = Frame.runnerStart t .plain :: Frame.exclActs sys (i + 1) :: s.stack ∧ (doExclActs p s sys i).wq = s.wq := by
  simp [doExclActs, h, St.push]

/-- **Abort path**: `setup` immediately followed by `cleanup` — from idle trackers it returns to idle trackers. -/
theorem abort_keeps_idle_sys (s : St) (sys d : Nat) :
    (cleanupK (setupK s (.sysEv d) sys) (.sysEv d)).trkSys.reacting = false := by
  simp [cleanupK]

/-- **A system-event payload can be taken at most once**: the first `take` marks the data as taken; a second `take`
    (`sysEv2`, or any later reader) gets nothing. -/
theorem take_once (s : St) (w : Option Nat) (ty : Nat) (x : DataEnt)
    (h : readData s s.trkSys .sys ty = some x) (hty : ty < numTy) :
    ∀ ty', (match readData (observe s w).2 (observe s w).2.trkSys .sys ty' with
            | some y => if y.taken then none else some y.pid
            | none => none) = none := by
  intro ty'
  simp only [readData] at h
  split at h
  · rename_i hr
    split at h
    · rename_i y hy
      split at h
      · rename_i hc
        simp only [Option.some.injEq] at h; subst h
        have hobs : (observe s w).2 = bumpLocal { s with data := upd s.data s.trkSys.cur (some { y with taken := true }) } w := by
          simp only [observe, hr, ↓reduceIte, hy]
          have : y.kind = DKind.sys ∧ s.alive s.trkSys.cur = true ∧ y.ty < numTy := ⟨hc.1, hc.2.2, by rw [hc.2.1]; exact hty⟩
          simp [this]
        rw [hobs]
        simp only [readData, bumpLocal_trkSys, bumpLocal_data, bumpLocal_alive, hr, ↓reduceIte, upd_same]
        split
        · rename_i z hz
          split at hz
          · simp only [Option.some.injEq] at hz; subst hz; simp
          · cases hz
        · rfl
      · cases h
    · cases h
  · cases h

/-- **The flags are exact (converse of `C04_flag_means_cleanup_pending`), for every execution**: while the cleanup of a
    run caused by a command of kind `k` is the next thing to happen to the trackers — the body is being interpreted, or
    has just ended, or (exclusive systems) the queued cleanup is at the head of the world queue — every tracker that `k`
    uses *is* flagged as reacting: the run can read its event. Together with `C04_every_run_starts_idle` and
    `C04_flag_means_cleanup_pending`: a tracker is flagged exactly from the `setup` of a run that uses it to that run's
    `cleanup`. -/
theorem C04_flags_exact {p : Prog} {h : Hist} {s : St} {s0 : St} (hI0 : CoreInv s0) (hr : Reach p h s0 s) (k : Kind) (T : TrkId)
    (hp : PendCleanup s k) (hu : uses T k = true) : flagOf T s = true :=
  ((core_reach_from p h hI0 hr).inv5).used k T hp hu

example : Used ({} : St) := used_default

example : Idle ({} : St) := ⟨rfl, rfl, rfl, rfl⟩

/-- **A manual run, and every run not caused by an event, sees nothing — for every execution**: when a command of kind
    `plain` (a manual `SystemCommand`, a resource-mutation reaction) reaches its run, all four trackers are idle after its
    `setup`, so every reader reports that there is nothing to read (`idle_sees_nothing`); and a run caused by an event sees
    that event only (`C03.C03_all` with the per-reader theorems). Together with `C04_flags_exact` (the flags stay exactly
    these until the run's cleanup) and the cleanup placement lemmas this is C04 for whole executions. -/
theorem C04_plain_run_sees_nothing (p : Prog) (h : Hist) {s : St} {s0 : St} (hI0 : CoreInv s0) (hr : Reach p h s0 s) {sys idx : Nat} {rest : List Frame}
    (hst : s.stack = Frame.runnerLookup sys .plain idx :: rest) :
    Idle (setupK { s with stack := rest, storage := upd s.storage sys (some false), counter := s.counter + 1 } .plain sys) := by
  have := (C03.C03_all p h hI0 hr hst).2
  simpa [C03.FlagsFor, Idle] using this

end Cobweb.C04
