/-
  C11 — The framework is quiescent between reaction trees (control part: counter, postponed queue, callbacks).
-/
import Cobweb.Proofs.Flags

namespace Cobweb.C11

variable (p : Prog) (h : Hist) {s0 s : St}

/-- At quiescence the tree counter is reset, nothing is postponed and every surviving system command has its
    callback back. -/
theorem quiescent_control (hc : Ctl s0) (hr : Reach p h s0 s) (hq : s.stack = []) :
    s.counter = 0 ∧ s.buffered = [] ∧ ∀ e, s.alive e = true → s.storage e ≠ some false := by
  have c := ctl_reach p h hc hr
  refine ⟨?_, ?_, ?_⟩
  · apply c.counter.mpr; rw [hq]; rfl
  · cases hb : s.buffered with
    | nil => rfl
    | cons b bs =>
      have := c.buffered b (by rw [hb]; simp)
      rw [hq] at this; cases this
  · intro e _ hsto
    have := c.takenRunning e hsto
    rw [hq] at this; cases this

/-- At quiescence no event metadata is marked as being read and the world command queue is empty. -/
theorem quiescent_flags (hc : Ctl s0) (ho : OnceInv s0) (hf : FlagInv s0) (hr : Reach p h s0 s) (hq : s.stack = []) :
    s.trkSys.reacting = false ∧ s.trkEvt.reacting = false ∧ s.trkEnt.reacting = false ∧ s.trkDsp.reacting = false ∧ s.wq = [] := by
  obtain ⟨_, _, f⟩ := all_reach p h hc ho hf hr
  have := f.top; rw [hq] at this
  have hi : Fl s = (false, false, false, false) := this.1
  simp only [Fl, Prod.mk.injEq] at hi
  exact ⟨hi.1, hi.2.1, hi.2.2.1, hi.2.2.2, this.2⟩

example : Ctl ({} : St) ∧ OnceInv ({} : St) ∧ FlagInv ({} : St) := ⟨ctl_default, once_default, flag_default⟩

end Cobweb.C11
