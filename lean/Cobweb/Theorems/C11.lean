/-
  C11 — The framework is quiescent between reaction trees (control part: counter, postponed queue, callbacks).
-/
import Cobweb.Proofs.Boot
import Cobweb.Proofs.PendingD

namespace Cobweb.C11

variable (p : Prog) (h : Hist) {s0 s : St}

/-- At quiescence the tree counter is reset, nothing is postponed and every surviving system command has its
    callback back. -/
theorem quiescent_control (hc : Ctl s0) (hr : Reach p h s0 s) (hq : s.stack = []) :
    s.counter = 0 ∧ s.buffered = [] ∧ ∀ e, s.alive e = true → s.storage e ≠ some false := by
  have c := ctl_reach p h hc hr
  refine ⟨?_, ?_, ?_⟩
  · apply c.counter.mpr; rw [hq]; rfl
  · cases hb : s.buffered with
    | nil => rfl
    | cons b bs =>
      have := c.buffered b (by rw [hb]; simp)
      rw [hq] at this; cases this
  · intro e _ hsto
    have := c.takenRunning e hsto
    rw [hq] at this; cases this

/-- At quiescence no event metadata is marked as being read and the world command queue is empty. -/
theorem quiescent_flags (hc : Ctl s0) (ho : OnceInv s0) (hf : FlagInv s0) (hr : Reach p h s0 s) (hq : s.stack = []) :
    s.trkSys.reacting = false ∧ s.trkEvt.reacting = false ∧ s.trkEnt.reacting = false ∧ s.trkDsp.reacting = false ∧ s.wq = [] := by
  obtain ⟨_, _, f⟩ := all_reach p h hc ho hf hr
  have := f.top; rw [hq] at this
  have hi : Fl s = (false, false, false, false) := this.1
  simp only [Fl, Prod.mk.injEq] at hi
  exact ⟨hi.1, hi.2.1, hi.2.2.1, hi.2.2.2, this.2⟩

/-- At quiescence no tracker holds a prepared entry: every entry that was prepared has been consumed by the `setup` of
    the command that waited for it (run or aborted), along every execution. -/
theorem quiescent_trackers (hc : Ctl s0) (hp : PendD s0) (hr : Reach p h s0 s) (hq : s.stack = []) :
    s.trkSys.prepared = [] ∧ s.trkEvt.prepared = [] ∧ s.trkEnt.prepared = [] ∧ s.trkDsp.prepared = [] := by
  have hb := (quiescent_control p h hc hr hq).2.1
  have hP := pend_of_pendD (pendD_reach p h hp hr)
  have hnil : ∀ T, prep T s = [] := by
    intro T
    have := hP T
    simp only [allPending, hb, hq, stackPending, List.flatMap_nil, List.append_nil, pend_nil] at this
    exact List.Perm.eq_nil this
  exact ⟨by simpa [prep] using hnil .sys, by simpa [prep] using hnil .evt, by simpa [prep] using hnil .ent,
    by simpa [prep] using hnil .dsp⟩

/-- **C11 for the model, in one statement**: in every quiescent state reachable from the initial state, the tree
    counter is zero, no command is postponed, every live system command has its callback, no tracker is flagged as
    reacting or holds a prepared entry, and the world command queue is empty. -/
theorem C11_quiescent {s0 : St} (hI0 : CoreInv s0) (hr : Reach p h s0 s) (hq : s.stack = []) :
    s.counter = 0 ∧ s.buffered = [] ∧ (∀ e, s.alive e = true → s.storage e ≠ some false) ∧
    (s.trkSys.reacting = false ∧ s.trkEvt.reacting = false ∧ s.trkEnt.reacting = false ∧ s.trkDsp.reacting = false) ∧
    (s.trkSys.prepared = [] ∧ s.trkEvt.prepared = [] ∧ s.trkEnt.prepared = [] ∧ s.trkDsp.prepared = []) ∧ s.wq = [] := by
  obtain ⟨a, b, c⟩ := quiescent_control p h hI0.inv5.ctl hr hq
  obtain ⟨f1, f2, f3, f4, w⟩ := quiescent_flags p h hI0.inv5.ctl hI0.inv5.once hI0.inv5.flag hr hq
  exact ⟨a, b, c, ⟨f1, f2, f3, f4⟩, quiescent_trackers p h hI0.inv5.ctl hI0.inv5.pendD hr hq, w⟩

example : Ctl ({} : St) ∧ OnceInv ({} : St) ∧ FlagInv ({} : St) ∧ PendD ({} : St) :=
  ⟨ctl_default, once_default, flag_default, pendD_default⟩

end Cobweb.C11
