/-
  C11 — The framework is quiescent between reaction trees (control part: counter, postponed queue, callbacks).
-/
import Cobweb.Proofs.CtlStep

namespace Cobweb.C11

variable (p : Prog) (h : Hist) {s0 s : St}

/-- At quiescence the tree counter is reset, nothing is postponed and every surviving system command has its
    callback back. -/
theorem quiescent_control (hc : Ctl s0) (hr : Reach p h s0 s) (hq : s.stack = []) :
    s.counter = 0 ∧ s.buffered = [] ∧ ∀ e, s.alive e = true → s.storage e ≠ some false := by
  have c := ctl_reach p h hc hr
  refine ⟨?_, ?_, ?_⟩
  · apply c.counter.mpr; rw [hq]; rfl
  · cases hb : s.buffered with
    | nil => rfl
    | cons b bs =>
      have := c.buffered b (by rw [hb]; simp)
      rw [hq] at this; cases this
  · intro e _ hsto
    have := c.takenRunning e hsto
    rw [hq] at this; cases this

example : Ctl ({} : St) := ctl_default

end Cobweb.C11
