/-
  C18 — Stale references are harmless.

  * no system is ever entered on behalf of a dead target: the runner's `enter` (and the body) happen only for a live
    entity that carries its callback;
  * a command whose target is gone runs `setup` then `cleanup` (so whatever payload it carries is released through the
    same count discipline as a normal run) and pushes nothing that could run a system;
  * for every step of every execution: no body starts for a system that is not alive when the step begins
    (`no_run_for_dead_target`), and at quiescence every payload — also those aimed at dead targets — has been dropped
    (`stale_payloads_released`, from the payload accounting `PayInv`);
  * registration / revocation / triggers naming dead entities change no table of any other key (see also C06);
  * the model's `step` is total — every lookup is an `Option` match, there is no panic constructor; the "does not
    panic" half of the property therefore rests on the correspondence check (`catch_unwind` around every scenario).
-/
import Cobweb.Proofs.Dead
import Cobweb.Proofs.Boot
import Cobweb.Proofs.CtlStep
import Cobweb.Proofs.Counts
import Cobweb.Theorems.C05

namespace Cobweb.C18

/-- The events a state transformer appended to the trace (newest first). -/
def emitted (s s' : St) : List Ev := s'.trace.take (s'.trace.length - s.trace.length)

/-- **A stale reference stays stale** (every execution): an entity id that has been allocated and is dead is dead in every
    later state — ids come from a counter that never decreases, nothing is resurrected (`Proofs/Dead.lean`). Together with
    `dead_target_aborts` / `no_run_for_dead_target`: once its target is gone, a reference can never again run anything. -/
theorem stale_reference_stays_stale {p : Prog} {h : Hist} {s s' : St} (hr : Reach p h s s') (x : Nat) (hx : x < s.nextEnt)
    (hd : s.alive x = false) : s'.alive x = false := dead_stays_dead hr x hx hd

/-- If the target entity is dead when the command is reached, the runner emits `abortNoEntity`, changes no callback,
    counter or queue, and pushes only the abort frames (setup, cleanup, gc, poll): nothing runs. -/
theorem dead_target_aborts (s : St) (sys idx : Nat) (k : Kind) (h : s.alive sys = false) :
    doRunnerLookup s sys k idx = (s.emit (.abortNoEntity sys)).push (abortFrames sys k) := by
  simp [doRunnerLookup, h]

/-- Same when the entity exists but is not a system command. -/
theorem not_a_system_aborts (s : St) (sys idx : Nat) (k : Kind) (h : s.alive sys = true) (hs : s.storage sys = none) :
    doRunnerLookup s sys k idx = (s.emit (.abortNoStorage sys)).push (abortFrames sys k) := by
  simp [doRunnerLookup, h, hs]

/-- The abort path is `setup; cleanup`: exactly the bookkeeping of a normal run without the body. -/
theorem abort_is_setup_cleanup (p : Prog) (h : Hist) (s : St) (sys : Nat) (k : Kind) :
    runFrame p h s (.abort sys k) = cleanupK (setupK s k sys) k := rfl

/-- A body is started (the `enter` event is emitted) only for a live target whose callback is present. -/
theorem enter_only_if_alive (s : St) (sys idx : Nat) (k : Kind)
    (h : Ev.enter sys ∈ (doRunnerLookup s sys k idx).trace) (hn : Ev.enter sys ∉ s.trace) :
    s.alive sys = true ∧ s.storage sys = some true := by
  unfold doRunnerLookup at h
  split at h
  · simp [St.emit, St.push] at h; exact absurd h hn
  · rename_i ha
    have ha : s.alive sys = true := by simpa using ha
    split at h
    · simp [St.emit, St.push] at h; exact absurd h hn
    · split at h
      · simp [St.emit, St.push] at h; exact absurd h hn
      · simp [St.emit] at h; exact absurd h hn
    · rename_i hs; exact ⟨ha, hs⟩

/-- Registering an entity-scoped trigger for a dead entity registers nothing and releases the handle clone it owned. -/
theorem register_dead_entity (s : St) (rt : RType) (e : Nat) (h : Handle) (hd : s.alive e = false)
    (hn : s.entReactors e = none) : applyCmd s (.regEnt rt e h) = dropHandle s h := by
  simp [applyCmd, hn, hd]

theorem register_dead_despawn (s : St) (e : Nat) (h : Handle) (hd : s.alive e = false) :
    applyCmd s (.regDsp e h) = dropHandle s h := by
  simp [applyCmd, hd]

/-- Revoking entity-scoped triggers of an entity that no longer carries reactors changes nothing. -/
theorem revoke_dead_entity (s : St) (sys e ty : Nat) (hn : s.entReactors e = none) :
    revokeOne s sys (.eIns e ty) = s ∧ revokeOne s sys (.eMut e ty) = s ∧
    revokeOne s sys (.eRem e ty) = s ∧ revokeOne s sys (.eEv e ty) = s := by
  simp [revokeOne, rtOfTrig, hn]

/-- An entity event aimed at an entity without listeners (e.g. a dead one) and without type-wide listeners runs nothing
    and drops its payload at once. -/
theorem entity_event_no_listener (s : St) (e ty pid : Nat) (hn : s.entReactors e = none) (ht : s.tbl .anyEv ty = []) :
    applyCmd s (.entityEvent e ty pid) = s.emit (.dropPayload pid) := by
  simp [applyCmd, entListeners, hn, ht]

/-- Mutating or inserting on a dead entity queues nothing (body-time check). -/
theorem mutate_dead (s : St) (e ty v : Nat) (h : s.comp e = []) : enqueue s (.mutate e ty v) = (s, []) := by
  simp [enqueue, h, alookup]

/-- The machine is total: from any state with a non-empty stack there is a next state. -/
theorem step_total (p : Prog) (h : Hist) (s : St) (hne : s.stack ≠ []) : ∃ s', step p h s = some s' := by
  unfold step
  cases hs : s.stack with
  | nil => exact absurd hs hne
  | cons f rest => exact ⟨_, rfl⟩

/-! ### whole executions -/

/-- What one tick adds to the control trace: events none of which is a `body` or an error outcome — or exactly `enter sys`,
    `body sys` of a system that was alive when the step began. -/
theorem tick_events (p : Prog) (hh : Hist) {s s' : St} (c : Ctl s) (ht : tick p hh s = some s') : GoodEvs s s' ∨ BodyEvs s s' := by
  unfold tick at ht
  split at ht
  · rename_i s'' hs
    simp only [Option.some.injEq] at ht; subst ht
    unfold step at hs
    cases hst : s.stack with
    | nil => rw [hst] at hs; cases hs
    | cons f rest =>
      rw [hst] at hs
      simp only [Option.some.injEq] at hs; subst hs
      by_cases hl : ∃ sys k idx, f = .runnerLookup sys k idx
      · obtain ⟨sys, k, idx, rfl⟩ := hl
        rcases good_lookup ({ s with stack := rest } : St) sys k idx (ctl_not_bad c hst) with g | g
        · exact Or.inl g.1
        · exact Or.inr g
      · exact Or.inl (good_runFrame p hh ({ s with stack := rest } : St) f (ctl_not_bad c hst) (fun a b d hx => hl ⟨a, b, d, hx⟩))
  · split at ht
    · rename_i op _
      simp only [Option.some.injEq] at ht; subst ht
      exact Or.inl (good_startTop ({ s with topIdx := s.topIdx + 1 } : St) _ _)
    · cases ht

/-- **No system runs on behalf of a dead target**: in every execution, a step starts no body of a system that is not alive
    when the step begins — whatever command, reaction, postponed entry or replay named it. -/
theorem no_run_for_dead_target {p : Prog} {h : Hist} {s s' : St} {s0 : St} (hI0 : CoreInv s0) (hr : Reach p h s0 s) (ht : tick p h s = some s')
    (sys : Nat) (hd : s.alive sys = false) : nBody sys s' = nBody sys s := by
  have c := (core_reach_from p h hI0 hr).inv5.ctl
  rcases tick_events p h c ht with ⟨evs, he, hq⟩ | ⟨sys0, obs, he, hal, _⟩
  · simp only [nBody, he]
    exact countP_quiet sys evs (ct s) (fun e h => (hq e h).2)
  · have hne : sys0 ≠ sys := by intro h; rw [h, hd] at hal; cases hal
    simp only [nBody, he, List.countP_cons, isBodyOf]
    simp [hne]

/-- **Whatever payload a stale operation carries is released**: at quiescence every payload that was sent — to live or dead
    targets alike — has been dropped exactly as often as it was sent (payload accounting, `C05`). -/
theorem stale_payloads_released {p : Prog} {h : Hist} {s : St} {s0 : St} (hI0 : CoreInv s0) (hr : Reach p h s0 s) (hq : s.stack = []) (pid : Nat) :
    s.trace.count (.dropPayload pid) = s.trace.count (.send pid) :=
  C05.all_payloads_dropped_at_quiescence hI0 hr hq pid

/-- Non-vacuity: a system is spawned, despawned, and then sent a system event with payload 9: no body ever runs and the
    payload has been dropped once at quiescence. -/
def staleHist : Hist :=
  { op := fun t _ => if t < 3 then some .acts else none,
    act := fun t i _ => match t, i with
      | 0, 0 => some (.spawnSys 0 false)
      | 1, 0 => some (.despawn 0)
      | 2, 0 => some (.sysEvent 0 0 9)
      | _, _ => none }

example : (exec (fun _ _ _ => none) staleHist 200 {}).stack = [] ∧ (exec (fun _ _ _ => none) staleHist 200 {}).alive 0 = false ∧
    nBody 0 (exec (fun _ _ _ => none) staleHist 200 {}) = 0 ∧
    (exec (fun _ _ _ => none) staleHist 200 {}).trace.count (.send 9) = 1 ∧
    (exec (fun _ _ _ => none) staleHist 200 {}).trace.count (.dropPayload 9) = 1 := by decide

/-- Non-vacuity: a dead target in a concrete state. -/
example : doRunnerLookup ({} : St) 3 .plain 0 = (({} : St).emit (.abortNoEntity 3)).push (abortFrames 3 .plain) :=
  dead_target_aborts {} 3 0 .plain rfl

end Cobweb.C18
