/-
  C18 — Stale references are harmless.

  * no system is ever entered on behalf of a dead target: the runner's `enter` (and the body) happen only for a live
    entity that carries its callback;
  * a command whose target is gone runs `setup` then `cleanup` (so whatever payload it carries is released through the
    same count discipline as a normal run) and pushes nothing that could run a system;
  * registration / revocation / triggers naming dead entities change no table of any other key (see also C06);
  * the model's `step` is total — every lookup is an `Option` match, there is no panic constructor; the "does not
    panic" half of the property therefore rests on the correspondence check (`catch_unwind` around every scenario).
-/
import Cobweb.Proofs.CtlStep

namespace Cobweb.C18

/-- The events a state transformer appended to the trace (newest first). -/
def emitted (s s' : St) : List Ev := s'.trace.take (s'.trace.length - s.trace.length)

/-- If the target entity is dead when the command is reached, the runner emits `abortNoEntity`, changes no callback,
    counter or queue, and pushes only the abort frames (setup, cleanup, gc, poll): nothing runs. -/
theorem dead_target_aborts (s : St) (sys idx : Nat) (k : Kind) (h : s.alive sys = false) :
    doRunnerLookup s sys k idx = (s.emit (.abortNoEntity sys)).push (abortFrames sys k) := by
  simp [doRunnerLookup, h]

/-- Same when the entity exists but is not a system command. -/
theorem not_a_system_aborts (s : St) (sys idx : Nat) (k : Kind) (h : s.alive sys = true) (hs : s.storage sys = none) :
    doRunnerLookup s sys k idx = (s.emit (.abortNoStorage sys)).push (abortFrames sys k) := by
  simp [doRunnerLookup, h, hs]

/-- The abort path is `setup; cleanup`: exactly the bookkeeping of a normal run without the body. -/
theorem abort_is_setup_cleanup (p : Prog) (h : Hist) (s : St) (sys : Nat) (k : Kind) :
    runFrame p h s (.abort sys k) = cleanupK (setupK s k sys) k := rfl

/-- A body is started (the `enter` event is emitted) only for a live target whose callback is present. -/
theorem enter_only_if_alive (s : St) (sys idx : Nat) (k : Kind)
    (h : Ev.enter sys ∈ (doRunnerLookup s sys k idx).trace) (hn : Ev.enter sys ∉ s.trace) :
    s.alive sys = true ∧ s.storage sys = some true := by
  unfold doRunnerLookup at h
  split at h
  · simp [St.emit, St.push] at h; exact absurd h hn
  · rename_i ha
    have ha : s.alive sys = true := by simpa using ha
    split at h
    · simp [St.emit, St.push] at h; exact absurd h hn
    · split at h
      · simp [St.emit, St.push] at h; exact absurd h hn
      · simp [St.emit] at h; exact absurd h hn
    · rename_i hs; exact ⟨ha, hs⟩

/-- Registering an entity-scoped trigger for a dead entity registers nothing and releases the handle clone it owned. -/
theorem register_dead_entity (s : St) (rt : RType) (e : Nat) (h : Handle) (hd : s.alive e = false)
    (hn : s.entReactors e = none) : applyCmd s (.regEnt rt e h) = dropHandle s h := by
  simp [applyCmd, hn, hd]

theorem register_dead_despawn (s : St) (e : Nat) (h : Handle) (hd : s.alive e = false) :
    applyCmd s (.regDsp e h) = dropHandle s h := by
  simp [applyCmd, hd]

/-- Revoking entity-scoped triggers of an entity that no longer carries reactors changes nothing. -/
theorem revoke_dead_entity (s : St) (sys e ty : Nat) (hn : s.entReactors e = none) :
    revokeOne s sys (.eIns e ty) = s ∧ revokeOne s sys (.eMut e ty) = s ∧
    revokeOne s sys (.eRem e ty) = s ∧ revokeOne s sys (.eEv e ty) = s := by
  simp [revokeOne, rtOfTrig, hn]

/-- An entity event aimed at an entity without listeners (e.g. a dead one) and without type-wide listeners runs nothing
    and drops its payload at once. -/
theorem entity_event_no_listener (s : St) (e ty pid : Nat) (hn : s.entReactors e = none) (ht : s.tbl .anyEv ty = []) :
    applyCmd s (.entityEvent e ty pid) = s.emit (.dropPayload pid) := by
  simp [applyCmd, entListeners, hn, ht]

/-- Mutating or inserting on a dead entity queues nothing (body-time check). -/
theorem mutate_dead (s : St) (e ty v : Nat) (h : s.comp e = []) : enqueue s (.mutate e ty v) = (s, []) := by
  simp [enqueue, h, alookup]

/-- The machine is total: from any state with a non-empty stack there is a next state. -/
theorem step_total (p : Prog) (h : Hist) (s : St) (hne : s.stack ≠ []) : ∃ s', step p h s = some s' := by
  unfold step
  cases hs : s.stack with
  | nil => exact absurd hs hne
  | cons f rest => exact ⟨_, rfl⟩

/-- Non-vacuity: a dead target in a concrete state. -/
example : doRunnerLookup ({} : St) 3 .plain 0 = (({} : St).emit (.abortNoEntity 3)).push (abortFrames 3 .plain) :=
  dead_target_aborts {} 3 0 .plain rfl

end Cobweb.C18
