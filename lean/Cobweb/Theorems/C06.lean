/-
  C06 — Revocation is complete, immediate and local.

  `revokeOne s sys t` is what `revoke_reactor` does for one entry `t` of the token of reactor `sys`; a revoke command is
  the fold of it over the token (`revokeAll`). A revoke command is applied atomically (one machine step), so the very
  next trigger application already reads the tables it leaves (C01) — also inside the same tree.

  Reading (DESIGN §8 R1): a token names `(reactor, key)` pairs. For type-wide and despawn keys one occurrence of the
  reactor is removed per token entry; for entity-scoped keys all occurrences are removed.
-/
import Cobweb.Proofs.Tables
import Cobweb.Proofs.Frames
import Cobweb.Proofs.Registry

namespace Cobweb.C06

/-- **Complete (type-wide keys)**: one registration of the revoked reactor under the named key disappears... -/
theorem typewide_one_less (s : St) (sys : Nat) (t : Trig) (tb : Tbl) (ty : Nat) (hk : tblOfTrig t = some (tb, ty)) :
    cntTbl (revokeOne s sys t) tb ty sys = cntTbl s tb ty sys - 1 := by
  have hd : ∀ e, t ≠ .dsp e := by intro e h; subst h; simp [tblOfTrig] at hk
  have hr : rtOfTrig t = none := by cases t <;> simp_all [tblOfTrig, rtOfTrig]
  unfold revokeOne
  split
  · rename_i e; exact absurd rfl (hd e)
  · simp only [hr, hk]
    have : ∀ (s' : St), s'.tbl = (setTbl s tb ty (removeFirst (fun h => h.sys == sys) (s.tbl tb ty)).2).tbl →
        cntTbl s' tb ty sys = cntTbl s tb ty sys - 1 := by
      intro s' hs'
      simp only [cntTbl, hs', setTbl, and_self, ↓reduceIte]
      exact removeFirst_snd_self sys _
    split
    · apply this; simp
    · apply this; rfl

/-- ... so a reactor registered once under the key (always the case for `on_revokable` / `once`, whose system is
    fresh) is not dispatched by any later trigger of that key. -/
theorem typewide_complete (s : St) (sys : Nat) (t : Trig) (tb : Tbl) (ty : Nat) (hk : tblOfTrig t = some (tb, ty))
    (h1 : cntTbl s tb ty sys ≤ 1) : cntTbl (revokeOne s sys t) tb ty sys = 0 := by
  rw [typewide_one_less s sys t tb ty hk]; omega

/-- **Local (type-wide keys)**: registrations of every other reactor under the same key keep their count and their
    relative order — whichever side of the removed entry they are on. -/
theorem typewide_local (s : St) (sys other : Nat) (t : Trig) (tb : Tbl) (ty : Nat) (hk : tblOfTrig t = some (tb, ty))
    (hne : other ≠ sys) :
    cntTbl (revokeOne s sys t) tb ty other = cntTbl s tb ty other ∧
    ((revokeOne s sys t).tbl tb ty).filter (fun h => !(h.sys == sys)) = (s.tbl tb ty).filter (fun h => !(h.sys == sys)) := by
  have hd : ∀ e, t ≠ .dsp e := by intro e h; subst h; simp [tblOfTrig] at hk
  have hr : rtOfTrig t = none := by cases t <;> simp_all [tblOfTrig, rtOfTrig]
  unfold revokeOne
  split
  · rename_i e; exact absurd rfl (hd e)
  · simp only [hr, hk]
    have : ∀ (s' : St), s'.tbl = (setTbl s tb ty (removeFirst (fun h => h.sys == sys) (s.tbl tb ty)).2).tbl →
        cntTbl s' tb ty other = cntTbl s tb ty other ∧
        (s'.tbl tb ty).filter (fun h => !(h.sys == sys)) = (s.tbl tb ty).filter (fun h => !(h.sys == sys)) := by
      intro s' hs'
      simp only [cntTbl, hs', setTbl, and_self, ↓reduceIte]
      exact ⟨removeFirst_snd_other sys other hne _, removeFirst_filter_other sys _⟩
    split
    · apply this; simp
    · apply this; rfl

/-- **Local (other keys)**: every other type-wide key is untouched. -/
theorem typewide_other_key (s : St) (sys : Nat) (t : Trig) (tb tb' : Tbl) (ty ty' : Nat)
    (hk : tblOfTrig t = some (tb, ty)) (hne : ¬(tb' = tb ∧ ty' = ty)) :
    (revokeOne s sys t).tbl tb' ty' = s.tbl tb' ty' := by
  have hd : ∀ e, t ≠ .dsp e := by intro e h; subst h; simp [tblOfTrig] at hk
  have hr : rtOfTrig t = none := by cases t <;> simp_all [tblOfTrig, rtOfTrig]
  unfold revokeOne
  split
  · rename_i e; exact absurd rfl (hd e)
  · simp only [hr, hk]
    split <;> simp [setTbl, hne]

/-- **Complete (entity-scoped keys)**: no registration of the revoked reactor for `(e, rt)` survives. -/
theorem entity_complete (s : St) (sys : Nat) (t : Trig) (rt : RType) (e : Nat) (hk : rtOfTrig t = some (rt, e)) :
    cntEnt (revokeOne s sys t) e rt sys = 0 := by
  have hd : ∀ e', t ≠ .dsp e' := by intro e' h; subst h; simp [rtOfTrig] at hk
  unfold revokeOne
  split
  · rename_i e'; exact absurd rfl (hd e')
  · simp only [hk]
    split
    · rename_i l hl
      simp only [cntEnt, dropHandles_entReactors, upd_same]
      simp [List.filter_filter]
    · rename_i hl; simp [cntEnt, hl]

/-- **Local (entity-scoped)**: registrations of other reactors, and of the same reactor under other reaction types of
    the same entity, are kept in order; other entities are untouched. -/
theorem entity_local (s : St) (sys : Nat) (t : Trig) (rt : RType) (e : Nat) (hk : rtOfTrig t = some (rt, e))
    (l : List (RType × Handle)) (hl : s.entReactors e = some l) :
    (revokeOne s sys t).entReactors e = some (l.filter (fun p => !(p.1 == rt && p.2.sys == sys))) ∧
    ∀ e', e' ≠ e → (revokeOne s sys t).entReactors e' = s.entReactors e' := by
  have hd : ∀ e', t ≠ .dsp e' := by intro e' h; subst h; simp [rtOfTrig] at hk
  unfold revokeOne
  split
  · rename_i e'; exact absurd rfl (hd e')
  · simp only [hk, hl, dropHandles_entReactors, upd_same, true_and]
    intro e' hne; simp [hne]

/-- **Idempotent / dead reactor**: revoking a reactor that has no registration under the key changes nothing. -/
theorem typewide_absent_noop (s : St) (sys : Nat) (t : Trig) (tb : Tbl) (ty : Nat) (hk : tblOfTrig t = some (tb, ty))
    (h0 : cntTbl s tb ty sys = 0) : (revokeOne s sys t).tbl = s.tbl ∧ (revokeOne s sys t).arcRc = s.arcRc := by
  have hd : ∀ e, t ≠ .dsp e := by intro e h; subst h; simp [tblOfTrig] at hk
  have hr : rtOfTrig t = none := by cases t <;> simp_all [tblOfTrig, rtOfTrig]
  have hrf := removeFirst_fst_none sys (s.tbl tb ty) h0
  unfold revokeOne
  split
  · rename_i e; exact absurd rfl (hd e)
  · simp only [hr, hk, hrf]
    constructor
    · funext t' ty'
      simp only [setTbl]
      split
      · rename_i h; rw [h.1, h.2]
      · rfl
    · rfl

theorem entity_dead_noop (s : St) (sys : Nat) (t : Trig) (rt : RType) (e : Nat) (hk : rtOfTrig t = some (rt, e))
    (hn : s.entReactors e = none) : revokeOne s sys t = s := by
  have hd : ∀ e', t ≠ .dsp e' := by intro e' h; subst h; simp [rtOfTrig] at hk
  unfold revokeOne
  split
  · rename_i e'; exact absurd rfl (hd e')
  · simp [hk, hn]

/-- A revoke never touches the control state, the trackers, event data or the pending queues: reactions already
    scheduled still run (C02); only the tables and the handle counts change. -/
theorem revoke_frame (s : St) (sys : Nat) (ts : List Trig) :
    (revokeAll s sys ts).storage = s.storage ∧ (revokeAll s sys ts).buffered = s.buffered ∧
    (revokeAll s sys ts).wq = s.wq ∧ (revokeAll s sys ts).stack = s.stack ∧ (revokeAll s sys ts).data = s.data := by
  simp


/-! ### whole-execution theorems: tables move only by registry commands (`Proofs/Registry.lean`) -/

/-- **Local, for every step of every execution.** The registrations under a type-wide key change only in a step that applies
    a `regType` or a `revoke` command naming that key. Dispatching, running bodies, postponed recursion, clean-up,
    despawning (even of the reactor), polling and garbage collection leave it alone. -/
theorem typewide_moves_only_by_registry {p : Prog} {hh : Hist} {s s' : St} (ht : tick p hh s = some s') (tb : Tbl) (ty : Nat) :
    s'.tbl tb ty = s.tbl tb ty ∨ ∃ c, nextCmd s = some c ∧ touchesTbl tb ty c := typewide_stable ht tb ty

/-- The reactor list of an entity changes only by a registration on it, a revoke naming it, or its death. -/
theorem entity_moves_only_by_registry {p : Prog} {hh : Hist} {s s' : St} (ht : tick p hh s = some s') (e : Nat) :
    s'.entReactors e = s.entReactors e ∨ (s.alive e = true ∧ s'.alive e = false) ∨ ∃ c, nextCmd s = some c ∧ touchesEnt e c :=
  entity_stable ht e

/-- The despawn reactors of an entity change only by a registration on it, a revoke naming it, or the poll that consumes
    its death. -/
theorem despawn_moves_only_by_registry {p : Prog} {hh : Hist} {s s' : St} (ht : tick p hh s = some s') (e : Nat) :
    s'.tblDsp e = s.tblDsp e ∨ (e ∈ s.dspChan ∧ s'.tblDsp e = [] ∧ ∃ rest, s.stack = .poll :: rest) ∨
    ∃ c, nextCmd s = some c ∧ touchesDsp e c := despawn_stable ht e

/-- **History level**: over any stretch of an execution in which no command names the key, the registrations under it
    are exactly what they were: a revoke touches nothing but the keys its token names, for as long as one likes. -/
theorem untouched_key_keeps_registrations {p : Prog} {hh : Hist} (tb : Tbl) (ty : Nat) {s s' : St}
    (h : QuietRun p hh (fun x => ∃ c, nextCmd x = some c ∧ touchesTbl tb ty c) s s') : s'.tbl tb ty = s.tbl tb ty :=
  typewide_stable_run tb ty h

theorem untouched_entity_keeps_registrations {p : Prog} {hh : Hist} (e : Nat) {s s' : St}
    (h : QuietRun p hh (fun x => (∃ c, nextCmd x = some c ∧ touchesEnt e c) ∨ x.alive e = false) s s') (ha : s'.alive e = true) :
    s'.entReactors e = s.entReactors e := entity_stable_run e h ha

theorem untouched_despawn_keeps_registrations {p : Prog} {hh : Hist} (e : Nat) {s s' : St}
    (h : QuietRun p hh (fun x => (∃ c, nextCmd x = some c ∧ touchesDsp e c) ∨ (e ∈ x.dspChan ∧ ∃ rest, x.stack = .poll :: rest)) s s') :
    s'.tblDsp e = s.tblDsp e := despawn_stable_run e h

/-- A revoke applied at the head of a batch is effective for the very next command of the same batch: the step that
    applies it leaves exactly `revokeAll` of the tables (complete, immediate — the per-key effect is `typewide_one_less`,
    `entity_complete` above). -/
theorem revoke_step_is_revokeAll (p : Prog) (hh : Hist) (s : St) (sys : Nat) (trigs : List Trig) (cs : List Cmd) (rest : List Frame)
    (hs : s.stack = .batch (.revoke sys trigs :: cs) :: rest) :
    tick p hh s = some (revokeAll ({ s with stack := .flush :: .batch cs :: rest } : St) sys trigs) := by
  simp [tick, step, hs, runFrame, doBatch, applyCmd, St.push]

/-- Non-vacuity: three reactors share a resource key; revoking the first keeps the other two, in order. -/
example :
    ((revokeOne ({ tbl := fun t ty => if t = .res ∧ ty = 0 then [⟨1, none⟩, ⟨2, none⟩, ⟨3, none⟩] else [] } : St) 1 (.res 0)).tbl .res 0)
      = [⟨2, none⟩, ⟨3, none⟩] := by
  simp [revokeOne, rtOfTrig, tblOfTrig, removeFirst, setTbl, dropHandle]

end Cobweb.C06
