/-
  C17 — syscall family: keyed persistent state, effects applied on return.

  Model: `Cobweb.Sc` (three keyed stores, take / run / apply deferred / put back; the world command queue; nested and
  queued calls). The theorems are about `exec`, for every program and every fuel that suffices for the call itself.
  Same-key re-entrancy of `syscall` / `named_syscall` gives the inner call fresh state (the crate's documented warning,
  DESIGN §8 R3): the persistence theorems are stated for calls that are not re-entered, and `reentrant_fresh`
  characterises the re-entrant case exactly.
-/
import Cobweb.Syscall
import Cobweb.Proofs.SyscallFrame
import Cobweb.Proofs.SyscallFlush

namespace Cobweb.Sc

/-- A spawned system that does not exist (never spawned, despawned) returns an error and nothing runs. -/
theorem spawned_missing (p : SProg) (fuel : Nat) (st : SSt) (key x : Nat) (h : st.sstore key = none) :
    exec p (fuel + 1) st (.call ⟨.s, key, x⟩) = (st, none) := by
  simp [exec, h]

/-- A spawned system that is currently running returns an error and nothing runs. -/
theorem spawned_running (p : SProg) (fuel : Nat) (st : SSt) (key x : Nat) (h : st.sstore key = some none) :
    exec p (fuel + 1) st (.call ⟨.s, key, x⟩) = (st, none) := by
  simp [exec, h]

/-- While a spawned system runs its callback is absent (`sstore key = some none` in the state its body starts from), so
    a call made from inside it — directly or from its queued commands — falls under `spawned_running`. -/
theorem spawned_taken_while_running (st : SSt) (key : Nat) :
    ({ st with sstore := upd st.sstore key (some none) } : SSt).sstore key = some none := by
  simp [upd]

/-- Body of a system without operations, on an empty world queue: only the `enter` event. -/
theorem runBody_leaf (k : SSt → Task → SSt × Option Nat) (p : SProg) (st : SSt) (kind : SKind) (key defKey cnt x : Nat)
    (hops : p.ops kind defKey cnt = []) (hflush : ∀ s : SSt, s.wq = [] → (k s .flush).1 = s) (hwq : st.wq = []) :
    runBody k p st kind key defKey cnt x = (st.emit (.enter kind key cnt x), x * 100 + cnt) := by
  unfold runBody
  simp only [hops]
  have hw : (st.emit (.enter kind key cnt x)).wq = [] := by simpa [SSt.emit] using hwq
  split
  · simp [hflush _ hw]
  · simp [hflush _ hw]

theorem flush_empty (p : SProg) (fuel : Nat) (s : SSt) (h : s.wq = []) : (exec p fuel s .flush).1 = s := by
  cases fuel with
  | zero => simp [exec, h]
  | succ n => simp [exec, h]

/-- **Runs once, returns its output, state persists** (`syscall`): a call of a system with no nested operations
    runs its body once with the given input and the stored counter `cnt` (0 if the key was never used), returns
    `input * 100 + cnt`, and stores `cnt + 1` under the key. -/
theorem syscall_leaf (p : SProg) (fuel : Nat) (st : SSt) (key x : Nat)
    (hops : p.ops .f key ((st.fstore key).getD 0) = []) (hwq : st.wq = []) :
    exec p (fuel + 1) st (.call ⟨.f, key, x⟩) =
      ({ (({ st with fstore := upd st.fstore key none } : SSt).emit (.enter .f key ((st.fstore key).getD 0) x)) with
          fstore := upd (upd st.fstore key none) key (some ((st.fstore key).getD 0 + 1)) },
       some (x * 100 + (st.fstore key).getD 0)) := by
  simp only [exec]
  rw [runBody_leaf (exec p fuel) p _ .f key key _ x hops (fun s hs => flush_empty p fuel s hs) (by simpa using hwq)]
  simp [SSt.emit]

/-- **Independence between keys**: such a call changes the stored state of no other `syscall` key and of no
    `named_syscall` or spawned system. -/
theorem syscall_leaf_independent (p : SProg) (fuel : Nat) (st : SSt) (key x other : Nat) (hne : other ≠ key)
    (hops : p.ops .f key ((st.fstore key).getD 0) = []) (hwq : st.wq = []) :
    (exec p (fuel + 1) st (.call ⟨.f, key, x⟩)).1.fstore other = st.fstore other ∧
    (exec p (fuel + 1) st (.call ⟨.f, key, x⟩)).1.nstore = st.nstore ∧
    (exec p (fuel + 1) st (.call ⟨.f, key, x⟩)).1.sstore = st.sstore := by
  rw [syscall_leaf p fuel st key x hops hwq]
  simp [upd, hne, SSt.emit]

/-- The stored counter after the call is one more than before: the k-th non re-entrant call of a key sees `k - 1`. -/
theorem syscall_leaf_persist (p : SProg) (fuel : Nat) (st : SSt) (key x : Nat)
    (hops : p.ops .f key ((st.fstore key).getD 0) = []) (hwq : st.wq = []) :
    ((exec p (fuel + 1) st (.call ⟨.f, key, x⟩)).1.fstore key).getD 0 = (st.fstore key).getD 0 + 1 ∧
    (exec p (fuel + 1) st (.call ⟨.f, key, x⟩)).1.wq = [] := by
  rw [syscall_leaf p fuel st key x hops hwq]
  simp [upd, SSt.emit, hwq]

/-- Any sequence of such calls on one key: the `i`-th call returns `input * 100 + (initial + i)`. -/
theorem syscall_sequence (p : SProg) (fuel : Nat) (key : Nat) (hleaf : ∀ cnt, p.ops .f key cnt = []) :
    ∀ (xs : List Nat) (st : SSt), st.wq = [] →
      ((xs.foldl (fun (s : SSt) x => (exec p (fuel + 1) s (.call ⟨.f, key, x⟩)).1) st).fstore key).getD 0
        = (st.fstore key).getD 0 + xs.length := by
  intro xs
  induction xs with
  | nil => intro st _; simp
  | cons x xs ih =>
    intro st hwq
    have h := syscall_leaf_persist p fuel st key x (hleaf _) hwq
    simp only [List.foldl_cons, List.length_cons]
    rw [ih _ h.2, h.1]; omega


/-! ### `named_syscall_direct`, `register_named_system`, `revoke` -/

/-- **Calling an unregistered name, or one whose system is running, fails without running anything.** -/
theorem direct_unregistered_fails (p : SProg) (fuel : Nat) (st : SSt) (key x : Nat)
    (h : st.nstore key = none ∨ st.nstore key = some none) :
    exec p (fuel + 1) st (.call ⟨.m, key, x⟩) = (st, none) := by
  rcases h with h | h <;> simp [exec, h]

/-- **A registered idle name runs its own persistent system**: a leaf system sees the stored counter, returns
    `input * 100 + counter`, and the counter persists incremented — the same state `named_syscall` uses for the name. -/
theorem direct_runs_registered (p : SProg) (fuel : Nat) (st : SSt) (key x cnt : Nat) (h : st.nstore key = some (some cnt))
    (hops : p.ops .n key cnt = []) (hwq : st.wq = []) :
    (exec p (fuel + 2) st (.call ⟨.m, key, x⟩)).2 = some (x * 100 + cnt) ∧
    (exec p (fuel + 2) st (.call ⟨.m, key, x⟩)).1.nstore key = some (some (cnt + 1)) := by
  simp only [exec, h, runBody, hops]
  split <;> simp [exec, upd, SSt.emit, hwq]

/-- `register_named_system` gives the name a fresh system whatever the slot held; `revoke` removes the slot, so the next
    `named_syscall` of the name starts from fresh state and `named_syscall_direct` fails. -/
theorem register_resets (p : SProg) (fuel : Nat) (st : SSt) (key : Nat) :
    (exec p (fuel + 1) st (.apply (.g key))).1.nstore key = some (some 0) ∧
    (exec p (fuel + 1) st (.apply (.v key))).1.nstore key = none := by
  simp [exec, upd, SSt.emit]

theorem register_revoke_local (p : SProg) (fuel : Nat) (st : SSt) (key other : Nat) (hne : other ≠ key) :
    (exec p (fuel + 1) st (.apply (.g key))).1.nstore other = st.nstore other ∧
    (exec p (fuel + 1) st (.apply (.v key))).1.nstore other = st.nstore other ∧
    (exec p (fuel + 1) st (.apply (.g key))).1.fstore = st.fstore ∧ (exec p (fuel + 1) st (.apply (.g key))).1.sstore = st.sstore := by
  simp [exec, upd, SSt.emit, hne]

example : (exec ⟨fun _ _ _ => [], fun _ _ => false⟩ 3 ({ nstore := fun k => if k = 2 then some (some 5) else none } : SSt) (.call ⟨.m, 2, 7⟩)).2 = some 705 := by
  decide

/-- **Re-entrancy** (`syscall`): while a key runs its resource is absent, so a nested call of the same key starts from
    fresh state. -/
theorem reentrant_fresh (st : SSt) (key : Nat) :
    (({ st with fstore := upd st.fstore key none } : SSt).fstore key).getD 0 = 0 := by
  simp [upd]

/-- **Effects applied on return** (ordinary system): the commands the body queued are applied, in order, before the call
    returns: a body consisting of queued writes leaves exactly those write events, after `enter`. -/
theorem writes_applied_on_return (p : SProg) (fuel : Nat) (st : SSt) (key x v1 v2 : Nat)
    (hops : p.ops .f key ((st.fstore key).getD 0) = [.w v1, .w v2]) (hex : p.excl .f key = false) (hwq : st.wq = []) :
    (exec p (fuel + 3) st (.call ⟨.f, key, x⟩)).1.log =
      .write v2 :: .write v1 :: .enter .f key ((st.fstore key).getD 0) x :: st.log ∧
    (exec p (fuel + 3) st (.call ⟨.f, key, x⟩)).2 = some (x * 100 + (st.fstore key).getD 0) := by
  simp only [exec, runBody, hops, hex]
  simp [exec, SSt.emit, hwq]

theorem runBody_output (k : SSt → Task → SSt × Option Nat) (p : SProg) (st : SSt) (kind : SKind) (key defKey cnt x : Nat) :
    (runBody k p st kind key defKey cnt x).2 = x * 100 + cnt := by
  unfold runBody; dsimp only; split <;> rfl

/-- **Returns its output whenever it ran** (`spawned_syscall`): if the spawned system exists and is idle, the call runs
    it and returns `input * 100 + cnt` — whatever the body and its queued commands do, including despawning the
    system's own entity while it runs (the put-back is then skipped, the output is still returned). An error therefore
    means "missing or running", never "ran". -/
theorem spawned_present_returns (p : SProg) (fuel : Nat) (st : SSt) (key x cnt : Nat) (h : st.sstore key = some (some cnt)) :
    (exec p (fuel + 1) st (.call ⟨.s, key, x⟩)).2 = some (x * 100 + cnt) := by
  simp only [exec, h]
  rw [runBody_output]

/-- ... and conversely an error is returned only if nothing ran: the state is unchanged. -/
theorem spawned_error_means_not_run (p : SProg) (fuel : Nat) (st : SSt) (key x : Nat)
    (h : (exec p (fuel + 1) st (.call ⟨.s, key, x⟩)).2 = none) : (exec p (fuel + 1) st (.call ⟨.s, key, x⟩)).1 = st := by
  cases hs : st.sstore key with
  | none => simp [exec, hs]
  | some o =>
    cases o with
    | none => simp [exec, hs]
    | some cnt => rw [spawned_present_returns p fuel st key x cnt hs] at h; cases h

/-- **`syscall_once`** runs the function of a `syscall` key on fresh state (`cnt = 0`), returns its output and neither uses
    nor touches the cached system of that key: the stored counter is what it was. -/
theorem once_leaf (p : SProg) (fuel : Nat) (st : SSt) (key x : Nat) (hops : p.ops .f key 0 = []) (hwq : st.wq = []) :
    exec p (fuel + 1) st (.call ⟨.o, key, x⟩) = (st.emit (.enter .f key 0 x), some (x * 100 + 0)) := by
  simp only [exec]
  rw [runBody_leaf (exec p fuel) p st .f key key 0 x hops (fun s hs => flush_empty p fuel s hs) hwq]

theorem once_leaves_cache (p : SProg) (fuel : Nat) (st : SSt) (key x : Nat) (hops : p.ops .f key 0 = []) (hwq : st.wq = []) :
    (exec p (fuel + 1) st (.call ⟨.o, key, x⟩)).1.fstore = st.fstore := by
  rw [once_leaf p fuel st key x hops hwq]; rfl

/-- Non-vacuity: a fresh world, one leaf call. -/
example : (exec ⟨fun _ _ _ => [], fun _ _ => false⟩ 2 ({} : SSt) (.call ⟨.f, 0, 5⟩)).2 = some 500 := by
  rw [syscall_leaf _ 1 _ 0 5 rfl rfl]; rfl

/-! ### arbitrary nesting: independence and persistence (by induction on the fuel) -/

/-- **Independence between keys, for every program, every fuel and every nesting depth**: an executor run (a call through
    any entry point, the application of a queued command, a flush) that is not itself aimed at the stored system `(class,
    key)`, for a program that never names it and with nothing queued that names it, leaves it exactly as it was. -/
theorem independent_of_unnamed_keys (p : SProg) (i : Nat × Nat)
    (hp : ∀ kind key cnt, ∀ op ∈ p.ops kind key cnt, opId op ≠ some i) (fuel : Nat) (st : SSt) (t : Task)
    (hw : wqOK i st) (ht : taskId t ≠ some i) : look (exec p fuel st t).1 i.1 i.2 = look st i.1 i.2 :=
  (exec_frm p i hp fuel st t hw ht).1

/-- **State persists across calls with the same key**, whatever else happens in between and whatever the bodies do: after
    any sequence of top-level tasks in which only `syscall`s (`named_syscall`s) of `key` name that key, the stored counter is
    the initial one plus the number of those calls — so the n-th call runs with `Local` counter n − 1 (`call_result`). -/
theorem counter_counts_calls (p : SProg) (fuel : Nat) (kind : SKind) (key : Nat) (hk : kind = .f ∨ kind = .n)
    (hp : ∀ k' key' cnt, ∀ op ∈ p.ops k' key' cnt, opId op ≠ some (cls kind, key)) (ts : List Task) (st : SSt)
    (hw : wqOK (cls kind, key) st) (hts : ∀ t ∈ ts, isCallOf kind key t = true ∨ taskId t ≠ some (cls kind, key)) :
    cntOf (look (runTasks p (fuel + 1) st ts) (cls kind) key) = cntOf (look st (cls kind) key) + ts.countP (isCallOf kind key) :=
  (state_counts_calls p fuel kind key hk hp ts st hw hts).1

/-- Non-vacuity: key 1 (exclusive) calls key 2 directly and queues key 3; key 2 queues a write and a call of key 3; key 3 is
    a leaf. Nobody but the top level names key 1: after `call 1, call 2, call 1` its counter is 2 (and key 3, called from
    everywhere, has run five times). -/
def nestP : SProg :=
  { ops := fun kind key _ => match kind, key with
      | .f, 1 => [.d ⟨.f, 2, 5⟩, .q ⟨.f, 3, 6⟩]
      | .f, 2 => [.w 4, .q ⟨.f, 3, 8⟩]
      | _, _ => [],
    excl := fun kind key => match kind, key with | .f, 1 => true | _, _ => false }

example : (runTasks nestP 30 {} [.call ⟨.f, 1, 7⟩, .call ⟨.f, 2, 1⟩, .call ⟨.f, 1, 9⟩]).fstore 1 = some 2 ∧
    (runTasks nestP 30 {} [.call ⟨.f, 1, 7⟩, .call ⟨.f, 2, 1⟩, .call ⟨.f, 1, 9⟩]).fstore 3 = some 5 := by decide

example : ∀ kind key cnt, ∀ op ∈ nestP.ops kind key cnt, opId op ≠ some (cls .f, 1) := by
  intro kind key cnt op hop
  simp only [nestP] at hop
  split at hop <;> simp at hop
  · rcases hop with rfl | rfl <;> simp [opId, cls]
  · rcases hop with rfl | rfl <;> simp [opId, cls]

/-- **Effects applied on return, for every program and nesting depth**: whenever a call through any entry point returns
    a value and the executor did not run out of fuel, the world queue is empty — every command the system queued, and every
    command queued by what those caused, has been applied before the call returned. (A call that fails — missing or running
    spawned system, unregistered name — changes nothing and leaves the queue as it found it.) -/
theorem effects_applied_on_return (p : SProg) (fuel : Nat) (st : SSt) (c : SCall)
    (ho : (exec p fuel st (.call c)).1.oof = false) (hr : (exec p fuel st (.call c)).2.isSome = true) :
    (exec p fuel st (.call c)).1.wq = [] :=
  (done_exec p fuel st (.call c) ho).2.1 c rfl (Or.inl hr)

/-- ... and a flush leaves nothing queued. -/
theorem flush_applies_everything (p : SProg) (fuel : Nat) (st : SSt) (ho : (exec p fuel st .flush).1.oof = false) :
    (exec p fuel st .flush).1.wq = [] :=
  (done_exec p fuel st .flush ho).1 rfl

/-- Non-vacuity: the three-level program completes with fuel 30 (nothing left queued, five writes / calls applied), and with
    fuel 2 the ghost flag reports that the executor ran out. -/
example : (exec nestP 30 {} (.call ⟨.f, 1, 7⟩)).1.oof = false ∧ (exec nestP 30 {} (.call ⟨.f, 1, 7⟩)).2 = some 700 ∧
    (exec nestP 30 {} (.call ⟨.f, 1, 7⟩)).1.wq = [] ∧ (exec nestP 2 {} (.call ⟨.f, 1, 7⟩)).1.oof = true := by decide

end Cobweb.Sc
