/-
  C09 — Depth-first telescoping order with postponed recursion.

  The control stack *is* the path of the reaction tree that is currently being executed; telescoping is frame
  locality: a step only pops the top frame and pushes frames, so whatever a command causes is finished before the frame
  holding its successors is looked at again.
-/
import Cobweb.Proofs.Local

namespace Cobweb.C09

variable (p : Prog) (h : Hist)

/-- Commands of a batch take effect in the order queued: applying a batch applies its first command and leaves
    `flush` and the rest of the batch, in order, directly below whatever that command pushed. -/
theorem batch_in_order (s : St) (c : Cmd) (cs : List Cmd) :
    ∃ fs, (doBatch s (c :: cs)).stack = fs ++ Frame.flush :: Frame.batch cs :: s.stack := by
  obtain ⟨fs, hfs, _, _⟩ := benignP_applyCmd (s.push [.flush, .batch cs]) c
  exact ⟨fs, by rw [doBatch, hfs]; simp [St.push]⟩

/-- **Telescoping**: after a command `c` of a batch has been applied, the remaining commands `cs` of that batch are not
    touched until a state is reached whose stack is exactly `flush :: batch cs :: rest`, i.e. until `c` and everything
    it transitively caused (reactions, nested system commands, their deferred commands) has completed. -/
theorem telescoping (s : St) (c : Cmd) (cs : List Cmd) (rest : List Frame) (hs : s.stack = .batch (c :: cs) :: rest)
    (n : Nat) :
    (∃ top, (steps p h (n + 1) s).stack = top ++ Frame.flush :: Frame.batch cs :: rest) ∨
    (∃ m, m < n ∧ (steps p h (m + 1) s).stack = Frame.flush :: Frame.batch cs :: rest) := by
  have hstep : step p h s = some (doBatch { s with stack := rest } (c :: cs)) := by
    unfold step; rw [hs]; rfl
  obtain ⟨fs, hfs⟩ := batch_in_order { s with stack := rest } c cs
  have := segment p h (Frame.flush :: Frame.batch cs :: rest) n (doBatch { s with stack := rest } (c :: cs)) ⟨fs, hfs⟩
  simpa [steps, hstep] using this

/-- The same for the deferred commands of a system: the body's commands `acc` are applied, in order, after its cleanup,
    and before the runner continues with `afterBody` (reinsertion, replay of postponed commands). -/
theorem body_then_commands (s : St) (sys : Nat) (k : Kind) (i : Nat) (acc : List Cmd) (hend : p sys i s = none) :
    (doBodyActs p s sys k i acc).stack = Frame.cleanup k :: Frame.flush :: Frame.batch acc :: s.stack := by
  simp [doBodyActs, hend, St.push, St.emit]

/-- A system command, system event or reaction whose target is idle runs in-line: the runner pushes the body (and its
    continuation) on top of the stack, i.e. before the successors of the command in its batch. -/
theorem inline_run (s : St) (sys idx : Nat) (k : Kind) : ∃ fs, (doRunnerLookup s sys k idx).stack = fs ++ s.stack :=
  doRunnerLookup_stack s sys idx k

/-- The exception: if the target is executing, the command is postponed — no frame is pushed, one entry is appended to
    the postponed queue. -/
theorem postponed_when_busy (s : St) (sys idx : Nat) (k : Kind) (hal : s.alive sys = true)
    (hb : s.storage sys = some false) (hidx : idx ≠ 0) :
    (doRunnerLookup s sys k idx).stack = s.stack ∧ (doRunnerLookup s sys k idx).buffered = s.buffered ++ [(sys, k)] := by
  simp [doRunnerLookup, hal, hb, hidx, St.emit]

/-- ... and it is replayed by the runner of its target right after that execution (body, cleanup and everything the
    body queued) has completed and the callback is back: the replay loop runs, in queue order, exactly the postponed
    entries whose target is the system that just finished, each one immediately (`runnerStart` on top of the loop). -/
theorem replay_runs_own_entries (s : St) (sys idx : Nat) (k : Kind) (bs kept : List (Nat × Kind)) :
    (doReplayLoop s sys ((sys, k) :: bs) kept idx).stack =
      Frame.runnerStart sys k :: Frame.replayLoop sys bs kept idx :: s.stack := by
  simp [doReplayLoop, St.push, St.emit]

theorem replay_keeps_others (s : St) (sys other idx : Nat) (k : Kind) (bs kept : List (Nat × Kind)) (hne : other ≠ sys) :
    doReplayLoop s sys ((other, k) :: bs) kept idx = s.push [.replayLoop sys bs (kept ++ [(other, k)]) idx] := by
  simp [doReplayLoop, hne]

/-- Entries kept for other (still busy) systems go back behind anything postponed meanwhile, in their original order. -/
theorem replay_done_appends (s : St) (sys idx : Nat) (kept : List (Nat × Kind)) :
    (doReplayLoop s sys [] kept idx).buffered = s.buffered ++ kept := by
  simp [doReplayLoop, St.push]

/-- Removal and despawn reactions are detected by polling: the runner polls at entry and after reinsertion, the abort
    path polls too; `poll` queues the reactions on the world queue and flushes, so they run at that boundary. -/
theorem poll_sites (s : St) (sys idx : Nat) (k : Kind) :
    (doRunnerStart s sys k).stack = Frame.gc :: Frame.poll :: Frame.runnerLookup sys k s.counter :: s.stack ∧
    abortFrames sys k = [Frame.abort sys k, Frame.gc, Frame.poll] := by
  simp [doRunnerStart, St.push, St.emit, abortFrames]

/-- Non-vacuity of `telescoping`: a batch with two commands. -/
example : ∃ fs, (doBatch ({} : St) [.run 3, .run 4]).stack = fs ++ Frame.flush :: Frame.batch [.run 4] :: [] :=
  batch_in_order {} (.run 3) [.run 4]

end Cobweb.C09
