/-
  C01 — Trigger dispatch is exact: every matching registration, nothing else.

  "Runs it causes" = the reaction commands the trigger queues (one per delivery; a delivery whose reactor has died in
  the meantime runs nothing: C02/C18). The dispatch theorems hold for *every* state, hence for every registration table
  reachable by any history of register / revoke / trigger / despawn operations, including tables edited while a dispatch
  is in flight (each trigger reads the table at the instant it is applied).
-/
import Cobweb.Proofs.Tables
import Cobweb.Proofs.Frames
import Cobweb.Proofs.Registry

namespace Cobweb.C01

/-- The reactors a list of commands will run, in order (with multiplicity). -/
def targets : List Cmd → List Nat
  | [] => []
  | .reactRes s :: cs => s :: targets cs
  | .reactEnt _ _ s :: cs => s :: targets cs
  | .reactDsp _ s _ :: cs => s :: targets cs
  | .reactEv _ _ s :: cs => s :: targets cs
  | .reactBc _ s :: cs => s :: targets cs
  | _ :: cs => targets cs

theorem targets_append (a b : List Cmd) : targets (a ++ b) = targets a ++ targets b := by
  induction a with
  | nil => rfl
  | cons c a ih => cases c <;> simp [targets, ih]

theorem targets_map_reactBc (d : Nat) (hs : List Handle) :
    targets (hs.map (fun h => Cmd.reactBc d h.sys)) = hs.map (·.sys) := by
  induction hs with
  | nil => rfl
  | cons h hs ih => simp [targets, ih]
theorem targets_map_reactRes (hs : List Handle) : targets (hs.map (fun h => Cmd.reactRes h.sys)) = hs.map (·.sys) := by
  induction hs with
  | nil => rfl
  | cons h hs ih => simp [targets, ih]
theorem targets_map_reactEnt (e : Nat) (rt : RType) (hs : List Handle) :
    targets (hs.map (fun h => Cmd.reactEnt e rt h.sys)) = hs.map (·.sys) := by
  induction hs with
  | nil => rfl
  | cons h hs ih => simp [targets, ih]
theorem targets_map_reactEnt' (e : Nat) (rt : RType) (ls : List Nat) :
    targets (ls.map (fun r => Cmd.reactEnt e rt r)) = ls := by
  induction ls with
  | nil => rfl
  | cons h hs ih => simp [targets, ih]
theorem targets_map_reactEv (e d : Nat) (hs : List Handle) :
    targets (hs.map (fun h => Cmd.reactEv e d h.sys)) = hs.map (·.sys) := by
  induction hs with
  | nil => rfl
  | cons h hs ih => simp [targets, ih]
theorem targets_map_reactEv' (e d : Nat) (ls : List Nat) : targets (ls.map (fun r => Cmd.reactEv e d r)) = ls := by
  induction ls with
  | nil => rfl
  | cons h hs ih => simp [targets, ih]

/-- **Broadcast**: exactly the reactors registered for the event type, one delivery per registration, in table order
    (preceded by the command that stores the payload); with no registration nothing is pushed at all. -/
theorem broadcast_dispatch (s : St) (ty pid : Nat) (hne : s.tbl .bc ty ≠ []) :
    ∃ d x cs, applyCmd s (.broadcast ty pid) = s.fresh.2.push [.flush, .batch (Cmd.spawnData d x :: cs)] ∧
      targets cs = (s.tbl .bc ty).map (·.sys) ∧ x.cnt = (s.tbl .bc ty).length := by
  refine ⟨s.nextEnt, { kind := .bc, ty := ty, pid := pid, target := 0, cnt := (s.tbl .bc ty).length, taken := false },
    (s.tbl .bc ty).map (fun h => Cmd.reactBc s.nextEnt h.sys), ?_, targets_map_reactBc _ _, rfl⟩
  have : (s.tbl .bc ty).isEmpty = false := by
    cases h : s.tbl .bc ty with
    | nil => exact absurd h hne
    | cons a l => rfl
  simp [applyCmd, this, St.fresh]

/-- **Resource mutation**. -/
theorem resMut_dispatch (s : St) (ty : Nat) :
    ∃ cs, applyCmd s (.resMut ty) = s.push [.flush, .batch cs] ∧ targets cs = (s.tbl .res ty).map (·.sys) :=
  ⟨_, rfl, targets_map_reactRes _⟩

/-- **Mutation** of `React<C>` on `e`: the entity-scoped listeners of `(e, mutation C)` then the type-wide ones. -/
theorem mutation_dispatch (s : St) (e ty : Nat) :
    ∃ cs, applyCmd s (.mutReact e ty) = s.push [.flush, .batch cs] ∧
      targets cs = entListeners s e ⟨.mut, ty⟩ ++ (s.tbl .mut ty).map (·.sys) := by
  refine ⟨_, rfl, ?_⟩
  rw [targets_append, targets_map_reactEnt', targets_map_reactEnt]

/-- **Insertion** (when the component really was inserted; otherwise nothing runs). -/
theorem insertion_dispatch (s : St) (e ty : Nat) (h : (alookup (s.comp e) ty).isSome) :
    ∃ cs, applyCmd s (.insReact e ty) = s.push [.flush, .batch cs] ∧
      targets cs = entListeners s e ⟨.ins, ty⟩ ++ (s.tbl .ins ty).map (·.sys) := by
  have : (alookup (s.comp e) ty).isNone = false := by
    cases hx : alookup (s.comp e) ty <;> simp_all
  refine ⟨(entListeners s e ⟨.ins, ty⟩).map (fun r => Cmd.reactEnt e ⟨.ins, ty⟩ r) ++ (s.tbl .ins ty).map (fun h => Cmd.reactEnt e ⟨.ins, ty⟩ h.sys),
    by simp [applyCmd, this], ?_⟩
  rw [targets_append, targets_map_reactEnt', targets_map_reactEnt]

theorem insertion_not_inserted (s : St) (e ty : Nat) (h : alookup (s.comp e) ty = none) :
    applyCmd s (.insReact e ty) = s.emit (.insNoop e ty) := by
  simp [applyCmd, h]

/-- **Entity event**: listeners scoped to the target entity for that event type, then the any-entity listeners. -/
theorem entityEvent_dispatch (s : St) (e ty pid : Nat)
    (hne : (entListeners s e ⟨.ev, ty⟩).length + (s.tbl .anyEv ty).length ≠ 0) :
    ∃ d x cs, applyCmd s (.entityEvent e ty pid) = s.fresh.2.push [.flush, .batch (Cmd.spawnData d x :: cs)] ∧
      targets cs = entListeners s e ⟨.ev, ty⟩ ++ (s.tbl .anyEv ty).map (·.sys) ∧
      x.cnt = (entListeners s e ⟨.ev, ty⟩).length + (s.tbl .anyEv ty).length := by
  refine ⟨s.nextEnt, { kind := .ev, ty := ty, pid := pid, target := e, cnt := (entListeners s e ⟨.ev, ty⟩).length + (s.tbl .anyEv ty).length, taken := false },
    (entListeners s e ⟨.ev, ty⟩).map (fun r => Cmd.reactEv e s.nextEnt r) ++
      (s.tbl .anyEv ty).map (fun h => Cmd.reactEv e s.nextEnt h.sys), ?_, ?_, rfl⟩
  · simp only [applyCmd, hne, ↓reduceIte, St.fresh]
  · rw [targets_append, targets_map_reactEv', targets_map_reactEv]

theorem entityEvent_nobody (s : St) (e ty pid : Nat)
    (h0 : (entListeners s e ⟨.ev, ty⟩).length + (s.tbl .anyEv ty).length = 0) :
    applyCmd s (.entityEvent e ty pid) = s.emit (.dropPayload pid) := by
  simp [applyCmd, h0]

/-- A trigger with no matching registration runs nothing. -/
theorem no_registration_no_run (s : St) (ty pid : Nat) (h : s.tbl .bc ty = []) :
    applyCmd s (.broadcast ty pid) = s.emit (.dropPayload pid) := by
  simp [applyCmd, h]

/-- Entity-scoped listeners are exactly the `EntityReactors` entries of that entity with that reaction type: no entry
    of another entity, kind or type is ever dispatched. -/
theorem entListeners_exact (s : St) (e : Nat) (rt : RType) (l : List (RType × Handle)) (h : s.entReactors e = some l) :
    entListeners s e rt = (l.filter (fun p => p.1 == rt)).map (·.2.sys) := by
  simp [entListeners, h]

theorem entListeners_none (s : St) (e : Nat) (rt : RType) (h : s.entReactors e = none) : entListeners s e rt = [] := by
  simp [entListeners, h]

/-- Registering appends exactly one entry under exactly the named key. -/
theorem register_typewide (s : St) (t : Tbl) (ty : Nat) (h : Handle) :
    (applyCmd s (.regType t ty h)).tbl t ty = s.tbl t ty ++ [h] ∧
    ∀ t' ty', (t', ty') ≠ (t, ty) → (applyCmd s (.regType t ty h)).tbl t' ty' = s.tbl t' ty' := by
  constructor
  · simp only [applyCmd]; split <;> simp [setTbl]
  · intro t' ty' hne
    have hne' : ¬(t' = t ∧ ty' = ty) := fun h => hne (by rw [h.1, h.2])
    simp only [applyCmd]; split <;> simp [setTbl, hne']

theorem register_entity (s : St) (rt : RType) (e : Nat) (h : Handle) (l : List (RType × Handle))
    (he : s.entReactors e = some l) :
    (applyCmd s (.regEnt rt e h)).entReactors e = some (l ++ [(rt, h)]) ∧
    ∀ e', e' ≠ e → (applyCmd s (.regEnt rt e h)).entReactors e' = s.entReactors e' := by
  simp [applyCmd, he]
  intro e' hne; simp [hne]

/-- Despawning an entity removes all of its entity-scoped registrations and touches no type-wide table. -/
theorem kill_clears_entity (s : St) (e : Nat) : (kill s e).entReactors e = none ∧ (kill s e).tbl = s.tbl := by
  constructor
  · simp only [kill]
    have h1 : ∀ t : St, (killData t e).entReactors = t.entReactors := fun t => killData_entReactors t e
    have h2 : ∀ t : St, (killTracker t e).entReactors = t.entReactors := fun t => killTracker_entReactors t e
    have h3 : ∀ t : St, (killComps t e).entReactors = t.entReactors := fun t => killComps_entReactors t e
    show (killData (killTracker (killComps (killReactors (killStorage (killCanary s e) e) e) e) e) e).entReactors e = none
    rw [h1, h2, h3]
    unfold killReactors
    split
    · simp
    · assumption
  · simp


/-! ### history level: a trigger is delivered to the registrations of the last registry operation on its key -/

/-- **Broadcast, along an execution.** Whatever ran since the last `regType` / `revoke` command naming the broadcast key
    (dispatches, bodies, recursion, despawns, polls — even the despawn of a registered reactor), a broadcast applied now is
    delivered to exactly the reactors registered then, one delivery per registration, in order. -/
theorem broadcast_delivers_to_registered {p : Prog} {hh : Hist} (ty pid : Nat) {s s' : St}
    (h : QuietRun p hh (fun x => ∃ c, nextCmd x = some c ∧ touchesTbl .bc ty c) s s') (hne : s.tbl .bc ty ≠ []) :
    ∃ d x cs, applyCmd s' (.broadcast ty pid) = s'.fresh.2.push [.flush, .batch (Cmd.spawnData d x :: cs)] ∧
      targets cs = (s.tbl .bc ty).map (·.sys) := by
  have e := typewide_stable_run .bc ty h
  obtain ⟨d, x, cs, h1, h2, _⟩ := broadcast_dispatch s' ty pid (by rw [e]; exact hne)
  exact ⟨d, x, cs, h1, by rw [h2, e]⟩

/-- ... and with no registration then, nothing runs now. -/
theorem broadcast_to_nobody {p : Prog} {hh : Hist} (ty pid : Nat) {s s' : St}
    (h : QuietRun p hh (fun x => ∃ c, nextCmd x = some c ∧ touchesTbl .bc ty c) s s') (hnil : s.tbl .bc ty = []) :
    applyCmd s' (.broadcast ty pid) = s'.emit (.dropPayload pid) := by
  have e := typewide_stable_run .bc ty h
  simp [applyCmd, e, hnil]

/-- **Resource mutation, along an execution.** -/
theorem resMut_delivers_to_registered {p : Prog} {hh : Hist} (ty : Nat) {s s' : St}
    (h : QuietRun p hh (fun x => ∃ c, nextCmd x = some c ∧ touchesTbl .res ty c) s s') :
    ∃ cs, applyCmd s' (.resMut ty) = s'.push [.flush, .batch cs] ∧ targets cs = (s.tbl .res ty).map (·.sys) := by
  obtain ⟨cs, h1, h2⟩ := resMut_dispatch s' ty
  exact ⟨cs, h1, by rw [h2, typewide_stable_run .res ty h]⟩

/-- **Entity-scoped listeners, along an execution**: while the entity lives and no command names it, its listeners for
    any reaction type are exactly those of the start of the stretch. -/
theorem entity_listeners_stable {p : Prog} {hh : Hist} (e : Nat) (rt : RType) {s s' : St}
    (h : QuietRun p hh (fun x => (∃ c, nextCmd x = some c ∧ touchesEnt e c) ∨ x.alive e = false) s s') (ha : s'.alive e = true) :
    entListeners s' e rt = entListeners s e rt := by
  simp only [entListeners, entity_stable_run e h ha]

/-- **Mutation, along an execution**: whatever ran since the last command naming the entity or the type-wide mutation key
    (and while the entity lives), a mutation of `React<C>` on `e` applied now is delivered to exactly the entity-scoped
    listeners and then the type-wide ones registered then, one delivery per registration, in order. -/
theorem mutation_delivers_to_registered {p : Prog} {hh : Hist} (e ty : Nat) {s s' : St}
    (h1 : QuietRun p hh (fun x => (∃ c, nextCmd x = some c ∧ touchesEnt e c) ∨ x.alive e = false) s s') (ha : s'.alive e = true)
    (h2 : QuietRun p hh (fun x => ∃ c, nextCmd x = some c ∧ touchesTbl .mut ty c) s s') :
    ∃ cs, applyCmd s' (.mutReact e ty) = s'.push [.flush, .batch cs] ∧
      targets cs = entListeners s e ⟨.mut, ty⟩ ++ (s.tbl .mut ty).map (·.sys) := by
  obtain ⟨cs, a, b⟩ := mutation_dispatch s' e ty
  exact ⟨cs, a, by rw [b, entity_listeners_stable e _ h1 ha, typewide_stable_run .mut ty h2]⟩

/-- **One run per registration, also for one reactor registered twice**: a reactor that holds both an entity-scoped and a
    type-wide registration for the mutated component (seeded S04, X01: "already queued, skip") is delivered the mutation
    once per registration — the number of deliveries to `sys` is the number of its entity-scoped entries plus the number of
    its type-wide entries. -/
theorem mutation_deliveries_per_registration (s : St) (e ty sys : Nat) :
    ∃ cs, applyCmd s (.mutReact e ty) = s.push [.flush, .batch cs] ∧
      (targets cs).count sys = (entListeners s e ⟨.mut, ty⟩).count sys + ((s.tbl .mut ty).map (·.sys)).count sys := by
  obtain ⟨cs, a, b⟩ := mutation_dispatch s e ty
  exact ⟨cs, a, by rw [b, List.count_append]⟩

/-- **Insertion, along an execution** (when the component really was inserted). -/
theorem insertion_delivers_to_registered {p : Prog} {hh : Hist} (e ty : Nat) {s s' : St}
    (h1 : QuietRun p hh (fun x => (∃ c, nextCmd x = some c ∧ touchesEnt e c) ∨ x.alive e = false) s s') (ha : s'.alive e = true)
    (h2 : QuietRun p hh (fun x => ∃ c, nextCmd x = some c ∧ touchesTbl .ins ty c) s s')
    (hc : (alookup (s'.comp e) ty).isSome) :
    ∃ cs, applyCmd s' (.insReact e ty) = s'.push [.flush, .batch cs] ∧
      targets cs = entListeners s e ⟨.ins, ty⟩ ++ (s.tbl .ins ty).map (·.sys) := by
  obtain ⟨cs, a, b⟩ := insertion_dispatch s' e ty hc
  exact ⟨cs, a, by rw [b, entity_listeners_stable e _ h1 ha, typewide_stable_run .ins ty h2]⟩

/-- **Entity event, along an execution**: delivered to the listeners of `(e, event type)` and the `any_entity_event`
    reactors registered by the last commands naming those keys — or, with none, dropped at once. -/
theorem entityEvent_delivers_to_registered {p : Prog} {hh : Hist} (e ty pid : Nat) {s s' : St}
    (h1 : QuietRun p hh (fun x => (∃ c, nextCmd x = some c ∧ touchesEnt e c) ∨ x.alive e = false) s s') (ha : s'.alive e = true)
    (h2 : QuietRun p hh (fun x => ∃ c, nextCmd x = some c ∧ touchesTbl .anyEv ty c) s s')
    (hne : (entListeners s e ⟨.ev, ty⟩).length + (s.tbl .anyEv ty).length ≠ 0) :
    ∃ d x cs, applyCmd s' (.entityEvent e ty pid) = s'.fresh.2.push [.flush, .batch (Cmd.spawnData d x :: cs)] ∧
      targets cs = entListeners s e ⟨.ev, ty⟩ ++ (s.tbl .anyEv ty).map (·.sys) := by
  have e1 := entity_listeners_stable e ⟨.ev, ty⟩ h1 ha
  have e2 := typewide_stable_run .anyEv ty h2
  obtain ⟨d, x, cs, a, b, _⟩ := entityEvent_dispatch s' e ty pid (by rw [e1, e2]; exact hne)
  exact ⟨d, x, cs, a, by rw [b, e1, e2]⟩

/-- Non-vacuity: two reactors on one broadcast key are both dispatched, in table order. -/
example : ∃ d x cs, applyCmd ({ tbl := fun t ty => if t = .bc ∧ ty = 0 then [⟨7, none⟩, ⟨9, some 0⟩] else [] } : St) (.broadcast 0 5) =
      (({ tbl := fun t ty => if t = .bc ∧ ty = 0 then [⟨7, none⟩, ⟨9, some 0⟩] else [] } : St).fresh.2).push [.flush, .batch (Cmd.spawnData d x :: cs)] ∧
      targets cs = [7, 9] ∧ x.cnt = 2 :=
  broadcast_dispatch _ 0 5 (by simp)

end Cobweb.C01
