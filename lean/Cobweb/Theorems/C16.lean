/-
  C16 — World reactors: shared system, per-entity local data.

  A world reactor is one persistent system command created at app build (`wrSys` / `ewrSys`); adding triggers is a
  persistent registration for that system, removing them is a revoke with a token rebuilt from the bundle. Entity world
  reactors additionally keep `EntityWorldLocal<T>` on the entity; `EntityLocal` reads the local data of the reaction's
  source entity, guarded by the entity-reaction tracker.
-/
import Cobweb.Proofs.Boot
import Cobweb.Proofs.ScenarioInit
import Cobweb.Proofs.Kill
import Cobweb.Theorems.C07
import Cobweb.Theorems.C06
import Cobweb.Theorems.C03

namespace Cobweb.C16

/-- Adding triggers registers them for the reactor's single system, persistently: no new system, no arc. -/
theorem wrAdd_registers (s : St) (wr : Nat) (trigs : List Trig) :
    enqueue s (.wrAdd wr trigs) = (s, [.register trigs (s.wrSys wr) .persistent]) := by simp [enqueue]

/-- Removing triggers revokes exactly those triggers of that system (C06 applies). -/
theorem wrRemove_revokes (s : St) (wr : Nat) (trigs : List Trig) :
    enqueue s (.wrRemove wr trigs) = (s, [.revoke (s.wrSys wr) trigs]) := by simp [enqueue]

/-- **Never despawned, never duplicated**: the registrations hold no reference count, so neither adding nor removing
    triggers can queue the reactor for garbage collection; and no system is created. -/
theorem add_creates_no_arc (s : St) (trigs : List Trig) (sys : Nat) :
    (applyCmd s (.register trigs sys .persistent)).nextArc = s.nextArc ∧
    (applyCmd s (.register trigs sys .persistent)).autoChan = s.autoChan :=
  C07.persistent_register_no_arc s trigs sys

theorem add_creates_no_entity (s : St) (wr : Nat) (trigs : List Trig) :
    (enqueue s (.wrAdd wr trigs)).1.nextEnt = s.nextEnt ∧ (enqueue s (.wrRemove wr trigs)).1.nextEnt = s.nextEnt := by
  simp [enqueue]

/-- Adding an entity to an entity world reactor: only for an entity that exists when called; the local data is
    inserted (overwriting older data) and the reactor's trigger bundle for that entity is registered. -/
theorem ewrAdd_alive (s : St) (wr e v : Nat) (h : s.alive e = true) :
    enqueue s (.ewrAdd wr e v) = (s, [.ewrAdd e wr v (s.ewrSys wr)]) := by
  simp [enqueue, h]

/-- ... and when the queued call runs, the entity is looked up again: the local data is inserted and the bundle registered
    only if it still exists; an entity despawned in between gets nothing (not even its removal type tracked). -/
theorem ewrAdd_apply_alive (s : St) (wr e v sys : Nat) (h : s.alive e = true) :
    applyCmd s (.ewrAdd e wr v sys) =
      s.push [.flush, .batch [.ewrInsertLocal e wr v, .register (ewrBundle wr e) sys .persistent]] := by
  simp [applyCmd, h]

theorem ewrAdd_apply_dead (s : St) (wr e v sys : Nat) (h : s.alive e = false) : applyCmd s (.ewrAdd e wr v sys) = s := by
  simp [applyCmd, h]

theorem ewrAdd_dead (s : St) (wr e v : Nat) (h : s.alive e = false) : enqueue s (.ewrAdd wr e v) = (s, []) := by
  simp [enqueue, h]

/-- `EntityReactor::add` called by a body directly: the entity is looked up at the call; the insertion of the local data
    and the registration are queued behind whatever the body queued before ... -/
theorem ewrAddNow_alive (s : St) (wr e v : Nat) (h : s.alive e = true) :
    enqueue s (.ewrAddNow wr e v) = (s, [.ewrInsertLocal e wr v, .register (ewrBundle wr e) (s.ewrSys wr) .persistent]) := by
  simp [enqueue, h]

theorem ewrAddNow_dead (s : St) (wr e v : Nat) (h : s.alive e = false) : enqueue s (.ewrAddNow wr e v) = (s, []) := by
  simp [enqueue, h]

/-- ... and an entity despawned between that call and the application of the queued insertion gets no local data
    (`try_insert`): nothing else changes, in particular nothing panics. -/
theorem insertLocal_dead (s : St) (e wr v : Nat) (h : s.alive e = false) : applyCmd s (.ewrInsertLocal e wr v) = s := by
  simp [applyCmd, h]

theorem insertLocal_sets (s : St) (e wr v : Nat) (h : s.alive e = true) :
    alookup ((applyCmd s (.ewrInsertLocal e wr v)).ewLocal e) wr = some v := by
  have aset_lookup : ∀ (l : List (Nat × Nat)), alookup (aset l wr v) wr = some v := by
    intro l; induction l with
    | nil => simp [aset, alookup]
    | cons a l ih =>
      obtain ⟨x, y⟩ := a
      simp only [aset]
      split
      · rename_i hx; simp [alookup, hx]
      · rename_i hx; simp [alookup, hx, ih]
  simp [applyCmd, h, aset_lookup]

/-- **A run caused by an entity exposes that entity's local data**: with an exact claim (`curSrc` = the source of the
    causing reaction, C03) `EntityLocal` returns the pair (source entity, its local value). -/
theorem local_of_source (s : St) (wr src v : Nat) (hr : s.trkEnt.reacting = true) (hsys : s.trkEnt.curSys = s.ewrSys wr)
    (hsrc : s.trkEnt.curSrc = src) (hv : alookup (s.ewLocal src) wr = some v) : readLocal s wr = some (src, v) := by
  simp [readLocal, hr, hsys, hsrc, hv]

/-- Outside a reaction of that reactor `EntityLocal` is unusable. -/
theorem local_guarded (s : St) (wr : Nat) (h : s.trkEnt.reacting = false ∨ s.trkEnt.curSys ≠ s.ewrSys wr) :
    readLocal s wr = none := by
  rcases h with h | h <;> simp [readLocal, h]


/-! ### whole-execution theorems (`Proofs/Registry.lean`) -/

/-- **Local data moves only by the reactor's own commands on that entity**: in every step of every execution the
    `EntityWorldLocal` data of `e` is unchanged unless the step applies `ewrInsertLocal` / `ewrCleanupData` on `e`, or `e`
    dies in it. Runs of the reactor for other entities, other reactors, events and despawns of others do not touch it. -/
theorem local_data_moves_only_by_reactor_commands {p : Prog} {hh : Hist} {s s' : St} (ht : tick p hh s = some s') (e : Nat) :
    s'.ewLocal e = s.ewLocal e ∨ (s.alive e = true ∧ s'.alive e = false) ∨ (∃ c, nextCmd s = some c ∧ touchesLocal e c) ∨
    startsRunFor e s :=
  local_stable ht e

/-- **... as last modified by earlier runs for it**: the scripted body of an entity world reactor writes the local data of
    the entity that caused the run through `EntityLocal::get_mut` (it adds 100); the value a run reads is the one the previous
    run for that entity left. What `bumpLocal` does to the entity the tracker names ... -/
theorem run_modifies_own_data (s : St) (wr e v : Nat) (h : readLocal s wr = some (e, v)) :
    alookup ((bumpLocal s (some wr)).ewLocal e) wr = some (v + 100) := by
  have aset_lookup : ∀ (l : List (Nat × Nat)), alookup (aset l wr (v + 100)) wr = some (v + 100) := by
    intro l; induction l with
    | nil => simp [aset, alookup]
    | cons x l ih =>
      obtain ⟨a, b⟩ := x
      by_cases hab : a = wr
      · simp [aset, alookup, hab]
      · simp [aset, alookup, hab, ih]
  simp [bumpLocal, h, upd, aset_lookup]

/-- ... and to nobody else's. -/
theorem run_leaves_other_data (s : St) (w : Option Nat) (e : Nat) (h : ∀ wr v, w = some wr → readLocal s wr ≠ some (e, v)) :
    (bumpLocal s w).ewLocal e = s.ewLocal e := bumpLocal_ewLocal_other s w e h

/-- **A run caused by an entity exposes exactly the data attached when the entity was added, as last modified by earlier
    runs for it**: if the data was `v` at some point — after the add, or after the last run for that entity —, the entity
    stayed alive and since then no add / remove command for it was applied and no run of the reactor for it started, a run
    whose tracker names that entity reads `(entity, v)`. -/
theorem run_reads_attached_data {p : Prog} {hh : Hist} (wr src v : Nat) {s s' : St}
    (h : QuietRun p hh (fun x => ((∃ c, nextCmd x = some c ∧ touchesLocal src c) ∨ startsRunFor src x) ∨ x.alive src = false) s s')
    (ha : s'.alive src = true)
    (hv : alookup (s.ewLocal src) wr = some v)
    (hr : s'.trkEnt.reacting = true) (hsys : s'.trkEnt.curSys = s'.ewrSys wr) (hsrc : s'.trkEnt.curSrc = src) :
    readLocal s' wr = some (src, v) :=
  local_of_source s' wr src v hr hsys hsrc (by rw [local_stable_run src h ha]; exact hv)

/-- The world reactor's system is never duplicated or despawned by adding / removing triggers: the reactor's registrations
    under a type-wide key move only by commands naming that key (C06), and adding creates neither entity nor arc
    (`add_creates_no_entity`, `add_creates_no_arc`). -/
theorem wr_registrations_stable {p : Prog} {hh : Hist} (tb : Tbl) (ty : Nat) {s s' : St}
    (h : QuietRun p hh (fun x => ∃ c, nextCmd x = some c ∧ touchesTbl tb ty c) s s') : s'.tbl tb ty = s.tbl tb ty :=
  typewide_stable_run tb ty h

/-- Removing triggers: the revoke, then one data clean-up per distinct entity named by the bundle. -/
theorem ewrRemove_cmds (s : St) (wr : Nat) (trigs : List Trig) :
    (enqueue s (.ewrRemove wr trigs)).2 =
      Cmd.revoke (s.ewrSys wr) trigs :: (uniqueEntities trigs []).map (fun e => Cmd.ewrCleanupData (s.ewrSys wr) e wr) := by
  simp [enqueue]

/-- **Data removed iff the last trigger is gone**: the clean-up removes the entity's local data exactly when no
    registration of the reactor's system remains on that entity, and keeps it otherwise. -/
theorem data_kept_while_trigger_remains (s : St) (sys e wr : Nat) (l : List (RType × Handle))
    (hl : s.entReactors e = some l) (hrem : l.any (fun p => p.2.sys == sys) = true) :
    applyCmd s (.ewrCleanupData sys e wr) = s := by
  simp [applyCmd, hl, hrem]

theorem data_removed_after_last (s : St) (sys e wr : Nat) (l : List (RType × Handle))
    (hl : s.entReactors e = some l) (hrem : l.any (fun p => p.2.sys == sys) = false) :
    alookup ((applyCmd s (.ewrCleanupData sys e wr)).ewLocal e) wr = none := by
  have aerase_lookup : ∀ (m : List (Nat × Nat)), alookup (aerase m wr) wr = none := by
    intro m; induction m with
    | nil => simp [aerase, alookup]
    | cons a m ih =>
      obtain ⟨x, y⟩ := a
      simp only [aerase, List.filter_cons]
      split
      · rename_i hx
        have : x ≠ wr := by simpa using hx
        simp only [alookup, this, ↓reduceIte]; simpa [aerase] using ih
      · simpa [aerase] using ih
  simp [applyCmd, hl, hrem, aerase_lookup]

/-- The entity's death removes its local data with it. -/
theorem death_removes_local (s : St) (e : Nat) : (kill s e).ewLocal e = [] := by simp [kill]

/-- Every distinct entity of the bundle is cleaned up, each once, in first-occurrence order. -/
theorem uniqueEntities_two (e1 e2 ty : Nat) (h : e1 ≠ e2) :
    uniqueEntities [.eEv e1 ty, .eEv e2 ty, .eEv e1 ty] [] = [e1, e2] := by
  have h' : e2 ≠ e1 := fun hh => h hh.symm
  simp [uniqueEntities, rtOfTrig, h, h']

def exSt : St :=
  { ewrSys := fun _ => 4
    ewLocal := fun _ => [(0, 9)]
    trkEnt := { reacting := true, curSys := 4, curSrc := 2 } }

example : readLocal exSt 0 = some (2, 9) := local_of_source exSt 0 2 9 rfl rfl rfl rfl

/-- **The run of an entity world reactor names the entity that caused it, in every execution**: when a reaction command of
    kind `entReact src rt` (or an entity event aimed at `src`) reaches its run, the entity-reaction tracker is reacting, its
    source is `src` and its system is the command's target — so `readLocal` (what `EntityLocal` returns) is the data attached
    to `src` (`run_reads_attached_data`). No hypothesis on what else is pending (finding F1 is repaired). -/
theorem run_names_its_entity (p : Prog) (h : Hist) {s : St} {s0 : St} (hI0 : CoreInv s0) (hr : Reach p h s0 s) {sys idx src : Nat} {rt : RType}
    {rest : List Frame} (hst : s.stack = Frame.runnerLookup sys (.entReact src rt) idx :: rest) :
    let s1 := setupK { s with stack := rest, storage := upd s.storage sys (some false), counter := s.counter + 1 } (.entReact src rt) sys
    s1.trkEnt.reacting = true ∧ s1.trkEnt.curSrc = src ∧ s1.trkEnt.curSys = sys := by
  intro s1
  obtain ⟨hc, hf⟩ := C03.C03_all p h hI0 hr hst
  simp only [claimedOwn, Bool.and_eq_true, beq_iff_eq] at hc
  have hre : s1.trkEnt.reacting = true := hf.2.2.1
  refine ⟨hre, hc.1, ?_⟩
  -- the tracker was idle before `setup`, so `start` did claim an entry: the current system is the command's
  obtain ⟨_, _, f⟩ := all_reach p h hI0.inv5.ctl hI0.inv5.once hI0.inv5.flag hr
  have htop := f.top; rw [hst] at htop
  have hi : Fl s = (false, false, false, false) := htop.1
  simp only [Fl, Prod.mk.injEq] at hi
  show (s.trkEnt.start sys src rt).curSys = sys
  by_cases hm : (sys, src, rt) ∈ s.trkEnt.prepared
  · exact (TrkEnt.start_claims_own s.trkEnt sys src rt hm).2.1
  · exfalso
    have : s1.trkEnt = s.trkEnt := by
      show s.trkEnt.start sys src rt = s.trkEnt
      exact TrkEnt.start_none s.trkEnt sys src rt hm
    rw [this, hi.2.2.1] at hre; cases hre

/-- **The same, for the executions the correspondence check runs**: for every scenario — its world reactors and entity
    world reactors spawned as system commands before the first operation, as the harness does while building the `App` —
    every state reached from the scenario's initial state satisfies every invariant of the model, and so the run of an
    entity world reactor names the entity that caused it. (`scenario_start`: the invariants hold in the initial state of
    every scenario; every whole-execution theorem of the eighteen property files takes any such start state.) -/
theorem scenario_run_names_its_entity (sc : Scenario) {s : St} (hr : Reach sc.prog sc.hist sc.init s) {sys idx src : Nat} {rt : RType}
    {rest : List Frame} (hst : s.stack = Frame.runnerLookup sys (.entReact src rt) idx :: rest) :
    let s1 := setupK { s with stack := rest, storage := upd s.storage sys (some false), counter := s.counter + 1 } (.entReact src rt) sys
    s1.trkEnt.reacting = true ∧ s1.trkEnt.curSrc = src ∧ s1.trkEnt.curSys = sys :=
  run_names_its_entity sc.prog sc.hist (scenario_start sc).core hr hst

theorem scenario_states_satisfy_all_invariants (sc : Scenario) {s : St} (hr : Reach sc.prog sc.hist sc.init s) : AllInv s :=
  scenario_invariants sc hr

/-- Non-vacuity: a scenario with one world reactor and one entity world reactor starts with two live system commands. -/
example : (({ wrs := [0], ewrs := [0] } : Scenario).init.nextEnt = 2) ∧ ({ wrs := [0], ewrs := [0] } : Scenario).init.storage 1 = some true ∧
    ({ wrs := [0], ewrs := [0] } : Scenario).init.ewrSys 0 = 1 := by decide

end Cobweb.C16
