/-
  C05 — Event payloads are released exactly after their last reader.

  A payload lives on a data entity; `kill` of that entity is the drop of the payload (`dropPayload`, unless the payload
  was taken by its reader). The count discipline: the trigger stores `cnt` = number of reaction commands it queues
  (C01: `x.cnt`), every reaction's `cleanup` — after a run, or on the abort path — decrements once
  (`tryCleanupData`), and the entity is despawned exactly by the decrement that reaches zero.
-/
import Cobweb.Proofs.Boot
import Cobweb.Proofs.Kill
import Cobweb.Theorems.C01
import Cobweb.Proofs.DataCount
import Cobweb.Proofs.SysLive
import Cobweb.Proofs.Pay

namespace Cobweb.C05

/-- A decrement that does not reach zero keeps the data entity (and the payload) alive. -/
theorem cleanup_keeps_while_readers_remain (s : St) (d : Nat) (x : DataEnt) (hal : s.alive d = true)
    (hd : s.data d = some x) (hk : x.kind ≠ .sys) (hc : x.cnt ≥ 2) :
    (tryCleanupData s d).alive d = true ∧ (tryCleanupData s d).data d = some { x with cnt := x.cnt - 1 } ∧
    (tryCleanupData s d).trace = s.trace := by
  have : x.cnt - 1 ≠ 0 := by omega
  simp [tryCleanupData, hal, hd, hk, this]

/-- The decrement of the last reader despawns the data entity and drops the payload — exactly once, exactly then. -/
theorem cleanup_last_reader_drops (s : St) (d : Nat) (x : DataEnt) (hal : s.alive d = true)
    (hd : s.data d = some x) (hk : x.kind ≠ .sys) (hc : x.cnt ≤ 1) (hnt : x.taken = false) :
    (tryCleanupData s d).alive d = false ∧ (tryCleanupData s d).data d = none ∧
    Ev.dropPayload x.pid ∈ (tryCleanupData s d).trace := by
  have h0 : x.cnt - 1 = 0 := by omega
  have hred : tryCleanupData s d = kill { s with data := upd s.data d (some { x with cnt := x.cnt - 1 }) } d := by
    simp [tryCleanupData, hal, hd, hk, h0]
  rw [hred]
  refine ⟨kill_alive_self _ d, by simp [kill_data], ?_⟩
  exact kill_drops _ d { x with cnt := x.cnt - 1 } (by simp) hnt

/-- A data entity that is already gone is not touched again (no double drop). -/
theorem cleanup_dead_noop (s : St) (d : Nat) (h : s.alive d = false) : tryCleanupData s d = s := by
  simp [tryCleanupData, h]

/-- System events: the cleanup of the run despawns the data entity — the payload is dropped there unless the body took it. -/
theorem sysEvent_cleanup_despawns (s : St) (d0 : Nat) :
    (cleanupK s (.sysEv d0)).alive s.trkSys.cur = false ∧ (cleanupK s (.sysEv d0)).trkSys.reacting = false := by
  constructor
  · simp only [cleanupK, despawn1]
    split
    · exact kill_alive_self _ _
    · rename_i h; simpa using h
  · simp [cleanupK]

/-- An event nobody listens to is dropped immediately and creates no bookkeeping entity. -/
theorem no_listener_immediate (s : St) (ty pid : Nat) (h : s.tbl .bc ty = []) :
    (applyCmd s (.broadcast ty pid)).trace = .dropPayload pid :: s.trace ∧
    (applyCmd s (.broadcast ty pid)).nextEnt = s.nextEnt ∧ (applyCmd s (.broadcast ty pid)).stack = s.stack := by
  simp [C01.no_registration_no_run s ty pid h, St.emit]

/-- The reader count stored with the payload is the number of reactions queued for it (from C01). -/
theorem count_is_number_of_readers (s : St) (ty pid : Nat) (hne : s.tbl .bc ty ≠ []) :
    ∃ d x cs, applyCmd s (.broadcast ty pid) = s.fresh.2.push [.flush, .batch (Cmd.spawnData d x :: cs)] ∧
      x.cnt = (C01.targets cs).length := by
  obtain ⟨d, x, cs, h1, h2, h3⟩ := C01.broadcast_dispatch s ty pid hne
  exact ⟨d, x, cs, h1, by rw [h2, h3]; simp⟩

/-- The abort path (target gone) performs the same release as a run: `setup` claims the prepared metadata, `cleanup`
    decrements / despawns. -/
theorem abort_releases (p : Prog) (h : Hist) (s : St) (sys d : Nat) :
    runFrame p h s (.abort sys (.bcEv d)) = cleanupK (setupK s (.bcEv d) sys) (.bcEv d) := rfl

/-! ### whole-execution theorems (invariant `DataInv`, `Proofs/DataCount.lean`) -/

/-- **The counter is exact, for every execution.** In every state reachable from the empty world, the
    `DataEntityCounter` of every live broadcast / entity-event data entity equals the number of its unfinished readers —
    reaction commands queued but not yet applied, entries of the event tracker's prepared list (commands applied, run
    not yet started: in-line, postponed, waiting in a replay loop, or about to be aborted), plus the run that is reading
    it right now — and it is positive: the payload exists as long as a reader is to come. This holds whatever
    the tracker hands to which run (finding F1 permutes *which* pending reader reads, never *how many* there are). -/
theorem counter_exact {p : Prog} {h : Hist} {s : St} {s0 : St} (hI0 : CoreInv s0) (hr : Reach p h s0 s) (d : Nat) (x : DataEnt)
    (hal : s.alive d = true) (hd : s.data d = some x) (hk : x.kind ≠ .sys) : x.cnt = readers d s ∧ 1 ≤ x.cnt :=
  (core_reach_from p h hI0 hr).data.live d x hal hd hk

/-- **No broadcast / entity-event bookkeeping entity outlives the tree**: at quiescence no such data entity is left,
    so its payload has been dropped (`kill` is the only way its data disappears, and `kill` drops the payload). -/
theorem no_event_data_at_quiescence {p : Prog} {h : Hist} {s : St} {s0 : St} (hI0 : CoreInv s0) (hr : Reach p h s0 s) (hq : s.stack = [])
    (d : Nat) (x : DataEnt) (hal : s.alive d = true) (hd : s.data d = some x) : x.kind = .sys := by
  apply Classical.byContradiction
  intro hk
  obtain ⟨I, D⟩ : Inv5 s ∧ DataInv s := ⟨(core_reach_from p h hI0 hr).inv5, (core_reach_from p h hI0 hr).data⟩
  have hc := D.live d x hal hd hk
  -- nothing is pending: no prepared entry, no frame, no current reader
  have hprep : s.trkEvt.prepared = [] := by
    have hb : s.buffered = [] := by
      cases hb : s.buffered with
      | nil => rfl
      | cons b bs =>
        have := I.ctl.buffered b (by rw [hb]; simp)
        rw [hq] at this; cases this
    have := I.pend .evt
    simp only [allPending, hb, hq, stackPending, List.flatMap_nil, List.append_nil, pend_nil] at this
    have := List.Perm.eq_nil this
    simpa [prep] using this
  have hfl : s.trkEvt.reacting = false := by
    have := I.flag.top; rw [hq] at this
    have hi : Fl s = (false, false, false, false) := this.1
    simp only [Fl, Prod.mk.injEq] at hi
    exact hi.2.1
  have : readers d s = 0 := by simp [readers, prepReads, curReads, hprep, hfl, hq, stackReads]
  omega

/-- The release happens exactly when the last reader is done: the decrement that despawns the data entity leaves no reader
    behind. (Contrapositive: while a scheduled reader has yet to run, the framework does not release the payload.) -/
theorem release_leaves_no_reader {p : Prog} {h : Hist} {s : St} {s0 : St} (hI0 : CoreInv s0) (hr : Reach p h s0 s) (d : Nat) (x : DataEnt)
    (hal : s.alive d = true) (hd : s.data d = some x) (hk : x.kind ≠ .sys) (hlast : x.cnt = 1) : readers d s = 1 := by
  have := counter_exact hI0 hr d x hal hd hk
  omega


/-! ### system events (`Proofs/SysLive.lean`) -/

/-- **A system event's data always has a reader still to come**: the queued `sysEvent` command, its prepared entry in the
    system-event tracker, or the run that is reading right now (whose clean-up despawns the data). Along every
    execution. -/
theorem sys_event_data_has_reader {p : Prog} {h : Hist} {s : St} {s0 : St} (hI0 : CoreInv s0) (hr : Reach p h s0 s) (d : Nat) (x : DataEnt)
    (hd : s.data d = some x) (hk : x.kind = .sys) : hasReader s d :=
  (core_reach_from p h hI0 hr).sys.live d x hd hk

/-- **No system-event data outlives its tree**: at quiescence none is left — its reader's clean-up (or the death of its
    entity) has released it. With `no_event_data_at_quiescence`: no event data of any kind survives a tree. -/
theorem no_sys_event_data_at_quiescence {p : Prog} {h : Hist} {s : St} {s0 : St} (hI0 : CoreInv s0) (hr : Reach p h s0 s) (hq : s.stack = [])
    (d : Nat) (x : DataEnt) (hd : s.data d = some x) : x.kind ≠ .sys := by
  intro hk
  obtain ⟨I, S⟩ : Inv5 s ∧ SysInv s := ⟨(core_reach_from p h hI0 hr).inv5, (core_reach_from p h hI0 hr).sys⟩
  have hrd := S.live d x hd hk
  have htop := I.flag.top; rw [hq] at htop
  have hfl : s.trkSys.reacting = false := by
    have hi : Fl s = (false, false, false, false) := htop.1
    simp only [Fl, Prod.mk.injEq] at hi; exact hi.1
  have hwq : s.wq = [] := htop.2
  have hprep : s.trkSys.prepared = [] := by
    have hb : s.buffered = [] := by
      cases hb : s.buffered with
      | nil => rfl
      | cons b bs =>
        have := I.ctl.buffered b (by rw [hb]; simp)
        rw [hq] at this; cases this
    have := I.pend .sys
    simp only [allPending, hb, hq, stackPending, List.flatMap_nil, List.append_nil, pend_nil] at this
    have := List.Perm.eq_nil this
    simpa [prep] using this
  rcases hrd with ⟨sys, h1⟩ | ⟨h1, _⟩ | ⟨sys, h1⟩
  · rw [hprep] at h1; cases h1
  · rw [hfl] at h1; cases h1
  · simp [allCmds, hwq, hq] at h1

/-- No event data of any kind at quiescence. -/
theorem no_data_at_quiescence {p : Prog} {h : Hist} {s : St} {s0 : St} (hI0 : CoreInv s0) (hr : Reach p h s0 s) (hq : s.stack = [])
    (d : Nat) (hal : s.alive d = true) : s.data d = none := by
  cases hd : s.data d with
  | none => rfl
  | some x =>
    exfalso
    exact no_sys_event_data_at_quiescence hI0 hr hq d x hd (no_event_data_at_quiescence hI0 hr hq d x hal hd)

/-! ### payload accounting (broadcast, entity-event and system-event payloads alike) -/

/-- **Every sent payload is accounted for, along every execution**: the number of times payload `pid` was sent equals the
    number of times it was dropped, plus the queued commands that still carry it (`broadcast`, `entityEvent`, the spawn of
    its data entity), plus the data entities that store it untaken. Nothing is lost and nothing is dropped twice. -/
theorem payload_accounting {p : Prog} {h : Hist} {s : St} {s0 : St} (hI0 : CoreInv s0) (hr : Reach p h s0 s) (pid : Nat) :
    s.trace.count (.send pid) = s.trace.count (.dropPayload pid) + qW (cmdP pid) s + dataP pid s := by
  have := ((core_reach_from p h hI0 hr).pay).bal pid
  simpa [nS, nD] using this

/-- **A payload is never dropped more often than it was sent** — in particular a payload sent once is dropped at most once,
    whichever way it goes (no listener, dead data entity, last reader's clean-up, a taken system event, an aborted run). -/
theorem never_dropped_more_than_sent {p : Prog} {h : Hist} {s : St} {s0 : St} (hI0 : CoreInv s0) (hr : Reach p h s0 s) (pid : Nat) :
    s.trace.count (.dropPayload pid) ≤ s.trace.count (.send pid) := by
  have := payload_accounting hI0 hr pid; omega

/-- **At quiescence every payload that was sent has been dropped exactly as often as it was sent**: no queued command is
    left, and no data entity (`no_data_at_quiescence`, and dead entities hold no data) — so the two counts agree. -/
theorem all_payloads_dropped_at_quiescence {p : Prog} {h : Hist} {s : St} {s0 : St} (hI0 : CoreInv s0) (hr : Reach p h s0 s) (hq : s.stack = [])
    (pid : Nat) : s.trace.count (.dropPayload pid) = s.trace.count (.send pid) := by
  obtain ⟨I, D⟩ : Inv5 s ∧ DataInv s := ⟨(core_reach_from p h hI0 hr).inv5, (core_reach_from p h hI0 hr).data⟩
  have htop := I.flag.top; rw [hq] at htop
  have hwq : s.wq = [] := htop.2
  have hdat : ∀ d, s.data d = none := by
    intro d
    cases hal : s.alive d with
    | true => exact no_data_at_quiescence hI0 hr hq d hal
    | false => exact D.dead d hal
  have := payload_accounting hI0 hr pid
  have e1 : qW (cmdP pid) s = 0 := by simp [qW, hwq, hq, sumF]
  have e2 : dataP pid s = 0 := by
    simp only [dataP]
    exact sumTo_zero _ _ (fun k => by rw [hdat k]; rfl)
  omega

/-- **A data entity id is never pending twice**: it is the target of at most one queued spawn command, or it holds data,
    never both; and a queued payload is never already marked taken. -/
theorem data_entity_spawned_once {p : Prog} {h : Hist} {s : St} {s0 : St} (hI0 : CoreInv s0) (hr : Reach p h s0 s) (d : Nat) :
    qW (cmdSp d) s + (if (s.data d).isSome then 1 else 0) ≤ 1 := by
  have := ((core_reach_from p h hI0 hr).pay).occ1 d
  simpa [occ, someD] using this


/-- Non-vacuity: a system sends itself nothing; the top level sends it a system event: in the middle of the tree the data
    entity exists and has a reader, at quiescence it is gone. -/
def demoProg3 : Prog := fun _ _ _ => none
def demoHist3 : Hist :=
  { op := fun t _ => if t < 2 then some .acts else none,
    act := fun t i _ => match t, i with
      | 0, 0 => some (.spawnSys 0 false)
      | 1, 0 => some (.sysEvent 0 0 9)
      | _, _ => none }

example : (exec demoProg3 demoHist3 16 {}).data 1 ≠ none ∧ (exec demoProg3 demoHist3 100 {}).stack = [] ∧
    (exec demoProg3 demoHist3 100 {}).data 1 = none := by decide

example : DataInv ({} : St) := data_default

/-- Non-vacuity: two reactors on one broadcast. In the middle of the tree the data entity (id 2) is alive with counter 2 and
    two unfinished readers; after the first reader's cleanup both are 1; at quiescence the entity is gone. -/
def demoProg : Prog := fun _ _ _ => none
def demoHist : Hist :=
  { op := fun t _ => if t = 0 then some .acts else none,
    act := fun _ i _ => match i with
      | 0 => some (.on .persistent 0 false [.bc 0])
      | 1 => some (.on .persistent 0 false [.bc 0])
      | 2 => some (.broadcast 0 7)
      | _ => none }

example : ((exec demoProg demoHist 30 {}).data 2).map (·.cnt) = some 2 ∧ readers 2 (exec demoProg demoHist 30 {}) = 2 ∧
    ((exec demoProg demoHist 40 {}).data 2).map (·.cnt) = some 1 ∧ readers 2 (exec demoProg demoHist 40 {}) = 1 ∧
    (exec demoProg demoHist 200 {}).stack = [] ∧ (exec demoProg demoHist 200 {}).data 2 = none := by decide

example : (tryCleanupData ({ alive := fun _ => true, data := fun _ => some ⟨.bc, 0, 7, 0, 1, false⟩ } : St) 3).alive 3 = false :=
  (cleanup_last_reader_drops _ 3 ⟨.bc, 0, 7, 0, 1, false⟩ rfl rfl (by decide) (by decide) rfl).1

/-- Non-vacuity of the accounting: in the broadcast demo the payload 7 is sent once; in the middle of the tree it is stored on
    the data entity and not yet dropped; at quiescence it has been dropped exactly once. -/
example : (exec demoProg demoHist 30 {}).trace.count (.send 7) = 1 ∧ (exec demoProg demoHist 30 {}).trace.count (.dropPayload 7) = 0 ∧
    dataP 7 (exec demoProg demoHist 30 {}) = 1 ∧
    (exec demoProg demoHist 200 {}).trace.count (.dropPayload 7) = 1 := by decide

/-- ... and the system event's payload 9 is taken by its reader and dropped once. -/
example : (exec demoProg3 demoHist3 100 {}).trace.count (.send 9) = 1 ∧ (exec demoProg3 demoHist3 100 {}).trace.count (.dropPayload 9) = 1 := by
  decide

end Cobweb.C05
