/-
  C02 — Every scheduled run happens exactly once and the tree runs to completion.

  Property theorems (all for every program `p`, every history `h`, every initial state satisfying the control
  invariant — in particular the empty world and every scenario's initial world — and every reachable state, i.e.
  any tree shape, depth and recursion pattern). Helper lemmas live in `Cobweb.Proofs.*`.
-/
import Cobweb.Proofs.CtlStep

namespace Cobweb.C02

variable (p : Prog) (h : Hist) {s0 s : St}

/-- A system whose callback is present is not executing anywhere up the tree: when the runner finds the callback, no
    activation of that system is on the control stack — so a run is never entered twice concurrently. -/
theorem no_double_entry (hc : Ctl s0) (hr : Reach p h s0 s) {sys idx : Nat} {k : Kind} {rest : List Frame}
    (hst : s.stack = .runnerLookup sys k idx :: rest) (hal : s.alive sys = true) (hsto : s.storage sys = some true) :
    sys ∉ running rest := by
  have c := ctl_reach p h hc hr
  intro hin
  have : sys ∈ running s.stack := by rw [hst, running_cons]; exact hin
  have := c.runningTaken sys this hal
  rw [hsto] at this; cases this

/-- A command finds its live target's callback missing only when that same system is executing higher up in the
    tree, and then the tree counter it recorded is non-zero: it is postponed, never dropped. -/
theorem postponed_only_when_executing (hc : Ctl s0) (hr : Reach p h s0 s) {sys idx : Nat} {k : Kind} {rest : List Frame}
    (hst : s.stack = .runnerLookup sys k idx :: rest) (hsto : s.storage sys = some false) :
    sys ∈ running rest ∧ idx ≠ 0 := by
  have c := ctl_reach p h hc hr
  have hrun : sys ∈ running rest := by
    have := c.takenRunning sys hsto
    rw [hst, running_cons] at this; exact this
  refine ⟨hrun, ?_⟩
  intro h0
  have hso := c.stackOK; rw [hst] at hso
  have hina : hasActive rest = false := (hso.1.1 idx rfl).mp h0
  have := running_sub_waiting rest sys hrun
  rw [waiting_nil_of_inactive rest hina] at this
  cases this

/-- The "system command missing" abort at the root of a tree is unreachable. -/
theorem abortRoot_unreachable (hc : Ctl s0) (hr : Reach p h s0 s) {sys : Nat} {k : Kind} {rest : List Frame}
    (hst : s.stack = .runnerLookup sys k 0 :: rest) : s.storage sys ≠ some false := by
  intro hsto
  exact (postponed_only_when_executing p h hc hr hst hsto).2 rfl

/-- Every postponed command waits for an activation of its target that has not yet replayed its queue. -/
theorem postponed_waits (hc : Ctl s0) (hr : Reach p h s0 s) : ∀ b ∈ s.buffered, b.1 ∈ waiting s.stack :=
  (ctl_reach p h hc hr).buffered

/-- When the root runner of a tree exits, no postponed command is left: nothing is ever discarded. -/
theorem discard_unreachable (hc : Ctl s0) (hr : Reach p h s0 s) {sys : Nat} {rest : List Frame}
    (hst : s.stack = .finish sys 0 :: rest) : s.buffered = [] := by
  have c := ctl_reach p h hc hr
  have hso := c.stackOK; rw [hst] at hso
  have hina : hasActive rest = false := (hso.1.1 0 rfl).mp rfl
  cases hb : s.buffered with
  | nil => rfl
  | cons b bs =>
    have := c.buffered b (by rw [hb]; simp)
    rw [hst, waiting_cons] at this
    simp only [Frame.waitSys, Option.toList, List.nil_append] at this
    rw [waiting_nil_of_inactive rest hina] at this
    cases this

/-- When the flush that started a tree has returned (empty control stack), nothing is waiting to run. -/
theorem complete_at_quiescence (hc : Ctl s0) (hr : Reach p h s0 s) (hq : s.stack = []) :
    s.buffered = [] ∧ s.counter = 0 := by
  have c := ctl_reach p h hc hr
  constructor
  · cases hb : s.buffered with
    | nil => rfl
    | cons b bs =>
      have := c.buffered b (by rw [hb]; simp)
      rw [hq] at this; cases this
  · apply c.counter.mpr; rw [hq]; rfl

/-- Non-vacuity: the empty world satisfies the hypothesis, and so does every state reachable from it. -/
example : Ctl ({} : St) := ctl_default

end Cobweb.C02
