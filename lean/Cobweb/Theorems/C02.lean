/-
  C02 — Every scheduled run happens exactly once and the tree runs to completion.

  Property theorems (all for every program `p`, every history `h`, every initial state satisfying the control
  invariant — in particular the empty world and every scenario's initial world — and every reachable state, i.e.
  any tree shape, depth and recursion pattern). Helper lemmas live in `Cobweb.Proofs.*`.
-/
import Cobweb.Proofs.Boot
import Cobweb.Proofs.CtlStep
import Cobweb.Proofs.Counts

namespace Cobweb.C02

variable (p : Prog) (h : Hist) {s0 s : St}

/-- A system whose callback is present is not executing anywhere up the tree: when the runner finds the callback, no
    activation of that system is on the control stack — so a run is never entered twice concurrently. -/
theorem no_double_entry (hc : Ctl s0) (hr : Reach p h s0 s) {sys idx : Nat} {k : Kind} {rest : List Frame}
    (hst : s.stack = .runnerLookup sys k idx :: rest) (hal : s.alive sys = true) (hsto : s.storage sys = some true) :
    sys ∉ running rest := by
  have c := ctl_reach p h hc hr
  intro hin
  have : sys ∈ running s.stack := by rw [hst, running_cons]; exact hin
  have := c.runningTaken sys this hal
  rw [hsto] at this; cases this

/-- A command finds its live target's callback missing only when that same system is executing higher up in the
    tree, and then the tree counter it recorded is non-zero: it is postponed, never dropped. -/
theorem postponed_only_when_executing (hc : Ctl s0) (hr : Reach p h s0 s) {sys idx : Nat} {k : Kind} {rest : List Frame}
    (hst : s.stack = .runnerLookup sys k idx :: rest) (hsto : s.storage sys = some false) :
    sys ∈ running rest ∧ idx ≠ 0 := by
  have c := ctl_reach p h hc hr
  have hrun : sys ∈ running rest := by
    have := c.takenRunning sys hsto
    rw [hst, running_cons] at this; exact this
  refine ⟨hrun, ?_⟩
  intro h0
  have hso := c.stackOK; rw [hst] at hso
  have hina : hasActive rest = false := (hso.1.1 idx rfl).mp h0
  have := running_sub_waiting rest sys hrun
  rw [waiting_nil_of_inactive rest hina] at this
  cases this

/-- The "system command missing" abort at the root of a tree is unreachable. -/
theorem abortRoot_unreachable (hc : Ctl s0) (hr : Reach p h s0 s) {sys : Nat} {k : Kind} {rest : List Frame}
    (hst : s.stack = .runnerLookup sys k 0 :: rest) : s.storage sys ≠ some false := by
  intro hsto
  exact (postponed_only_when_executing p h hc hr hst hsto).2 rfl

/-- Every postponed command waits for an activation of its target that has not yet replayed its queue. -/
theorem postponed_waits (hc : Ctl s0) (hr : Reach p h s0 s) : ∀ b ∈ s.buffered, b.1 ∈ waiting s.stack :=
  (ctl_reach p h hc hr).buffered

/-- When the root runner of a tree exits, no postponed command is left: nothing is ever discarded. -/
theorem discard_unreachable (hc : Ctl s0) (hr : Reach p h s0 s) {sys : Nat} {rest : List Frame}
    (hst : s.stack = .finish sys 0 :: rest) : s.buffered = [] := by
  have c := ctl_reach p h hc hr
  have hso := c.stackOK; rw [hst] at hso
  have hina : hasActive rest = false := (hso.1.1 0 rfl).mp rfl
  cases hb : s.buffered with
  | nil => rfl
  | cons b bs =>
    have := c.buffered b (by rw [hb]; simp)
    rw [hst, waiting_cons] at this
    simp only [Frame.waitSys, Option.toList, List.nil_append] at this
    rw [waiting_nil_of_inactive rest hina] at this
    cases this

/-- When the flush that started a tree has returned (empty control stack), nothing is waiting to run. -/
theorem complete_at_quiescence (hc : Ctl s0) (hr : Reach p h s0 s) (hq : s.stack = []) :
    s.buffered = [] ∧ s.counter = 0 := by
  have c := ctl_reach p h hc hr
  constructor
  · cases hb : s.buffered with
    | nil => rfl
    | cons b bs =>
      have := c.buffered b (by rw [hb]; simp)
      rw [hq] at this; cases this
  · apply c.counter.mpr; rw [hq]; rfl

/-- **Exactly once, for every execution** (event level). Let `#e` be the number of occurrences of the runner event `e`
    in the trace of a quiescent state reachable from the empty world. Then for every system `sys`:
    * `#applied = #enter + #abortNoEntity + #abortNoStorage + #replay`: every arrival of a command at the runner is
      either a first arrival or the replay of a postponed one, and every first arrival (`#applied − #replay` of them) ended
      in exactly one of: the system ran (`enter`), or the target was gone (one of the two aborts);
    * `#postponed = #replay`: every postponed command has been replayed, exactly once;
    * `#enter = #exit`: every run that started has finished, with everything it caused;
    * `abortRoot` and `discard` never occur: no command is dropped because its callback is missing. -/
theorem exactly_once_counts {s0 : St} (hI0 : CoreInv s0) (hr : Reach p h s0 s) (hq : s.stack = []) (sys : Nat) :
    nE (.applied sys) s = nE (.enter sys) s + nE (.abortNoEntity sys) s + nE (.abortNoStorage sys) s + nE (.replay sys) s ∧
    nE (.postponed sys) s = nE (.replay sys) s ∧
    nE (.enter sys) s = nE (.exit sys) s ∧
    nE (.abortRoot sys) s = 0 ∧ nE (.discard sys) s = 0 := by
  have c := (core_reach_from p h hI0 hr).cnt
  have nb := (core_reach_from p h hI0 hr).nobad
  have hbuf := (complete_at_quiescence p h hI0.inv5.ctl hr hq).1
  have z1 := nE_zero_of_nobad nb (.abortRoot sys) rfl
  have z2 := nE_zero_of_nobad nb (.discard sys) rfl
  have a := c.applied sys
  have b := c.postponed sys
  have e := c.entered sys
  rw [hq] at a b e
  rw [hbuf] at b
  simp only [sumF_nil, bcount_nil] at a b e
  refine ⟨by omega, by omega, by omega, z1, z2⟩

/-- The same balances in the middle of a tree: what is not yet accounted for is exactly what is still pending on the
    control stack (`runnerLookup` frames, `afterBody` frames) and in the postponed queue / replay loops. -/
theorem counts_mid_tree {s0 : St} (hI0 : CoreInv s0) (hr : Reach p h s0 s) : Cnt s := (core_reach_from p h hI0 hr).cnt

/-- Non-vacuity of `exactly_once_counts`: a system that re-runs itself once from its first body. The inner command is
    postponed and replayed: three arrivals at the runner, two runs, one postponement, one replay; the tree is complete. -/
def demoProg : Prog := fun sys i s => if i = 0 ∧ (s.info sys).nruns = 1 then some (.run sys) else none
def demoHist : Hist :=
  { op := fun t _ => if t = 0 then some .acts else none,
    act := fun _ i _ => match i with | 0 => some (.spawnSys 0 false) | 1 => some (.run 0) | _ => none }

example : (exec demoProg demoHist 80 {}).stack = [] ∧
    nE (.applied 0) (exec demoProg demoHist 80 {}) = 3 ∧ nE (.enter 0) (exec demoProg demoHist 80 {}) = 2 ∧
    nE (.postponed 0) (exec demoProg demoHist 80 {}) = 1 ∧ nE (.replay 0) (exec demoProg demoHist 80 {}) = 1 ∧
    nE (.exit 0) (exec demoProg demoHist 80 {}) = 2 := by decide

example : Reach demoProg demoHist ({} : St) (exec demoProg demoHist 80 {}) := reach_exec _ _ _ _

/-- Non-vacuity: the empty world satisfies the hypothesis, and so does every state reachable from it. -/
example : Ctl ({} : St) := ctl_default

end Cobweb.C02
