/-
  C03 — A run sees exactly the data of the event that caused it.  **Holds after the repair of finding F1** (`/repo`: every
  queued reaction carries a ticket and the access trackers look prepared metadata up by ticket, not by system).

  The command that causes a run carries (as data of its `Kind`) the metadata it prepared; `claimedOwn s k` says the
  tracker `start` claimed exactly that metadata. `C03_partial_*`: whenever the claim is exact and only the command's own
  trackers are flagged, every reader returns exactly the command's own event and every other reader returns nothing.
  `C03_all`: along **every** execution the claim is exact and the flags are exactly the command's, at every run of every
  command — first run or replay, at any depth, however many events are pending for the same system. `claims_in_sending_order`:
  the witness that the pinned code got wrong (four system events pending for one system, read 1,4,3,2) is now read 1,2,3,4
  whatever the order in which the runs start.
-/
import Cobweb.Proofs.Boot
import Cobweb.Proofs.Trackers
import Cobweb.Proofs.PendingD

namespace Cobweb.C03

/-- Only the trackers that the command kind `k` starts are flagged. -/
def FlagsFor (s : St) : Kind → Prop
  | .plain => s.trkSys.reacting = false ∧ s.trkEvt.reacting = false ∧ s.trkEnt.reacting = false ∧ s.trkDsp.reacting = false
  | .sysEv _ => s.trkSys.reacting = true ∧ s.trkEvt.reacting = false ∧ s.trkEnt.reacting = false ∧ s.trkDsp.reacting = false
  | .bcEv _ => s.trkSys.reacting = false ∧ s.trkEvt.reacting = true ∧ s.trkEnt.reacting = false ∧ s.trkDsp.reacting = false
  | .entEv _ _ => s.trkSys.reacting = false ∧ s.trkEvt.reacting = true ∧ s.trkEnt.reacting = true ∧ s.trkDsp.reacting = false
  | .entReact _ _ => s.trkSys.reacting = false ∧ s.trkEvt.reacting = false ∧ s.trkEnt.reacting = true ∧ s.trkDsp.reacting = false
  | .dspReact _ _ => s.trkSys.reacting = false ∧ s.trkEvt.reacting = false ∧ s.trkEnt.reacting = false ∧ s.trkDsp.reacting = true

/-! The readers, one by one (`observe` just tabulates them per type). -/

theorem readData_idle (s : St) (t : TrkData) (kd : DKind) (ty : Nat) (h : t.reacting = false) : readData s t kd ty = none := by
  simp [readData, h]

theorem readEnt_idle (s : St) (k : RKind) (ty : Nat) (h : s.trkEnt.reacting = false) : readEnt s k ty = none := by
  simp [readEnt, h]

/-- The reader of the data's own kind returns the data for its own type and nothing for any other type. -/
theorem readData_own (s : St) (t : TrkData) (d : Nat) (x : DataEnt) (ty : Nat) (hr : t.reacting = true) (hc : t.cur = d)
    (hd : s.data d = some x) (hal : s.alive d = true) :
    readData s t x.kind ty = if x.ty = ty then some x else none := by
  simp [readData, hr, hc, hd, hal]

/-- A reader of another kind returns nothing, whatever the type. -/
theorem readData_other_kind (s : St) (t : TrkData) (d : Nat) (x : DataEnt) (kd : DKind) (ty : Nat) (hc : t.cur = d)
    (hd : s.data d = some x) (hk : x.kind ≠ kd) : readData s t kd ty = none := by
  simp only [readData]
  split
  · simp [hc, hd, hk]
  · rfl

theorem readEnt_own (s : St) (src : Nat) (rt : RType) (hr : s.trkEnt.reacting = true) (hs : s.trkEnt.curSrc = src)
    (ht : s.trkEnt.curRt = rt) (k : RKind) (ty : Nat) :
    readEnt s k ty = if rt = ⟨k, ty⟩ then some src else none := by
  simp [readEnt, hr, hs, ht]

/-- **C03 (partial), broadcast**: under an exact claim the `BroadcastEvent` reader of the event's type returns the
    command's own payload; `BroadcastEvent` of another type, `EntityEvent`, `SystemEvent`, the entity-reaction readers and
    `DespawnEvent` all report nothing. -/
theorem C03_partial_broadcast (s : St) (d : Nat) (x : DataEnt) (hc : claimedOwn s (.bcEv d) = true) (hf : FlagsFor s (.bcEv d))
    (hd : s.data d = some x) (hk : x.kind = .bc) (hal : s.alive d = true) :
    (∀ ty, readData s s.trkEvt .bc ty = if x.ty = ty then some x else none) ∧
    (∀ ty, readData s s.trkEvt .ev ty = none) ∧ (∀ ty, readData s s.trkSys .sys ty = none) ∧
    (∀ k ty, readEnt s k ty = none) ∧ s.trkDsp.reacting = false := by
  obtain ⟨h1, h2, h3, h4⟩ := hf
  have hcur : s.trkEvt.cur = d := by simpa [claimedOwn] using hc
  refine ⟨fun ty => ?_, fun ty => ?_, fun ty => readData_idle s _ _ ty h1, fun k ty => readEnt_idle s k ty h3, h4⟩
  · have := readData_own s s.trkEvt d x ty h2 hcur hd hal
    rw [hk] at this; exact this
  · exact readData_other_kind s s.trkEvt d x .ev ty hcur hd (by rw [hk]; decide)

/-- **C03 (partial), entity event**: `EntityEvent` of the event's type returns the command's own `(target, payload)`. -/
theorem C03_partial_entityEvent (s : St) (target d : Nat) (x : DataEnt) (hc : claimedOwn s (.entEv target d) = true)
    (hf : FlagsFor s (.entEv target d)) (hd : s.data d = some x) (hk : x.kind = .ev) (hal : s.alive d = true) :
    (∀ ty, readData s s.trkEvt .ev ty = if x.ty = ty then some x else none) ∧
    (∀ ty, readData s s.trkEvt .bc ty = none) ∧ (∀ ty, readData s s.trkSys .sys ty = none) ∧
    (∀ k ty, k ≠ .ev → readEnt s k ty = none) ∧ s.trkDsp.reacting = false := by
  obtain ⟨h1, h2, h3, h4⟩ := hf
  simp only [claimedOwn, Bool.and_eq_true, beq_iff_eq] at hc
  obtain ⟨⟨hcur, hsrc⟩, hrt⟩ := hc
  refine ⟨fun ty => ?_, fun ty => ?_, fun ty => readData_idle s _ _ ty h1, fun k ty hne => ?_, h4⟩
  · have := readData_own s s.trkEvt d x ty h2 hcur hd hal
    rw [hk] at this; exact this
  · exact readData_other_kind s s.trkEvt d x .bc ty hcur hd (by rw [hk]; decide)
  · rw [readEnt_own s target evUnit h3 hsrc hrt k ty]
    have : evUnit ≠ ⟨k, ty⟩ := by
      intro h; apply hne; have := congrArg RType.kind h; simpa [evUnit] using this.symm
    simp [this]

/-- **C03 (partial), system event**. -/
theorem C03_partial_systemEvent (s : St) (d : Nat) (x : DataEnt) (hc : claimedOwn s (.sysEv d) = true) (hf : FlagsFor s (.sysEv d))
    (hd : s.data d = some x) (hk : x.kind = .sys) (hal : s.alive d = true) :
    (∀ ty, readData s s.trkSys .sys ty = if x.ty = ty then some x else none) ∧
    (∀ kd ty, readData s s.trkEvt kd ty = none) ∧ (∀ k ty, readEnt s k ty = none) ∧ s.trkDsp.reacting = false := by
  obtain ⟨h1, h2, h3, h4⟩ := hf
  have hcur : s.trkSys.cur = d := by simpa [claimedOwn] using hc
  refine ⟨fun ty => ?_, fun kd ty => readData_idle s _ _ ty h2, fun k ty => readEnt_idle s k ty h3, h4⟩
  have := readData_own s s.trkSys d x ty h1 hcur hd hal
  rw [hk] at this; exact this

/-- **C03 (partial), insertion / mutation / removal**: the reader of the reaction's kind and component type returns the
    command's own source entity; the readers of the other kinds and types, and all event readers, report nothing. -/
theorem C03_partial_entityReaction (s : St) (src : Nat) (rt : RType) (hc : claimedOwn s (.entReact src rt) = true)
    (hf : FlagsFor s (.entReact src rt)) :
    (∀ k ty, readEnt s k ty = if rt = ⟨k, ty⟩ then some src else none) ∧
    (∀ kd ty, readData s s.trkEvt kd ty = none) ∧ (∀ ty, readData s s.trkSys .sys ty = none) ∧ s.trkDsp.reacting = false := by
  obtain ⟨h1, h2, h3, h4⟩ := hf
  simp only [claimedOwn, Bool.and_eq_true, beq_iff_eq] at hc
  exact ⟨fun k ty => readEnt_own s src rt h3 hc.1 hc.2 k ty, fun kd ty => readData_idle s _ _ ty h2,
         fun ty => readData_idle s _ _ ty h1, h4⟩

/-- **C03 (partial), despawn** and **manual run**. -/
theorem C03_partial_despawn (s : St) (src : Nat) (hd : Handle) (hc : claimedOwn s (.dspReact src hd) = true)
    (hf : FlagsFor s (.dspReact src hd)) :
    s.trkDsp.curSrc = src ∧ (∀ kd ty, readData s s.trkEvt kd ty = none) ∧ (∀ ty, readData s s.trkSys .sys ty = none) ∧
    (∀ k ty, readEnt s k ty = none) := by
  obtain ⟨h1, h2, h3, _⟩ := hf
  simp only [claimedOwn, Bool.and_eq_true, beq_iff_eq] at hc
  exact ⟨hc.1, fun kd ty => readData_idle s _ _ ty h2, fun ty => readData_idle s _ _ ty h1,
         fun k ty => readEnt_idle s k ty h3⟩

theorem C03_manual_run_sees_nothing (s : St) (hf : FlagsFor s .plain) :
    (∀ kd ty, readData s s.trkEvt kd ty = none) ∧ (∀ ty, readData s s.trkSys .sys ty = none) ∧
    (∀ k ty, readEnt s k ty = none) ∧ s.trkDsp.reacting = false := by
  obtain ⟨h1, h2, h3, h4⟩ := hf
  exact ⟨fun kd ty => readData_idle s _ _ ty h2, fun ty => readData_idle s _ _ ty h1, fun k ty => readEnt_idle s k ty h3, h4⟩

/-- The claim is exact whenever the command's entry is there — whatever else is pending for the same system. -/
theorem claim_exact_of_present (t : TrkData) (sys d : Nat) (h : (sys, d) ∈ t.prepared) : (t.start sys d).cur = d :=
  (TrkData.start_claims_own t sys d h).2.1

/-- The order in which successive `start`s (one per pending command, each with its own ticket) read their events. -/
def claimOrder : List Nat → TrkData → Nat → List Nat
  | [], _, _ => []
  | d :: ds, t, sys => (t.start sys d).cur :: claimOrder ds (t.start sys d) sys

/-- The witness of the repaired finding F1: four entries prepared for one system. The pinned code read them in the order
    1,4,3,2 (`swap_remove`); now each run reads its own, in whatever order the runs start. -/
theorem claims_in_sending_order : claimOrder [1, 2, 3, 4] { prepared := [(7, 1), (7, 2), (7, 3), (7, 4)] } 7 = [1, 2, 3, 4] := by decide
theorem claims_in_any_order : claimOrder [3, 1, 4, 2] { prepared := [(7, 1), (7, 2), (7, 3), (7, 4)] } 7 = [3, 1, 4, 2] := by decide

/-- Non-vacuity of the partial theorems: a state in which a broadcast claim is exact. -/
example : claimedOwn ({ trkEvt := { reacting := true, cur := 5, prepared := [] } } : St) (.bcEv 5) = true ∧
    FlagsFor ({ trkEvt := { reacting := true, cur := 5, prepared := [] } } : St) (.bcEv 5) := by
  simp [claimedOwn, FlagsFor]

/-- **C03 for every execution.** Take any program and any history. Whenever the runner is about to run the target of a
    command — at any depth of any reaction tree, first run or replay of a postponed command, with any number of events of
    any kinds pending for the same system — the trackers after the command's `setup` hold exactly the metadata this
    command prepared (`claimedOwn`) and exactly the trackers of the command's kind are flagged (`FlagsFor`): by the partial
    theorems above every reader of the run returns the causing event's own data and every other reader returns nothing. -/
theorem C03_all (p : Prog) (h : Hist) {s : St} {s0 : St} (hI0 : CoreInv s0) (hr : Reach p h s0 s) {sys idx : Nat} {k : Kind} {rest : List Frame}
    (hst : s.stack = Frame.runnerLookup sys k idx :: rest) :
    claimedOwn (setupK { s with stack := rest, storage := upd s.storage sys (some false), counter := s.counter + 1 } k sys) k = true ∧
    FlagsFor (setupK { s with stack := rest, storage := upd s.storage sys (some false), counter := s.counter + 1 } k sys) k := by
  have hD := (core_reach_from p h hI0 hr).inv5.pendD
  refine ⟨claim_exact hD hst _ rfl rfl rfl rfl, ?_⟩
  -- the flags
  obtain ⟨_, _, f⟩ := all_reach p h hI0.inv5.ctl hI0.inv5.once hI0.inv5.flag hr
  have htop := f.top; rw [hst] at htop
  have hi : Fl s = (false, false, false, false) := htop.1
  simp only [Fl, Prod.mk.injEq] at hi
  generalize hs1 : ({ s with stack := rest, storage := upd s.storage sys (some false), counter := s.counter + 1 } : St) = s1
  have e1 : s1.trkSys = s.trkSys := by subst hs1; rfl
  have e2 : s1.trkEvt = s.trkEvt := by subst hs1; rfl
  have e3 : s1.trkEnt = s.trkEnt := by subst hs1; rfl
  have e4 : s1.trkDsp = s.trkDsp := by subst hs1; rfl
  have hflag : ∀ T, reactingOf T (setupK s1 k sys) = (keyOf T k).isSome := by
    intro T
    cases hk : keyOf T k with
    | none =>
      rw [reacting_setupK_unused T s1 k sys hk]
      cases T <;> simp [reactingOf, e1, e2, e3, e4, hi]
    | some key =>
      have h0 : (prepD T s1).Perm (pendD T (s.buffered ++ (sys, k) :: stackPending rest)) := by
        rw [prepD_of_trk e1 e2 e3 e4]
        have := hD T
        simpa [allPending, hst, stackPending_cons, framePending] using this
      simpa using ((pendD_setup T h0).2 key hk).2
  have a := hflag .sys; have b := hflag .evt; have c := hflag .ent; have d := hflag .dsp
  cases k <;> simp [reactingOf, keyOf] at a b c d <;> exact ⟨a, b, c, d⟩

/-- **No run ever reads another command's metadata**: the ghost event `misclaim` (emitted by the prologue of a body whose
    `setup` claimed something else than its own command's entry) never occurs, in any execution. -/
theorem no_misclaim_step (p : Prog) (h : Hist) {s : St} {s0 : St} (hI0 : CoreInv s0) (hr : Reach p h s0 s) {sys idx : Nat} {k : Kind} {rest : List Frame}
    (hst : s.stack = Frame.runnerLookup sys k idx :: rest) :
    preBody { s with stack := rest, storage := upd s.storage sys (some false), counter := s.counter + 1 } sys k =
      ((setupK { s with stack := rest, storage := upd s.storage sys (some false), counter := s.counter + 1 } k sys).emit (.enter sys)).emit
        (.expect sys (expectObs ((setupK { s with stack := rest, storage := upd s.storage sys (some false), counter := s.counter + 1 } k sys).emit (.enter sys)) k
          (ewrOf ((setupK { s with stack := rest, storage := upd s.storage sys (some false), counter := s.counter + 1 } k sys).emit (.enter sys)) sys))) :=
  preBody_exact _ sys k (C03_all p h hI0 hr hst).1

/-- Non-vacuity: the empty world satisfies the invariant. -/
example : PendD ({} : St) := pendD_default

end Cobweb.C03
