/-
  C08 — Every removal and despawn is reacted to exactly once.

  Every way a `React<C>` component disappears appends the entity to the removal buffer of `C` (`removeComp`, `kill`);
  replacing a component appends nothing. A poll drains the buffer of every tracked type completely and queues, for each
  buffered entity, one reaction per listener registered at the poll. A watched entity's death sends it on the despawn
  channel once (one `DespawnTracker`); the poll consumes the entity's whole reactor list, so a despawn reactor fires at
  most once per watched entity.
-/
import Cobweb.Proofs.Kill
import Cobweb.Theorems.C01
import Cobweb.Exec

namespace Cobweb.C08

/-- Removing a present component records exactly one removal; removing an absent one records nothing. -/
theorem remove_records (s : St) (e ty v : Nat) (h : alookup (s.comp e) ty = some v) :
    (applyCmd s (.removeComp e ty)).removedBuf ty = s.removedBuf ty ++ [e] ∧
    ∀ ty', ty' ≠ ty → (applyCmd s (.removeComp e ty)).removedBuf ty' = s.removedBuf ty' := by
  simp [applyCmd, h]
  intro ty' hne; simp [hne]

theorem remove_absent (s : St) (e ty : Nat) (h : alookup (s.comp e) ty = none) : applyCmd s (.removeComp e ty) = s := by
  simp [applyCmd, h]

/-- Re-inserting (replacing) a component records no removal. -/
theorem insert_records_nothing (s : St) (e ty v : Nat) : (applyCmd s (.tryInsert e ty v)).removedBuf = s.removedBuf := by
  simp only [applyCmd]; split <;> rfl

/-- Despawning the owner records one removal per component it carried (whatever caused the despawn): the removal
    buffers after `kill` are those after the component drops (`killComps`). -/
theorem kill_records (s : St) (e : Nat) :
    (kill s e).removedBuf = (killComps (killReactors (killStorage (killCanary s e) e) e) e).removedBuf := by
  simp [kill]

theorem killComps_one (s : St) (e ty v : Nat) (h : s.comp e = [(ty, v)]) :
    (killComps s e).removedBuf ty = s.removedBuf ty ++ [e] ∧ (killComps s e).comp e = [] := by
  simp [killComps, h]

/-- **One poll step**: the buffer of the type is drained completely, and for every buffered entity exactly the
    entity-scoped removal listeners of that entity followed by the type-wide removal listeners are queued. -/
theorem poll_step (acc : St × List Cmd) (ty : Nat) :
    (pollRemStep acc ty).1.removedBuf ty = [] ∧
    (pollRemStep acc ty).2 = acc.2 ++ (acc.1.removedBuf ty).flatMap (removalCmdsFor acc.1 ty) ∧
    ∀ ty', ty' ≠ ty → (pollRemStep acc ty).1.removedBuf ty' = acc.1.removedBuf ty' := by
  refine ⟨by simp [pollRemStep], rfl, ?_⟩
  intro ty' hne; simp [pollRemStep, hne]

theorem removal_listeners (s : St) (ty e : Nat) :
    C01.targets (removalCmdsFor s ty e) = entListeners s e ⟨.rem, ty⟩ ++ (s.tbl .rem ty).map (·.sys) := by
  simp only [removalCmdsFor]
  rw [C01.targets_append, C01.targets_map_reactEnt', C01.targets_map_reactEnt]

/-- Nothing runs for a component that was not removed: an empty buffer queues nothing. -/
theorem no_removal_no_reaction (acc : St × List Cmd) (ty : Nat) (h : acc.1.removedBuf ty = []) :
    (pollRemStep acc ty).2 = acc.2 := by
  simp [pollRemStep, h]

/-- A removal registration makes the type tracked (so the next poll reads its buffer). -/
theorem registration_tracks (s : St) (ty : Nat) (h : Handle) : ty ∈ (applyCmd s (.regType .rem ty h)).tracked := by
  simp only [applyCmd]
  split
  · simp [setTbl]
  · rename_i hc
    simp only [setTbl]
    by_cases hin : ty ∈ s.tracked
    · exact hin
    · exfalso; apply hc; simpa using hin

/-- **Despawn reactors**: the first effective registration installs the tracker; the entity's death sends it on the
    channel exactly once (the tracker is consumed). -/
theorem despawn_registration (s : St) (e : Nat) (h : Handle) (hal : s.alive e = true) :
    (applyCmd s (.regDsp e h)).tblDsp e = s.tblDsp e ++ [h] ∧ (applyCmd s (.regDsp e h)).dspTracker e = true := by
  simp [applyCmd, hal]

theorem death_notifies_once (s : St) (e : Nat) (h : s.dspTracker e = true) :
    (killTracker s e).dspChan = s.dspChan ++ [e] ∧ (killTracker s e).dspTracker e = false := by
  simp [killTracker, h]

theorem death_unwatched_silent (s : St) (e : Nat) (h : s.dspTracker e = false) : killTracker s e = s := by
  simp [killTracker, h]

/-- The poll turns each handle registered for the dead entity into one despawn reaction owning that handle, and removes
    the whole list: a second notification for the same entity finds nothing. -/
theorem despawn_poll_step (acc : St × List Cmd) (e : Nat) :
    (pollDspStep acc e).1.tblDsp e = [] ∧
    (pollDspStep acc e).2 = acc.2 ++ (acc.1.tblDsp e).map (fun h => Cmd.reactDsp e h.sys h) := by
  simp [pollDspStep]

theorem despawn_at_most_once (acc : St × List Cmd) (e : Nat) :
    (pollDspStep (pollDspStep acc e) e).2 = (pollDspStep acc e).2 := by
  simp [pollDspStep]

/-- Poll sites: every runner call polls on entry and after reinserting the callback; every abort polls; `Last` polls
    after the garbage collection (`frameEnd`). -/
theorem poll_in_last (s : St) (t : Nat) : (startTop s t .frameEnd).stack = Frame.gc :: Frame.poll :: s.stack := by
  simp [startTop, St.push, St.emit]

example : (applyCmd ({ comp := fun _ => [(0, 5)] } : St) (.removeComp 3 0)).removedBuf 0 = [3] := by
  simp [applyCmd, alookup]

end Cobweb.C08
