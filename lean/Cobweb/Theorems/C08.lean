/-
  C08 — Every removal and despawn is reacted to exactly once.

  Every way a `React<C>` component disappears appends the entity to the removal buffer of `C` (`removeComp`, `kill`);
  replacing a component appends nothing. A poll drains the buffer of every tracked type completely and queues, for each
  buffered entity, one reaction per listener registered at the poll. A watched entity's death sends it on the despawn
  channel once (one `DespawnTracker`); the poll consumes the entity's whole reactor list, so a despawn reactor fires at
  most once per watched entity.
-/
import Cobweb.Proofs.Boot
import Cobweb.Proofs.Kill
import Cobweb.Proofs.Watch
import Cobweb.Proofs.Removed
import Cobweb.Proofs.RemBuf
import Cobweb.Theorems.C01
import Cobweb.Exec

namespace Cobweb.C08

/-- Removing a present component records exactly one removal; removing an absent one records nothing. -/
theorem remove_records (s : St) (e ty v : Nat) (h : alookup (s.comp e) ty = some v) :
    (applyCmd s (.removeComp e ty)).removedBuf ty = s.removedBuf ty ++ [e] ∧
    ∀ ty', ty' ≠ ty → (applyCmd s (.removeComp e ty)).removedBuf ty' = s.removedBuf ty' := by
  simp [applyCmd, h]
  intro ty' hne; simp [hne]

theorem remove_absent (s : St) (e ty : Nat) (h : alookup (s.comp e) ty = none) : applyCmd s (.removeComp e ty) = s := by
  simp [applyCmd, h]

/-- Re-inserting (replacing) a component records no removal. -/
theorem insert_records_nothing (s : St) (e ty v : Nat) : (applyCmd s (.tryInsert e ty v)).removedBuf = s.removedBuf := by
  simp only [applyCmd]; split <;> rfl

/-- Despawning the owner records one removal per component it carried (whatever caused the despawn): the removal
    buffers after `kill` are those after the component drops (`killComps`). -/
theorem kill_records (s : St) (e : Nat) :
    (kill s e).removedBuf = (killComps (killReactors (killStorage (killCanary s e) e) e) e).removedBuf := by
  simp [kill]

theorem killComps_one (s : St) (e ty v : Nat) (h : s.comp e = [(ty, v)]) :
    (killComps s e).removedBuf ty = s.removedBuf ty ++ [e] ∧ (killComps s e).comp e = [] := by
  simp [killComps, h]

/-- **One poll step**: the buffer of the type is drained completely, and for every buffered entity exactly the
    entity-scoped removal listeners of that entity followed by the type-wide removal listeners are queued. -/
theorem poll_step (acc : St × List Cmd) (ty : Nat) :
    (pollRemStep acc ty).1.removedBuf ty = [] ∧
    (pollRemStep acc ty).2 = acc.2 ++ (acc.1.removedBuf ty).flatMap (removalCmdsFor acc.1 ty) ∧
    ∀ ty', ty' ≠ ty → (pollRemStep acc ty).1.removedBuf ty' = acc.1.removedBuf ty' := by
  refine ⟨by simp [pollRemStep], rfl, ?_⟩
  intro ty' hne; simp [pollRemStep, hne]

theorem removal_listeners (s : St) (ty e : Nat) :
    C01.targets (removalCmdsFor s ty e) = entListeners s e ⟨.rem, ty⟩ ++ (s.tbl .rem ty).map (·.sys) := by
  simp only [removalCmdsFor]
  rw [C01.targets_append, C01.targets_map_reactEnt', C01.targets_map_reactEnt]

/-- Nothing runs for a component that was not removed: an empty buffer queues nothing. -/
theorem no_removal_no_reaction (acc : St × List Cmd) (ty : Nat) (h : acc.1.removedBuf ty = []) :
    (pollRemStep acc ty).2 = acc.2 := by
  simp [pollRemStep, h]

/-- A removal registration makes the type tracked (so the next poll reads its buffer). -/
theorem registration_tracks (s : St) (ty : Nat) (h : Handle) : ty ∈ (applyCmd s (.regType .rem ty h)).tracked := by
  simp only [applyCmd]
  split
  · simp [setTbl]
  · rename_i hc
    simp only [setTbl]
    by_cases hin : ty ∈ s.tracked
    · exact hin
    · exfalso; apply hc; simpa using hin

/-- **Despawn reactors**: the first effective registration installs the tracker; the entity's death sends it on the
    channel exactly once (the tracker is consumed). -/
theorem despawn_registration (s : St) (e : Nat) (h : Handle) (hal : s.alive e = true) :
    (applyCmd s (.regDsp e h)).tblDsp e = s.tblDsp e ++ [h] ∧ (applyCmd s (.regDsp e h)).dspTracker e = true := by
  simp [applyCmd, hal]

theorem death_notifies_once (s : St) (e : Nat) (h : s.dspTracker e = true) :
    (killTracker s e).dspChan = s.dspChan ++ [e] ∧ (killTracker s e).dspTracker e = false := by
  simp [killTracker, h]

theorem death_unwatched_silent (s : St) (e : Nat) (h : s.dspTracker e = false) : killTracker s e = s := by
  simp [killTracker, h]

/-- The poll turns each handle registered for the dead entity into one despawn reaction owning that handle, and removes
    the whole list: a second notification for the same entity finds nothing. -/
theorem despawn_poll_step (acc : St × List Cmd) (e : Nat) :
    (pollDspStep acc e).1.tblDsp e = [] ∧
    (pollDspStep acc e).2 = acc.2 ++ (acc.1.tblDsp e).map (fun h => Cmd.reactDsp e h.sys h) := by
  simp [pollDspStep]

theorem despawn_at_most_once (acc : St × List Cmd) (e : Nat) :
    (pollDspStep (pollDspStep acc e) e).2 = (pollDspStep acc e).2 := by
  simp [pollDspStep]

/-- Poll sites: every runner call polls on entry and after reinserting the callback; every abort polls; `Last` polls
    after the garbage collection (`frameEnd`). -/
theorem poll_in_last (s : St) (t : Nat) : (startTop s t .frameEnd).stack = Frame.gc :: Frame.poll :: s.stack := by
  simp [startTop, St.push, St.emit]


/-! ### whole-execution theorems (invariant `WatchInv`, `Proofs/Watch.lean`) -/

/-- **No despawn can be missed.** In every reachable state, an entity with despawn reactors is either alive and carries
    a `DespawnTracker` (its death will be reported), or its death is already on the channel the next poll drains. -/
theorem despawn_never_missed {p : Prog} {hh : Hist} {s : St} {s0 : St} (hI0 : CoreInv s0) (hr : Reach p hh s0 s) (e : Nat) (hne : s.tblDsp e ≠ []) :
    (s.alive e = true ∧ s.dspTracker e = true) ∨ e ∈ s.dspChan :=
  ((core_reach_from p hh hI0 hr).watch).core.watched e hne

/-- Once the channel is drained (a poll has run and nothing died since), every remaining despawn reactor watches a live
    entity: every death so far has had its reactions scheduled. -/
theorem drained_means_all_scheduled {p : Prog} {hh : Hist} {s : St} {s0 : St} (hI0 : CoreInv s0) (hr : Reach p hh s0 s) (hch : s.dspChan = [])
    (e : Nat) (hne : s.tblDsp e ≠ []) : s.alive e = true := by
  rcases despawn_never_missed hI0 hr e hne with h | h
  · exact h.1
  · rw [hch] at h; cases h

/-- The poll drains the channel. -/
theorem poll_drains (s : St) : (pollDespawns s).1.dspChan = [] := by
  unfold pollDespawns; rw [pollDsp_fold_chan]

/-- **Each death is reported once, and only deaths are reported.** -/
theorem each_death_once {p : Prog} {hh : Hist} {s : St} {s0 : St} (hI0 : CoreInv s0) (hr : Reach p hh s0 s) :
    s.dspChan.Nodup ∧ ∀ e ∈ s.dspChan, s.alive e = false :=
  ⟨((core_reach_from p hh hI0 hr).watch).core.chanNodup, fun e he => (((core_reach_from p hh hI0 hr).watch).core.chanGone e he).1⟩

/-- With each death on the channel once, one poll queues exactly one reaction per registered handle of each dead entity,
    in channel order. -/
theorem poll_schedules_each_once (es : List Nat) (hnd : es.Nodup) (acc : St × List Cmd) :
    (es.foldl pollDspStep acc).2 = acc.2 ++ es.flatMap (fun e => (acc.1.tblDsp e).map (fun h => Cmd.reactDsp e h.sys h)) := by
  induction es generalizing acc with
  | nil => simp
  | cons e es ih =>
    have hnd' := List.nodup_cons.mp hnd
    rw [List.foldl_cons, ih hnd'.2]
    simp only [pollDspStep, List.flatMap_cons, List.append_assoc]
    congr 2
    have : ∀ x ∈ es, (upd acc.1.tblDsp e [] x).map (fun h => Cmd.reactDsp x h.sys h) =
        (acc.1.tblDsp x).map (fun h => Cmd.reactDsp x h.sys h) := by
      intro x hx
      have : x ≠ e := fun h => hnd'.1 (h ▸ hx)
      simp [upd, this]
    clear ih hnd hnd'
    induction es with
    | nil => rfl
    | cons y ys ihy =>
      simp only [List.flatMap_cons]
      rw [this y List.mem_cons_self, ihy (fun x hx => this x (List.mem_cons_of_mem _ hx))]

theorem poll_reactions_exact {p : Prog} {hh : Hist} {s : St} {s0 : St} (hI0 : CoreInv s0) (hr : Reach p hh s0 s) :
    (pollDespawns s).2 = s.dspChan.flatMap (fun e => (s.tblDsp e).map (fun h => Cmd.reactDsp e h.sys h)) := by
  unfold pollDespawns
  rw [poll_schedules_each_once _ (each_death_once hI0 hr).1]
  simp

/-- **Every removal reactor has a removal checker**: a component type with a type-wide or an entity-scoped removal reactor
    is tracked, so the poll drains its removal buffer. -/
theorem removal_reactors_tracked {p : Prog} {hh : Hist} {s : St} {s0 : St} (hI0 : CoreInv s0) (hr : Reach p hh s0 s) (ty : Nat) :
    (s.tbl .rem ty ≠ [] → ty ∈ s.tracked) ∧
    (∀ e l h, s.entReactors e = some l → (⟨.rem, ty⟩, h) ∈ l → ty ∈ s.tracked) :=
  ⟨((core_reach_from p hh hI0 hr).watch).core.remTracked ty,
   fun e l h hl hm => ((core_reach_from p hh hI0 hr).watch).core.entRemTracked e l ⟨.rem, ty⟩ h hl hm rfl⟩

/-- **A despawn reaction is always about a dead entity**: the one being read by a running reactor, and every prepared
    one. -/
theorem despawn_reaction_reads_dead {p : Prog} {hh : Hist} {s : St} {s0 : St} (hI0 : CoreInv s0) (hr : Reach p hh s0 s) :
    (s.trkDsp.reacting = true → s.alive s.trkDsp.curSrc = false) ∧
    (∀ q ∈ s.trkDsp.prepared, s.alive q.2.1 = false) :=
  ⟨fun h => (((core_reach_from p hh hI0 hr).watch).core.curGone h).1, fun q hq => (((core_reach_from p hh hI0 hr).watch).core.prepGone q hq).1⟩

/-- ... and so is every queued one (in the batch being applied, in a body's pending commands, in the world queue). -/
theorem queued_despawn_reaction_dead {p : Prog} {hh : Hist} {s : St} {s0 : St} (hI0 : CoreInv s0) (hr : Reach p hh s0 s)
    (e sys : Nat) (h : Handle) (cs : List Cmd) (hq : s.wq = .reactDsp e sys h :: cs) : s.alive e = false := by
  have := ((core_reach_from p hh hI0 hr).watch).wq
  rw [hq] at this
  exact this.1.1

/-- A tracker only ever sits on a live entity. -/
theorem tracker_on_live {p : Prog} {hh : Hist} {s : St} {s0 : St} (hI0 : CoreInv s0) (hr : Reach p hh s0 s) (e : Nat) (h : s.dspTracker e = true) :
    s.alive e = true := ((core_reach_from p hh hI0 hr).watch).core.trkAlive e h

/-! ### whole frames: Bevy keeps an unread removal event through one `clear_trackers` and drops it at the second -/

/-- What a `clear_trackers` throws away unread: the buffered events that were already old. -/
def lostBy (s : St) (ty : Nat) : List Nat := (s.removedBuf ty).take (s.removedOld ty)

/-- `clear_trackers` splits every buffer into what is lost and what stays (now old); nothing else changes. -/
theorem clear_splits (s : St) (ty : Nat) :
    s.removedBuf ty = lostBy s ty ++ (clearTrackers s).removedBuf ty ∧
    (clearTrackers s).removedOld ty = ((clearTrackers s).removedBuf ty).length := by
  simp [lostBy, clearTrackers]

/-- With nothing old, `clear_trackers` loses nothing. -/
theorem clear_keeps_fresh (s : St) (ty : Nat) (h : s.removedOld ty = 0) :
    lostBy s ty = [] ∧ (clearTrackers s).removedBuf ty = s.removedBuf ty := by
  simp [lostBy, clearTrackers, h]

/-- The poll reads the whole buffer of every tracked type (old and new events alike) and leaves the others alone. -/
theorem poll_reads_tracked (s : St) (ty : Nat) (h : ty ∈ s.tracked) :
    (pollRemovals s).1.removedBuf ty = [] ∧ (pollRemovals s).1.removedOld ty = 0 := by
  simp [pollRemovals_buf, pollRemovals_old, h]

theorem poll_skips_untracked (s : St) (ty : Nat) (h : ty ∉ s.tracked) :
    (pollRemovals s).1.removedBuf ty = s.removedBuf ty ∧ (pollRemovals s).1.removedOld ty = s.removedOld ty := by
  simp [pollRemovals_buf, pollRemovals_old, h]

/-- **A frame that polls loses no removal of a tracked type.** From the poll of a type that is tracked, through whatever
    the reactions it schedules and any later operations do (removals, registrations, further polls), up to the next
    `clear_trackers`: that `clear_trackers` drops no unread event of the type. So with the `Last` schedule polling once per
    `App::update`, every removal of a component with a removal reactor registered by then is read by a poll before Bevy
    can drop it. -/
theorem frame_loses_nothing {p : Prog} {hh : Hist} {s0 s : St} (ty : Nat) (htr : ty ∈ s0.tracked)
    (hseg : Seg p hh (doPoll s0) s) : lostBy s ty = [] := by
  have h0 : (doPoll s0).removedOld ty = 0 := by rw [doPoll_old]; simp [htr]
  have := seg_old_le hseg ty
  exact (clear_keeps_fresh s ty (by omega)).1

/-- **Only `clear_trackers` ages removal events**: any other tick leaves the number of old events of a type unchanged or
    (a poll) resets it. -/
theorem only_clear_ages (p : Prog) (hh : Hist) {s s' : St} (ht : tick p hh s = some s') (hn : NotClear p hh s) (ty : Nat) :
    s'.removedOld ty ≤ s.removedOld ty := tick_old_le p hh ht hn ty

/-! ### removals, for every execution: recorded once, kept until read, read completely -/

/-- **A recorded removal stays in its buffer** — in every execution, a tick that neither runs a poll frame nor starts a
    `clear_trackers` keeps every buffered removal event, in order, and only appends newer ones. -/
theorem removal_events_kept (p : Prog) (hh : Hist) {s s' : St} (ht : tick p hh s = some s') (hn : NotClear p hh s) (hp : NotPoll s)
    (ty : Nat) : ∃ l, s'.removedBuf ty = s.removedBuf ty ++ l := tick_ext p hh ht hn hp ty

/-- **The tick that runs a poll frame reads every tracked buffer completely and leaves the others untouched.** -/
theorem poll_tick_reads (p : Prog) (hh : Hist) {s s' : St} {rest : List Frame} (ht : tick p hh s = some s')
    (hst : s.stack = Frame.poll :: rest) (ty : Nat) : s'.removedBuf ty = if ty ∈ s.tracked then [] else s.removedBuf ty :=
  tick_poll p hh ht hst ty

/-- One removal checker per component type, in every reachable state. -/
theorem one_checker_per_type {p : Prog} {hh : Hist} {s : St} {s0 : St} (hI0 : CoreInv s0) (hr : Reach p hh s0 s) : s.tracked.Nodup :=
  (core_reach_from p hh hI0 hr).nodup

/-- **What a poll schedules for removals, in every reachable state**: for every tracked type (in checker order) and every
    buffered removal of it (in the order recorded), one reaction per entity-scoped removal listener of that entity, then
    one per type-wide removal listener — nothing else, nothing twice. -/
theorem poll_removal_reactions_exact {p : Prog} {hh : Hist} {s : St} {s0 : St} (hI0 : CoreInv s0) (hr : Reach p hh s0 s) :
    (pollRemovals s).2 = s.tracked.flatMap (fun ty => (s.removedBuf ty).flatMap (removalCmdsFor s ty)) ∧
    ∀ ty e, C01.targets (removalCmdsFor s ty e) = entListeners s e ⟨.rem, ty⟩ ++ (s.tbl .rem ty).map (·.sys) :=
  ⟨pollRemovals_cmds s ((core_reach_from p hh hI0 hr).nodup), fun ty e => removal_listeners s ty e⟩

/-- Non-vacuity: one despawn reactor on a spawned entity, the entity is despawned by a plain command in a later operation
    (its death then waits on the channel), the end of the frame polls: the reaction runs once and nothing is left. -/
def demoProg : Prog := fun _ _ _ => none
def demoHist : Hist :=
  { op := fun t _ => if t < 2 then some .acts else if t = 2 then some .frameEnd else none,
    act := fun t i _ => match t, i with
      | 0, 0 => some .spawn
      | 0, 1 => some (.on .persistent 0 false [.dsp 0])
      | 1, 0 => some (.despawn 0)
      | _, _ => none }

example : (exec demoProg demoHist 120 {}).stack = [] ∧ (exec demoProg demoHist 120 {}).dspChan = [] ∧
    (exec demoProg demoHist 120 {}).tblDsp 0 = [] ∧ (exec demoProg demoHist 120 {}).alive 0 = false ∧
    ((exec demoProg demoHist 120 {}).trace.filter (fun e => match e with | .body _ _ _ => true | _ => false)).length = 1 := by decide

example : ((exec demoProg demoHist 14 {}).tblDsp 0).length = 1 ∧ (exec demoProg demoHist 14 {}).dspTracker 0 = true := by decide

example : (exec demoProg demoHist 21 {}).stack = [] ∧ (exec demoProg demoHist 21 {}).dspChan = [0] ∧ (exec demoProg demoHist 21 {}).alive 0 = false ∧
    ((exec demoProg demoHist 21 {}).tblDsp 0).length = 1 := by decide

example : (applyCmd ({ comp := fun _ => [(0, 5)] } : St) (.removeComp 3 0)).removedBuf 0 = [3] := by
  simp [applyCmd, alookup]

/-- Whole frames. Entity 0 carries component 0; it is removed by direct world access (operation 1).
    `framed`: an entity-scoped removal reactor was registered first, the frame ends (`Last`, then `clear_trackers`): the
    reactor has run exactly once and a second frame adds nothing.
    `late`: nobody tracks the type; two frames pass; a removal reactor registered afterwards finds nothing to react to
    (Bevy dropped the event at the second `clear_trackers`), whereas after a single frame it still would. -/
def frameHist (reg : Bool) (frames : Nat) : Hist :=
  { op := fun t _ =>
      if t = 0 then some .acts else if t = 1 then some (.wRemove 0 0)
      else if t < 2 + 2 * frames then (if t % 2 = 0 then some .frameEnd else some .clearTrackers)
      else if t = 2 + 2 * frames then some .acts else if t = 3 + 2 * frames then some .frameEnd else none,
    act := fun t i _ => match t, i with
      | 0, 0 => some .spawn
      | 0, 1 => some (.insert 0 0 5)
      | 0, 2 => if reg then some (.on .persistent 0 false [.eRem 0 0]) else none
      | t, 0 => if t ≠ 0 ∧ !reg then some (.on .persistent 0 false [.eRem 0 0]) else none
      | _, _ => none }

def bodies (s : St) : Nat := (s.trace.filter (fun e => match e with | .body _ _ _ => true | _ => false)).length

example : bodies (exec demoProg (frameHist true 1) 200 {}) = 1 ∧ (exec demoProg (frameHist true 1) 200 {}).stack = [] := by decide
example : bodies (exec demoProg (frameHist true 2) 200 {}) = 1 := by decide
example : bodies (exec demoProg (frameHist false 1) 200 {}) = 1 := by decide
example : bodies (exec demoProg (frameHist false 2) 200 {}) = 0 ∧ (exec demoProg (frameHist false 2) 200 {}).stack = [] ∧
    (exec demoProg (frameHist false 2) 200 {}).topIdx = 8 := by decide

end Cobweb.C08
