/-
  C10 — Auto-despawn is an exact reference count.

  Interleaving model `Cobweb.Ad`: every schedule (list of atomic actions of the main thread and of any number of worker
  threads dropping clones) is covered; there is no bound on the number of entities, signals, clones or steps.
  Reading: per signal, i.e. per `prepare` call (two `prepare`s on one entity are two independent signals).
-/
import Cobweb.AutoDespawn

namespace Cobweb.Ad

structure Inv (s : ASt) : Prop where
  sentZero : ∀ a, s.sent a = true → s.count a = 0
  zeroedZero : ∀ a, s.zeroed a = true → s.count a = 0 ∧ s.sent a = false
  chanSent : ∀ a ∈ s.chan, s.sent a = true
  recvSent : ∀ a ∈ s.received, s.sent a = true
  nodup : (s.chan ++ s.received).Nodup
  fresh : ∀ a, s.nArc ≤ a → s.count a = 0 ∧ s.sent a = false ∧ s.zeroed a = false
  fw : ∀ e ∈ s.fwDespawned, ∃ a ∈ s.received, s.ent a = e

theorem inv_init : Inv ({} : ASt) := by
  constructor <;> intros <;> simp_all

theorem sent_lt {s : ASt} (h : Inv s) {a : Nat} (ha : s.sent a = true) : a < s.nArc := by
  apply Nat.lt_of_not_le
  intro hle
  have := (h.fresh a hle).2.1
  rw [ha] at this; cases this

theorem inv_act {s : ASt} (h : Inv s) (x : Action) : Inv (act s x) := by
  cases x with
  | spawn => exact ⟨h.sentZero, h.zeroedZero, h.chanSent, h.recvSent, h.nodup, h.fresh, h.fw⟩
  | prepare e =>
    have hn := h.fresh s.nArc (Nat.le_refl _)
    constructor
    · intro a ha
      have ha' : s.sent a = true := ha
      by_cases hax : a = s.nArc
      · subst hax; rw [hn.2.1] at ha'; cases ha'
      · simp [act, upd, hax]; exact h.sentZero a ha'
    · intro a ha
      have ha' : s.zeroed a = true := ha
      by_cases hax : a = s.nArc
      · subst hax; rw [hn.2.2] at ha'; cases ha'
      · simp [act, upd, hax]; exact h.zeroedZero a ha'
    · exact h.chanSent
    · exact h.recvSent
    · exact h.nodup
    · intro a ha
      have ha' : s.nArc + 1 ≤ a := ha
      have hne : a ≠ s.nArc := by omega
      simp [act, upd, hne]
      exact h.fresh a (by omega)
    · intro e' he'
      obtain ⟨a, ha, hea⟩ := h.fw e' he'
      refine ⟨a, ha, ?_⟩
      have : a ≠ s.nArc := Nat.ne_of_lt (sent_lt h (h.recvSent a ha))
      simp [act, upd, this]; exact hea
  | clone a =>
    simp only [act]
    split
    · rename_i hpos
      constructor
      · intro b hb
        by_cases hba : b = a
        · subst hba; have := h.sentZero b hb; omega
        · simp [upd, hba]; exact h.sentZero b hb
      · intro b hb
        by_cases hba : b = a
        · subst hba; have := (h.zeroedZero b hb).1; omega
        · simp [upd, hba]; exact h.zeroedZero b hb
      · exact h.chanSent
      · exact h.recvSent
      · exact h.nodup
      · intro b hb
        have hf := h.fresh b hb
        by_cases hba : b = a
        · subst hba; omega
        · simp [upd, hba]; exact hf
      · exact h.fw
    · exact h
  | dec a =>
    simp only [act]
    split
    · rename_i hpos
      have hns : s.sent a = false := by
        cases hs : s.sent a
        · rfl
        · have := h.sentZero a hs; omega
      have hnz : s.zeroed a = false := by
        cases hz : s.zeroed a
        · rfl
        · have := (h.zeroedZero a hz).1; omega
      split
      · rename_i h1
        constructor
        · intro b hb
          by_cases hba : b = a
          · subst hba; simp [upd, h1]
          · simp [upd, hba]; exact h.sentZero b hb
        · intro b hb
          by_cases hba : b = a
          · subst hba; simp [upd, h1]; exact hns
          · simp [upd, hba] at hb ⊢; exact h.zeroedZero b hb
        · exact h.chanSent
        · exact h.recvSent
        · exact h.nodup
        · intro b hb
          have hf := h.fresh b hb
          have hba : b ≠ a := by intro hh; subst hh; omega
          simp [upd, hba]; exact hf
        · exact h.fw
      · constructor
        · intro b hb
          by_cases hba : b = a
          · subst hba; rw [hns] at hb; cases hb
          · simp [upd, hba]; exact h.sentZero b hb
        · intro b hb
          by_cases hba : b = a
          · subst hba; rw [hnz] at hb; cases hb
          · simp [upd, hba]; exact h.zeroedZero b hb
        · exact h.chanSent
        · exact h.recvSent
        · exact h.nodup
        · intro b hb
          have hf := h.fresh b hb
          have hba : b ≠ a := by intro hh; subst hh; omega
          simp [upd, hba]; exact hf
        · exact h.fw
    · exact h
  | send a =>
    simp only [act]
    split
    · rename_i hc
      simp only [Bool.and_eq_true, Bool.not_eq_true'] at hc
      have hz := h.zeroedZero a hc.1
      have hnotin : a ∉ s.chan ++ s.received := by
        intro hin
        rcases List.mem_append.mp hin with hh | hh
        · have := h.chanSent a hh; rw [hc.2] at this; cases this
        · have := h.recvSent a hh; rw [hc.2] at this; cases this
      constructor
      · intro b hb
        by_cases hba : b = a
        · subst hba; exact hz.1
        · simp [upd, hba] at hb; exact h.sentZero b hb
      · intro b hb
        by_cases hba : b = a
        · subst hba; simp [upd] at hb
        · simp [upd, hba] at hb ⊢; exact h.zeroedZero b hb
      · intro b hb
        rcases List.mem_append.mp hb with hh | hh
        · by_cases hba : b = a
          · subst hba; simp [upd]
          · simp [upd, hba]; exact h.chanSent b hh
        · simp at hh; subst hh; simp [upd]
      · intro b hb
        by_cases hba : b = a
        · subst hba; simp [upd]
        · simp [upd, hba]; exact h.recvSent b hb
      · have : (s.chan ++ [a] ++ s.received).Perm (a :: (s.chan ++ s.received)) := by
          simp only [List.append_assoc, List.singleton_append]
          exact List.perm_middle
        exact (this.nodup_iff).mpr (List.nodup_cons.mpr ⟨hnotin, h.nodup⟩)
      · intro b hb
        have hf := h.fresh b hb
        have hba : b ≠ a := by
          intro hh; subst hh; rw [hf.2.2] at hc; exact absurd hc.1 (by simp)
        simp [upd, hba]; exact hf
      · exact h.fw
    · exact h
  | recv =>
    simp only [act]
    split
    · exact h
    · rename_i a rest hch
      have hnd := h.nodup; rw [hch] at hnd
      have base : Inv { s with chan := rest, received := a :: s.received } := by
        constructor
        · exact h.sentZero
        · exact h.zeroedZero
        · intro b hb; exact h.chanSent b (by rw [hch]; exact List.mem_cons_of_mem _ hb)
        · intro b hb
          rcases List.mem_cons.mp hb with hh | hh
          · subst hh; exact h.chanSent b (by rw [hch]; simp)
          · exact h.recvSent b hh
        · have : (rest ++ a :: s.received).Perm (a :: rest ++ s.received) := by
            simpa using (List.perm_middle (a := a) (l₁ := rest) (l₂ := s.received))
          exact (this.nodup_iff).mpr hnd
        · exact h.fresh
        · intro e he
          obtain ⟨b, hb, hbe⟩ := h.fw e he
          exact ⟨b, List.mem_cons_of_mem _ hb, hbe⟩
      split
      · refine ⟨base.sentZero, base.zeroedZero, base.chanSent, base.recvSent, base.nodup, base.fresh, ?_⟩
        intro e he
        have he' : e ∈ s.ent a :: s.fwDespawned := he
        rcases List.mem_cons.mp he' with hh | hh
        · exact ⟨a, List.mem_cons_self, hh.symm⟩
        · exact base.fw e hh
      · exact base
  | manualDespawn e => exact ⟨h.sentZero, h.zeroedZero, h.chanSent, h.recvSent, h.nodup, h.fresh, h.fw⟩
  | setParent c p =>
    simp only [act]
    split
    · exact ⟨h.sentZero, h.zeroedZero, h.chanSent, h.recvSent, h.nodup, h.fresh, h.fw⟩
    · exact h

theorem inv_run {s : ASt} (h : Inv s) (sched : List Action) : Inv (run s sched) := by
  unfold run
  induction sched generalizing s with
  | nil => exact h
  | cons x xs ih => exact ih (inv_act h x)

/-- **Safety**: under every schedule, the framework despawns an entity only by receiving a message that was sent by one
    of that entity's signals *after its count reached zero*. -/
theorem safety (sched : List Action) :
    ∀ e ∈ (run {} sched).fwDespawned, ∃ a, (run {} sched).ent a = e ∧ (run {} sched).count a = 0 ∧ (run {} sched).sent a = true := by
  intro e he
  have h := inv_run inv_init sched
  obtain ⟨a, ha, hea⟩ := h.fw e he
  exact ⟨a, hea, h.sentZero a (h.recvSent a ha), h.recvSent a ha⟩

/-- A signal with a live clone has never been sent: its entity cannot be in the channel on its account. -/
theorem live_clone_not_sent (sched : List Action) (a : Nat) (hc : (run {} sched).count a > 0) :
    (run {} sched).sent a = false ∧ a ∉ (run {} sched).chan := by
  have h := inv_run inv_init sched
  have hs : (run {} sched).sent a = false := by
    cases hx : (run {} sched).sent a
    · rfl
    · have := h.sentZero a hx; omega
  exact ⟨hs, fun hin => by have := h.chanSent a hin; rw [hs] at this; cases this⟩

/-- **Never while a clone exists**: if every signal prepared for `e` still has a clone, the framework has not despawned
    `e` (whatever the worker threads and the collector did so far). -/
theorem no_despawn_while_clones (sched : List Action) (e : Nat)
    (hall : ∀ a, (run {} sched).ent a = e → a < (run {} sched).nArc → (run {} sched).count a > 0) :
    e ∉ (run {} sched).fwDespawned := by
  intro he
  obtain ⟨a, hea, hc, hs⟩ := safety sched e he
  have h := inv_run inv_init sched
  have := hall a hea (sent_lt h hs)
  omega

/-- **At most once**: a signal's message is in the channel or has been received, never both and never twice. -/
theorem sent_once (sched : List Action) : ((run {} sched).chan ++ (run {} sched).received).Nodup :=
  (inv_run inv_init sched).nodup

/-- **Idempotent**: collecting with an empty channel changes nothing. -/
theorem recv_empty (s : ASt) (h : s.chan = []) : act s .recv = s := by simp [act, h]

theorem drain_empty (s : ASt) (h : s.chan = []) : drain s = s := by simp [drain, h]

/-- Receiving the message of an entity that is already gone only consumes the message. -/
theorem recv_dead (s : ASt) (a : Nat) (rest : List Nat) (h : s.chan = a :: rest) (hd : s.alive (s.ent a) = false) :
    (act s .recv).alive = s.alive ∧ (act s .recv).chan = rest ∧ (act s .recv).fwDespawned = s.fwDespawned := by
  simp [act, h, hd]

/-- `despawn_recursive` kills the entity and every descendant. -/
theorem despawnRec_kills (s : ASt) (e x : Nat) (hr : reaches s.parent s.nEnt x e = true) : (despawnRec s e).alive x = false := by
  simp [despawnRec, hr]

theorem reaches_self (par : Nat → Option Nat) (fuel e : Nat) : reaches par fuel e e = true := by
  cases fuel <;> simp [reaches]

/-- One receive: the entity of the received signal is dead afterwards; if the framework had to despawn it, all its
    descendants are dead too; no dead entity comes back. -/
theorem recv_kills (s : ASt) (a : Nat) (rest : List Nat) (h : s.chan = a :: rest) :
    (act s .recv).alive (s.ent a) = false ∧
    (s.alive (s.ent a) = true → ∀ x, reaches s.parent s.nEnt x (s.ent a) = true → (act s .recv).alive x = false) ∧
    (∀ x, s.alive x = false → (act s .recv).alive x = false) ∧
    (act s .recv).chan = rest ∧ (act s .recv).ent = s.ent := by
  simp only [act, h]
  split
  · refine ⟨?_, ?_, ?_, rfl, rfl⟩
    · simp [despawnRec, reaches_self]
    · intro _ x hx; simp [despawnRec, hx]
    · intro x hx; simp [despawnRec, hx]
  · rename_i hd
    have hd : s.alive (s.ent a) = false := by simpa using hd
    refine ⟨hd, ?_, fun x hx => hx, rfl, rfl⟩
    intro hal; rw [hd] at hal; cases hal

/-- **Liveness**: a complete collection pass receives every pending message: afterwards the channel is empty and the
    entity of every signal that had been sent is dead. -/
theorem drain_kills_all : ∀ (n : Nat) (s : ASt), s.chan.length = n →
    (drain s).chan = [] ∧ (∀ a ∈ s.chan, (drain s).alive (s.ent a) = false) ∧ (∀ x, s.alive x = false → (drain s).alive x = false)
  | 0, s, hn => by
    have : s.chan = [] := List.eq_nil_of_length_eq_zero hn
    simp [drain, this]
  | n + 1, s, hn => by
    cases hc : s.chan with
    | nil => rw [hc] at hn; cases hn
    | cons a rest =>
      have hk := recv_kills s a rest hc
      have hlen : (act s .recv).chan.length = n := by rw [hk.2.2.2.1]; rw [hc] at hn; simpa using hn
      have ih := drain_kills_all n (act s .recv) hlen
      have hd : drain s = drain (act s .recv) := by
        simp [drain, hc, hk.2.2.2.1]
      rw [hd]
      refine ⟨ih.1, ?_, fun x hx => ih.2.2 x (hk.2.2.1 x hx)⟩
      intro b hb
      rcases List.mem_cons.mp hb with hh | hh
      · subst hh; exact ih.2.2 _ hk.1
      · have := ih.2.1 b (by rw [hk.2.2.2.1]; exact hh)
        rw [hk.2.2.2.2] at this; exact this

/-- Non-vacuity: prepare, clone, drop both clones on two threads, send, collect: the entity is gone; before the last
    drop it is alive. -/
example : (run {} [.spawn, .prepare 0, .clone 0, .dec 0, .recv]).alive 0 = true := by decide
example : (drain (run {} [.spawn, .prepare 0, .clone 0, .dec 0, .dec 0, .send 0])).alive 0 = false := by decide

/-! ### Message accounting (liveness under every schedule)

`Acc` is the other half of the reference count: `Inv` says a message exists only for a signal whose count is zero,
`Acc` says a signal whose count is zero and whose destructor has run has its message in the channel or collected. -/
structure Acc (s : ASt) : Prop where
  zeroAcc : ∀ a, a < s.nArc → s.count a = 0 → s.zeroed a = true ∨ s.sent a = true
  sentAcc : ∀ a, s.sent a = true → a ∈ s.chan ∨ a ∈ s.received

theorem acc_init : Acc ({} : ASt) := by
  constructor <;> intros <;> simp_all

theorem acc_act {s : ASt} (h : Acc s) (x : Action) : Acc (act s x) := by
  obtain ⟨h1, h2⟩ := h
  cases x <;> constructor <;> intro a <;> simp only [act] <;> (try split) <;> (try split) <;> simp_all [upd, despawnRec] <;> grind


theorem acc_run {s : ASt} (h : Acc s) (sched : List Action) : Acc (run s sched) := by
  unfold run
  induction sched generalizing s with
  | nil => exact h
  | cons x xs ih => exact ih (acc_act h x)

/-- **No lost wake-up**: under every schedule, a signal whose count is zero is either between the decrement that reached
    zero and its destructor (`zeroed`: some thread still has to run `Drop`), or its message has been sent and is in the
    channel or was collected. No interleaving of clones, drops and collections loses the message of a signal. -/
theorem dropped_signal_accounted (sched : List Action) (a : Nat) (ha : a < (run {} sched).nArc)
    (hc : (run {} sched).count a = 0) (hz : (run {} sched).zeroed a = false) :
    a ∈ (run {} sched).chan ∨ a ∈ (run {} sched).received := by
  have h := acc_run acc_init sched
  rcases h.zeroAcc a ha hc with hz' | hs
  · rw [hz] at hz'; cases hz'
  · exact h.sentAcc a hs

/-- **The first garbage collection after the last drop**: after any schedule, for a signal all of whose clones are gone
    and whose destructor has run, either its message was already collected (`recv_kills`: its entity was dead when that
    receive returned), or the next complete collection pass leaves its entity dead. -/
theorem gc_after_last_drop (sched : List Action) (a : Nat) (ha : a < (run {} sched).nArc)
    (hc : (run {} sched).count a = 0) (hz : (run {} sched).zeroed a = false) :
    a ∈ (run {} sched).received ∨ (drain (run {} sched)).alive ((run {} sched).ent a) = false := by
  rcases dropped_signal_accounted sched a ha hc hz with hin | hin
  · exact Or.inr ((drain_kills_all _ _ rfl).2.1 a hin)
  · exact Or.inl hin

/-- The message exists exactly for dropped signals: with `live_clone_not_sent`, a signal is in the channel or collected
    iff (modulo the destructor window) its count is zero. -/
theorem collected_was_dropped (sched : List Action) (a : Nat)
    (hin : a ∈ (run {} sched).chan ∨ a ∈ (run {} sched).received) : (run {} sched).count a = 0 := by
  have h := inv_run inv_init sched
  rcases hin with hin | hin
  · exact h.sentZero a (h.chanSent a hin)
  · exact h.sentZero a (h.recvSent a hin)

/-- Non-vacuity: two clones dropped by two threads, destructor run: the hypotheses hold and the signal is in the channel;
    in the destructor window (`zeroed`) they do not, and nothing has been sent yet. -/
example : let s := run {} [.spawn, .prepare 0, .clone 0, .dec 0, .dec 0, .send 0]
    0 < s.nArc ∧ s.count 0 = 0 ∧ s.zeroed 0 = false ∧ 0 ∈ s.chan := by decide
example : let s := run {} [.spawn, .prepare 0, .clone 0, .dec 0, .dec 0]
    s.count 0 = 0 ∧ s.zeroed 0 = true ∧ s.chan = [] := by decide

end Cobweb.Ad
