/-
  C13 — Each registered system owns one persistent, private system state.

  In the model the system state of the system stored on entity `sys` is `(s.info sys)`: its run counter `nruns` is what
  a `Local` counter (and a counter captured by the closure) holds. A body is started by `startBody` only.
-/
import Cobweb.Proofs.Boot
import Cobweb.Proofs.CtlStep
import Cobweb.Proofs.Frames
import Cobweb.Proofs.Counts

namespace Cobweb.C13

/-- Starting a body of `sys` reads the current run counter `n`, reports it in the `body` event and stores `n + 1`:
    the k-th run of a system sees k earlier runs — whether it runs in-line, nested or postponed. -/
theorem startBody_info (s : St) (sys : Nat) (k : Kind) :
    (startBody s sys k).info = upd s.info sys
      { s.info sys with onceTaken := (s.info sys).once.isSome || (s.info sys).onceTaken, nruns := (s.info sys).nruns + 1 } := by
  unfold startBody; dsimp only
  refine (foldl_field (fun s => s.info) (fun (s : St) pid => s.emit (Ev.dropPayload pid)) (fun _ _ => rfl) _ _).trans ?_
  show upd (observe (preBody s sys k) _).2.info sys _ = _
  simp

theorem startBody_counts (s : St) (sys : Nat) (k : Kind) :
    ((startBody s sys k).info sys).nruns = (s.info sys).nruns + 1 ∧
    ((startBody s sys k).info sys).defn = (s.info sys).defn := by
  rw [startBody_info]; simp

/-- ... and touches the state of no other system. -/
theorem startBody_private (s : St) (sys other : Nat) (k : Kind) (hne : other ≠ sys) :
    (startBody s sys k).info other = s.info other := by
  rw [startBody_info]; simp [hne]

/-- The `body` event of the run reports exactly the counter value found (`Local` = number of earlier runs). -/
theorem startBody_reports (s : St) (sys : Nat) (k : Kind) :
    ∃ obs, Ev.body sys (s.info sys).nruns obs ∈ (startBody s sys k).trace := by
  refine ⟨(observe (preBody s sys k) (ewrOf (preBody s sys k) sys)).1, ?_⟩
  unfold startBody; dsimp only
  have hmono : ∀ (l : List Nat) (t : St) (e : Ev), e ∈ t.trace →
      e ∈ (l.foldl (fun (s : St) pid => s.emit (Ev.dropPayload pid)) t).trace := by
    intro l; induction l with
    | nil => intro t e h; exact h
    | cons x l ih => intro t e h; exact ih _ e (by simp [St.emit, h])
  apply hmono
  simp [St.emit]

/-- Taking the callback for a run and putting it back never creates a second instance: while a system runs its
    callback is absent (`storage = some false`), so no other run of it can start (C02), and the reinsertion puts the
    same callback back. Consequently runs of one system are totally ordered and each sees the counter left by the
    previous one. -/
theorem no_concurrent_instance {p : Prog} {h : Hist} {s0 s : St} (hc : Ctl s0) (hr : Reach p h s0 s) (sys : Nat)
    (hrun : sys ∈ running s.stack) (hal : s.alive sys = true) : s.storage sys = some false :=
  (ctl_reach p h hc hr).runningTaken sys hrun hal

/-- **One persistent counter per system, for every execution**: in every state reachable from the empty world the run
    counter held by system `sys` (its `Local` / the counter captured by its closure) equals the number of bodies of `sys`
    that have started — it was never reset, re-created or advanced by another system's run, whatever nesting,
    postponement and interleaving happened. -/
theorem counter_is_number_of_runs {p : Prog} {h : Hist} {s : St} {s0 : St} (hI0 : CoreInv s0) (hr : Reach p h s0 s) (sys : Nat) :
    (s.info sys).nruns = nBody sys s :=
  ((core_reach_from p h hI0 hr).runs).cnt sys

/-- **Every run sees the state left by the previous run of the same system**: every `body sys r _` event of every
    reachable trace carries `r` = the number of `body sys` events before it (the trace is newest first, so "before it" is
    the tail). In particular the k-th run of a system reads k − 1, for runs postponed by recursion and runs
    interleaved with nested runs of other systems alike. -/
theorem run_label_counts_earlier_runs {p : Prog} {h : Hist} {s : St} {s0 : St} (hI0 : CoreInv s0) (hr : Reach p h s0 s) : BodyIdx (ct s) :=
  ((core_reach_from p h hI0 hr).runs).idx

/-- A system that does not exist yet has not run. -/
theorem unborn_never_ran {p : Prog} {h : Hist} {s : St} {s0 : St} (hI0 : CoreInv s0) (hr : Reach p h s0 s) (sys : Nat) (hs : s.nextEnt ≤ sys) :
    nBody sys s = 0 :=
  ((core_reach_from p h hI0 hr).runs).fresh sys hs

/-- Unfolding of `BodyIdx` at one event, as a readable statement. -/
theorem bodyIdx_split {l : List Ev} (hl : BodyIdx l) (l1 l2 : List Ev) (sys r : Nat) (o : Obs)
    (hsplit : l = l1 ++ Ev.body sys r o :: l2) : r = l2.countP (isBodyOf sys) := by
  induction l1 generalizing l with
  | nil => subst hsplit; exact hl.1 sys r o rfl
  | cons e l1 ih => subst hsplit; exact ih hl.2 rfl

example : Runs ({} : St) := runs_default

/-- Non-vacuity: a system that re-runs itself once (the second run is postponed and replayed): two bodies, counter 2,
    labels 0 and 1. -/
def demoProg : Prog := fun sys i s => if i = 0 ∧ (s.info sys).nruns = 1 then some (.run sys) else none
def demoHist : Hist :=
  { op := fun t _ => if t = 0 then some .acts else none,
    act := fun _ i _ => match i with | 0 => some (.spawnSys 0 false) | 1 => some (.run 0) | _ => none }

example : nBody 0 (exec demoProg demoHist 80 {}) = 2 ∧ ((exec demoProg demoHist 80 {}).info 0).nruns = 2 ∧
    ((ct (exec demoProg demoHist 80 {})).filterMap (fun e => match e with | .body s r _ => some (s, r) | _ => none)) =
      [(0, 1), (0, 0)] := by decide

example : ((startBody ({} : St) 3 .plain).info 3).nruns = 1 := (startBody_counts {} 3 .plain).1

end Cobweb.C13
