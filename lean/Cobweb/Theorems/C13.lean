/-
  C13 — Each registered system owns one persistent, private system state.

  In the model the system state of the system stored on entity `sys` is `(s.info sys)`: its run counter `nruns` is what
  a `Local` counter (and a counter captured by the closure) holds. A body is started by `startBody` only.
-/
import Cobweb.Proofs.CtlStep
import Cobweb.Proofs.Frames

namespace Cobweb.C13

/-- Starting a body of `sys` reads the current run counter `n`, reports it in the `body` event and stores `n + 1`:
    the k-th run of a system sees k earlier runs — whether it runs in-line, nested or postponed. -/
theorem startBody_info (s : St) (sys : Nat) (k : Kind) :
    (startBody s sys k).info = upd s.info sys
      { s.info sys with onceTaken := (s.info sys).once.isSome || (s.info sys).onceTaken, nruns := (s.info sys).nruns + 1 } := by
  unfold startBody; dsimp only
  refine (foldl_field (fun s => s.info) (fun (s : St) pid => s.emit (Ev.dropPayload pid)) (fun _ _ => rfl) _ _).trans ?_
  show upd (observe (preBody s sys k) _).2.info sys _ = _
  simp

theorem startBody_counts (s : St) (sys : Nat) (k : Kind) :
    ((startBody s sys k).info sys).nruns = (s.info sys).nruns + 1 ∧
    ((startBody s sys k).info sys).defn = (s.info sys).defn := by
  rw [startBody_info]; simp

/-- ... and touches the state of no other system. -/
theorem startBody_private (s : St) (sys other : Nat) (k : Kind) (hne : other ≠ sys) :
    (startBody s sys k).info other = s.info other := by
  rw [startBody_info]; simp [hne]

/-- The `body` event of the run reports exactly the counter value found (`Local` = number of earlier runs). -/
theorem startBody_reports (s : St) (sys : Nat) (k : Kind) :
    ∃ obs, Ev.body sys (s.info sys).nruns obs ∈ (startBody s sys k).trace := by
  refine ⟨(observe (preBody s sys k) (ewrOf (preBody s sys k) sys)).1, ?_⟩
  unfold startBody; dsimp only
  have hmono : ∀ (l : List Nat) (t : St) (e : Ev), e ∈ t.trace →
      e ∈ (l.foldl (fun (s : St) pid => s.emit (Ev.dropPayload pid)) t).trace := by
    intro l; induction l with
    | nil => intro t e h; exact h
    | cons x l ih => intro t e h; exact ih _ e (by simp [St.emit, h])
  apply hmono
  simp [St.emit]

/-- Taking the callback for a run and putting it back never creates a second instance: while a system runs its
    callback is absent (`storage = some false`), so no other run of it can start (C02), and the reinsertion puts the
    same callback back. Consequently runs of one system are totally ordered and each sees the counter left by the
    previous one. -/
theorem no_concurrent_instance {p : Prog} {h : Hist} {s0 s : St} (hc : Ctl s0) (hr : Reach p h s0 s) (sys : Nat)
    (hrun : sys ∈ running s.stack) (hal : s.alive sys = true) : s.storage sys = some false :=
  (ctl_reach p h hc hr).runningTaken sys hrun hal

example : ((startBody ({} : St) 3 .plain).info 3).nruns = 1 := (startBody_counts {} 3 .plain).1

end Cobweb.C13
