/-
  Cobweb.SyscallScenario — scenario language and canonical trace text for the syscall-family model (C17).
-/
import Cobweb.Syscall

namespace Cobweb.Sc

def toks (line : String) : List String := (line.trimAscii.toString.splitOn " ").filter (· ≠ "")

def parseKind : String → Option SKind
  | "f" => some .f | "n" => some .n | "s" => some .s | "o" => some .o | "m" => some .m | _ => none

def parseCall : List String → Option SCall
  | [k, key, x] => do pure { kind := ← parseKind k, key := ← key.toNat?, input := ← x.toNat? }
  | _ => none

def parseOp : List String → Option SOp
  | "q" :: r => (parseCall r).map .q
  | "d" :: r => (parseCall r).map .d
  | ["w", v] => v.toNat?.map .w
  | ["x", v] => v.toNat?.map .x
  | ["g", v] => v.toNat?.map .g
  | ["v", v] => v.toNat?.map .v
  | _ => none

structure SDef where
  kind : SKind
  key : Nat
  excl : Bool
  runs : List (List SOp)
deriving Inhabited

structure SScenario where
  defs : List SDef := []
  tops : List STop := []
deriving Inhabited

def takeOps : Nat → List String → Option (List SOp × List String)
  | 0, ls => some ([], ls)
  | n + 1, l :: ls => do
    let a ← parseOp (toks l)
    let (as, rest) ← takeOps n ls
    pure (a :: as, rest)
  | _ + 1, [] => none

def takeRuns : Nat → List String → Option (List (List SOp) × List String)
  | 0, ls => some ([], ls)
  | n + 1, l :: ls =>
    match toks l with
    | ["run", k] => do
      let k ← k.toNat?
      let (as, rest) ← takeOps k ls
      let (rs, rest) ← takeRuns n rest
      pure (as :: rs, rest)
    | _ => none
  | _ + 1, [] => none

def parseLines : Nat → List String → SScenario → Option SScenario
  | 0, _, _ => none
  | _ + 1, [], sc => some sc
  | fuel + 1, l :: ls, sc =>
    match toks l with
    | [] => parseLines fuel ls sc
    | "#" :: _ => parseLines fuel ls sc
    | ["mode", "syscall"] => parseLines fuel ls sc
    | ["scdef", k, key, excl, n] => do
      let n ← n.toNat?
      let (runs, rest) ← takeRuns n ls
      parseLines fuel rest { sc with defs := sc.defs ++ [{ kind := ← parseKind k, key := ← key.toNat?, excl := excl = "1", runs := runs }] }
    | ["top", "spawn", d] => do parseLines fuel ls { sc with tops := sc.tops ++ [.spawn (← d.toNat?)] }
    | ["top", "despawn", d] => do parseLines fuel ls { sc with tops := sc.tops ++ [.despawn (← d.toNat?)] }
    | "top" :: "call" :: r => do parseLines fuel ls { sc with tops := sc.tops ++ [.call (← parseCall r)] }
    | ["top", "reg", k] => do parseLines fuel ls { sc with tops := sc.tops ++ [.reg (← k.toNat?)] }
    | ["top", "revoke", k] => do parseLines fuel ls { sc with tops := sc.tops ++ [.revoke (← k.toNat?)] }
    | _ => none

def parseSc (text : String) : Option SScenario :=
  let ls := text.splitOn "\n"
  parseLines (ls.length + 1) ls {}

/-- Named keys 4, 5, … are *raw* names (`SysName::new_raw(0)`) for the function items of the `syscall` keys 0, 1, …: the same
    function under another key of another class, so the definition is the `syscall` key's. -/
def defOf (k : SKind) (key : Nat) : SKind × Nat := if k == .n && key ≥ 4 then (.f, key - 4) else (k, key)

def SScenario.prog (sc : SScenario) : SProg where
  ops := fun k key run =>
    match sc.defs.find? (fun d => d.kind == (defOf k key).1 && d.key == (defOf k key).2) with
    | some d => (d.runs[run]?).getD []
    | none => []
  excl := fun k key =>
    match sc.defs.find? (fun d => d.kind == (defOf k key).1 && d.key == (defOf k key).2) with
    | some d => d.excl
    | none => false

def showKind : SKind → String | .f => "f" | .n => "n" | .s => "s" | .o => "o" | .m => "m"

def showEv : SEv → String
  | .enter k key run x => s!"sc enter {showKind k}{key} r{run} x{x}"
  | .write v => s!"sc write {v}"
  | .ret k key v => s!"sc ret {showKind k}{key} {v}"
  | .err k key => s!"sc err {showKind k}{key}"
  | .spawned id d => s!"sc spawned s{id} def{d}"
  | .despawned id => s!"sc despawned s{id}"
  | .capped k key => s!"sc capped {showKind k}{key}"
  | .call k key => s!"sc call {showKind k}{key}"
  | .registered key => s!"sc registered n{key}"
  | .revoked key => s!"sc revoked n{key}"

/-- Runs a whole scenario, returning the trace lines. -/
def runScenario (sc : SScenario) : List String :=
  let p := sc.prog
  let r := sc.tops.foldl (fun (acc : SSt × List String × Nat) t =>
    let st := runTop p { acc.1 with log := [] } t
    (st, acc.2.1 ++ [s!"top {acc.2.2}"] ++ st.log.reverse.map showEv, acc.2.2 + 1)) (({} : SSt), [], 0)
  r.2.1 ++ (if r.1.oof then ["fuel-out"] else []) ++ ["end"]

end Cobweb.Sc
