/-
  Cobweb.State — the world state of the abstract machine and the atomic (non re-entrant) operations on it.
  One field per piece of Rust state; see DESIGN.md §3.1.
-/
import Cobweb.Types

namespace Cobweb

structure St where
  -- Bevy world
  nextEnt : Nat := 0
  alive : Nat → Bool := fun _ => false
  children : Nat → List Nat := fun _ => []
  comp : Nat → List (Nat × Nat) := fun _ => []              -- `React<C>` components: (type, value)
  res : Nat → Nat := fun _ => 0                              -- `ReactResInner<R>`
  removedBuf : Nat → List Nat := fun _ => []                 -- unread `RemovedComponents<React<C>>` events
  removedOld : Nat → Nat := fun _ => 0                       -- how many of them (oldest first) are from before the last `clear_trackers`
  -- system commands
  storage : Nat → Option Bool := fun _ => none               -- `SystemCommandStorage`: `some true` = callback present
  info : Nat → SysInfo := fun _ => {}
  counter : Nat := 0                                         -- `SyscommandCounter`
  buffered : List (Nat × Kind) := []                         -- `CobwebCommandQueue<BufferedSyscommand>`
  -- event metadata side tables
  trkSys : TrkData := {}
  trkEvt : TrkData := {}
  trkEnt : TrkEnt := {}
  trkDsp : TrkDsp := {}
  data : Nat → Option DataEnt := fun _ => none
  -- registration tables
  tbl : Tbl → Nat → List Handle := fun _ _ => []
  tblDsp : Nat → List Handle := fun _ => []
  entReactors : Nat → Option (List (RType × Handle)) := fun _ => none
  tracked : List Nat := []                                   -- `removal_checkers`, in order
  dspTracker : Nat → Bool := fun _ => false
  dspChan : List Nat := []
  -- reference counts
  nextArc : Nat := 0
  arcRc : Nat → Nat := fun _ => 0
  arcEnt : Nat → Nat := fun _ => 0
  autoChan : List Nat := []
  -- world reactors
  wrSys : Nat → Nat := fun _ => 0
  ewrSys : Nat → Nat := fun _ => 0
  ewLocal : Nat → List (Nat × Nat) := fun _ => []            -- `EntityWorldLocal<T>` per entity: (reactor, value)
  -- control
  wq : List Cmd := []                                        -- world command queue beyond the cursor
  stack : List Frame := []
  topIdx : Nat := 0
  -- ghost
  trace : List Ev := []
  entNames : List Nat := []
  sysNames : List Nat := []
  tokens : List (Nat × List Trig) := []
  sigs : List Nat := []                                      -- arcs of user-held signals, by name

instance : Inhabited St := ⟨{}⟩

namespace St

def emit (s : St) (e : Ev) : St := { s with trace := e :: s.trace }
def push (s : St) (fs : List Frame) : St := { s with stack := fs ++ s.stack }

/-- Reserve a fresh entity id (alive from reservation, see DESIGN §3.2). -/
def fresh (s : St) : Nat × St :=
  (s.nextEnt, { s with nextEnt := s.nextEnt + 1, alive := upd s.alive s.nextEnt true })

end St

/-! ### association-list and list helpers -/

def alookup (l : List (Nat × Nat)) (k : Nat) : Option Nat :=
  match l with
  | [] => none
  | (a, b) :: t => if a = k then some b else alookup t k

def aerase (l : List (Nat × Nat)) (k : Nat) : List (Nat × Nat) := l.filter (fun p => p.1 ≠ k)

def aset (l : List (Nat × Nat)) (k v : Nat) : List (Nat × Nat) :=
  match l with
  | [] => [(k, v)]
  | (a, b) :: t => if a = k then (a, v) :: t else (a, b) :: aset t k v

/-- `Vec::swap_remove`. -/
def swapRemove {α : Type} (l : List α) (i : Nat) : List α :=
  if i + 1 < l.length then
    match l.getLast? with
    | some x => (l.set i x).dropLast
    | none => l
  else l.dropLast

/-- Index of the first element satisfying `p`. -/
def findIdx' {α : Type} (p : α → Bool) : List α → Nat → Option Nat
  | [], _ => none
  | a :: t, i => if p a then some i else findIdx' p t (i + 1)

/-- Remove the first element satisfying `p`, returning it. -/
def removeFirst {α : Type} (p : α → Bool) : List α → Option α × List α
  | [] => (none, [])
  | a :: t => if p a then (some a, t) else
      let (r, t') := removeFirst p t
      (r, a :: t')

/-! ### handles and reference counts -/

/-- Dropping one clone of a handle: decrement, and on reaching zero send the entity on the GC channel. -/
def dropHandle (s : St) (h : Handle) : St :=
  match h.arc with
  | none => s
  | some a =>
    let n := s.arcRc a - 1
    let s := { s with arcRc := upd s.arcRc a n }
    if n = 0 then { s with autoChan := s.autoChan ++ [s.arcEnt a] } else s

def dropHandles (s : St) (hs : List Handle) : St := hs.foldl dropHandle s

def cloneHandle (s : St) (h : Handle) : St :=
  match h.arc with
  | none => s
  | some a => { s with arcRc := upd s.arcRc a (s.arcRc a + 1) }

/-- `AutoDespawner::prepare`: a new arc with one owner. -/
def newArc (s : St) (e : Nat) : Nat × St :=
  (s.nextArc, { s with nextArc := s.nextArc + 1, arcRc := upd s.arcRc s.nextArc 1, arcEnt := upd s.arcEnt s.nextArc e })

/-! ### despawning one entity (all component drops) -/

/-- The entity dies; a present `SystemCommandStorage` callback is dropped with it. -/
def killStorage (s : St) (e : Nat) : St :=
  { s with alive := upd s.alive e false, storage := upd s.storage e none }

/-- What dropping the callback of system `e` shows: the scripted closures carry a `Drop` canary; a system made from a
    zero-sized function item carries nothing. -/
def canaryEv (s : St) (e : Nat) : Ev := if (s.info e).zst then .noCanary e else .canary e

/-- Dropping `SystemCommandStorage` with a present callback drops the system state (canary). -/
def killCanary (s : St) (e : Nat) : St :=
  match s.storage e with
  | some true => s.emit (canaryEv s e)
  | _ => s

/-- `EntityReactors` is dropped: its handles are released. -/
def killReactors (s : St) (e : Nat) : St :=
  match s.entReactors e with
  | some l => dropHandles { s with entReactors := upd s.entReactors e none } (l.map (fun p => p.2))
  | none => s

/-- `React<C>` components are dropped: one removal event per component type. -/
def killComps (s : St) (e : Nat) : St :=
  let s : St := (s.comp e).foldl
    (fun (s : St) (p : Nat × Nat) => { s with removedBuf := upd s.removedBuf p.1 (s.removedBuf p.1 ++ [e]) }) s
  { s with comp := upd s.comp e [] }

/-- `DespawnTracker::drop` sends the entity on the despawn channel. -/
def killTracker (s : St) (e : Nat) : St :=
  if s.dspTracker e then { s with dspTracker := upd s.dspTracker e false, dspChan := s.dspChan ++ [e] } else s

/-- Event data stored on the entity is dropped (the payload, unless it was taken). -/
def killData (s : St) (e : Nat) : St :=
  match s.data e with
  | some x =>
    let s : St := { s with data := upd s.data e none }
    if x.taken then s else s.emit (.dropPayload x.pid)
  | none => s

/-- `World::despawn(e)` for a live `e`: every component is dropped. -/
def kill (s : St) (e : Nat) : St :=
  let s := killCanary s e
  let s := killStorage s e
  let s := killReactors s e
  let s := killComps s e
  let s := killTracker s e
  let s := killData s e
  { s with ewLocal := upd s.ewLocal e [] }

/-- `world.despawn(e)`: no-op on a dead entity. -/
def despawn1 (s : St) (e : Nat) : St := if s.alive e then kill s e else s

/-! ### trackers -/

/-- The `RType` every entity-event reaction prepares in the entity reaction tracker (`Event(TypeId::of::<()>())`). -/
def evUnit : RType := ⟨.ev, 1000⟩

/-- `start(reactor, ticket)`: the entry prepared for *this* command (the ticket identifies it; entries with equal content
    are interchangeable) becomes current and leaves the list; nothing happens if it is missing. -/
def TrkData.start (t : TrkData) (sys d : Nat) : TrkData :=
  if (sys, d) ∈ t.prepared then { reacting := true, cur := d, prepared := t.prepared.erase (sys, d) } else t

def TrkEnt.start (t : TrkEnt) (sys src : Nat) (rt : RType) : TrkEnt :=
  if (sys, src, rt) ∈ t.prepared then
    { reacting := true, curSys := sys, curSrc := src, curRt := rt, prepared := t.prepared.erase (sys, src, rt) }
  else t

/-- Returns the handle that was held in `reactor_handle` before (it is dropped by the assignment). -/
def TrkDsp.start (t : TrkDsp) (sys src : Nat) (h : Handle) : TrkDsp × Option Handle :=
  if (sys, src, h) ∈ t.prepared then
    ({ reacting := true, curSrc := src, curHandle := some h, prepared := t.prepared.erase (sys, src, h) }, t.curHandle)
  else (t, none)

/-- The `setup` function pointer of a command kind. -/
def setupK (s : St) (k : Kind) (sys : Nat) : St :=
  match k with
  | .plain => s
  | .sysEv d => { s with trkSys := s.trkSys.start sys d }
  | .entReact src rt => { s with trkEnt := s.trkEnt.start sys src rt }
  | .dspReact src h =>
    let (t, old) := s.trkDsp.start sys src h
    let s := { s with trkDsp := t }
    match old with
    | some h => dropHandle s h
    | none => s
  | .entEv target d => { s with trkEnt := s.trkEnt.start sys target evUnit, trkEvt := s.trkEvt.start sys d }
  | .bcEv d => { s with trkEvt := s.trkEvt.start sys d }

/-- `try_cleanup_data_entity`. -/
def tryCleanupData (s : St) (d : Nat) : St :=
  if s.alive d then
    match s.data d with
    | some x =>
      if x.kind = .sys then s else
      let c := x.cnt - 1
      let s := { s with data := upd s.data d (some { x with cnt := c }) }
      if c = 0 then kill s d else s
    | none => s
  else s

/-- The `cleanup` function pointer of a command kind. -/
def cleanupK (s : St) (k : Kind) : St :=
  match k with
  | .plain => s
  | .sysEv _ =>
    let s := { s with trkSys := { s.trkSys with reacting := false } }
    despawn1 s s.trkSys.cur
  | .entReact _ _ => { s with trkEnt := { s.trkEnt with reacting := false } }
  | .dspReact _ _ =>
    let old := s.trkDsp.curHandle
    let s := { s with trkDsp := { s.trkDsp with reacting := false, curHandle := none } }
    match old with
    | some h => dropHandle s h
    | none => s
  | .entEv _ _ =>
    let s := { s with trkEnt := { s.trkEnt with reacting := false }, trkEvt := { s.trkEvt with reacting := false } }
    tryCleanupData s s.trkEvt.cur
  | .bcEv _ =>
    let s := { s with trkEvt := { s.trkEvt with reacting := false } }
    tryCleanupData s s.trkEvt.cur

/-! ### registration tables -/

def rtOfTrig : Trig → Option (RType × Nat)
  | .eIns e ty => some (⟨.ins, ty⟩, e)
  | .eMut e ty => some (⟨.mut, ty⟩, e)
  | .eRem e ty => some (⟨.rem, ty⟩, e)
  | .eEv e ty => some (⟨.ev, ty⟩, e)
  | _ => none

def tblOfTrig : Trig → Option (Tbl × Nat)
  | .anyEv ty => some (.anyEv, ty)
  | .cIns ty => some (.ins, ty)
  | .cMut ty => some (.mut, ty)
  | .cRem ty => some (.rem, ty)
  | .res ty => some (.res, ty)
  | .bc ty => some (.bc, ty)
  | _ => none

def setTbl (s : St) (t : Tbl) (ty : Nat) (l : List Handle) : St :=
  { s with tbl := fun t' ty' => if t' = t ∧ ty' = ty then l else s.tbl t' ty' }

/-- `revoke_reactor` for one token entry. -/
def revokeOne (s : St) (sys : Nat) (t : Trig) : St :=
  match t with
  | .dsp e =>
    let (r, l) := removeFirst (fun h => h.sys == sys) (s.tblDsp e)
    let s := { s with tblDsp := upd s.tblDsp e l }
    match r with
    | some h => dropHandle s h
    | none => s
  | _ =>
    match rtOfTrig t with
    | some (rt, e) =>
      match s.entReactors e with
      | some l =>
        let gone := l.filter (fun p => p.1 == rt && p.2.sys == sys)
        let kept := l.filter (fun p => !(p.1 == rt && p.2.sys == sys))
        dropHandles { s with entReactors := upd s.entReactors e (some kept) } (gone.map (·.2))
      | none => s
    | none =>
      match tblOfTrig t with
      | some (tb, ty) =>
        let (r, l) := removeFirst (fun h => h.sys == sys) (s.tbl tb ty)
        let s := setTbl s tb ty l
        match r with
        | some h => dropHandle s h
        | none => s
      | none => s

def revokeAll (s : St) (sys : Nat) (ts : List Trig) : St := ts.foldl (fun s t => revokeOne s sys t) s

/-- `register_triggers`: the sub-commands queued for one trigger (with the clones of the handle they own). -/
def regCmds (s : St) (h : Handle) (t : Trig) : St × List Cmd :=
  match t with
  | .dsp e => if s.alive e then (cloneHandle s h, [.regDsp e h]) else (s, [])
  | .eRem e ty => (cloneHandle s h, [.trackRemovals ty, .regEnt ⟨.rem, ty⟩ e h])
  | _ =>
    match rtOfTrig t with
    | some (rt, e) => (cloneHandle s h, [.regEnt rt e h])
    | none =>
      match tblOfTrig t with
      | some (tb, ty) => (cloneHandle s h, [.regType tb ty h])
      | none => (s, [])

def regAll (s : St) (h : Handle) : List Trig → St × List Cmd
  | [] => (s, [])
  | t :: ts =>
    let (s, c) := regCmds s h t
    let (s, cs) := regAll s h ts
    (s, c ++ cs)

/-- Entity-scoped listeners of `(e, rt)`, in `EntityReactors` order. Needs the component, hence a live entity. -/
def entListeners (s : St) (e : Nat) (rt : RType) : List Nat :=
  match s.entReactors e with
  | some l => (l.filter (fun p => p.1 == rt)).map (·.2.sys)
  | none => []

/-! ### polling -/

def removalCmdsFor (s : St) (ty : Nat) (e : Nat) : List Cmd :=
  let rt : RType := ⟨.rem, ty⟩
  (entListeners s e rt).map (fun r => Cmd.reactEnt e rt r) ++ (s.tbl .rem ty).map (fun h => Cmd.reactEnt e rt h.sys)

/-- One removal checker: drains the removal buffer of one tracked type. -/
def pollRemStep (acc : St × List Cmd) (ty : Nat) : St × List Cmd :=
  ({ acc.1 with removedBuf := upd acc.1.removedBuf ty [], removedOld := upd acc.1.removedOld ty 0 }, acc.2 ++ (acc.1.removedBuf ty).flatMap (removalCmdsFor acc.1 ty))

/-- `schedule_removal_reactions`: drains the buffer of every tracked type. -/
def pollRemovals (s : St) : St × List Cmd := s.tracked.foldl pollRemStep (s, [])

/-- `World::clear_trackers` (Bevy's `Events::update` on every removal-event buffer): the events that were already there at
    the previous call are dropped, read or not; the others become old. -/
def clearTrackers (s : St) : St :=
  { s with removedBuf := fun ty => (s.removedBuf ty).drop (s.removedOld ty),
           removedOld := fun ty => ((s.removedBuf ty).drop (s.removedOld ty)).length }

/-- One received despawn: the whole reactor list of the entity is consumed. -/
def pollDspStep (acc : St × List Cmd) (e : Nat) : St × List Cmd :=
  ({ acc.1 with tblDsp := upd acc.1.tblDsp e [] }, acc.2 ++ (acc.1.tblDsp e).map (fun h => Cmd.reactDsp e h.sys h))

/-- `schedule_despawn_reactions`: drains the despawn channel. -/
def pollDespawns (s : St) : St × List Cmd := s.dspChan.foldl pollDspStep ({ s with dspChan := [] }, [])

/-! ### readers -/

def readData (s : St) (t : TrkData) (k : DKind) (ty : Nat) : Option DataEnt :=
  if t.reacting then
    match s.data t.cur with
    | some x => if x.kind = k ∧ x.ty = ty ∧ s.alive t.cur then some x else none
    | none => none
  else none

def readEnt (s : St) (k : RKind) (ty : Nat) : Option Nat :=
  if s.trkEnt.reacting ∧ s.trkEnt.curRt = ⟨k, ty⟩ then some s.trkEnt.curSrc else none

/-- Number of component / event / resource / payload types and entity world reactors the harness instantiates. -/
def numTy : Nat := 2

/-- `EntityLocal<T>` for entity world reactor `wr`: usable iff the tracker is reacting for that reactor's system. -/
def readLocal (s : St) (wr : Nat) : Option (Nat × Nat) :=
  if s.trkEnt.reacting ∧ s.trkEnt.curSys = s.ewrSys wr then
    match alookup (s.ewLocal s.trkEnt.curSrc) wr with
    | some v => some (s.trkEnt.curSrc, v)
    | none => none
  else none

/-- The scripted body of an entity world reactor also goes through `EntityLocal::get_mut`: every run caused by an entity adds
    100 to that entity's local data (what later runs for it must then see). -/
def bumpLocal (s : St) (isEwr : Option Nat) : St :=
  match isEwr with
  | some wr =>
    match readLocal s wr with
    | some (e, v) => { s with ewLocal := upd s.ewLocal e (aset (s.ewLocal e) wr (v + 100)) }
    | none => s
  | none => s

/-- What the first statement of a scripted body observes. System events are *taken*. -/
def observe (s : St) (isEwr : Option Nat) : Obs × St :=
  let tys := List.range numTy
  let se := tys.map (fun ty => match readData s s.trkSys .sys ty with
    | some x => if x.taken then none else some x.pid
    | none => none)
  -- taking marks the data as taken
  let s' := match (if s.trkSys.reacting then s.data s.trkSys.cur else none) with
    | some x => if x.kind = .sys ∧ s.alive s.trkSys.cur ∧ x.ty < numTy then
        { s with data := upd s.data s.trkSys.cur (some { x with taken := true }) } else s
    | none => s
  let obs : Obs := {
    sysEv := se
    sysEv2 := tys.map (fun _ => none)
    bc := tys.map (fun ty => (readData s s.trkEvt .bc ty).map (·.pid))
    ev := tys.map (fun ty => (readData s s.trkEvt .ev ty).map (fun x => (x.target, x.pid)))
    insE := tys.map (readEnt s .ins)
    mutE := tys.map (readEnt s .mut)
    remE := tys.map (readEnt s .rem)
    dsp := if s.trkDsp.reacting then some s.trkDsp.curSrc else none
    loc := match isEwr with
      | some wr => [readLocal s wr]
      | none => [] }
  (obs, bumpLocal s' isEwr)



/-- Ghost: did the `start` of a command of kind `k` claim the metadata that this very command prepared? -/
def claimedOwn (s : St) (k : Kind) : Bool :=
  match k with
  | .plain => true
  | .sysEv d => s.trkSys.cur == d
  | .entReact src rt => s.trkEnt.curSrc == src && s.trkEnt.curRt == rt
  | .dspReact src h => s.trkDsp.curSrc == src && s.trkDsp.curHandle == some h
  | .entEv target d => s.trkEvt.cur == d && s.trkEnt.curSrc == target && s.trkEnt.curRt == evUnit
  | .bcEv d => s.trkEvt.cur == d

/-- Ghost: what the readers of a run caused by a command of kind `k` should return: the command's own event in the
    reader of its kind and type, nothing in every other reader (C03). -/
def expectObs (s : St) (k : Kind) (isEwr : Option Nat) : Obs :=
  let tys := List.range numTy
  let none1 : List (Option Nat) := tys.map (fun _ => none)
  let base : Obs := { sysEv := none1, sysEv2 := none1, bc := none1, ev := tys.map (fun _ => none), insE := none1,
                      mutE := none1, remE := none1, dsp := none,
                      loc := match isEwr with | some _ => [none] | none => [] }
  let dataOf (d : Nat) (kd : DKind) : Option DataEnt :=
    match s.data d with
    | some x => if x.kind = kd ∧ s.alive d then some x else none
    | none => none
  let locOf (src : Nat) : List (Option (Nat × Nat)) :=
    match isEwr with
    | some wr => [(alookup (s.ewLocal src) wr).map (fun v => (src, v))]
    | none => []
  match k with
  | .plain => base
  | .sysEv d =>
    match dataOf d .sys with
    | some x => { base with sysEv := tys.map (fun ty => if ty = x.ty ∧ !x.taken then some x.pid else none) }
    | none => base
  | .bcEv d =>
    match dataOf d .bc with
    | some x => { base with bc := tys.map (fun ty => if ty = x.ty then some x.pid else none) }
    | none => base
  | .entEv target d =>
    match dataOf d .ev with
    | some x => { base with ev := tys.map (fun ty => if ty = x.ty then some (x.target, x.pid) else none), loc := locOf target }
    | none => { base with loc := locOf target }
  | .entReact src rt =>
    let b : Obs := { base with loc := locOf src }
    match rt.kind with
    | .ins => { b with insE := tys.map (fun ty => if ty = rt.ty then some src else none) }
    | .mut => { b with mutE := tys.map (fun ty => if ty = rt.ty then some src else none) }
    | .rem => { b with remE := tys.map (fun ty => if ty = rt.ty then some src else none) }
    | .ev => b
  | .dspReact src _ => { base with dsp := some src }

end Cobweb
