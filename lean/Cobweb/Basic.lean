def hello := "world"
