/-
  Cobweb.Proofs.SyscallFrame — the syscall family for arbitrary nesting: a stored system (class, key) that nobody names is
  left alone by any executor run (induction on the fuel), hence the stored counter of a key counts the calls of that key.
-/
import Cobweb.Syscall
namespace Cobweb.Sc

/-- The store a call kind lives in: 0 = `syscall` resources (`syscall_once` never touches them, but is filed here),
    1 = named systems, 2 = spawned systems. -/
def cls : SKind → Nat
  | .f => 0 | .o => 0 | .n => 1 | .m => 1 | .s => 2

/-- The stored system an operation names, if any. -/
def opId : SOp → Option (Nat × Nat)
  | .d c => some (cls c.kind, c.key)
  | .q c => some (cls c.kind, c.key)
  | .x id => some (2, id)
  | .g key => some (1, key)
  | .v key => some (1, key)
  | .w _ => none

def taskId : Task → Option (Nat × Nat)
  | .call c => some (cls c.kind, c.key)
  | .apply op => opId op
  | .flush => none

/-- The stored state of identity `(cl, j)`. -/
def look (st : SSt) (cl j : Nat) : Option (Option Nat) :=
  match cl with
  | 0 => (st.fstore j).map some
  | 1 => st.nstore j
  | 2 => st.sstore j
  | _ => none

/-- Nothing queued names the identity. -/
def wqOK (i : Nat × Nat) (st : SSt) : Prop := ∀ op ∈ st.wq, opId op ≠ some i

/-- The identity's stored state is unchanged, and still nothing queued names it. -/
def Kept (i : Nat × Nat) (s s' : SSt) : Prop := look s' i.1 i.2 = look s i.1 i.2 ∧ wqOK i s'

/-- An executor that leaves the identity alone whenever it is not asked to touch it. -/
def Frm (i : Nat × Nat) (k : SSt → Task → SSt × Option Nat) : Prop :=
  ∀ st t, wqOK i st → taskId t ≠ some i → Kept i st (k st t).1

theorem Kept.refl {i : Nat × Nat} {s : SSt} (h : wqOK i s) : Kept i s s := ⟨rfl, h⟩
theorem Kept.trans {i : Nat × Nat} {a b c : SSt} (h1 : Kept i a b) (h2 : Kept i b c) : Kept i a c := ⟨h2.1.trans h1.1, h2.2⟩

theorem kept_emit {i : Nat × Nat} {s s' : SSt} (h : Kept i s s') (e : SEv) : Kept i s (s'.emit e) := h

theorem kept_report {i : Nat × Nat} {s : SSt} (r : SSt × Option Nat) (c : SCall) (h : Kept i s r.1) : Kept i s (report r c) := by
  unfold report; split <;> exact kept_emit h _

theorem kept_tryCall {i : Nat × Nat} {k : SSt → Task → SSt × Option Nat} (hk : Frm i k) (st : SSt) (c : SCall)
    (hw : wqOK i st) (hc : (cls c.kind, c.key) ≠ i) : Kept i st (tryCall k st c) := by
  unfold tryCall; split
  · exact kept_emit (Kept.refl hw) _
  · apply kept_report
    have := hk (({ st with ncalls := st.ncalls + 1 } : SSt).emit (.call c.kind c.key)) (.call c) hw
      (by simp only [taskId]; intro h; exact hc (Option.some.inj h))
    exact this

theorem foldl_kept {α : Type} {i : Nat × Nat} (f : SSt → α → SSt) (P : α → Prop)
    (hf : ∀ st a, P a → wqOK i st → Kept i st (f st a)) :
    ∀ (l : List α) (st : SSt), (∀ a ∈ l, P a) → wqOK i st → Kept i st (l.foldl f st) := by
  intro l
  induction l with
  | nil => intro st _ hw; exact Kept.refl hw
  | cons a l ih =>
    intro st hl hw
    have h1 := hf st a (hl a List.mem_cons_self) hw
    exact h1.trans (ih _ (fun x hx => hl x (List.mem_cons_of_mem _ hx)) h1.2)

theorem kept_runBody {i : Nat × Nat} {k : SSt → Task → SSt × Option Nat} (hk : Frm i k) (p : SProg)
    (hp : ∀ kind key cnt, ∀ op ∈ p.ops kind key cnt, opId op ≠ some i)
    (st : SSt) (kind : SKind) (key defKey cnt input : Nat) (hw : wqOK i st) :
    Kept i st (runBody k p st kind key defKey cnt input).1 := by
  unfold runBody
  dsimp only
  have h0 : Kept i st (st.emit (.enter kind key cnt input)) := kept_emit (Kept.refl hw) _
  split
  · have h1 := foldl_kept (i := i) (fun (st : SSt) op =>
        match op with
        | .d c => tryCall k st c
        | other => { st with wq := st.wq ++ [other] }) (fun op => opId op ≠ some i)
      (by
        intro st op hop hw
        cases op with
        | d c => exact kept_tryCall hk st c hw (by intro h; exact hop (by simp [opId, h]))
        | q c => exact ⟨rfl, fun o ho => by
            simp only [List.mem_append, List.mem_singleton] at ho
            rcases ho with ho | rfl
            · exact hw o ho
            · exact hop⟩
        | w v => exact ⟨rfl, fun o ho => by
            simp only [List.mem_append, List.mem_singleton] at ho
            rcases ho with ho | rfl
            · exact hw o ho
            · exact hop⟩
        | x id => exact ⟨rfl, fun o ho => by
            simp only [List.mem_append, List.mem_singleton] at ho
            rcases ho with ho | rfl
            · exact hw o ho
            · exact hop⟩
        | g key => exact ⟨rfl, fun o ho => by
            simp only [List.mem_append, List.mem_singleton] at ho
            rcases ho with ho | rfl
            · exact hw o ho
            · exact hop⟩
        | v key => exact ⟨rfl, fun o ho => by
            simp only [List.mem_append, List.mem_singleton] at ho
            rcases ho with ho | rfl
            · exact hw o ho
            · exact hop⟩)
      (p.ops kind defKey cnt) (st.emit (.enter kind key cnt input)) (hp kind defKey cnt) h0.2
    have h2 := hk _ .flush h1.2 (by simp [taskId])
    exact (h0.trans h1).trans h2
  · have h1 := hk (st.emit (.enter kind key cnt input)) .flush h0.2 (by simp [taskId])
    have h2 := foldl_kept (i := i) (fun (st : SSt) op => (k (k st (.apply op)).1 .flush).1) (fun op => opId op ≠ some i)
      (by
        intro st op hop hw
        have a := hk st (.apply op) hw (by simpa [taskId] using hop)
        have b := hk _ .flush a.2 (by simp [taskId])
        exact a.trans b)
      ((p.ops kind defKey cnt).filter (fun op => match op with | .d _ => false | _ => true)) _
      (fun op hop => hp kind defKey cnt op (List.mem_filter.mp hop).1) h1.2
    exact (h0.trans h1).trans h2


theorem look_fstore_ne (st : SSt) (i : Nat × Nat) (key : Nat) (v : Option Nat) (h : (0, key) ≠ i) :
    look ({ st with fstore := upd st.fstore key v } : SSt) i.1 i.2 = look st i.1 i.2 := by
  obtain ⟨cl, j⟩ := i
  match cl with
  | 0 => have : j ≠ key := fun e => h (by rw [e]); simp [look, upd, this]
  | 1 => rfl
  | 2 => rfl
  | (n + 3) => rfl

theorem look_nstore_ne (st : SSt) (i : Nat × Nat) (key : Nat) (v : Option (Option Nat)) (h : (1, key) ≠ i) :
    look ({ st with nstore := upd st.nstore key v } : SSt) i.1 i.2 = look st i.1 i.2 := by
  obtain ⟨cl, j⟩ := i
  match cl with
  | 0 => rfl
  | 1 => have : j ≠ key := fun e => h (by rw [e]); simp [look, upd, this]
  | 2 => rfl
  | (n + 3) => rfl

theorem look_sstore_ne (st : SSt) (i : Nat × Nat) (key : Nat) (v : Option (Option Nat)) (h : (2, key) ≠ i) :
    look ({ st with sstore := upd st.sstore key v } : SSt) i.1 i.2 = look st i.1 i.2 := by
  obtain ⟨cl, j⟩ := i
  match cl with
  | 0 => rfl
  | 1 => rfl
  | 2 => have : j ≠ key := fun e => h (by rw [e]); simp [look, upd, this]
  | (n + 3) => rfl

/-- **Independence between keys, for arbitrary nesting**: whatever a program does — direct nested calls, queued calls,
    writes, despawns, registrations, to any depth — an executor run that is not itself asked to touch the stored system
    `(class, key)`, whose program never names it and with nothing queued that names it, leaves that stored system exactly as
    it was. (By induction on the fuel; holds for every fuel, also when it runs out.) -/
theorem exec_frm (p : SProg) (i : Nat × Nat)
    (hp : ∀ kind key cnt, ∀ op ∈ p.ops kind key cnt, opId op ≠ some i) : ∀ fuel, Frm i (exec p fuel) := by
  intro fuel
  induction fuel with
  | zero =>
    intro st t hw _
    cases t <;> simp only [exec] <;> first | exact Kept.refl hw | (split <;> exact Kept.refl hw)
  | succ fuel ih =>
    intro st t hw ht
    cases t with
    | flush =>
      simp only [exec]
      split
      · exact Kept.refl hw
      · rename_i hne
        have h0 : Kept i st ({ st with wq := [] } : SSt) := ⟨rfl, fun o ho => by cases ho⟩
        have h1 := foldl_kept (i := i) (fun (st : SSt) op => (exec p fuel (exec p fuel st (.apply op)).1 .flush).1)
          (fun op => opId op ≠ some i)
          (by
            intro st op hop hw
            have a := ih st (.apply op) hw (by simpa [taskId] using hop)
            have b := ih _ .flush a.2 (by simp [taskId])
            exact a.trans b)
          st.wq ({ st with wq := [] } : SSt) hw h0.2
        exact h0.trans h1
    | apply op =>
      have hop : opId op ≠ some i := by simpa [taskId] using ht
      cases op with
      | q c => simp only [exec]; exact kept_tryCall ih st c hw (by intro h; exact hop (by simp [opId, h]))
      | w v => simp only [exec]; exact kept_emit (Kept.refl hw) _
      | x id =>
        simp only [exec]
        exact ⟨look_sstore_ne st i id none (by intro h; exact hop (by simp [opId, h])), hw⟩
      | g key =>
        simp only [exec]
        exact ⟨look_nstore_ne st i key _ (by intro h; exact hop (by simp [opId, h])), hw⟩
      | v key =>
        simp only [exec]
        exact ⟨look_nstore_ne st i key _ (by intro h; exact hop (by simp [opId, h])), hw⟩
      | d c => simp only [exec]; exact Kept.refl hw
    | call c =>
      have hc : (cls c.kind, c.key) ≠ i := by intro h; exact ht (by simp [taskId, h])
      obtain ⟨kind, key, input⟩ := c
      cases kind with
      | f =>
        simp only [exec]
        have hk : (0, key) ≠ i := hc
        have a : Kept i st ({ st with fstore := upd st.fstore key none } : SSt) := ⟨look_fstore_ne st i key none hk, hw⟩
        have b := kept_runBody ih p hp ({ st with fstore := upd st.fstore key none } : SSt) .f key key ((st.fstore key).getD 0) input a.2
        have c' : Kept i (runBody (exec p fuel) p ({ st with fstore := upd st.fstore key none } : SSt) .f key key ((st.fstore key).getD 0) input).1
            ({ (runBody (exec p fuel) p ({ st with fstore := upd st.fstore key none } : SSt) .f key key ((st.fstore key).getD 0) input).1 with
              fstore := upd (runBody (exec p fuel) p ({ st with fstore := upd st.fstore key none } : SSt) .f key key ((st.fstore key).getD 0) input).1.fstore key
                (some ((st.fstore key).getD 0 + 1)) } : SSt) := ⟨look_fstore_ne _ i key _ hk, b.2⟩
        exact (a.trans b).trans c'
      | o =>
        simp only [exec]
        exact kept_runBody ih p hp st .f key key 0 input hw
      | n =>
        simp only [exec]
        have hk : (1, key) ≠ i := hc
        have a : Kept i st (match st.nstore key with
            | some _ => ({ st with nstore := upd st.nstore key (some none) } : SSt)
            | none => st) := by
          split
          · exact ⟨look_nstore_ne st i key _ hk, hw⟩
          · exact Kept.refl hw
        have b := kept_runBody ih p hp _ .n key key (match st.nstore key with | some (some n) => n | _ => 0) input a.2
        exact (a.trans b).trans ⟨look_nstore_ne _ i key _ hk, b.2⟩
      | m =>
        simp only [exec]
        have hk : (1, key) ≠ i := hc
        split
        · rename_i cnt _
          have a : Kept i st ({ st with nstore := upd st.nstore key (some none) } : SSt) := ⟨look_nstore_ne st i key _ hk, hw⟩
          have b := kept_runBody ih p hp _ .n key key cnt input a.2
          exact (a.trans b).trans ⟨look_nstore_ne _ i key _ hk, b.2⟩
        · exact Kept.refl hw
      | s =>
        simp only [exec]
        have hk : (2, key) ≠ i := hc
        split
        · exact Kept.refl hw
        · exact Kept.refl hw
        · rename_i cnt _
          have a : Kept i st ({ st with sstore := upd st.sstore key (some none) } : SSt) := ⟨look_sstore_ne st i key _ hk, hw⟩
          have b := kept_runBody ih p hp _ .s key (st.sdef key) cnt input a.2
          refine (a.trans b).trans ?_
          split
          · exact ⟨look_sstore_ne _ i key _ hk, b.2⟩
          · exact Kept.refl b.2

/-! ### persistence: the state of a key counts its calls -/

def cntOf : Option (Option Nat) → Nat
  | some (some n) => n
  | _ => 0

/-- A `syscall` / `named_syscall` of a key the program never names: it sees the stored counter, returns it with its input,
    and stores the counter plus one — whatever its body does at whatever depth. -/
theorem call_result (p : SProg) (fuel : Nat) (st : SSt) (c : SCall) (hk : c.kind = .f ∨ c.kind = .n)
    (hp : ∀ kind key cnt, ∀ op ∈ p.ops kind key cnt, opId op ≠ some (cls c.kind, c.key))
    (hw : wqOK (cls c.kind, c.key) st) :
    look (exec p (fuel + 1) st (.call c)).1 (cls c.kind) c.key = some (some (cntOf (look st (cls c.kind) c.key) + 1)) ∧
    wqOK (cls c.kind, c.key) (exec p (fuel + 1) st (.call c)).1 ∧
    (exec p (fuel + 1) st (.call c)).2 = some (c.input * 100 + cntOf (look st (cls c.kind) c.key)) := by
  obtain ⟨kind, key, input⟩ := c
  have ih := exec_frm p (cls kind, key) hp fuel
  rcases hk with hk | hk <;> (simp only at hk; subst hk)
  · simp only [exec, cls]
    have b := kept_runBody ih p hp ({ st with fstore := upd st.fstore key none } : SSt) .f key key ((st.fstore key).getD 0) input hw
    refine ⟨?_, b.2, ?_⟩
    · simp only [look, upd, if_true, Option.map_some]
      cases h : st.fstore key <;> simp [cntOf]
    · simp only [runBody]
      cases h : st.fstore key <;> (split <;> simp [look, cntOf, h])
  · simp only [exec, cls]
    have hw' : wqOK (1, key) (match st.nstore key with
        | some _ => ({ st with nstore := upd st.nstore key (some none) } : SSt)
        | none => st) := by split <;> exact hw
    have b := kept_runBody ih p hp _ .n key key (match st.nstore key with | some (some n) => n | _ => 0) input hw'
    refine ⟨?_, b.2, ?_⟩
    · simp only [look, upd, if_true]
      cases h : st.nstore key with
      | none => simp [cntOf]
      | some o => cases o <;> simp [cntOf]
    · simp only [runBody]
      cases h : st.nstore key with
      | none => split <;> simp [look, cntOf, h]
      | some o => cases o <;> (split <;> simp [look, cntOf, h])

/-- The same for `spawned_syscall` of a system that exists and is idle, when the program neither despawns nor calls it:
    it is put back with its counter plus one (the reinsertion finds the component still there). -/
theorem spawned_call_result (p : SProg) (fuel : Nat) (st : SSt) (key input cnt : Nat)
    (hp : ∀ kind key' c, ∀ op ∈ p.ops kind key' c, opId op ≠ some (2, key))
    (hw : wqOK (2, key) st) (hs : st.sstore key = some (some cnt)) :
    (exec p (fuel + 1) st (.call ⟨.s, key, input⟩)).1.sstore key = some (some (cnt + 1)) ∧
    wqOK (2, key) (exec p (fuel + 1) st (.call ⟨.s, key, input⟩)).1 ∧
    (exec p (fuel + 1) st (.call ⟨.s, key, input⟩)).2 = some (input * 100 + cnt) := by
  have ih := exec_frm p (2, key) hp fuel
  simp only [exec, hs]
  have b := kept_runBody ih p hp ({ st with sstore := upd st.sstore key (some none) } : SSt) .s key (st.sdef key) cnt input hw
  have hl : (runBody (exec p fuel) p ({ st with sstore := upd st.sstore key (some none) } : SSt) .s key (st.sdef key) cnt input).1.sstore key = some none := by
    have := b.1
    simp only [look, upd, if_true] at this
    exact this
  refine ⟨?_, ?_, ?_⟩
  · rw [hl]; simp [upd]
  · rw [hl]; exact b.2
  · simp only [runBody]; split <;> rfl

/-- Running a list of tasks one after the other (each with its own fuel budget). -/
def runTasks (p : SProg) (fuel : Nat) (st : SSt) (ts : List Task) : SSt := ts.foldl (fun st t => (exec p fuel st t).1) st

/-- Is this task a `syscall` / `named_syscall` of the key? -/
def isCallOf (kind : SKind) (key : Nat) : Task → Bool
  | .call c => c.kind == kind && c.key == key
  | _ => false

/-- **System state persists across calls with the same key and is independent between keys**, for arbitrary programs
    and arbitrary other activity in between: if nothing but top-level `syscall`s (resp. `named_syscall`s) of key `key` names
    that key, then after any sequence of tasks the stored counter is the initial one plus the number of those calls. -/
theorem state_counts_calls (p : SProg) (fuel : Nat) (kind : SKind) (key : Nat) (hk : kind = .f ∨ kind = .n)
    (hp : ∀ k' key' cnt, ∀ op ∈ p.ops k' key' cnt, opId op ≠ some (cls kind, key)) :
    ∀ (ts : List Task) (st : SSt), wqOK (cls kind, key) st →
      (∀ t ∈ ts, isCallOf kind key t = true ∨ taskId t ≠ some (cls kind, key)) →
      cntOf (look (runTasks p (fuel + 1) st ts) (cls kind) key) = cntOf (look st (cls kind) key) + ts.countP (isCallOf kind key) ∧
      wqOK (cls kind, key) (runTasks p (fuel + 1) st ts) := by
  intro ts
  induction ts with
  | nil => intro st hw _; exact ⟨by simp [runTasks], hw⟩
  | cons t ts ih =>
    intro st hw hts
    simp only [runTasks, List.foldl_cons]
    rcases hts t List.mem_cons_self with hcall | hother
    · -- a call of the key
      cases t with
      | call c =>
        simp only [isCallOf, Bool.and_eq_true, beq_iff_eq] at hcall
        obtain ⟨hk1, hk2⟩ := hcall
        obtain ⟨kind', key', input⟩ := c
        simp only at hk1 hk2; subst hk1; subst hk2
        obtain ⟨r1, r2, _⟩ := call_result p fuel st ⟨kind', key', input⟩ hk hp hw
        have := ih (exec p (fuel + 1) st (.call ⟨kind', key', input⟩)).1 r2 (fun t ht => hts t (List.mem_cons_of_mem _ ht))
        refine ⟨?_, this.2⟩
        have h1 := this.1
        simp only [runTasks] at h1
        rw [h1, r1]
        simp [cntOf, List.countP_cons, isCallOf]; omega
      | apply op => cases hcall
      | flush => cases hcall
    · have hf := exec_frm p (cls kind, key) hp (fuel + 1) st t hw hother
      have := ih (exec p (fuel + 1) st t).1 hf.2 (fun t ht => hts t (List.mem_cons_of_mem _ ht))
      refine ⟨?_, this.2⟩
      have h1 := this.1
      simp only [runTasks] at h1
      rw [h1, hf.1]
      have hn : isCallOf kind key t = false := by
        cases t with
        | call c =>
          simp only [isCallOf]
          by_cases h : c.kind = kind ∧ c.key = key
          · exfalso; apply hother; simp [taskId, h.1, h.2]
          · simp only [Bool.and_eq_false_iff, beq_eq_false_iff_ne]
            by_cases h1 : c.kind = kind
            · exact Or.inr (fun h2 => h ⟨h1, h2⟩)
            · exact Or.inl h1
        | apply op => rfl
        | flush => rfl
      simp [List.countP_cons, hn]

end Cobweb.Sc
