/-
  Cobweb.Proofs.ArcExact — the other half of the reference-count invariant (C07: no leak).

  `ArcCount.lean` proves `holders ≤ arcRc` (no premature release). Here: for every framework arc the count is *at most*
  the number of handles the framework holds (for bounds large enough), so together `arcRc a = #holders of a`: when the
  last registration, pending registration command and pending despawn reaction of a reactor is gone its count is 0 — and
  the step that took it to 0 sent the reactor to the garbage collector (`GcInv` below).

  The proof is the mirror image of `ArcCount`, with one asymmetry: `dropHandle` saturates at 0, so dropping is exact only
  when the count is positive — which is what `ArcInv.le` (the already proved half) guarantees for a handle that is held.
  The lemmas therefore carry `LeX x s`: "`holders + x ≤ arcRc`", `x` being the handles a step holds in its hand.
-/
import Cobweb.Proofs.ArcCount

namespace Cobweb

/-- `holders + x ≤ arcRc` for every framework arc: `x` counts handles that were taken out of the state and are about to
    be dropped or stored by the current step. -/
def LeX (x : Nat → Nat) (s : St) : Prop := ∀ B N a, a ∉ s.sigs → holders B N a s + x a ≤ s.arcRc a

theorem LeX.of_inv {s : St} (h : ArcInv s) : LeX (fun _ => 0) s := fun B N a ha => by have := h.le B N a ha; omega

theorem LeX.mono {x x' : Nat → Nat} {s : St} (h : LeX x s) (hx : ∀ a, x' a ≤ x a) : LeX x' s :=
  fun B N a ha => by have := h B N a ha; have := hx a; omega

/-- Carrying `LeX` over a step of the proved half. -/
theorem LeX.step {x x' c t : Nat → Nat} {s s' : St} (h : LeX x s) (st : ArcStep c t s s') (hx : ∀ a, t a + x' a ≤ c a + x a) :
    LeX x' s' := by
  intro B N a ha
  have ha0 : a ∉ s.sigs := fun h1 => ha (st.keep a h1)
  obtain ⟨B', N', _, _, hb⟩ := st.bal B N a ha0
  have := h B' N' a ha0
  have := hx a
  omega

theorem LeX.eq {x : Nat → Nat} {s s' : St} (h : LeX x s) (e : ArcEq s s') : LeX x s' := by
  intro B N a ha
  rw [holders_holdSame e.hold, e.rc]
  exact h B N a (by rw [← e.sigs]; exact ha)

/-- The mirrored balance: what the state held before, plus what the step spent, is covered by what it holds afterwards,
    the change of the count, and what it handed out. -/
def StepG (c t : Nat → Nat) (s s' : St) : Prop :=
  ∀ B N a, a ∉ s'.sigs → ∃ B' N', B ≤ B' ∧ N ≤ N' ∧ holders B N a s + t a + s'.arcRc a ≤ holders B' N' a s' + s.arcRc a + c a

structure GStep (c t : Nat → Nat) (s s' : St) : Prop where
  bal : StepG c t s s'
  keep : ∀ a, a ∈ s.sigs → a ∈ s'.sigs

/-- **The other half of the invariant**: every framework arc's count is covered by handles the framework holds. -/
def GeInv (s : St) : Prop := ∀ a, a ∉ s.sigs → ∃ B N, s.arcRc a ≤ holders B N a s

theorem ge_of_step {s s' : St} {c t : Nat → Nat} (h : GeInv s) (st : GStep c t s s') (hct : ∀ a, c a ≤ t a) : GeInv s' := by
  intro a ha
  have ha0 : a ∉ s.sigs := fun h1 => ha (st.keep a h1)
  obtain ⟨B, N, hb⟩ := h a ha0
  obtain ⟨B', N', _, _, h2⟩ := st.bal B N a ha
  exact ⟨B', N', by have := hct a; omega⟩

theorem gstep_of_same {s s' : St} {c t : Nat → Nat} (h : ArcSame s s') (hq : ∀ a, queueH a s + t a ≤ queueH a s' + c a) :
    GStep c t s s' := by
  refine ⟨?_, fun a ha => by rw [h.sigs]; exact ha⟩
  intro B N a _
  refine ⟨B, N, Nat.le_refl _, Nat.le_refl _, ?_⟩
  have := holders_same h B N a
  have := hq a
  rw [h.rc]; omega

theorem GStep.trans {a b c : St} {c1 t1 c2 t2 : Nat → Nat} (h1 : GStep c1 t1 a b) (h2 : GStep c2 t2 b c)
    (hsig : ∀ x, x ∈ b.sigs → x ∈ a.sigs) : GStep (fun x => c1 x + c2 x) (fun x => t1 x + t2 x) a c := by
  refine ⟨?_, fun x hx => h2.keep x (h1.keep x hx)⟩
  intro B N x hx
  have hb : x ∉ b.sigs := fun h' => hx (h2.keep x h')
  obtain ⟨B1, N1, hB1, hN1, e1⟩ := h1.bal B N x hb
  obtain ⟨B2, N2, hB2, hN2, e2⟩ := h2.bal B1 N1 x hx
  exact ⟨B2, N2, Nat.le_trans hB1 hB2, Nat.le_trans hN1 hN2, by dsimp only; omega⟩

theorem GStep.mono {s s' : St} {c t c' t' : Nat → Nat} (h : GStep c t s s') (hc : ∀ a, c a ≤ c' a) (ht : ∀ a, t' a ≤ t a) :
    GStep c' t' s s' := by
  refine ⟨?_, h.keep⟩
  intro B N a ha
  obtain ⟨B', N', h1, h2, h3⟩ := h.bal B N a ha
  exact ⟨B', N', h1, h2, by have := hc a; have := ht a; omega⟩

theorem GStep.refl (s : St) : GStep (fun _ => 0) (fun _ => 0) s s :=
  gstep_of_same (ArcSame.refl s) (fun _ => Nat.le_refl _)

theorem GStep.right {s s1 s2 : St} {c t : Nat → Nat} (h : GStep c t s s1) (e : ArcEq s1 s2) : GStep c t s s2 := by
  refine ⟨?_, fun a ha => by rw [e.sigs]; exact h.keep a ha⟩
  intro B N a ha
  obtain ⟨B', N', h1, h2, h3⟩ := h.bal B N a (by rw [← e.sigs]; exact ha)
  exact ⟨B', N', h1, h2, by rw [holders_holdSame e.hold, e.rc]; exact h3⟩

theorem GStep.left {s s1 s2 : St} {c t : Nat → Nat} (e : ArcEq s s1) (h : GStep c t s1 s2) : GStep c t s s2 := by
  refine ⟨?_, fun a ha => h.keep a (by rw [e.sigs]; exact ha)⟩
  intro B N a ha
  obtain ⟨B', N', h1, h2, h3⟩ := h.bal B N a ha
  exact ⟨B', N', h1, h2, by rw [holders_holdSame e.hold, e.rc] at h3; exact h3⟩

theorem GStep.cancel {s s' : St} {c t : Nat → Nat} (h : GStep c t s s') (k : Nat → Nat) (hk : ∀ a, k a ≤ c a ∧ k a ≤ t a) :
    GStep (fun a => c a - k a) (fun a => t a - k a) s s' := by
  refine ⟨?_, h.keep⟩
  intro B N a ha
  obtain ⟨B', N', h1, h2, h3⟩ := h.bal B N a ha
  exact ⟨B', N', h1, h2, by have := hk a; dsimp only; omega⟩

theorem GStep.zero {s s' : St} {c t : Nat → Nat} (h : GStep c t s s') (hct : ∀ a, c a ≤ t a) :
    GStep (fun _ => 0) (fun _ => 0) s s' := by
  refine ⟨?_, h.keep⟩
  intro B N a ha
  obtain ⟨B', N', h1, h2, h3⟩ := h.bal B N a ha
  exact ⟨B', N', h1, h2, by have := hct a; omega⟩

/-- Dropping a handle whose arc still has a positive count is exact. -/
theorem gx_dropHandle (s : St) (h : Handle) (hpos : ∀ a, a ∉ s.sigs → hOne a h ≤ s.arcRc a) :
    GStep (fun _ => 0) (fun a => hOne a h) s (dropHandle s h) := by
  have hs : HoldSame s (dropHandle s h) := ⟨by simp, by simp, by simp, by simp, by simp, by simp⟩
  refine ⟨?_, fun a ha => by simpa using ha⟩
  intro B N a ha
  refine ⟨B, N, Nat.le_refl _, Nat.le_refl _, ?_⟩
  rw [holders_holdSame hs, dropHandle_arcRc]
  have := hpos a (by simpa using ha)
  dsimp only [hOne] at *
  split <;> simp_all <;> omega

theorem gx_dropHandles (hs : List Handle) : ∀ (s : St), (∀ a, a ∉ s.sigs → hcount a hs ≤ s.arcRc a) →
    GStep (fun _ => 0) (fun a => hcount a hs) s (dropHandles s hs) := by
  induction hs with
  | nil => intro s _; exact GStep.refl s
  | cons h hs ih =>
    intro s hpos
    have hp1 : ∀ a, a ∉ s.sigs → hOne a h ≤ s.arcRc a := by
      intro a ha; have := hpos a ha; rw [hcount_cons] at this; simp only [hOne]; omega
    have h1 := gx_dropHandle s h hp1
    have hp2 : ∀ a, a ∉ (dropHandle s h).sigs → hcount a hs ≤ (dropHandle s h).arcRc a := by
      intro a ha
      have ha0 : a ∉ s.sigs := by simpa using ha
      have := hpos a ha0
      rw [hcount_cons] at this
      rw [dropHandle_arcRc]
      split <;> simp_all <;> omega
    have h2 := ih (dropHandle s h) hp2
    have := GStep.trans h1 h2 (fun x hx => by simpa using hx)
    refine this.mono (fun a => by simp) (fun a => ?_)
    show hcount a (h :: hs) ≤ hOne a h + hcount a hs
    rw [hcount_cons]; simp [hOne]; omega

/-- Dropping an optional handle. -/
def dropOptS (s : St) : Option Handle → St
  | some h => dropHandle s h
  | none => s

theorem gx_dropOpt (s : St) (o : Option Handle) (hpos : ∀ a, a ∉ s.sigs → optOne a o ≤ s.arcRc a) :
    GStep (fun _ => 0) (fun a => optOne a o) s (dropOptS s o) := by
  cases o with
  | none => exact (GStep.refl s).mono (fun _ => Nat.le_refl _) (fun _ => Nat.le_refl _)
  | some h => exact gx_dropHandle s h hpos

/-- Wrapper: a step that keeps counts and user signals, given the relation between the holders. -/
theorem gx_of_holders {s s' : St} {c t : Nat → Nat} (hrc : s'.arcRc = s.arcRc) (hsigs : s'.sigs = s.sigs)
    (hh : ∀ B N a, ∃ B' N', B ≤ B' ∧ N ≤ N' ∧ holders B N a s + t a ≤ holders B' N' a s' + c a) : GStep c t s s' := by
  refine ⟨?_, fun a ha => by rw [hsigs]; exact ha⟩
  intro B N a _
  obtain ⟨B', N', h1, h2, h3⟩ := hh B N a
  exact ⟨B', N', h1, h2, by rw [hrc]; omega⟩

theorem gx_setEnt (s : St) (e : Nat) (v : Option (List (RType × Handle))) :
    GStep (fun a => hcount a (entHandles s e)) (fun a => hcount a (optHandles v))
      s ({ s with entReactors := upd s.entReactors e v } : St) := by
  refine gx_of_holders rfl rfl (fun B N a => ⟨B, max N (e + 1), Nat.le_refl _, Nat.le_max_left _ _, ?_⟩)
  have hlt : e < max N (e + 1) := by omega
  have hmono := holders_mono a s (Nat.le_refl B) (Nat.le_max_left N (e + 1))
  have hupd := sumTo_update (n := max N (e + 1)) (fun x => hcount a (entHandles s x))
    (fun x => hcount a (entHandles ({ s with entReactors := upd s.entReactors e v } : St) x)) e hlt
    (fun j hj => by simp [entHandles, upd, hj])
  have hnew : hcount a (entHandles ({ s with entReactors := upd s.entReactors e v } : St) e) = hcount a (optHandles v) := by
    simp [entHandles, upd]
  have e1 : holders B (max N (e + 1)) a ({ s with entReactors := upd s.entReactors e v } : St) =
      sumTo B (tblAt a s) + sumTo (max N (e + 1)) (fun x => hcount a (s.tblDsp x)) +
      sumTo (max N (e + 1)) (fun x => hcount a (entHandles ({ s with entReactors := upd s.entReactors e v } : St) x)) +
      cmdsH a s.wq + stackH a s.stack + trkH a s := rfl
  have e2 : holders B (max N (e + 1)) a s =
      sumTo B (tblAt a s) + sumTo (max N (e + 1)) (fun x => hcount a (s.tblDsp x)) +
      sumTo (max N (e + 1)) (fun x => hcount a (entHandles s x)) + cmdsH a s.wq + stackH a s.stack + trkH a s := rfl
  rw [e2] at hmono
  rw [e1]
  rw [hnew] at hupd
  omega

theorem gx_setDsp {s s' : St} (e : Nat) (l : List Handle) (hd : s'.tblDsp = upd s.tblDsp e l) (htbl : s'.tbl = s.tbl)
    (hent : s'.entReactors = s.entReactors) (htrk : s'.trkDsp = s.trkDsp) (hwq : s'.wq = s.wq) (hst : s'.stack = s.stack)
    (hrc : s'.arcRc = s.arcRc) (hsigs : s'.sigs = s.sigs) :
    GStep (fun a => hcount a (s.tblDsp e)) (fun a => hcount a l) s s' := by
  refine gx_of_holders hrc hsigs (fun B N a => ⟨B, max N (e + 1), Nat.le_refl _, Nat.le_max_left _ _, ?_⟩)
  have hlt : e < max N (e + 1) := by omega
  have hmono := holders_mono a s (Nat.le_refl B) (Nat.le_max_left N (e + 1))
  have hupd := sumTo_update (n := max N (e + 1)) (fun x => hcount a (s.tblDsp x)) (fun x => hcount a (s'.tblDsp x)) e hlt
    (fun j hj => by simp [hd, upd, hj])
  have hnew : hcount a (s'.tblDsp e) = hcount a l := by simp [hd, upd]
  have e1 : tblAt a s' = tblAt a s := by funext ty; simp [tblAt, htbl]
  have e3 : (fun x => hcount a (entHandles s' x)) = (fun x => hcount a (entHandles s x)) := by funext x; simp [entHandles, hent]
  have e4 : trkH a s' = trkH a s := by simp [trkH, htrk]
  simp only [holders, e1, e3, e4, hwq, hst] at hmono ⊢
  rw [hnew] at hupd
  omega

theorem gx_setTbl {s s' : St} (t : Tbl) (ty : Nat) (l : List Handle) (htbl : s'.tbl = (setTbl s t ty l).tbl)
    (hd : s'.tblDsp = s.tblDsp) (hent : s'.entReactors = s.entReactors) (htrk : s'.trkDsp = s.trkDsp) (hwq : s'.wq = s.wq)
    (hst : s'.stack = s.stack) (hrc : s'.arcRc = s.arcRc) (hsigs : s'.sigs = s.sigs) :
    GStep (fun a => hcount a (s.tbl t ty)) (fun a => hcount a l) s s' := by
  refine gx_of_holders hrc hsigs (fun B N a => ⟨max B (ty + 1), N, Nat.le_max_left _ _, Nat.le_refl _, ?_⟩)
  have hlt : ty < max B (ty + 1) := by omega
  have hmono := holders_mono a s (Nat.le_max_left B (ty + 1)) (Nat.le_refl N)
  obtain ⟨hother, hat⟩ := tblAt_set a s s' t ty l htbl
  have hupd := sumTo_update (n := max B (ty + 1)) (tblAt a s) (tblAt a s') ty hlt hother
  have e2 : (fun x => hcount a (s'.tblDsp x)) = (fun x => hcount a (s.tblDsp x)) := by funext x; rw [hd]
  have e3 : (fun x => hcount a (entHandles s' x)) = (fun x => hcount a (entHandles s x)) := by funext x; simp [entHandles, hent]
  have e4 : trkH a s' = trkH a s := by simp [trkH, htrk]
  simp only [holders, e2, e3, e4, hwq, hst] at hmono ⊢
  omega

theorem gx_setTrk {s s' : St} (htbl : s'.tbl = s.tbl) (hd : s'.tblDsp = s.tblDsp) (hent : s'.entReactors = s.entReactors)
    (hwq : s'.wq = s.wq) (hst : s'.stack = s.stack) (hrc : s'.arcRc = s.arcRc)
    (hsigs : s'.sigs = s.sigs) : GStep (fun a => trkH a s) (fun a => trkH a s') s s' := by
  refine gx_of_holders hrc hsigs (fun B N a => ⟨B, N, Nat.le_refl _, Nat.le_refl _, ?_⟩)
  have e1 : tblAt a s' = tblAt a s := by funext ty; simp [tblAt, htbl]
  have e2 : (fun x => hcount a (s'.tblDsp x)) = (fun x => hcount a (s.tblDsp x)) := by funext x; rw [hd]
  have e3 : (fun x => hcount a (entHandles s' x)) = (fun x => hcount a (entHandles s x)) := by funext x; simp [entHandles, hent]
  simp only [holders, e1, e2, e3, hwq, hst]
  omega

end Cobweb

namespace Cobweb

/-- What `LeX` says about one stored list. -/
theorem LeX.ent {x : Nat → Nat} {s : St} (h : LeX x s) (e a : Nat) (ha : a ∉ s.sigs) : hcount a (entHandles s e) + x a ≤ s.arcRc a := by
  have := h 0 (e + 1) a ha; have := holders_ge_ent a s e 0; omega

theorem LeX.dsp {x : Nat → Nat} {s : St} (h : LeX x s) (e a : Nat) (ha : a ∉ s.sigs) : hcount a (s.tblDsp e) + x a ≤ s.arcRc a := by
  have := h 0 (e + 1) a ha; have := holders_ge_dsp a s e 0; omega

theorem LeX.tbl {x : Nat → Nat} {s : St} (h : LeX x s) (t : Tbl) (ty a : Nat) (ha : a ∉ s.sigs) : hcount a (s.tbl t ty) + x a ≤ s.arcRc a := by
  have := h (ty + 1) 0 a ha; have := holders_ge_tbl a s t ty 0; omega

theorem LeX.trk {x : Nat → Nat} {s : St} (h : LeX x s) (a : Nat) (ha : a ∉ s.sigs) : trkH a s + x a ≤ s.arcRc a := by
  have := h 0 0 a ha
  simp only [holders] at this; omega

theorem gx_killReactors (s : St) (e : Nat) (hx : LeX (fun _ => 0) s) : GStep (fun _ => 0) (fun _ => 0) s (killReactors s e) := by
  unfold killReactors
  cases hl : s.entReactors e with
  | none => exact GStep.refl s
  | some l =>
    dsimp only
    have h1 := gx_setEnt s e none
    have hpos : ∀ a, a ∉ ({ s with entReactors := upd s.entReactors e none } : St).sigs →
        hcount a (l.map (·.2)) ≤ ({ s with entReactors := upd s.entReactors e none } : St).arcRc a := by
      intro a ha
      have := hx.ent e a ha
      simp only [entHandles, hl, optHandles] at this
      exact Nat.le_trans (Nat.le_add_right _ _) this
    have h2 := gx_dropHandles (l.map (·.2)) ({ s with entReactors := upd s.entReactors e none } : St) hpos
    refine (GStep.trans h1 h2 (fun x hx => hx)).zero (fun a => ?_)
    simp [entHandles, hl, optHandles]

theorem gx_kill (s : St) (e : Nat) (hx : LeX (fun _ => 0) s) : GStep (fun _ => 0) (fun _ => 0) s (kill s e) := by
  have e1 : ArcEq s (killStorage (killCanary s e) e) := ⟨⟨by simp, by simp, by simp, by simp, by simp, by simp⟩, by simp, by simp, by simp⟩
  have h := gx_killReactors (killStorage (killCanary s e) e) e (hx.eq e1)
  refine (GStep.left e1 h).right ?_
  unfold kill
  exact ⟨⟨by simp, by simp, by simp, by simp, by simp, by simp⟩, by simp, by simp, by simp⟩

theorem gx_despawn1 (s : St) (e : Nat) (hx : LeX (fun _ => 0) s) : GStep (fun _ => 0) (fun _ => 0) s (despawn1 s e) := by
  unfold despawn1; split
  · exact gx_kill s e hx
  · exact GStep.refl s

theorem gx_tryCleanupData (s : St) (d : Nat) (hx : LeX (fun _ => 0) s) : GStep (fun _ => 0) (fun _ => 0) s (tryCleanupData s d) := by
  unfold tryCleanupData
  split
  · split
    · split
      · exact GStep.refl s
      · rename_i x _ _
        dsimp only
        have e0 : ArcEq s ({ s with data := upd s.data d (some { x with cnt := x.cnt - 1 }) } : St) :=
          ⟨⟨rfl, rfl, rfl, rfl, rfl, rfl⟩, rfl, rfl, rfl⟩
        split
        · exact GStep.left e0 (gx_kill _ d (hx.eq e0))
        · exact (GStep.refl s).right e0
    · exact GStep.refl s
  · exact GStep.refl s

theorem optOne_start_le (t : TrkDsp) (sys src : Nat) (hd : Handle) (a : Nat) :
    optOne a (t.start sys src hd).2 ≤ hcount a (t.prepared.map (·.2.2)) + optOne a t.curHandle := by
  have := TrkDsp.start_handles t sys src hd a; omega

theorem gx_setupK (s : St) (k : Kind) (sys : Nat) (hx : LeX (fun _ => 0) s) : GStep (fun _ => 0) (fun _ => 0) s (setupK s k sys) := by
  cases k <;> simp only [setupK]
  · exact GStep.refl s
  · exact (GStep.refl s).right ⟨⟨rfl, rfl, rfl, rfl, rfl, rfl⟩, rfl, rfl, rfl⟩
  · exact (GStep.refl s).right ⟨⟨rfl, rfl, rfl, rfl, rfl, rfl⟩, rfl, rfl, rfl⟩
  · rename_i src hd
    have h1 : GStep (fun a => trkH a s) (fun a => trkH a ({ s with trkDsp := (s.trkDsp.start sys src hd).1 } : St)) s
        ({ s with trkDsp := (s.trkDsp.start sys src hd).1 } : St) := gx_setTrk rfl rfl rfl rfl rfl rfl rfl
    have hpos : ∀ a, a ∉ ({ s with trkDsp := (s.trkDsp.start sys src hd).1 } : St).sigs →
        optOne a (s.trkDsp.start sys src hd).2 ≤ ({ s with trkDsp := (s.trkDsp.start sys src hd).1 } : St).arcRc a := by
      intro a ha
      have h1 := hx.trk a ha
      have h2 := optOne_start_le s.trkDsp sys src hd a
      rw [trkH_eq] at h1
      show _ ≤ s.arcRc a
      omega
    have h2 := gx_dropOpt ({ s with trkDsp := (s.trkDsp.start sys src hd).1 } : St) (s.trkDsp.start sys src hd).2 hpos
    refine (GStep.trans h1 h2 (fun x hx => hx)).zero (fun a => ?_)
    have := TrkDsp.start_handles s.trkDsp sys src hd a
    simp only [trkH_eq]
    omega
  · exact (GStep.refl s).right ⟨⟨rfl, rfl, rfl, rfl, rfl, rfl⟩, rfl, rfl, rfl⟩
  · exact (GStep.refl s).right ⟨⟨rfl, rfl, rfl, rfl, rfl, rfl⟩, rfl, rfl, rfl⟩

theorem gx_cleanupK (s : St) (k : Kind) (hx : LeX (fun _ => 0) s) : GStep (fun _ => 0) (fun _ => 0) s (cleanupK s k) := by
  cases k <;> simp only [cleanupK]
  · exact GStep.refl s
  · have e1 : ArcEq s ({ s with trkSys := { s.trkSys with reacting := false } } : St) := ⟨⟨rfl, rfl, rfl, rfl, rfl, rfl⟩, rfl, rfl, rfl⟩
    exact GStep.left e1 (gx_despawn1 _ _ (hx.eq e1))
  · exact (GStep.refl s).right ⟨⟨rfl, rfl, rfl, rfl, rfl, rfl⟩, rfl, rfl, rfl⟩
  · have h1 : GStep (fun a => trkH a s)
        (fun a => trkH a ({ s with trkDsp := { s.trkDsp with reacting := false, curHandle := none } } : St)) s
        ({ s with trkDsp := { s.trkDsp with reacting := false, curHandle := none } } : St) :=
      gx_setTrk rfl rfl rfl rfl rfl rfl rfl
    have hpos : ∀ a, a ∉ ({ s with trkDsp := { s.trkDsp with reacting := false, curHandle := none } } : St).sigs →
        optOne a s.trkDsp.curHandle ≤ ({ s with trkDsp := { s.trkDsp with reacting := false, curHandle := none } } : St).arcRc a := by
      intro a ha
      have h1 := hx.trk a ha
      rw [trkH_eq] at h1
      show _ ≤ s.arcRc a
      omega
    have h2 := gx_dropOpt ({ s with trkDsp := { s.trkDsp with reacting := false, curHandle := none } } : St) s.trkDsp.curHandle hpos
    refine (GStep.trans h1 h2 (fun x hx => hx)).zero (fun a => ?_)
    simp only [trkH_eq, optOne]
    omega
  · have e1 : ArcEq s ({ s with trkEnt := { s.trkEnt with reacting := false }, trkEvt := { s.trkEvt with reacting := false } } : St) :=
      ⟨⟨rfl, rfl, rfl, rfl, rfl, rfl⟩, rfl, rfl, rfl⟩
    exact GStep.left e1 (gx_tryCleanupData _ _ (hx.eq e1))
  · have e1 : ArcEq s ({ s with trkEvt := { s.trkEvt with reacting := false } } : St) := ⟨⟨rfl, rfl, rfl, rfl, rfl, rfl⟩, rfl, rfl, rfl⟩
    exact GStep.left e1 (gx_tryCleanupData _ _ (hx.eq e1))

theorem gx_revokeOne (s : St) (sys : Nat) (t : Trig) (hx : LeX (fun _ => 0) s) : GStep (fun _ => 0) (fun _ => 0) s (revokeOne s sys t) := by
  unfold revokeOne
  split
  · rename_i e
    dsimp only
    have h1 : GStep (fun a => hcount a (s.tblDsp e)) (fun a => hcount a (removeFirst (fun h => h.sys == sys) (s.tblDsp e)).2) s
        ({ s with tblDsp := upd s.tblDsp e (removeFirst (fun h => h.sys == sys) (s.tblDsp e)).2 } : St) :=
      gx_setDsp e _ rfl rfl rfl rfl rfl rfl rfl rfl
    have hpos : ∀ a, a ∉ ({ s with tblDsp := upd s.tblDsp e (removeFirst (fun h => h.sys == sys) (s.tblDsp e)).2 } : St).sigs →
        optOne a (removeFirst (fun h => h.sys == sys) (s.tblDsp e)).1 ≤
          ({ s with tblDsp := upd s.tblDsp e (removeFirst (fun h => h.sys == sys) (s.tblDsp e)).2 } : St).arcRc a := by
      intro a ha
      have h1 := hx.dsp e a ha
      have h2 := removeFirst_hcount a (fun h => h.sys == sys) (s.tblDsp e)
      show _ ≤ s.arcRc a
      omega
    have h2 := gx_dropOpt ({ s with tblDsp := upd s.tblDsp e (removeFirst (fun h => h.sys == sys) (s.tblDsp e)).2 } : St)
      (removeFirst (fun h => h.sys == sys) (s.tblDsp e)).1 hpos
    refine (GStep.trans h1 h2 (fun x hx => hx)).zero (fun a => ?_)
    have := removeFirst_hcount a (fun h => h.sys == sys) (s.tblDsp e)
    omega
  · split
    · rename_i rt e _
      split
      · rename_i l hl
        have h1 := gx_setEnt s e (some (l.filter (fun p => !(p.1 == rt && p.2.sys == sys))))
        have hpos : ∀ a, a ∉ ({ s with entReactors := upd s.entReactors e (some (l.filter (fun p => !(p.1 == rt && p.2.sys == sys)))) } : St).sigs →
            hcount a ((l.filter (fun p => p.1 == rt && p.2.sys == sys)).map (·.2)) ≤
              ({ s with entReactors := upd s.entReactors e (some (l.filter (fun p => !(p.1 == rt && p.2.sys == sys)))) } : St).arcRc a := by
          intro a ha
          have h1 := hx.ent e a ha
          have h2 := filter_hcount a (fun p => p.1 == rt && p.2.sys == sys) l
          simp only [entHandles, hl, optHandles] at h1
          show _ ≤ s.arcRc a
          omega
        have h2 := gx_dropHandles ((l.filter (fun p => p.1 == rt && p.2.sys == sys)).map (·.2))
          ({ s with entReactors := upd s.entReactors e (some (l.filter (fun p => !(p.1 == rt && p.2.sys == sys)))) } : St) hpos
        refine (GStep.trans h1 h2 (fun x hx => hx)).zero (fun a => ?_)
        have := filter_hcount a (fun p => p.1 == rt && p.2.sys == sys) l
        simp only [entHandles, hl, optHandles]
        omega
      · exact GStep.refl s
    · split
      · rename_i tb ty _
        dsimp only
        have h1 : GStep (fun a => hcount a (s.tbl tb ty)) (fun a => hcount a (removeFirst (fun h => h.sys == sys) (s.tbl tb ty)).2) s
            (setTbl s tb ty (removeFirst (fun h => h.sys == sys) (s.tbl tb ty)).2) :=
          gx_setTbl tb ty _ rfl rfl rfl rfl rfl rfl rfl rfl
        have hpos : ∀ a, a ∉ (setTbl s tb ty (removeFirst (fun h => h.sys == sys) (s.tbl tb ty)).2).sigs →
            optOne a (removeFirst (fun h => h.sys == sys) (s.tbl tb ty)).1 ≤
              (setTbl s tb ty (removeFirst (fun h => h.sys == sys) (s.tbl tb ty)).2).arcRc a := by
          intro a ha
          have h1 := hx.tbl tb ty a ha
          have h2 := removeFirst_hcount a (fun h => h.sys == sys) (s.tbl tb ty)
          show _ ≤ s.arcRc a
          omega
        have h2 := gx_dropOpt (setTbl s tb ty (removeFirst (fun h => h.sys == sys) (s.tbl tb ty)).2)
          (removeFirst (fun h => h.sys == sys) (s.tbl tb ty)).1 hpos
        refine (GStep.trans h1 h2 (fun x hx => hx)).zero (fun a => ?_)
        have := removeFirst_hcount a (fun h => h.sys == sys) (s.tbl tb ty)
        omega
      · exact GStep.refl s

theorem gx_revokeAll (sys : Nat) : ∀ (ts : List Trig) (s : St), LeX (fun _ => 0) s →
    GStep (fun _ => 0) (fun _ => 0) s (revokeAll s sys ts) := by
  intro ts
  induction ts with
  | nil => intro s _; exact GStep.refl s
  | cons t ts ih =>
    intro s hx
    simp only [revokeAll, List.foldl_cons]
    have hx1 : LeX (fun _ => 0) (revokeOne s sys t) := hx.step (arc_revokeOne s sys t) (fun _ => Nat.le_refl _)
    have := ih (revokeOne s sys t) hx1
    simp only [revokeAll] at this
    exact (GStep.trans (gx_revokeOne s sys t hx) this (fun x hx => by simpa using hx)).zero (fun _ => Nat.le_refl _)

end Cobweb

namespace Cobweb

theorem gx_push_plain {s s' : St} (h : ArcSame s s') (hwq : s'.wq = s.wq) (fs : List Frame) (hst : s'.stack = fs ++ s.stack)
    (hfs : ∀ a, stackH a fs = 0) : GStep (fun _ => 0) (fun _ => 0) s s' :=
  gstep_of_same h (fun a => by simp only [queueH, hwq, hst, stackH_append, hfs a]; omega)

/-- `register_reactors`, exact: the new arc's count is exactly the number of sub-commands that carry a clone. -/
theorem gx_register (s : St) (trigs : List Trig) (sys : Nat) (mode : Mode) (hf : s.arcRc s.nextArc = 0) :
    GStep (fun _ => 0) (fun _ => 0) s (applyCmd s (.register trigs sys mode)) := by
  have core : ∀ (s1 : St) (h : Handle) (s3 : St), HoldSame s s1 → HoldSame (regAll s1 h trigs).1 s3 →
      ∀ a B N, holders B N a (s3.push [.flush, .batch (regAll s1 h trigs).2]) = holders B N a s + cmdsH a (regAll s1 h trigs).2 := by
    intro s1 h s3 hs hs3 a B N
    have hs2 : HoldSame s1 (regAll s1 h trigs).1 := ⟨by simp, by simp, by simp, by simp, by simp, by simp⟩
    have e1 : tblAt a (s3.push [.flush, .batch (regAll s1 h trigs).2]) = tblAt a s := by
      funext ty; simp [tblAt, St.push, hs3.tbl, hs2.tbl, hs.tbl]
    have e2 : (fun x => hcount a ((s3.push [.flush, .batch (regAll s1 h trigs).2]).tblDsp x)) = (fun x => hcount a (s.tblDsp x)) := by
      funext x; simp [St.push, hs3.dsp, hs2.dsp, hs.dsp]
    have e3 : (fun x => hcount a (entHandles (s3.push [.flush, .batch (regAll s1 h trigs).2]) x)) = (fun x => hcount a (entHandles s x)) := by
      funext x; simp [entHandles, St.push, hs3.ent, hs2.ent, hs.ent]
    have e4 : trkH a (s3.push [.flush, .batch (regAll s1 h trigs).2]) = trkH a s := by
      simp [trkH, St.push, hs3.trk, hs2.trk, hs.trk]
    simp only [holders, e1, e2, e3, e4]
    simp [St.push, hs3.wq, hs2.wq, hs.wq, hs3.stack, hs2.stack, hs.stack, frameH]
    omega
  have arcful : GStep (fun _ => 0) (fun _ => 0) s
      ((dropHandle (regAll (newArc s sys).2 ⟨sys, some (newArc s sys).1⟩ trigs).1 ⟨sys, some (newArc s sys).1⟩).push
        [.flush, .batch (regAll (newArc s sys).2 ⟨sys, some (newArc s sys).1⟩ trigs).2]) := by
    have hrc : ∀ a, ((dropHandle (regAll (newArc s sys).2 ⟨sys, some (newArc s sys).1⟩ trigs).1 ⟨sys, some (newArc s sys).1⟩).push
        [.flush, .batch (regAll (newArc s sys).2 ⟨sys, some (newArc s sys).1⟩ trigs).2]).arcRc a =
        (if a = s.nextArc then 1 else s.arcRc a) + cmdsH a (regAll (newArc s sys).2 ⟨sys, some (newArc s sys).1⟩ trigs).2 -
          (if a = s.nextArc then 1 else 0) := by
      intro a
      show (dropHandle _ _).arcRc a = _
      rw [dropHandle_arcRc, regAll_arcRc]
      simp only [newArc, upd]
      by_cases ha : a = s.nextArc
      · subst ha; simp
      · have : ¬ s.nextArc = a := fun h' => ha h'.symm
        simp [ha, this]
    refine ⟨?_, fun a ha => by simpa [St.push, newArc] using ha⟩
    intro B N a _
    refine ⟨B, N, Nat.le_refl _, Nat.le_refl _, ?_⟩
    rw [core (newArc s sys).2 ⟨sys, some (newArc s sys).1⟩ _ ⟨rfl, rfl, rfl, rfl, rfl, rfl⟩
      ⟨by simp, by simp, by simp, by simp, by simp, by simp⟩ a B N, hrc a]
    by_cases ha : a = s.nextArc
    · subst ha; simp [hf]
    · have h0 := regAll_cmdsH_other (newArc s sys).2 ⟨sys, some (newArc s sys).1⟩ trigs a (by simp [newArc]; exact fun h' => ha h'.symm)
      simp [ha, h0]
  cases mode with
  | persistent =>
    simp only [applyCmd]
    refine ⟨?_, fun a ha => by simpa [St.push] using ha⟩
    intro B N a _
    refine ⟨B, N, Nat.le_refl _, Nat.le_refl _, ?_⟩
    rw [core s ⟨sys, none⟩ _ ⟨rfl, rfl, rfl, rfl, rfl, rfl⟩ ⟨rfl, rfl, rfl, rfl, rfl, rfl⟩ a B N]
    have := regAll_arcRc s ⟨sys, none⟩ trigs a
    simp only [St.push] at this ⊢
    omega
  | cleanup => simp only [applyCmd]; exact arcful
  | revokable => simp only [applyCmd]; exact arcful

/-- Applying one popped command, exact: the handle it carried is stored or dropped. -/
theorem gx_applyCmd (s : St) (c : Cmd) (hx : LeX (fun a => cmdH a c) s) (hf : s.arcRc s.nextArc = 0) :
    GStep (fun _ => 0) (fun a => cmdH a c) s (applyCmd s c) := by
  have hx0 : LeX (fun _ => 0) s := hx.mono (fun _ => Nat.zero_le _)
  have plain : ∀ (s' : St) (fs : List Frame), (∀ a, cmdH a c = 0) → ArcSame s s' → s'.wq = s.wq → s'.stack = fs ++ s.stack → (∀ a, stackH a fs = 0) →
      GStep (fun _ => 0) (fun a => cmdH a c) s s' :=
    fun s' fs h0 h1 h2 h3 h4 => (gx_push_plain h1 h2 fs h3 h4).mono (fun _ => Nat.le_refl _) (fun a => by rw [h0 a]; exact Nat.le_refl _)
  have closed : ∀ (s' : St), (∀ a, cmdH a c = 0) → GStep (fun _ => 0) (fun _ => 0) s s' → GStep (fun _ => 0) (fun a => cmdH a c) s s' :=
    fun s' h0 h => h.mono (fun _ => Nat.le_refl _) (fun a => by rw [h0 a]; exact Nat.le_refl _)
  cases c <;> simp only [applyCmd]
  case marker m => exact plain _ [] (fun _ => rfl) (by asame) rfl rfl (fun _ => rfl)
  case run sys => exact plain _ [.runnerStart sys .plain] (fun _ => rfl) (by asame) rfl rfl (fun _ => rfl)
  case sysEvent sys d => exact plain _ [.runnerStart sys (.sysEv d)] (fun _ => rfl) (by asame) rfl rfl (fun _ => rfl)
  case reactRes sys => exact plain _ [.runnerStart sys .plain] (fun _ => rfl) (by asame) rfl rfl (fun _ => rfl)
  case reactEnt src rt sys => exact plain _ [.runnerStart sys (.entReact src rt)] (fun _ => rfl) (by asame) rfl rfl (fun _ => rfl)
  case reactDsp src sys h =>
    have h1 : GStep (fun a => trkH a s)
        (fun a => trkH a ({ s with trkDsp := { s.trkDsp with prepared := s.trkDsp.prepared ++ [(sys, src, h)] } } : St)) s
        ({ s with trkDsp := { s.trkDsp with prepared := s.trkDsp.prepared ++ [(sys, src, h)] } } : St) :=
      gx_setTrk rfl rfl rfl rfl rfl rfl rfl
    have h2 : GStep (fun _ => 0) (fun _ => 0)
        ({ s with trkDsp := { s.trkDsp with prepared := s.trkDsp.prepared ++ [(sys, src, h)] } } : St)
        (({ s with trkDsp := { s.trkDsp with prepared := s.trkDsp.prepared ++ [(sys, src, h)] } } : St).push [.runnerStart sys (.dspReact src h)]) :=
      gx_push_plain ⟨rfl, rfl, rfl, rfl, rfl, rfl, rfl⟩ rfl [.runnerStart sys (.dspReact src h)] rfl (fun _ => rfl)
    have h3 := GStep.trans h1 h2 (fun x hx => hx)
    have hk : ∀ a, trkH a ({ s with trkDsp := { s.trkDsp with prepared := s.trkDsp.prepared ++ [(sys, src, h)] } } : St) = trkH a s + hOne a h := by
      intro a; simp [trkH_eq, hcount_cons, hOne]; omega
    refine (h3.cancel (fun a => trkH a s) (fun a => ⟨by simp, by simp [hk a]⟩)).mono (fun a => by simp) (fun a => ?_)
    simp [hk a]
  case reactEv target d sys => exact plain _ [.runnerStart sys (.entEv target d)] (fun _ => rfl) (by asame) rfl rfl (fun _ => rfl)
  case reactBc d sys => exact plain _ [.runnerStart sys (.bcEv d)] (fun _ => rfl) (by asame) rfl rfl (fun _ => rfl)
  case spawnStorage sys => split <;> exact plain _ [] (fun _ => rfl) (by asame) rfl rfl (fun _ => rfl)
  case insertOnce sys => split <;> exact plain _ [] (fun _ => rfl) (by asame) rfl rfl (fun _ => rfl)
  case spawnData d x => split <;> exact plain _ [] (fun _ => rfl) (by asame) rfl rfl (fun _ => rfl)
  case broadcast ty pid =>
    split
    · exact plain _ [] (fun _ => rfl) (by asame) rfl rfl (fun _ => rfl)
    · refine plain _ [.flush, .batch _] (fun _ => rfl) (by asame) rfl rfl (fun a => ?_)
      simp [frameH, cmdH, Cmd.handles]
      exact cmdsH_map_zero a _ _ (fun _ => rfl)
  case entityEvent e ty pid =>
    split
    · exact plain _ [] (fun _ => rfl) (by asame) rfl rfl (fun _ => rfl)
    · refine plain _ [.flush, .batch _] (fun _ => rfl) (by asame) rfl rfl (fun a => ?_)
      simp [frameH, cmdH, Cmd.handles]
      exact ⟨cmdsH_map_zero a _ _ (fun _ => rfl), cmdsH_map_zero a _ _ (fun _ => rfl)⟩
  case resMut ty =>
    refine plain _ [.flush, .batch _] (fun _ => rfl) (by asame) rfl rfl (fun a => ?_)
    simp [frameH]; exact cmdsH_map_zero a _ _ (fun _ => rfl)
  case tryInsert e ty v => split <;> exact plain _ [] (fun _ => rfl) (by asame) rfl rfl (fun _ => rfl)
  case insReact e ty =>
    split
    · exact plain _ [] (fun _ => rfl) (by asame) rfl rfl (fun _ => rfl)
    · refine plain _ [.flush, .batch _] (fun _ => rfl) (by asame) rfl rfl (fun a => ?_)
      simp [frameH]; exact ⟨cmdsH_map_zero a _ _ (fun _ => rfl), cmdsH_map_zero a _ _ (fun _ => rfl)⟩
  case mutReact e ty =>
    refine plain _ [.flush, .batch _] (fun _ => rfl) (by asame) rfl rfl (fun a => ?_)
    simp [frameH]; exact ⟨cmdsH_map_zero a _ _ (fun _ => rfl), cmdsH_map_zero a _ _ (fun _ => rfl)⟩
  case register trigs sys mode => exact closed _ (fun _ => rfl) (gx_register s trigs sys mode hf)
  case regType t ty h =>
    have key : ∀ s1 : St, ArcEq s s1 → s1.tbl = s.tbl →
        GStep (fun _ => 0) (fun a => cmdH a (.regType t ty h)) s (setTbl s1 t ty (s1.tbl t ty ++ [h])) := by
      intro s1 e1 ht
      have h1 : GStep (fun a => hcount a (s1.tbl t ty)) (fun a => hcount a (s1.tbl t ty ++ [h])) s1 (setTbl s1 t ty (s1.tbl t ty ++ [h])) :=
        gx_setTbl t ty _ rfl rfl rfl rfl rfl rfl rfl rfl
      refine GStep.left e1 ((h1.cancel (fun a => hcount a (s1.tbl t ty)) (fun a => ⟨Nat.le_refl _, by simp⟩)).mono (fun a => by simp) (fun a => ?_))
      simp [hcount_cons, hOne]
    split
    · exact key _ ⟨⟨rfl, rfl, rfl, rfl, rfl, rfl⟩, rfl, rfl, rfl⟩ rfl
    · exact key _ (ArcEq.refl s) rfl
  case regEnt rt e h =>
    split
    · rename_i l hl
      have h1 := gx_setEnt s e (some (l ++ [(rt, h)]))
      refine (h1.cancel (fun a => hcount a (entHandles s e)) (fun a => ⟨Nat.le_refl _, ?_⟩)).mono (fun a => by simp) (fun a => ?_)
      · simp [entHandles, hl, optHandles]
      · simp [entHandles, hl, optHandles, hcount_cons, hOne]
    · rename_i hl
      split
      · have h1 := gx_setEnt s e (some [(rt, h)])
        refine h1.mono (fun a => by simp [entHandles, hl, optHandles]) (fun a => ?_)
        simp [optHandles, hcount_cons, hOne]
      · refine (gx_dropHandle s h (fun a ha => ?_)).mono (fun _ => Nat.le_refl _) (fun a => by simp)
        have := hx 0 0 a ha
        simp only [cmdH_regEnt] at this
        omega
  case regDsp e h =>
    split
    · have h1 : GStep (fun a => hcount a (s.tblDsp e)) (fun a => hcount a (s.tblDsp e ++ [h])) s
          ({ s with tblDsp := upd s.tblDsp e (s.tblDsp e ++ [h]), dspTracker := upd s.dspTracker e true } : St) :=
        gx_setDsp e _ rfl rfl rfl rfl rfl rfl rfl rfl
      refine (h1.cancel (fun a => hcount a (s.tblDsp e)) (fun a => ⟨Nat.le_refl _, by simp⟩)).mono (fun a => by simp) (fun a => ?_)
      simp [hcount_cons, hOne]
    · refine (gx_dropHandle s h (fun a ha => ?_)).mono (fun _ => Nat.le_refl _) (fun a => by simp)
      have := hx 0 0 a ha
      simp only [cmdH_regDsp] at this
      omega
  case trackRemovals ty => split <;> exact plain _ [] (fun _ => rfl) (by asame) rfl rfl (fun _ => rfl)
  case revoke sys trigs => exact closed _ (fun _ => rfl) (gx_revokeAll sys trigs s hx0)
  case despawn e => exact closed _ (fun _ => rfl) (gx_despawn1 s e hx0)
  case despawnRec e => exact plain _ [.despawnWork [(e, false)]] (fun _ => rfl) (by asame) rfl rfl (fun _ => rfl)
  case removeComp e ty => split <;> exact plain _ [] (fun _ => rfl) (by asame) rfl rfl (fun _ => rfl)
  case cleanup k => exact closed _ (fun _ => rfl) (gx_cleanupK s k hx0)
  case ewrInsertLocal e wr v => split <;> exact plain _ [] (fun _ => rfl) (by asame) rfl rfl (fun _ => rfl)
  case ewrCleanupData sys e wr => split <;> (try split) <;> exact plain _ [] (fun _ => rfl) (by asame) rfl rfl (fun _ => rfl)
  case ewrAdd e wr v sys =>
    split
    · refine plain _ [.flush, .batch _] (fun _ => rfl) (by asame) rfl rfl (fun a => ?_)
      simp [frameH, cmdH, Cmd.handles]
    · exact plain _ [] (fun _ => rfl) (by asame) rfl rfl (fun _ => rfl)

theorem gx_pollDspStep (acc : St × List Cmd) (e : Nat) :
    GStep (fun a => cmdsH a (pollDspStep acc e).2 - cmdsH a acc.2) (fun _ => 0) acc.1 (pollDspStep acc e).1 := by
  unfold pollDspStep
  have h1 : GStep (fun a => hcount a (acc.1.tblDsp e)) (fun a => hcount a ([] : List Handle)) acc.1
      ({ acc.1 with tblDsp := upd acc.1.tblDsp e [] } : St) := gx_setDsp e [] rfl rfl rfl rfl rfl rfl rfl rfl
  refine h1.mono (fun a => ?_) (fun a => by simp)
  simp [cmdsH_map_reactDsp]

theorem gx_pollDsp_fold (es : List Nat) (acc : St × List Cmd) :
    GStep (fun a => cmdsH a (es.foldl pollDspStep acc).2 - cmdsH a acc.2) (fun _ => 0) acc.1 (es.foldl pollDspStep acc).1 := by
  induction es generalizing acc with
  | nil => exact (GStep.refl acc.1).mono (fun a => by simp) (fun _ => Nat.le_refl _)
  | cons e es ih =>
    simp only [List.foldl_cons]
    have h1 := gx_pollDspStep acc e
    have h2 := ih (pollDspStep acc e)
    refine (GStep.trans h1 h2 (fun x hx => by simpa [pollDspStep] using hx)).mono (fun a => ?_) (fun a => by simp)
    have m1 : cmdsH a acc.2 ≤ cmdsH a (pollDspStep acc e).2 := by simp [pollDspStep]
    have m2 : ∀ (l : List Nat) (ac : St × List Cmd), cmdsH a ac.2 ≤ cmdsH a (l.foldl pollDspStep ac).2 := by
      intro l
      induction l with
      | nil => intro ac; exact Nat.le_refl _
      | cons y l ihl => intro ac; simp only [List.foldl_cons]; exact Nat.le_trans (by simp [pollDspStep]) (ihl _)
    have := m2 es (pollDspStep acc e)
    omega

theorem gx_pollDespawns (s : St) : GStep (fun a => cmdsH a (pollDespawns s).2) (fun _ => 0) s (pollDespawns s).1 := by
  unfold pollDespawns
  have h := gx_pollDsp_fold s.dspChan ({ s with dspChan := [] }, [])
  exact GStep.left (s1 := ({ s with dspChan := [] } : St)) ⟨⟨rfl, rfl, rfl, rfl, rfl, rfl⟩, rfl, rfl, rfl⟩
    (h.mono (fun a => by simp) (fun _ => Nat.le_refl _))

theorem gx_startBody (s : St) (sys : Nat) (k : Kind) (hx : LeX (fun _ => 0) s) : GStep (fun _ => 0) (fun _ => 0) s (startBody s sys k) := by
  refine (gx_setupK s k sys hx).right ⟨⟨?_, ?_, ?_, ?_, ?_, ?_⟩, ?_, ?_, ?_⟩
  · exact startBody_proj (fun t => t.tbl) (fun _ _ => rfl) (fun t w => by simp) (fun _ _ => rfl) s sys k
  · exact startBody_proj (fun t => t.tblDsp) (fun _ _ => rfl) (fun t w => by simp) (fun _ _ => rfl) s sys k
  · exact startBody_proj (fun t => t.entReactors) (fun _ _ => rfl) (fun t w => by simp) (fun _ _ => rfl) s sys k
  · exact startBody_proj (fun t => t.trkDsp) (fun _ _ => rfl) (fun t w => by simp) (fun _ _ => rfl) s sys k
  · exact startBody_proj (fun t => t.wq) (fun _ _ => rfl) (fun t w => by simp) (fun _ _ => rfl) s sys k
  · exact startBody_proj (fun t => t.stack) (fun _ _ => rfl) (fun t w => by simp) (fun _ _ => rfl) s sys k
  · exact startBody_proj (fun t => t.arcRc) (fun _ _ => rfl) (fun t w => by simp) (fun _ _ => rfl) s sys k
  · exact startBody_proj (fun t => t.nextArc) (fun _ _ => rfl) (fun t w => by simp) (fun _ _ => rfl) s sys k
  · exact startBody_proj (fun t => t.sigs) (fun _ _ => rfl) (fun t w => by simp) (fun _ _ => rfl) s sys k

end Cobweb

namespace Cobweb

theorem gx_pop {s0 : St} {f : Frame} {rest : List Frame} (hs : s0.stack = f :: rest) :
    GStep (fun a => frameH a f) (fun _ => 0) s0 ({ s0 with stack := rest } : St) :=
  gstep_of_same ⟨rfl, rfl, rfl, rfl, rfl, rfl, rfl⟩ (fun a => by simp [queueH, hs]; omega)

theorem gx_push (s : St) (fs : List Frame) : GStep (fun _ => 0) (fun a => stackH a fs) s (s.push fs) :=
  gstep_of_same ⟨rfl, rfl, rfl, rfl, rfl, rfl, rfl⟩ (fun a => by simp [queueH, St.push]; omega)

/-- **Every frame, exact.** -/
theorem gx_runFrame (p : Prog) (hh : Hist) {s0 : St} {f : Frame} {rest : List Frame} (hs : s0.stack = f :: rest)
    (hinv : ArcInv s0) : GStep (fun _ => 0) (fun _ => 0) s0 (runFrame p hh { s0 with stack := rest } f) := by
  have hf : s0.arcRc s0.nextArc = 0 := (hinv.fresh 0 0 s0.nextArc (Nat.le_refl _)).2
  -- what the popped state holds, with the frame's handles in hand
  have hxp : LeX (fun a => frameH a f) ({ s0 with stack := rest } : St) :=
    (LeX.of_inv hinv).step (arc_pop hs) (fun a => by simp)
  have hxp0 : LeX (fun _ => 0) ({ s0 with stack := rest } : St) := hxp.mono (fun _ => Nat.zero_le _)
  have quiet : ∀ s' : St, ArcSame s0 s' → (∀ a, queueH a s0 ≤ queueH a s') → GStep (fun _ => 0) (fun _ => 0) s0 s' :=
    fun s' h hq => gstep_of_same h (fun a => by have := hq a; omega)
  have via : ∀ (s' : St) (c t : Nat → Nat), GStep c t ({ s0 with stack := rest } : St) s' → (∀ a, frameH a f + c a ≤ t a) →
      GStep (fun _ => 0) (fun _ => 0) s0 s' :=
    fun s' c t h ht => (GStep.trans (gx_pop hs) h (fun x hx => hx)).zero (fun a => by have := ht a; omega)
  cases f with
  | batch cs =>
    simp only [runFrame]
    cases cs with
    | nil => exact quiet _ (by asame0) (fun a => by simp [queueH, hs, doBatch, frameH])
    | cons c cs =>
      simp only [doBatch]
      have h1 := gx_push ({ s0 with stack := rest } : St) [.flush, .batch cs]
      have hx1 : LeX (fun a => cmdH a c) (({ s0 with stack := rest } : St).push [.flush, .batch cs]) :=
        hxp.step (arc_push _ _) (fun a => by simp [frameH]; omega)
      have h2 := gx_applyCmd (({ s0 with stack := rest } : St).push [.flush, .batch cs]) c hx1 hf
      exact via _ _ _ (GStep.trans h1 h2 (fun x hx => hx)) (fun a => by simp [frameH]; omega)
  | flush =>
    simp only [runFrame, doFlush]
    split
    · exact quiet _ (by asame0) (fun a => by simp [queueH, hs, frameH])
    · exact quiet _ (by asame0) (fun a => by simp [queueH, hs, frameH, St.push])
  | bodyActs sys k i acc =>
    simp only [runFrame, doBodyActs]
    split
    · exact quiet _ (by asame0) (fun a => by simp [queueH, hs, frameH, St.push, St.emit])
    · rename_i a _
      refine quiet _ ?_ (fun x => ?_)
      · have := arcSame_enqueue ({ s0 with stack := rest } : St) a
        exact ⟨this.rc, this.tbl, this.dsp, this.ent, this.trk, this.next, this.sigs⟩
      · simp [queueH, hs, frameH, St.push, cmdsH_enqueue]
  | exclActs sys i =>
    simp only [runFrame, doExclActs]
    split
    · exact quiet _ (by asame0) (fun a => by simp [queueH, hs, frameH, St.push, St.emit])
    · exact quiet _ (by asame0) (fun a => by simp [queueH, hs, frameH, St.push])
    · rename_i a _ _
      refine quiet _ ?_ (fun x => ?_)
      · have := arcSame_enqueue ({ s0 with stack := rest } : St) a
        exact ⟨this.rc, this.tbl, this.dsp, this.ent, this.trk, this.next, this.sigs⟩
      · split <;> simp [queueH, hs, frameH, St.push, cmdsH_enqueue]
  | topActs t i =>
    simp only [runFrame, doTopActs]
    split
    · exact quiet _ (by asame0) (fun a => by simp [queueH, hs, frameH, St.push])
    · rename_i a _
      refine quiet _ ?_ (fun x => ?_)
      · have := arcSame_enqueue ({ s0 with stack := rest } : St) a
        exact ⟨this.rc, this.tbl, this.dsp, this.ent, this.trk, this.next, this.sigs⟩
      · simp [queueH, hs, frameH, St.push, cmdsH_enqueue]
  | cleanup k => exact via _ _ _ (gx_cleanupK _ k hxp0) (fun a => by simp [frameH])
  | onceTail sys =>
    simp only [runFrame, doOnceTail]
    have h1 := gx_despawn1 ({ s0 with stack := rest } : St) sys hxp0
    have h2 : GStep (fun _ => 0) (fun _ => 0) (despawn1 ({ s0 with stack := rest } : St) sys)
        (({ despawn1 ({ s0 with stack := rest } : St) sys with
            wq := (despawn1 ({ s0 with stack := rest } : St) sys).wq ++
              [Cmd.revoke sys ((((despawn1 ({ s0 with stack := rest } : St) sys).info sys).once).getD [])] } : St).push
          [.flush, .dropCallback sys]) :=
      gstep_of_same ⟨rfl, rfl, rfl, rfl, rfl, rfl, rfl⟩ (fun a => by simp [queueH, St.push, frameH, cmdH, Cmd.handles])
    exact via _ _ _ (GStep.trans h1 h2 (fun x hx => by simpa using hx)) (fun a => by simp [frameH])
  | dropCallback sys => exact quiet _ (by simp only [runFrame]; asame0) (fun a => by simp [runFrame, queueH, hs, frameH, St.emit])
  | runnerStart sys k =>
    exact quiet _ (by simp only [runFrame, doRunnerStart]; asame0) (fun a => by simp [runFrame, doRunnerStart, queueH, hs, frameH, St.push, St.emit])
  | runnerLookup sys k idx =>
    simp only [runFrame, doRunnerLookup]
    have habort : ∀ ev : Ev, GStep (fun _ => 0) (fun _ => 0) s0 ((({ s0 with stack := rest } : St).emit ev).push (abortFrames sys k)) :=
      fun ev => quiet _ (by asame0) (fun a => by simp [queueH, hs, frameH, St.push, St.emit, abortFrames])
    split
    · exact habort _
    · split
      · exact habort _
      · split
        · exact habort _
        · exact quiet _ (by asame0) (fun a => by simp [queueH, hs, frameH, St.emit])
      · have e1 : ArcEq ({ s0 with stack := rest } : St)
            ({ s0 with stack := rest, storage := upd s0.storage sys (some false), counter := s0.counter + 1 } : St) :=
          ⟨⟨rfl, rfl, rfl, rfl, rfl, rfl⟩, rfl, rfl, rfl⟩
        have hx1 : LeX (fun _ => 0) ({ s0 with stack := rest, storage := upd s0.storage sys (some false), counter := s0.counter + 1 } : St) :=
          hxp0.eq e1
        split
        · have h1 := gx_setupK ({ s0 with stack := rest, storage := upd s0.storage sys (some false), counter := s0.counter + 1 } : St) k sys hx1
          have h2 := gx_push ((setupK ({ s0 with stack := rest, storage := upd s0.storage sys (some false), counter := s0.counter + 1 } : St) k sys).emit (.enter sys))
            [.afterBody sys idx]
          have h12 := GStep.trans (h1.right (s2 := (setupK _ k sys).emit (.enter sys)) ⟨⟨rfl, rfl, rfl, rfl, rfl, rfl⟩, rfl, rfl, rfl⟩) h2
            (fun x hx => by simpa [St.emit] using hx)
          exact via _ _ _ (GStep.left e1 h12) (fun a => by simp [frameH])
        · have h1 := gx_startBody ({ s0 with stack := rest, storage := upd s0.storage sys (some false), counter := s0.counter + 1 } : St) sys k hx1
          have hsig : ∀ x, x ∈ (startBody ({ s0 with stack := rest, storage := upd s0.storage sys (some false), counter := s0.counter + 1 } : St) sys k).sigs →
              x ∈ ({ s0 with stack := rest, storage := upd s0.storage sys (some false), counter := s0.counter + 1 } : St).sigs := by
            intro x hx
            have e := startBody_proj (fun t => t.sigs) (fun _ _ => rfl) (fun t w => by simp) (fun _ _ => rfl)
              ({ s0 with stack := rest, storage := upd s0.storage sys (some false), counter := s0.counter + 1 } : St) sys k
            rw [e] at hx
            simpa using hx
          split
          · have h2 := gx_push (startBody ({ s0 with stack := rest, storage := upd s0.storage sys (some false), counter := s0.counter + 1 } : St) sys k)
              [.bodyActs sys k 0 [], .onceTail sys, .afterBody sys idx]
            exact via _ _ _ (GStep.left e1 (GStep.trans h1 h2 hsig)) (fun a => by simp [frameH])
          · split
            · have h2 : GStep (fun _ => 0) (fun _ => 0)
                  (startBody ({ s0 with stack := rest, storage := upd s0.storage sys (some false), counter := s0.counter + 1 } : St) sys k)
                  (({ startBody ({ s0 with stack := rest, storage := upd s0.storage sys (some false), counter := s0.counter + 1 } : St) sys k with
                      wq := (startBody ({ s0 with stack := rest, storage := upd s0.storage sys (some false), counter := s0.counter + 1 } : St) sys k).wq ++ [Cmd.cleanup k] } : St).push
                    [.exclActs sys 0, .afterBody sys idx]) :=
                gstep_of_same ⟨rfl, rfl, rfl, rfl, rfl, rfl, rfl⟩ (fun a => by simp [queueH, St.push, frameH, cmdH, Cmd.handles])
              exact via _ _ _ (GStep.left e1 (GStep.trans h1 h2 hsig)) (fun a => by simp [frameH])
            · have h2 := gx_push (startBody ({ s0 with stack := rest, storage := upd s0.storage sys (some false), counter := s0.counter + 1 } : St) sys k)
                [.bodyActs sys k 0 [], .afterBody sys idx]
              exact via _ _ _ (GStep.left e1 (GStep.trans h1 h2 hsig)) (fun a => by simp [frameH])
  | afterBody sys idx =>
    exact quiet _ (by simp only [runFrame, doAfterBody]; asame0) (fun a => by simp [runFrame, doAfterBody, queueH, hs, frameH, St.push, St.emit])
  | reinsert sys idx =>
    simp only [runFrame, doReinsert]
    split
    · exact quiet _ (by asame0) (fun a => by simp [queueH, hs, frameH, St.push, St.emit])
    · split <;> exact quiet _ (by refine ⟨?_, ?_, ?_, ?_, ?_, ?_, ?_⟩ <;> simp only [St.push, St.emit]) (fun a => by simp [queueH, hs, frameH, St.push, St.emit])
    · split <;> exact quiet _ (by refine ⟨?_, ?_, ?_, ?_, ?_, ?_, ?_⟩ <;> simp only [St.push, St.emit]) (fun a => by simp [queueH, hs, frameH, St.push, St.emit])
  | replayTake sys idx =>
    exact quiet _ (by simp only [runFrame, doReplayTake]; asame0) (fun a => by simp [runFrame, doReplayTake, queueH, hs, frameH, St.push])
  | replayLoop sys r kept idx =>
    simp only [runFrame, doReplayLoop]
    split
    · exact quiet _ (by asame0) (fun a => by simp [queueH, hs, frameH, St.push])
    · split
      · exact quiet _ (by asame0) (fun a => by simp [queueH, hs, frameH, St.push, St.emit])
      · exact quiet _ (by asame0) (fun a => by simp [queueH, hs, frameH, St.push])
  | finish sys idx =>
    simp only [runFrame, doFinish]
    split
    · split
      · exact quiet _ (by asame0) (fun a => by simp [queueH, hs, frameH, St.emit])
      · exact quiet _ (by asame0) (fun a => by simp [queueH, hs, frameH, St.push, St.emit, abortFrames])
    · exact quiet _ (by asame0) (fun a => by simp [queueH, hs, frameH, St.emit])
  | abort sys k =>
    simp only [runFrame]
    have h1 := gx_setupK ({ s0 with stack := rest } : St) k sys hxp0
    have hx2 : LeX (fun _ => 0) (setupK ({ s0 with stack := rest } : St) k sys) :=
      hxp0.step (arc_setupK _ k sys) (fun _ => Nat.le_refl _)
    have h2 := gx_cleanupK (setupK ({ s0 with stack := rest } : St) k sys) k hx2
    exact via _ _ _ (GStep.trans h1 h2 (fun x hx => by simpa using hx)) (fun a => by simp [frameH])
  | gc =>
    simp only [runFrame, doGc]
    split
    · exact quiet _ (by asame0) (fun a => by simp [queueH, hs, frameH])
    · exact quiet _ (by asame0) (fun a => by simp [queueH, hs, frameH, St.push])
  | despawnWork work =>
    simp only [runFrame, doDespawnWork]
    split
    · exact quiet _ (by asame0) (fun a => by simp [queueH, hs, frameH])
    · split
      · rename_i e ex work _
        split
        · have h1 := gx_despawn1 ({ s0 with stack := rest } : St) e hxp0
          have h2 := gx_push (despawn1 ({ s0 with stack := rest } : St) e) [.despawnWork work]
          exact via _ _ _ (GStep.trans h1 h2 (fun x hx => by simpa using hx)) (fun a => by simp [frameH])
        · exact quiet _ (by asame0) (fun a => by simp [queueH, hs, frameH, St.push])
      · split
        · exact quiet _ (by asame0) (fun a => by simp [queueH, hs, frameH, St.push])
        · exact quiet _ (by asame0) (fun a => by simp [queueH, hs, frameH, St.push])
  | poll =>
    simp only [runFrame, doPoll]
    have e1 := arcEq_pollRemovals ({ s0 with stack := rest } : St)
    have h2 := gx_pollDespawns (pollRemovals ({ s0 with stack := rest } : St)).1
    have h3 : GStep (fun _ => 0) (fun a => cmdsH a (pollDespawns (pollRemovals ({ s0 with stack := rest } : St)).1).2)
        (pollDespawns (pollRemovals ({ s0 with stack := rest } : St)).1).1
        (({ (pollDespawns (pollRemovals ({ s0 with stack := rest } : St)).1).1 with
            wq := (pollDespawns (pollRemovals ({ s0 with stack := rest } : St)).1).1.wq ++ (pollRemovals ({ s0 with stack := rest } : St)).2 ++
              (pollDespawns (pollRemovals ({ s0 with stack := rest } : St)).1).2 } : St).push [.flush]) :=
      gstep_of_same ⟨rfl, rfl, rfl, rfl, rfl, rfl, rfl⟩ (fun a => by simp [queueH, St.push, frameH, cmdsH_removalCmds] <;> omega)
    exact via _ _ _ (GStep.left e1 (GStep.trans h2 h3 (fun x hx => by simpa using hx))) (fun a => by simp [frameH])

end Cobweb

namespace Cobweb

/-- The user clones and drops only signals it holds. -/
def SigOK2 (h : Hist) : Prop :=
  ∀ t s a, (h.op t s = some (TopOp.sigDrop a) ∨ h.op t s = some (TopOp.sigClone a)) → a ∈ s.sigs

theorem SigOK2.sigOK {h : Hist} (hs : SigOK2 h) : SigOK h := fun t s a ha => hs t s a (Or.inl ha)

theorem gx_startTop {s : St} (hst : s.stack = []) (hinv : ArcInv s) (t : Nat) (op : TopOp)
    (hsig : ∀ a, (op = .sigDrop a ∨ op = .sigClone a) → a ∈ s.sigs) : GStep (fun _ => 0) (fun _ => 0) s (startTop s t op) := by
  have hf : s.arcRc s.nextArc = 0 := (hinv.fresh 0 0 s.nextArc (Nat.le_refl _)).2
  have hx : LeX (fun _ => 0) s := LeX.of_inv hinv
  have quiet : ∀ s' : St, ArcSame s s' → (∀ a, queueH a s ≤ queueH a s') → GStep (fun _ => 0) (fun _ => 0) s s' :=
    fun s' h hq => gstep_of_same h (fun a => by have := hq a; omega)
  have he : ArcEq s (s.emit (.top t)) := ⟨⟨rfl, rfl, rfl, rfl, rfl, rfl⟩, rfl, rfl, rfl⟩
  have happly : ∀ (s1 : St) (c : Cmd), ArcEq s s1 → (∀ a, cmdH a c = 0) → GStep (fun _ => 0) (fun _ => 0) s (applyCmd s1 c) := by
    intro s1 c e1 hc
    have hf1 : s1.arcRc s1.nextArc = 0 := by rw [e1.rc, e1.next]; exact hf
    have hx1 : LeX (fun a => cmdH a c) s1 := (hx.eq e1).mono (fun a => by rw [hc a]; exact Nat.le_refl _)
    exact (GStep.left e1 (gx_applyCmd s1 c hx1 hf1)).zero (fun a => Nat.zero_le _)
  -- an operation on a user-held signal: the framework's arcs are untouched
  have userOp : ∀ (s' : St) (a0 : Nat), HoldSame s s' → a0 ∈ s'.sigs → (∀ a, a ≠ a0 → s'.arcRc a = s.arcRc a) → (∀ a, a ∈ s.sigs → a ∈ s'.sigs) →
      GStep (fun _ => 0) (fun _ => 0) s s' := by
    intro s' a0 hs h0 hrc hkeep
    refine ⟨?_, hkeep⟩
    intro B N a ha
    refine ⟨B, N, Nat.le_refl _, Nat.le_refl _, ?_⟩
    have hne : a ≠ a0 := fun h' => ha (h' ▸ h0)
    rw [holders_holdSame hs, hrc a hne]
    omega
  unfold startTop
  cases op <;> dsimp only
  case acts => exact quiet _ (by asame0) (fun a => by simp [queueH, hst, St.push, St.emit, frameH])
  case wDespawn e => exact GStep.left he (gx_despawn1 _ e (hx.eq he))
  case wDespawnRec e => exact quiet _ (by asame0) (fun a => by simp [queueH, hst, St.push, St.emit, frameH])
  case wRemove e ty => exact happly _ _ he (fun _ => rfl)
  case wInsertRaw e ty v => exact happly _ _ he (fun _ => rfl)
  case wSetParent c p => split <;> exact quiet _ (by asame0) (fun a => by simp [queueH, St.emit])
  case gc => exact quiet _ (by asame0) (fun a => by simp [queueH, hst, St.push, St.emit, frameH])
  case poll => exact quiet _ (by asame0) (fun a => by simp [queueH, hst, St.push, St.emit, frameH])
  case frameEnd => exact quiet _ (by asame0) (fun a => by simp [queueH, hst, St.push, St.emit, frameH])
  case clearTrackers => exact quiet _ (by asame0) (fun a => by simp [queueH, hst, St.emit])
  case wSysEvent sys ty pid => exact happly _ _ ⟨⟨rfl, rfl, rfl, rfl, rfl, rfl⟩, rfl, rfl, rfl⟩ (fun _ => rfl)
  case wBroadcast ty pid => exact happly _ _ ⟨⟨rfl, rfl, rfl, rfl, rfl, rfl⟩, rfl, rfl, rfl⟩ (fun _ => rfl)
  case wEntityEvent e ty pid => exact happly _ _ ⟨⟨rfl, rfl, rfl, rfl, rfl, rfl⟩, rfl, rfl, rfl⟩ (fun _ => rfl)
  case sigPrepare e =>
    refine userOp _ s.nextArc ⟨rfl, rfl, rfl, rfl, rfl, rfl⟩ (by simp [newArc, St.emit]) (fun a hne => ?_) (fun a ha => by simp [newArc, St.emit, ha])
    simp [newArc, St.emit, upd, hne]
  case sigClone a0 =>
    have hin : a0 ∈ s.sigs := hsig a0 (Or.inr rfl)
    split
    · refine userOp _ a0 ⟨by simp [St.emit], by simp [St.emit], by simp [St.emit], by simp [St.emit], by simp [St.emit], by simp [St.emit]⟩
        (by simpa [St.emit] using hin) (fun a hne => ?_) (fun a ha => by simpa [St.emit] using ha)
      rw [cloneHandle_arcRc]; simp [St.emit, hOne, hne.symm]
    · exact quiet _ (by asame0) (fun a => by simp [queueH, St.emit])
  case sigDrop a0 =>
    have hin : a0 ∈ s.sigs := hsig a0 (Or.inl rfl)
    split
    · refine userOp _ a0 ⟨by simp [St.emit], by simp [St.emit], by simp [St.emit], by simp [St.emit], by simp [St.emit], by simp [St.emit]⟩
        (by simpa [St.emit] using hin) (fun a hne => ?_) (fun a ha => by simpa [St.emit] using ha)
      rw [dropHandle_arcRc]; simp [St.emit, hne.symm]
    · exact quiet _ (by asame0) (fun a => by simp [queueH, St.emit])
  case sigThreads a n => exact quiet _ (by asame0) (fun a => by simp [queueH, hst, St.push, St.emit, frameH])

theorem ge_tick (p : Prog) (hh : Hist) (hsig : SigOK2 hh) {s s' : St} (hinv : ArcInv s) (h : GeInv s) (ht : tick p hh s = some s') :
    GeInv s' := by
  unfold tick at ht
  split at ht
  · rename_i s'' hs
    simp only [Option.some.injEq] at ht; subst ht
    unfold step at hs
    cases hst : s.stack with
    | nil => rw [hst] at hs; cases hs
    | cons f rest =>
      rw [hst] at hs
      simp only [Option.some.injEq] at hs; subst hs
      exact ge_of_step h (gx_runFrame p hh hst hinv) (fun _ => Nat.le_refl _)
  · rename_i hnone
    split at ht
    · rename_i op hop
      simp only [Option.some.injEq] at ht; subst ht
      have hst : s.stack = [] := by
        unfold step at hnone
        cases h' : s.stack with
        | nil => rfl
        | cons f rest => rw [h'] at hnone; cases hnone
      have hinv1 : ArcInv ({ s with topIdx := s.topIdx + 1 } : St) := ⟨hinv.le, hinv.fresh, hinv.sigsOld⟩
      have h1 : GeInv ({ s with topIdx := s.topIdx + 1 } : St) := h
      refine ge_of_step h1 (gx_startTop (s := { s with topIdx := s.topIdx + 1 }) hst hinv1 s.topIdx op (fun a ha => ?_)) (fun _ => Nat.le_refl _)
      rcases ha with ha | ha
      · exact hsig s.topIdx s a (Or.inl (by rw [hop, ha]))
      · exact hsig s.topIdx s a (Or.inr (by rw [hop, ha]))
    · cases ht

theorem ge_default : GeInv ({} : St) := fun a _ => ⟨0, 0, by simp [holders_default]⟩

/-- **Along every execution in which the user clones and drops only signals it holds, the count of every framework arc
    is covered by handles the framework holds.** -/
theorem ge_reach (p : Prog) (hh : Hist) (hsig : SigOK2 hh) {s : St} (hr : Reach p hh ({} : St) s) : ArcInv s ∧ GeInv s := by
  induction hr with
  | refl => exact ⟨arc_default, ge_default⟩
  | tick _ ht ih => exact ⟨arc_tick p hh hsig.sigOK ih.1 ht, ge_tick p hh hsig ih.1 ih.2 ht⟩

/-- **The reference count is exactly the number of holders**: for every framework arc there are bounds beyond which the
    handles held in tables, pending commands and the despawn tracker number exactly `arcRc`. -/
theorem arc_exact (p : Prog) (hh : Hist) (hsig : SigOK2 hh) {s : St} (hr : Reach p hh ({} : St) s) (a : Nat) (ha : a ∉ s.sigs) :
    ∃ B N, ∀ B' N', B ≤ B' → N ≤ N' → holders B' N' a s = s.arcRc a := by
  obtain ⟨hle, hge⟩ := ge_reach p hh hsig hr
  obtain ⟨B, N, h⟩ := hge a ha
  refine ⟨B, N, fun B' N' hB hN => ?_⟩
  have h1 := hle.le B' N' a ha
  have h2 := holders_mono a s hB hN
  omega

/-- No holder anywhere ⇒ the count is 0. -/
theorem no_holder_zero (p : Prog) (hh : Hist) (hsig : SigOK2 hh) {s : St} (hr : Reach p hh ({} : St) s) (a : Nat) (ha : a ∉ s.sigs)
    (h0 : ∀ B N, holders B N a s = 0) : s.arcRc a = 0 := by
  obtain ⟨B, N, h⟩ := arc_exact p hh hsig hr a ha
  have := h B N (Nat.le_refl _) (Nat.le_refl _)
  rw [h0] at this; exact this.symm

end Cobweb
