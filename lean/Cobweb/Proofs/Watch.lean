/-
  Cobweb.Proofs.Watch — whole-execution invariant behind C08: no despawn and no removal can be missed.

  * every entity with despawn reactors is either alive *with* a `DespawnTracker`, or its death is already on the despawn
    channel (so the next poll schedules the reactions);
  * the channel holds every death once, and only deaths;
  * every component type with a removal reactor (type-wide or entity-scoped) has a removal checker;
  * a despawn reaction — queued, prepared or running — is always about a dead entity.
-/
import Cobweb.Proofs.Kill
import Cobweb.Proofs.Trackers
import Cobweb.Exec

namespace Cobweb

/-- `e` existed and is gone. -/
def gone (s : St) (e : Nat) : Prop := s.alive e = false ∧ e < s.nextEnt

/-- What a pending command list may contain: an entity-scoped removal registration is preceded by the command that
    starts tracking the type (or the type is tracked already: `tr`), and despawn reactions are about dead entities. -/
def lstOK (s : St) : List Nat → List Cmd → Prop
  | _, [] => True
  | tr, c :: cs =>
    match c with
    | .trackRemovals ty => lstOK s (ty :: tr) cs
    | .regEnt rt _ _ => (rt.kind = .rem → rt.ty ∈ tr) ∧ lstOK s tr cs
    | .reactDsp e _ _ => gone s e ∧ lstOK s tr cs
    | _ => lstOK s tr cs

/-- Commands that `lstOK` does not look at. -/
def Cmd.plainW : Cmd → Bool
  | .regEnt _ _ _ => false
  | .reactDsp _ _ _ => false
  | _ => true

theorem lstOK_mono {s s' : St} (hg : ∀ e, gone s e → gone s' e) :
    ∀ (cs : List Cmd) (tr tr' : List Nat), (∀ x ∈ tr, x ∈ tr') → lstOK s tr cs → lstOK s' tr' cs := by
  intro cs
  induction cs with
  | nil => intro _ _ _ _; trivial
  | cons c cs ih =>
    intro tr tr' htr h
    cases c <;> simp only [lstOK] at h ⊢ <;>
      first
      | exact ih _ _ htr h
      | exact ⟨fun hk => htr _ (h.1 hk), ih _ _ htr h.2⟩
      | exact ⟨hg _ h.1, ih _ _ htr h.2⟩
      | exact ih _ _ (fun x hx => by
          rcases List.mem_cons.mp hx with rfl | hx
          · exact List.mem_cons_self
          · exact List.mem_cons_of_mem _ (htr x hx)) h

theorem lstOK_plain (s : St) : ∀ (cs : List Cmd) (tr : List Nat), (∀ c ∈ cs, c.plainW = true) → lstOK s tr cs := by
  intro cs
  induction cs with
  | nil => intro _ _; trivial
  | cons c cs ih =>
    intro tr h
    have hc := h c List.mem_cons_self
    have ht : ∀ tr, lstOK s tr cs := fun tr => ih tr (fun c hc => h c (List.mem_cons_of_mem _ hc))
    cases c <;> simp only [lstOK] <;> first | exact ht _ | cases hc

theorem lstOK_append (s : St) : ∀ (a b : List Cmd) (tr : List Nat), lstOK s tr a →
    (∀ tr', (∀ x ∈ tr, x ∈ tr') → lstOK s tr' b) → lstOK s tr (a ++ b) := by
  intro a
  induction a with
  | nil => intro b tr _ hb; exact hb tr (fun _ h => h)
  | cons c cs ih =>
    intro b tr ha hb
    cases c <;> simp only [List.cons_append, lstOK] at ha ⊢ <;>
      first
      | exact ih b _ ha hb
      | exact ⟨ha.1, ih b _ ha.2 hb⟩
      | exact ih b _ ha (fun tr' h => hb tr' (fun x hx => h x (List.mem_cons_of_mem _ hx)))

/-- A list that is fine whatever is tracked. -/
def lstAny (s : St) (cs : List Cmd) : Prop := ∀ tr, lstOK s tr cs

theorem lstAny_plain (s : St) (cs : List Cmd) (h : ∀ c ∈ cs, c.plainW = true) : lstAny s cs := fun tr => lstOK_plain s cs tr h

theorem lstAny_append {s : St} {a b : List Cmd} (ha : lstAny s a) (hb : lstAny s b) : lstAny s (a ++ b) :=
  fun tr => lstOK_append s a b tr (ha tr) (fun tr' _ => hb tr')

theorem lstOK_append_any {s : St} {a b : List Cmd} {tr : List Nat} (ha : lstOK s tr a) (hb : lstAny s b) : lstOK s tr (a ++ b) :=
  lstOK_append s a b tr ha (fun tr' _ => hb tr')

theorem lstAny_nil (s : St) : lstAny s [] := fun _ => trivial

theorem lstAny_mono {s s' : St} (hg : ∀ e, gone s e → gone s' e) {cs : List Cmd} (h : lstAny s cs) : lstAny s' cs :=
  fun tr => lstOK_mono hg cs tr tr (fun _ hx => hx) (h tr)

/-- The commands queued by a registration are fine whatever is tracked. -/
theorem regCmds_lstAny (s0 s : St) (h : Handle) (t : Trig) : lstAny s (regCmds s0 h t).2 := by
  intro tr
  cases t <;> simp only [regCmds, rtOfTrig, tblOfTrig] <;> (try split) <;> simp [lstOK]

theorem regAll_lstAny (s : St) (h : Handle) : ∀ (ts : List Trig) (s0 : St), lstAny s (regAll s0 h ts).2 := by
  intro ts
  induction ts with
  | nil => intro s0; exact lstAny_nil s
  | cons t ts ih =>
    intro s0
    simp only [regAll]
    exact lstAny_append (regCmds_lstAny s0 s h t) (ih _)

def frameOK (s : St) : Frame → Prop
  | .batch cs => lstOK s s.tracked cs
  | .bodyActs _ _ _ acc => lstOK s s.tracked acc
  | _ => True

/-- The part of the invariant that does not mention the control state. -/
structure WCore (s : St) : Prop where
  watched : ∀ e, s.tblDsp e ≠ [] → (s.alive e = true ∧ s.dspTracker e = true) ∨ e ∈ s.dspChan
  trkAlive : ∀ e, s.dspTracker e = true → s.alive e = true
  chanGone : ∀ e ∈ s.dspChan, gone s e
  chanNodup : s.dspChan.Nodup
  freshDead : ∀ e, s.nextEnt ≤ e → s.alive e = false
  remTracked : ∀ ty, s.tbl .rem ty ≠ [] → ty ∈ s.tracked
  entRemTracked : ∀ e l rt h, s.entReactors e = some l → (rt, h) ∈ l → rt.kind = .rem → rt.ty ∈ s.tracked
  prepGone : ∀ p ∈ s.trkDsp.prepared, gone s p.2.1
  curGone : s.trkDsp.reacting = true → gone s s.trkDsp.curSrc

structure WatchInv (s : St) : Prop where
  core : WCore s
  frames : ∀ f ∈ s.stack, frameOK s f
  wq : lstOK s s.tracked s.wq

/-- The fields the core reads. -/
structure CoreSame (s s' : St) : Prop where
  alive : s'.alive = s.alive
  nextEnt : s'.nextEnt = s.nextEnt
  tblDsp : s'.tblDsp = s.tblDsp
  dspTracker : s'.dspTracker = s.dspTracker
  dspChan : s'.dspChan = s.dspChan
  tracked : s'.tracked = s.tracked
  tblRem : s'.tbl .rem = s.tbl .rem
  entReactors : s'.entReactors = s.entReactors
  trkDsp : s'.trkDsp = s.trkDsp

theorem CoreSame.refl (s : St) : CoreSame s s := ⟨rfl, rfl, rfl, rfl, rfl, rfl, rfl, rfl, rfl⟩

theorem CoreSame.trans {a b c : St} (h1 : CoreSame a b) (h2 : CoreSame b c) : CoreSame a c :=
  ⟨h2.alive.trans h1.alive, h2.nextEnt.trans h1.nextEnt, h2.tblDsp.trans h1.tblDsp, h2.dspTracker.trans h1.dspTracker,
   h2.dspChan.trans h1.dspChan, h2.tracked.trans h1.tracked, h2.tblRem.trans h1.tblRem, h2.entReactors.trans h1.entReactors,
   h2.trkDsp.trans h1.trkDsp⟩

theorem CoreSame.gone {s s' : St} (h : CoreSame s s') (e : Nat) : gone s e → gone s' e := by
  intro hg; unfold Cobweb.gone at *; rw [h.alive, h.nextEnt]; exact hg

theorem CoreSame.core {s s' : St} (h : CoreSame s s') (hc : WCore s) : WCore s' := by
  refine ⟨?_, ?_, ?_, ?_, ?_, ?_, ?_, ?_, ?_⟩
  · intro e; rw [h.tblDsp, h.alive, h.dspTracker, h.dspChan]; exact hc.watched e
  · intro e; rw [h.dspTracker, h.alive]; exact hc.trkAlive e
  · intro e; rw [h.dspChan]; intro he; exact h.gone e (hc.chanGone e he)
  · rw [h.dspChan]; exact hc.chanNodup
  · intro e; rw [h.nextEnt, h.alive]; exact hc.freshDead e
  · intro ty; rw [h.tblRem, h.tracked]; exact hc.remTracked ty
  · intro e l rt hh; rw [h.entReactors, h.tracked]; exact hc.entRemTracked e l rt hh
  · intro p; rw [h.trkDsp]; intro hp; exact h.gone _ (hc.prepGone p hp)
  · rw [h.trkDsp]; intro hr; exact h.gone _ (hc.curGone hr)

theorem CoreSame.lst {s s' : St} (h : CoreSame s s') {cs : List Cmd} (hl : lstOK s s.tracked cs) : lstOK s' s'.tracked cs := by
  rw [h.tracked]; exact lstOK_mono h.gone cs _ _ (fun _ hx => hx) hl

theorem CoreSame.frame {s s' : St} (h : CoreSame s s') {f : Frame} (hf : frameOK s f) : frameOK s' f := by
  cases f <;> first | trivial | exact h.lst hf

end Cobweb

namespace Cobweb

/-- One state change as the invariant sees it: the core holds afterwards, the dead stay dead, tracking only grows. -/
structure WStep (s s' : St) : Prop where
  core : WCore s'
  gone : ∀ e, gone s e → gone s' e
  tr : ∀ ty ∈ s.tracked, ty ∈ s'.tracked

theorem WStep.of_same {s s' : St} (h : CoreSame s s') (hc : WCore s) : WStep s s' :=
  ⟨h.core hc, h.gone, fun ty hty => by rw [h.tracked]; exact hty⟩

theorem WStep.trans {a b c : St} (h1 : WStep a b) (h2 : WStep b c) : WStep a c :=
  ⟨h2.core, fun e he => h2.gone e (h1.gone e he), fun ty hty => h2.tr ty (h1.tr ty hty)⟩

theorem WStep.right {a b c : St} (h1 : WStep a b) (h2 : CoreSame b c) : WStep a c := h1.trans (WStep.of_same h2 h1.core)

theorem WStep.lst {s s' : St} (h : WStep s s') {cs : List Cmd} {tr : List Nat} (htr : ∀ x ∈ tr, x ∈ s'.tracked)
    (hl : lstOK s tr cs) : lstOK s' s'.tracked cs := lstOK_mono h.gone cs _ _ htr hl

theorem WStep.frame {s s' : St} (h : WStep s s') {f : Frame} (hf : frameOK s f) : frameOK s' f := by
  cases f <;> first | trivial | exact h.lst h.tr hf

/-! ### atomic operations -/

theorem coreSame_dropHandle (s : St) (h : Handle) : CoreSame s (dropHandle s h) :=
  ⟨by simp, by simp, by simp, by simp, by simp, by simp, by simp, by simp, by simp⟩

theorem coreSame_dropHandles (s : St) (hs : List Handle) : CoreSame s (dropHandles s hs) :=
  ⟨by simp, by simp, by simp, by simp, by simp, by simp, by simp, by simp, by simp⟩

theorem coreSame_cloneHandle (s : St) (h : Handle) : CoreSame s (cloneHandle s h) :=
  ⟨by simp, by simp, by simp, by simp, by simp, by simp, by simp, by simp, by simp⟩

/-- Reserving a fresh entity. -/
theorem wstep_fresh {s : St} (hc : WCore s) : WStep s s.fresh.2 := by
  have hfd := hc.freshDead
  have hg : ∀ e, gone s e → gone s.fresh.2 e := by
    intro e ⟨ha, hlt⟩
    refine ⟨?_, by simp only [St.fresh]; omega⟩
    simp only [St.fresh, upd]
    split
    · omega
    · exact ha
  have hal : ∀ e, s.alive e = true → s.fresh.2.alive e = true := by
    intro e ha
    simp only [St.fresh, upd]
    split <;> simp_all
  refine ⟨⟨?_, ?_, ?_, ?_, ?_, ?_, ?_, ?_, ?_⟩, hg, fun _ h => h⟩
  · intro e he
    rcases hc.watched e he with ⟨ha, ht⟩ | hin
    · exact Or.inl ⟨hal e ha, ht⟩
    · exact Or.inr hin
  · intro e he; exact hal e (hc.trkAlive e he)
  · intro e he; exact hg e (hc.chanGone e he)
  · exact hc.chanNodup
  · intro e he
    simp only [St.fresh] at he
    simp only [St.fresh, upd]
    split
    · omega
    · exact hfd e (by omega)
  · exact hc.remTracked
  · exact hc.entRemTracked
  · intro p hp; exact hg _ (hc.prepGone p hp)
  · intro hr; exact hg _ (hc.curGone hr)

theorem kill_dspTracker (s : St) (e x : Nat) : (kill s e).dspTracker x = if x = e then false else s.dspTracker x := by
  simp only [kill, killData_dspTracker]
  unfold killTracker
  have e1 : (killComps (killReactors (killStorage (killCanary s e) e) e) e).dspTracker = s.dspTracker := by simp
  split
  · simp [upd]
  · rename_i h
    rw [e1] at h
    by_cases hx : x = e
    · subst hx; simp [h]
    · simp [hx]

theorem kill_dspChan (s : St) (e : Nat) : (kill s e).dspChan = if s.dspTracker e then s.dspChan ++ [e] else s.dspChan := by
  simp only [kill, killData_dspChan]
  unfold killTracker
  have e1 : (killComps (killReactors (killStorage (killCanary s e) e) e) e).dspTracker = s.dspTracker := by simp
  have e2 : (killComps (killReactors (killStorage (killCanary s e) e) e) e).dspChan = s.dspChan := by simp
  rw [e1]
  split <;> simp

theorem kill_entReactors_self (s : St) (e : Nat) : (kill s e).entReactors e = none := by
  simp only [kill, killData_entReactors, killTracker_entReactors, killComps_entReactors]
  unfold killReactors
  split
  · simp
  · rename_i h; simpa using h

/-- Despawning a live entity. -/
theorem wstep_kill {s : St} (hc : WCore s) (e : Nat) (ha : s.alive e = true) : WStep s (kill s e) := by
  have hlt : e < s.nextEnt := by
    by_cases h : e < s.nextEnt
    · exact h
    · have := hc.freshDead e (by omega); simp [ha] at this
  have hnotin : e ∉ s.dspChan := fun hin => by have := (hc.chanGone e hin).1; simp [ha] at this
  have hg : ∀ x, gone s x → gone (kill s e) x := by
    intro x ⟨hx, hl⟩
    refine ⟨?_, by simpa using hl⟩
    by_cases hxe : x = e
    · subst hxe; simp
    · rw [kill_alive_other _ _ _ hxe]; exact hx
  refine ⟨⟨?_, ?_, ?_, ?_, ?_, ?_, ?_, ?_, ?_⟩, hg, fun _ h => by simpa using h⟩
  · intro x hx
    rw [kill_tblDsp] at hx
    rw [kill_dspChan, kill_dspTracker]
    by_cases hxe : x = e
    · subst hxe
      rcases hc.watched x hx with ⟨_, ht⟩ | hin
      · right; simp [ht]
      · exact absurd hin hnotin
    · rcases hc.watched x hx with ⟨hxa, ht⟩ | hin
      · left; exact ⟨by rw [kill_alive_other _ _ _ hxe]; exact hxa, by simp [hxe, ht]⟩
      · right; split <;> simp [hin]
  · intro x hx
    rw [kill_dspTracker] at hx
    by_cases hxe : x = e
    · simp [hxe] at hx
    · simp only [hxe, if_false] at hx
      rw [kill_alive_other _ _ _ hxe]; exact hc.trkAlive x hx
  · intro x hx
    rw [kill_dspChan] at hx
    split at hx
    · rcases List.mem_append.mp hx with h | h
      · exact hg x (hc.chanGone x h)
      · simp at h; subst h; exact ⟨by simp, by simpa using hlt⟩
    · exact hg x (hc.chanGone x hx)
  · rw [kill_dspChan]
    split
    · exact List.nodup_append.mpr ⟨hc.chanNodup, by simp, by intro a ha' b hb; simp at hb; subst hb; intro h; subst h; exact hnotin ha'⟩
    · exact hc.chanNodup
  · intro x hx
    simp only [kill_nextEnt] at hx
    by_cases hxe : x = e
    · subst hxe; simp
    · rw [kill_alive_other _ _ _ hxe]; exact hc.freshDead x hx
  · intro ty hty; rw [kill_tbl] at hty; rw [kill_tracked]; exact hc.remTracked ty hty
  · intro x l rt h hl hm hk
    rw [kill_tracked]
    by_cases hxe : x = e
    · subst hxe; rw [kill_entReactors_self] at hl; cases hl
    · rw [kill_entReactors _ _ _ hxe] at hl; exact hc.entRemTracked x l rt h hl hm hk
  · intro p hp; rw [kill_trkDsp] at hp; exact hg _ (hc.prepGone p hp)
  · intro hr; rw [kill_trkDsp] at hr ⊢; exact hg _ (hc.curGone hr)

theorem wstep_refl {s : St} (hc : WCore s) : WStep s s := WStep.of_same (CoreSame.refl s) hc

theorem wstep_despawn1 {s : St} (hc : WCore s) (e : Nat) : WStep s (despawn1 s e) := by
  unfold despawn1
  split
  · rename_i h; exact wstep_kill hc e h
  · exact wstep_refl hc

end Cobweb

namespace Cobweb

theorem wstep_tryCleanupData {s : St} (hc : WCore s) (d : Nat) : WStep s (tryCleanupData s d) := by
  unfold tryCleanupData
  split
  · rename_i ha
    split
    · split
      · exact wstep_refl hc
      · dsimp only
        split
        · have hs : CoreSame s ({ s with data := upd s.data d (some { (‹DataEnt›) with cnt := (‹DataEnt›).cnt - 1 }) } : St) :=
            ⟨rfl, rfl, rfl, rfl, rfl, rfl, rfl, rfl, rfl⟩
          exact (WStep.of_same hs hc).trans (wstep_kill (hs.core hc) d ha)
        · exact WStep.of_same ⟨rfl, rfl, rfl, rfl, rfl, rfl, rfl, rfl, rfl⟩ hc
    · exact wstep_refl hc
  · exact wstep_refl hc

theorem wstep_cleanupK {s : St} (hc : WCore s) (k : Kind) : WStep s (cleanupK s k) := by
  unfold cleanupK
  cases k <;> dsimp only
  · exact wstep_refl hc
  · have hs : CoreSame s ({ s with trkSys := { s.trkSys with reacting := false } } : St) := ⟨rfl, rfl, rfl, rfl, rfl, rfl, rfl, rfl, rfl⟩
    exact (WStep.of_same hs hc).trans (wstep_despawn1 (hs.core hc) _)
  · exact WStep.of_same ⟨rfl, rfl, rfl, rfl, rfl, rfl, rfl, rfl, rfl⟩ hc
  · -- the despawn tracker stops reacting
    have hc' : WCore ({ s with trkDsp := { s.trkDsp with reacting := false, curHandle := none } } : St) :=
      ⟨hc.watched, hc.trkAlive, hc.chanGone, hc.chanNodup, hc.freshDead, hc.remTracked, hc.entRemTracked, hc.prepGone,
        fun h => by simp at h⟩
    have h1 : WStep s ({ s with trkDsp := { s.trkDsp with reacting := false, curHandle := none } } : St) :=
      ⟨hc', fun _ h => h, fun _ h => h⟩
    split
    · exact h1.right (coreSame_dropHandle _ _)
    · exact h1
  · have hs : CoreSame s ({ s with trkEnt := { s.trkEnt with reacting := false }, trkEvt := { s.trkEvt with reacting := false } } : St) :=
      ⟨rfl, rfl, rfl, rfl, rfl, rfl, rfl, rfl, rfl⟩
    exact (WStep.of_same hs hc).trans (wstep_tryCleanupData (hs.core hc) _)
  · have hs : CoreSame s ({ s with trkEvt := { s.trkEvt with reacting := false } } : St) := ⟨rfl, rfl, rfl, rfl, rfl, rfl, rfl, rfl, rfl⟩
    exact (WStep.of_same hs hc).trans (wstep_tryCleanupData (hs.core hc) _)

theorem mem_swapRemove {α : Type} (l : List α) (i : Nat) (x : α) (h : x ∈ swapRemove l i) : x ∈ l := by
  unfold swapRemove at h
  split at h
  · split at h
    · rename_i y hy
      have hy' : y ∈ l := List.mem_of_getLast? hy
      have h1 := List.dropLast_subset _ h
      rcases List.mem_or_eq_of_mem_set h1 with h2 | h2
      · exact h2
      · subst h2; exact hy'
    · exact h
  · exact List.dropLast_subset _ h

/-- `DespawnAccessTracker::start`: the entry that starts being read was prepared, so it names a dead entity. -/
theorem wstep_setupK {s : St} (hc : WCore s) (k : Kind) (sys : Nat) : WStep s (setupK s k sys) := by
  unfold setupK
  cases k <;> dsimp only
  · exact wstep_refl hc
  · exact WStep.of_same ⟨rfl, rfl, rfl, rfl, rfl, rfl, rfl, rfl, rfl⟩ hc
  · exact WStep.of_same ⟨rfl, rfl, rfl, rfl, rfl, rfl, rfl, rfl, rfl⟩ hc
  · rename_i src hd
    have hc' : WCore ({ s with trkDsp := (s.trkDsp.start sys src hd).1 } : St) := by
      refine ⟨hc.watched, hc.trkAlive, hc.chanGone, hc.chanNodup, hc.freshDead, hc.remTracked, hc.entRemTracked, ?_, ?_⟩
      · intro p hp
        show gone s p.2.1
        by_cases hm : (sys, src, hd) ∈ s.trkDsp.prepared
        · rw [(TrkDsp.start_claims_own s.trkDsp sys src hd hm).2.2.2.1] at hp
          exact hc.prepGone p (List.mem_of_mem_erase hp)
        · rw [TrkDsp.start_none s.trkDsp sys src hd hm] at hp
          exact hc.prepGone p hp
      · intro hr
        show gone s (s.trkDsp.start sys src hd).1.curSrc
        by_cases hm : (sys, src, hd) ∈ s.trkDsp.prepared
        · rw [(TrkDsp.start_claims_own s.trkDsp sys src hd hm).2.1]
          exact hc.prepGone (sys, src, hd) hm
        · rw [TrkDsp.start_none s.trkDsp sys src hd hm] at hr ⊢
          exact hc.curGone hr
    have h1 : WStep s ({ s with trkDsp := (s.trkDsp.start sys src hd).1 } : St) := ⟨hc', fun _ h => h, fun _ h => h⟩
    split
    · exact h1.right (coreSame_dropHandle _ _)
    · exact h1
  · exact WStep.of_same ⟨rfl, rfl, rfl, rfl, rfl, rfl, rfl, rfl, rfl⟩ hc
  · exact WStep.of_same ⟨rfl, rfl, rfl, rfl, rfl, rfl, rfl, rfl, rfl⟩ hc

end Cobweb

namespace Cobweb

theorem removeFirst_nil_of_nil {α : Type} (p : α → Bool) (l : List α) (h : l = []) : (removeFirst p l).2 = [] := by
  subst h; rfl

theorem removeFirst_ne_nil {α : Type} (p : α → Bool) (l : List α) (h : (removeFirst p l).2 ≠ []) : l ≠ [] := by
  intro hl; exact h (removeFirst_nil_of_nil p l hl)

/-- Revoking shrinks tables; nothing the core relies on can break. -/
theorem wstep_revokeOne {s : St} (hc : WCore s) (sys : Nat) (t : Trig) : WStep s (revokeOne s sys t) := by
  have shrinkDsp : ∀ (e : Nat) (l : List Handle), (l ≠ [] → s.tblDsp e ≠ []) →
      WCore ({ s with tblDsp := upd s.tblDsp e l } : St) := by
    intro e l hl
    refine ⟨?_, hc.trkAlive, hc.chanGone, hc.chanNodup, hc.freshDead, hc.remTracked, hc.entRemTracked, hc.prepGone, hc.curGone⟩
    intro x hx
    simp only [upd] at hx
    split at hx
    · rename_i h; subst h; exact hc.watched x (hl hx)
    · exact hc.watched x hx
  have shrinkTbl : ∀ (tb : Tbl) (ty : Nat) (l : List Handle), (l ≠ [] → s.tbl tb ty ≠ []) → WCore (setTbl s tb ty l) := by
    intro tb ty l hl
    refine ⟨hc.watched, hc.trkAlive, hc.chanGone, hc.chanNodup, hc.freshDead, ?_, hc.entRemTracked, hc.prepGone, hc.curGone⟩
    intro ty' hx
    simp only [setTbl] at hx
    split at hx
    · rename_i h; obtain ⟨h1, h2⟩ := h; subst h1; subst h2; exact hc.remTracked ty' (hl hx)
    · exact hc.remTracked ty' hx
  have mk : ∀ s' : St, WCore s' → s'.alive = s.alive → s'.nextEnt = s.nextEnt → s'.tracked = s.tracked → WStep s s' := by
    intro s' hc' ha hn ht
    exact ⟨hc', fun e he => by unfold gone at *; rw [ha, hn]; exact he, fun ty hty => by rw [ht]; exact hty⟩
  unfold revokeOne
  split
  · rename_i e
    dsimp only
    have h1 := mk _ (shrinkDsp e (removeFirst (fun h => h.sys == sys) (s.tblDsp e)).2 (removeFirst_ne_nil _ _)) rfl rfl rfl
    split
    · exact h1.right (coreSame_dropHandle _ _)
    · exact h1
  · split
    · rename_i rt e _
      split
      · rename_i l hl
        have hc' : WCore ({ s with entReactors := upd s.entReactors e (some (l.filter (fun p => !(p.1 == rt && p.2.sys == sys)))) } : St) := by
          refine ⟨hc.watched, hc.trkAlive, hc.chanGone, hc.chanNodup, hc.freshDead, hc.remTracked, ?_, hc.prepGone, hc.curGone⟩
          intro x l' rt' h' hl' hm hk
          simp only [upd] at hl'
          split at hl'
          · rename_i hx; subst hx
            simp only [Option.some.injEq] at hl'; subst hl'
            exact hc.entRemTracked x l rt' h' hl (List.mem_filter.mp hm).1 hk
          · exact hc.entRemTracked x l' rt' h' hl' hm hk
        exact (mk _ hc' rfl rfl rfl).right (coreSame_dropHandles _ _)
      · exact wstep_refl hc
    · split
      · rename_i tb ty _
        dsimp only
        have h1 := mk _ (shrinkTbl tb ty (removeFirst (fun h => h.sys == sys) (s.tbl tb ty)).2 (removeFirst_ne_nil _ _)) rfl rfl rfl
        split
        · exact h1.right (coreSame_dropHandle _ _)
        · exact h1
      · exact wstep_refl hc

theorem wstep_revokeAll (sys : Nat) : ∀ (ts : List Trig) {s : St}, WCore s → WStep s (revokeAll s sys ts) := by
  intro ts
  induction ts with
  | nil => intro s hc; exact wstep_refl hc
  | cons t ts ih =>
    intro s hc
    have h1 := wstep_revokeOne hc sys t
    exact h1.trans (ih h1.core)

theorem coreSame_regCmds (s : St) (h : Handle) (t : Trig) : CoreSame s (regCmds s h t).1 :=
  ⟨by simp, by simp, by simp, by simp, by simp, by simp, by simp, by simp, by simp⟩

theorem coreSame_regAll (s : St) (h : Handle) (ts : List Trig) : CoreSame s (regAll s h ts).1 :=
  ⟨by simp, by simp, by simp, by simp, by simp, by simp, by simp, by simp, by simp⟩

theorem coreSame_newArc (s : St) (e : Nat) : CoreSame s (newArc s e).2 :=
  ⟨by simp, by simp, by simp, by simp, by simp, by simp, by simp, by simp, by simp⟩

theorem coreSame_pollRemovals (s : St) : CoreSame s (pollRemovals s).1 :=
  ⟨by simp, by simp, by simp, by simp, by simp, by simp, by simp, by simp, by simp⟩

/-! ### the despawn poll -/

theorem pollDsp_fold_chan (es : List Nat) (acc : St × List Cmd) : (es.foldl pollDspStep acc).1.dspChan = acc.1.dspChan := by
  induction es generalizing acc with
  | nil => rfl
  | cons e es ih => rw [List.foldl_cons, ih]; rfl

theorem pollDsp_fold_tbl (es : List Nat) (acc : St × List Cmd) (x : Nat) :
    (es.foldl pollDspStep acc).1.tblDsp x = if x ∈ es then [] else acc.1.tblDsp x := by
  induction es generalizing acc with
  | nil => simp
  | cons e es ih =>
    rw [List.foldl_cons, ih]
    simp only [pollDspStep, upd, List.mem_cons]
    by_cases h1 : x ∈ es
    · simp [h1]
    · by_cases h2 : x = e
      · simp [h2]
      · simp [h1, h2]

theorem pollDsp_fold_cmds (s : St) (es : List Nat) (acc : St × List Cmd) (hes : ∀ e ∈ es, gone s e) (hacc : lstAny s acc.2) :
    lstAny s (es.foldl pollDspStep acc).2 := by
  induction es generalizing acc with
  | nil => exact hacc
  | cons e es ih =>
    rw [List.foldl_cons]
    apply ih _ (fun x hx => hes x (List.mem_cons_of_mem _ hx))
    simp only [pollDspStep]
    refine lstAny_append hacc ?_
    have he := hes e List.mem_cons_self
    intro tr
    generalize acc.1.tblDsp e = l
    induction l with
    | nil => trivial
    | cons h l ihl => simp only [List.map_cons, lstOK]; exact ⟨he, ihl⟩

theorem pollDsp_fold_same (es : List Nat) (acc : St × List Cmd) :
    (es.foldl pollDspStep acc).1.alive = acc.1.alive ∧ (es.foldl pollDspStep acc).1.nextEnt = acc.1.nextEnt ∧
    (es.foldl pollDspStep acc).1.dspTracker = acc.1.dspTracker ∧ (es.foldl pollDspStep acc).1.tracked = acc.1.tracked ∧
    (es.foldl pollDspStep acc).1.tbl = acc.1.tbl ∧ (es.foldl pollDspStep acc).1.entReactors = acc.1.entReactors ∧
    (es.foldl pollDspStep acc).1.trkDsp = acc.1.trkDsp := by
  induction es generalizing acc with
  | nil => exact ⟨rfl, rfl, rfl, rfl, rfl, rfl, rfl⟩
  | cons e es ih => rw [List.foldl_cons]; exact ih _

/-- The despawn poll empties the channel, consumes the reactor lists of the entities on it, and queues reactions about
    dead entities only. -/
theorem wstep_pollDespawns {s : St} (hc : WCore s) :
    WStep s (pollDespawns s).1 ∧ lstAny (pollDespawns s).1 (pollDespawns s).2 ∧ (pollDespawns s).1.dspChan = [] := by
  obtain ⟨ha, hn, ht, htr, htb, her, htk⟩ := pollDsp_fold_same s.dspChan ({ s with dspChan := [] }, [])
  have hch : (pollDespawns s).1.dspChan = [] := by unfold pollDespawns; rw [pollDsp_fold_chan]
  have hg : ∀ e, gone s e → gone (pollDespawns s).1 e := by
    intro e he; unfold gone pollDespawns at *; rw [ha, hn]; exact he
  refine ⟨⟨⟨?_, ?_, ?_, ?_, ?_, ?_, ?_, ?_, ?_⟩, hg, fun ty hty => by unfold pollDespawns; rw [htr]; exact hty⟩, ?_, hch⟩
  · intro e he
    unfold pollDespawns at he ⊢
    rw [pollDsp_fold_tbl] at he
    split at he
    · exact absurd rfl he
    · rename_i hnin
      rcases hc.watched e he with h | h
      · left; rw [ha, ht]; exact h
      · exact absurd h hnin
  · intro e he; unfold pollDespawns at he ⊢; rw [ht] at he; rw [ha]; exact hc.trkAlive e he
  · intro e he; rw [hch] at he; cases he
  · rw [hch]; exact List.nodup_nil
  · intro e he; unfold pollDespawns at he ⊢; rw [hn] at he; rw [ha]; exact hc.freshDead e he
  · intro ty hty; unfold pollDespawns at hty ⊢; rw [htb] at hty; rw [htr]; exact hc.remTracked ty hty
  · intro e l rt h hl; unfold pollDespawns at hl ⊢; rw [her] at hl; rw [htr]; exact hc.entRemTracked e l rt h hl
  · intro p hp; unfold pollDespawns at hp; rw [htk] at hp; exact hg _ (hc.prepGone p hp)
  · intro hr; unfold pollDespawns at hr; rw [htk] at hr
    have := hg _ (hc.curGone hr)
    unfold pollDespawns at this ⊢; rw [htk]; exact this
  · have h1 : lstAny s (pollDespawns s).2 := by
      unfold pollDespawns
      exact pollDsp_fold_cmds s s.dspChan _ (fun e he => hc.chanGone e he) (lstAny_nil s)
    exact lstAny_mono hg h1

/-- Removal reactions are plain commands. -/
theorem pollRem_cmds_plain (s : St) : ∀ c ∈ (pollRemovals s).2, c.plainW = true := by
  unfold pollRemovals
  suffices h : ∀ (tys : List Nat) (acc : St × List Cmd), (∀ c ∈ acc.2, c.plainW = true) →
      ∀ c ∈ (tys.foldl pollRemStep acc).2, c.plainW = true from h _ _ (by simp)
  intro tys
  induction tys with
  | nil => intro acc h; exact h
  | cons ty tys ih =>
    intro acc h
    rw [List.foldl_cons]
    apply ih
    intro c hc
    simp only [pollRemStep, List.mem_append, List.mem_flatMap] at hc
    rcases hc with hc | ⟨e, _, hc⟩
    · exact h c hc
    · simp only [removalCmdsFor, List.mem_append, List.mem_map] at hc
      rcases hc with ⟨_, _, rfl⟩ | ⟨_, _, rfl⟩ <;> rfl

end Cobweb

namespace Cobweb

/-- What the head of a pending list must satisfy when it is applied. -/
def cmdOK (s : St) : Cmd → Prop
  | .regEnt rt _ _ => rt.kind = .rem → rt.ty ∈ s.tracked
  | .reactDsp e _ _ => gone s e
  | _ => True

def trackedAfter (s : St) : Cmd → List Nat
  | .trackRemovals ty => ty :: s.tracked
  | _ => s.tracked

theorem lstOK_head {s : St} {c : Cmd} {cs : List Cmd} (h : lstOK s s.tracked (c :: cs)) :
    cmdOK s c ∧ lstOK s (trackedAfter s c) cs := by
  cases c <;> simp only [lstOK] at h <;> first | exact ⟨trivial, h⟩ | exact ⟨h.1, h.2⟩

macro "cfld" : tactic => `(tactic| first | rfl | (simp [St.push, St.emit]; done))
macro "csame" : tactic => `(tactic| (refine ⟨?_, ?_, ?_, ?_, ?_, ?_, ?_, ?_, ?_⟩ <;> cfld))

theorem map_plain {α : Type} (l : List α) (f : α → Cmd) (h : ∀ x, (f x).plainW = true) : ∀ c ∈ l.map f, c.plainW = true := by
  intro c hc; obtain ⟨x, _, rfl⟩ := List.mem_map.mp hc; exact h x

/-- **Applying one command keeps the core, and whatever it pushes is fine.** -/
theorem watch_applyCmd {s : St} (hc : WCore s) (c : Cmd) (hcmd : cmdOK s c) :
    WStep s (applyCmd s c) ∧ (∀ x ∈ trackedAfter s c, x ∈ (applyCmd s c).tracked) ∧
    ∃ fs, (applyCmd s c).stack = fs ++ s.stack ∧ ∀ f ∈ fs, frameOK (applyCmd s c) f := by
  -- the generic shape: the core fields are untouched
  have same : ∀ (s' : St) (fs : List Frame), trackedAfter s c = s.tracked → CoreSame s s' → s'.stack = fs ++ s.stack →
      (∀ f ∈ fs, frameOK s' f) →
      WStep s s' ∧ (∀ x ∈ trackedAfter s c, x ∈ s'.tracked) ∧ ∃ fs, s'.stack = fs ++ s.stack ∧ ∀ f ∈ fs, frameOK s' f :=
    fun s' fs hta hs hst hfs => ⟨WStep.of_same hs hc, fun x hx => by rw [hs.tracked, ← hta]; exact hx, fs, hst, hfs⟩
  -- a step that keeps the stack
  have flat : ∀ (s' : St), trackedAfter s c = s.tracked → WStep s s' → s'.stack = s.stack →
      WStep s s' ∧ (∀ x ∈ trackedAfter s c, x ∈ s'.tracked) ∧ ∃ fs, s'.stack = fs ++ s.stack ∧ ∀ f ∈ fs, frameOK s' f :=
    fun s' hta hw hst => ⟨hw, fun x hx => hw.tr x (by rw [← hta]; exact hx), [], by simpa using hst, by simp⟩
  cases c with
  | marker m => exact same _ [] rfl (by csame) rfl (by simp)
  | run sys => exact same _ [.runnerStart sys .plain] rfl (by simp only [applyCmd]; csame) rfl (by simp [frameOK])
  | sysEvent sys d => exact same _ [.runnerStart sys (.sysEv d)] rfl (by simp only [applyCmd]; csame) rfl (by simp [frameOK])
  | reactRes sys => exact same _ [.runnerStart sys .plain] rfl (by simp only [applyCmd]; csame) rfl (by simp [frameOK])
  | reactEnt src rt sys => exact same _ [.runnerStart sys (.entReact src rt)] rfl (by simp only [applyCmd]; csame) rfl (by simp [frameOK])
  | reactEv target d sys => exact same _ [.runnerStart sys (.entEv target d)] rfl (by simp only [applyCmd]; csame) rfl (by simp [frameOK])
  | reactBc d sys => exact same _ [.runnerStart sys (.bcEv d)] rfl (by simp only [applyCmd]; csame) rfl (by simp [frameOK])
  | reactDsp src sys h =>
    simp only [applyCmd]
    have hc' : WCore ({ s with trkDsp := { s.trkDsp with prepared := s.trkDsp.prepared ++ [(sys, src, h)] } } : St) := by
      refine ⟨hc.watched, hc.trkAlive, hc.chanGone, hc.chanNodup, hc.freshDead, hc.remTracked, hc.entRemTracked, ?_, hc.curGone⟩
      intro p hp
      rcases List.mem_append.mp hp with hp | hp
      · exact hc.prepGone p hp
      · simp only [List.mem_singleton] at hp; subst hp; exact hcmd
    have hw : WStep s (({ s with trkDsp := { s.trkDsp with prepared := s.trkDsp.prepared ++ [(sys, src, h)] } } : St).push
        [.runnerStart sys (.dspReact src h)]) :=
      (⟨hc', fun _ h => h, fun _ h => h⟩ : WStep s _).right (by csame)
    exact ⟨hw, fun x hx => hw.tr x hx, [.runnerStart sys (.dspReact src h)], rfl, by simp [frameOK]⟩
  | spawnStorage sys => simp only [applyCmd]; split <;> exact same _ [] rfl (by csame) rfl (by simp)
  | insertOnce sys => simp only [applyCmd]; split <;> exact same _ [] rfl (by csame) rfl (by simp)
  | spawnData d x => simp only [applyCmd]; split <;> exact same _ [] rfl (by csame) rfl (by simp)
  | broadcast ty pid =>
    simp only [applyCmd]
    split
    · exact same _ [] rfl (by csame) rfl (by simp)
    · have hw : WStep s (s.fresh.2.push [.flush, .batch (Cmd.spawnData s.fresh.1
          { kind := .bc, ty := ty, pid := pid, target := 0, cnt := (s.tbl .bc ty).length, taken := false } ::
          (s.tbl .bc ty).map (fun h => Cmd.reactBc s.fresh.1 h.sys))]) := (wstep_fresh hc).right (by csame)
      refine ⟨hw, fun x hx => hw.tr x hx, _, rfl, ?_⟩
      intro f hf
      simp only [List.mem_cons, List.not_mem_nil, or_false] at hf
      rcases hf with rfl | rfl
      · trivial
      · exact lstOK_plain _ _ _ (by
          intro c hc'
          rcases List.mem_cons.mp hc' with rfl | h
          · rfl
          · exact map_plain _ _ (fun _ => rfl) c h)
  | entityEvent e ty pid =>
    simp only [applyCmd]
    split
    · exact same _ [] rfl (by csame) rfl (by simp)
    · have hw : WStep s (s.fresh.2.push [.flush, .batch (Cmd.spawnData s.fresh.1
          { kind := .ev, ty := ty, pid := pid, target := e,
            cnt := (entListeners s e ⟨.ev, ty⟩).length + (s.tbl .anyEv ty).length, taken := false } ::
          ((entListeners s e ⟨.ev, ty⟩).map (fun r => Cmd.reactEv e s.fresh.1 r) ++
            (s.tbl .anyEv ty).map (fun h => Cmd.reactEv e s.fresh.1 h.sys)))]) := (wstep_fresh hc).right (by csame)
      refine ⟨hw, fun x hx => hw.tr x hx, _, rfl, ?_⟩
      intro f hf
      simp only [List.mem_cons, List.not_mem_nil, or_false] at hf
      rcases hf with rfl | rfl
      · trivial
      · exact lstOK_plain _ _ _ (by
          intro c hc'
          rcases List.mem_cons.mp hc' with rfl | h
          · rfl
          · rcases List.mem_append.mp h with h | h
            · exact map_plain _ _ (fun _ => rfl) c h
            · exact map_plain _ _ (fun _ => rfl) c h)
  | resMut ty =>
    refine same _ [.flush, .batch ((s.tbl .res ty).map (fun h => Cmd.reactRes h.sys))] rfl (by simp only [applyCmd]; csame) rfl ?_
    intro f hf
    simp only [List.mem_cons, List.not_mem_nil, or_false] at hf
    rcases hf with rfl | rfl
    · trivial
    · exact lstOK_plain _ _ _ (map_plain _ _ (fun _ => rfl))
  | tryInsert e ty v => simp only [applyCmd]; split <;> exact same _ [] rfl (by csame) rfl (by simp)
  | insReact e ty =>
    simp only [applyCmd]
    split
    · exact same _ [] rfl (by csame) rfl (by simp)
    · refine same _ [.flush, .batch _] rfl (by csame) rfl ?_
      intro f hf
      simp only [List.mem_cons, List.not_mem_nil, or_false] at hf
      rcases hf with rfl | rfl
      · trivial
      · exact lstOK_plain _ _ _ (by
          intro c hc'
          rcases List.mem_append.mp hc' with h | h
          · exact map_plain _ _ (fun _ => rfl) c h
          · exact map_plain _ _ (fun _ => rfl) c h)
  | mutReact e ty =>
    simp only [applyCmd]
    refine same _ [.flush, .batch _] rfl (by csame) rfl ?_
    intro f hf
    simp only [List.mem_cons, List.not_mem_nil, or_false] at hf
    rcases hf with rfl | rfl
    · trivial
    · exact lstOK_plain _ _ _ (by
        intro c hc'
        rcases List.mem_append.mp hc' with h | h
        · exact map_plain _ _ (fun _ => rfl) c h
        · exact map_plain _ _ (fun _ => rfl) c h)
  | register trigs sys mode =>
    simp only [applyCmd]
    cases mode <;> dsimp only
    · refine same _ [.flush, .batch (regAll s ⟨sys, none⟩ trigs).2] rfl ((coreSame_regAll s _ trigs).trans (by csame)) (by simp [St.push]) ?_
      intro f hf
      simp only [List.mem_cons, List.not_mem_nil, or_false] at hf
      rcases hf with rfl | rfl
      · trivial
      · exact regAll_lstAny _ _ trigs s _
    all_goals
      refine same _ [.flush, .batch (regAll (newArc s sys).2 ⟨sys, some (newArc s sys).1⟩ trigs).2] rfl
        ((coreSame_newArc s sys).trans ((coreSame_regAll _ _ trigs).trans ((coreSame_dropHandle _ _).trans (by csame)))) (by simp [St.push]) ?_
      intro f hf
      simp only [List.mem_cons, List.not_mem_nil, or_false] at hf
      rcases hf with rfl | rfl
      · trivial
      · exact regAll_lstAny _ _ trigs _ _
  | regType t ty h =>
    simp only [applyCmd]
    have hw : WStep s (setTbl (if t = .rem ∧ (!s.tracked.contains ty) = true then { s with tracked := s.tracked ++ [ty] } else s) t ty
        ((if t = .rem ∧ (!s.tracked.contains ty) = true then { s with tracked := s.tracked ++ [ty] } else s).tbl t ty ++ [h])) := by
      have htr : ∀ x ∈ s.tracked, x ∈ (if t = .rem ∧ (!s.tracked.contains ty) = true then ({ s with tracked := s.tracked ++ [ty] } : St) else s).tracked := by
        intro x hx; split
        · exact List.mem_append_left _ hx
        · exact hx
      have hty : t = .rem → ty ∈ (if t = .rem ∧ (!s.tracked.contains ty) = true then ({ s with tracked := s.tracked ++ [ty] } : St) else s).tracked := by
        intro ht
        split
        · simp
        · rename_i hn
          have : s.tracked.contains ty = true := by
            by_cases hcn : s.tracked.contains ty = true
            · exact hcn
            · exact absurd ⟨ht, by simpa using hcn⟩ hn
          simpa using this
      have hrest : ∀ (P : St → Prop), (∀ s1 : St, s1.alive = s.alive → s1.nextEnt = s.nextEnt → s1.tblDsp = s.tblDsp → s1.dspTracker = s.dspTracker →
          s1.dspChan = s.dspChan → s1.entReactors = s.entReactors → s1.trkDsp = s.trkDsp → s1.tbl = s.tbl → P s1) →
          P (if t = .rem ∧ (!s.tracked.contains ty) = true then ({ s with tracked := s.tracked ++ [ty] } : St) else s) := by
        intro P hP; split
        · exact hP _ rfl rfl rfl rfl rfl rfl rfl rfl
        · exact hP _ rfl rfl rfl rfl rfl rfl rfl rfl
      revert htr hty
      refine hrest (fun s1 => (∀ x ∈ s.tracked, x ∈ s1.tracked) → (t = .rem → ty ∈ s1.tracked) → WStep s (setTbl s1 t ty (s1.tbl t ty ++ [h]))) ?_
      intro s1 ha hn hd htk hch her htd htb htr hty
      refine ⟨⟨?_, ?_, ?_, ?_, ?_, ?_, ?_, ?_, ?_⟩, ?_, ?_⟩
      · intro e; simp only [setTbl]; rw [hd, ha, htk, hch]; exact hc.watched e
      · intro e; simp only [setTbl]; rw [htk, ha]; exact hc.trkAlive e
      · intro e; simp only [setTbl]; rw [hch]; intro he; have := hc.chanGone e he; unfold gone at *; simp only [ha, hn]; exact this
      · simp only [setTbl]; rw [hch]; exact hc.chanNodup
      · intro e; simp only [setTbl]; rw [hn, ha]; exact hc.freshDead e
      · intro ty' hne
        simp only [setTbl] at hne ⊢
        split at hne
        · rename_i hh; obtain ⟨h1, h2⟩ := hh; subst h2; exact hty h1.symm
        · rw [htb] at hne; exact htr _ (hc.remTracked ty' hne)
      · intro e l rt h' hl hm hk; simp only [setTbl] at hl ⊢; rw [her] at hl; exact htr _ (hc.entRemTracked e l rt h' hl hm hk)
      · intro p hp; simp only [setTbl] at hp; rw [htd] at hp; have := hc.prepGone p hp; unfold gone at *; simp only [setTbl, ha, hn]; exact this
      · intro hr; simp only [setTbl] at hr; rw [htd] at hr; have := hc.curGone hr; unfold gone at *; simp only [setTbl, ha, hn, htd]; exact this
      · intro e he; unfold gone at *; simp only [setTbl, ha, hn]; exact he
      · intro x hx; simp only [setTbl]; exact htr x hx
    exact flat _ rfl hw (by simp only [setTbl]; split <;> rfl)
  | regEnt rt e h =>
    simp only [applyCmd]
    have add : ∀ l' : List (RType × Handle), (∀ p ∈ l', p = (rt, h) ∨ ∃ l, s.entReactors e = some l ∧ p ∈ l) →
        WStep s ({ s with entReactors := upd s.entReactors e (some l') } : St) := by
      intro l' hl'
      refine ⟨⟨hc.watched, hc.trkAlive, hc.chanGone, hc.chanNodup, hc.freshDead, hc.remTracked, ?_, hc.prepGone, hc.curGone⟩, fun _ h => h, fun _ h => h⟩
      intro x l rt' h' hl hm hk
      simp only [upd] at hl
      split at hl
      · rename_i hx; subst hx
        simp only [Option.some.injEq] at hl; subst hl
        rcases hl' _ hm with heq | ⟨l0, hl0, hm0⟩
        · cases heq; exact hcmd hk
        · exact hc.entRemTracked x l0 rt' h' hl0 hm0 hk
      · exact hc.entRemTracked x l rt' h' hl hm hk
    split
    · rename_i l hl
      exact flat _ rfl (add _ (fun p hp => by
        rcases List.mem_append.mp hp with hp | hp
        · exact Or.inr ⟨l, hl, hp⟩
        · simp at hp; exact Or.inl hp)) rfl
    · split
      · exact flat _ rfl (add _ (fun p hp => by simp at hp; exact Or.inl hp)) rfl
      · exact flat _ rfl (WStep.of_same (coreSame_dropHandle _ _) hc) (by simp)
  | regDsp e h =>
    simp only [applyCmd]
    split
    · rename_i ha
      refine flat _ rfl ⟨⟨?_, ?_, hc.chanGone, hc.chanNodup, hc.freshDead, hc.remTracked, hc.entRemTracked, hc.prepGone, hc.curGone⟩, fun _ h => h, fun _ h => h⟩ rfl
      · intro x hx
        simp only [upd] at hx ⊢
        by_cases hxe : x = e
        · subst hxe; left; simp [ha]
        · simp only [hxe, if_false] at hx ⊢; exact hc.watched x hx
      · intro x hx
        simp only [upd] at hx
        by_cases hxe : x = e
        · subst hxe; exact ha
        · simp only [hxe, if_false] at hx; exact hc.trkAlive x hx
    · exact flat _ rfl (WStep.of_same (coreSame_dropHandle _ _) hc) (by simp)
  | trackRemovals ty =>
    simp only [applyCmd]
    split
    · rename_i hcn
      refine ⟨wstep_refl hc, ?_, [], rfl, by simp⟩
      intro x hx
      simp only [trackedAfter, List.mem_cons] at hx
      rcases hx with rfl | hx
      · simpa using hcn
      · exact hx
    · refine ⟨⟨⟨hc.watched, hc.trkAlive, hc.chanGone, hc.chanNodup, hc.freshDead, ?_, ?_, hc.prepGone, hc.curGone⟩, fun _ h => h, fun x hx => List.mem_append_left _ hx⟩, ?_, [], rfl, by simp⟩
      · intro ty' h; exact List.mem_append_left _ (hc.remTracked ty' h)
      · intro e l rt h hl hm hk; exact List.mem_append_left _ (hc.entRemTracked e l rt h hl hm hk)
      · intro x hx
        simp only [trackedAfter, List.mem_cons] at hx
        rcases hx with rfl | hx
        · simp
        · exact List.mem_append_left _ hx
  | revoke sys trigs => exact flat _ rfl (wstep_revokeAll sys trigs hc) (by simp [applyCmd])
  | despawn e => exact flat _ rfl (wstep_despawn1 hc e) (by simp [applyCmd])
  | despawnRec e => exact same _ [.despawnWork [(e, false)]] rfl (by simp only [applyCmd]; csame) rfl (by simp [frameOK])
  | removeComp e ty => simp only [applyCmd]; split <;> exact same _ [] rfl (by csame) rfl (by simp)
  | cleanup k => exact flat _ rfl (wstep_cleanupK hc k) (by simp [applyCmd])
  | ewrInsertLocal e wr v => simp only [applyCmd]; split <;> exact same _ [] rfl (by csame) rfl (by simp)
  | ewrCleanupData sys e wr =>
    simp only [applyCmd]
    split
    · split <;> exact same _ [] rfl (by csame) rfl (by simp)
    · exact same _ [] rfl (by csame) rfl (by simp)
  | ewrAdd e wr v sys =>
    simp only [applyCmd]
    split
    · refine same _ [.flush, .batch _] rfl (by csame) rfl ?_
      intro f hf
      simp only [List.mem_cons, List.not_mem_nil, or_false] at hf
      rcases hf with rfl | rfl
      · trivial
      · exact lstOK_plain _ _ _ (by intro c hc'; simp at hc'; rcases hc' with rfl | rfl <;> rfl)
    · exact same _ [] rfl (by csame) rfl (by simp)

end Cobweb

namespace Cobweb

theorem wstep_emit {s : St} (hc : WCore s) (e : Ev) : WStep s (s.emit e) := WStep.of_same (by csame) hc

theorem wstep_enqueue {s : St} (hc : WCore s) (a : Act) : WStep s (enqueue s a).1 := by
  cases a <;> simp only [enqueue] <;> (repeat' split) <;>
    first
    | exact wstep_refl hc
    | (refine WStep.of_same ?_ hc; csame)
    | (refine (wstep_fresh hc).right ?_; csame)
    | (refine ((wstep_emit hc _).trans (wstep_fresh (wstep_emit hc _).core)).right ?_; csame)

theorem plainL_nil : ∀ c ∈ ([] : List Cmd), c.plainW = true := fun _ h => by cases h

theorem plainL_cons {c : Cmd} {cs : List Cmd} (h : c.plainW = true) (hs : ∀ x ∈ cs, x.plainW = true) :
    ∀ x ∈ c :: cs, x.plainW = true := by
  intro x hx
  rcases List.mem_cons.mp hx with rfl | hx
  · exact h
  · exact hs x hx

theorem enqueue_plainW (s : St) (a : Act) : ∀ c ∈ (enqueue s a).2, c.plainW = true := by
  cases a <;> simp only [enqueue] <;> (repeat' split) <;>
    first
    | exact plainL_nil
    | exact plainL_cons rfl plainL_nil
    | exact plainL_cons rfl (plainL_cons rfl plainL_nil)
    | exact plainL_cons rfl (map_plain _ _ (fun _ => rfl))

theorem wfoldl_emit_proj {α : Type} (g : St → α) (hg : ∀ (t : St) (e : Ev), g (t.emit e) = g t) (l : List Nat) (t : St) :
    g (l.foldl (fun (s : St) pid => s.emit (Ev.dropPayload pid)) t) = g t := by
  induction l generalizing t with
  | nil => rfl
  | cons x l ih => exact (ih _).trans (hg _ _)

theorem wstartBody_proj {α : Type} (g : St → α) (hemit : ∀ (t : St) (e : Ev), g (t.emit e) = g t)
    (hobs : ∀ (t : St) (w : Option Nat), g (observe t w).2 = g t) (hinfo : ∀ (t : St) (i : Nat → SysInfo), g ({ t with info := i } : St) = g t)
    (s : St) (sys : Nat) (k : Kind) : g (startBody s sys k) = g (setupK s k sys) := by
  have h1 : g (preBody s sys k) = g (setupK s k sys) := by
    unfold preBody; dsimp only; split <;> simp only [hemit]
  unfold startBody; dsimp only
  rw [wfoldl_emit_proj g hemit, hemit, hinfo, hobs, h1]

theorem wstep_startBody {s : St} (hc : WCore s) (sys : Nat) (k : Kind) : WStep s (startBody s sys k) := by
  refine (wstep_setupK hc k sys).right ⟨?_, ?_, ?_, ?_, ?_, ?_, ?_, ?_, ?_⟩
  · exact wstartBody_proj (fun t => t.alive) (fun _ _ => rfl) (fun t w => by simp) (fun _ _ => rfl) s sys k
  · exact wstartBody_proj (fun t => t.nextEnt) (fun _ _ => rfl) (fun t w => by simp) (fun _ _ => rfl) s sys k
  · exact wstartBody_proj (fun t => t.tblDsp) (fun _ _ => rfl) (fun t w => by simp) (fun _ _ => rfl) s sys k
  · exact wstartBody_proj (fun t => t.dspTracker) (fun _ _ => rfl) (fun t w => by simp) (fun _ _ => rfl) s sys k
  · exact wstartBody_proj (fun t => t.dspChan) (fun _ _ => rfl) (fun t w => by simp) (fun _ _ => rfl) s sys k
  · exact wstartBody_proj (fun t => t.tracked) (fun _ _ => rfl) (fun t w => by simp) (fun _ _ => rfl) s sys k
  · exact wstartBody_proj (fun t => t.tbl .rem) (fun _ _ => rfl) (fun t w => by simp) (fun _ _ => rfl) s sys k
  · exact wstartBody_proj (fun t => t.entReactors) (fun _ _ => rfl) (fun t w => by simp) (fun _ _ => rfl) s sys k
  · exact wstartBody_proj (fun t => t.trkDsp) (fun _ _ => rfl) (fun t w => by simp) (fun _ _ => rfl) s sys k

/-- Closing a step: old frames and the old queue survive any `WStep`; new frames and queue entries are checked. -/
theorem watch_close {s s' : St} (hw : WStep s s') (hfr : ∀ f ∈ s.stack, frameOK s f) (fs : List Frame)
    (hst : s'.stack = fs ++ s.stack) (hfs : ∀ f ∈ fs, frameOK s' f) (hwq : lstOK s' s'.tracked s'.wq) : WatchInv s' := by
  refine ⟨hw.core, ?_, hwq⟩
  intro f hf
  rw [hst] at hf
  rcases List.mem_append.mp hf with h | h
  · exact hfs f h
  · exact hw.frame (hfr f h)

end Cobweb

namespace Cobweb

theorem frames_plain_ok (s : St) : ∀ f ∈ ([] : List Frame), frameOK s f := fun _ h => by cases h

/-- **Every frame preserves the invariant** (stated for the popped state `s`). -/
theorem watch_runFrame' (p : Prog) (hh : Hist) (s : St) (f : Frame) (hc : WCore s) (hrest : ∀ g ∈ s.stack, frameOK s g)
    (hf : frameOK s f) (hwq : lstOK s s.tracked s.wq) : WatchInv (runFrame p hh s f) := by
  -- a step that leaves the queue alone; the pushed frames are justified in the popped state
  have simple : ∀ (s' : St) (fs : List Frame), WStep s s' → s'.stack = fs ++ s.stack → s'.wq = s.wq →
      (∀ g ∈ fs, frameOK s g) → WatchInv s' :=
    fun s' fs hw hst hq hfs => watch_close hw hrest fs hst (fun g hg => hw.frame (hfs g hg)) (by rw [hq]; exact hw.lst hw.tr hwq)
  -- a step that appends plain commands to the queue
  have queue : ∀ (s' : St) (fs : List Frame) (extra : List Cmd), WStep s s' → s'.stack = fs ++ s.stack → s'.wq = s.wq ++ extra →
      (∀ g ∈ fs, frameOK s g) → lstAny s' extra → WatchInv s' :=
    fun s' fs extra hw hst hq hfs hex =>
      watch_close hw hrest fs hst (fun g hg => hw.frame (hfs g hg)) (by rw [hq]; exact lstOK_append_any (hw.lst hw.tr hwq) hex)
  cases f with
  | batch cs =>
    simp only [runFrame]
    cases cs with
    | nil => exact simple _ [] (wstep_refl hc) rfl rfl (frames_plain_ok _)
    | cons c cs =>
      simp only [doBatch]
      have hs1 : CoreSame s (s.push [.flush, .batch cs]) := by csame
      have hc1 := hs1.core hc
      obtain ⟨hcmd, htail⟩ := lstOK_head (hs1.lst hf)
      obtain ⟨hw, hta, fs, hst, hfs⟩ := watch_applyCmd hc1 c hcmd
      have hw0 : WStep s (applyCmd (s.push [.flush, .batch cs]) c) := (WStep.of_same hs1 hc).trans hw
      refine watch_close hw0 hrest (fs ++ [.flush, .batch cs]) (by rw [hst]; simp [St.push]) ?_ ?_
      · intro g hg
        rcases List.mem_append.mp hg with hg | hg
        · exact hfs g hg
        · simp only [List.mem_cons, List.not_mem_nil, or_false] at hg
          rcases hg with rfl | rfl
          · trivial
          · exact hw.lst hta htail
      · rw [applyCmd_wq]; exact hw0.lst hw0.tr hwq
  | flush =>
    simp only [runFrame, doFlush]
    split
    · exact simple _ [] (wstep_refl hc) rfl rfl (frames_plain_ok _)
    · have hw : WStep s (({ s with wq := [] } : St).push [.batch s.wq]) := WStep.of_same (by csame) hc
      refine watch_close hw hrest [.batch s.wq] rfl ?_ trivial
      intro g hg
      simp only [List.mem_cons, List.not_mem_nil, or_false] at hg
      subst hg
      exact hw.frame (f := .batch s.wq) hwq
  | bodyActs sys k i acc =>
    simp only [runFrame, doBodyActs]
    split
    · refine simple _ [.cleanup k, .flush, .batch acc] (WStep.of_same (by csame) hc) rfl rfl ?_
      intro g hg
      simp only [List.mem_cons, List.not_mem_nil, or_false] at hg
      rcases hg with rfl | rfl | rfl
      · trivial
      · trivial
      · exact hf
    · rename_i a _
      have hw : WStep s ((enqueue s a).1.push [.bodyActs sys k (i + 1) (acc ++ (enqueue s a).2)]) := (wstep_enqueue hc a).right (by csame)
      refine watch_close hw hrest [.bodyActs sys k (i + 1) (acc ++ (enqueue s a).2)] (by simp [St.push]) ?_
        (by rw [show ((enqueue s a).1.push [.bodyActs sys k (i + 1) (acc ++ (enqueue s a).2)]).wq = s.wq by simp [St.push]]; exact hw.lst hw.tr hwq)
      intro g hg
      simp only [List.mem_cons, List.not_mem_nil, or_false] at hg
      subst hg
      exact lstOK_append_any (hw.lst hw.tr hf) (lstAny_plain _ _ (enqueue_plainW s a))
  | exclActs sys i =>
    simp only [runFrame, doExclActs]
    split
    · exact simple _ [.flush] (WStep.of_same (by csame) hc) rfl rfl (by intro g hg; simp at hg; subst hg; trivial)
    · rename_i t _
      exact simple _ [.runnerStart t .plain, .exclActs sys (i + 1)] (WStep.of_same (by csame) hc) rfl rfl
        (by intro g hg; simp at hg; rcases hg with rfl | rfl <;> simp [frameOK])
    · rename_i a _ _
      split
      · exact queue _ [.flush, .exclActs sys (i + 1)] (enqueue s a).2 ((wstep_enqueue hc a).right (by csame)) (by simp [St.push]) (by simp [St.push])
          (by intro g hg; simp at hg; rcases hg with rfl | rfl <;> trivial) (lstAny_plain _ _ (enqueue_plainW s a))
      · exact queue _ [.exclActs sys (i + 1)] (enqueue s a).2 ((wstep_enqueue hc a).right (by csame)) (by simp [St.push]) (by simp [St.push])
          (by intro g hg; simp at hg; subst hg; trivial) (lstAny_plain _ _ (enqueue_plainW s a))
  | topActs t i =>
    simp only [runFrame, doTopActs]
    split
    · exact simple _ [.flush] (WStep.of_same (by csame) hc) rfl rfl (by intro g hg; simp at hg; subst hg; trivial)
    · rename_i a _
      exact queue _ [.topActs t (i + 1)] (enqueue s a).2 ((wstep_enqueue hc a).right (by csame)) (by simp [St.push]) (by simp [St.push])
        (by intro g hg; simp at hg; subst hg; trivial) (lstAny_plain _ _ (enqueue_plainW s a))
  | cleanup k => exact simple _ [] (wstep_cleanupK hc k) (by simp [runFrame]) (by simp [runFrame]) (frames_plain_ok _)
  | onceTail sys =>
    simp only [runFrame, doOnceTail]
    exact queue _ [.flush, .dropCallback sys] [Cmd.revoke sys ((((despawn1 s sys).info sys).once).getD [])]
      ((wstep_despawn1 hc sys).right (by csame)) (by simp [St.push]) (by simp [St.push])
      (by intro g hg; simp at hg; rcases hg with rfl | rfl <;> trivial) (lstAny_plain _ _ (plainL_cons rfl plainL_nil))
  | dropCallback sys => exact simple _ [] (WStep.of_same (by simp only [runFrame]; csame) hc) rfl rfl (frames_plain_ok _)
  | runnerStart sys k =>
    exact simple _ [.gc, .poll, .runnerLookup sys k s.counter] (WStep.of_same (by simp only [runFrame, doRunnerStart]; csame) hc) rfl rfl
      (by intro g hg; simp at hg; rcases hg with rfl | rfl | rfl <;> trivial)
  | runnerLookup sys k idx =>
    simp only [runFrame, doRunnerLookup]
    have habort : ∀ ev : Ev, WatchInv ((s.emit ev).push (abortFrames sys k)) :=
      fun ev => simple _ (abortFrames sys k) (WStep.of_same (by csame) hc) rfl rfl
        (by intro g hg; simp [abortFrames] at hg; rcases hg with rfl | rfl | rfl <;> trivial)
    split
    · exact habort _
    · split
      · exact habort _
      · split
        · exact habort _
        · exact simple _ [] (WStep.of_same (by csame) hc) rfl rfl (frames_plain_ok _)
      · have e1 : CoreSame s ({ s with storage := upd s.storage sys (some false), counter := s.counter + 1 } : St) := by csame
        have hc1 := e1.core hc
        split
        · have h1 := wstep_setupK hc1 k sys
          exact simple _ [.afterBody sys idx] (((WStep.of_same e1 hc).trans h1).right (by csame)) (by simp [St.push, St.emit]) (by simp [St.push, St.emit])
            (by intro g hg; simp at hg; subst hg; trivial)
        · have h1 := (WStep.of_same e1 hc).trans (wstep_startBody hc1 sys k)
          split
          · exact simple _ [.bodyActs sys k 0 [], .onceTail sys, .afterBody sys idx] (h1.right (by csame)) (by simp [St.push]) (by simp [St.push])
              (by intro g hg; simp at hg; rcases hg with rfl | rfl | rfl <;> trivial)
          · split
            · exact queue _ [.exclActs sys 0, .afterBody sys idx] [Cmd.cleanup k] (h1.right (by csame)) (by simp [St.push]) (by simp [St.push])
                (by intro g hg; simp at hg; rcases hg with rfl | rfl <;> trivial) (lstAny_plain _ _ (plainL_cons rfl plainL_nil))
            · exact simple _ [.bodyActs sys k 0 [], .afterBody sys idx] (h1.right (by csame)) (by simp [St.push]) (by simp [St.push])
                (by intro g hg; simp at hg; rcases hg with rfl | rfl <;> trivial)
  | afterBody sys idx =>
    exact simple _ [.gc, .reinsert sys idx] (WStep.of_same (by simp only [runFrame, doAfterBody]; csame) hc) rfl rfl
      (by intro g hg; simp at hg; rcases hg with rfl | rfl <;> trivial)
  | reinsert sys idx =>
    simp only [runFrame, doReinsert]
    split
    · exact simple _ [.poll, .replayTake sys idx] (WStep.of_same (by csame) hc) rfl rfl (by intro g hg; simp at hg; rcases hg with rfl | rfl <;> trivial)
    · split <;> exact simple _ [.despawnWork [(sys, false)], .gc, .poll, .replayTake sys idx] (WStep.of_same (by csame) hc) rfl rfl
        (by intro g hg; simp at hg; rcases hg with rfl | rfl | rfl | rfl <;> trivial)
    · split <;> exact simple _ [.gc, .poll, .replayTake sys idx] (WStep.of_same (by csame) hc) rfl rfl
        (by intro g hg; simp at hg; rcases hg with rfl | rfl | rfl <;> trivial)
  | replayTake sys idx =>
    exact simple _ [.replayLoop sys s.buffered [] idx] (WStep.of_same (by simp only [runFrame, doReplayTake]; csame) hc) rfl rfl
      (by intro g hg; simp at hg; subst hg; trivial)
  | replayLoop sys r kept idx =>
    simp only [runFrame, doReplayLoop]
    split
    · exact simple _ [.finish sys idx] (WStep.of_same (by csame) hc) rfl rfl (by intro g hg; simp at hg; subst hg; trivial)
    · split
      · exact simple _ [.runnerStart _ _, .replayLoop sys _ kept idx] (WStep.of_same (by csame) hc) rfl rfl
          (by intro g hg; simp at hg; rcases hg with rfl | rfl <;> trivial)
      · exact simple _ [.replayLoop sys _ _ idx] (WStep.of_same (by csame) hc) rfl rfl (by intro g hg; simp at hg; subst hg; trivial)
  | finish sys idx =>
    simp only [runFrame, doFinish]
    split
    · split
      · exact simple _ [] (WStep.of_same (by csame) hc) rfl rfl (frames_plain_ok _)
      · rename_i b bs _
        exact simple _ (abortFrames b.1 b.2 ++ [Frame.finish sys idx]) (WStep.of_same (by csame) hc) (by simp [St.push, St.emit]) rfl
          (by intro g hg; simp [abortFrames] at hg; rcases hg with rfl | rfl | rfl | rfl <;> trivial)
    · exact simple _ [] (WStep.of_same (by csame) hc) rfl rfl (frames_plain_ok _)
  | abort sys k =>
    simp only [runFrame]
    have h1 := wstep_setupK hc k sys
    exact simple _ [] (h1.trans (wstep_cleanupK h1.core k)) (by simp) (by simp) (frames_plain_ok _)
  | gc =>
    simp only [runFrame, doGc]
    split
    · exact simple _ [] (wstep_refl hc) rfl rfl (frames_plain_ok _)
    · exact simple _ [.despawnWork _, .gc] (WStep.of_same (by csame) hc) rfl rfl (by intro g hg; simp at hg; rcases hg with rfl | rfl <;> trivial)
  | despawnWork work =>
    simp only [runFrame, doDespawnWork]
    split
    · exact simple _ [] (wstep_refl hc) rfl rfl (frames_plain_ok _)
    · split
      · rename_i e ex work _
        split
        · exact simple _ [.despawnWork work] ((wstep_despawn1 hc e).right (by csame)) (by simp [St.push]) (by simp [St.push])
            (by intro g hg; simp at hg; subst hg; trivial)
        · exact simple _ [.flush, .despawnWork _] (WStep.of_same (by csame) hc) rfl rfl
            (by intro g hg; simp at hg; rcases hg with rfl | rfl <;> trivial)
      · split
        · exact simple _ [.despawnWork _] (WStep.of_same (by csame) hc) rfl rfl (by intro g hg; simp at hg; subst hg; trivial)
        · exact simple _ [.despawnWork _] (WStep.of_same (by csame) hc) rfl rfl (by intro g hg; simp at hg; subst hg; trivial)
  | poll =>
    simp only [runFrame, doPoll]
    have e1 := coreSame_pollRemovals s
    have hc1 := e1.core hc
    obtain ⟨h2, hcm, _⟩ := wstep_pollDespawns hc1
    have hw := (WStep.of_same e1 hc).trans h2
    have hcs : CoreSame (pollDespawns (pollRemovals s).1).1 (({ (pollDespawns (pollRemovals s).1).1 with
        wq := (pollDespawns (pollRemovals s).1).1.wq ++ (pollRemovals s).2 ++ (pollDespawns (pollRemovals s).1).2 } : St).push [.flush]) := by csame
    refine queue _ [.flush] ((pollRemovals s).2 ++ (pollDespawns (pollRemovals s).1).2) (hw.right hcs) (by simp [St.push]) (by simp [St.push])
      (by intro g hg; simp at hg; subst hg; trivial) ?_
    exact lstAny_append (lstAny_plain _ _ (pollRem_cmds_plain s)) (lstAny_mono hcs.gone hcm)

theorem watch_runFrame (p : Prog) (hh : Hist) {s0 : St} {f : Frame} {rest : List Frame} (hs : s0.stack = f :: rest)
    (h : WatchInv s0) : WatchInv (runFrame p hh { s0 with stack := rest } f) := by
  have hsame : CoreSame s0 ({ s0 with stack := rest } : St) := ⟨rfl, rfl, rfl, rfl, rfl, rfl, rfl, rfl, rfl⟩
  exact watch_runFrame' p hh _ f (hsame.core h.core)
    (fun g hg => hsame.frame (h.frames g (by rw [hs]; exact List.mem_cons_of_mem _ hg)))
    (hsame.frame (h.frames f (by rw [hs]; exact List.mem_cons_self))) (hsame.lst h.wq)

end Cobweb

namespace Cobweb

theorem watch_startTop {s : St} (h : WatchInv s) (t : Nat) (op : TopOp) : WatchInv (startTop s t op) := by
  have hc := h.core
  have simple : ∀ (s' : St) (fs : List Frame), WStep s s' → s'.stack = fs ++ s.stack → s'.wq = s.wq →
      (∀ g ∈ fs, frameOK s g) → WatchInv s' :=
    fun s' fs hw hst hq hfs => watch_close hw h.frames fs hst (fun g hg => hw.frame (hfs g hg)) (by rw [hq]; exact hw.lst hw.tr h.wq)
  have viaCmd : ∀ (s1 : St) (c : Cmd), WStep s s1 → s1.stack = s.stack → s1.wq = s.wq → cmdOK s1 c → WatchInv (applyCmd s1 c) := by
    intro s1 c hw1 hst1 hq1 hcmd
    obtain ⟨hw, _, fs, hst, hfs⟩ := watch_applyCmd hw1.core c hcmd
    have hw0 := hw1.trans hw
    exact watch_close hw0 h.frames fs (by rw [hst, hst1]) hfs (by rw [applyCmd_wq, hq1]; exact hw0.lst hw0.tr h.wq)
  unfold startTop
  cases op <;> dsimp only
  case acts => exact simple _ [.topActs t 0] (WStep.of_same (by csame) hc) rfl rfl (by intro g hg; simp at hg; subst hg; trivial)
  case wDespawn e => exact simple _ [] ((wstep_emit hc _).trans (wstep_despawn1 (wstep_emit hc _).core e)) (by simp [St.emit]) (by simp [St.emit]) (frames_plain_ok _)
  case wDespawnRec e => exact simple _ [.despawnWork [(e, false)]] (WStep.of_same (by csame) hc) rfl rfl (by intro g hg; simp at hg; subst hg; trivial)
  case wRemove e ty => exact viaCmd _ _ (wstep_emit hc _) rfl rfl trivial
  case wInsertRaw e ty v => exact viaCmd _ _ (wstep_emit hc _) rfl rfl trivial
  case wSetParent c p => split <;> exact simple _ [] (WStep.of_same (by csame) hc) rfl rfl (frames_plain_ok _)
  case gc => exact simple _ [.gc] (WStep.of_same (by csame) hc) rfl rfl (by intro g hg; simp at hg; subst hg; trivial)
  case poll => exact simple _ [.poll] (WStep.of_same (by csame) hc) rfl rfl (by intro g hg; simp at hg; subst hg; trivial)
  case frameEnd => exact simple _ [.gc, .poll] (WStep.of_same (by csame) hc) rfl rfl (by intro g hg; simp at hg; rcases hg with rfl | rfl <;> trivial)
  case clearTrackers => exact simple _ [] (WStep.of_same (by unfold clearTrackers; csame) hc) rfl rfl (frames_plain_ok _)
  case wSysEvent sys ty pid =>
    have h1 : WStep s ((s.emit (.top t)).emit (.send pid)) := WStep.of_same (by csame) hc
    have h2 := h1.trans (wstep_fresh h1.core)
    exact viaCmd _ _ (h2.right (c := ({ ((s.emit (.top t)).emit (.send pid)).fresh.2 with
      data := upd ((s.emit (.top t)).emit (.send pid)).fresh.2.data ((s.emit (.top t)).emit (.send pid)).fresh.1
        (some { kind := .sys, ty := ty, pid := pid, target := 0, cnt := 0, taken := false }) } : St)) (by csame)) rfl rfl trivial
  case wBroadcast ty pid => exact viaCmd _ _ (WStep.of_same (by csame) hc) rfl rfl trivial
  case wEntityEvent e ty pid => exact viaCmd _ _ (WStep.of_same (by csame) hc) rfl rfl trivial
  case sigPrepare e =>
    exact simple _ [] (WStep.of_same ((CoreSame.trans (b := s.emit (.top t)) (by csame) (coreSame_newArc _ e)).trans (by csame)) hc)
      (by simp [St.emit]) (by simp [St.emit]) (frames_plain_ok _)
  case sigClone a =>
    split
    · exact simple _ [] (WStep.of_same ((CoreSame.trans (b := s.emit (.top t)) (by csame) (coreSame_cloneHandle _ _))) hc)
        (by simp [St.emit]) (by simp [St.emit]) (frames_plain_ok _)
    · exact simple _ [] (WStep.of_same (by csame) hc) rfl rfl (frames_plain_ok _)
  case sigDrop a =>
    split
    · exact simple _ [] (WStep.of_same ((CoreSame.trans (b := s.emit (.top t)) (by csame) (coreSame_dropHandle _ _))) hc)
        (by simp [St.emit]) (by simp [St.emit]) (frames_plain_ok _)
    · exact simple _ [] (WStep.of_same (by csame) hc) rfl rfl (frames_plain_ok _)
  case sigThreads a n => exact simple _ [.gc] (WStep.of_same (by csame) hc) rfl rfl (by intro g hg; simp at hg; subst hg; trivial)

theorem watch_tick (p : Prog) (hh : Hist) {s s' : St} (h : WatchInv s) (ht : tick p hh s = some s') : WatchInv s' := by
  unfold tick at ht
  split at ht
  · rename_i s'' hs
    simp only [Option.some.injEq] at ht; subst ht
    unfold step at hs
    cases hst : s.stack with
    | nil => rw [hst] at hs; cases hs
    | cons f rest =>
      rw [hst] at hs
      simp only [Option.some.injEq] at hs; subst hs
      exact watch_runFrame p hh hst h
  · split at ht
    · rename_i op hop
      simp only [Option.some.injEq] at ht; subst ht
      have hsame : CoreSame s ({ s with topIdx := s.topIdx + 1 } : St) := ⟨rfl, rfl, rfl, rfl, rfl, rfl, rfl, rfl, rfl⟩
      have h1 : WatchInv ({ s with topIdx := s.topIdx + 1 } : St) :=
        ⟨hsame.core h.core, fun g hg => hsame.frame (h.frames g hg), hsame.lst h.wq⟩
      exact watch_startTop h1 s.topIdx op
    · cases ht

theorem watch_default : WatchInv ({} : St) := by
  refine ⟨⟨?_, ?_, ?_, ?_, ?_, ?_, ?_, ?_, ?_⟩, ?_, trivial⟩
  · intro e he; exact absurd rfl he
  · intro e he; cases he
  · intro e he; cases he
  · exact List.nodup_nil
  · intro _ _; rfl
  · intro ty h; exact absurd rfl h
  · intro e l rt h hl; cases hl
  · intro p hp; cases hp
  · intro hr; cases hr
  · intro f hf; cases hf

/-- **Along every execution: watched entities are tracked or already reported dead, the channel holds each death once,
    removal reactors have checkers, and despawn reactions are about dead entities.** -/
theorem watch_reach (p : Prog) (hh : Hist) {s : St} (hr : Reach p hh ({} : St) s) : WatchInv s := by
  induction hr with
  | refl => exact watch_default
  | tick _ ht ih => exact watch_tick p hh ih ht

end Cobweb
