/-
  Cobweb.Proofs.Registry — frame theorems for the registration tables, for every step of every execution:
  the reactor list under a type-wide key changes only when a `regType` or a `revoke` command naming that key is applied;
  the reactor list of an entity changes only by `regEnt` on it, a `revoke` naming it, or its death; the despawn reactors
  of an entity change only by `regDsp`, a `revoke` naming it, or the poll that consumes its death.
  Nothing else — dispatching, running bodies, recursion, postponement, clean-up, garbage collection — edits a table.
-/
import Cobweb.Proofs.Watch
import Cobweb.Exec

namespace Cobweb

/-- The command at the head of the batch that the next step applies, if the next step applies a command. -/
def nextCmd (s : St) : Option Cmd :=
  match s.stack with
  | .batch (c :: _) :: _ => some c
  | _ => none

/-- Commands that may edit the type-wide table `(tb, ty)`. -/
def touchesTbl (tb : Tbl) (ty : Nat) : Cmd → Prop
  | .regType tb' ty' _ => tb' = tb ∧ ty' = ty
  | .revoke _ trigs => ∃ t ∈ trigs, tblOfTrig t = some (tb, ty)
  | _ => False

/-- Commands that may edit the reactor list of entity `e`. -/
def touchesEnt (e : Nat) : Cmd → Prop
  | .regEnt _ e' _ => e' = e
  | .revoke _ trigs => ∃ t ∈ trigs, ∃ rt, rtOfTrig t = some (rt, e)
  | _ => False

/-- Commands that may edit the despawn reactors of entity `e`. -/
def touchesDsp (e : Nat) : Cmd → Prop
  | .regDsp e' _ => e' = e
  | .revoke _ trigs => Trig.dsp e ∈ trigs
  | _ => False

theorem revokeOne_tbl_other (s : St) (sys : Nat) (t : Trig) (tb : Tbl) (ty : Nat) (h : tblOfTrig t ≠ some (tb, ty)) :
    (revokeOne s sys t).tbl tb ty = s.tbl tb ty := by
  unfold revokeOne
  split
  · dsimp only; split <;> simp
  · split
    · split <;> simp
    · split
      · rename_i tb' ty' hk
        dsimp only
        have hne : ¬(tb = tb' ∧ ty = ty') := by
          rintro ⟨h1, h2⟩; subst h1; subst h2; exact h hk
        split <;> simp [setTbl, hne]
      · rfl

theorem revokeAll_tbl_other (sys : Nat) (tb : Tbl) (ty : Nat) : ∀ (ts : List Trig) (s : St),
    (∀ t ∈ ts, tblOfTrig t ≠ some (tb, ty)) → (revokeAll s sys ts).tbl tb ty = s.tbl tb ty := by
  intro ts
  induction ts with
  | nil => intro s _; rfl
  | cons t ts ih =>
    intro s h
    simp only [revokeAll, List.foldl_cons]
    have := ih (revokeOne s sys t) (fun t' ht' => h t' (List.mem_cons_of_mem _ ht'))
    simp only [revokeAll] at this
    rw [this, revokeOne_tbl_other _ _ _ _ _ (h t List.mem_cons_self)]

theorem revokeOne_ent_other (s : St) (sys : Nat) (t : Trig) (e : Nat) (h : ∀ rt, rtOfTrig t ≠ some (rt, e)) :
    (revokeOne s sys t).entReactors e = s.entReactors e := by
  unfold revokeOne
  split
  · dsimp only; split <;> simp
  · split
    · rename_i rt e' hk
      have hne : e ≠ e' := by intro h'; subst h'; exact h rt hk
      split
      · simp [hne]
      · rfl
    · split
      · dsimp only; split <;> simp [setTbl]
      · rfl

theorem revokeAll_ent_other (sys : Nat) (e : Nat) : ∀ (ts : List Trig) (s : St),
    (∀ t ∈ ts, ∀ rt, rtOfTrig t ≠ some (rt, e)) → (revokeAll s sys ts).entReactors e = s.entReactors e := by
  intro ts
  induction ts with
  | nil => intro s _; rfl
  | cons t ts ih =>
    intro s h
    simp only [revokeAll, List.foldl_cons]
    have := ih (revokeOne s sys t) (fun t' ht' => h t' (List.mem_cons_of_mem _ ht'))
    simp only [revokeAll] at this
    rw [this, revokeOne_ent_other _ _ _ _ (h t List.mem_cons_self)]

theorem revokeOne_dsp_other (s : St) (sys : Nat) (t : Trig) (e : Nat) (h : t ≠ .dsp e) :
    (revokeOne s sys t).tblDsp e = s.tblDsp e := by
  unfold revokeOne
  split
  · rename_i e'
    have hne : e ≠ e' := by intro h'; subst h'; exact h rfl
    dsimp only; split <;> simp [hne]
  · split
    · split <;> simp
    · split
      · dsimp only; split <;> simp [setTbl]
      · rfl

theorem revokeAll_dsp_other (sys : Nat) (e : Nat) : ∀ (ts : List Trig) (s : St),
    (∀ t ∈ ts, t ≠ .dsp e) → (revokeAll s sys ts).tblDsp e = s.tblDsp e := by
  intro ts
  induction ts with
  | nil => intro s _; rfl
  | cons t ts ih =>
    intro s h
    simp only [revokeAll, List.foldl_cons]
    have := ih (revokeOne s sys t) (fun t' ht' => h t' (List.mem_cons_of_mem _ ht'))
    simp only [revokeAll] at this
    rw [this, revokeOne_dsp_other _ _ _ _ (h t List.mem_cons_self)]

end Cobweb

namespace Cobweb

macro "tclose" : tactic => `(tactic| first | rfl | (simp [St.push, St.emit, setTbl]; done))

/-- Applying a command that does not name the key leaves the key's list alone. -/
theorem applyCmd_tbl_other (s : St) (c : Cmd) (tb : Tbl) (ty : Nat) (h : ¬ touchesTbl tb ty c) :
    (applyCmd s c).tbl tb ty = s.tbl tb ty := by
  cases c with
  | regType t ty' hd =>
    have hne : ¬(tb = t ∧ ty = ty') := by rintro ⟨h1, h2⟩; exact h ⟨h1.symm, h2.symm⟩
    simp only [applyCmd, setTbl, hne, if_false]
    split <;> rfl
  | revoke sys trigs =>
    simp only [applyCmd]
    exact revokeAll_tbl_other sys tb ty trigs s (fun t ht hk => h ⟨t, ht, hk⟩)
  | register trigs sys mode => simp only [applyCmd]; cases mode <;> simp [St.push]
  | regEnt rt e hd => simp only [applyCmd]; split <;> (try split) <;> tclose
  | regDsp e hd => simp only [applyCmd]; split <;> tclose
  | cleanup k => simp [applyCmd]
  | despawn e => simp [applyCmd]
  | broadcast ty' pid => simp only [applyCmd]; split <;> simp [St.push, St.emit, St.fresh]
  | entityEvent e ty' pid => simp only [applyCmd]; split <;> simp [St.push, St.emit, St.fresh]
  | ewrCleanupData sys e wr => simp only [applyCmd]; split <;> (try split) <;> tclose
  | _ => simp only [applyCmd] <;> (try split) <;> tclose

theorem runFrame_tbl (p : Prog) (hh : Hist) (s : St) (f : Frame) (tb : Tbl) (ty : Nat)
    (h : ∀ c cs, f = .batch (c :: cs) → ¬ touchesTbl tb ty c) : (runFrame p hh s f).tbl tb ty = s.tbl tb ty := by
  cases f with
  | batch cs =>
    cases cs with
    | nil => rfl
    | cons c cs =>
      simp only [runFrame, doBatch]
      rw [applyCmd_tbl_other _ _ _ _ (h c cs rfl)]; rfl
  | flush => simp only [runFrame, doFlush]; split <;> tclose
  | bodyActs sys k i acc => simp only [runFrame, doBodyActs]; split <;> simp [St.push, St.emit]
  | exclActs sys i => simp only [runFrame, doExclActs]; split <;> simp [St.push, St.emit]
  | topActs t i => simp only [runFrame, doTopActs]; split <;> simp [St.push, St.emit]
  | cleanup k => simp [runFrame]
  | onceTail sys => simp [runFrame, doOnceTail, St.push]
  | dropCallback sys => rfl
  | runnerStart sys k => rfl
  | runnerLookup sys k idx =>
    simp only [runFrame, doRunnerLookup]
    (repeat' split) <;> simp [St.push, St.emit]
  | afterBody sys idx => rfl
  | reinsert sys idx => simp only [runFrame, doReinsert]; (repeat' split) <;> tclose
  | replayTake sys idx => rfl
  | replayLoop sys r kept idx => simp only [runFrame, doReplayLoop]; (repeat' split) <;> tclose
  | finish sys idx => simp only [runFrame, doFinish]; (repeat' split) <;> tclose
  | abort sys k => simp [runFrame]
  | gc => simp only [runFrame, doGc]; split <;> tclose
  | despawnWork work => simp only [runFrame, doDespawnWork]; (repeat' split) <;> simp [St.push]
  | poll => simp [runFrame, doPoll, St.push]

theorem startTop_tbl (s : St) (t : Nat) (op : TopOp) : (startTop s t op).tbl = s.tbl := by
  unfold startTop
  cases op <;> dsimp only <;> (try split) <;>
    first
    | rfl
    | (simp [St.push, St.emit]; done)
    | (funext tb ty; rw [applyCmd_tbl_other _ _ _ _ (by simp [touchesTbl])]; done)
    | (funext tb ty; rw [applyCmd_tbl_other _ _ _ _ (by simp [touchesTbl])]; simp [St.emit, St.fresh]; done)

/-- **Type-wide tables move only by `regType` / `revoke` of the key** — one step of any execution. -/
theorem typewide_stable {p : Prog} {hh : Hist} {s s' : St} (ht : tick p hh s = some s') (tb : Tbl) (ty : Nat) :
    s'.tbl tb ty = s.tbl tb ty ∨ ∃ c, nextCmd s = some c ∧ touchesTbl tb ty c := by
  unfold tick at ht
  split at ht
  · rename_i s'' hs
    simp only [Option.some.injEq] at ht; subst ht
    unfold step at hs
    cases hst : s.stack with
    | nil => rw [hst] at hs; cases hs
    | cons f rest =>
      rw [hst] at hs
      simp only [Option.some.injEq] at hs; subst hs
      by_cases hq : ∃ c cs, f = .batch (c :: cs) ∧ touchesTbl tb ty c
      · obtain ⟨c, cs, rfl, hc⟩ := hq
        exact Or.inr ⟨c, by simp [nextCmd, hst], hc⟩
      · left
        rw [runFrame_tbl p hh _ f tb ty (fun c cs hf hc => hq ⟨c, cs, hf, hc⟩)]
  · split at ht
    · simp only [Option.some.injEq] at ht; subst ht
      left; rw [startTop_tbl]
    · cases ht

end Cobweb

namespace Cobweb

/-- The reactor list of `e` is unchanged, or `e` died in this step. -/
def EntStep (e : Nat) (s s' : St) : Prop :=
  s'.entReactors e = s.entReactors e ∨ (s.alive e = true ∧ s'.alive e = false)

theorem EntStep.of_eq {e : Nat} {s s' : St} (h : s'.entReactors = s.entReactors) : EntStep e s s' := Or.inl (by rw [h])

theorem EntStep.post {e : Nat} {s s1 s2 : St} (h : EntStep e s s1) (h1 : s2.entReactors = s1.entReactors) (h2 : s2.alive = s1.alive) :
    EntStep e s s2 := by
  rcases h with h | h
  · exact Or.inl (by rw [h1, h])
  · exact Or.inr ⟨h.1, by rw [h2]; exact h.2⟩

theorem EntStep.pre {e : Nat} {s s1 s2 : St} (h1 : s1.entReactors = s.entReactors) (h2 : s1.alive = s.alive) (h : EntStep e s1 s2) :
    EntStep e s s2 := by
  rcases h with h | h
  · exact Or.inl (by rw [h, h1])
  · exact Or.inr ⟨by rw [← h2]; exact h.1, h.2⟩

theorem entStep_kill (s : St) (e x : Nat) (ha : s.alive e = true) : EntStep x s (kill s e) := by
  by_cases hx : x = e
  · subst hx; exact Or.inr ⟨ha, by simp⟩
  · exact Or.inl (kill_entReactors s e x hx)

theorem entStep_despawn1 (s : St) (e x : Nat) : EntStep x s (despawn1 s e) := by
  unfold despawn1
  split
  · rename_i h; exact entStep_kill s e x h
  · exact Or.inl rfl

theorem entStep_tryCleanupData (s : St) (d x : Nat) : EntStep x s (tryCleanupData s d) := by
  by_cases hx : x = d
  · subst hx
    unfold tryCleanupData
    split
    · rename_i ha
      split
      · split
        · exact Or.inl rfl
        · dsimp only
          split
          · exact Or.inr ⟨ha, by simp⟩
          · exact Or.inl rfl
      · exact Or.inl rfl
    · exact Or.inl rfl
  · left
    unfold tryCleanupData
    (repeat' split) <;> first | rfl | (dsimp only; split <;> first | rfl | (rw [kill_entReactors _ _ _ hx]))

theorem entStep_cleanupK (s : St) (k : Kind) (x : Nat) : EntStep x s (cleanupK s k) := by
  unfold cleanupK
  cases k <;> dsimp only
  · exact Or.inl rfl
  · exact EntStep.pre (s1 := ({ s with trkSys := { s.trkSys with reacting := false } } : St)) rfl rfl (entStep_despawn1 _ _ x)
  · exact Or.inl rfl
  · split <;> exact Or.inl (by simp)
  · exact EntStep.pre (s1 := ({ s with trkEnt := { s.trkEnt with reacting := false }, trkEvt := { s.trkEvt with reacting := false } } : St)) rfl rfl
      (entStep_tryCleanupData _ _ x)
  · exact EntStep.pre (s1 := ({ s with trkEvt := { s.trkEvt with reacting := false } } : St)) rfl rfl (entStep_tryCleanupData _ _ x)

macro "eclose" : tactic => `(tactic| (refine Or.inl ?_; first | rfl | (simp [St.push, St.emit, setTbl, St.fresh]; done)))

theorem applyCmd_ent_other (s : St) (c : Cmd) (e : Nat) (h : ¬ touchesEnt e c) : EntStep e s (applyCmd s c) := by
  cases c with
  | regEnt rt e' hd =>
    have hne : e ≠ e' := fun h' => h h'.symm
    simp only [applyCmd]
    split
    · exact Or.inl (by simp [hne])
    · split
      · exact Or.inl (by simp [hne])
      · exact Or.inl (by simp)
  | revoke sys trigs =>
    simp only [applyCmd]
    exact Or.inl (revokeAll_ent_other sys e trigs s (fun t ht rt hk => h ⟨t, ht, rt, hk⟩))
  | register trigs sys mode => simp only [applyCmd]; cases mode <;> exact Or.inl (by simp [St.push])
  | regType t ty hd => simp only [applyCmd]; split <;> eclose
  | regDsp e' hd => simp only [applyCmd]; split <;> eclose
  | cleanup k => simp only [applyCmd]; exact entStep_cleanupK s k e
  | despawn e' => simp only [applyCmd]; exact entStep_despawn1 s e' e
  | broadcast ty' pid => simp only [applyCmd]; split <;> eclose
  | entityEvent e' ty' pid => simp only [applyCmd]; split <;> eclose
  | ewrCleanupData sys e' wr => simp only [applyCmd]; split <;> (try split) <;> eclose
  | _ => simp only [applyCmd] <;> (try split) <;> eclose

theorem runFrame_ent (p : Prog) (hh : Hist) (s : St) (f : Frame) (e : Nat)
    (h : ∀ c cs, f = .batch (c :: cs) → ¬ touchesEnt e c) : EntStep e s (runFrame p hh s f) := by
  cases f with
  | batch cs =>
    cases cs with
    | nil => exact Or.inl rfl
    | cons c cs =>
      simp only [runFrame, doBatch]
      exact EntStep.pre (s1 := s.push [.flush, .batch cs]) rfl rfl (applyCmd_ent_other _ c e (h c cs rfl))
  | flush => simp only [runFrame, doFlush]; split <;> eclose
  | bodyActs sys k i acc => simp only [runFrame, doBodyActs]; split <;> exact Or.inl (by simp [St.push, St.emit])
  | exclActs sys i => simp only [runFrame, doExclActs]; split <;> exact Or.inl (by simp [St.push, St.emit])
  | topActs t i => simp only [runFrame, doTopActs]; split <;> exact Or.inl (by simp [St.push, St.emit])
  | cleanup k => exact entStep_cleanupK s k e
  | onceTail sys =>
    simp only [runFrame, doOnceTail]
    exact (entStep_despawn1 s sys e).post rfl rfl
  | dropCallback sys => exact Or.inl rfl
  | runnerStart sys k => exact Or.inl rfl
  | runnerLookup sys k idx =>
    simp only [runFrame, doRunnerLookup]
    (repeat' split) <;> exact Or.inl (by simp [St.push, St.emit])
  | afterBody sys idx => exact Or.inl rfl
  | reinsert sys idx => simp only [runFrame, doReinsert]; (repeat' split) <;> eclose
  | replayTake sys idx => exact Or.inl rfl
  | replayLoop sys r kept idx => simp only [runFrame, doReplayLoop]; (repeat' split) <;> eclose
  | finish sys idx => simp only [runFrame, doFinish]; (repeat' split) <;> eclose
  | abort sys k =>
    simp only [runFrame]
    exact EntStep.pre (s1 := setupK s k sys) (by simp) (by simp) (entStep_cleanupK _ k e)
  | gc => simp only [runFrame, doGc]; split <;> eclose
  | despawnWork work =>
    simp only [runFrame, doDespawnWork]
    split
    · exact Or.inl rfl
    · split
      · split
        · exact (entStep_despawn1 s _ e).post rfl rfl
        · eclose
      · split <;> eclose
  | poll => exact Or.inl (by simp [runFrame, doPoll, St.push])

theorem startTop_ent (s : St) (t : Nat) (op : TopOp) (e : Nat) : EntStep e s (startTop s t op) := by
  unfold startTop
  cases op <;> dsimp only
  case wDespawn x => exact EntStep.pre (s1 := s.emit (.top t)) rfl rfl (entStep_despawn1 _ x e)
  case wRemove x ty => exact EntStep.pre (s1 := s.emit (.top t)) rfl rfl (applyCmd_ent_other _ _ e (by simp [touchesEnt]))
  case wInsertRaw x ty v => exact EntStep.pre (s1 := s.emit (.top t)) rfl rfl (applyCmd_ent_other _ _ e (by simp [touchesEnt]))
  case wSysEvent sys ty pid =>
    rcases applyCmd_ent_other ({ ((s.emit (.top t)).emit (.send pid)).fresh.2 with
        data := upd ((s.emit (.top t)).emit (.send pid)).fresh.2.data ((s.emit (.top t)).emit (.send pid)).fresh.1
          (some { kind := .sys, ty := ty, pid := pid, target := 0, cnt := 0, taken := false }) } : St) (.sysEvent sys
        ((s.emit (.top t)).emit (.send pid)).fresh.1) e (by simp [touchesEnt]) with h | h
    · exact Or.inl (by rw [h]; rfl)
    · exact Or.inl (by simp [applyCmd, St.push, St.emit, St.fresh])
  case wBroadcast ty pid => exact EntStep.pre (s1 := (s.emit (.top t)).emit (.send pid)) rfl rfl (applyCmd_ent_other _ _ e (by simp [touchesEnt]))
  case wEntityEvent x ty pid => exact EntStep.pre (s1 := (s.emit (.top t)).emit (.send pid)) rfl rfl (applyCmd_ent_other _ _ e (by simp [touchesEnt]))
  all_goals (try split) <;> exact Or.inl (by first | rfl | (simp [St.push, St.emit]; done))

/-- **The reactor list of an entity moves only by `regEnt` on it, a `revoke` naming it, or its death.** -/
theorem entity_stable {p : Prog} {hh : Hist} {s s' : St} (ht : tick p hh s = some s') (e : Nat) :
    s'.entReactors e = s.entReactors e ∨ (s.alive e = true ∧ s'.alive e = false) ∨ ∃ c, nextCmd s = some c ∧ touchesEnt e c := by
  unfold tick at ht
  split at ht
  · rename_i s'' hs
    simp only [Option.some.injEq] at ht; subst ht
    unfold step at hs
    cases hst : s.stack with
    | nil => rw [hst] at hs; cases hs
    | cons f rest =>
      rw [hst] at hs
      simp only [Option.some.injEq] at hs; subst hs
      by_cases hq : ∃ c cs, f = .batch (c :: cs) ∧ touchesEnt e c
      · obtain ⟨c, cs, rfl, hc⟩ := hq
        exact Or.inr (Or.inr ⟨c, by simp [nextCmd, hst], hc⟩)
      · rcases runFrame_ent p hh ({ s with stack := rest } : St) f e (fun c cs hf hc => hq ⟨c, cs, hf, hc⟩) with h | h
        · exact Or.inl h
        · exact Or.inr (Or.inl h)
  · split at ht
    · simp only [Option.some.injEq] at ht; subst ht
      rcases startTop_ent ({ s with topIdx := s.topIdx + 1 } : St) s.topIdx _ e with h | h
      · exact Or.inl h
      · exact Or.inr (Or.inl h)
    · cases ht

end Cobweb

namespace Cobweb

theorem applyCmd_dsp_other (s : St) (c : Cmd) (e : Nat) (h : ¬ touchesDsp e c) : (applyCmd s c).tblDsp e = s.tblDsp e := by
  cases c with
  | regDsp e' hd =>
    have hne : e ≠ e' := fun h' => h h'.symm
    simp only [applyCmd]
    split <;> simp [hne]
  | revoke sys trigs =>
    simp only [applyCmd]
    exact revokeAll_dsp_other sys e trigs s (fun t ht heq => h (by subst heq; exact ht))
  | register trigs sys mode => simp only [applyCmd]; cases mode <;> simp [St.push]
  | regEnt rt e' hd => simp only [applyCmd]; split <;> (try split) <;> tclose
  | regType t ty hd => simp only [applyCmd]; split <;> tclose
  | cleanup k => simp [applyCmd]
  | despawn e' => simp [applyCmd]
  | broadcast ty' pid => simp only [applyCmd]; split <;> simp [St.push, St.emit, St.fresh]
  | entityEvent e' ty' pid => simp only [applyCmd]; split <;> simp [St.push, St.emit, St.fresh]
  | ewrCleanupData sys e' wr => simp only [applyCmd]; split <;> (try split) <;> tclose
  | _ => simp only [applyCmd] <;> (try split) <;> tclose

theorem doPoll_tblDsp (s : St) (e : Nat) : (doPoll s).tblDsp e = if e ∈ s.dspChan then [] else s.tblDsp e := by
  simp only [doPoll, St.push, pollDespawns]
  rw [pollDsp_fold_tbl]
  simp

theorem runFrame_dsp (p : Prog) (hh : Hist) (s : St) (f : Frame) (e : Nat)
    (h : ∀ c cs, f = .batch (c :: cs) → ¬ touchesDsp e c) (hp : f ≠ .poll) : (runFrame p hh s f).tblDsp e = s.tblDsp e := by
  cases f with
  | batch cs =>
    cases cs with
    | nil => rfl
    | cons c cs =>
      simp only [runFrame, doBatch]
      rw [applyCmd_dsp_other _ _ _ (h c cs rfl)]; rfl
  | flush => simp only [runFrame, doFlush]; split <;> tclose
  | bodyActs sys k i acc => simp only [runFrame, doBodyActs]; split <;> simp [St.push, St.emit]
  | exclActs sys i => simp only [runFrame, doExclActs]; split <;> simp [St.push, St.emit]
  | topActs t i => simp only [runFrame, doTopActs]; split <;> simp [St.push, St.emit]
  | cleanup k => simp [runFrame]
  | onceTail sys => simp [runFrame, doOnceTail, St.push]
  | dropCallback sys => rfl
  | runnerStart sys k => rfl
  | runnerLookup sys k idx =>
    simp only [runFrame, doRunnerLookup]
    (repeat' split) <;> simp [St.push, St.emit]
  | afterBody sys idx => rfl
  | reinsert sys idx => simp only [runFrame, doReinsert]; (repeat' split) <;> tclose
  | replayTake sys idx => rfl
  | replayLoop sys r kept idx => simp only [runFrame, doReplayLoop]; (repeat' split) <;> tclose
  | finish sys idx => simp only [runFrame, doFinish]; (repeat' split) <;> tclose
  | abort sys k => simp [runFrame]
  | gc => simp only [runFrame, doGc]; split <;> tclose
  | despawnWork work => simp only [runFrame, doDespawnWork]; (repeat' split) <;> simp [St.push]
  | poll => exact absurd rfl hp

theorem startTop_tblDsp (s : St) (t : Nat) (op : TopOp) : (startTop s t op).tblDsp = s.tblDsp := by
  unfold startTop
  cases op <;> dsimp only <;> (try split) <;>
    first
    | rfl
    | (simp [St.push, St.emit]; done)
    | (funext e; rw [applyCmd_dsp_other _ _ _ (by simp [touchesDsp])]; done)
    | (funext e; rw [applyCmd_dsp_other _ _ _ (by simp [touchesDsp])]; simp [St.emit, St.fresh]; done)

/-- **The despawn reactors of an entity move only by `regDsp` on it, a `revoke` naming it, or the poll that consumes its
    death** (which empties the list). -/
theorem despawn_stable {p : Prog} {hh : Hist} {s s' : St} (ht : tick p hh s = some s') (e : Nat) :
    s'.tblDsp e = s.tblDsp e ∨ (e ∈ s.dspChan ∧ s'.tblDsp e = [] ∧ ∃ rest, s.stack = .poll :: rest) ∨
    ∃ c, nextCmd s = some c ∧ touchesDsp e c := by
  unfold tick at ht
  split at ht
  · rename_i s'' hs
    simp only [Option.some.injEq] at ht; subst ht
    unfold step at hs
    cases hst : s.stack with
    | nil => rw [hst] at hs; cases hs
    | cons f rest =>
      rw [hst] at hs
      simp only [Option.some.injEq] at hs; subst hs
      by_cases hpoll : f = .poll
      · subst hpoll
        simp only [runFrame]
        rw [doPoll_tblDsp]
        by_cases hin : e ∈ s.dspChan
        · exact Or.inr (Or.inl ⟨hin, by simp [hin], rest, rfl⟩)
        · exact Or.inl (by simp [hin])
      · by_cases hq : ∃ c cs, f = .batch (c :: cs) ∧ touchesDsp e c
        · obtain ⟨c, cs, rfl, hc⟩ := hq
          exact Or.inr (Or.inr ⟨c, by simp [nextCmd, hst], hc⟩)
        · left
          rw [runFrame_dsp p hh _ f e (fun c cs hf hc => hq ⟨c, cs, hf, hc⟩) hpoll]
  · split at ht
    · simp only [Option.some.injEq] at ht; subst ht
      left; rw [startTop_tblDsp]
    · cases ht

/-! ### runs of steps -/

/-- `s'` is reached from `s` by steps none of which starts in a state satisfying `Q`. -/
inductive QuietRun (p : Prog) (hh : Hist) (Q : St → Prop) : St → St → Prop
  | refl (s : St) : QuietRun p hh Q s s
  | tick {s s1 s' : St} : QuietRun p hh Q s s1 → ¬ Q s1 → tick p hh s1 = some s' → QuietRun p hh Q s s'

/-- **History level, type-wide keys**: over any stretch of an execution in which no `regType` / `revoke` command naming
    the key is applied, the registrations under the key are exactly what they were — whatever else runs in between
    (dispatch, bodies, recursion, despawns, polls, garbage collection). -/
theorem typewide_stable_run {p : Prog} {hh : Hist} (tb : Tbl) (ty : Nat) {s s' : St}
    (h : QuietRun p hh (fun x => ∃ c, nextCmd x = some c ∧ touchesTbl tb ty c) s s') : s'.tbl tb ty = s.tbl tb ty := by
  induction h with
  | refl => rfl
  | tick _ hq ht ih =>
    rcases typewide_stable ht tb ty with h1 | h1
    · rw [h1, ih]
    · exact absurd h1 hq

/-- **History level, entity-scoped keys**: over any stretch in which the entity is alive and no `regEnt` on it / `revoke`
    naming it is applied, its reactor list is exactly what it was. -/
theorem entity_stable_run {p : Prog} {hh : Hist} (e : Nat) {s s' : St}
    (h : QuietRun p hh (fun x => (∃ c, nextCmd x = some c ∧ touchesEnt e c) ∨ x.alive e = false) s s') (halive : s'.alive e = true) :
    s'.entReactors e = s.entReactors e := by
  induction h with
  | refl => rfl
  | @tick s1 s2 _ hq ht ih =>
    have ha1 : s1.alive e = true := by
      cases h : s1.alive e with
      | true => rfl
      | false => exact absurd (Or.inr h) hq
    rcases entity_stable ht e with h1 | h1 | h1
    · rw [h1]; exact ih ha1
    · rw [h1.2] at halive; cases halive
    · exact absurd (Or.inl h1) hq

/-- **History level, despawn reactors**: over any stretch with no `regDsp` on the entity, no `revoke` naming it and no poll
    while its death is on the channel, its despawn reactors are exactly what they were. -/
theorem despawn_stable_run {p : Prog} {hh : Hist} (e : Nat) {s s' : St}
    (h : QuietRun p hh (fun x => (∃ c, nextCmd x = some c ∧ touchesDsp e c) ∨ (e ∈ x.dspChan ∧ ∃ rest, x.stack = .poll :: rest)) s s') :
    s'.tblDsp e = s.tblDsp e := by
  induction h with
  | refl => rfl
  | tick _ hq ht ih =>
    rcases despawn_stable ht e with h1 | h1 | h1
    · rw [h1, ih]
    · exact absurd (Or.inr ⟨h1.1, h1.2.2⟩) hq
    · exact absurd (Or.inl h1) hq

end Cobweb

namespace Cobweb

/-- Commands that may edit the entity-world-reactor local data of entity `e`. -/
def touchesLocal (e : Nat) : Cmd → Prop
  | .ewrInsertLocal e' _ _ => e' = e
  | .ewrCleanupData _ e' _ => e' = e
  | _ => False

/-- The local data of `e` is unchanged, or `e` died in this step. -/
def LocStep (e : Nat) (s s' : St) : Prop := s'.ewLocal e = s.ewLocal e ∨ (s.alive e = true ∧ s'.alive e = false)

theorem LocStep.post {e : Nat} {s s1 s2 : St} (h : LocStep e s s1) (h1 : s2.ewLocal = s1.ewLocal) (h2 : s2.alive = s1.alive) :
    LocStep e s s2 := by
  rcases h with h | h
  · exact Or.inl (by rw [h1, h])
  · exact Or.inr ⟨h.1, by rw [h2]; exact h.2⟩

theorem LocStep.pre {e : Nat} {s s1 s2 : St} (h1 : s1.ewLocal = s.ewLocal) (h2 : s1.alive = s.alive) (h : LocStep e s1 s2) :
    LocStep e s s2 := by
  rcases h with h | h
  · exact Or.inl (by rw [h, h1])
  · exact Or.inr ⟨by rw [← h2]; exact h.1, h.2⟩

theorem kill_ewLocal_other (s : St) (e x : Nat) (h : x ≠ e) : (kill s e).ewLocal x = s.ewLocal x := by
  simp [kill, h]

theorem locStep_kill (s : St) (e x : Nat) (ha : s.alive e = true) : LocStep x s (kill s e) := by
  by_cases hx : x = e
  · subst hx; exact Or.inr ⟨ha, by simp⟩
  · exact Or.inl (kill_ewLocal_other s e x hx)

theorem locStep_despawn1 (s : St) (e x : Nat) : LocStep x s (despawn1 s e) := by
  unfold despawn1
  split
  · rename_i h; exact locStep_kill s e x h
  · exact Or.inl rfl

theorem locStep_tryCleanupData (s : St) (d x : Nat) : LocStep x s (tryCleanupData s d) := by
  by_cases hx : x = d
  · subst hx
    unfold tryCleanupData
    split
    · rename_i ha
      split
      · split
        · exact Or.inl rfl
        · dsimp only
          split
          · exact Or.inr ⟨ha, by simp⟩
          · exact Or.inl rfl
      · exact Or.inl rfl
    · exact Or.inl rfl
  · left
    unfold tryCleanupData
    (repeat' split) <;> first | rfl | (dsimp only; split <;> first | rfl | (rw [kill_ewLocal_other _ _ _ hx]))

theorem locStep_cleanupK (s : St) (k : Kind) (x : Nat) : LocStep x s (cleanupK s k) := by
  unfold cleanupK
  cases k <;> dsimp only
  · exact Or.inl rfl
  · exact LocStep.pre (s1 := ({ s with trkSys := { s.trkSys with reacting := false } } : St)) rfl rfl (locStep_despawn1 _ _ x)
  · exact Or.inl rfl
  · split <;> exact Or.inl (by simp)
  · exact LocStep.pre (s1 := ({ s with trkEnt := { s.trkEnt with reacting := false }, trkEvt := { s.trkEvt with reacting := false } } : St)) rfl rfl
      (locStep_tryCleanupData _ _ x)
  · exact LocStep.pre (s1 := ({ s with trkEvt := { s.trkEvt with reacting := false } } : St)) rfl rfl (locStep_tryCleanupData _ _ x)

theorem applyCmd_loc_other (s : St) (c : Cmd) (e : Nat) (h : ¬ touchesLocal e c) : LocStep e s (applyCmd s c) := by
  cases c with
  | ewrInsertLocal e' wr v =>
    have hne : e ≠ e' := fun h' => h h'.symm
    simp only [applyCmd]; split <;> exact Or.inl (by simp [hne])
  | ewrCleanupData sys e' wr =>
    have hne : e ≠ e' := fun h' => h h'.symm
    simp only [applyCmd]; split <;> (try split) <;> exact Or.inl (by simp [hne])
  | revoke sys trigs => simp only [applyCmd]; exact Or.inl (by simp)
  | register trigs sys mode => simp only [applyCmd]; cases mode <;> exact Or.inl (by simp [St.push])
  | regType t ty hd => simp only [applyCmd]; split <;> eclose
  | regEnt rt e' hd => simp only [applyCmd]; split <;> (try split) <;> eclose
  | regDsp e' hd => simp only [applyCmd]; split <;> eclose
  | cleanup k => simp only [applyCmd]; exact locStep_cleanupK s k e
  | despawn e' => simp only [applyCmd]; exact locStep_despawn1 s e' e
  | broadcast ty' pid => simp only [applyCmd]; split <;> eclose
  | entityEvent e' ty' pid => simp only [applyCmd]; split <;> eclose
  | _ => simp only [applyCmd] <;> (try split) <;> eclose

/-! The scripted body of an entity world reactor writes the local data of the entity that caused the run (`EntityLocal::get_mut`,
`bumpLocal`): the one other way local data moves. -/

theorem readLocal_congr {s s' : St} (h1 : s'.trkEnt = s.trkEnt) (h2 : s'.ewrSys = s.ewrSys) (h3 : s'.ewLocal = s.ewLocal) (wr : Nat) :
    readLocal s' wr = readLocal s wr := by
  simp only [readLocal, h1, h2, h3]

theorem bumpLocal_ewLocal_other (s : St) (w : Option Nat) (e : Nat)
    (h : ∀ wr v, w = some wr → readLocal s wr ≠ some (e, v)) : (bumpLocal s w).ewLocal e = s.ewLocal e := by
  unfold bumpLocal
  cases w with
  | none => rfl
  | some wr =>
    dsimp only
    cases hr : readLocal s wr with
    | none => rfl
    | some ev =>
      obtain ⟨e', v⟩ := ev
      have hne : e ≠ e' := by
        intro he; subst he; exact h wr v rfl hr
      simp [upd, hne]

/-- The entity whose local data a run started by this lookup writes, if any. -/
def runBumps (s : St) (sys : Nat) (k : Kind) : Option Nat :=
  match ewrOf s sys with
  | some wr => (readLocal (setupK s k sys) wr).map (·.1)
  | none => none

theorem setupK_trkEnt_congr {s s' : St} (h : s'.trkEnt = s.trkEnt) (h2 : s'.trkDsp = s.trkDsp) (k : Kind) (sys : Nat) :
    (setupK s' k sys).trkEnt = (setupK s k sys).trkEnt := by
  cases k <;> simp only [setupK, h]
  case dspReact src hd => rw [h2]; split <;> simp [h]

theorem observe_ewLocal_other (s : St) (w : Option Nat) (e : Nat)
    (h : ∀ wr v, w = some wr → readLocal s wr ≠ some (e, v)) : (observe s w).2.ewLocal e = s.ewLocal e := by
  unfold observe
  dsimp only
  rw [bumpLocal_ewLocal_other]
  · split
    · split <;> rfl
    · rfl
  · intro wr v hw
    rw [readLocal_congr (s := s)]
    · exact h wr v hw
    all_goals (split <;> (try split) <;> rfl)

theorem startBody_ewLocal_other (s : St) (sys : Nat) (k : Kind) (e : Nat) (h : runBumps s sys k ≠ some e) :
    (startBody s sys k).ewLocal e = s.ewLocal e := by
  have hfold : ∀ (l : List Nat) (t : St), (l.foldl (fun (s : St) pid => s.emit (Ev.dropPayload pid)) t).ewLocal = t.ewLocal := by
    intro l; induction l with
    | nil => intro t; rfl
    | cons x l ih => intro t; exact (ih _).trans rfl
  unfold startBody
  dsimp only
  rw [hfold]
  show (observe (preBody s sys k) (ewrOf (preBody s sys k) sys)).2.ewLocal e = _
  rw [observe_ewLocal_other]
  · simp
  · intro wr v hw hr
    apply h
    have hw' : ewrOf s sys = some wr := by
      rw [← hw]; simp [ewrOf]
    have ht : (preBody s sys k).trkEnt = (setupK s k sys).trkEnt := by
      unfold preBody; dsimp only; split <;> rfl
    have hr' : readLocal (setupK s k sys) wr = some (e, v) := by
      rw [← hr]; exact (readLocal_congr ht (by simp) (by simp) wr).symm
    simp [runBumps, hw', hr']

theorem runFrame_loc (p : Prog) (hh : Hist) (s : St) (f : Frame) (e : Nat)
    (h : ∀ c cs, f = .batch (c :: cs) → ¬ touchesLocal e c)
    (hrun : ∀ sys k idx, f = .runnerLookup sys k idx → runBumps s sys k ≠ some e) : LocStep e s (runFrame p hh s f) := by
  cases f with
  | batch cs =>
    cases cs with
    | nil => exact Or.inl rfl
    | cons c cs =>
      simp only [runFrame, doBatch]
      exact LocStep.pre (s1 := s.push [.flush, .batch cs]) rfl rfl (applyCmd_loc_other _ c e (h c cs rfl))
  | flush => simp only [runFrame, doFlush]; split <;> eclose
  | bodyActs sys k i acc => simp only [runFrame, doBodyActs]; split <;> exact Or.inl (by simp [St.push, St.emit])
  | exclActs sys i => simp only [runFrame, doExclActs]; split <;> exact Or.inl (by simp [St.push, St.emit])
  | topActs t i => simp only [runFrame, doTopActs]; split <;> exact Or.inl (by simp [St.push, St.emit])
  | cleanup k => exact locStep_cleanupK s k e
  | onceTail sys =>
    simp only [runFrame, doOnceTail]
    exact (locStep_despawn1 s sys e).post rfl rfl
  | dropCallback sys => exact Or.inl rfl
  | runnerStart sys k => exact Or.inl rfl
  | runnerLookup sys k idx =>
    have hb : ∀ s1 : St, s1.trkEnt = s.trkEnt → s1.trkDsp = s.trkDsp → s1.ewrSys = s.ewrSys → s1.ewLocal = s.ewLocal →
        (startBody s1 sys k).ewLocal e = s.ewLocal e := by
      intro s1 h1 h1d h2 h3
      rw [startBody_ewLocal_other, h3]
      have : runBumps s1 sys k = runBumps s sys k := by
        have he : ewrOf s1 sys = ewrOf s sys := by simp [ewrOf, h2]
        simp only [runBumps, he]
        split
        · rename_i wr _
          rw [readLocal_congr (setupK_trkEnt_congr h1 h1d k sys) (by simp [h2]) (by simp [h3]) wr]
        · rfl
      rw [this]; exact hrun sys k idx rfl
    simp only [runFrame, doRunnerLookup]
    (repeat' split) <;> refine Or.inl ?_ <;> first
      | (simp [St.push, St.emit]; done)
      | (simp only [St.push]; exact hb _ rfl rfl rfl rfl)
  | afterBody sys idx => exact Or.inl rfl
  | reinsert sys idx => simp only [runFrame, doReinsert]; (repeat' split) <;> eclose
  | replayTake sys idx => exact Or.inl rfl
  | replayLoop sys r kept idx => simp only [runFrame, doReplayLoop]; (repeat' split) <;> eclose
  | finish sys idx => simp only [runFrame, doFinish]; (repeat' split) <;> eclose
  | abort sys k =>
    simp only [runFrame]
    exact LocStep.pre (s1 := setupK s k sys) (by simp) (by simp) (locStep_cleanupK _ k e)
  | gc => simp only [runFrame, doGc]; split <;> eclose
  | despawnWork work =>
    simp only [runFrame, doDespawnWork]
    split
    · exact Or.inl rfl
    · split
      · split
        · exact (locStep_despawn1 s _ e).post rfl rfl
        · eclose
      · split <;> eclose
  | poll => exact Or.inl (by simp [runFrame, doPoll, St.push])

theorem startTop_loc (s : St) (t : Nat) (op : TopOp) (e : Nat) : LocStep e s (startTop s t op) := by
  unfold startTop
  cases op <;> dsimp only
  case wDespawn x => exact LocStep.pre (s1 := s.emit (.top t)) rfl rfl (locStep_despawn1 _ x e)
  case wRemove x ty => exact LocStep.pre (s1 := s.emit (.top t)) rfl rfl (applyCmd_loc_other _ _ e (by simp [touchesLocal]))
  case wInsertRaw x ty v => exact LocStep.pre (s1 := s.emit (.top t)) rfl rfl (applyCmd_loc_other _ _ e (by simp [touchesLocal]))
  case wSysEvent sys ty pid => exact Or.inl (by simp [applyCmd, St.push, St.emit, St.fresh])
  case wBroadcast ty pid => exact LocStep.pre (s1 := (s.emit (.top t)).emit (.send pid)) rfl rfl (applyCmd_loc_other _ _ e (by simp [touchesLocal]))
  case wEntityEvent x ty pid => exact LocStep.pre (s1 := (s.emit (.top t)).emit (.send pid)) rfl rfl (applyCmd_loc_other _ _ e (by simp [touchesLocal]))
  all_goals (try split) <;> exact Or.inl (by first | rfl | (simp [St.push, St.emit]; done))

/-- The next step is the lookup that starts a run of an entity world reactor caused by `e`: the scripted body writes `e`'s
    local data (`EntityLocal::get_mut`). -/
def startsRunFor (e : Nat) (s : St) : Prop :=
  ∃ sys k idx rest, s.stack = .runnerLookup sys k idx :: rest ∧ runBumps ({ s with stack := rest } : St) sys k = some e

/-- **Entity-world-reactor local data moves only by the reactor's own add / remove commands on that entity, by a run of the
    reactor caused by that entity, or by the entity's death.** -/
theorem local_stable {p : Prog} {hh : Hist} {s s' : St} (ht : tick p hh s = some s') (e : Nat) :
    s'.ewLocal e = s.ewLocal e ∨ (s.alive e = true ∧ s'.alive e = false) ∨ (∃ c, nextCmd s = some c ∧ touchesLocal e c) ∨
    startsRunFor e s := by
  unfold tick at ht
  split at ht
  · rename_i s'' hs
    simp only [Option.some.injEq] at ht; subst ht
    unfold step at hs
    cases hst : s.stack with
    | nil => rw [hst] at hs; cases hs
    | cons f rest =>
      rw [hst] at hs
      simp only [Option.some.injEq] at hs; subst hs
      by_cases hq : ∃ c cs, f = .batch (c :: cs) ∧ touchesLocal e c
      · obtain ⟨c, cs, rfl, hc⟩ := hq
        exact Or.inr (Or.inr (Or.inl ⟨c, by simp [nextCmd, hst], hc⟩))
      · by_cases hb : ∃ sys k idx, f = .runnerLookup sys k idx ∧ runBumps ({ s with stack := rest } : St) sys k = some e
        · obtain ⟨sys, k, idx, rfl, hbe⟩ := hb
          exact Or.inr (Or.inr (Or.inr ⟨sys, k, idx, rest, hst, hbe⟩))
        · rcases runFrame_loc p hh ({ s with stack := rest } : St) f e (fun c cs hf hc => hq ⟨c, cs, hf, hc⟩)
              (fun sys k idx hf hbe => hb ⟨sys, k, idx, hf, hbe⟩) with h | h
          · exact Or.inl h
          · exact Or.inr (Or.inl h)
  · split at ht
    · simp only [Option.some.injEq] at ht; subst ht
      rcases startTop_loc ({ s with topIdx := s.topIdx + 1 } : St) s.topIdx _ e with h | h
      · exact Or.inl h
      · exact Or.inr (Or.inl h)
    · cases ht

theorem local_stable_run {p : Prog} {hh : Hist} (e : Nat) {s s' : St}
    (h : QuietRun p hh (fun x => ((∃ c, nextCmd x = some c ∧ touchesLocal e c) ∨ startsRunFor e x) ∨ x.alive e = false) s s')
    (halive : s'.alive e = true) : s'.ewLocal e = s.ewLocal e := by
  induction h with
  | refl => rfl
  | @tick s1 s2 _ hq ht ih =>
    have ha1 : s1.alive e = true := by
      cases h : s1.alive e with
      | true => rfl
      | false => exact absurd (Or.inr h) hq
    rcases local_stable ht e with h1 | h1 | h1 | h1
    · rw [h1]; exact ih ha1
    · rw [h1.2] at halive; cases halive
    · exact absurd (Or.inl (Or.inl h1)) hq
    · exact absurd (Or.inl (Or.inr h1)) hq

end Cobweb
