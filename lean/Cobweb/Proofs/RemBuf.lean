/-
  Cobweb.Proofs.RemBuf — the removal buffers only grow, except where a poll reads them or `clear_trackers` ages them:
  `Ext s s'` (every buffer of `s'` extends the one of `s`) holds for every frame but `poll` and every top-level operation
  but `clearTrackers`.
-/
import Cobweb.Proofs.Removed

namespace Cobweb

/-- Every removal buffer of `s'` is the one of `s` plus newer events. -/
def Ext (s s' : St) : Prop := ∀ ty, ∃ l, s'.removedBuf ty = s.removedBuf ty ++ l

theorem Ext.refl (s : St) : Ext s s := fun _ => ⟨[], by simp⟩

theorem Ext.of_eq {s s' : St} (h : s'.removedBuf = s.removedBuf) : Ext s s' := fun ty => ⟨[], by simp [h]⟩

theorem Ext.trans {a b c : St} (h1 : Ext a b) (h2 : Ext b c) : Ext a c := by
  intro ty
  obtain ⟨l1, e1⟩ := h1 ty
  obtain ⟨l2, e2⟩ := h2 ty
  exact ⟨l1 ++ l2, by rw [e2, e1, List.append_assoc]⟩

theorem killComps_fold_ext (e : Nat) (l : List (Nat × Nat)) (s : St) :
    Ext s (l.foldl (fun (s : St) (p : Nat × Nat) => { s with removedBuf := upd s.removedBuf p.1 (s.removedBuf p.1 ++ [e]) }) s) := by
  induction l generalizing s with
  | nil => exact Ext.refl s
  | cons p l ih =>
    rw [List.foldl_cons]
    refine Ext.trans ?_ (ih _)
    intro ty
    by_cases h : ty = p.1
    · exact ⟨[e], by simp [upd, h]⟩
    · exact ⟨[], by simp [upd, h]⟩

theorem killComps_ext (s : St) (e : Nat) : Ext s (killComps s e) := by
  intro ty
  obtain ⟨l, hl⟩ := killComps_fold_ext e (s.comp e) s ty
  exact ⟨l, by simpa [killComps] using hl⟩

theorem kill_ext (s : St) (e : Nat) : Ext s (kill s e) := by
  intro ty
  obtain ⟨l, hl⟩ := killComps_ext (killReactors (killStorage (killCanary s e) e) e) e ty
  exact ⟨l, by simpa [kill] using hl⟩

theorem despawn1_ext (s : St) (e : Nat) : Ext s (despawn1 s e) := by
  unfold despawn1; split
  · exact kill_ext s e
  · exact Ext.refl s

theorem tryCleanupData_ext (s : St) (d : Nat) : Ext s (tryCleanupData s d) := by
  unfold tryCleanupData
  split
  · split
    · split
      · exact Ext.refl s
      · dsimp only; split
        · exact (Ext.of_eq (s := s) rfl).trans (kill_ext _ d)
        · exact Ext.of_eq rfl
    · exact Ext.refl s
  · exact Ext.refl s

theorem cleanupK_ext (s : St) (k : Kind) : Ext s (cleanupK s k) := by
  unfold cleanupK
  cases k <;> dsimp only
  case plain => exact Ext.refl s
  case sysEv d => exact (Ext.of_eq (s := s) rfl).trans (despawn1_ext _ _)
  case entReact src rt => exact Ext.of_eq rfl
  case dspReact src h => split <;> exact Ext.of_eq (by simp)
  case entEv t d => exact (Ext.of_eq (s := s) rfl).trans (tryCleanupData_ext _ _)
  case bcEv d => exact (Ext.of_eq (s := s) rfl).trans (tryCleanupData_ext _ _)

theorem applyCmd_ext (s : St) (c : Cmd) : Ext s (applyCmd s c) := by
  cases c <;> simp only [applyCmd]
  case despawn e => exact despawn1_ext s e
  case cleanup k => exact cleanupK_ext s k
  case removeComp e ty =>
    split
    · intro ty'
      by_cases h : ty' = ty
      · exact ⟨[e], by simp [upd, h]⟩
      · exact ⟨[], by simp [upd, h]⟩
    · exact Ext.refl s
  all_goals (repeat' (first | split | dsimp only)) <;> exact Ext.of_eq (by simp [St.push, St.emit, St.fresh])

theorem doBatch_ext (s : St) (cs : List Cmd) : Ext s (doBatch s cs) := by
  cases cs with
  | nil => exact Ext.refl s
  | cons c cs => exact (Ext.of_eq (s := s) rfl).trans (applyCmd_ext _ c)

theorem doDespawnWork_ext (s : St) (w : List (Nat × Bool)) : Ext s (doDespawnWork s w) := by
  unfold doDespawnWork
  split
  · exact Ext.refl s
  · split
    · split
      · exact (despawn1_ext s _).trans (Ext.of_eq rfl)
      · exact Ext.of_eq rfl
    · split <;> exact Ext.of_eq rfl

/-- **No frame but the poll takes anything out of a removal buffer.** -/
theorem runFrame_ext (p : Prog) (h : Hist) (s : St) (f : Frame) (hf : f ≠ .poll) : Ext s (runFrame p h s f) := by
  cases f <;> simp only [runFrame]
  case poll => exact absurd rfl hf
  case batch cs => exact doBatch_ext s cs
  case cleanup k => exact cleanupK_ext s k
  case onceTail sys => exact (despawn1_ext s sys).trans (Ext.of_eq (by simp [doOnceTail, St.push]))
  case abort sys k => exact (Ext.of_eq (s := s) (by simp)).trans (cleanupK_ext _ k)
  case despawnWork w => exact doDespawnWork_ext s w
  all_goals exact Ext.of_eq (by simp)

/-- The poll empties the buffers of the tracked types and leaves the others alone. -/
theorem doPoll_buf (s : St) (ty : Nat) : (doPoll s).removedBuf ty = if ty ∈ s.tracked then [] else s.removedBuf ty := by
  simp [doPoll, St.push, pollRemovals_buf]

theorem startTop_ext (s : St) (t : Nat) (op : TopOp) (hne : op ≠ .clearTrackers) : Ext s (startTop s t op) := by
  unfold startTop
  cases op <;> dsimp only
  case clearTrackers => exact absurd rfl hne
  case wDespawn e => exact (Ext.of_eq (s := s) rfl).trans (despawn1_ext _ e)
  case wRemove e ty => exact (Ext.of_eq (s := s) rfl).trans (applyCmd_ext _ _)
  case wInsertRaw e ty v => exact (Ext.of_eq (s := s) rfl).trans (applyCmd_ext _ _)
  case wSysEvent sys ty pid => exact (Ext.of_eq (s := s) rfl).trans (applyCmd_ext _ _)
  case wBroadcast ty pid => exact (Ext.of_eq (s := s) rfl).trans (applyCmd_ext _ _)
  case wEntityEvent e ty pid => exact (Ext.of_eq (s := s) rfl).trans (applyCmd_ext _ _)
  all_goals (repeat' (first | split | dsimp only)) <;> exact Ext.of_eq (by simp [St.push, St.emit, newArc])

/-- A tick that does not run a poll frame. -/
def NotPoll (s : St) : Prop := ∀ rest, s.stack ≠ Frame.poll :: rest

/-- **Removal events are only ever taken out by a poll or by `clear_trackers`**: any other tick keeps every buffered
    event, in order, and only appends. -/
theorem tick_ext (p : Prog) (h : Hist) {s s' : St} (ht : tick p h s = some s') (hn : NotClear p h s) (hp : NotPoll s) : Ext s s' := by
  unfold tick at ht
  split at ht
  · rename_i s'' hs
    simp only [Option.some.injEq] at ht; subst ht
    unfold step at hs
    split at hs
    · cases hs
    · rename_i f rest hst
      simp only [Option.some.injEq] at hs; subst hs
      exact (Ext.of_eq (s := s) rfl).trans (runFrame_ext p h _ f (fun e => hp rest (by rw [hst, e])))
  · rename_i hnone
    split at ht
    · rename_i op hop
      simp only [Option.some.injEq] at ht; subst ht
      exact (Ext.of_eq (s := s) rfl).trans (startTop_ext _ _ op (fun e => hn hnone (by rw [hop, e])))
    · cases ht

/-- The tick that runs a poll frame: tracked types are read completely, the others untouched. -/
theorem tick_poll (p : Prog) (h : Hist) {s s' : St} {rest : List Frame} (ht : tick p h s = some s') (hst : s.stack = Frame.poll :: rest)
    (ty : Nat) : s'.removedBuf ty = if ty ∈ s.tracked then [] else s.removedBuf ty := by
  unfold tick at ht
  have hs : step p h s = some (runFrame p h { s with stack := rest } .poll) := by unfold step; rw [hst]
  rw [hs] at ht
  simp only [Option.some.injEq] at ht; subst ht
  simp only [runFrame]
  rw [doPoll_buf]

end Cobweb

namespace Cobweb

/-! ### one removal checker per component type -/

theorem applyCmd_tracked_nodup (s : St) (c : Cmd) (h : s.tracked.Nodup) : (applyCmd s c).tracked.Nodup := by
  cases c <;> simp only [applyCmd]
  case regType t ty hd =>
    simp only [setTbl]
    split
    · rename_i hc
      refine List.nodup_append.mpr ⟨h, by simp, ?_⟩
      intro a ha b hb
      simp at hb; subst hb
      intro e; subst e
      simp [ha] at hc
    · exact h
  case trackRemovals ty =>
    split
    · exact h
    · rename_i hc
      refine List.nodup_append.mpr ⟨h, by simp, ?_⟩
      intro a ha b hb
      simp at hb; subst hb
      intro e; subst e
      simp [ha] at hc
  all_goals (repeat' (first | split | dsimp only)) <;> simpa [St.push, St.emit, St.fresh] using h

theorem runFrame_tracked_nodup (p : Prog) (hh : Hist) (s : St) (f : Frame) (h : s.tracked.Nodup) : (runFrame p hh s f).tracked.Nodup := by
  cases f <;> simp only [runFrame]
  case batch cs =>
    cases cs with
    | nil => exact h
    | cons c cs => exact applyCmd_tracked_nodup _ c (by simpa [St.push] using h)
  all_goals simpa using h

theorem startTop_tracked_nodup (s : St) (t : Nat) (op : TopOp) (h : s.tracked.Nodup) : (startTop s t op).tracked.Nodup := by
  unfold startTop
  cases op <;> dsimp only
  case wRemove e ty => exact applyCmd_tracked_nodup _ _ (by simpa [St.emit] using h)
  case wInsertRaw e ty v => exact applyCmd_tracked_nodup _ _ (by simpa [St.emit] using h)
  case wSysEvent sys ty pid => exact applyCmd_tracked_nodup _ _ (by simpa [St.emit, St.fresh] using h)
  case wBroadcast ty pid => exact applyCmd_tracked_nodup _ _ (by simpa [St.emit] using h)
  case wEntityEvent e ty pid => exact applyCmd_tracked_nodup _ _ (by simpa [St.emit] using h)
  all_goals (repeat' (first | split | dsimp only)) <;> simpa [St.push, St.emit, newArc] using h

theorem tick_tracked_nodup (p : Prog) (hh : Hist) {s s' : St} (ht : tick p hh s = some s') (h : s.tracked.Nodup) : s'.tracked.Nodup := by
  unfold tick at ht
  split at ht
  · rename_i s'' hs
    simp only [Option.some.injEq] at ht; subst ht
    unfold step at hs
    split at hs
    · cases hs
    · simp only [Option.some.injEq] at hs; subst hs
      exact runFrame_tracked_nodup p hh _ _ h
  · split at ht
    · simp only [Option.some.injEq] at ht; subst ht
      exact startTop_tracked_nodup _ _ _ h
    · cases ht

/-- **At most one removal checker per component type**, in every reachable state. -/
theorem tracked_nodup_reach {p : Prog} {hh : Hist} {s : St} (hr : Reach p hh ({} : St) s) : s.tracked.Nodup := by
  induction hr with
  | refl => exact List.nodup_nil
  | tick _ ht ih => exact tick_tracked_nodup p hh ht ih

/-! ### what one poll queues -/

theorem removalCmdsFor_congr {s s' : St} (h1 : s'.entReactors = s.entReactors) (h2 : s'.tbl = s.tbl) (ty e : Nat) :
    removalCmdsFor s' ty e = removalCmdsFor s ty e := by
  simp [removalCmdsFor, entListeners, h1, h2]

theorem pollRem_fold_same (tys : List Nat) (acc : St × List Cmd) :
    (tys.foldl pollRemStep acc).1.entReactors = acc.1.entReactors ∧ (tys.foldl pollRemStep acc).1.tbl = acc.1.tbl := by
  induction tys generalizing acc with
  | nil => exact ⟨rfl, rfl⟩
  | cons t tys ih => rw [List.foldl_cons]; exact ⟨(ih _).1.trans rfl, (ih _).2.trans rfl⟩

theorem pollRem_fold_cmds (s : St) (tys : List Nat) (hnd : tys.Nodup) (acc : St × List Cmd)
    (he : acc.1.entReactors = s.entReactors) (ht : acc.1.tbl = s.tbl) :
    (tys.foldl pollRemStep acc).2 = acc.2 ++ tys.flatMap (fun ty => (acc.1.removedBuf ty).flatMap (removalCmdsFor s ty)) := by
  induction tys generalizing acc with
  | nil => simp
  | cons t tys ih =>
    have hnd' := List.nodup_cons.mp hnd
    rw [List.foldl_cons, ih hnd'.2 _ (by simpa [pollRemStep] using he) (by simpa [pollRemStep] using ht)]
    simp only [pollRemStep, List.flatMap_cons, List.append_assoc]
    have e1 : (acc.1.removedBuf t).flatMap (removalCmdsFor acc.1 t) = (acc.1.removedBuf t).flatMap (removalCmdsFor s t) := by
      congr 1; funext e; exact removalCmdsFor_congr he ht t e
    rw [e1]
    congr 2
    have hrest : ∀ (l : List Nat), (∀ ty ∈ l, ty ≠ t) →
        l.flatMap (fun ty => (upd acc.1.removedBuf t [] ty).flatMap (removalCmdsFor s ty)) =
        l.flatMap (fun ty => (acc.1.removedBuf ty).flatMap (removalCmdsFor s ty)) := by
      intro l
      induction l with
      | nil => intro _; rfl
      | cons y ys ihy =>
        intro hne
        simp only [List.flatMap_cons]
        rw [ihy (fun ty hty => hne ty (List.mem_cons_of_mem _ hty))]
        simp [upd, hne y List.mem_cons_self]
    exact hrest tys (fun ty hty e => hnd'.1 (e ▸ hty))

/-- **What a poll queues for removals**: for every tracked type, in checker order, and every buffered removal of it, in
    the order recorded: the entity-scoped removal listeners of that entity, then the type-wide ones — one reaction each. -/
theorem pollRemovals_cmds (s : St) (hnd : s.tracked.Nodup) :
    (pollRemovals s).2 = s.tracked.flatMap (fun ty => (s.removedBuf ty).flatMap (removalCmdsFor s ty)) := by
  unfold pollRemovals
  rw [pollRem_fold_cmds s _ hnd _ rfl rfl]
  simp

end Cobweb
