/-
  Cobweb.Proofs.Tables — registration tables: counting registrations, and how `removeFirst` (the type-wide revoke)
  and the entity-scoped `filter` (drain_filter) change the counts.
-/
import Cobweb.Machine

namespace Cobweb

/-- Number of registrations of reactor `sys` in a handle list. -/
def cntH (l : List Handle) (sys : Nat) : Nat := (l.filter (fun h => h.sys == sys)).length

/-- Registrations of `sys` under the type-wide key `(t, ty)`. -/
def cntTbl (s : St) (t : Tbl) (ty sys : Nat) : Nat := cntH (s.tbl t ty) sys
/-- Despawn registrations of `sys` for entity `e`. -/
def cntDsp (s : St) (e sys : Nat) : Nat := cntH (s.tblDsp e) sys
/-- Entity-scoped registrations of `sys` for `(e, rt)`. -/
def cntEnt (s : St) (e : Nat) (rt : RType) (sys : Nat) : Nat :=
  match s.entReactors e with
  | some l => (l.filter (fun p => p.1 == rt && p.2.sys == sys)).length
  | none => 0

theorem removeFirst_cons_pos {α : Type} (p : α → Bool) (a : α) (l : List α) (h : p a = true) :
    removeFirst p (a :: l) = (some a, l) := by simp [removeFirst, h]
theorem removeFirst_cons_neg {α : Type} (p : α → Bool) (a : α) (l : List α) (h : p a = false) :
    removeFirst p (a :: l) = ((removeFirst p l).1, a :: (removeFirst p l).2) := by simp [removeFirst, h]

theorem cntH_cons (a : Handle) (l : List Handle) (sys : Nat) :
    cntH (a :: l) sys = (if a.sys = sys then 1 else 0) + cntH l sys := by
  by_cases h : a.sys = sys <;> simp [cntH, List.filter_cons, h] <;> omega

theorem removeFirst_snd_other (sys other : Nat) (hne : other ≠ sys) (l : List Handle) :
    cntH (removeFirst (fun h => h.sys == sys) l).2 other = cntH l other := by
  induction l with
  | nil => rfl
  | cons a l ih =>
    by_cases ha : a.sys = sys
    · rw [removeFirst_cons_pos _ _ _ (by simpa using ha), cntH_cons]
      have : a.sys ≠ other := fun h => hne (h.symm.trans ha)
      simp [this]
    · rw [removeFirst_cons_neg _ _ _ (by simpa using ha)]
      show cntH (a :: _) other = _
      rw [cntH_cons, cntH_cons, ih]

theorem removeFirst_snd_self (sys : Nat) (l : List Handle) :
    cntH (removeFirst (fun h => h.sys == sys) l).2 sys = cntH l sys - 1 := by
  induction l with
  | nil => rfl
  | cons a l ih =>
    by_cases ha : a.sys = sys
    · rw [removeFirst_cons_pos _ _ _ (by simpa using ha), cntH_cons]; simp [ha]
    · rw [removeFirst_cons_neg _ _ _ (by simpa using ha)]
      show cntH (a :: _) sys = _
      rw [cntH_cons, cntH_cons, ih]; simp [ha]

theorem removeFirst_fst_none (sys : Nat) (l : List Handle) (h : cntH l sys = 0) :
    removeFirst (fun h => h.sys == sys) l = (none, l) := by
  induction l with
  | nil => rfl
  | cons a l ih =>
    rw [cntH_cons] at h
    by_cases ha : a.sys = sys
    · simp [ha] at h
    · simp [ha] at h
      rw [removeFirst_cons_neg _ _ _ (by simpa using ha), ih h]

/-- The relative order of the other reactors' registrations is untouched by a revoke. -/
theorem removeFirst_filter_other (sys : Nat) (l : List Handle) :
    (removeFirst (fun h => h.sys == sys) l).2.filter (fun h => !(h.sys == sys)) = l.filter (fun h => !(h.sys == sys)) := by
  induction l with
  | nil => rfl
  | cons a l ih =>
    by_cases ha : a.sys = sys
    · rw [removeFirst_cons_pos _ _ _ (by simpa using ha)]; simp [ha]
    · rw [removeFirst_cons_neg _ _ _ (by simpa using ha)]
      simp [List.filter_cons, ha, ih]

end Cobweb
