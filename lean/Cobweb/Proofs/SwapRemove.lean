/-
  Cobweb.Proofs.SwapRemove — `Vec::swap_remove` removes exactly the element at the index (as a multiset).
-/
import Cobweb.Proofs.Trackers

namespace Cobweb

theorem swapRemove_perm {α : Type} (a : List α) (x : α) (b : List α) :
    (swapRemove (a ++ x :: b) a.length).Perm (a ++ b) := by
  unfold swapRemove
  by_cases hb : b = []
  · subst hb
    have : ¬ (a.length + 1 < (a ++ [x]).length) := by simp
    simp only [this, ↓reduceIte]
    simp
  · obtain ⟨b', z, rfl⟩ : ∃ b' z, b = b' ++ [z] := ⟨b.dropLast, b.getLast hb, (List.dropLast_concat_getLast hb).symm⟩
    have hlen : a.length + 1 < (a ++ x :: (b' ++ [z])).length := by simp
    simp only [hlen, ↓reduceIte]
    have hlast : (a ++ x :: (b' ++ [z])).getLast? = some z := by
      have : a ++ x :: (b' ++ [z]) = (a ++ x :: b') ++ [z] := by simp
      rw [this, List.getLast?_concat]
    rw [hlast]
    simp only
    have hset : (a ++ x :: (b' ++ [z])).set a.length z = a ++ z :: (b' ++ [z]) := by
      rw [List.set_append_right _ _ (Nat.le_refl _)]; simp
    rw [hset]
    have hdl : (a ++ z :: (b' ++ [z])).dropLast = a ++ z :: b' := by
      have : a ++ z :: (b' ++ [z]) = (a ++ z :: b') ++ [z] := by simp
      rw [this, List.dropLast_concat]
    rw [hdl]
    -- a ++ z :: b'  ~  a ++ (b' ++ [z])
    apply List.Perm.append_left
    exact (List.perm_append_singleton z b').symm

end Cobweb
