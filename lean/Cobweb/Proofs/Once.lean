/-
  Cobweb.Proofs.Once — the `once` wrapper: a one-off reactor whose inner system has been taken is alive only while it is
  still on the control stack with its `onceTail` frame above it. Consequently the "already taken" branch of the wrapper
  is never reached, and the inner system runs at most once.
-/
import Cobweb.Proofs.Local
import Cobweb.Proofs.Kill

namespace Cobweb

/-- A one-off reactor whose inner system was taken and whose entity still exists. -/
def OnceLive (s : St) (sys : Nat) : Prop :=
  (s.info sys).once.isSome = true ∧ (s.info sys).onceTaken = true ∧ s.alive sys = true

def Frame.tail? : Frame → Option Nat
  | .onceTail sys => some sys
  | _ => none

/-- Walking down the stack: every activation frame of a live taken one-off reactor has its `onceTail` above it. -/
def tailOK (s : St) : List Nat → List Frame → Prop
  | _, [] => True
  | seen, f :: rest =>
    (∀ sys, f.runSys = some sys → OnceLive s sys → sys ∈ seen) ∧
    tailOK s (match f.tail? with | some sys => sys :: seen | none => seen) rest

structure OnceInv (s : St) : Prop where
  running : ∀ sys, OnceLive s sys → sys ∈ running s.stack
  above : tailOK s [] s.stack
  fresh : ∀ e, s.nextEnt ≤ e → (s.info e).onceTaken = false

/-- State changes that cannot make any reactor `OnceLive`. -/
structure Quiet (s s' : St) : Prop where
  info : ∀ x, x < s.nextEnt → s'.info x = s.info x
  freshInfo : ∀ x, s.nextEnt ≤ x → (s'.info x).onceTaken = false
  next : s.nextEnt ≤ s'.nextEnt
  al : ∀ x, s'.alive x = true → s.alive x = true ∨ s.nextEnt ≤ x

theorem Quiet.live {s s' : St} (q : Quiet s s') (x : Nat) (h : OnceLive s' x) : OnceLive s x := by
  obtain ⟨h1, h2, h3⟩ := h
  have hlt : x < s.nextEnt := by
    apply Nat.lt_of_not_le; intro hle
    have := q.freshInfo x hle; rw [h2] at this; cases this
  have hi := q.info x hlt
  rw [hi] at h1 h2
  rcases q.al x h3 with ha | ha
  · exact ⟨h1, h2, ha⟩
  · omega

theorem tailOK_mono {s s' : St} (l : List Frame) : ∀ (A B : List Nat),
    (∀ x, OnceLive s' x → (OnceLive s x ∧ (x ∈ A → x ∈ B)) ∨ x ∈ B) → tailOK s A l → tailOK s' B l := by
  induction l with
  | nil => intro A B _ _; trivial
  | cons f rest ih =>
    intro A B h ht
    obtain ⟨h1, h2⟩ := ht
    refine ⟨?_, ?_⟩
    · intro sys hs hl
      rcases h sys hl with ⟨hl', hab⟩ | hb
      · exact hab (h1 sys hs hl')
      · exact hb
    · cases ht' : f.tail? with
      | none =>
        simp only [ht'] at h2 ⊢
        exact ih A B h h2
      | some t =>
        simp only [ht'] at h2 ⊢
        apply ih (t :: A) (t :: B) _ h2
        intro x hx
        rcases h x hx with ⟨hl', hab⟩ | hb
        · left; refine ⟨hl', ?_⟩
          intro hxa
          rcases List.mem_cons.mp hxa with rfl | hxa'
          · exact List.mem_cons_self
          · exact List.mem_cons_of_mem _ (hab hxa')
        · right; exact List.mem_cons_of_mem _ hb

theorem tailOK_push {s : St} (fs : List Frame) (hfs : ∀ g ∈ fs, g.runSys = none) :
    ∀ (A : List Nat) (rest : List Frame), tailOK s A rest → tailOK s A (fs ++ rest) := by
  induction fs with
  | nil => intro A rest h; exact h
  | cons g fs ih =>
    intro A rest h
    have hg := hfs g (by simp)
    show (∀ sys, g.runSys = some sys → OnceLive s sys → sys ∈ A) ∧ _
    constructor
    · intro sys hs; rw [hg] at hs; cases hs
    cases ht : g.tail? with
    | none => exact ih (fun x hx => hfs x (by simp [hx])) A rest h
    | some t =>
      have h2 : tailOK s (t :: A) rest :=
        tailOK_mono rest A (t :: A) (fun x hx => Or.inl ⟨hx, fun hxa => List.mem_cons_of_mem _ hxa⟩) h
      exact ih (fun x hx => hfs x (by simp [hx])) (t :: A) rest h2

theorem running_append_noRun (fs rest : List Frame) (hfs : ∀ g ∈ fs, g.runSys = none) :
    running (fs ++ rest) = running rest := by
  unfold running
  rw [List.filterMap_append]
  have : fs.filterMap Frame.runSys = [] := List.filterMap_eq_nil_iff.mpr hfs
  rw [this]; rfl

/-- **Generic step**: the popped frame is neither an activation frame nor a `onceTail`, the state change is quiet and
    only frames without activation are pushed. -/
theorem once_generic {s s' : St} {f : Frame} {rest fs : List Frame} (h : OnceInv s) (hs : s.stack = f :: rest)
    (hf : f.runSys = none) (hft : f.tail? = none) (q : Quiet s s') (hst : s'.stack = fs ++ rest)
    (hfs : ∀ g ∈ fs, g.runSys = none) : OnceInv s' := by
  have hr0 : running s.stack = running rest := by rw [hs]; simp [running, hf]
  constructor
  · intro sys hl
    have := h.running sys (q.live sys hl)
    rw [hst, running_append_noRun fs rest hfs, ← hr0]; exact this
  · rw [hst]
    have h0 := h.above; rw [hs] at h0
    have h1 : tailOK s [] rest := by simpa [tailOK, hft] using h0.2
    have h2 : tailOK s' [] rest := tailOK_mono rest [] [] (fun x hx => Or.inl ⟨q.live x hx, id⟩) h1
    exact tailOK_push fs hfs [] rest h2
  · intro e he
    by_cases hlt : e < s.nextEnt
    · rw [q.info e hlt]; exact absurd hlt (by have := Nat.le_trans q.next he; omega)
    · exact q.freshInfo e (by omega)

end Cobweb

namespace Cobweb

theorem quiet_of_benign {s s' : St} (h : OnceInv s) (b : Benign s s') (hi : s'.info = s.info) : Quiet s s' :=
  ⟨fun x _ => by rw [hi], fun x hx => by rw [hi]; exact h.fresh x hx, b.next, b.al⟩

theorem enqueue_info (s : St) (a : Act) :
    (∀ x, x ≠ s.nextEnt → (enqueue s a).1.info x = s.info x) ∧
    ((enqueue s a).1.info s.nextEnt = s.info s.nextEnt ∨ ((enqueue s a).1.info s.nextEnt).onceTaken = false) := by
  cases a <;> simp only [enqueue] <;> (try split) <;> (try split) <;>
    first
    | exact ⟨fun _ _ => rfl, Or.inl rfl⟩
    | (constructor
       · intro x hx; simp [St.fresh, St.emit, upd, hx]
       · simp [St.fresh, St.emit, upd])

theorem quiet_enqueue {s : St} (h : OnceInv s) (a : Act) : Quiet s (enqueue s a).1 := by
  have b := (benignS_enqueue s a).1
  have hi := enqueue_info s a
  refine ⟨fun x hx => hi.1 x (by omega), ?_, b.next, b.al⟩
  intro x hx
  by_cases hxe : x = s.nextEnt
  · subst hxe
    rcases hi.2 with h1 | h1
    · rw [h1]; exact h.fresh _ (Nat.le_refl _)
    · exact h1
  · rw [hi.1 x hxe]; exact h.fresh x hx

end Cobweb

namespace Cobweb

/-- Entities only die or are freshly reserved. -/
structure Grow (s s' : St) : Prop where
  next : s.nextEnt ≤ s'.nextEnt
  al : ∀ x, s'.alive x = true → s.alive x = true ∨ s.nextEnt ≤ x

theorem Benign.grow {s s' : St} (b : Benign s s') : Grow s s' := ⟨b.next, b.al⟩
theorem grow_of_eq {s s' : St} (h1 : s'.nextEnt = s.nextEnt) (h2 : s'.alive = s.alive) : Grow s s' :=
  ⟨by rw [h1]; exact Nat.le_refl _, fun x hx => Or.inl (by rw [h2] at hx; exact hx)⟩

/-- Every frame only lets entities die or reserves fresh ones. -/
theorem grow_runFrame (p : Prog) (h : Hist) (s : St) (f : Frame) : Grow s (runFrame p h s f) := by
  by_cases hin : f.inert = true
  · by_cases hrs : ∃ sys k, f = .runnerStart sys k
    · obtain ⟨sys, k, rfl⟩ := hrs
      exact grow_of_eq (by simp [runFrame]) (by simp [runFrame])
    · have hnr : ∀ sys k, f ≠ .runnerStart sys k := fun sys k hx => hrs ⟨sys, k, hx⟩
      obtain ⟨_, _, _, b⟩ := benignP_runFrame_inert p h s f hin hnr
      exact b.grow
  · cases f with
    | runnerLookup sys k idx => exact grow_of_eq (by simp [runFrame]) (by simp [runFrame])
    | afterBody sys idx => exact grow_of_eq (by simp [runFrame]) (by simp [runFrame])
    | reinsert sys idx => exact grow_of_eq (by simp [runFrame]) (by simp [runFrame])
    | replayTake sys idx => exact grow_of_eq (by simp [runFrame]) (by simp [runFrame])
    | replayLoop sys r kept idx => exact grow_of_eq (by simp [runFrame]) (by simp [runFrame])
    | finish sys idx => exact grow_of_eq (by simp [runFrame]) (by simp [runFrame])
    | _ => exact absurd rfl hin

/-- Frames other than the runner's lookup and the scripted-action frames never touch the per-system info. -/
theorem runFrame_info (p : Prog) (h : Hist) (s : St) (f : Frame)
    (hne : (∀ sys k i acc, f ≠ .bodyActs sys k i acc) ∧ (∀ sys i, f ≠ .exclActs sys i) ∧ (∀ t i, f ≠ .topActs t i) ∧
           (∀ sys k idx, f ≠ .runnerLookup sys k idx)) : (runFrame p h s f).info = s.info := by
  cases f <;> simp [runFrame]
  case bodyActs sys k i acc => exact absurd rfl (hne.1 sys k i acc)
  case exclActs sys i => exact absurd rfl (hne.2.1 sys i)
  case topActs t i => exact absurd rfl (hne.2.2.1 t i)
  case runnerLookup sys k idx => exact absurd rfl (hne.2.2.2 sys k idx)

/-- Quiet for every frame except the runner's lookup (the only place a system's info changes for an existing id). -/
theorem quiet_runFrame (p : Prog) (h : Hist) {s : St} (hf : ∀ e, s.nextEnt ≤ e → (s.info e).onceTaken = false) (f : Frame)
    (hnl : ∀ sys k idx, f ≠ .runnerLookup sys k idx) : Quiet s (runFrame p h s f) := by
  have g := grow_runFrame p h s f
  have hacts : ∀ (a : Act), Quiet s (enqueue s a).1 := by
    intro a
    have b := (benignS_enqueue s a).1
    have hi := enqueue_info s a
    refine ⟨fun x hx => hi.1 x (by omega), ?_, b.next, b.al⟩
    intro x hx
    by_cases hxe : x = s.nextEnt
    · subst hxe
      rcases hi.2 with h1 | h1
      · rw [h1]; exact hf _ (Nat.le_refl _)
      · exact h1
    · rw [hi.1 x hxe]; exact hf x hx
  have hrefl : ∀ s' : St, s'.info = s.info → Grow s s' → Quiet s s' :=
    fun s' hi g => ⟨fun x _ => by rw [hi], fun x hx => by rw [hi]; exact hf x hx, g.next, g.al⟩
  by_cases hb : ∃ sys k i acc, f = .bodyActs sys k i acc
  · obtain ⟨sys, k, i, acc, rfl⟩ := hb
    simp only [runFrame, doBodyActs]
    split
    · exact hrefl _ rfl (grow_of_eq rfl rfl)
    · have q := hacts ‹Act›; exact ⟨q.info, q.freshInfo, q.next, q.al⟩
  by_cases he : ∃ sys i, f = .exclActs sys i
  · obtain ⟨sys, i, rfl⟩ := he
    simp only [runFrame, doExclActs]
    split
    · exact hrefl _ rfl (grow_of_eq rfl rfl)
    · exact hrefl _ rfl (grow_of_eq rfl rfl)
    · have q := hacts ‹Act›; exact ⟨q.info, q.freshInfo, q.next, q.al⟩
  by_cases ht : ∃ t i, f = .topActs t i
  · obtain ⟨t, i, rfl⟩ := ht
    simp only [runFrame, doTopActs]
    split
    · exact hrefl _ rfl (grow_of_eq rfl rfl)
    · have q := hacts ‹Act›; exact ⟨q.info, q.freshInfo, q.next, q.al⟩
  exact hrefl _ (runFrame_info p h s f ⟨fun a b c d hx => hb ⟨a, b, c, d, hx⟩, fun a b hx => he ⟨a, b, hx⟩,
    fun a b hx => ht ⟨a, b, hx⟩, hnl⟩) g

/-- Frames other than `runnerLookup` and `afterBody` push no activation frame. -/
theorem runFrame_noRun (p : Prog) (h : Hist) (s : St) (f : Frame) (hnl : ∀ sys k idx, f ≠ .runnerLookup sys k idx)
    (hna : ∀ sys idx, f ≠ .afterBody sys idx) :
    ∃ fs, (runFrame p h s f).stack = fs ++ s.stack ∧ ∀ g ∈ fs, g.runSys = none := by
  by_cases hin : f.inert = true
  · by_cases hrs : ∃ sys k, f = .runnerStart sys k
    · obtain ⟨sys, k, rfl⟩ := hrs
      refine ⟨[.gc, .poll, .runnerLookup sys k s.counter], by simp [runFrame, doRunnerStart, St.push], ?_⟩
      intro g hg; simp at hg; rcases hg with rfl | rfl | rfl <;> rfl
    · have hnr : ∀ sys k, f ≠ .runnerStart sys k := fun sys k hx => hrs ⟨sys, k, hx⟩
      obtain ⟨fs, hs, hi, _⟩ := benignP_runFrame_inert p h s f hin hnr
      exact ⟨fs, hs, fun g hg => inert_runSys (hi g hg)⟩
  · cases f with
    | runnerLookup sys k idx => exact absurd rfl (hnl sys k idx)
    | afterBody sys idx => exact absurd rfl (hna sys idx)
    | reinsert sys idx =>
      simp only [runFrame, doReinsert]
      split
      · exact ⟨[.poll, .replayTake sys idx], rfl, by intro g hg; simp at hg; rcases hg with rfl | rfl <;> rfl⟩
      · split <;>
          exact ⟨[.despawnWork [(sys, false)], .gc, .poll, .replayTake sys idx], rfl,
                 by intro g hg; simp at hg; rcases hg with rfl | rfl | rfl | rfl <;> rfl⟩
      · split <;>
          exact ⟨[.gc, .poll, .replayTake sys idx], rfl, by intro g hg; simp at hg; rcases hg with rfl | rfl | rfl <;> rfl⟩
    | replayTake sys idx => exact ⟨[.replayLoop sys s.buffered [] idx], rfl, by intro g hg; simp at hg; subst hg; rfl⟩
    | replayLoop sys r kept idx =>
      simp only [runFrame, doReplayLoop]
      split
      · exact ⟨[.finish sys idx], rfl, by intro g hg; simp at hg; subst hg; rfl⟩
      · split
        · exact ⟨_, rfl, by intro g hg; simp at hg; rcases hg with rfl | rfl <;> rfl⟩
        · exact ⟨_, rfl, by intro g hg; simp at hg; subst hg; rfl⟩
    | finish sys idx =>
      simp only [runFrame, doFinish]
      split
      · split
        · exact ⟨[], rfl, by intro g hg; cases hg⟩
        · refine ⟨abortFrames _ _ ++ [Frame.finish sys idx], rfl, ?_⟩
          intro g hg; simp [abortFrames] at hg; rcases hg with rfl | rfl | rfl | rfl <;> rfl
      · exact ⟨[], rfl, by intro g hg; cases hg⟩
    | _ => exact absurd rfl hin

end Cobweb

namespace Cobweb

theorem startBody_info' (s : St) (sys : Nat) (k : Kind) :
    (startBody s sys k).info = upd s.info sys
      { s.info sys with onceTaken := (s.info sys).once.isSome || (s.info sys).onceTaken, nruns := (s.info sys).nruns + 1 } := by
  unfold startBody; dsimp only
  refine (foldl_field (fun s => s.info) (fun (s : St) pid => s.emit (Ev.dropPayload pid)) (fun _ _ => rfl) _ _).trans ?_
  show upd (observe (preBody s sys k) _).2.info sys _ = _
  simp

theorem despawn1_dead (s : St) (e : Nat) : (despawn1 s e).alive e = false := by
  unfold despawn1; split
  · exact kill_alive_self s e
  · rename_i h; simpa using h

theorem quiet_popped {s s' : St} {rest : List Frame} (q : Quiet ({ s with stack := rest } : St) s') : Quiet s s' :=
  ⟨q.info, q.freshInfo, q.next, q.al⟩

/-- **The once invariant is preserved by every frame.** -/
theorem once_runFrame (p : Prog) (hh : Hist) {s : St} {f : Frame} {rest : List Frame} (hc : Ctl s) (h : OnceInv s)
    (hs : s.stack = f :: rest) : OnceInv (runFrame p hh { s with stack := rest } f) := by
  have habove := h.above; rw [hs] at habove
  -- the runner's lookup
  by_cases hl : ∃ sys k idx, f = .runnerLookup sys k idx
  · obtain ⟨sys, k, idx, rfl⟩ := hl
    have hrest : tailOK s [] rest := by simpa [tailOK, Frame.tail?] using habove.2
    have hr0 : running s.stack = running rest := by rw [hs, running_cons]; rfl
    -- a helper for the branches that change nothing but trace / buffered and push frames without activation
    have simple : ∀ (s' : St) (fs : List Frame), s'.info = s.info → s'.alive = s.alive → s'.nextEnt = s.nextEnt →
        s'.stack = fs ++ rest → (∀ g ∈ fs, g.runSys = none) → OnceInv s' := by
      intro s' fs hi ha hn hst hfs
      have q : Quiet s s' := ⟨fun x _ => by rw [hi], fun x hx => by rw [hi]; exact h.fresh x hx, by rw [hn]; exact Nat.le_refl _,
        fun x hx => Or.inl (by rw [ha] at hx; exact hx)⟩
      exact once_generic h hs rfl rfl q hst hfs
    simp only [runFrame, doRunnerLookup]
    split
    · exact simple _ (abortFrames sys k) rfl rfl rfl rfl (by intro g hg; simp [abortFrames] at hg; rcases hg with rfl | rfl | rfl <;> rfl)
    · rename_i halive
      have halive : s.alive sys = true := by simpa using halive
      split
      · exact simple _ (abortFrames sys k) rfl rfl rfl rfl (by intro g hg; simp [abortFrames] at hg; rcases hg with rfl | rfl | rfl <;> rfl)
      · split
        · exact simple _ (abortFrames sys k) rfl rfl rfl rfl (by intro g hg; simp [abortFrames] at hg; rcases hg with rfl | rfl | rfl <;> rfl)
        · exact simple _ [] rfl rfl rfl rfl (by intro g hg; cases hg)
      · rename_i hsto
        have hsto : s.storage sys = some true := hsto
        have hnotrun : sys ∉ running rest := by
          intro hin
          have := hc.runningTaken sys (by rw [hr0]; exact hin) halive
          rw [hsto] at this; cases this
        have hlt : sys < s.nextEnt := by
          apply Nat.lt_of_not_le; intro hle
          have := (hc.fresh sys hle).2; rw [hsto] at this; cases this
        split
        · -- the wrapper was already taken: impossible
          rename_i htaken
          exfalso
          simp only [Bool.and_eq_true] at htaken
          exact hnotrun (by rw [← hr0]; exact h.running sys ⟨htaken.1, htaken.2, halive⟩)
        · rename_i hnt
          -- the state after the body prologue
          have hinfo := startBody_info' ({ s with stack := rest, storage := upd s.storage sys (some false), counter := s.counter + 1 } : St) sys k
          have live_other : ∀ (s' : St), s'.info = upd s.info sys { s.info sys with onceTaken := (s.info sys).once.isSome || (s.info sys).onceTaken, nruns := (s.info sys).nruns + 1 } →
              s'.alive = s.alive → ∀ x, x ≠ sys → OnceLive s' x → OnceLive s x := by
            intro s' hi ha x hx hlx
            obtain ⟨a, b, c⟩ := hlx
            rw [hi] at a b; rw [ha] at c
            simp [hx] at a b
            exact ⟨a, b, c⟩
          have finish : ∀ (s' : St) (fs : List Frame) (withTail : Bool),
              s'.info = upd s.info sys { s.info sys with onceTaken := (s.info sys).once.isSome || (s.info sys).onceTaken, nruns := (s.info sys).nruns + 1 } →
              s'.alive = s.alive → s'.nextEnt = s.nextEnt →
              s'.stack = fs ++ Frame.afterBody sys idx :: rest → (∀ g ∈ fs, g.runSys = none) →
              (withTail = true → Frame.onceTail sys ∈ fs) → (withTail = false → (s.info sys).once.isSome = false) → OnceInv s' := by
            intro s' fs wt hi ha hn hst hfs hw1 hw2
            constructor
            · intro x hlx
              rw [hst, running_append_noRun fs _ hfs]
              by_cases hx : x = sys
              · subst hx; simp [running, Frame.runSys]
              · have := h.running x (live_other s' hi ha x hx hlx)
                rw [hr0] at this
                simp only [running, List.filterMap_cons, Frame.runSys]
                exact List.mem_cons_of_mem _ this
            · rw [hst]
              -- walk through the pushed frames, collecting the `onceTail`
              have key : ∀ (A : List Nat), (withTailSeen : wt = true → sys ∈ A) → tailOK s' A (Frame.afterBody sys idx :: rest) := by
                intro A hA
                refine ⟨?_, ?_⟩
                · intro x hx hlx
                  simp only [Frame.runSys, Option.some.injEq] at hx; subst hx
                  cases hwt : wt with
                  | true => exact hA hwt
                  | false =>
                    exfalso
                    have := hw2 hwt
                    obtain ⟨a, _, _⟩ := hlx
                    rw [hi] at a; simp at a; rw [this] at a; cases a
                · simp only [Frame.tail?]
                  apply tailOK_mono rest [] A _ hrest
                  intro x hlx
                  by_cases hx : x = sys
                  · subst hx
                    cases hwt : wt with
                    | true => exact Or.inr (hA hwt)
                    | false =>
                      exfalso
                      have := hw2 hwt
                      obtain ⟨a, _, _⟩ := hlx
                      rw [hi] at a; simp at a; rw [this] at a; cases a
                  · exact Or.inl ⟨live_other s' hi ha x hx hlx, fun hh => by cases hh⟩
              -- generic walk
              have walk : ∀ (gs : List Frame) (A : List Nat), (∀ g ∈ gs, g.runSys = none) →
                  (wt = true → Frame.onceTail sys ∈ gs ∨ sys ∈ A) → tailOK s' A (gs ++ Frame.afterBody sys idx :: rest) := by
                intro gs
                induction gs with
                | nil => intro A _ hA; exact key A (fun hwt => by rcases hA hwt with hh | hh; cases hh; exact hh)
                | cons g gs ih =>
                  intro A hgs hA
                  show (∀ x, g.runSys = some x → OnceLive s' x → x ∈ A) ∧ _
                  constructor
                  · intro x hx; rw [hgs g (by simp)] at hx; cases hx
                  cases hgt : g.tail? with
                  | none =>
                    apply ih A (fun x hx => hgs x (by simp [hx]))
                    intro hwt
                    rcases hA hwt with hh | hh
                    · rcases List.mem_cons.mp hh with rfl | hh'
                      · simp [Frame.tail?] at hgt
                      · exact Or.inl hh'
                    · exact Or.inr hh
                  | some t =>
                    apply ih (t :: A) (fun x hx => hgs x (by simp [hx]))
                    intro hwt
                    rcases hA hwt with hh | hh
                    · rcases List.mem_cons.mp hh with rfl | hh'
                      · simp only [Frame.tail?, Option.some.injEq] at hgt; subst hgt; exact Or.inr List.mem_cons_self
                      · exact Or.inl hh'
                    · exact Or.inr (List.mem_cons_of_mem _ hh)
              exact walk fs [] hfs (fun hwt => Or.inl (hw1 hwt))
            · intro e he
              rw [hn] at he
              have hne : e ≠ sys := by omega
              rw [hi]; simp [hne]; exact h.fresh e he
          split
          · -- one-off reactor: body, tail, activation
            rename_i honce
            refine finish _ [.bodyActs sys k 0 [], .onceTail sys] true ?_ ?_ ?_ ?_ ?_ ?_ ?_
            · simpa using hinfo
            · simp
            · simp
            · simp [St.push]
            · intro g hg; simp at hg; rcases hg with rfl | rfl <;> rfl
            · intro _; simp
            · intro hx; cases hx
          · rename_i honce
            have honce' : (s.info sys).once.isSome = false := by simpa using honce
            split
            · refine finish _ [.exclActs sys 0] false ?_ ?_ ?_ ?_ ?_ ?_ ?_
              · simpa using hinfo
              · simp
              · simp
              · simp [St.push]
              · intro g hg; simp at hg; subst hg; rfl
              · intro hx; cases hx
              · intro _; exact honce'
            · refine finish _ [.bodyActs sys k 0 []] false ?_ ?_ ?_ ?_ ?_ ?_ ?_
              · simpa using hinfo
              · simp
              · simp
              · simp [St.push]
              · intro g hg; simp at hg; subst hg; rfl
              · intro hx; cases hx
              · intro _; exact honce'
  -- afterBody: the activation frame becomes `reinsert`
  by_cases ha : ∃ sys idx, f = .afterBody sys idx
  · obtain ⟨sys, idx, rfl⟩ := ha
    have hnot : ¬ OnceLive s sys := fun hl => by have := habove.1 sys rfl hl; cases this
    have hrest : tailOK s [] rest := by simpa [tailOK, Frame.tail?] using habove.2
    constructor
    · intro x hlx
      have hlx' : OnceLive s x := hlx
      have := h.running x hlx'
      rw [hs, running_cons] at this
      show x ∈ running (Frame.gc :: Frame.reinsert sys idx :: rest)
      rw [running_cons, running_cons]
      exact this
    · show tailOK _ [] (Frame.gc :: Frame.reinsert sys idx :: rest)
      refine ⟨?_, ?_⟩
      · intro x hx; cases hx
      · refine ⟨?_, ?_⟩
        · intro x hx hlx
          simp only [Frame.runSys, Option.some.injEq] at hx; subst hx
          exact absurd hlx hnot
        · exact tailOK_mono rest [] [] (fun x hx => Or.inl ⟨(show OnceLive s x from hx), id⟩) hrest
    · exact h.fresh
  -- reinsert: the activation ends
  by_cases hr : ∃ sys idx, f = .reinsert sys idx
  · obtain ⟨sys, idx, rfl⟩ := hr
    have hnot : ¬ OnceLive s sys := fun hl => by have := habove.1 sys rfl hl; cases this
    have hrest : tailOK s [] rest := by simpa [tailOK, Frame.tail?] using habove.2
    obtain ⟨fs, hst, hfs⟩ := runFrame_noRun p hh ({ s with stack := rest } : St) (.reinsert sys idx)
      (fun _ _ _ hx => by cases hx) (fun _ _ hx => by cases hx)
    have q := quiet_popped (quiet_runFrame p hh (s := { s with stack := rest }) h.fresh (.reinsert sys idx) (fun _ _ _ hx => by cases hx))
    constructor
    · intro x hlx
      have hlx' := q.live x hlx
      have hx : x ≠ sys := fun hxs => hnot (hxs ▸ hlx')
      have := h.running x hlx'
      rw [hs] at this
      rw [hst, running_append_noRun fs _ hfs]
      simp only [running, List.filterMap_cons, Frame.runSys] at this
      rcases List.mem_cons.mp this with hh | hh
      · exact absurd hh hx
      · exact hh
    · rw [hst]
      exact tailOK_push fs hfs [] rest (tailOK_mono rest [] [] (fun x hx => Or.inl ⟨q.live x hx, id⟩) hrest)
    · intro e he
      by_cases hlt : e < s.nextEnt
      · have := Nat.le_trans q.next he; omega
      · exact q.freshInfo e (by omega)
  -- onceTail: the reactor entity dies
  by_cases ht : ∃ sys, f = .onceTail sys
  · obtain ⟨sys, rfl⟩ := ht
    have hrest : tailOK s [sys] rest := by simpa [tailOK, Frame.tail?] using habove.2
    have q := quiet_popped (quiet_runFrame p hh (s := { s with stack := rest }) h.fresh (.onceTail sys) (fun _ _ _ hx => by cases hx))
    have hdead : (runFrame p hh ({ s with stack := rest } : St) (.onceTail sys)).alive sys = false := by
      simp only [runFrame, doOnceTail, St.push]
      exact despawn1_dead _ sys
    have hst : (runFrame p hh ({ s with stack := rest } : St) (.onceTail sys)).stack = [Frame.flush, .dropCallback sys] ++ rest := by
      simp [runFrame, doOnceTail, St.push]
    have hfs : ∀ g ∈ [Frame.flush, Frame.dropCallback sys], g.runSys = none := by
      intro g hg; simp at hg; rcases hg with rfl | rfl <;> rfl
    constructor
    · intro x hlx
      have := h.running x (q.live x hlx)
      rw [hs] at this
      rw [hst, running_append_noRun _ _ hfs]
      simpa [running, Frame.runSys] using this
    · rw [hst]
      apply tailOK_push _ hfs
      apply tailOK_mono rest [sys] [] _ hrest
      intro x hlx
      left
      refine ⟨q.live x hlx, ?_⟩
      intro hx
      simp at hx; subst hx
      exfalso; rw [hlx.2.2] at hdead; cases hdead
    · intro e he
      by_cases hlt : e < s.nextEnt
      · have := Nat.le_trans q.next he; omega
      · exact q.freshInfo e (by omega)
  -- everything else: generic
  have hrun : f.runSys = none := by
    cases f <;> simp_all [Frame.runSys]
  have htl : f.tail? = none := by
    cases f <;> simp_all [Frame.tail?]
  obtain ⟨fs, hst, hfs⟩ := runFrame_noRun p hh ({ s with stack := rest } : St) f
    (fun a b c hx => hl ⟨a, b, c, hx⟩) (fun a b hx => ha ⟨a, b, hx⟩)
  have q := quiet_popped (quiet_runFrame p hh (s := { s with stack := rest }) h.fresh f (fun a b c hx => hl ⟨a, b, c, hx⟩))
  exact once_generic h hs hrun htl q hst hfs

end Cobweb

namespace Cobweb

theorem once_step (p : Prog) (h : Hist) {s s' : St} (hc : Ctl s) (ho : OnceInv s) (hs : step p h s = some s') : OnceInv s' := by
  unfold step at hs
  split at hs
  · cases hs
  · rename_i f rest hst
    simp only [Option.some.injEq] at hs
    subst hs
    exact once_runFrame p h hc ho hst

theorem startTop_info (s : St) (t : Nat) (op : TopOp) : (startTop s t op).info = s.info := by
  unfold startTop
  cases op <;> dsimp only <;> (try split) <;> simp [St.push, St.emit]

theorem startTop_noRun (s : St) (t : Nat) (op : TopOp) :
    ∃ fs, (startTop s t op).stack = fs ++ s.stack ∧ ∀ g ∈ fs, g.runSys = none := by
  obtain ⟨fs, hs, hi, _⟩ := benignP_startTop s t op
  exact ⟨fs, hs, fun g hg => inert_runSys (hi g hg)⟩

theorem once_tick (p : Prog) (h : Hist) {s s' : St} (hc : Ctl s) (ho : OnceInv s) (ht : tick p h s = some s') : OnceInv s' := by
  unfold tick at ht
  split at ht
  · rename_i s'' hs
    simp only [Option.some.injEq] at ht; subst ht
    exact once_step p h hc ho hs
  · rename_i hnone
    split at ht
    · rename_i op _
      simp only [Option.some.injEq] at ht; subst ht
      have hempty : s.stack = [] := by
        unfold step at hnone
        cases hst : s.stack with
        | nil => rfl
        | cons f rest => rw [hst] at hnone; cases hnone
      obtain ⟨fs, hst, hfs⟩ := startTop_noRun ({ s with topIdx := s.topIdx + 1 } : St) s.topIdx op
      have b := (benignP_startTop ({ s with topIdx := s.topIdx + 1 } : St) s.topIdx op).choose_spec.2.2
      have hi := startTop_info ({ s with topIdx := s.topIdx + 1 } : St) s.topIdx op
      have q : Quiet s (startTop { s with topIdx := s.topIdx + 1 } s.topIdx op) :=
        ⟨fun x _ => by rw [hi], fun x hx => by rw [hi]; exact ho.fresh x hx, b.next, b.al⟩
      constructor
      · intro x hlx
        have := ho.running x (q.live x hlx)
        rw [hempty] at this; cases this
      · rw [hst]
        show tailOK _ [] (fs ++ s.stack)
        rw [hempty]
        exact tailOK_push fs hfs [] [] trivial
      · intro e he
        by_cases hlt : e < s.nextEnt
        · have := Nat.le_trans q.next he; omega
        · exact q.freshInfo e (by omega)
    · cases ht

theorem once_default : OnceInv ({} : St) := by
  constructor
  · intro sys hl; obtain ⟨a, _, _⟩ := hl; cases a
  · trivial
  · intro e _; rfl

/-- Both invariants along every execution. -/
theorem ctl_once_reach (p : Prog) (h : Hist) {s0 s : St} (hc : Ctl s0) (ho : OnceInv s0) (hr : Reach p h s0 s) :
    Ctl s ∧ OnceInv s := by
  induction hr with
  | refl => exact ⟨hc, ho⟩
  | tick _ ht ih => exact ⟨ctl_tick p h ih.1 ht, once_tick p h ih.1 ih.2 ht⟩

/-- **The "already taken" branch of the `once` wrapper is unreachable**: whenever the runner finds the callback of a
    one-off reactor, its inner system has not been taken yet. -/
theorem once_taken_unreachable (p : Prog) (h : Hist) {s0 s : St} (hc : Ctl s0) (ho : OnceInv s0) (hr : Reach p h s0 s)
    {sys idx : Nat} {k : Kind} {rest : List Frame} (hst : s.stack = .runnerLookup sys k idx :: rest)
    (hal : s.alive sys = true) (hsto : s.storage sys = some true) (honce : (s.info sys).once.isSome = true) :
    (s.info sys).onceTaken = false := by
  obtain ⟨c, o⟩ := ctl_once_reach p h hc ho hr
  cases ht : (s.info sys).onceTaken with
  | false => rfl
  | true =>
    exfalso
    have hrun := o.running sys ⟨honce, ht, hal⟩
    have := c.runningTaken sys hrun hal
    rw [hsto] at this; cases this

end Cobweb
