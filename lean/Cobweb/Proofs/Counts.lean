/-
  Cobweb.Proofs.Counts — counting invariants over the ghost trace.

  `ct s` is the sub-trace of *control events* (`applied`, the three aborts, `postponed`, `enter`, `exit`, `replay`,
  `discard`, `body`). Every helper of the machine leaves it alone; the runner's frame functions add to it in lock-step
  with the frames and queue entries they create. The invariant `Cnt` relates, per system, the number of each kind of
  event to the commands still pending on the control stack and in the postponed queue.
-/
import Cobweb.Proofs.CtlStep
import Cobweb.Proofs.Frames
import Cobweb.Proofs.Once

namespace Cobweb

/-- Control events. -/
def Ev.isCtl : Ev → Bool
  | .applied _ => true
  | .abortNoEntity _ => true
  | .abortNoStorage _ => true
  | .abortRoot _ => true
  | .postponed _ => true
  | .enter _ => true
  | .exit _ => true
  | .replay _ => true
  | .discard _ => true
  | .body _ _ _ => true
  | _ => false

/-- The control events of the trace, newest first. -/
def ct (s : St) : List Ev := s.trace.filter Ev.isCtl

theorem ct_of_trace {s s' : St} (h : s'.trace = s.trace) : ct s' = ct s := by unfold ct; rw [h]

theorem ct_emit_quiet (s : St) (e : Ev) (h : e.isCtl = false) : ct (s.emit e) = ct s := by
  simp [ct, St.emit, List.filter_cons, h]

theorem ct_emit_ctl (s : St) (e : Ev) (h : e.isCtl = true) : ct (s.emit e) = e :: ct s := by
  simp [ct, St.emit, List.filter_cons, h]

@[simp] theorem ct_push (s : St) (fs : List Frame) : ct (s.push fs) = ct s := rfl

@[simp] theorem canaryEv_isCtl (s : St) (e : Nat) : (canaryEv s e).isCtl = false := by
  unfold canaryEv; split <;> rfl

/-! ### helpers that only add quiet events -/

@[simp] theorem ct_killCanary (s : St) (e : Nat) : ct (killCanary s e) = ct s := by
  unfold killCanary; split
  · exact ct_emit_quiet _ _ (by first | rfl | exact canaryEv_isCtl _ _)
  · rfl

@[simp] theorem ct_killData (s : St) (e : Nat) : ct (killData s e) = ct s := by
  unfold killData; split
  · dsimp only; split
    · rfl
    · exact ct_emit_quiet _ _ (by first | rfl | exact canaryEv_isCtl _ _)
  · rfl

@[simp] theorem ct_kill (s : St) (e : Nat) : ct (kill s e) = ct s := by
  have h : (kill s e).trace = (killData (killTracker (killComps (killReactors (killStorage (killCanary s e) e) e) e) e) e).trace := rfl
  unfold ct at *
  rw [h]
  have := ct_killData (killTracker (killComps (killReactors (killStorage (killCanary s e) e) e) e) e) e
  unfold ct at this; rw [this]
  simp only [killTracker_trace, killComps_trace, killReactors_trace, killStorage_trace]
  exact ct_killCanary s e

@[simp] theorem ct_despawn1 (s : St) (e : Nat) : ct (despawn1 s e) = ct s := by
  unfold despawn1; split <;> simp

@[simp] theorem ct_dropHandle (s : St) (h : Handle) : ct (dropHandle s h) = ct s := ct_of_trace (dropHandle_trace s h)

@[simp] theorem ct_tryCleanupData (s : St) (d : Nat) : ct (tryCleanupData s d) = ct s := by
  unfold tryCleanupData
  split
  · split
    · split
      · rfl
      · dsimp only; split
        · rw [ct_kill]; rfl
        · rfl
    · rfl
  · rfl

@[simp] theorem ct_setupK (s : St) (k : Kind) (sys : Nat) : ct (setupK s k sys) = ct s := ct_of_trace (setupK_trace s k sys)

@[simp] theorem ct_cleanupK (s : St) (k : Kind) : ct (cleanupK s k) = ct s := by
  unfold cleanupK
  cases k <;> dsimp only
  · rw [ct_despawn1]; rfl
  · rfl
  · split
    · rw [ct_dropHandle]; rfl
    · rfl
  · rw [ct_tryCleanupData]; rfl
  · rw [ct_tryCleanupData]; rfl

end Cobweb

namespace Cobweb

theorem ct_eq_of {s s' : St} (h : s'.trace.filter Ev.isCtl = s.trace.filter Ev.isCtl) : ct s' = ct s := h

@[simp] theorem ct_enqueue (s : St) (a : Act) : ct (enqueue s a).1 = ct s := by
  cases a <;> simp only [enqueue] <;> (repeat' split) <;>
    simp [ct, St.emit, St.fresh, Ev.isCtl, List.filter_cons]

@[simp] theorem ct_revokeAll (s : St) (sys : Nat) (ts : List Trig) : ct (revokeAll s sys ts) = ct s :=
  ct_of_trace (revokeAll_trace s sys ts)

@[simp] theorem ct_regAll (s : St) (h : Handle) (ts : List Trig) : ct (regAll s h ts).1 = ct s :=
  ct_of_trace (regAll_trace s h ts)

@[simp] theorem ct_applyCmd (s : St) (c : Cmd) : ct (applyCmd s c) = ct s := by
  cases c <;> simp only [applyCmd] <;> (repeat' split) <;>
    first
    | rfl
    | (apply ct_emit_quiet; first | rfl | exact canaryEv_isCtl _ _)
    | (simp; done)
    | (apply ct_of_trace; simp [St.push, St.fresh, setTbl]; done)
    | (simp; exact ct_of_trace (newArc_trace _ _))

end Cobweb

namespace Cobweb

theorem ct_preBody (s : St) (sys : Nat) (k : Kind) : ct (preBody s sys k) = Ev.enter sys :: ct s := by
  unfold preBody; dsimp only
  rw [ct_emit_quiet _ _ (by first | rfl | exact canaryEv_isCtl _ _)]
  split
  · rw [ct_emit_ctl _ _ rfl, ct_setupK]
  · rw [ct_emit_quiet _ _ (by first | rfl | exact canaryEv_isCtl _ _), ct_emit_ctl _ _ rfl, ct_setupK]

theorem ct_foldl_drop (l : List Nat) (t : St) :
    ct (l.foldl (fun (s : St) pid => s.emit (Ev.dropPayload pid)) t) = ct t := by
  induction l generalizing t with
  | nil => rfl
  | cons x l ih => exact (ih _).trans (ct_emit_quiet _ _ (by first | rfl | exact canaryEv_isCtl _ _))

theorem ct_startBody_ex (s : St) (sys : Nat) (k : Kind) :
    ∃ obs, ct (startBody s sys k) = Ev.body sys (s.info sys).nruns obs :: Ev.enter sys :: ct s := by
  refine ⟨(observe (preBody s sys k) (ewrOf (preBody s sys k) sys)).1, ?_⟩
  unfold startBody; dsimp only
  rw [ct_foldl_drop, ct_emit_ctl _ _ rfl, preBody_info]
  congr 1
  exact (ct_of_trace (by simp)).trans (ct_preBody s sys k)

theorem ct_startBody (s : St) (sys : Nat) (k : Kind) :
    ct (startBody s sys k) =
      Ev.body sys (s.info sys).nruns (observe (preBody s sys k) (ewrOf (preBody s sys k) sys)).1 :: Ev.enter sys :: ct s := by
  unfold startBody; dsimp only
  rw [ct_foldl_drop, ct_emit_ctl _ _ rfl, preBody_info]
  congr 1
  exact (ct_of_trace (by simp)).trans (ct_preBody s sys k)

end Cobweb

namespace Cobweb

/-! ### the counting invariant -/

/-- Number of occurrences of a control event. -/
def nE (e : Ev) (s : St) : Nat := (ct s).count e

def wL (sys : Nat) : Frame → Nat
  | .runnerLookup t _ _ => if t = sys then 1 else 0
  | _ => 0

def wA (sys : Nat) : Frame → Nat
  | .afterBody t _ => if t = sys then 1 else 0
  | _ => 0

def bcount (sys : Nat) (l : List (Nat × Kind)) : Nat := l.countP (fun b => b.1 == sys)

def wB (sys : Nat) : Frame → Nat
  | .replayLoop _ rest kept _ => bcount sys rest + bcount sys kept
  | _ => 0

def sumF (w : Frame → Nat) (st : List Frame) : Nat := (st.map w).sum

@[simp] theorem sumF_nil (w : Frame → Nat) : sumF w [] = 0 := rfl
@[simp] theorem sumF_cons (w : Frame → Nat) (f : Frame) (l : List Frame) : sumF w (f :: l) = w f + sumF w l := by
  simp [sumF]
@[simp] theorem sumF_append (w : Frame → Nat) (a b : List Frame) : sumF w (a ++ b) = sumF w a + sumF w b := by
  simp [sumF]

@[simp] theorem bcount_nil (sys : Nat) : bcount sys [] = 0 := rfl
@[simp] theorem bcount_cons (sys : Nat) (b : Nat × Kind) (l : List (Nat × Kind)) :
    bcount sys (b :: l) = bcount sys l + (if b.1 = sys then 1 else 0) := by
  simp [bcount, List.countP_cons]
@[simp] theorem bcount_append (sys : Nat) (a b : List (Nat × Kind)) : bcount sys (a ++ b) = bcount sys a + bcount sys b := by
  simp [bcount]

/-- Per system: every arrival at the runner (`applied`) has exactly one outcome or is still being looked up; every
    postponement has been replayed (or discarded) or still waits in the queue / a replay loop; every entered run has
    exited or still has its `afterBody` frame on the stack. -/
structure Cnt (s : St) : Prop where
  applied : ∀ sys, nE (.applied sys) s = nE (.enter sys) s + nE (.abortNoEntity sys) s + nE (.abortNoStorage sys) s +
      nE (.abortRoot sys) s + nE (.postponed sys) s + sumF (wL sys) s.stack
  postponed : ∀ sys, nE (.postponed sys) s = nE (.replay sys) s + nE (.discard sys) s + bcount sys s.buffered +
      sumF (wB sys) s.stack
  entered : ∀ sys, nE (.enter sys) s = nE (.exit sys) s + sumF (wA sys) s.stack

/-- The invariant with the top frame `f` popped. -/
structure CntF (s : St) (f : Frame) : Prop where
  applied : ∀ sys, nE (.applied sys) s = nE (.enter sys) s + nE (.abortNoEntity sys) s + nE (.abortNoStorage sys) s +
      nE (.abortRoot sys) s + nE (.postponed sys) s + (wL sys f + sumF (wL sys) s.stack)
  postponed : ∀ sys, nE (.postponed sys) s = nE (.replay sys) s + nE (.discard sys) s + bcount sys s.buffered +
      (wB sys f + sumF (wB sys) s.stack)
  entered : ∀ sys, nE (.enter sys) s = nE (.exit sys) s + (wA sys f + sumF (wA sys) s.stack)

theorem cntF_of_cnt {s : St} {f : Frame} {rest : List Frame} (h : Cnt s) (hs : s.stack = f :: rest) :
    CntF ({ s with stack := rest } : St) f := by
  constructor
  · intro sys; have := h.applied sys; rw [hs, sumF_cons] at this; exact this
  · intro sys; have := h.postponed sys; rw [hs, sumF_cons] at this; exact this
  · intro sys; have := h.entered sys; rw [hs, sumF_cons] at this; exact this

/-- A frame without weight. -/
def Frame.light (f : Frame) : Prop := ∀ sys, wL sys f = 0 ∧ wB sys f = 0 ∧ wA sys f = 0

theorem sumF_light (w : Nat → Frame → Nat) (hw : ∀ f : Frame, f.light → ∀ sys, w sys f = 0) (fs : List Frame)
    (h : ∀ g ∈ fs, g.light) (sys : Nat) : sumF (w sys) fs = 0 := by
  induction fs with
  | nil => rfl
  | cons g fs ih =>
    rw [sumF_cons, hw g (h g (by simp)) sys, ih (fun x hx => h x (by simp [hx]))]

/-- **Generic step**: control events, postponed queue unchanged; popped and pushed frames are light. -/
theorem cnt_gen {s s' : St} {f : Frame} {fs : List Frame} (h : CntF s f) (hf : f.light) (hc : ct s' = ct s)
    (hb : s'.buffered = s.buffered) (hst : s'.stack = fs ++ s.stack) (hfs : ∀ g ∈ fs, g.light) : Cnt s' := by
  have e : ∀ ev, nE ev s' = nE ev s := fun ev => by unfold nE; rw [hc]
  have l1 := sumF_light wL (fun g hg sys => (hg sys).1) fs hfs
  have l2 := sumF_light wB (fun g hg sys => (hg sys).2.1) fs hfs
  have l3 := sumF_light wA (fun g hg sys => (hg sys).2.2) fs hfs
  constructor
  · intro sys; have := h.applied sys; simp only [e, hst, sumF_append, l1 sys, (hf sys).1] at this ⊢; omega
  · intro sys; have := h.postponed sys; simp only [e, hb, hst, sumF_append, l2 sys, (hf sys).2.1] at this ⊢; omega
  · intro sys; have := h.entered sys; simp only [e, hst, sumF_append, l3 sys, (hf sys).2.2] at this ⊢; omega

end Cobweb

namespace Cobweb

/-- **Balanced step**: the step adds control events `evs`, replaces the postponed queue by `B'` and pushes `fs`; the
    three balances hold between what was added and what the popped frame / old queue accounted for. -/
theorem cnt_of {s s' : St} {f : Frame} (h : CntF s f) (evs : List Ev) (B' : List (Nat × Kind)) (fs : List Frame)
    (hc : ct s' = evs ++ ct s) (hb : s'.buffered = B') (hst : s'.stack = fs ++ s.stack)
    (h1 : ∀ sys, evs.count (.applied sys) + wL sys f = evs.count (.enter sys) + evs.count (.abortNoEntity sys) +
      evs.count (.abortNoStorage sys) + evs.count (.abortRoot sys) + evs.count (.postponed sys) + sumF (wL sys) fs)
    (h2 : ∀ sys, evs.count (.postponed sys) + bcount sys s.buffered + wB sys f =
      evs.count (.replay sys) + evs.count (.discard sys) + bcount sys B' + sumF (wB sys) fs)
    (h3 : ∀ sys, evs.count (.enter sys) + wA sys f = evs.count (.exit sys) + sumF (wA sys) fs) : Cnt s' := by
  have e : ∀ ev, nE ev s' = evs.count ev + nE ev s := fun ev => by unfold nE; rw [hc, List.count_append]
  constructor
  · intro sys; have a := h.applied sys; have b := h1 sys; simp only [e, hst, sumF_append]; omega
  · intro sys; have a := h.postponed sys; have b := h2 sys; simp only [e, hb, hst, sumF_append]; omega
  · intro sys; have a := h.entered sys; have b := h3 sys; simp only [e, hst, sumF_append]; omega

macro "lt" : tactic => `(tactic| (intro sys; simp [wL, wB, wA]))
theorem lights_nil : ∀ g ∈ ([] : List Frame), g.light := by intro g hg; cases hg
theorem lights_cons {f : Frame} {l : List Frame} (hf : f.light) (hl : ∀ g ∈ l, g.light) : ∀ g ∈ f :: l, g.light := by
  intro g hg
  rcases List.mem_cons.mp hg with rfl | h
  · exact hf
  · exact hl g h
macro "lts" : tactic =>
  `(tactic| first
    | exact lights_nil
    | exact lights_cons (by lt) lights_nil
    | exact lights_cons (by lt) (lights_cons (by lt) lights_nil)
    | exact lights_cons (by lt) (lights_cons (by lt) (lights_cons (by lt) lights_nil))
    | exact lights_cons (by lt) (lights_cons (by lt) (lights_cons (by lt) (lights_cons (by lt) lights_nil))))
macro "bal" : tactic =>
  `(tactic| (intro sys0; simp [wL, wB, wA, List.count_cons, abortFrames] <;> (try split) <;> (try split) <;> omega))

end Cobweb

namespace Cobweb

theorem register_light (s : St) (trigs : List Trig) (sys : Nat) (mode : Mode) :
    ∃ fs, (applyCmd s (.register trigs sys mode)).stack = fs ++ s.stack ∧ ∀ g ∈ fs, g.light := by
  cases mode with
  | persistent =>
    exact ⟨[.flush, .batch (regAll s ⟨sys, none⟩ trigs).2], by simp [applyCmd, St.push], by lts⟩
  | cleanup =>
    exact ⟨[.flush, .batch (regAll (newArc s sys).2 ⟨sys, some (newArc s sys).1⟩ trigs).2], by simp [applyCmd, St.push], by lts⟩
  | revokable =>
    exact ⟨[.flush, .batch (regAll (newArc s sys).2 ⟨sys, some (newArc s sys).1⟩ trigs).2], by simp [applyCmd, St.push], by lts⟩

theorem applyCmd_light (s : St) (c : Cmd) : ∃ fs, (applyCmd s c).stack = fs ++ s.stack ∧ ∀ g ∈ fs, g.light := by
  by_cases hreg : ∃ trigs sys mode, c = .register trigs sys mode
  · obtain ⟨trigs, sys, mode, rfl⟩ := hreg
    exact register_light s trigs sys mode
  cases c <;> simp only [applyCmd] <;> (repeat' split) <;>
    first
    | exact ⟨[], rfl, lights_nil⟩
    | exact ⟨[.runnerStart _ _], rfl, lights_cons (by lt) lights_nil⟩
    | exact ⟨[.flush, .batch _], rfl, lights_cons (by lt) (lights_cons (by lt) lights_nil)⟩
    | exact ⟨[.despawnWork _], rfl, lights_cons (by lt) lights_nil⟩
    | (exfalso; exact hreg ⟨_, _, _, rfl⟩)
    | (refine ⟨[], ?_, lights_nil⟩; simp; done)

theorem lights_append {a b : List Frame} (ha : ∀ g ∈ a, g.light) (hb : ∀ g ∈ b, g.light) : ∀ g ∈ a ++ b, g.light := by
  intro g hg
  rcases List.mem_append.mp hg with h | h
  · exact ha g h
  · exact hb g h

/-- **The counting invariant is preserved by every frame.** -/
theorem cntF_runFrame (p : Prog) (hh : Hist) {s : St} {f : Frame} (h : CntF s f) : Cnt (runFrame p hh s f) := by
  cases f with
  | batch cs =>
    cases cs with
    | nil => exact cnt_gen h (by lt) rfl rfl (fs := []) rfl lights_nil
    | cons c cs =>
      simp only [runFrame, doBatch]
      obtain ⟨fs, hfs, hl⟩ := applyCmd_light (s.push [.flush, .batch cs]) c
      exact cnt_gen h (by lt) (by simp) (by simp) (fs := fs ++ [.flush, .batch cs]) (by rw [hfs]; simp [St.push])
        (lights_append hl (by lts))
  | flush =>
    simp only [runFrame, doFlush]
    split
    · exact cnt_gen h (by lt) rfl rfl (fs := []) rfl lights_nil
    · exact cnt_gen h (by lt) rfl rfl (fs := [.batch s.wq]) rfl (by lts)
  | bodyActs sys k i acc =>
    simp only [runFrame, doBodyActs]
    split
    · exact cnt_gen h (by lt) (ct_emit_quiet _ _ (by first | rfl | exact canaryEv_isCtl _ _)) rfl (fs := [.cleanup k, .flush, .batch acc]) rfl (by lts)
    · rename_i a _
      exact cnt_gen h (by lt) (by simp) (by simp [St.push]) (fs := [.bodyActs sys k (i + 1) (acc ++ (enqueue s a).2)])
        (by simp [St.push]) (by lts)
  | exclActs sys i =>
    simp only [runFrame, doExclActs]
    split
    · exact cnt_gen h (by lt) (ct_emit_quiet _ _ (by first | rfl | exact canaryEv_isCtl _ _)) rfl (fs := [.flush]) rfl (by lts)
    · rename_i t _
      exact cnt_gen h (by lt) rfl rfl (fs := [.runnerStart t .plain, .exclActs sys (i + 1)]) rfl (by lts)
    · rename_i a _ _
      split
      · exact cnt_gen h (by lt) (by simp only [ct_push]; exact (ct_of_trace rfl).trans (ct_enqueue s a)) (by simp [St.push])
          (fs := [.flush, .exclActs sys (i + 1)]) (by simp [St.push]) (by lts)
      · exact cnt_gen h (by lt) (by simp only [ct_push]; exact (ct_of_trace rfl).trans (ct_enqueue s a)) (by simp [St.push])
          (fs := [.exclActs sys (i + 1)]) (by simp [St.push]) (by lts)
  | topActs t i =>
    simp only [runFrame, doTopActs]
    split
    · exact cnt_gen h (by lt) rfl rfl (fs := [.flush]) rfl (by lts)
    · rename_i a _
      exact cnt_gen h (by lt) (by simp only [ct_push]; exact (ct_of_trace rfl).trans (ct_enqueue s a)) (by simp [St.push])
        (fs := [.topActs t (i + 1)]) (by simp [St.push]) (by lts)
  | cleanup k =>
    exact cnt_gen h (by lt) (by simp [runFrame]) (by simp [runFrame]) (fs := []) (by simp [runFrame]) lights_nil
  | onceTail sys =>
    exact cnt_gen h (by lt) (by simp only [runFrame, doOnceTail, ct_push]; exact (ct_of_trace rfl).trans (ct_despawn1 s sys))
      (by simp [runFrame]) (fs := [.flush, .dropCallback sys]) (by simp [runFrame, doOnceTail, St.push]) (by lts)
  | dropCallback sys =>
    exact cnt_gen h (by lt) (ct_emit_quiet _ _ (by first | rfl | exact canaryEv_isCtl _ _)) (by simp [runFrame]) (fs := []) (by simp [runFrame]) lights_nil
  | runnerStart sys k =>
    refine cnt_of h [.applied sys] s.buffered [.gc, .poll, .runnerLookup sys k s.counter] ?_ (by simp [runFrame])
      (by simp [runFrame, doRunnerStart, St.push]) (by bal) (by bal) (by bal)
    simp only [runFrame, doRunnerStart, ct_push]; exact ct_emit_ctl _ _ rfl
  | runnerLookup sys k idx =>
    simp only [runFrame, doRunnerLookup]
    split
    · refine cnt_of h [.abortNoEntity sys] s.buffered (abortFrames sys k) ?_ (by simp) (by simp [St.push]) (by bal) (by bal) (by bal)
      simp only [ct_push]; exact ct_emit_ctl _ _ rfl
    · split
      · refine cnt_of h [.abortNoStorage sys] s.buffered (abortFrames sys k) ?_ (by simp) (by simp [St.push]) (by bal) (by bal) (by bal)
        simp only [ct_push]; exact ct_emit_ctl _ _ rfl
      · split
        · refine cnt_of h [.abortRoot sys] s.buffered (abortFrames sys k) ?_ (by simp) (by simp [St.push]) (by bal) (by bal) (by bal)
          simp only [ct_push]; exact ct_emit_ctl _ _ rfl
        · refine cnt_of h [.postponed sys] (s.buffered ++ [(sys, k)]) [] ?_ (by simp) (by simp) (by bal) (by bal) (by bal)
          exact (ct_emit_ctl _ _ rfl).trans (by rfl)
      · obtain ⟨obs, hsb⟩ := ct_startBody_ex ({ s with storage := upd s.storage sys (some false), counter := s.counter + 1 } : St) sys k
        split
        · refine cnt_of h [.enter sys] s.buffered [.afterBody sys idx] ?_ (by simp [St.push]) (by simp [St.push]) (by bal) (by bal) (by bal)
          simp only [ct_push]
          exact (ct_emit_ctl _ _ rfl).trans (by rw [ct_setupK]; rfl)
        · split
          · refine cnt_of h [.body sys (s.info sys).nruns obs, .enter sys] s.buffered [.bodyActs sys k 0 [], .onceTail sys, .afterBody sys idx] ?_
              (by simp [St.push]) (by simp [St.push]) (by bal) (by bal) (by bal)
            simp only [ct_push]; exact hsb
          · split
            · refine cnt_of h [.body sys (s.info sys).nruns obs, .enter sys] s.buffered [.exclActs sys 0, .afterBody sys idx] ?_
                (by simp [St.push]) (by simp [St.push]) (by bal) (by bal) (by bal)
              simp only [ct_push]; exact (ct_of_trace rfl).trans hsb
            · refine cnt_of h [.body sys (s.info sys).nruns obs, .enter sys] s.buffered [.bodyActs sys k 0 [], .afterBody sys idx] ?_
                (by simp [St.push]) (by simp [St.push]) (by bal) (by bal) (by bal)
              simp only [ct_push]; exact hsb
  | afterBody sys idx =>
    refine cnt_of h [.exit sys] s.buffered [.gc, .reinsert sys idx] ?_ (by simp [runFrame])
      (by simp [runFrame, doAfterBody, St.push]) (by bal) (by bal) (by bal)
    simp only [runFrame, doAfterBody, ct_push]; exact ct_emit_ctl _ _ rfl
  | reinsert sys idx =>
    simp only [runFrame, doReinsert]
    split
    · exact cnt_gen h (by lt) (by simp only [ct_push]; exact ct_emit_quiet _ _ (by first | rfl | exact canaryEv_isCtl _ _)) (by simp [St.push, St.emit])
        (fs := [.poll, .replayTake sys idx]) (by simp [St.push, St.emit]) (by lts)
    · split <;>
        exact cnt_gen h (by lt)
          (by simp only [ct_push]; first | exact ct_emit_quiet _ _ (by first | rfl | exact canaryEv_isCtl _ _) | exact (ct_emit_quiet _ _ (by first | rfl | exact canaryEv_isCtl _ _)).trans (ct_emit_quiet _ _ (by first | rfl | exact canaryEv_isCtl _ _)))
          (by simp [St.push, St.emit]) (fs := [.despawnWork [(sys, false)], .gc, .poll, .replayTake sys idx])
          (by simp [St.push, St.emit]) (by lts)
    · split <;>
        exact cnt_gen h (by lt)
          (by simp only [ct_push]; first | exact ct_emit_quiet _ _ (by first | rfl | exact canaryEv_isCtl _ _) | exact (ct_emit_quiet _ _ (by first | rfl | exact canaryEv_isCtl _ _)).trans (ct_emit_quiet _ _ (by first | rfl | exact canaryEv_isCtl _ _)))
          (by simp [St.push, St.emit]) (fs := [.gc, .poll, .replayTake sys idx])
          (by simp [St.push, St.emit]) (by lts)
  | replayTake sys idx =>
    exact cnt_of h [] [] [.replayLoop sys s.buffered [] idx] rfl (by simp [runFrame, doReplayTake, St.push])
      (by simp [runFrame, doReplayTake, St.push]) (by bal) (by bal) (by bal)
  | replayLoop sys r kept idx =>
    simp only [runFrame, doReplayLoop]
    split
    · exact cnt_of h [] (s.buffered ++ kept) [.finish sys idx] rfl (by simp [St.push]) (by simp [St.push]) (by bal) (by bal) (by bal)
    · rename_i b bs
      split
      · refine cnt_of h [.replay sys] s.buffered [.runnerStart b.1 b.2, .replayLoop sys bs kept idx] ?_ (by simp [St.push])
          (by simp [St.push]) (by bal) (by bal) (by bal)
        simp only [ct_push]; exact ct_emit_ctl _ _ rfl
      · exact cnt_of h [] s.buffered [.replayLoop sys bs (kept ++ [b]) idx] rfl (by simp [St.push]) (by simp [St.push])
          (by bal) (by bal) (by bal)
  | finish sys idx =>
    simp only [runFrame, doFinish]
    split
    · split
      · exact cnt_gen h (by lt) (ct_emit_quiet _ _ (by first | rfl | exact canaryEv_isCtl _ _)) (by simp [St.emit]) (fs := []) (by simp [St.emit]) lights_nil
      · rename_i b bs hb
        refine cnt_of h [.discard b.1] bs (abortFrames b.1 b.2 ++ [Frame.finish sys idx]) ?_ (by simp [St.push, St.emit])
          (by simp [St.push, St.emit]) (by bal) ?_ (by bal)
        · simp only [ct_push]; exact ct_emit_ctl _ _ rfl
        · have hb' : s.buffered = b :: bs := hb
          rw [hb']; bal
    · exact cnt_gen h (by lt) (ct_emit_quiet _ _ (by first | rfl | exact canaryEv_isCtl _ _)) (by simp [St.emit]) (fs := []) (by simp [St.emit]) lights_nil
  | abort sys k =>
    exact cnt_gen h (by lt) (by simp [runFrame]) (by simp [runFrame]) (fs := []) (by simp [runFrame]) lights_nil
  | gc =>
    simp only [runFrame, doGc]
    split
    · exact cnt_gen h (by lt) rfl rfl (fs := []) rfl lights_nil
    · exact cnt_gen h (by lt) rfl rfl (fs := [.despawnWork _, .gc]) rfl (by lts)
  | despawnWork work =>
    simp only [runFrame, doDespawnWork]
    split
    · exact cnt_gen h (by lt) rfl rfl (fs := []) rfl lights_nil
    · split
      · rename_i e ex work _
        split
        · exact cnt_gen h (by lt) (by simp) (by simp [St.push]) (fs := [.despawnWork work]) (by simp [St.push]) (by lts)
        · exact cnt_gen h (by lt) rfl rfl (fs := [.flush, .despawnWork _]) rfl (by lts)
      · split
        · exact cnt_gen h (by lt) rfl rfl (fs := [.despawnWork _]) rfl (by lts)
        · exact cnt_gen h (by lt) rfl rfl (fs := [.despawnWork _]) rfl (by lts)
  | poll =>
    exact cnt_gen h (by lt) (by simp only [runFrame, doPoll, ct_push]; exact ct_of_trace (by simp)) (by simp [runFrame])
      (fs := [.flush]) (by simp [runFrame, doPoll, St.push]) (by lts)

end Cobweb

namespace Cobweb

theorem cnt_runFrame (p : Prog) (hh : Hist) {s : St} {f : Frame} {rest : List Frame} (h : Cnt s) (hs : s.stack = f :: rest) :
    Cnt (runFrame p hh { s with stack := rest } f) := cntF_runFrame p hh (cntF_of_cnt h hs)

theorem cnt_same {s s' : St} {fs : List Frame} (h : Cnt s) (hc : ct s' = ct s) (hb : s'.buffered = s.buffered)
    (hst : s'.stack = fs ++ s.stack) (hfs : ∀ g ∈ fs, g.light) : Cnt s' := by
  have e : ∀ ev, nE ev s' = nE ev s := fun ev => by unfold nE; rw [hc]
  have l1 := sumF_light wL (fun g hg sys => (hg sys).1) fs hfs
  have l2 := sumF_light wB (fun g hg sys => (hg sys).2.1) fs hfs
  have l3 := sumF_light wA (fun g hg sys => (hg sys).2.2) fs hfs
  constructor
  · intro sys; have := h.applied sys; simp only [e, hst, sumF_append, l1 sys] at this ⊢; omega
  · intro sys; have := h.postponed sys; simp only [e, hb, hst, sumF_append, l2 sys] at this ⊢; omega
  · intro sys; have := h.entered sys; simp only [e, hst, sumF_append, l3 sys] at this ⊢; omega

theorem cnt_applyCmd {s : St} (h : Cnt s) (c : Cmd) : Cnt (applyCmd s c) := by
  obtain ⟨fs, hfs, hl⟩ := applyCmd_light s c
  exact cnt_same h (by simp) (by simp) hfs hl

theorem cnt_startTop {s : St} (h : Cnt s) (t : Nat) (op : TopOp) : Cnt (startTop s t op) := by
  have pe : ∀ (s1 : St) ev, ev.isCtl = false → Cnt s1 → Cnt (s1.emit ev) :=
    fun s1 ev hq h1 => cnt_same (fs := []) h1 (ct_emit_quiet _ _ hq) rfl rfl lights_nil
  have he : Cnt (s.emit (.top t)) := pe _ _ rfl h
  unfold startTop
  cases op <;> dsimp only
  case acts => exact cnt_same he rfl rfl (fs := [.topActs t 0]) rfl (by lts)
  case wDespawn e => exact cnt_same he (by simp) (by simp) (fs := []) (by simp) lights_nil
  case wDespawnRec e => exact cnt_same he rfl rfl (fs := [.despawnWork [(e, false)]]) rfl (by lts)
  case wRemove e ty => exact cnt_applyCmd he _
  case wInsertRaw e ty v => exact cnt_applyCmd he _
  case wSetParent c p =>
    split
    · exact cnt_same he rfl rfl (fs := []) rfl lights_nil
    · exact he
  case gc => exact cnt_same he rfl rfl (fs := [.gc]) rfl (by lts)
  case poll => exact cnt_same he rfl rfl (fs := [.poll]) rfl (by lts)
  case frameEnd => exact cnt_same he rfl rfl (fs := [.gc, .poll]) rfl (by lts)
  case clearTrackers => exact cnt_same he rfl rfl (fs := []) rfl lights_nil
  case wSysEvent sys ty pid =>
    refine cnt_applyCmd ?_ _
    exact cnt_same (pe _ _ rfl he) rfl (by simp [St.fresh, St.emit]) (fs := []) (by simp [St.fresh, St.emit]) lights_nil
  case wBroadcast ty pid => exact cnt_applyCmd (pe _ _ rfl he) (.broadcast ty pid)
  case wEntityEvent e ty pid => exact cnt_applyCmd (pe _ _ rfl he) (.entityEvent e ty pid)
  case sigPrepare e => exact cnt_same he rfl (by simp [newArc]) (fs := []) (by simp [newArc]) lights_nil
  case sigClone a =>
    split
    · exact cnt_same he (ct_of_trace (by simp)) (by simp) (fs := []) (by simp) lights_nil
    · exact he
  case sigDrop a =>
    split
    · exact cnt_same he (by simp) (by simp) (fs := []) (by simp) lights_nil
    · exact he
  case sigThreads a n => exact cnt_same he rfl rfl (fs := [.gc]) rfl (by lts)

theorem cnt_tick (p : Prog) (hh : Hist) {s s' : St} (h : Cnt s) (ht : tick p hh s = some s') : Cnt s' := by
  unfold tick at ht
  split at ht
  · rename_i s'' hs
    simp only [Option.some.injEq] at ht; subst ht
    unfold step at hs
    cases hst : s.stack with
    | nil => rw [hst] at hs; cases hs
    | cons f rest =>
      rw [hst] at hs
      simp only [Option.some.injEq] at hs; subst hs
      exact cnt_runFrame p hh h hst
  · split at ht
    · rename_i op _
      simp only [Option.some.injEq] at ht; subst ht
      exact cnt_startTop (s := { s with topIdx := s.topIdx + 1 }) (cnt_same (fs := []) h rfl rfl rfl lights_nil) s.topIdx op
    · cases ht

theorem cnt_default : Cnt ({} : St) := by constructor <;> intro sys <;> rfl

/-- **Along every execution the three balances hold.** -/
theorem cnt_reach (p : Prog) (hh : Hist) {s0 s : St} (h0 : Cnt s0) (hr : Reach p hh s0 s) : Cnt s := by
  induction hr with
  | refl => exact h0
  | tick _ ht ih => exact cnt_tick p hh ih ht

end Cobweb

namespace Cobweb

/-! ### the two error outcomes never happen -/

def Ev.isBad : Ev → Bool
  | .abortRoot _ => true
  | .discard _ => true
  | _ => false

/-- The only situations in which a frame emits `abortRoot` / `discard`. -/
def badCase (s : St) : Frame → Prop
  | .runnerLookup sys _ idx => s.alive sys = true ∧ s.storage sys = some false ∧ idx = 0
  | .finish _ idx => idx = 0 ∧ s.buffered ≠ []
  | _ => False

def Ev.isBody : Ev → Bool
  | .body _ _ _ => true
  | _ => false

/-- The step added control events none of which is an error outcome or a `body`. -/
def GoodEvs (s s' : St) : Prop := ∃ evs, ct s' = evs ++ ct s ∧ ∀ e ∈ evs, e.isBad = false ∧ e.isBody = false

/-- The step started a body of a live system: `enter`, then `body` labelled with the system's run counter, which is
    incremented; no other system's info changes and no entity is reserved. -/
def BodyEvs (s s' : St) : Prop :=
  ∃ sys obs, ct s' = Ev.body sys (s.info sys).nruns obs :: Ev.enter sys :: ct s ∧ s.alive sys = true ∧
    s'.nextEnt = s.nextEnt ∧ (s'.info sys).nruns = (s.info sys).nruns + 1 ∧ ∀ x, x ≠ sys → s'.info x = s.info x

theorem good_same {s s' : St} (h : ct s' = ct s) : GoodEvs s s' := ⟨[], h, by simp⟩
theorem good_one {s s' : St} (e : Ev) (h : ct s' = e :: ct s) (he : e.isBad = false) (hb : e.isBody = false := by rfl) :
    GoodEvs s s' :=
  ⟨[e], h, by simp [he, hb]⟩

/-- The runner's lookup: an abort, a postponement, a skipped `once` wrapper — or the start of a body. -/
theorem good_lookup (s : St) (sys : Nat) (k : Kind) (idx : Nat) (hg : ¬ badCase s (.runnerLookup sys k idx)) :
    (GoodEvs s (doRunnerLookup s sys k idx) ∧ (doRunnerLookup s sys k idx).info = s.info ∧
      (doRunnerLookup s sys k idx).nextEnt = s.nextEnt) ∨ BodyEvs s (doRunnerLookup s sys k idx) := by
  simp only [doRunnerLookup]
  split
  · exact Or.inl ⟨good_one (.abortNoEntity sys) (by simp only [ct_push]; exact ct_emit_ctl _ _ rfl) rfl, rfl, rfl⟩
  · rename_i hal
    have hal' : s.alive sys = true := by simpa using hal
    split
    · exact Or.inl ⟨good_one (.abortNoStorage sys) (by simp only [ct_push]; exact ct_emit_ctl _ _ rfl) rfl, rfl, rfl⟩
    · rename_i hsto
      split
      · rename_i hidx
        exfalso; apply hg
        exact ⟨hal', hsto, hidx⟩
      · exact Or.inl ⟨good_one (.postponed sys) ((ct_emit_ctl _ _ rfl).trans (by rfl)) rfl, rfl, rfl⟩
    · obtain ⟨obs, hsb⟩ := ct_startBody_ex ({ s with storage := upd s.storage sys (some false), counter := s.counter + 1 } : St) sys k
      have hinfo := startBody_info' ({ s with storage := upd s.storage sys (some false), counter := s.counter + 1 } : St) sys k
      have hnext : (startBody ({ s with storage := upd s.storage sys (some false), counter := s.counter + 1 } : St) sys k).nextEnt = s.nextEnt := by
        simp
      have hbody : ∀ s' : St, ct s' = ct (startBody ({ s with storage := upd s.storage sys (some false), counter := s.counter + 1 } : St) sys k) →
          s'.info = (startBody ({ s with storage := upd s.storage sys (some false), counter := s.counter + 1 } : St) sys k).info →
          s'.nextEnt = s.nextEnt → BodyEvs s s' := by
        intro s' h1 h2 h3
        refine ⟨sys, obs, h1.trans hsb, hal', h3, ?_, ?_⟩
        · rw [h2, hinfo]; simp
        · intro x hx; rw [h2, hinfo]; simp [hx]
      split
      · exact Or.inl ⟨good_one (.enter sys) (by simp only [ct_push]; exact (ct_emit_ctl _ _ rfl).trans (by rw [ct_setupK]; rfl)) rfl,
          by simp, by simp⟩
      · split
        · exact Or.inr (hbody _ (by simp only [ct_push]) (by simp) (by simp [hnext]))
        · split
          · exact Or.inr (hbody _ (by simp only [ct_push]; exact ct_of_trace rfl) (by simp) (by simp [hnext]))
          · exact Or.inr (hbody _ (by simp only [ct_push]) (by simp) (by simp [hnext]))

theorem good_runFrame (p : Prog) (hh : Hist) (s : St) (f : Frame) (hg : ¬ badCase s f)
    (hnl : ∀ sys k idx, f ≠ .runnerLookup sys k idx) : GoodEvs s (runFrame p hh s f) := by
  cases f with
  | batch cs =>
    cases cs with
    | nil => exact good_same rfl
    | cons c cs => exact good_same (by simp [runFrame, doBatch])
  | flush => exact good_same (ct_of_trace (by simp [runFrame]))
  | bodyActs sys k i acc =>
    simp only [runFrame, doBodyActs]
    split
    · exact good_same (ct_emit_quiet _ _ (by first | rfl | exact canaryEv_isCtl _ _))
    · exact good_same (by simp)
  | exclActs sys i =>
    simp only [runFrame, doExclActs]
    split
    · exact good_same (ct_emit_quiet _ _ (by first | rfl | exact canaryEv_isCtl _ _))
    · exact good_same rfl
    · rename_i a _ _; exact good_same (by simp only [ct_push]; exact (ct_of_trace rfl).trans (ct_enqueue s a))
  | topActs t i =>
    simp only [runFrame, doTopActs]
    split
    · exact good_same rfl
    · rename_i a _; exact good_same (by simp only [ct_push]; exact (ct_of_trace rfl).trans (ct_enqueue s a))
  | cleanup k => exact good_same (by simp [runFrame])
  | onceTail sys => exact good_same (by simp only [runFrame, doOnceTail, ct_push]; exact (ct_of_trace rfl).trans (ct_despawn1 s sys))
  | dropCallback sys => exact good_same (ct_emit_quiet _ _ (by first | rfl | exact canaryEv_isCtl _ _))
  | runnerStart sys k =>
    exact good_one (.applied sys) (by simp only [runFrame, doRunnerStart, ct_push]; exact ct_emit_ctl _ _ rfl) rfl
  | runnerLookup sys k idx => exact absurd rfl (hnl sys k idx)
  | afterBody sys idx =>
    exact good_one (.exit sys) (by simp only [runFrame, doAfterBody, ct_push]; exact ct_emit_ctl _ _ rfl) rfl
  | reinsert sys idx =>
    simp only [runFrame, doReinsert]
    split
    · exact good_same (by simp only [ct_push]; exact ct_emit_quiet _ _ (by first | rfl | exact canaryEv_isCtl _ _))
    · split <;> exact good_same
        (by simp only [ct_push]; first | exact ct_emit_quiet _ _ (by first | rfl | exact canaryEv_isCtl _ _) | exact (ct_emit_quiet _ _ (by first | rfl | exact canaryEv_isCtl _ _)).trans (ct_emit_quiet _ _ (by first | rfl | exact canaryEv_isCtl _ _)))
    · split <;> exact good_same
        (by simp only [ct_push]; first | exact ct_emit_quiet _ _ (by first | rfl | exact canaryEv_isCtl _ _) | exact (ct_emit_quiet _ _ (by first | rfl | exact canaryEv_isCtl _ _)).trans (ct_emit_quiet _ _ (by first | rfl | exact canaryEv_isCtl _ _)))
  | replayTake sys idx => exact good_same rfl
  | replayLoop sys r kept idx =>
    simp only [runFrame, doReplayLoop]
    split
    · exact good_same rfl
    · split
      · exact good_one (.replay sys) (by simp only [ct_push]; exact ct_emit_ctl _ _ rfl) rfl
      · exact good_same rfl
  | finish sys idx =>
    simp only [runFrame, doFinish]
    split
    · rename_i hidx
      split
      · exact good_same (ct_emit_quiet _ _ (by first | rfl | exact canaryEv_isCtl _ _))
      · rename_i b bs hb
        exfalso; apply hg
        have hb' : s.buffered = b :: bs := hb
        exact ⟨hidx, by rw [hb']; simp⟩
    · exact good_same (ct_emit_quiet _ _ (by first | rfl | exact canaryEv_isCtl _ _))
  | abort sys k => exact good_same (by simp [runFrame])
  | gc => exact good_same (ct_of_trace (by simp [runFrame]))
  | despawnWork work =>
    simp only [runFrame, doDespawnWork]
    split
    · exact good_same rfl
    · split
      · split
        · exact good_same (by simp)
        · exact good_same rfl
      · split <;> exact good_same rfl
  | poll => exact good_same (by simp only [runFrame, doPoll, ct_push]; exact ct_of_trace (by simp))

end Cobweb

namespace Cobweb

theorem ctl_not_bad {s : St} {f : Frame} {rest : List Frame} (c : Ctl s) (hs : s.stack = f :: rest) :
    ¬ badCase ({ s with stack := rest } : St) f := by
  cases f <;> simp only [badCase] <;> try (intro h; exact h)
  case runnerLookup sys k idx =>
    rintro ⟨_, hsto, hidx⟩
    subst hidx
    have hrun : sys ∈ running rest := by
      have := c.takenRunning sys hsto
      rw [hs, running_cons] at this; exact this
    have hso := c.stackOK; rw [hs] at hso
    have hina : hasActive rest = false := (hso.1.1 0 rfl).mp rfl
    have := running_sub_waiting rest sys hrun
    rw [waiting_nil_of_inactive rest hina] at this
    cases this
  case finish sys idx =>
    rintro ⟨hidx, hne⟩
    subst hidx
    have hso := c.stackOK; rw [hs] at hso
    have hina : hasActive rest = false := (hso.1.1 0 rfl).mp rfl
    apply hne
    show s.buffered = []
    cases hb : s.buffered with
    | nil => rfl
    | cons b bs =>
      have := c.buffered b (by rw [hb]; simp)
      rw [hs, waiting_cons] at this
      simp only [Frame.waitSys, Option.toList, List.nil_append] at this
      rw [waiting_nil_of_inactive rest hina] at this
      cases this

/-- No `abortRoot` / `discard` event so far. -/
def NoBad (s : St) : Prop := ∀ e ∈ ct s, e.isBad = false

theorem nobad_of_good {s s' : St} (h : NoBad s) (g : GoodEvs s s') : NoBad s' := by
  obtain ⟨evs, hc, he⟩ := g
  intro e hin
  rw [hc] at hin
  rcases List.mem_append.mp hin with h1 | h1
  · exact (he e h1).1
  · exact h e h1

theorem nobad_of_body {s s' : St} (h : NoBad s) (g : BodyEvs s s') : NoBad s' := by
  obtain ⟨sys, obs, hc, _⟩ := g
  intro e hin
  rw [hc] at hin
  simp only [List.mem_cons] at hin
  rcases hin with rfl | rfl | h1
  · rfl
  · rfl
  · exact h e h1

theorem good_applyCmd (s : St) (c : Cmd) : GoodEvs s (applyCmd s c) := good_same (by simp)

theorem good_trans {a b c : St} (h1 : GoodEvs a b) (h2 : GoodEvs b c) : GoodEvs a c := by
  obtain ⟨e1, c1, g1⟩ := h1
  obtain ⟨e2, c2, g2⟩ := h2
  refine ⟨e2 ++ e1, by rw [c2, c1, List.append_assoc], ?_⟩
  intro e he
  rcases List.mem_append.mp he with h | h
  · exact g2 e h
  · exact g1 e h

theorem good_startTop (s : St) (t : Nat) (op : TopOp) : GoodEvs s (startTop s t op) := by
  have he : GoodEvs s (s.emit (.top t)) := good_same (ct_emit_quiet _ _ (by first | rfl | exact canaryEv_isCtl _ _))
  unfold startTop
  cases op <;> dsimp only
  case acts => exact he
  case wDespawn e => exact good_trans he (good_same (by simp))
  case wDespawnRec e => exact he
  case wRemove e ty => exact good_trans he (good_applyCmd _ _)
  case wInsertRaw e ty v => exact good_trans he (good_applyCmd _ _)
  case wSetParent c p => split <;> exact he
  case gc => exact he
  case poll => exact he
  case frameEnd => exact he
  case clearTrackers => exact he
  case wSysEvent sys ty pid =>
    refine good_trans (good_trans he ?_) (good_applyCmd _ _)
    exact good_same ((ct_of_trace (by simp [St.fresh])).trans (ct_emit_quiet _ (Ev.send pid) rfl))
  case wBroadcast ty pid => exact good_trans (good_trans he (good_same (ct_emit_quiet _ _ (by first | rfl | exact canaryEv_isCtl _ _)))) (good_applyCmd _ _)
  case wEntityEvent e ty pid => exact good_trans (good_trans he (good_same (ct_emit_quiet _ _ (by first | rfl | exact canaryEv_isCtl _ _)))) (good_applyCmd _ _)
  case sigPrepare e => exact he
  case sigClone a => split <;> first | exact he | exact good_trans he (good_same (ct_of_trace (by simp)))
  case sigDrop a => split <;> first | exact he | exact good_trans he (good_same (by simp))
  case sigThreads a n => exact he

theorem nobad_tick (p : Prog) (hh : Hist) {s s' : St} (c : Ctl s) (h : NoBad s) (ht : tick p hh s = some s') : NoBad s' := by
  unfold tick at ht
  split at ht
  · rename_i s'' hs
    simp only [Option.some.injEq] at ht; subst ht
    unfold step at hs
    cases hst : s.stack with
    | nil => rw [hst] at hs; cases hs
    | cons f rest =>
      rw [hst] at hs
      simp only [Option.some.injEq] at hs; subst hs
      by_cases hl : ∃ sys k idx, f = .runnerLookup sys k idx
      · obtain ⟨sys, k, idx, rfl⟩ := hl
        rcases good_lookup ({ s with stack := rest } : St) sys k idx (ctl_not_bad c hst) with g | g
        · exact nobad_of_good (s := { s with stack := rest }) h g.1
        · exact nobad_of_body (s := { s with stack := rest }) h g
      · exact nobad_of_good (s := { s with stack := rest }) h
          (good_runFrame p hh _ f (ctl_not_bad c hst) (fun a b d hx => hl ⟨a, b, d, hx⟩))
  · split at ht
    · rename_i op _
      simp only [Option.some.injEq] at ht; subst ht
      exact nobad_of_good (s := { s with topIdx := s.topIdx + 1 }) h (good_startTop _ _ _)
    · cases ht

theorem nobad_reach (p : Prog) (hh : Hist) {s0 s : St} (c0 : Ctl s0) (h0 : NoBad s0) (hr : Reach p hh s0 s) : NoBad s := by
  induction hr with
  | refl => exact h0
  | tick hr' ht ih => exact nobad_tick p hh (ctl_reach p hh c0 hr') ih ht

theorem nobad_default : NoBad ({} : St) := by intro e he; cases he

theorem nE_zero_of_nobad {s : St} (h : NoBad s) (e : Ev) (he : e.isBad = true) : nE e s = 0 := by
  unfold nE
  apply List.count_eq_zero.mpr
  intro hin
  have := h e hin
  rw [he] at this; cases this

end Cobweb

namespace Cobweb

/-! ### run counters: `Local` = number of earlier runs (C13) -/

def isBodyOf (sys : Nat) : Ev → Bool
  | .body t _ _ => t == sys
  | _ => false

/-- Number of bodies of `sys` started so far. -/
def nBody (sys : Nat) (s : St) : Nat := (ct s).countP (isBodyOf sys)

/-- Every `body sys r _` event is labelled with the number of earlier `body sys` events (the trace is newest first). -/
def BodyIdx : List Ev → Prop
  | [] => True
  | e :: l => (∀ sys r o, e = Ev.body sys r o → r = l.countP (isBodyOf sys)) ∧ BodyIdx l

structure Runs (s : St) : Prop where
  cnt : ∀ sys, (s.info sys).nruns = nBody sys s
  fresh : ∀ sys, s.nextEnt ≤ sys → nBody sys s = 0
  idx : BodyIdx (ct s)

/-- Run counters are unchanged, except that a freshly reserved id starts from 0. -/
def NrSame (s s' : St) : Prop := ∀ x, (s'.info x).nruns = (s.info x).nruns ∨ (s.nextEnt ≤ x ∧ (s'.info x).nruns = 0)

theorem nrsame_of_info {s s' : St} (h : s'.info = s.info) : NrSame s s' := fun x => Or.inl (by rw [h])

theorem isBodyOf_isBody {sys : Nat} {e : Ev} (h : isBodyOf sys e = true) : e.isBody = true := by
  cases e <;> simp_all [isBodyOf, Ev.isBody]

theorem countP_quiet (sys : Nat) (evs l : List Ev) (h : ∀ e ∈ evs, e.isBody = false) :
    (evs ++ l).countP (isBodyOf sys) = l.countP (isBodyOf sys) := by
  rw [List.countP_append]
  have : evs.countP (isBodyOf sys) = 0 := by
    rw [List.countP_eq_zero]
    intro e he hb
    have := isBodyOf_isBody hb
    rw [h e he] at this; cases this
  omega

theorem bodyIdx_quiet (evs l : List Ev) (h : ∀ e ∈ evs, e.isBody = false) (hl : BodyIdx l) : BodyIdx (evs ++ l) := by
  induction evs with
  | nil => exact hl
  | cons e evs ih =>
    refine ⟨?_, ih (fun x hx => h x (by simp [hx]))⟩
    intro sys r o he
    have := h e (by simp)
    rw [he] at this; cases this

theorem runs_good {s s' : St} (h : Runs s) (g : GoodEvs s s') (hn : NrSame s s') (hnext : s.nextEnt ≤ s'.nextEnt) : Runs s' := by
  obtain ⟨evs, hc, he⟩ := g
  have hq : ∀ e ∈ evs, e.isBody = false := fun e h' => (he e h').2
  have hnb : ∀ sys, nBody sys s' = nBody sys s := fun sys => by unfold nBody; rw [hc]; exact countP_quiet sys evs _ hq
  constructor
  · intro sys
    rw [hnb]
    rcases hn sys with h1 | ⟨h1, h2⟩
    · rw [h1]; exact h.cnt sys
    · rw [h2]; exact (h.fresh sys h1).symm
  · intro sys hs; rw [hnb]; exact h.fresh sys (by omega)
  · rw [hc]; exact bodyIdx_quiet evs _ hq h.idx

theorem runs_body {s s' : St} (hfresh : ∀ e, s.nextEnt ≤ e → s.alive e = false) (h : Runs s) (g : BodyEvs s s') : Runs s' := by
  obtain ⟨sys, obs, hc, hal, hnext, hinc, hoth⟩ := g
  have hlt : sys < s.nextEnt := by
    apply Nat.lt_of_not_le; intro hle
    have := hfresh sys hle; rw [hal] at this; cases this
  have hnb : ∀ x, nBody x s' = nBody x s + (if x = sys then 1 else 0) := by
    intro x; unfold nBody; rw [hc]
    simp only [List.countP_cons, isBodyOf]
    by_cases hx : x = sys
    · subst hx; simp
    · have : (sys == x) = false := by simp; exact fun h' => hx h'.symm
      simp [this, hx]
  constructor
  · intro x
    rw [hnb]
    by_cases hx : x = sys
    · subst hx; rw [hinc, h.cnt]; simp
    · rw [hoth x hx, h.cnt]; simp [hx]
  · intro x hx
    rw [hnb, h.fresh x (by omega)]
    have : x ≠ sys := by omega
    simp [this]
  · rw [hc]
    refine ⟨?_, ?_, h.idx⟩
    · intro sys' r o he
      injection he with h1 h2 h3
      subst h1 h2
      simp only [List.countP_cons, isBodyOf]
      have := h.cnt sys
      unfold nBody at this
      simp [this]
    · intro sys' r o he; cases he

end Cobweb

namespace Cobweb

theorem enqueue_nruns (s : St) (a : Act) : NrSame s (enqueue s a).1 := by
  have hi := enqueue_info s a
  intro x
  by_cases hx : x = s.nextEnt
  · subst hx
    by_cases heq : (enqueue s a).1.info s.nextEnt = s.info s.nextEnt
    · left; rw [heq]
    · right
      refine ⟨Nat.le_refl _, ?_⟩
      revert heq
      cases a <;> simp only [enqueue] <;> (try split) <;> (try split) <;> simp [St.fresh, St.emit, upd]
  · left; rw [hi.1 x hx]

/-- Frames other than the runner's lookup leave the run counters alone (fresh ids start from 0). -/
theorem nrsame_runFrame (p : Prog) (h : Hist) (s : St) (f : Frame) (hnl : ∀ sys k idx, f ≠ .runnerLookup sys k idx) :
    NrSame s (runFrame p h s f) := by
  by_cases hb : ∃ sys k i acc, f = .bodyActs sys k i acc
  · obtain ⟨sys, k, i, acc, rfl⟩ := hb
    simp only [runFrame, doBodyActs]
    split
    · exact nrsame_of_info rfl
    · exact fun x => by simpa using enqueue_nruns s ‹Act› x
  by_cases he : ∃ sys i, f = .exclActs sys i
  · obtain ⟨sys, i, rfl⟩ := he
    simp only [runFrame, doExclActs]
    split
    · exact nrsame_of_info rfl
    · exact nrsame_of_info rfl
    · exact fun x => by simpa using enqueue_nruns s ‹Act› x
  by_cases ht : ∃ t i, f = .topActs t i
  · obtain ⟨t, i, rfl⟩ := ht
    simp only [runFrame, doTopActs]
    split
    · exact nrsame_of_info rfl
    · exact fun x => by simpa using enqueue_nruns s ‹Act› x
  exact nrsame_of_info (runFrame_info p h s f ⟨fun a b c d hx => hb ⟨a, b, c, d, hx⟩, fun a b hx => he ⟨a, b, hx⟩,
    fun a b hx => ht ⟨a, b, hx⟩, hnl⟩)

theorem runs_tick (p : Prog) (hh : Hist) {s s' : St} (c : Ctl s) (h : Runs s) (ht : tick p hh s = some s') : Runs s' := by
  unfold tick at ht
  split at ht
  · rename_i s'' hs
    simp only [Option.some.injEq] at ht; subst ht
    unfold step at hs
    cases hst : s.stack with
    | nil => rw [hst] at hs; cases hs
    | cons f rest =>
      rw [hst] at hs
      simp only [Option.some.injEq] at hs; subst hs
      have h0 : Runs ({ s with stack := rest } : St) := ⟨h.cnt, h.fresh, h.idx⟩
      have c0fresh : ∀ e, s.nextEnt ≤ e → s.alive e = false ∧ s.storage e = none := c.fresh
      by_cases hl : ∃ sys k idx, f = .runnerLookup sys k idx
      · obtain ⟨sys, k, idx, rfl⟩ := hl
        show Runs (doRunnerLookup ({ s with stack := rest } : St) sys k idx)
        rcases good_lookup ({ s with stack := rest } : St) sys k idx (ctl_not_bad c hst) with g | g
        · exact runs_good h0 g.1 (nrsame_of_info g.2.1) (by rw [g.2.2]; exact Nat.le_refl _)
        · exact runs_body (s := ({ s with stack := rest } : St)) (fun e he => (c0fresh e he).1) h0 g
      · have hnl : ∀ a b d, f ≠ .runnerLookup a b d := fun a b d hx => hl ⟨a, b, d, hx⟩
        exact runs_good h0 (good_runFrame p hh _ f (ctl_not_bad c hst) hnl) (nrsame_runFrame p hh _ f hnl)
          (grow_runFrame p hh _ f).next
  · split at ht
    · rename_i op _
      simp only [Option.some.injEq] at ht; subst ht
      have h0 : Runs ({ s with topIdx := s.topIdx + 1 } : St) := ⟨h.cnt, h.fresh, h.idx⟩
      exact runs_good h0 (good_startTop _ _ _) (nrsame_of_info (startTop_info _ _ _))
        (by obtain ⟨_, _, _, b⟩ := benignP_startTop ({ s with topIdx := s.topIdx + 1 } : St) s.topIdx op; exact b.next)
    · cases ht

theorem runs_default : Runs ({} : St) := ⟨fun _ => rfl, fun _ _ => rfl, trivial⟩

/-- **Along every execution**: the run counter of every system equals the number of its bodies started so far, and
    every body was labelled with the number of bodies of the same system started before it. -/
theorem runs_reach (p : Prog) (hh : Hist) {s0 s : St} (c0 : Ctl s0) (h0 : Runs s0) (hr : Reach p hh s0 s) : Runs s := by
  induction hr with
  | refl => exact h0
  | tick hr' ht ih => exact runs_tick p hh (ctl_reach p hh c0 hr') ih ht

end Cobweb
