/-
  Cobweb.Proofs.Local — frame locality: a step pops the top frame and pushes frames; the rest of the control stack is
  never inspected or changed. The segment lemma turns this into telescoping of executions.
-/
import Cobweb.Proofs.CtlStep
import Cobweb.Proofs.Frames

namespace Cobweb

theorem doRunnerLookup_stack (s : St) (sys idx : Nat) (k : Kind) : ∃ fs, (doRunnerLookup s sys k idx).stack = fs ++ s.stack := by
  unfold doRunnerLookup
  split
  · exact ⟨_, rfl⟩
  · split
    · exact ⟨_, rfl⟩
    · split
      · exact ⟨_, rfl⟩
      · exact ⟨[], rfl⟩
    · dsimp only
      split
      · refine ⟨[.afterBody sys idx], ?_⟩; simp [St.push]
      · split
        · refine ⟨[.bodyActs sys k 0 [], .onceTail sys, .afterBody sys idx], ?_⟩; simp [St.push]
        · split
          · refine ⟨[.exclActs sys 0, .afterBody sys idx], ?_⟩; simp [St.push]
          · refine ⟨[.bodyActs sys k 0 [], .afterBody sys idx], ?_⟩; simp [St.push]

theorem doReinsert_stack (s : St) (sys idx : Nat) : ∃ fs, (doReinsert s sys idx).stack = fs ++ s.stack := by
  unfold doReinsert
  split
  · exact ⟨_, rfl⟩
  · dsimp only; split <;> exact ⟨_, rfl⟩
  · dsimp only; split <;> exact ⟨_, rfl⟩

theorem doReplayLoop_stack (s : St) (sys idx : Nat) (r kept : List (Nat × Kind)) :
    ∃ fs, (doReplayLoop s sys r kept idx).stack = fs ++ s.stack := by
  unfold doReplayLoop
  split
  · exact ⟨_, rfl⟩
  · split <;> exact ⟨_, rfl⟩

theorem doFinish_stack (s : St) (sys idx : Nat) : ∃ fs, (doFinish s sys idx).stack = fs ++ s.stack := by
  unfold doFinish
  split
  · split
    · exact ⟨[], rfl⟩
    · exact ⟨_, rfl⟩
  · exact ⟨[], rfl⟩

/-- **Frame locality**: running a frame only pushes frames on top of the popped stack. -/
theorem runFrame_stack (p : Prog) (h : Hist) (s : St) (f : Frame) : ∃ fs, (runFrame p h s f).stack = fs ++ s.stack := by
  by_cases hin : f.inert = true
  · by_cases hrs : ∃ sys k, f = .runnerStart sys k
    · obtain ⟨sys, k, rfl⟩ := hrs; exact ⟨_, rfl⟩
    · have hnr : ∀ sys k, f ≠ .runnerStart sys k := fun sys k hh => hrs ⟨sys, k, hh⟩
      obtain ⟨fs, hs, _, _⟩ := benignP_runFrame_inert p h s f hin hnr
      exact ⟨fs, hs⟩
  · cases f with
    | runnerLookup sys k idx => exact doRunnerLookup_stack s sys idx k
    | afterBody sys idx => exact ⟨_, rfl⟩
    | reinsert sys idx => exact doReinsert_stack s sys idx
    | replayTake sys idx => exact ⟨_, rfl⟩
    | replayLoop sys r kept idx => exact doReplayLoop_stack s sys idx r kept
    | finish sys idx => exact doFinish_stack s sys idx
    | _ => exact absurd rfl hin

theorem step_local (p : Prog) (h : Hist) {s s' : St} {f : Frame} {rest : List Frame} (hs : s.stack = f :: rest)
    (hst : step p h s = some s') : ∃ fs, s'.stack = fs ++ rest := by
  unfold step at hst
  rw [hs] at hst
  simp only [Option.some.injEq] at hst
  subst hst
  exact runFrame_stack p h _ f

/-- `n` machine steps (no top-level injection). -/
def steps (p : Prog) (h : Hist) : Nat → St → St
  | 0, s => s
  | n + 1, s => match step p h s with
    | some s' => steps p h n s'
    | none => s

/-- **Segment lemma**: an execution that starts above `rest` either is still above `rest`, or has passed through a
    state whose stack is exactly `rest` — the frames in `rest` are not touched before everything above them is done. -/
theorem segment (p : Prog) (h : Hist) (rest : List Frame) (n : Nat) (s : St) (hs : ∃ top, s.stack = top ++ rest) :
    (∃ top', (steps p h n s).stack = top' ++ rest) ∨ (∃ m, m < n ∧ (steps p h m s).stack = rest) := by
  induction n generalizing s with
  | zero => exact Or.inl hs
  | succ n ih =>
    obtain ⟨top, htop⟩ := hs
    cases top with
    | nil => exact Or.inr ⟨0, Nat.succ_pos n, by simpa [steps] using htop⟩
    | cons f top =>
      have hst : s.stack = f :: (top ++ rest) := by simpa using htop
      cases hstep : step p h s with
      | none =>
        unfold step at hstep; rw [hst] at hstep; cases hstep
      | some s' =>
        obtain ⟨fs, hfs⟩ := step_local p h hst hstep
        have hs' : ∃ top', s'.stack = top' ++ rest := ⟨fs ++ top, by rw [hfs, List.append_assoc]⟩
        rcases ih s' hs' with hl | ⟨m, hm, hr⟩
        · left; simpa [steps, hstep] using hl
        · right; exact ⟨m + 1, Nat.succ_lt_succ hm, by simpa [steps, hstep] using hr⟩

end Cobweb
