/-
  Cobweb.Proofs.Ctl — the control invariant of the system command runner (DESIGN §4.3, I0–I3):
  callbacks are absent exactly for systems on the control stack, no system is on it twice, the tree counter is
  zero exactly when no runner activation is on the stack, and every postponed command waits for an activation
  that has not yet replayed.
-/
import Cobweb.Exec

namespace Cobweb

/-- System whose callback is held by this frame (between take and reinsert). -/
def Frame.runSys : Frame → Option Nat
  | .afterBody sys _ => some sys
  | .reinsert sys _ => some sys
  | _ => none

/-- System whose runner activation has not yet taken the buffered queue. -/
def Frame.waitSys : Frame → Option Nat
  | .afterBody sys _ => some sys
  | .reinsert sys _ => some sys
  | .replayTake sys _ => some sys
  | _ => none

/-- Frames of a runner activation after the callback was taken. -/
def Frame.active : Frame → Bool
  | .afterBody _ _ => true
  | .reinsert _ _ => true
  | .replayTake _ _ => true
  | .replayLoop _ _ _ _ => true
  | .finish _ _ => true
  | _ => false

/-- The tree-counter value a frame recorded at runner entry. -/
def Frame.idx? : Frame → Option Nat
  | .runnerLookup _ _ idx => some idx
  | .afterBody _ idx => some idx
  | .reinsert _ idx => some idx
  | .replayTake _ idx => some idx
  | .replayLoop _ _ _ idx => some idx
  | .finish _ idx => some idx
  | _ => none

def running (st : List Frame) : List Nat := st.filterMap Frame.runSys
def waiting (st : List Frame) : List Nat := st.filterMap Frame.waitSys
def hasActive (st : List Frame) : Bool := st.any Frame.active

/-- Frames that neither belong to a runner activation nor record a counter value. -/
def Frame.inert (f : Frame) : Bool := !f.active && f.idx?.isNone

/-- Per-frame condition, relative to the stack below it. -/
def FrameOK (f : Frame) (below : List Frame) : Prop :=
  (∀ i, f.idx? = some i → (i = 0 ↔ hasActive below = false)) ∧
  (match f with
   | .replayLoop t rest kept _ =>
     (∀ b ∈ kept, b.1 ∈ waiting below) ∧ (∀ b ∈ rest, b.1 = t ∨ b.1 ∈ waiting below)
   | _ => True)

def StackOK : List Frame → Prop
  | [] => True
  | f :: below => FrameOK f below ∧ StackOK below

structure Ctl (s : St) : Prop where
  fresh : ∀ e, s.nextEnt ≤ e → s.alive e = false ∧ s.storage e = none
  takenAlive : ∀ e, s.storage e = some false → s.alive e = true
  takenRunning : ∀ e, s.storage e = some false → e ∈ running s.stack
  runningTaken : ∀ e, e ∈ running s.stack → s.alive e = true → s.storage e = some false
  runningOld : ∀ e, e ∈ running s.stack → e < s.nextEnt
  nodup : (running s.stack).Nodup
  counter : s.counter = 0 ↔ hasActive s.stack = false
  stackOK : StackOK s.stack
  buffered : ∀ b ∈ s.buffered, b.1 ∈ waiting s.stack

/-! ### inert frames do not change the stack observations -/

theorem inert_runSys {f : Frame} (h : f.inert = true) : f.runSys = none := by
  cases f <;> simp_all [Frame.inert, Frame.active, Frame.idx?, Frame.runSys]
theorem inert_waitSys {f : Frame} (h : f.inert = true) : f.waitSys = none := by
  cases f <;> simp_all [Frame.inert, Frame.active, Frame.idx?, Frame.waitSys]
theorem inert_active {f : Frame} (h : f.inert = true) : f.active = false := by
  cases f <;> simp_all [Frame.inert, Frame.active, Frame.idx?]
theorem inert_idx {f : Frame} (h : f.inert = true) : f.idx? = none := by
  cases f <;> simp_all [Frame.inert, Frame.active, Frame.idx?]

theorem running_inert (fs rest : List Frame) (h : ∀ f ∈ fs, f.inert = true) : running (fs ++ rest) = running rest := by
  unfold running
  rw [List.filterMap_append]
  have : fs.filterMap Frame.runSys = [] := List.filterMap_eq_nil_iff.mpr (fun f hf => inert_runSys (h f hf))
  rw [this]; rfl

theorem waiting_inert (fs rest : List Frame) (h : ∀ f ∈ fs, f.inert = true) : waiting (fs ++ rest) = waiting rest := by
  unfold waiting
  rw [List.filterMap_append]
  have : fs.filterMap Frame.waitSys = [] := List.filterMap_eq_nil_iff.mpr (fun f hf => inert_waitSys (h f hf))
  rw [this]; rfl

theorem hasActive_inert (fs rest : List Frame) (h : ∀ f ∈ fs, f.inert = true) : hasActive (fs ++ rest) = hasActive rest := by
  unfold hasActive
  rw [List.any_append]
  have : fs.any Frame.active = false := by
    rw [List.any_eq_false]
    intro f hf
    simp [inert_active (h f hf)]
  rw [this]; rfl

theorem stackOK_inert (fs rest : List Frame) (h : ∀ f ∈ fs, f.inert = true) (hr : StackOK rest) : StackOK (fs ++ rest) := by
  induction fs with
  | nil => simpa
  | cons f fs ih =>
    have hf := h f (by simp)
    refine ⟨?_, ih (fun g hg => h g (by simp [hg]))⟩
    constructor
    · intro i hi
      rw [inert_idx hf] at hi
      cases hi
    · cases f <;> first | trivial | (simp [Frame.inert, Frame.active, Frame.idx?] at hf)

/-! ### benign state changes: everything except the runner's own bookkeeping -/

/-- `s'` differs from `s` only in ways the control invariant tolerates (stack aside). -/
structure Benign (s s' : St) : Prop where
  counter : s'.counter = s.counter
  buffered : s'.buffered = s.buffered
  next : s.nextEnt ≤ s'.nextEnt
  st1 : ∀ e, s'.storage e = some false → s.storage e = some false ∧ (s.alive e = true → s'.alive e = true)
  st2 : ∀ e, e < s.nextEnt → s.storage e = some false → s'.alive e = true → s'.storage e = some false
  al : ∀ e, s'.alive e = true → s.alive e = true ∨ s.nextEnt ≤ e
  fr : ∀ e, s'.nextEnt ≤ e → s.alive e = false → s.storage e = none → s'.alive e = false ∧ s'.storage e = none

theorem Benign.refl (s : St) : Benign s s := by
  constructor <;> first | rfl | exact Nat.le_refl _ | (intros; simp_all)

theorem Benign.trans {a b c : St} (h1 : Benign a b) (h2 : Benign b c) : Benign a c := by
  constructor
  · rw [h2.counter, h1.counter]
  · rw [h2.buffered, h1.buffered]
  · exact Nat.le_trans h1.next h2.next
  · intro e he
    have ⟨x, y⟩ := h2.st1 e he
    have ⟨x', y'⟩ := h1.st1 e x
    exact ⟨x', fun ha => y (y' ha)⟩
  · intro e hlt he ha
    have hlt' : e < b.nextEnt := Nat.lt_of_lt_of_le hlt h1.next
    rcases h2.al e ha with hb | hb
    · exact h2.st2 e hlt' (h1.st2 e hlt he hb) ha
    · exact absurd hlt' (Nat.not_lt.mpr hb)
  · intro e he
    rcases h2.al e he with hb | hb
    · exact h1.al e hb
    · exact Or.inr (Nat.le_trans h1.next hb)
  · intro e he ha hs
    have h1' := h1.fr e (Nat.le_trans h2.next he) ha hs
    exact h2.fr e he h1'.1 h1'.2

end Cobweb

namespace Cobweb

/-- `s'` agrees with `s` on every field the control invariant reads. -/
structure Same (s s' : St) : Prop where
  counter : s'.counter = s.counter
  buffered : s'.buffered = s.buffered
  next : s'.nextEnt = s.nextEnt
  storage : s'.storage = s.storage
  alive : s'.alive = s.alive
  stack : s'.stack = s.stack

theorem Same.refl (s : St) : Same s s := ⟨rfl, rfl, rfl, rfl, rfl, rfl⟩
theorem Same.trans {a b c : St} (h1 : Same a b) (h2 : Same b c) : Same a c :=
  ⟨h2.counter.trans h1.counter, h2.buffered.trans h1.buffered, h2.next.trans h1.next,
   h2.storage.trans h1.storage, h2.alive.trans h1.alive, h2.stack.trans h1.stack⟩

theorem Same.after {a b c : St} (h2 : Same b c) (h1 : Same a b) : Same a c := h1.trans h2

theorem Same.benign {s s' : St} (h : Same s s') : Benign s s' := by
  constructor
  · exact h.counter
  · exact h.buffered
  · rw [h.next]; exact Nat.le_refl _
  · intro e he; rw [h.storage] at he; rw [h.alive]; exact ⟨he, id⟩
  · intro e _ he _; rw [h.storage]; exact he
  · intro e he; rw [h.alive] at he; exact Or.inl he
  · intro e _ ha hs; rw [h.alive, h.storage]; exact ⟨ha, hs⟩

theorem same_emit (s : St) (e : Ev) : Same s (s.emit e) := ⟨rfl, rfl, rfl, rfl, rfl, rfl⟩

theorem same_dropHandle (s : St) (h : Handle) : Same s (dropHandle s h) := by
  unfold dropHandle
  split
  · exact Same.refl s
  · dsimp only
    split <;> exact ⟨rfl, rfl, rfl, rfl, rfl, rfl⟩

theorem same_dropHandles (s : St) (hs : List Handle) : Same s (dropHandles s hs) := by
  unfold dropHandles
  induction hs generalizing s with
  | nil => exact Same.refl s
  | cons h hs ih => exact (same_dropHandle s h).trans (ih _)

theorem same_cloneHandle (s : St) (h : Handle) : Same s (cloneHandle s h) := by
  unfold cloneHandle
  split <;> exact ⟨rfl, rfl, rfl, rfl, rfl, rfl⟩

theorem same_newArc (s : St) (e : Nat) : Same s (newArc s e).2 := ⟨rfl, rfl, rfl, rfl, rfl, rfl⟩

theorem same_setTbl (s : St) (t : Tbl) (ty : Nat) (l : List Handle) : Same s (setTbl s t ty l) :=
  ⟨rfl, rfl, rfl, rfl, rfl, rfl⟩

theorem same_setupK (s : St) (k : Kind) (sys : Nat) : Same s (setupK s k sys) := by
  unfold setupK
  cases k <;> dsimp only
  · exact Same.refl s
  · exact ⟨rfl, rfl, rfl, rfl, rfl, rfl⟩
  · exact ⟨rfl, rfl, rfl, rfl, rfl, rfl⟩
  · split <;> first | exact ⟨rfl, rfl, rfl, rfl, rfl, rfl⟩ | exact (Same.after (same_dropHandle _ _) ⟨rfl, rfl, rfl, rfl, rfl, rfl⟩)
  · exact ⟨rfl, rfl, rfl, rfl, rfl, rfl⟩
  · exact ⟨rfl, rfl, rfl, rfl, rfl, rfl⟩

theorem same_revokeOne (s : St) (sys : Nat) (t : Trig) : Same s (revokeOne s sys t) := by
  unfold revokeOne
  split
  · dsimp only
    split
    · exact Same.after (same_dropHandle _ _) ⟨rfl, rfl, rfl, rfl, rfl, rfl⟩
    · exact ⟨rfl, rfl, rfl, rfl, rfl, rfl⟩
  · split
    · split
      · exact Same.after (same_dropHandles _ _) ⟨rfl, rfl, rfl, rfl, rfl, rfl⟩
      · exact Same.refl s
    · split
      · dsimp only
        split
        · exact Same.after (same_dropHandle _ _) (same_setTbl _ _ _ _)
        · exact same_setTbl _ _ _ _
      · exact Same.refl s

theorem same_revokeAll (s : St) (sys : Nat) (ts : List Trig) : Same s (revokeAll s sys ts) := by
  unfold revokeAll
  induction ts generalizing s with
  | nil => exact Same.refl s
  | cons t ts ih => exact (same_revokeOne s sys t).trans (ih _)

theorem same_regCmds (s : St) (h : Handle) (t : Trig) : Same s (regCmds s h t).1 := by
  unfold regCmds
  split
  · split
    · exact same_cloneHandle _ _
    · exact Same.refl s
  · exact same_cloneHandle _ _
  · split
    · exact same_cloneHandle _ _
    · split
      · exact same_cloneHandle _ _
      · exact Same.refl s

theorem same_regAll (s : St) (h : Handle) (ts : List Trig) : Same s (regAll s h ts).1 := by
  induction ts generalizing s with
  | nil => exact Same.refl s
  | cons t ts ih =>
    unfold regAll
    exact (same_regCmds s h t).trans (ih _)

end Cobweb

namespace Cobweb

/-! ### despawning -/

theorem same_killCanary (s : St) (e : Nat) : Same s (killCanary s e) := by
  unfold killCanary; split <;> first | exact same_emit _ _ | exact Same.refl s

theorem same_killReactors (s : St) (e : Nat) : Same s (killReactors s e) := by
  unfold killReactors
  split
  · exact Same.after (same_dropHandles _ _) ⟨rfl, rfl, rfl, rfl, rfl, rfl⟩
  · exact Same.refl s

theorem same_foldl_removed (l : List (Nat × Nat)) (e : Nat) (s : St) :
    Same s (l.foldl (fun (s : St) (p : Nat × Nat) => { s with removedBuf := upd s.removedBuf p.1 (s.removedBuf p.1 ++ [e]) }) s) := by
  induction l generalizing s with
  | nil => exact Same.refl s
  | cons p l ih => exact Same.after (ih _) ⟨rfl, rfl, rfl, rfl, rfl, rfl⟩

theorem same_killComps (s : St) (e : Nat) : Same s (killComps s e) := by
  have h := same_foldl_removed (s.comp e) e s
  unfold killComps
  exact ⟨h.counter, h.buffered, h.next, h.storage, h.alive, h.stack⟩

theorem same_killTracker (s : St) (e : Nat) : Same s (killTracker s e) := by
  unfold killTracker; split <;> first | exact ⟨rfl, rfl, rfl, rfl, rfl, rfl⟩ | exact Same.refl s

theorem same_killData (s : St) (e : Nat) : Same s (killData s e) := by
  unfold killData
  split
  · dsimp only; split <;> exact ⟨rfl, rfl, rfl, rfl, rfl, rfl⟩
  · exact Same.refl s

/-- `Benign` plus an unchanged control stack. -/
def BenignS (s s' : St) : Prop := Benign s s' ∧ s'.stack = s.stack

theorem BenignS.refl (s : St) : BenignS s s := ⟨Benign.refl s, rfl⟩
theorem BenignS.trans {a b c : St} (h1 : BenignS a b) (h2 : BenignS b c) : BenignS a c :=
  ⟨h1.1.trans h2.1, h2.2.trans h1.2⟩
theorem BenignS.after {a b c : St} (h2 : BenignS b c) (h1 : BenignS a b) : BenignS a c := h1.trans h2
theorem Same.benignS {s s' : St} (h : Same s s') : BenignS s s' := ⟨h.benign, h.stack⟩

theorem benignS_killStorage (s : St) (e : Nat) : BenignS s (killStorage s e) := by
  refine ⟨?_, rfl⟩
  constructor
  · rfl
  · rfl
  · exact Nat.le_refl _
  · intro x hx
    by_cases hxe : x = e
    · subst hxe; simp [killStorage] at hx
    · simp [killStorage, hxe] at hx ⊢; exact hx
  · intro x _ hx ha
    by_cases hxe : x = e
    · subst hxe; simp [killStorage] at ha
    · simp [killStorage, hxe]; exact hx
  · intro x hx
    by_cases hxe : x = e
    · subst hxe; simp [killStorage] at hx
    · simp [killStorage, hxe] at hx; exact Or.inl hx
  · intro x _ ha hs
    by_cases hxe : x = e
    · subst hxe; simp [killStorage]
    · simp [killStorage, hxe]; exact ⟨ha, hs⟩

end Cobweb

namespace Cobweb

theorem benignS_kill (s : St) (e : Nat) : BenignS s (kill s e) := by
  have h1 := (same_killCanary s e).benignS
  have h2 := h1.trans (benignS_killStorage _ e)
  have h3 := h2.trans (same_killReactors _ e).benignS
  have h4 := h3.trans (same_killComps _ e).benignS
  have h5 := h4.trans (same_killTracker _ e).benignS
  have h6 := h5.trans (same_killData _ e).benignS
  exact h6.trans (Same.benignS ⟨rfl, rfl, rfl, rfl, rfl, rfl⟩)

theorem benignS_despawn1 (s : St) (e : Nat) : BenignS s (despawn1 s e) := by
  unfold despawn1; split
  · exact benignS_kill s e
  · exact BenignS.refl s

theorem benignS_tryCleanupData (s : St) (d : Nat) : BenignS s (tryCleanupData s d) := by
  unfold tryCleanupData
  split
  · split
    · split
      · exact BenignS.refl s
      · dsimp only
        split
        · exact BenignS.after (benignS_kill _ _) (Same.benignS ⟨rfl, rfl, rfl, rfl, rfl, rfl⟩)
        · exact Same.benignS ⟨rfl, rfl, rfl, rfl, rfl, rfl⟩
    · exact BenignS.refl s
  · exact BenignS.refl s

theorem benignS_cleanupK (s : St) (k : Kind) : BenignS s (cleanupK s k) := by
  unfold cleanupK
  cases k <;> dsimp only
  · exact BenignS.refl s
  · exact BenignS.after (benignS_despawn1 _ _) (Same.benignS ⟨rfl, rfl, rfl, rfl, rfl, rfl⟩)
  · exact Same.benignS ⟨rfl, rfl, rfl, rfl, rfl, rfl⟩
  · split
    · exact BenignS.after (same_dropHandle _ _).benignS (Same.benignS ⟨rfl, rfl, rfl, rfl, rfl, rfl⟩)
    · exact Same.benignS ⟨rfl, rfl, rfl, rfl, rfl, rfl⟩
  · exact BenignS.after (benignS_tryCleanupData _ _) (Same.benignS ⟨rfl, rfl, rfl, rfl, rfl, rfl⟩)
  · exact BenignS.after (benignS_tryCleanupData _ _) (Same.benignS ⟨rfl, rfl, rfl, rfl, rfl, rfl⟩)

/-- Reserving a fresh entity: benign provided the reserved id really is fresh. -/
theorem benignS_fresh (s : St) : BenignS s s.fresh.2 := by
  refine ⟨?_, rfl⟩
  constructor
  · rfl
  · rfl
  · exact Nat.le_succ _
  · intro e he
    refine ⟨he, fun ha => ?_⟩
    simp only [St.fresh, upd]
    split <;> simp_all
  · intro e _ he _; exact he
  · intro e he
    simp only [St.fresh, upd] at he
    split at he
    · rename_i h; exact Or.inr (by omega)
    · exact Or.inl he
  · intro e he ha hs
    simp only [St.fresh] at he
    simp only [St.fresh, upd]
    refine ⟨?_, hs⟩
    split
    · omega
    · exact ha

theorem same_bumpLocal (s : St) (w : Option Nat) : Same s (bumpLocal s w) := by
  unfold bumpLocal
  split
  · split <;> first | exact ⟨rfl, rfl, rfl, rfl, rfl, rfl⟩ | exact Same.refl s
  · exact Same.refl s

theorem same_observe (s : St) (w : Option Nat) : Same s (observe s w).2 := by
  unfold observe
  dsimp only
  refine Same.trans ?_ (same_bumpLocal _ w)
  split
  · split <;> first | exact ⟨rfl, rfl, rfl, rfl, rfl, rfl⟩ | exact Same.refl s
  · exact Same.refl s

end Cobweb

namespace Cobweb

theorem benignS_after_fresh {s s' : St} (h1 : s'.counter = s.fresh.2.counter) (h2 : s'.buffered = s.fresh.2.buffered)
    (h3 : s'.nextEnt = s.fresh.2.nextEnt) (h4 : s'.storage = s.fresh.2.storage) (h5 : s'.alive = s.fresh.2.alive)
    (h6 : s'.stack = s.fresh.2.stack) : BenignS s s' :=
  (benignS_fresh s).trans (Same.benignS ⟨h1, h2, h3, h4, h5, h6⟩)

/-- Closes `BenignS s t` goals whose `t` is `s` with fields outside the control invariant updated, possibly after a
    `fresh` reservation. -/
macro "benign_close" : tactic => `(tactic|
  first
  | exact BenignS.refl _
  | exact Same.benignS ⟨rfl, rfl, rfl, rfl, rfl, rfl⟩
  | exact benignS_after_fresh rfl rfl rfl rfl rfl rfl
  | exact (same_emit _ _).benignS.trans (benignS_after_fresh rfl rfl rfl rfl rfl rfl))

theorem benignS_enqueue (s : St) (a : Act) : BenignS s (enqueue s a).1 := by
  cases a <;> simp only [enqueue] <;>
    first
    | benign_close
    | (split <;> benign_close)
    | (split <;> (try split) <;> benign_close)

end Cobweb

namespace Cobweb

/-- Benign change plus a push of inert frames. -/
def BenignP (s s' : St) : Prop := ∃ fs, s'.stack = fs ++ s.stack ∧ (∀ f ∈ fs, f.inert = true) ∧ Benign s s'

theorem BenignS.toP {s s' : St} (h : BenignS s s') : BenignP s s' := ⟨[], by simpa using h.2, by simp, h.1⟩

theorem benign_push (s : St) (fs : List Frame) : Benign s (s.push fs) := by
  constructor
  · rfl
  · rfl
  · exact Nat.le_refl _
  · intro e he; exact ⟨he, id⟩
  · intro e _ he _; exact he
  · intro e he; exact Or.inl he
  · intro e _ ha hs; exact ⟨ha, hs⟩

theorem benignP_push {s s' : St} (h : BenignS s s') (fs : List Frame) (hf : ∀ f ∈ fs, f.inert = true) :
    BenignP s (s'.push fs) := by
  refine ⟨fs, ?_, hf, ?_⟩
  · simp [St.push, h.2]
  · exact h.1.trans (benign_push s' fs)

theorem BenignP.trans_S {a b c : St} (h1 : BenignS a b) (h2 : BenignP b c) : BenignP a c := by
  obtain ⟨fs, hs, hf, hb⟩ := h2
  exact ⟨fs, by rw [hs, h1.2], hf, h1.1.trans hb⟩

theorem inert_flush_batch (cs : List Cmd) : ∀ f ∈ [Frame.flush, Frame.batch cs], f.inert = true := by
  intro f hf; simp at hf; rcases hf with rfl | rfl <;> rfl

theorem inert_runnerStart (sys : Nat) (k : Kind) : ∀ f ∈ [Frame.runnerStart sys k], f.inert = true := by
  intro f hf; simp at hf; subst hf; rfl

macro "same_rfl" : tactic => `(tactic| exact ⟨rfl, rfl, rfl, rfl, rfl, rfl⟩)
/-- `BenignP s t` where `t` is `s` with only non-control fields changed. -/
macro "p_same" : tactic => `(tactic| (refine BenignS.toP (Same.benignS ?_); same_rfl))
/-- `BenignP s (t.push fs)` where `t` is `s` with only non-control fields changed and `fs` are inert. -/
macro "p_push_same" : tactic => `(tactic|
  (refine benignP_push (Same.benignS ?_) _ ?_
   · same_rfl
   · exact inert_flush_batch _))
macro "p_push_same1" : tactic => `(tactic|
  (refine benignP_push (Same.benignS ?_) _ ?_
   · same_rfl
   · intro f hf; simp at hf; subst hf; rfl))

theorem benignS_setStorage (s : St) (sys : Nat) (hc : s.alive sys = true ∧ s.storage sys = none) :
    BenignS s { s with storage := upd s.storage sys (some true) } := by
  refine ⟨?_, rfl⟩
  constructor
  · rfl
  · rfl
  · exact Nat.le_refl _
  · intro e he
    by_cases h : e = sys
    · subst h; simp at he
    · simp [h] at he; exact ⟨he, id⟩
  · intro e _ he _
    by_cases h : e = sys
    · subst h; rw [hc.2] at he; cases he
    · simp [h]; exact he
  · intro e he; exact Or.inl he
  · intro e _ ha hs
    by_cases h : e = sys
    · subst h; rw [hc.1] at ha; cases ha
    · simp [h]; exact ⟨ha, hs⟩

theorem benignP_applyCmd (s : St) (c : Cmd) : BenignP s (applyCmd s c) := by
  cases c <;> simp only [applyCmd]
  case marker m => exact (same_emit _ _).benignS.toP
  case run sys => p_push_same1
  case sysEvent sys d => p_push_same1
  case reactRes sys => p_push_same1
  case reactEnt src rt sys => p_push_same1
  case reactDsp src sys h => p_push_same1
  case reactEv target d sys => p_push_same1
  case reactBc d sys => p_push_same1
  case spawnStorage sys =>
    split
    · rename_i hc; exact (benignS_setStorage s sys hc).toP
    · exact (BenignS.refl s).toP
  case insertOnce sys =>
    split
    · rename_i hc; exact (benignS_setStorage s sys hc).toP
    · exact (same_emit _ _).benignS.toP
  case spawnData d x =>
    split
    · p_same
    · exact (same_emit _ _).benignS.toP
  case broadcast ty pid =>
    split
    · exact (same_emit _ _).benignS.toP
    · exact benignP_push (benignS_fresh s) _ (inert_flush_batch _)
  case entityEvent e ty pid =>
    split
    · exact (same_emit _ _).benignS.toP
    · exact benignP_push (benignS_fresh s) _ (inert_flush_batch _)
  case resMut ty => p_push_same
  case tryInsert e ty v =>
    split
    · p_same
    · exact (BenignS.refl s).toP
  case insReact e ty =>
    split
    · exact (same_emit _ _).benignS.toP
    · p_push_same
  case mutReact e ty => p_push_same
  case register trigs sys mode =>
    cases mode with
    | persistent => exact benignP_push (same_regAll _ _ _).benignS _ (inert_flush_batch _)
    | cleanup =>
      exact benignP_push (((same_newArc s sys).trans (same_regAll _ _ _)).trans (same_dropHandle _ _)).benignS _ (inert_flush_batch _)
    | revokable =>
      exact benignP_push (((same_newArc s sys).trans (same_regAll _ _ _)).trans (same_dropHandle _ _)).benignS _ (inert_flush_batch _)
  case regType t ty h =>
    split
    · refine BenignS.toP (Same.benignS (Same.after (same_setTbl _ _ _ _) ?_)); same_rfl
    · exact (same_setTbl _ _ _ _).benignS.toP
  case regEnt rt e h =>
    split
    · p_same
    · split
      · p_same
      · exact (same_dropHandle _ _).benignS.toP
  case regDsp e h =>
    split
    · p_same
    · exact (same_dropHandle _ _).benignS.toP
  case trackRemovals ty =>
    split
    · exact (BenignS.refl s).toP
    · p_same
  case revoke sys trigs => exact (same_revokeAll _ _ _).benignS.toP
  case despawn e => exact (benignS_despawn1 _ _).toP
  case despawnRec e => p_push_same1
  case removeComp e ty =>
    split
    · p_same
    · exact (BenignS.refl s).toP
  case cleanup k => exact (benignS_cleanupK _ _).toP
  case ewrInsertLocal e wr v =>
    split
    · p_same
    · exact (BenignS.refl s).toP
  case ewrCleanupData sys e wr =>
    split
    · split
      · exact (BenignS.refl s).toP
      · p_same
    · exact (BenignS.refl s).toP
  case ewrAdd e wr v sys =>
    split
    · p_push_same
    · exact (BenignS.refl s).toP

end Cobweb

namespace Cobweb

theorem BenignP.trans {a b c : St} (h1 : BenignP a b) (h2 : BenignP b c) : BenignP a c := by
  obtain ⟨f1, s1, i1, b1⟩ := h1
  obtain ⟨f2, s2, i2, b2⟩ := h2
  refine ⟨f2 ++ f1, by rw [s2, s1, List.append_assoc], ?_, b1.trans b2⟩
  intro f hf
  rcases List.mem_append.mp hf with h | h
  · exact i2 f h
  · exact i1 f h

/-- Frames whose removal does not change `running`, `waiting` or `hasActive`. -/
def Frame.passive (f : Frame) : Bool := !f.active && f.runSys.isNone && f.waitSys.isNone

theorem running_sub_waiting (st : List Frame) : ∀ e, e ∈ running st → e ∈ waiting st := by
  intro e he
  simp only [running, waiting, List.mem_filterMap] at *
  obtain ⟨f, hf, hr⟩ := he
  refine ⟨f, hf, ?_⟩
  cases f <;> simp_all [Frame.runSys, Frame.waitSys]

theorem waiting_nil_of_inactive (st : List Frame) (h : hasActive st = false) : waiting st = [] := by
  simp only [waiting, List.filterMap_eq_nil_iff]
  intro f hf
  have : f.active = false := by
    simp only [hasActive, List.any_eq_false] at h
    simpa using h f hf
  cases f <;> simp_all [Frame.active, Frame.waitSys]

theorem running_cons_passive (f : Frame) (rest : List Frame) (h : f.passive = true) : running (f :: rest) = running rest := by
  have : f.runSys = none := by simp [Frame.passive] at h; exact h.1.2
  simp [running, this]
theorem waiting_cons_passive (f : Frame) (rest : List Frame) (h : f.passive = true) : waiting (f :: rest) = waiting rest := by
  have : f.waitSys = none := by simp [Frame.passive] at h; exact h.2
  simp [waiting, this]
theorem hasActive_cons_passive (f : Frame) (rest : List Frame) (h : f.passive = true) : hasActive (f :: rest) = hasActive rest := by
  have : f.active = false := by simp [Frame.passive] at h; exact h.1.1
  simp [hasActive, List.any_cons, this]

theorem inert_passive {f : Frame} (h : f.inert = true) : f.passive = true := by
  simp [Frame.passive, inert_active h, inert_runSys h, inert_waitSys h]

/-- Popping a passive frame keeps the invariant. -/
theorem ctl_pop_passive {s : St} {f : Frame} {rest : List Frame} (hc : Ctl s) (hs : s.stack = f :: rest)
    (hp : f.passive = true) : Ctl { s with stack := rest } := by
  have hr := running_cons_passive f rest hp
  have hw := waiting_cons_passive f rest hp
  have ha := hasActive_cons_passive f rest hp
  constructor
  · exact hc.fresh
  · exact hc.takenAlive
  · intro e he; have := hc.takenRunning e he; rw [hs, hr] at this; exact this
  · intro e he; exact hc.runningTaken e (by rw [hs, hr]; exact he)
  · intro e he; exact hc.runningOld e (by rw [hs, hr]; exact he)
  · have := hc.nodup; rw [hs, hr] at this; exact this
  · have := hc.counter; rw [hs, ha] at this; exact this
  · have := hc.stackOK; rw [hs] at this; exact this.2
  · intro b hb; have := hc.buffered b hb; rw [hs, hw] at this; exact this

/-- A benign change with a push of inert frames keeps the invariant. -/
theorem ctl_benignP {s s' : St} (hc : Ctl s) (hb : BenignP s s') : Ctl s' := by
  obtain ⟨fs, hst, hin, b⟩ := hb
  have hr := running_inert fs s.stack hin
  have hw := waiting_inert fs s.stack hin
  have ha := hasActive_inert fs s.stack hin
  constructor
  · intro e he
    have := hc.fresh e (Nat.le_trans b.next he)
    exact b.fr e he this.1 this.2
  · intro e he
    have ⟨h1, h2⟩ := b.st1 e he
    exact h2 (hc.takenAlive e h1)
  · intro e he
    rw [hst, hr]; exact hc.takenRunning e (b.st1 e he).1
  · intro e he hal
    rw [hst, hr] at he
    rcases b.al e hal with h | h
    · exact b.st2 e (hc.runningOld e he) (hc.runningTaken e he h) hal
    · exact absurd (hc.runningOld e he) (Nat.not_lt.mpr h)
  · intro e he
    rw [hst, hr] at he
    exact Nat.lt_of_lt_of_le (hc.runningOld e he) b.next
  · rw [hst, hr]; exact hc.nodup
  · rw [hst, ha, b.counter]; exact hc.counter
  · rw [hst]; exact stackOK_inert fs s.stack hin hc.stackOK
  · intro x hx
    rw [b.buffered] at hx
    rw [hst, hw]; exact hc.buffered x hx

/-- The common case of `step`: pop a passive frame, then change the state benignly. -/
theorem ctl_pop_benignP {s s' : St} {f : Frame} {rest : List Frame} (hc : Ctl s) (hs : s.stack = f :: rest)
    (hp : f.passive = true) (hb : BenignP { s with stack := rest } s') : Ctl s' :=
  ctl_benignP (ctl_pop_passive hc hs hp) hb

end Cobweb
