/-
  Cobweb.Proofs.Trackers — the event metadata side tables: what `start` claims.
-/
import Cobweb.Proofs.Frames

namespace Cobweb

theorem findIdx'_lt {α : Type} (p : α → Bool) (l : List α) (i j : Nat) (h : findIdx' p l i = some j) :
    i ≤ j ∧ j - i < l.length := by
  induction l generalizing i with
  | nil => simp [findIdx'] at h
  | cons a l ih =>
    simp only [findIdx'] at h
    split at h
    · simp at h; subst h; simp
    · have := ih (i + 1) h
      simp only [List.length_cons]; omega

theorem findIdx'_spec {α : Type} (p : α → Bool) (l : List α) (i j : Nat) (h : findIdx' p l i = some j) :
    ∃ x, l[j - i]? = some x ∧ p x = true ∧ ∀ k, k < j - i → ∀ y, l[k]? = some y → p y = false := by
  induction l generalizing i with
  | nil => simp [findIdx'] at h
  | cons a l ih =>
    simp only [findIdx'] at h
    split at h
    · rename_i hp
      simp at h; subst h
      exact ⟨a, by simp, hp, by intro k hk; omega⟩
    · rename_i hp
      obtain ⟨x, hx, hpx, hfirst⟩ := ih (i + 1) h
      have hle := (findIdx'_lt p l (i + 1) j h).1
      have hj : j - i = (j - (i + 1)) + 1 := by omega
      refine ⟨x, by rw [hj]; simpa using hx, hpx, ?_⟩
      intro k hk y hy
      cases k with
      | zero => simp at hy; subst hy; simpa using hp
      | succ k => exact hfirst k (by omega) y (by simpa using hy)

theorem findIdx'_none {α : Type} (p : α → Bool) (l : List α) (i : Nat) (h : findIdx' p l i = none) :
    ∀ x ∈ l, p x = false := by
  induction l generalizing i with
  | nil => intro x hx; cases hx
  | cons a l ih =>
    simp only [findIdx'] at h
    split at h
    · cases h
    · rename_i hp
      intro x hx
      rcases List.mem_cons.mp hx with rfl | hx'
      · simpa using hp
      · exact ih (i + 1) h x hx'

/-- `start` claims the **first** prepared entry whose system matches (whatever command prepared it). -/
theorem TrkData.start_claims_first (t : TrkData) (sys : Nat) (pre : List (Nat × Nat)) (d : Nat) (post : List (Nat × Nat))
    (hp : t.prepared = pre ++ (sys, d) :: post) (hpre : ∀ x ∈ pre, x.1 ≠ sys) :
    (t.start sys).reacting = true ∧ (t.start sys).cur = d := by
  have hfind : findIdx' (fun p => p.1 == sys) t.prepared 0 = some pre.length := by
    rw [hp]
    clear hp
    have : ∀ (i : Nat), findIdx' (fun p : Nat × Nat => p.1 == sys) (pre ++ (sys, d) :: post) i = some (i + pre.length) := by
      induction pre with
      | nil => intro i; simp [findIdx']
      | cons a pre ih =>
        intro i
        have ha : (a.1 == sys) = false := by simpa using hpre a (by simp)
        simp only [List.cons_append, findIdx', ha]
        rw [ih (fun x hx => hpre x (by simp [hx])) (i + 1)]
        simp; omega
    simpa using this 0
  unfold TrkData.start
  rw [hfind]
  have hget : t.prepared[pre.length]? = some (sys, d) := by rw [hp]; simp
  simp [hget]

/-- If no entry is prepared for the system, `start` changes nothing (the run reads nothing). -/
theorem TrkData.start_none (t : TrkData) (sys : Nat) (h : ∀ x ∈ t.prepared, x.1 ≠ sys) : t.start sys = t := by
  have : findIdx' (fun p => p.1 == sys) t.prepared 0 = none := by
    cases hf : findIdx' (fun p => p.1 == sys) t.prepared 0 with
    | none => rfl
    | some j =>
      obtain ⟨x, hx, hpx, _⟩ := findIdx'_spec _ _ _ _ hf
      have hmem : x ∈ t.prepared := List.mem_of_getElem? hx
      have := h x hmem
      simp at hpx; exact absurd hpx this
  simp [TrkData.start, this]

/-- **Exact claim under a single pending entry**: if exactly one entry is prepared for the system, `start` claims it —
    so a command whose system has no other event pending in the tracker reads its own metadata. -/
theorem TrkData.start_exact_of_single (t : TrkData) (sys d : Nat) (pre post : List (Nat × Nat))
    (hp : t.prepared = pre ++ (sys, d) :: post) (hpre : ∀ x ∈ pre, x.1 ≠ sys) (_hpost : ∀ x ∈ post, x.1 ≠ sys) :
    (t.start sys).cur = d :=
  (TrkData.start_claims_first t sys pre d post hp hpre).2

end Cobweb
