/-
  Cobweb.Proofs.Trackers — the event metadata side tables: what `start` claims.
-/
import Cobweb.Proofs.Frames

namespace Cobweb

theorem findIdx'_lt {α : Type} (p : α → Bool) (l : List α) (i j : Nat) (h : findIdx' p l i = some j) :
    i ≤ j ∧ j - i < l.length := by
  induction l generalizing i with
  | nil => simp [findIdx'] at h
  | cons a l ih =>
    simp only [findIdx'] at h
    split at h
    · simp at h; subst h; simp
    · have := ih (i + 1) h
      simp only [List.length_cons]; omega

theorem findIdx'_spec {α : Type} (p : α → Bool) (l : List α) (i j : Nat) (h : findIdx' p l i = some j) :
    ∃ x, l[j - i]? = some x ∧ p x = true ∧ ∀ k, k < j - i → ∀ y, l[k]? = some y → p y = false := by
  induction l generalizing i with
  | nil => simp [findIdx'] at h
  | cons a l ih =>
    simp only [findIdx'] at h
    split at h
    · rename_i hp
      simp at h; subst h
      exact ⟨a, by simp, hp, by intro k hk; omega⟩
    · rename_i hp
      obtain ⟨x, hx, hpx, hfirst⟩ := ih (i + 1) h
      have hle := (findIdx'_lt p l (i + 1) j h).1
      have hj : j - i = (j - (i + 1)) + 1 := by omega
      refine ⟨x, by rw [hj]; simpa using hx, hpx, ?_⟩
      intro k hk y hy
      cases k with
      | zero => simp at hy; subst hy; simpa using hp
      | succ k => exact hfirst k (by omega) y (by simpa using hy)

theorem findIdx'_none {α : Type} (p : α → Bool) (l : List α) (i : Nat) (h : findIdx' p l i = none) :
    ∀ x ∈ l, p x = false := by
  induction l generalizing i with
  | nil => intro x hx; cases hx
  | cons a l ih =>
    simp only [findIdx'] at h
    split at h
    · cases h
    · rename_i hp
      intro x hx
      rcases List.mem_cons.mp hx with rfl | hx'
      · simpa using hp
      · exact ih (i + 1) h x hx'

/-- `start` claims **its own** prepared entry (the one the command's ticket identifies), whatever else is pending for the
    same system. -/
theorem TrkData.start_claims_own (t : TrkData) (sys d : Nat) (h : (sys, d) ∈ t.prepared) :
    (t.start sys d).reacting = true ∧ (t.start sys d).cur = d ∧ (t.start sys d).prepared = t.prepared.erase (sys, d) := by
  simp [TrkData.start, h]

/-- If the command's entry is not there, `start` changes nothing (the run reads nothing). -/
theorem TrkData.start_none (t : TrkData) (sys d : Nat) (h : (sys, d) ∉ t.prepared) : t.start sys d = t := by
  simp [TrkData.start, h]

theorem TrkEnt.start_claims_own (t : TrkEnt) (sys src : Nat) (rt : RType) (h : (sys, src, rt) ∈ t.prepared) :
    (t.start sys src rt).reacting = true ∧ (t.start sys src rt).curSys = sys ∧ (t.start sys src rt).curSrc = src ∧
      (t.start sys src rt).curRt = rt ∧ (t.start sys src rt).prepared = t.prepared.erase (sys, src, rt) := by
  simp [TrkEnt.start, h]

theorem TrkEnt.start_none (t : TrkEnt) (sys src : Nat) (rt : RType) (h : (sys, src, rt) ∉ t.prepared) :
    t.start sys src rt = t := by
  simp [TrkEnt.start, h]

theorem TrkDsp.start_claims_own (t : TrkDsp) (sys src : Nat) (hd : Handle) (h : (sys, src, hd) ∈ t.prepared) :
    (t.start sys src hd).1.reacting = true ∧ (t.start sys src hd).1.curSrc = src ∧ (t.start sys src hd).1.curHandle = some hd ∧
      (t.start sys src hd).1.prepared = t.prepared.erase (sys, src, hd) ∧ (t.start sys src hd).2 = t.curHandle := by
  simp [TrkDsp.start, h]

theorem TrkDsp.start_none (t : TrkDsp) (sys src : Nat) (hd : Handle) (h : (sys, src, hd) ∉ t.prepared) :
    t.start sys src hd = (t, none) := by
  simp [TrkDsp.start, h]

end Cobweb
