/-
  Cobweb.Proofs.PendingD — the pending invariant at the level of *entries*: every tracker's prepared list is, entry by
  entry, a permutation of the metadata the waiting commands prepared, and every `start` claims exactly the metadata its own
  command prepared (the ticket of the repaired code: finding F1, fixed). The system-level invariant `Pend` follows.
-/
import Cobweb.Proofs.Pending

namespace Cobweb

/-- What a tracker stores for one prepared entry, uniformly: the data entity or source, and the reaction type. -/
abbrev Key := Nat × Option RType × Option Handle

/-- The entry a command of (ghost) kind `k` prepared in tracker `T`. -/
def keyOf : TrkId → Kind → Option Key
  | .sys, .sysEv d => some (d, none, none)
  | .evt, .bcEv d => some (d, none, none)
  | .evt, .entEv _ d => some (d, none, none)
  | .ent, .entReact src rt => some (src, some rt, none)
  | .ent, .entEv target _ => some (target, some evUnit, none)
  | .dsp, .dspReact src h => some (src, none, some h)
  | _, _ => none

theorem keyOf_isSome (T : TrkId) (k : Kind) : (keyOf T k).isSome = uses T k := by cases T <;> cases k <;> rfl

theorem keyOf_none {T : TrkId} {k : Kind} (h : keyOf T k = none) : uses T k = false := by
  rw [← keyOf_isSome, h]; rfl

theorem keyOf_some {T : TrkId} {k : Kind} {key : Key} (h : keyOf T k = some key) : uses T k = true := by
  rw [← keyOf_isSome, h]; rfl

def gData (p : Nat × Nat) : Nat × Key := (p.1, p.2, none, none)
def gEnt (p : Nat × Nat × RType) : Nat × Key := (p.1, p.2.1, some p.2.2, none)
def gDsp (p : Nat × Nat × Handle) : Nat × Key := (p.1, p.2.1, none, some p.2.2)

/-- Entries of the prepared list of one tracker. -/
def prepD : TrkId → St → List (Nat × Key)
  | .sys, s => s.trkSys.prepared.map gData
  | .evt, s => s.trkEvt.prepared.map gData
  | .ent, s => s.trkEnt.prepared.map gEnt
  | .dsp, s => s.trkDsp.prepared.map gDsp

/-- What the claimed ("current") entry of a tracker is. -/
def curKey : TrkId → St → Key
  | .sys, s => (s.trkSys.cur, none, none)
  | .evt, s => (s.trkEvt.cur, none, none)
  | .ent, s => (s.trkEnt.curSrc, some s.trkEnt.curRt, none)
  | .dsp, s => (s.trkDsp.curSrc, none, s.trkDsp.curHandle)

def reactingOf : TrkId → St → Bool
  | .sys, s => s.trkSys.reacting
  | .evt, s => s.trkEvt.reacting
  | .ent, s => s.trkEnt.reacting
  | .dsp, s => s.trkDsp.reacting

def pendD (T : TrkId) (l : List (Nat × Kind)) : List (Nat × Key) :=
  l.filterMap (fun p => (keyOf T p.2).map (fun key => (p.1, key)))

def one (T : TrkId) (x : Nat × Kind) : List (Nat × Key) :=
  match keyOf T x.2 with
  | some key => [(x.1, key)]
  | none => []

theorem pendD_nil (T : TrkId) : pendD T [] = [] := rfl
theorem pendD_append (T : TrkId) (a b : List (Nat × Kind)) : pendD T (a ++ b) = pendD T a ++ pendD T b := by
  simp [pendD, List.filterMap_append]
theorem pendD_cons (T : TrkId) (x : Nat × Kind) (l : List (Nat × Kind)) : pendD T (x :: l) = one T x ++ pendD T l := by
  simp only [pendD, List.filterMap_cons, one]
  cases keyOf T x.2 <;> rfl

theorem pendD_fst (T : TrkId) (l : List (Nat × Kind)) : (pendD T l).map (·.1) = pend (uses T) l := by
  induction l with
  | nil => rfl
  | cons x l ih =>
    rw [pendD_cons, List.map_append, ih, pend_cons]
    unfold one
    cases hk : keyOf T x.2 with
    | none => simp [keyOf_none hk]
    | some key => simp [keyOf_some hk]

theorem prepD_fst (T : TrkId) (s : St) : (prepD T s).map (·.1) = prep T s := by
  cases T <;> simp [prepD, prep, List.map_map, gData, gEnt, gDsp]

/-- `claimedOwn` says: every tracker the command uses claimed the command's own entry. -/
theorem claimedOwn_iff (s : St) (k : Kind) : claimedOwn s k = true ↔ ∀ T key, keyOf T k = some key → curKey T s = key := by
  constructor
  · intro h T key hk
    cases T <;> cases k <;> simp [keyOf] at hk <;> subst hk <;> simp [claimedOwn] at h <;> simp [curKey, h]
  · intro h
    cases k
    · rfl
    · have := h .sys _ rfl; simp [curKey] at this; simp [claimedOwn, this]
    · have := h .ent _ rfl; simp [curKey] at this; simp [claimedOwn, this]
    · have := h .dsp _ rfl; simp [curKey] at this; simp [claimedOwn, this]
    · have a := h .evt _ rfl; have b := h .ent _ rfl; simp [curKey] at a b; simp [claimedOwn, a, b]
    · have := h .evt _ rfl; simp [curKey] at this; simp [claimedOwn, this]

/-- The entry-level invariant and the unambiguity condition. -/
def PendD (s : St) : Prop := ∀ T : TrkId, (prepD T s).Perm (pendD T (allPending s))

theorem pend_of_pendD {s : St} (h : PendD s) : Pend s := by
  intro T; have := (h T).map (·.1); rwa [prepD_fst, pendD_fst] at this

end Cobweb

namespace Cobweb

theorem map_erase_inj {α β : Type} [BEq α] [LawfulBEq α] [BEq β] [LawfulBEq β] (g : α → β) (hg : ∀ a b, g a = g b → a = b)
    (l : List α) (a : α) : (l.erase a).map g = (l.map g).erase (g a) := by
  induction l with
  | nil => rfl
  | cons x l ih =>
    by_cases hx : x = a
    · subst hx; simp
    · have hgx : g x ≠ g a := fun h => hx (hg _ _ h)
      have e1 : (x == a) = false := by simpa using hx
      have e2 : (g x == g a) = false := by simpa using hgx
      rw [List.erase_cons, e1, List.map_cons, List.erase_cons, e2]
      simp [ih]

theorem gData_inj : ∀ a b, gData a = gData b → a = b := by
  intro ⟨a1, a2⟩ ⟨b1, b2⟩ h; simp [gData] at h; simp [h]
theorem gEnt_inj : ∀ a b, gEnt a = gEnt b → a = b := by
  intro ⟨a1, a2, a3⟩ ⟨b1, b2, b3⟩ h; simp [gEnt] at h; simp [h]
theorem gDsp_inj : ∀ a b, gDsp a = gDsp b → a = b := by
  intro ⟨a1, a2, a3⟩ ⟨b1, b2, b3⟩ h; simp [gDsp] at h; simp [h]

/-- `start` claims the command's own entry: exactly one copy of it leaves the list. -/
theorem TrkData.startD (t : TrkData) (sys d : Nat) (hmem : (sys, d, none, none) ∈ t.prepared.map gData) :
    ((t.start sys d).prepared.map gData).Perm ((t.prepared.map gData).erase (sys, d, none, none)) ∧
      ((t.start sys d).cur, (none : Option RType), (none : Option Handle)) = (d, none, none) ∧ (t.start sys d).reacting = true := by
  have hm : (sys, d) ∈ t.prepared := by
    obtain ⟨x, hx, hxs⟩ := List.mem_map.mp hmem
    have : x = (sys, d) := gData_inj x (sys, d) hxs
    rw [← this]; exact hx
  obtain ⟨h1, h2, h3⟩ := TrkData.start_claims_own t sys d hm
  refine ⟨?_, by rw [h2], h1⟩
  rw [h3]; exact List.Perm.of_eq (map_erase_inj gData gData_inj t.prepared (sys, d))

theorem TrkEnt.startD (t : TrkEnt) (sys src : Nat) (rt : RType) (hmem : (sys, src, some rt, none) ∈ t.prepared.map gEnt) :
    ((t.start sys src rt).prepared.map gEnt).Perm ((t.prepared.map gEnt).erase (sys, src, some rt, none)) ∧
      ((t.start sys src rt).curSrc, some (t.start sys src rt).curRt, (none : Option Handle)) = (src, some rt, none) ∧
      (t.start sys src rt).reacting = true := by
  have hm : (sys, src, rt) ∈ t.prepared := by
    obtain ⟨x, hx, hxs⟩ := List.mem_map.mp hmem
    have : x = (sys, src, rt) := gEnt_inj x (sys, src, rt) hxs
    rw [← this]; exact hx
  obtain ⟨h1, _, h3, h4, h5⟩ := TrkEnt.start_claims_own t sys src rt hm
  refine ⟨?_, by rw [h3, h4], h1⟩
  rw [h5]; exact List.Perm.of_eq (map_erase_inj gEnt gEnt_inj t.prepared (sys, src, rt))

theorem TrkDsp.startD (t : TrkDsp) (sys src : Nat) (hd : Handle) (hmem : (sys, src, none, some hd) ∈ t.prepared.map gDsp) :
    (((t.start sys src hd).1).prepared.map gDsp).Perm ((t.prepared.map gDsp).erase (sys, src, none, some hd)) ∧
      (((t.start sys src hd).1).curSrc, (none : Option RType), ((t.start sys src hd).1).curHandle) = (src, none, some hd) ∧
      ((t.start sys src hd).1).reacting = true := by
  have hm : (sys, src, hd) ∈ t.prepared := by
    obtain ⟨x, hx, hxs⟩ := List.mem_map.mp hmem
    have : x = (sys, src, hd) := gDsp_inj x (sys, src, hd) hxs
    rw [← this]; exact hx
  obtain ⟨h1, h2, h3, h4, _⟩ := TrkDsp.start_claims_own t sys src hd hm
  refine ⟨?_, by rw [h2, h3], h1⟩
  rw [h4]; exact List.Perm.of_eq (map_erase_inj gDsp gDsp_inj t.prepared (sys, src, hd))

theorem prepD_setupK_unused (T : TrkId) (s : St) (k : Kind) (sys : Nat) (h : keyOf T k = none) :
    prepD T (setupK s k sys) = prepD T s := by
  cases T <;> cases k <;> simp [keyOf] at h <;> simp only [prepD, setupK] <;>
    first | rfl | (split <;> simp)

theorem reacting_setupK_unused (T : TrkId) (s : St) (k : Kind) (sys : Nat) (h : keyOf T k = none) :
    reactingOf T (setupK s k sys) = reactingOf T s := by
  cases T <;> cases k <;> simp [keyOf] at h <;> simp only [reactingOf, setupK] <;>
    first | rfl | (split <;> simp)

/-- `setup` on a tracker the command uses: it claims the command's own entry. -/
theorem prepD_setupK_used (T : TrkId) (s : St) (k : Kind) (sys : Nat) (key : Key) (h : keyOf T k = some key)
    (hmem : (sys, key) ∈ prepD T s) :
    (prepD T (setupK s k sys)).Perm ((prepD T s).erase (sys, key)) ∧ curKey T (setupK s k sys) = key ∧
      reactingOf T (setupK s k sys) = true := by
  cases T <;> cases k <;> simp [keyOf] at h <;> subst h <;> simp only [prepD, setupK, curKey, reactingOf] at hmem ⊢
  · exact TrkData.startD s.trkSys sys _ hmem
  · exact TrkData.startD s.trkEvt sys _ hmem
  · exact TrkData.startD s.trkEvt sys _ hmem
  · exact TrkEnt.startD s.trkEnt sys _ _ hmem
  · exact TrkEnt.startD s.trkEnt sys _ _ hmem
  · have := TrkDsp.startD s.trkDsp sys _ _ hmem
    split <;> simpa using this

end Cobweb

namespace Cobweb

theorem prepD_of_trk {T : TrkId} {s s' : St} (h1 : s'.trkSys = s.trkSys) (h2 : s'.trkEvt = s.trkEvt) (h3 : s'.trkEnt = s.trkEnt)
    (h4 : s'.trkDsp = s.trkDsp) : prepD T s' = prepD T s := by
  cases T <;> simp [prepD, h1, h2, h3, h4]

theorem prepD_pop (T : TrkId) (s : St) (rest : List Frame) : prepD T ({ s with stack := rest } : St) = prepD T s := by
  cases T <;> rfl
theorem prepD_emit (T : TrkId) (s : St) (e : Ev) : prepD T (s.emit e) = prepD T s := by cases T <;> rfl
theorem prepD_push (T : TrkId) (s : St) (fs : List Frame) : prepD T (s.push fs) = prepD T s := by cases T <;> rfl

theorem prepD_cleanupK (T : TrkId) (s : St) (k : Kind) : prepD T (cleanupK s k) = prepD T s := by
  cases T <;> cases k <;> simp only [prepD, cleanupK] <;> first | rfl | simp | (split <;> simp)

theorem curKey_of_trk {T : TrkId} {s s' : St} (h1 : s'.trkSys = s.trkSys) (h2 : s'.trkEvt = s.trkEvt) (h3 : s'.trkEnt = s.trkEnt)
    (h4 : s'.trkDsp = s.trkDsp) : curKey T s' = curKey T s := by
  cases T <;> simp [curKey, h1, h2, h3, h4]

theorem prepD_startBody (T : TrkId) (s : St) (sys : Nat) (k : Kind) : prepD T (startBody s sys k) = prepD T (setupK s k sys) := by
  have h1 : ∀ t : St, prepD T (preBody t sys k) = prepD T (setupK t k sys) := by
    intro t
    have a : (preBody t sys k).trkSys = (setupK t k sys).trkSys := by
      unfold preBody; simp only [emit_trkSys]; split <;> simp only [emit_trkSys]
    have b : (preBody t sys k).trkEvt = (setupK t k sys).trkEvt := by
      unfold preBody; simp only [emit_trkEvt]; split <;> simp only [emit_trkEvt]
    have c : (preBody t sys k).trkEnt = (setupK t k sys).trkEnt := by
      unfold preBody; simp only [emit_trkEnt]; split <;> simp only [emit_trkEnt]
    have d : (preBody t sys k).trkDsp = (setupK t k sys).trkDsp := by
      unfold preBody; simp only [emit_trkDsp]; split <;> simp only [emit_trkDsp]
    exact prepD_of_trk a b c d
  unfold startBody; dsimp only
  have hfold : ∀ (l : List Nat) (t : St), prepD T (l.foldl (fun (s : St) pid => s.emit (Ev.dropPayload pid)) t) = prepD T t := by
    intro l; induction l with
    | nil => intro t; rfl
    | cons x l ih => intro t; exact (ih _).trans (prepD_emit T t _)
  rw [hfold, ← h1]
  exact prepD_of_trk (by simp [St.emit]) (by simp [St.emit]) (by simp [St.emit]) (by simp [St.emit])

theorem noPendD {fs : List Frame} (h : NoPend fs) (T : TrkId) : pendD T (stackPending fs) = [] := by
  have := h T
  rw [← pendD_fst] at this
  exact List.map_eq_nil_iff.mp this

theorem one_fst (T : TrkId) (x : Nat × Kind) : (one T x).map (·.1) = if uses T x.2 then [x.1] else [] := by
  unfold one
  cases hk : keyOf T x.2 with
  | none => simp [keyOf_none hk]
  | some key => simp [keyOf_some hk]

theorem applyCmd_prepD_some (T : TrkId) (s : St) (c : Cmd) (sys : Nat) (k : Kind) (h : cmdPrepares c = some (sys, k)) :
    prepD T (applyCmd s c) = prepD T s ++ one T (sys, k) := by
  cases c <;> simp [cmdPrepares] at h
  all_goals (obtain ⟨rfl, rfl⟩ := h; cases T <;> simp [applyCmd, prepD, one, keyOf, St.push, gData, gEnt, gDsp])

theorem applyCmd_prepD_none (T : TrkId) (s : St) (c : Cmd) (h : cmdPrepares c = none) (hc : isCleanup c = false) :
    prepD T (applyCmd s c) = prepD T s := by
  cases c <;> simp [cmdPrepares] at h <;> simp [isCleanup] at hc <;>
    (cases T <;> simp only [prepD, applyCmd] <;> (try split) <;> (try split) <;> (try split) <;> simp [St.push, St.fresh])

/-- The popped forms. -/
def PendDF (s : St) (f : Frame) : Prop :=
  ∀ T : TrkId, (prepD T s).Perm (pendD T (s.buffered ++ (framePending f ++ stackPending s.stack)))

theorem pendDF_of_pendD {s : St} {f : Frame} {rest : List Frame} (h : PendD s) (hs : s.stack = f :: rest) :
    PendDF ({ s with stack := rest } : St) f := by
  intro T; rw [prepD_pop]; have := h T
  simpa [allPending, hs, stackPending_cons] using this

theorem pendD_gen {s s' : St} {f : Frame} {fs : List Frame} (h : PendDF s f) (hf : ∀ T, pend (uses T) (framePending f) = [])
    (hp : ∀ T, prepD T s' = prepD T s) (hb : s'.buffered = s.buffered) (hst : s'.stack = fs ++ s.stack) (hfs : NoPend fs) :
    PendD s' := by
  intro T
  have h0 := h T
  rw [hp T]
  have hf' : pendD T (framePending f) = [] := by
    have := hf T; rw [← pendD_fst] at this; exact List.map_eq_nil_iff.mp this
  simp only [allPending, hst, hb, stackPending_append, pendD_append, hf', noPendD hfs T] at h0 ⊢
  simpa using h0

theorem pendD_mv {s s' : St} {f : Frame} {B : List (Nat × Kind)} {S : List Frame} (h : PendDF s f)
    (hp : ∀ T, prepD T s' = prepD T s) (hb : s'.buffered = B) (hst : s'.stack = S)
    (hperm : ∀ T, (pendD T (s.buffered ++ (framePending f ++ stackPending s.stack))).Perm
      (pendD T (B ++ stackPending S))) : PendD s' := by
  intro T; rw [hp T]; unfold allPending; rw [hb, hst]; exact (h T).trans (hperm T)

macro "trkD" : tactic => `(tactic| (intro T; apply prepD_of_trk <;> simp [runFrame, St.push, St.emit]))

/-- `setup` consumes exactly the command's own entry, and claims it. -/
theorem pendD_setup {s : St} {sys : Nat} {k : Kind} {A B : List (Nat × Kind)} (T : TrkId)
    (h0 : (prepD T s).Perm (pendD T (A ++ (sys, k) :: B))) :
    (prepD T (setupK s k sys)).Perm (pendD T (A ++ B)) ∧
      ∀ key, keyOf T k = some key → curKey T (setupK s k sys) = key ∧ reactingOf T (setupK s k sys) = true := by
  rw [pendD_append, pendD_cons] at h0
  rw [pendD_append]
  cases hk : keyOf T k with
  | none =>
    refine ⟨?_, fun _ h => by cases h⟩
    rw [prepD_setupK_unused T s k sys hk]
    simpa [one, hk] using h0
  | some key =>
    have hone : one T (sys, k) = [(sys, key)] := by simp [one, hk]
    rw [hone] at h0
    have hmid : (prepD T s).Perm ((sys, key) :: (pendD T A ++ pendD T B)) :=
      h0.trans (by simpa using (List.perm_middle (a := (sys, key)) (l₁ := pendD T A) (l₂ := pendD T B)))
    have hmem : (sys, key) ∈ prepD T s := hmid.mem_iff.mpr List.mem_cons_self
    obtain ⟨hp, hc⟩ := prepD_setupK_used T s k sys key hk hmem
    refine ⟨hp.trans ?_, fun key' h' => by cases h'; exact hc⟩
    have := hmid.erase (sys, key)
    simpa using this

end Cobweb

namespace Cobweb

theorem pendD_batch (s : St) (c : Cmd) (cs : List Cmd) (h : PendDF s (.batch (c :: cs))) : PendD (doBatch s (c :: cs)) := by
  simp only [doBatch]
  by_cases hcc : isCleanup c = true
  · cases c <;> simp [isCleanup] at hcc
    rename_i k
    refine pendD_gen h nopend0 (fun T => ?_) ?_ (fs := [.flush, .batch cs]) ?_ (noPend_of_empty rfl)
    · simp only [applyCmd]; rw [prepD_cleanupK]; exact prepD_push T _ _
    · simp [applyCmd, St.push]
    · simp [applyCmd, St.push]
  · have hcc : isCleanup c = false := by simpa using hcc
    cases hprep : cmdPrepares c with
    | none =>
      obtain ⟨fs, hfs, hnp⟩ := applyCmd_noPend (s.push [.flush, .batch cs]) c hprep hcc
      refine pendD_gen h nopend0 (fun T => ?_) ?_ (fs := fs ++ [.flush, .batch cs]) ?_ ?_
      · rw [applyCmd_prepD_none T _ c hprep hcc]; exact prepD_push T _ _
      · simp [St.push]
      · rw [hfs]; simp [St.push]
      · intro T; rw [stackPending_append, pend_append, hnp T]; rfl
    | some sk =>
      obtain ⟨sys, k⟩ := sk
      intro T
      obtain ⟨_, h2, h3⟩ := applyCmd_prep_some T (s.push [.flush, .batch cs]) c sys k hprep
      have h1 := applyCmd_prepD_some T (s.push [.flush, .batch cs]) c sys k hprep
      have h0 := h T
      have hst : (s.push [.flush, .batch cs]).stack = [.flush, .batch cs] ++ s.stack := rfl
      have hbf : (s.push [.flush, .batch cs]).buffered = s.buffered := rfl
      rw [hst] at h2; rw [hbf] at h3
      rw [h1, prepD_push]
      unfold allPending
      rw [h2, h3]
      have hR : stackPending [Frame.flush, Frame.batch cs] = [] := rfl
      simp only [stackPending_cons, stackPending_append, pendD_append, framePending, pendD_cons, pendD_nil, hR,
        List.append_nil, List.nil_append] at h0 ⊢
      refine (List.Perm.append_right _ h0).trans ?_
      permc

/-- **The pending invariant is preserved by every frame.** -/
theorem pendDF_runFrame (p : Prog) (hh : Hist) {s : St} {f : Frame} (h : PendDF s f) :
    PendD (runFrame p hh s f) := by
  cases f with
  | batch cs =>
    cases cs with
    | nil => exact pendD_gen h nopend0 (fun _ => rfl) rfl (fs := []) rfl noPend_nil
    | cons c cs => exact pendD_batch s c cs h
  | flush =>
    simp only [runFrame, doFlush]
    split
    · exact pendD_gen h nopend0 (fun _ => rfl) rfl (fs := []) rfl noPend_nil
    · exact pendD_gen h nopend0 (by trkD) rfl (fs := [.batch s.wq]) rfl (noPend_of_empty rfl)
  | bodyActs sys k i acc =>
    simp only [runFrame, doBodyActs]
    split
    · exact pendD_gen h nopend0 (by trkD) rfl (fs := [.cleanup k, .flush, .batch acc]) rfl (noPend_of_empty rfl)
    · rename_i a _
      exact pendD_gen h nopend0 (by trkD) (by simp [St.push])
        (fs := [.bodyActs sys k (i + 1) (acc ++ (enqueue s a).2)]) (by simp [St.push]) (noPend_of_empty rfl)
  | exclActs sys i =>
    simp only [runFrame, doExclActs]
    split
    · exact pendD_gen h nopend0 (by trkD) rfl (fs := [.flush]) rfl (noPend_of_empty rfl)
    · rename_i t _
      exact pendD_gen h nopend0 (by trkD) rfl (fs := [.runnerStart t .plain, .exclActs sys (i + 1)]) rfl
        (fun T => by cases T <;> rfl)
    · split
      · exact pendD_gen h nopend0 (by trkD) (by simp [St.push])
          (fs := [.flush, .exclActs sys (i + 1)]) (by simp [St.push]) (noPend_of_empty rfl)
      · exact pendD_gen h nopend0 (by trkD) (by simp [St.push])
          (fs := [.exclActs sys (i + 1)]) (by simp [St.push]) (noPend_of_empty rfl)
  | topActs t i =>
    simp only [runFrame, doTopActs]
    split
    · exact pendD_gen h nopend0 (by trkD) rfl (fs := [.flush]) rfl (noPend_of_empty rfl)
    · exact pendD_gen h nopend0 (by trkD) (by simp [St.push])
        (fs := [.topActs t (i + 1)]) (by simp [St.push]) (noPend_of_empty rfl)
  | cleanup k =>
    exact pendD_gen h nopend0 (fun T => by simp only [runFrame]; exact prepD_cleanupK T _ k) (by simp [runFrame]) (fs := [])
      (by simp [runFrame]) noPend_nil
  | onceTail sys =>
    exact pendD_gen h nopend0 (by trkD) (by simp [runFrame]) (fs := [.flush, .dropCallback sys])
      (by simp [runFrame, doOnceTail, St.push]) (noPend_of_empty rfl)
  | dropCallback sys => exact pendD_gen h nopend0 (by trkD) (by simp [runFrame]) (fs := []) (by simp [runFrame]) noPend_nil
  | runnerStart sys k =>
    refine pendD_mv h (by trkD) (B := s.buffered) (S := Frame.gc :: Frame.poll :: Frame.runnerLookup sys k s.counter :: s.stack)
      (by simp [runFrame, doRunnerStart, St.push]) (by simp [runFrame, doRunnerStart, St.push]) (fun T => ?_)
    simp [stackPending_cons, framePending]
  | runnerLookup sys k idx =>
    have hmove : ∀ T, (prepD T s).Perm (pendD T (s.buffered ++ (sys, k) :: stackPending s.stack)) := by
      intro T; simpa [framePending] using h T
    simp only [runFrame, doRunnerLookup]
    have habort : ∀ (ev : Ev), PendD ((s.emit ev).push (abortFrames sys k)) := by
      intro ev
      refine pendD_mv h (by trkD) (B := s.buffered) (S := abortFrames sys k ++ s.stack) (by simp [St.push, St.emit])
        (by simp [St.push, St.emit]) (fun T => ?_)
      simp [abortFrames, stackPending_cons, stackPending_append, framePending]
    split
    · exact habort _
    · split
      · exact habort _
      · split
        · exact habort _
        · refine pendD_mv h (by trkD) (B := s.buffered ++ [(sys, k)]) (S := s.stack) (by simp [St.emit]) (by simp [St.emit]) (fun T => ?_)
          simp [framePending]
      · -- the callback is taken: `setup` consumes the command's prepared entries
        have hs1 : ∀ T, prepD T ({ s with storage := upd s.storage sys (some false), counter := s.counter + 1 } : St) = prepD T s := by
          intro T; cases T <;> rfl
        have consume : ∀ (s1 : St) (fs : List Frame),
            (∀ T, prepD T s1 = prepD T (setupK ({ s with storage := upd s.storage sys (some false), counter := s.counter + 1 } : St) k sys)) →
            s1.buffered = s.buffered → s1.stack = fs ++ s.stack → NoPend fs → PendD s1 := by
          intro s1 fs hp hb hst hnp T
          rw [hp T]
          simp only [allPending, hb, hst, stackPending_append, pendD_append, noPendD hnp T, List.nil_append]
          rw [← pendD_append]
          refine (pendD_setup T ?_).1
          rw [hs1 T]; exact hmove T
        split
        · exact consume _ [.afterBody sys idx] (fun T => by rw [prepD_push, prepD_emit]) (by simp [St.push, St.emit]) (by simp [St.push, St.emit])
            (noPend_of_empty rfl)
        · split
          · exact consume _ [.bodyActs sys k 0 [], .onceTail sys, .afterBody sys idx] (fun T => by rw [prepD_push, prepD_startBody])
              (by simp [St.push]) (by simp [St.push]) (noPend_of_empty rfl)
          · split
            · exact consume _ [.exclActs sys 0, .afterBody sys idx]
                (fun T => by
                  rw [prepD_push]
                  refine Eq.trans ?_ (prepD_startBody T _ sys k)
                  exact prepD_of_trk rfl rfl rfl rfl)
                (by simp [St.push]) (by simp [St.push]) (noPend_of_empty rfl)
            · exact consume _ [.bodyActs sys k 0 [], .afterBody sys idx] (fun T => by rw [prepD_push, prepD_startBody])
                (by simp [St.push]) (by simp [St.push]) (noPend_of_empty rfl)
  | afterBody sys idx =>
    exact pendD_gen h nopend0 (by trkD) (by simp [runFrame]) (fs := [.gc, .reinsert sys idx]) (by simp [runFrame, doAfterBody, St.push])
      (noPend_of_empty rfl)
  | reinsert sys idx =>
    simp only [runFrame, doReinsert]
    split
    · exact pendD_gen h nopend0 (by trkD) (by simp [St.push, St.emit]) (fs := [.poll, .replayTake sys idx]) (by simp [St.push, St.emit])
        (noPend_of_empty rfl)
    · split <;>
        exact pendD_gen h nopend0 (by trkD) (by simp [St.push, St.emit]) (fs := [.despawnWork [(sys, false)], .gc, .poll, .replayTake sys idx])
          (by simp [St.push, St.emit]) (noPend_of_empty rfl)
    · split <;>
        exact pendD_gen h nopend0 (by trkD) (by simp [St.push, St.emit]) (fs := [.gc, .poll, .replayTake sys idx])
          (by simp [St.push, St.emit]) (noPend_of_empty rfl)
  | replayTake sys idx =>
    refine pendD_mv h (by trkD) (B := []) (S := Frame.replayLoop sys s.buffered [] idx :: s.stack)
      (by simp [runFrame, doReplayTake, St.push]) (by simp [runFrame, doReplayTake, St.push]) (fun T => ?_)
    simp [stackPending_cons, framePending]
  | replayLoop sys r kept idx =>
    simp only [runFrame, doReplayLoop]
    split
    · refine pendD_mv h (by trkD) (B := s.buffered ++ kept) (S := Frame.finish sys idx :: s.stack) (by simp [St.push]) (by simp [St.push])
        (fun T => ?_)
      simp [stackPending_cons, framePending]
    · rename_i b bs
      split
      · refine pendD_mv h (by trkD) (B := s.buffered) (S := Frame.runnerStart b.1 b.2 :: Frame.replayLoop sys bs kept idx :: s.stack)
          (by simp [St.push]) (by simp [St.push]) (fun T => ?_)
        simp [stackPending_cons, framePending]
      · refine pendD_mv h (by trkD) (B := s.buffered) (S := Frame.replayLoop sys bs (kept ++ [b]) idx :: s.stack)
          (by simp [St.push]) (by simp [St.push]) (fun T => ?_)
        simp only [stackPending_cons, framePending, pendD_append, pendD_cons, pendD_nil, List.cons_append, List.append_assoc, List.append_nil]
        permc
  | finish sys idx =>
    simp only [runFrame, doFinish]
    split
    · split
      · exact pendD_gen h nopend0 (by trkD) (by simp [St.emit]) (fs := []) (by simp [St.emit]) noPend_nil
      · rename_i b bs hb
        obtain ⟨b1, b2⟩ := b
        refine pendD_mv h (by trkD) (B := bs) (S := (abortFrames b1 b2 ++ [Frame.finish sys idx]) ++ s.stack)
          (by simp [St.push]) (by simp [St.push]) (fun T => ?_)
        have hb' : s.buffered = (b1, b2) :: bs := hb
        rw [hb']
        simp only [abortFrames, stackPending_append, stackPending_cons, framePending, stackPending, List.flatMap_nil,
          List.append_nil, List.nil_append, List.flatMap_cons, List.cons_append]
        simp only [pendD_append, pendD_cons, pendD_nil, List.append_nil]
        permc
    · exact pendD_gen h nopend0 (by trkD) (by simp [St.emit]) (fs := []) (by simp [St.emit]) noPend_nil
  | abort sys k =>
    intro T
    have hmove : (prepD T s).Perm (pendD T (s.buffered ++ (sys, k) :: stackPending s.stack)) := by
      simpa [framePending] using h T
    simp only [runFrame]
    rw [prepD_cleanupK]
    have e1 : (cleanupK (setupK s k sys) k).buffered = s.buffered := by simp
    have e2 : (cleanupK (setupK s k sys) k).stack = s.stack := by simp
    simp only [allPending, e1, e2]
    exact (pendD_setup T hmove).1
  | gc =>
    simp only [runFrame, doGc]
    split
    · exact pendD_gen h nopend0 (fun _ => rfl) rfl (fs := []) rfl noPend_nil
    · exact pendD_gen h nopend0 (by trkD) rfl (fs := [.despawnWork _, .gc]) rfl (noPend_of_empty rfl)
  | despawnWork work =>
    simp only [runFrame, doDespawnWork]
    split
    · exact pendD_gen h nopend0 (fun _ => rfl) rfl (fs := []) rfl noPend_nil
    · split
      · rename_i e ex work _
        split
        · exact pendD_gen h nopend0 (by trkD) (by simp [St.push]) (fs := [.despawnWork work]) (by simp [St.push]) (noPend_of_empty rfl)
        · exact pendD_gen h nopend0 (by trkD) rfl (fs := [.flush, .despawnWork _]) rfl (noPend_of_empty rfl)
      · split
        · exact pendD_gen h nopend0 (by trkD) rfl (fs := [.despawnWork _]) rfl (noPend_of_empty rfl)
        · exact pendD_gen h nopend0 (by trkD) rfl (fs := [.despawnWork _]) rfl (noPend_of_empty rfl)
  | poll =>
    exact pendD_gen h nopend0 (by trkD) (by simp [runFrame]) (fs := [.flush]) (by simp [runFrame, doPoll, St.push]) (noPend_of_empty rfl)


end Cobweb

namespace Cobweb

theorem pendD_runFrame (p : Prog) (hh : Hist) {s : St} {f : Frame} {rest : List Frame} (h : PendD s)
    (hs : s.stack = f :: rest) : PendD (runFrame p hh { s with stack := rest } f) :=
  pendDF_runFrame p hh (pendDF_of_pendD h hs)

theorem pendD_same {s s' : St} {fs : List Frame} (h : PendD s) (hp : ∀ T, prepD T s' = prepD T s) (hb : s'.buffered = s.buffered)
    (hst : s'.stack = fs ++ s.stack) (hfs : NoPend fs) : PendD s' := by
  intro T
  have h0 := h T
  rw [hp T]
  simp only [allPending, hst, hb, stackPending_append, pendD_append, noPendD hfs T] at h0 ⊢
  simpa using h0

theorem pendD_applyCmd {s : St} (h : PendD s) (c : Cmd) (hcc : isCleanup c = false) : PendD (applyCmd s c) := by
  cases hprep : cmdPrepares c with
  | none =>
    obtain ⟨fs, hfs, hnp⟩ := applyCmd_noPend s c hprep hcc
    exact pendD_same h (fun T => applyCmd_prepD_none T s c hprep hcc) (by simp) hfs hnp
  | some sk =>
    obtain ⟨sys, k⟩ := sk
    intro T
    obtain ⟨_, h2, h3⟩ := applyCmd_prep_some T s c sys k hprep
    have h1 := applyCmd_prepD_some T s c sys k hprep
    have h0 := h T
    rw [h1]
    unfold allPending at h0 ⊢
    rw [h2, h3]
    simp only [stackPending_cons, pendD_append, framePending, pendD_cons, pendD_nil, List.append_nil, List.nil_append] at h0 ⊢
    refine (List.Perm.append_right _ h0).trans ?_
    permc

macro "trkD0" : tactic =>
  `(tactic| (intro T; apply prepD_of_trk <;> simp [St.push, St.emit, St.fresh, newArc, cloneHandle]))

theorem pendD_startTop {s : St} (h : PendD s) (t : Nat) (op : TopOp) : PendD (startTop s t op) := by
  have pe : ∀ (s1 : St) ev, PendD s1 → PendD (s1.emit ev) := fun s1 ev h1 => pendD_same (fs := []) h1 (by trkD0) rfl rfl noPend_nil
  have he : PendD (s.emit (.top t)) := pe _ _ h
  unfold startTop
  cases op <;> dsimp only
  case acts => exact pendD_same he (by trkD0) rfl (fs := [.topActs t 0]) rfl (noPend_of_empty rfl)
  case wDespawn e => exact pendD_same he (by trkD0) (by simp) (fs := []) (by simp) noPend_nil
  case wDespawnRec e => exact pendD_same he (by trkD0) rfl (fs := [.despawnWork [(e, false)]]) rfl (noPend_of_empty rfl)
  case wRemove e ty => exact pendD_applyCmd he _ rfl
  case wInsertRaw e ty v => exact pendD_applyCmd he _ rfl
  case wSetParent c p =>
    split
    · exact pendD_same he (by trkD0) rfl (fs := []) rfl noPend_nil
    · exact he
  case gc => exact pendD_same he (by trkD0) rfl (fs := [.gc]) rfl (noPend_of_empty rfl)
  case poll => exact pendD_same he (by trkD0) rfl (fs := [.poll]) rfl (noPend_of_empty rfl)
  case frameEnd => exact pendD_same he (by trkD0) rfl (fs := [.gc, .poll]) rfl (noPend_of_empty rfl)
  case clearTrackers => exact pendD_same he (by trkD0) rfl (fs := []) rfl noPend_nil
  case wSysEvent sys ty pid =>
    refine pendD_applyCmd ?_ _ rfl
    exact pendD_same he (by trkD0) (by simp [St.fresh, St.emit]) (fs := []) (by simp [St.fresh, St.emit]) noPend_nil
  case wBroadcast ty pid => exact pendD_applyCmd (pe _ _ he) (.broadcast ty pid) rfl
  case wEntityEvent e ty pid => exact pendD_applyCmd (pe _ _ he) (.entityEvent e ty pid) rfl
  case sigPrepare e => exact pendD_same he (by trkD0) (by simp [newArc]) (fs := []) (by simp [newArc]) noPend_nil
  case sigClone a =>
    split
    · exact pendD_same he (by trkD0) (by simp) (fs := []) (by simp) noPend_nil
    · exact he
  case sigDrop a =>
    split
    · exact pendD_same he (by trkD0) (by simp) (fs := []) (by simp) noPend_nil
    · exact he
  case sigThreads a n => exact pendD_same he (by trkD0) rfl (fs := [.gc]) rfl (noPend_of_empty rfl)

theorem pendD_tick (p : Prog) (hh : Hist) {s s' : St} (h : PendD s) (ht : tick p hh s = some s') : PendD s' := by
  unfold tick at ht
  split at ht
  · rename_i s'' hs
    simp only [Option.some.injEq] at ht; subst ht
    unfold step at hs
    cases hst : s.stack with
    | nil => rw [hst] at hs; cases hs
    | cons f rest =>
      rw [hst] at hs
      simp only [Option.some.injEq] at hs; subst hs
      exact pendD_runFrame p hh h hst
  · split at ht
    · rename_i op _
      simp only [Option.some.injEq] at ht; subst ht
      exact pendD_startTop (s := { s with topIdx := s.topIdx + 1 }) (pendD_same (fs := []) h (fun T => by cases T <;> rfl) rfl rfl noPend_nil)
        s.topIdx op
    · cases ht


theorem pendD_default : PendD ({} : St) := by intro T; cases T <;> exact List.Perm.refl _

/-- **Along every execution each tracker's prepared list is, entry by entry, a permutation of what the waiting commands
    prepared.** -/
theorem pendD_reach (p : Prog) (hh : Hist) {s0 s : St} (h0 : PendD s0) (hr : Reach p hh s0 s) : PendD s := by
  induction hr with
  | refl => exact h0
  | tick _ ht ih => exact pendD_tick p hh ih ht

/-- The system-level invariant, along every execution from the empty world. -/
theorem pend_reach (p : Prog) (hh : Hist) {s : St} (hr : Reach p hh ({} : St) s) : Pend s :=
  pend_of_pendD (pendD_reach p hh pendD_default hr)

theorem claimedOwn_emit (s : St) (e : Ev) (k : Kind) : claimedOwn (s.emit e) k = claimedOwn s k := by cases k <;> rfl

/-- **Exact claim**: when a command is about to take its callback, the `start` of every tracker it uses claims the
    entry this very command prepared. `s1` is any state with the trackers of `s` (the runner updates `storage` and the
    counter in between). -/
theorem claim_exact {s : St} {sys idx : Nat} {k : Kind} {rest : List Frame} (h : PendD s)
    (hs : s.stack = Frame.runnerLookup sys k idx :: rest) (s1 : St) (h1 : s1.trkSys = s.trkSys) (h2 : s1.trkEvt = s.trkEvt)
    (h3 : s1.trkEnt = s.trkEnt) (h4 : s1.trkDsp = s.trkDsp) : claimedOwn (setupK s1 k sys) k = true := by
  rw [claimedOwn_iff]
  intro T key hk
  have h0 : (prepD T s1).Perm (pendD T (s.buffered ++ (sys, k) :: stackPending rest)) := by
    rw [prepD_of_trk h1 h2 h3 h4]
    have := h T
    simpa [allPending, hs, stackPending_cons, framePending] using this
  exact ((pendD_setup T h0).2 key hk).1

/-- With an exact claim the prologue of the body reports no misclaim. -/
theorem preBody_exact (s1 : St) (sys : Nat) (k : Kind) (h : claimedOwn (setupK s1 k sys) k = true) :
    preBody s1 sys k = ((setupK s1 k sys).emit (.enter sys)).emit
      (.expect sys (expectObs ((setupK s1 k sys).emit (.enter sys)) k (ewrOf ((setupK s1 k sys).emit (.enter sys)) sys))) := by
  unfold preBody
  simp only [claimedOwn_emit, h, ↓reduceIte]

end Cobweb
