/-
  Cobweb.Proofs.Boot — the invariants hold in the initial state of every scenario, not only in the empty world.

  `Scenario.init` spawns the world reactors / entity world reactors of a scenario as system commands before the first
  top-level operation (the harness does the same while building the `App`). `boot` describes every such state: `n` live
  entities, all of them system commands with their callback stored, arbitrary definitions; nothing else. Every
  whole-execution invariant holds there, so it holds along every execution from there.
-/
import Cobweb.Proofs.SysLive
import Cobweb.Proofs.Pay
import Cobweb.Proofs.Watch
import Cobweb.Proofs.ArcExact
import Cobweb.Proofs.RemBuf
import Cobweb.Proofs.Counts

namespace Cobweb

/-- A world holding nothing but `n` freshly spawned system commands. -/
def boot (n : Nat) (info : Nat → SysInfo) (names : List Nat) (wr ewr : Nat → Nat) : St :=
  { nextEnt := n, alive := fun e => decide (e < n), storage := fun e => if e < n then some true else none,
    info := info, sysNames := names, wrSys := wr, ewrSys := ewr }

/-- The systems have not run and are not one-off reactors. -/
def InfoNew (info : Nat → SysInfo) : Prop := ∀ e, (info e).nruns = 0 ∧ (info e).once = none ∧ (info e).onceTaken = false

variable (n : Nat) (info : Nat → SysInfo) (names : List Nat) (wr ewr : Nat → Nat)

theorem ctl_boot : Ctl (boot n info names wr ewr) := by
  constructor <;> intros <;> simp_all [boot, running, waiting, hasActive, StackOK] <;> omega

theorem once_boot (hi : InfoNew info) : OnceInv (boot n info names wr ewr) := by
  constructor
  · intro sys hl; obtain ⟨a, _, _⟩ := hl; simp [boot, (hi sys).2.1] at a
  · trivial
  · intro e _; exact (hi e).2.2

theorem flag_boot : FlagInv (boot n info names wr ewr) := ⟨⟨rfl, rfl⟩, (by intro g hg; cases hg), trivial⟩

theorem pendD_boot : PendD (boot n info names wr ewr) := by intro T; cases T <;> exact List.Perm.refl _

theorem used_boot : Used (boot n info names wr ewr) := by
  intro k T h; exact absurd h (by unfold PendCleanup; exact fun h => h)

theorem inv5_boot (hi : InfoNew info) : Inv5 (boot n info names wr ewr) :=
  ⟨ctl_boot n info names wr ewr, once_boot n info names wr ewr hi, flag_boot n info names wr ewr, pendD_boot n info names wr ewr,
   used_boot n info names wr ewr⟩

theorem cnt_boot : Cnt (boot n info names wr ewr) := by constructor <;> intro sys <;> rfl

theorem nobad_boot : NoBad (boot n info names wr ewr) := by intro e he; cases he

theorem runs_boot (hi : InfoNew info) : Runs (boot n info names wr ewr) := ⟨fun sys => (hi sys).1, fun _ _ => rfl, trivial⟩

theorem data_boot : DataInv (boot n info names wr ewr) := by
  refine ⟨?_, ?_, ?_, ?_, ?_, ?_⟩
  · intro d x _ hd; cases hd
  · intro pre g post d x hsplit; cases pre <;> cases hsplit
  · intro d _; exact ⟨rfl, fun g hg => by cases hg⟩
  · intro d _; rfl
  · intro c hc; cases hc
  · intro f hf; cases hf

theorem sys_boot : SysInv (boot n info names wr ewr) := by
  refine ⟨?_, ?_, trivial⟩
  · intro d x hd; cases hd
  · intro f hf; cases hf

theorem pay_boot : PayInv (boot n info names wr ewr) := by
  refine ⟨fun pid => ?_, fun d => ?_, fun d _ => ?_, ?_⟩
  · have : dataP pid (boot n info names wr ewr) = 0 := sumTo_zero _ _ (fun _ => rfl)
    rw [this]; rfl
  · exact Nat.zero_le 1
  · rfl
  · rfl

theorem watch_boot : WatchInv (boot n info names wr ewr) := by
  refine ⟨⟨?_, ?_, ?_, ?_, ?_, ?_, ?_, ?_, ?_⟩, ?_, trivial⟩
  · intro e he; exact absurd rfl he
  · intro e he; cases he
  · intro e he; cases he
  · exact List.nodup_nil
  · intro e he; simp only [boot] at he ⊢; simp; omega
  · intro ty h; exact absurd rfl h
  · intro e l rt h hl; cases hl
  · intro p hp; cases hp
  · intro hr; cases hr
  · intro f hf; cases hf

theorem holders_boot (B N a : Nat) : holders B N a (boot n info names wr ewr) = 0 := by
  have e1 : sumTo B (tblAt a (boot n info names wr ewr)) = 0 := sumTo_zero _ _ (fun _ => rfl)
  have e2 : sumTo N (fun e => hcount a ((boot n info names wr ewr).tblDsp e)) = 0 := sumTo_zero _ _ (fun _ => rfl)
  have e3 : sumTo N (fun e => hcount a (entHandles (boot n info names wr ewr) e)) = 0 := sumTo_zero _ _ (fun _ => rfl)
  simp only [holders, e1, e2, e3]; rfl

theorem arc_boot : ArcInv (boot n info names wr ewr) :=
  ⟨fun B N a _ => by rw [holders_boot]; exact Nat.zero_le _, fun B N a _ => ⟨holders_boot n info names wr ewr B N a, rfl⟩,
   fun a ha => by cases ha⟩

theorem ge_boot : GeInv (boot n info names wr ewr) := fun a _ => ⟨0, 0, by simp [holders_boot]; rfl⟩

end Cobweb

namespace Cobweb

/-- The whole-execution invariants of the model that need no hypothesis on the history, bundled. -/
structure CoreInv (s : St) : Prop where
  inv5 : Inv5 s
  cnt : Cnt s
  nobad : NoBad s
  runs : Runs s
  data : DataInv s
  sys : SysInv s
  pay : PayInv s
  watch : WatchInv s
  nodup : s.tracked.Nodup

/-- ... and with the reference-count invariants (which need a user who only clones / drops signals it holds). -/
structure AllInv (s : St) : Prop where
  core : CoreInv s
  arc : ArcInv s
  ge : GeInv s

theorem core_boot (n : Nat) (info : Nat → SysInfo) (names : List Nat) (wr ewr : Nat → Nat) (hi : InfoNew info) :
    CoreInv (boot n info names wr ewr) :=
  ⟨inv5_boot n info names wr ewr hi, cnt_boot n info names wr ewr, nobad_boot n info names wr ewr, runs_boot n info names wr ewr hi,
   data_boot n info names wr ewr, sys_boot n info names wr ewr, pay_boot n info names wr ewr, watch_boot n info names wr ewr,
   List.nodup_nil⟩

theorem all_boot (n : Nat) (info : Nat → SysInfo) (names : List Nat) (wr ewr : Nat → Nat) (hi : InfoNew info) :
    AllInv (boot n info names wr ewr) :=
  ⟨core_boot n info names wr ewr hi, arc_boot n info names wr ewr, ge_boot n info names wr ewr⟩

theorem core_default : CoreInv ({} : St) :=
  ⟨inv5_default, cnt_default, nobad_default, runs_default, data_default, sys_default, pay_default, watch_default, List.nodup_nil⟩

theorem all_default : AllInv ({} : St) := ⟨core_default, arc_default, ge_default⟩

/-- One tick preserves every invariant. -/
theorem core_tick (p : Prog) (hh : Hist) {s s' : St} (h : CoreInv s) (ht : tick p hh s = some s') : CoreInv s' :=
  ⟨inv5_tick p hh h.inv5 ht, cnt_tick p hh h.cnt ht, nobad_tick p hh h.inv5.ctl h.nobad ht, runs_tick p hh h.inv5.ctl h.runs ht,
   data_tick p hh h.inv5 h.data ht, sys_tick p hh h.inv5 h.data h.sys ht, pay_tick p hh h.pay ht, watch_tick p hh h.watch ht,
   tick_tracked_nodup p hh ht h.nodup⟩

theorem all_tick (p : Prog) (hh : Hist) (hsig : SigOK2 hh) {s s' : St} (h : AllInv s) (ht : tick p hh s = some s') : AllInv s' :=
  ⟨core_tick p hh h.core ht, arc_tick p hh hsig.sigOK h.arc ht, ge_tick p hh hsig h.arc h.ge ht⟩

/-- **Every invariant holds along every execution from any state in which they hold** — the empty world, or a world
    booted with any number of system commands. -/
theorem core_reach_from (p : Prog) (hh : Hist) {s0 s : St} (h0 : CoreInv s0) (hr : Reach p hh s0 s) : CoreInv s := by
  induction hr with
  | refl => exact h0
  | tick _ ht ih => exact core_tick p hh ih ht

theorem all_reach_from (p : Prog) (hh : Hist) (hsig : SigOK2 hh) {s0 s : St} (h0 : AllInv s0) (hr : Reach p hh s0 s) : AllInv s := by
  induction hr with
  | refl => exact h0
  | tick _ ht ih => exact all_tick p hh hsig ih ht

/-- The weaker hypothesis (drops only) is enough for "no premature release". -/
theorem arc_reach_from (p : Prog) (hh : Hist) (hsig : SigOK hh) {s0 s : St} (h0 : ArcInv s0) (hr : Reach p hh s0 s) : ArcInv s := by
  induction hr with
  | refl => exact h0
  | tick _ ht ih => exact arc_tick p hh hsig ih ht

/-- The reference count is exactly the number of holders, from any start. -/
theorem arc_exact_from (p : Prog) (hh : Hist) (hsig : SigOK2 hh) {s0 s : St} (h0 : AllInv s0) (hr : Reach p hh s0 s) (a : Nat)
    (ha : a ∉ s.sigs) : ∃ B N, ∀ B' N', B ≤ B' → N ≤ N' → holders B' N' a s = s.arcRc a := by
  have hI := all_reach_from p hh hsig h0 hr
  obtain ⟨B, N, h⟩ := hI.ge a ha
  refine ⟨B, N, fun B' N' hB hN => ?_⟩
  have h1 := hI.arc.le B' N' a ha
  have h2 := holders_mono a s hB hN
  omega

theorem no_holder_zero_from (p : Prog) (hh : Hist) (hsig : SigOK2 hh) {s0 s : St} (h0 : AllInv s0) (hr : Reach p hh s0 s) (a : Nat)
    (ha : a ∉ s.sigs) (hz : ∀ B N, holders B N a s = 0) : s.arcRc a = 0 := by
  obtain ⟨B, N, h⟩ := arc_exact_from p hh hsig h0 hr a ha
  have := h B N (Nat.le_refl _) (Nat.le_refl _)
  rw [hz] at this; exact this.symm

end Cobweb
