/-
  Cobweb.Proofs.GcSend — the step that takes a reference count to zero sends the entity to the garbage collector.

  With `ArcExact` (count = number of holders) this is the "no leak" half of C07: when the last registration, pending
  registration command and pending despawn reaction of a cleanup / revokable reactor disappears, its count is 0, and the
  very step in which that happened appended the reactor entity to the auto-despawn channel; the collector (`doGc`,
  `doDespawnWork`) despawns what it finds there.
-/
import Cobweb.Proofs.ArcExact

namespace Cobweb

/-- One state change as the collector sees it. -/
structure GcStep (s s' : St) : Prop where
  sent : ∀ a, a < s.nextArc → 0 < s.arcRc a → s'.arcRc a = 0 → s.arcEnt a ∈ s'.autoChan
  grow : ∃ more, s'.autoChan = s.autoChan ++ more
  ent : ∀ a, a < s.nextArc → s'.arcEnt a = s.arcEnt a
  next : s.nextArc ≤ s'.nextArc

theorem GcStep.of_same {s s' : St} (h1 : s'.arcRc = s.arcRc) (h2 : s'.autoChan = s.autoChan) (h3 : s'.arcEnt = s.arcEnt)
    (h4 : s'.nextArc = s.nextArc) : GcStep s s' :=
  ⟨fun a _ hp h0 => by rw [h1] at h0; omega, ⟨[], by rw [h2]; simp⟩, fun a _ => by rw [h3], by rw [h4]; exact Nat.le_refl _⟩

theorem GcStep.refl (s : St) : GcStep s s := GcStep.of_same rfl rfl rfl rfl

theorem GcStep.trans {a b c : St} (h1 : GcStep a b) (h2 : GcStep b c) : GcStep a c := by
  obtain ⟨m1, e1⟩ := h1.grow
  obtain ⟨m2, e2⟩ := h2.grow
  refine ⟨?_, ⟨m1 ++ m2, by rw [e2, e1]; simp⟩, fun x hx => by rw [h2.ent x (Nat.lt_of_lt_of_le hx h1.next), h1.ent x hx],
    Nat.le_trans h1.next h2.next⟩
  intro x hx hp h0
  by_cases hb : b.arcRc x = 0
  · have := h1.sent x hx hp hb
    rw [e2]; exact List.mem_append_left _ this
  · have := h2.sent x (Nat.lt_of_lt_of_le hx h1.next) (by omega) h0
    rw [h1.ent x hx] at this; exact this

/-- A change of fields the collector does not read, then a step. -/
theorem GcStep.after {s1 s2 : St} (h : GcStep s1 s2) {s : St} (h1 : s1.arcRc = s.arcRc) (h2 : s1.autoChan = s.autoChan)
    (h3 : s1.arcEnt = s.arcEnt) (h4 : s1.nextArc = s.nextArc) : GcStep s s2 := (GcStep.of_same h1 h2 h3 h4).trans h

theorem gc_dropHandle (s : St) (h : Handle) : GcStep s (dropHandle s h) := by
  unfold dropHandle
  cases harc : h.arc with
  | none => exact GcStep.refl s
  | some a0 =>
    dsimp only
    split
    · rename_i hz
      refine ⟨?_, ⟨[s.arcEnt a0], rfl⟩, fun _ _ => rfl, Nat.le_refl _⟩
      intro a _ hp h0
      by_cases ha : a = a0
      · subst ha; simp
      · simp [upd, ha] at h0; omega
    · rename_i hz
      refine ⟨?_, ⟨[], by simp⟩, fun _ _ => rfl, Nat.le_refl _⟩
      intro a _ hp h0
      by_cases ha : a = a0
      · subst ha; simp [upd] at h0; exact absurd h0 hz
      · simp [upd, ha] at h0; omega

theorem gc_dropHandles (hs : List Handle) : ∀ s : St, GcStep s (dropHandles s hs) := by
  induction hs with
  | nil => intro s; exact GcStep.refl s
  | cons h hs ih => intro s; exact (gc_dropHandle s h).trans (ih _)

theorem gc_cloneHandle (s : St) (h : Handle) : GcStep s (cloneHandle s h) := by
  refine ⟨?_, ⟨[], by simp⟩, fun _ _ => by simp, by simp⟩
  intro a _ hp h0
  rw [cloneHandle_arcRc] at h0; omega

theorem gc_newArc (s : St) (e : Nat) : GcStep s (newArc s e).2 := by
  refine ⟨?_, ⟨[], by simp⟩, ?_, by simp [newArc]⟩
  · intro a ha hp h0
    have hne : a ≠ s.nextArc := by omega
    simp [newArc, upd, hne] at h0; omega
  · intro a ha
    have hne : a ≠ s.nextArc := by omega
    simp [newArc, upd, hne]

theorem gc_killReactors (s : St) (e : Nat) : GcStep s (killReactors s e) := by
  unfold killReactors
  split
  · exact (gc_dropHandles _ _).after rfl rfl rfl rfl
  · exact GcStep.refl s

theorem gc_kill (s : St) (e : Nat) : GcStep s (kill s e) := by
  have h1 : GcStep s (killStorage (killCanary s e) e) := GcStep.of_same (by simp) (by simp) (by simp) (by simp)
  have h2 := gc_killReactors (killStorage (killCanary s e) e) e
  refine (h1.trans h2).trans (GcStep.of_same ?_ ?_ ?_ ?_) <;> (unfold kill; simp)

theorem gc_despawn1 (s : St) (e : Nat) : GcStep s (despawn1 s e) := by
  unfold despawn1; split
  · exact gc_kill s e
  · exact GcStep.refl s

theorem gc_tryCleanupData (s : St) (d : Nat) : GcStep s (tryCleanupData s d) := by
  unfold tryCleanupData
  (repeat' split) <;> first
    | exact GcStep.refl s
    | exact (GcStep.of_same rfl rfl rfl rfl)
    | (dsimp only; split
       · exact (gc_kill _ d).after rfl rfl rfl rfl
       · exact GcStep.of_same rfl rfl rfl rfl)

theorem gc_dropOptS (s : St) (o : Option Handle) : GcStep s (dropOptS s o) := by
  cases o with
  | none => exact GcStep.refl s
  | some h => exact gc_dropHandle s h

theorem gc_setupK (s : St) (k : Kind) (sys : Nat) : GcStep s (setupK s k sys) := by
  cases k <;> simp only [setupK]
  · exact GcStep.refl s
  · exact GcStep.of_same rfl rfl rfl rfl
  · exact GcStep.of_same rfl rfl rfl rfl
  · exact (gc_dropOptS _ (s.trkDsp.start sys _ _).2).after rfl rfl rfl rfl
  · exact GcStep.of_same rfl rfl rfl rfl
  · exact GcStep.of_same rfl rfl rfl rfl

theorem gc_cleanupK (s : St) (k : Kind) : GcStep s (cleanupK s k) := by
  cases k <;> simp only [cleanupK]
  · exact GcStep.refl s
  · exact (gc_despawn1 _ _).after rfl rfl rfl rfl
  · exact GcStep.of_same rfl rfl rfl rfl
  · exact (gc_dropOptS _ s.trkDsp.curHandle).after rfl rfl rfl rfl
  · exact (gc_tryCleanupData _ _).after rfl rfl rfl rfl
  · exact (gc_tryCleanupData _ _).after rfl rfl rfl rfl

theorem gc_revokeOne (s : St) (sys : Nat) (t : Trig) : GcStep s (revokeOne s sys t) := by
  unfold revokeOne
  split
  · rename_i e
    dsimp only
    exact (gc_dropOptS _ _).after rfl rfl rfl rfl
  · split
    · split
      · exact (gc_dropHandles _ _).after rfl rfl rfl rfl
      · exact GcStep.refl s
    · split
      · rename_i tb ty _
        dsimp only
        exact (gc_dropOptS _ _).after rfl rfl rfl rfl
      · exact GcStep.refl s

theorem gc_revokeAll (sys : Nat) : ∀ (ts : List Trig) (s : St), GcStep s (revokeAll s sys ts) := by
  intro ts
  induction ts with
  | nil => intro s; exact GcStep.refl s
  | cons t ts ih =>
    intro s
    simp only [revokeAll, List.foldl_cons]
    have := ih (revokeOne s sys t)
    simp only [revokeAll] at this
    exact (gc_revokeOne s sys t).trans this

theorem gc_regCmds (s : St) (h : Handle) (t : Trig) : GcStep s (regCmds s h t).1 := by
  unfold regCmds
  (repeat' split) <;> first | exact GcStep.refl s | exact gc_cloneHandle s h

theorem gc_regAll (h : Handle) : ∀ (ts : List Trig) (s : St), GcStep s (regAll s h ts).1 := by
  intro ts
  induction ts with
  | nil => intro s; exact GcStep.refl s
  | cons t ts ih =>
    intro s
    simp only [regAll]
    exact (gc_regCmds s h t).trans (ih _)

macro "gsame" : tactic => `(tactic| (refine GcStep.of_same ?_ ?_ ?_ ?_ <;> first | rfl | (simp [St.push, St.emit, St.fresh, setTbl]; done)))

theorem gc_applyCmd (s : St) (c : Cmd) : GcStep s (applyCmd s c) := by
  cases c <;> simp only [applyCmd]
  case register trigs sys mode =>
    cases mode <;> dsimp only
    · exact (gc_regAll _ trigs s).trans (by gsame)
    all_goals
      exact ((gc_newArc s sys).trans ((gc_regAll _ trigs _).trans (gc_dropHandle _ _))).trans (by gsame)
  case regEnt rt e h =>
    split
    · gsame
    · split
      · gsame
      · exact gc_dropHandle s h
  case regDsp e h =>
    split
    · gsame
    · exact gc_dropHandle s h
  case revoke sys trigs => exact gc_revokeAll sys trigs s
  case despawn e => exact gc_despawn1 s e
  case cleanup k => exact gc_cleanupK s k
  all_goals (first | gsame | (split <;> gsame) | (split <;> (try split) <;> gsame))

end Cobweb

namespace Cobweb

theorem gc_startBody (s : St) (sys : Nat) (k : Kind) : GcStep s (startBody s sys k) := by
  refine (gc_setupK s k sys).trans (GcStep.of_same ?_ ?_ ?_ ?_)
  · exact startBody_proj (fun t => t.arcRc) (fun _ _ => rfl) (fun t w => by simp) (fun _ _ => rfl) s sys k
  · exact startBody_proj (fun t => t.autoChan) (fun _ _ => rfl) (fun t w => by simp) (fun _ _ => rfl) s sys k
  · exact startBody_proj (fun t => t.arcEnt) (fun _ _ => rfl) (fun t w => by simp) (fun _ _ => rfl) s sys k
  · exact startBody_proj (fun t => t.nextArc) (fun _ _ => rfl) (fun t w => by simp) (fun _ _ => rfl) s sys k

/-- What one frame sends to the collector. -/
def Sends (s s' : St) : Prop := ∀ a, a < s.nextArc → 0 < s.arcRc a → s'.arcRc a = 0 → s.arcEnt a ∈ s'.autoChan

theorem sends_runFrame (p : Prog) (hh : Hist) (s : St) (f : Frame) : Sends s (runFrame p hh s f) := by
  have of : ∀ s', GcStep s s' → Sends s s' := fun s' h => h.sent
  cases f with
  | batch cs =>
    cases cs with
    | nil => exact of _ (GcStep.refl s)
    | cons c cs =>
      simp only [runFrame, doBatch]
      exact of _ ((gc_applyCmd (s.push [.flush, .batch cs]) c).after rfl rfl rfl rfl)
  | flush => simp only [runFrame, doFlush]; split <;> exact of _ (by gsame)
  | bodyActs sys k i acc => simp only [runFrame, doBodyActs]; split <;> exact of _ (by gsame)
  | exclActs sys i => simp only [runFrame, doExclActs]; split <;> exact of _ (by gsame)
  | topActs t i => simp only [runFrame, doTopActs]; split <;> exact of _ (by gsame)
  | cleanup k => exact of _ (gc_cleanupK s k)
  | onceTail sys => simp only [runFrame, doOnceTail]; exact of _ ((gc_despawn1 s sys).trans (by gsame))
  | dropCallback sys => exact of _ (by simp only [runFrame]; gsame)
  | runnerStart sys k => exact of _ (by simp only [runFrame, doRunnerStart]; gsame)
  | runnerLookup sys k idx =>
    simp only [runFrame, doRunnerLookup]
    split
    · exact of _ (by gsame)
    · split
      · exact of _ (by gsame)
      · split <;> exact of _ (by gsame)
      · split
        · exact of _ (((gc_setupK ({ s with storage := upd s.storage sys (some false), counter := s.counter + 1 } : St) k sys).after (s := s) rfl rfl rfl rfl).trans (by gsame))
        · split
          · exact of _ (((gc_startBody ({ s with storage := upd s.storage sys (some false), counter := s.counter + 1 } : St) sys k).after (s := s) rfl rfl rfl rfl).trans (by gsame))
          · split
            · exact of _ (((gc_startBody ({ s with storage := upd s.storage sys (some false), counter := s.counter + 1 } : St) sys k).after (s := s) rfl rfl rfl rfl).trans (by gsame))
            · exact of _ (((gc_startBody ({ s with storage := upd s.storage sys (some false), counter := s.counter + 1 } : St) sys k).after (s := s) rfl rfl rfl rfl).trans (by gsame))
  | afterBody sys idx => exact of _ (by simp only [runFrame, doAfterBody]; gsame)
  | reinsert sys idx => simp only [runFrame, doReinsert]; (repeat' split) <;> exact of _ (by gsame)
  | replayTake sys idx => exact of _ (by simp only [runFrame, doReplayTake]; gsame)
  | replayLoop sys r kept idx => simp only [runFrame, doReplayLoop]; (repeat' split) <;> exact of _ (by gsame)
  | finish sys idx => simp only [runFrame, doFinish]; (repeat' split) <;> exact of _ (by gsame)
  | abort sys k => simp only [runFrame]; exact of _ ((gc_setupK s k sys).trans (gc_cleanupK _ k))
  | gc =>
    -- the collector itself: counts are untouched
    simp only [runFrame, doGc]
    split
    · exact of _ (GcStep.refl s)
    · intro a _ hp h0; simp [St.push] at h0; omega
  | despawnWork work =>
    simp only [runFrame, doDespawnWork]
    split
    · exact of _ (GcStep.refl s)
    · split
      · split
        · exact of _ ((gc_despawn1 s _).trans (by gsame))
        · exact of _ (by gsame)
      · split <;> exact of _ (by gsame)
  | poll => exact of _ (by simp only [runFrame, doPoll]; gsame)

theorem sends_startTop (s : St) (t : Nat) (op : TopOp) : Sends s (startTop s t op) := by
  have of : ∀ s', GcStep s s' → Sends s s' := fun s' h => h.sent
  unfold startTop
  cases op <;> dsimp only
  case wDespawn e => exact of _ ((gc_despawn1 _ e).after rfl rfl rfl rfl)
  case wRemove e ty => exact of _ ((gc_applyCmd _ _).after rfl rfl rfl rfl)
  case wInsertRaw e ty v => exact of _ ((gc_applyCmd _ _).after rfl rfl rfl rfl)
  case wSysEvent sys ty pid => exact of _ ((gc_applyCmd _ _).after rfl rfl rfl rfl)
  case wBroadcast ty pid => exact of _ ((gc_applyCmd _ _).after rfl rfl rfl rfl)
  case wEntityEvent e ty pid => exact of _ ((gc_applyCmd _ _).after rfl rfl rfl rfl)
  case sigPrepare e => exact of _ (((gc_newArc _ e).after (s := s) rfl rfl rfl rfl).trans (by gsame))
  case sigClone a => split <;> first | exact of _ ((gc_cloneHandle _ _).after rfl rfl rfl rfl) | exact of _ (by gsame)
  case sigDrop a => split <;> first | exact of _ ((gc_dropHandle _ _).after rfl rfl rfl rfl) | exact of _ (by gsame)
  all_goals (try split) <;> exact of _ (by gsame)

/-- **The step that takes a count to zero hands the entity to the collector.** -/
theorem zero_sends {p : Prog} {hh : Hist} {s s' : St} (ht : tick p hh s = some s') (a : Nat) (ha : a < s.nextArc)
    (hp : 0 < s.arcRc a) (h0 : s'.arcRc a = 0) : s.arcEnt a ∈ s'.autoChan := by
  unfold tick at ht
  split at ht
  · rename_i s'' hs
    simp only [Option.some.injEq] at ht; subst ht
    unfold step at hs
    cases hst : s.stack with
    | nil => rw [hst] at hs; cases hs
    | cons f rest =>
      rw [hst] at hs
      simp only [Option.some.injEq] at hs; subst hs
      exact sends_runFrame p hh ({ s with stack := rest } : St) f a ha hp h0
  · split at ht
    · simp only [Option.some.injEq] at ht; subst ht
      exact sends_startTop ({ s with topIdx := s.topIdx + 1 } : St) s.topIdx _ a ha hp h0
    · cases ht

/-! ### the collector -/

/-- The collector takes the oldest entry of the channel and schedules its recursive despawn. -/
theorem gc_takes_oldest (s : St) (e : Nat) (es : List Nat) (h : s.autoChan = e :: es) :
    (doGc s).autoChan = es ∧ (doGc s).stack = .despawnWork [(e, false)] :: .gc :: s.stack := by
  simp [doGc, h, St.push]

/-- ... until the channel is empty. -/
theorem gc_stops_when_empty (s : St) (h : s.autoChan = []) : doGc s = s := by simp [doGc, h]

/-- A scheduled despawn of a live, childless entity kills it (after expanding its children). -/
theorem despawn_work_kills (s : St) (e : Nat) (work : List (Nat × Bool)) (hw : s.wq = []) :
    doDespawnWork s ((e, true) :: work) = (despawn1 s e).push [.despawnWork work] := by
  simp [doDespawnWork, hw]

/-- `World::despawn` applies the world's command queue before it removes the entity. -/
theorem despawn_work_flushes_first (s : St) (e : Nat) (work : List (Nat × Bool)) (hw : s.wq ≠ []) :
    doDespawnWork s ((e, true) :: work) = s.push [.flush, .despawnWork ((e, true) :: work)] := by
  simp [doDespawnWork, hw]

theorem despawn_work_ignores_dead (s : St) (e : Nat) (work : List (Nat × Bool)) (h : s.alive e = false) :
    doDespawnWork s ((e, false) :: work) = s.push [.despawnWork work] := by
  simp [doDespawnWork, h]

end Cobweb
