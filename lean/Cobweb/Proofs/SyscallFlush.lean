/-
  Cobweb.Proofs.SyscallFlush — "effects applied on return" for arbitrary programs: whenever the executor did not run out
  of fuel, a flush leaves the world queue empty and a call that returns a value leaves it empty too — everything the
  system queued, and everything queued by what that caused, has been applied. By induction on the fuel.
-/
import Cobweb.Syscall

namespace Cobweb.Sc

/-- Running out of fuel is never forgotten. -/
def Mono (k : SSt → Task → SSt × Option Nat) : Prop := ∀ st t, st.oof = true → (k st t).1.oof = true

/-- Without running out of fuel: a flush empties the world queue; a call that returns a value leaves it empty; applying
    a queued command on an empty queue leaves it empty. -/
def Done (k : SSt → Task → SSt × Option Nat) : Prop :=
  ∀ st t, (k st t).1.oof = false →
    (t = .flush → (k st t).1.wq = []) ∧
    (∀ c, t = .call c → ((k st t).2.isSome = true ∨ st.wq = []) → (k st t).1.wq = []) ∧
    (∀ op, t = .apply op → st.wq = [] → (k st t).1.wq = [])

theorem report_oof (r : SSt × Option Nat) (c : SCall) : (report r c).oof = r.1.oof := by
  unfold report; split <;> rfl
theorem report_wq (r : SSt × Option Nat) (c : SCall) : (report r c).wq = r.1.wq := by
  unfold report; split <;> rfl

theorem mono_tryCall {k : SSt → Task → SSt × Option Nat} (hk : Mono k) (st : SSt) (c : SCall) (h : st.oof = true) :
    (tryCall k st c).oof = true := by
  unfold tryCall; split
  · exact h
  · rw [report_oof]; exact hk _ _ h

theorem mono_foldl {α : Type} (f : SSt → α → SSt) (hf : ∀ st a, st.oof = true → (f st a).oof = true) :
    ∀ (l : List α) (st : SSt), st.oof = true → (l.foldl f st).oof = true := by
  intro l
  induction l with
  | nil => intro st h; exact h
  | cons a l ih => intro st h; exact ih _ (hf st a h)

/-- If the fold did not run out of fuel, no prefix did. -/
theorem foldl_oof_false {α : Type} (f : SSt → α → SSt) (hf : ∀ st a, st.oof = true → (f st a).oof = true)
    (l : List α) (st : SSt) (h : (l.foldl f st).oof = false) : st.oof = false := by
  cases hs : st.oof with
  | false => rfl
  | true => rw [mono_foldl f hf l st hs] at h; cases h

theorem mono_runBody {k : SSt → Task → SSt × Option Nat} (hk : Mono k) (p : SProg) (st : SSt) (kind : SKind)
    (key defKey cnt input : Nat) (h : st.oof = true) : (runBody k p st kind key defKey cnt input).1.oof = true := by
  unfold runBody
  dsimp only
  split
  · apply hk
    refine mono_foldl _ ?_ _ _ (show (st.emit (.enter kind key cnt input)).oof = true from h)
    intro st op hs
    cases op with
    | d c => exact mono_tryCall hk st c hs
    | q c => exact hs
    | w v => exact hs
    | x id => exact hs
    | g key => exact hs
    | v key => exact hs
  · apply mono_foldl
    · intro st op hs; exact hk _ _ (hk _ _ hs)
    · exact hk _ _ h

theorem mono_exec (p : SProg) : ∀ fuel, Mono (exec p fuel) := by
  intro fuel
  induction fuel with
  | zero =>
    intro st t h
    cases t <;> simp only [exec] <;> first | rfl | (split <;> first | exact h | rfl)
  | succ fuel ih =>
    intro st t h
    cases t with
    | flush =>
      simp only [exec]; split
      · exact h
      · exact mono_foldl _ (fun st op hs => ih _ _ (ih _ _ hs)) _ _ h
    | apply op =>
      cases op <;> simp only [exec] <;> first | exact h | exact mono_tryCall ih st _ h
    | call c =>
      obtain ⟨kind, key, input⟩ := c
      cases kind <;> simp only [exec]
      · exact mono_runBody ih p _ _ _ _ _ _ h
      · refine mono_runBody ih p _ _ _ _ _ _ ?_
        split <;> exact h
      · split
        · exact h
        · exact h
        · rename_i cnt _
          have := mono_runBody ih p ({ st with sstore := upd st.sstore key (some none) } : SSt) .s key (st.sdef key) cnt input h
          split <;> exact this
      · exact mono_runBody ih p _ _ _ _ _ _ h
      · split
        · exact mono_runBody ih p _ _ _ _ _ _ h
        · exact h

theorem foldl_flushes {k : SSt → Task → SSt × Option Nat} (hm : Mono k) (hd : Done k) :
    ∀ (l : List SOp) (st : SSt), (l.foldl (fun (st : SSt) op => (k (k st (.apply op)).1 .flush).1) st).oof = false →
      st.wq = [] → (l.foldl (fun (st : SSt) op => (k (k st (.apply op)).1 .flush).1) st).wq = [] := by
  intro l
  induction l with
  | nil => intro st _ h; exact h
  | cons a l ih =>
    intro st ho _
    rw [List.foldl_cons] at ho ⊢
    have h1 : ((k (k st (.apply a)).1 .flush).1).oof = false :=
      foldl_oof_false _ (fun st op hs => hm _ _ (hm _ _ hs)) l _ ho
    exact ih _ ho ((hd _ .flush h1).1 rfl)

theorem done_runBody {k : SSt → Task → SSt × Option Nat} (hm : Mono k) (hd : Done k) (p : SProg) (st : SSt) (kind : SKind)
    (key defKey cnt input : Nat) (h : (runBody k p st kind key defKey cnt input).1.oof = false) :
    (runBody k p st kind key defKey cnt input).1.wq = [] := by
  unfold runBody at h ⊢
  dsimp only at h ⊢
  split
  · rename_i he
    rw [if_pos he] at h
    exact (hd _ .flush h).1 rfl
  · rename_i he
    rw [if_neg he] at h
    have h1 : ((k (st.emit (.enter kind key cnt input)) .flush).1).oof = false :=
      foldl_oof_false _ (fun st op hs => hm _ _ (hm _ _ hs)) _ _ h
    exact foldl_flushes hm hd _ _ h ((hd _ .flush h1).1 rfl)

/-- **Effects are applied on return**, for every program and every nesting depth. -/
theorem done_exec (p : SProg) : ∀ fuel, Done (exec p fuel) := by
  intro fuel
  induction fuel with
  | zero =>
    intro st t h
    cases t <;> simp only [exec] at h ⊢
    · cases h
    · cases h
    · split at h
      · rename_i he
        refine ⟨fun _ => ?_, ?_, ?_⟩
        · rw [if_pos he]; simpa using he
        · intro c hc; cases hc
        · intro op hc; cases hc
      · cases h
  | succ fuel ih =>
    have hm := mono_exec p fuel
    intro st t ho
    refine ⟨fun ht => ?_, fun c ht hc => ?_, fun op ht hw => ?_⟩
    · subst ht
      simp only [exec] at ho ⊢
      split
      · rename_i he; exact he
      · rename_i he
        split at ho
        · rename_i he'; exact absurd he' he
        · exact foldl_flushes hm ih _ _ ho rfl
    · subst ht
      obtain ⟨kind, key, input⟩ := c
      cases kind <;> simp only [exec] at ho hc ⊢
      · exact done_runBody hm ih p _ _ _ _ _ _ ho
      · exact done_runBody hm ih p _ _ _ _ _ _ ho
      · split
        · rename_i he; simp only [he] at hc; simpa using hc
        · rename_i he; simp only [he] at hc; simpa using hc
        · rename_i cnt he
          simp only [he] at ho
          have hr : (runBody (exec p fuel) p ({ st with sstore := upd st.sstore key (some none) } : SSt) .s key (st.sdef key) cnt input).1.oof = false := by
            split at ho <;> exact ho
          have := done_runBody hm ih p _ _ _ _ _ _ hr
          split <;> exact this
      · exact done_runBody hm ih p _ _ _ _ _ _ ho
      · cases hn : st.nstore key with
        | none => simp only [hn] at hc ⊢; simpa using hc
        | some o =>
          cases o with
          | none => simp only [hn] at hc ⊢; simpa using hc
          | some cnt =>
            simp only [hn] at ho ⊢
            exact done_runBody hm ih p _ _ _ _ _ _ ho
    · subst ht
      cases op <;> simp only [exec] at ho ⊢
      · exact hw
      · rename_i c
        unfold tryCall at ho ⊢
        split
        · exact hw
        · rename_i hcap
          rw [if_neg hcap] at ho
          rw [report_wq]
          rw [report_oof] at ho
          exact (ih _ (.call c) ho).2.1 c rfl (Or.inr hw)
      · exact hw
      · exact hw
      · exact hw
      · exact hw

end Cobweb.Sc
