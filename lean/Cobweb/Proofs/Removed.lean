/-
  Cobweb.Proofs.Removed — the age of unread removal events (`removedOld`): Bevy keeps a `RemovedComponents` event through
  one `World::clear_trackers` and drops it at the second. Only `clearTrackers` makes events old; the poll of a tracked
  type reads the whole buffer and leaves nothing old.
-/
import Cobweb.Proofs.Frames
import Cobweb.Exec

namespace Cobweb

theorem pollRem_fold_old (tys : List Nat) (acc : St × List Cmd) (ty : Nat) :
    (tys.foldl pollRemStep acc).1.removedOld ty = if ty ∈ tys then 0 else acc.1.removedOld ty := by
  induction tys generalizing acc with
  | nil => simp
  | cons t tys ih =>
    rw [List.foldl_cons, ih]
    simp only [pollRemStep, upd, List.mem_cons]
    by_cases h1 : ty ∈ tys
    · simp [h1]
    · by_cases h2 : ty = t
      · simp [h2]
      · simp [h1, h2]

theorem pollRem_fold_buf (tys : List Nat) (acc : St × List Cmd) (ty : Nat) :
    (tys.foldl pollRemStep acc).1.removedBuf ty = if ty ∈ tys then [] else acc.1.removedBuf ty := by
  induction tys generalizing acc with
  | nil => simp
  | cons t tys ih =>
    rw [List.foldl_cons, ih]
    simp only [pollRemStep, upd, List.mem_cons]
    by_cases h1 : ty ∈ tys
    · simp [h1]
    · by_cases h2 : ty = t
      · simp [h2]
      · simp [h1, h2]

theorem pollRemovals_old (s : St) (ty : Nat) : (pollRemovals s).1.removedOld ty = if ty ∈ s.tracked then 0 else s.removedOld ty :=
  pollRem_fold_old _ _ _

theorem pollRemovals_buf (s : St) (ty : Nat) : (pollRemovals s).1.removedBuf ty = if ty ∈ s.tracked then [] else s.removedBuf ty :=
  pollRem_fold_buf _ _ _

theorem doPoll_old (s : St) (ty : Nat) : (doPoll s).removedOld ty = if ty ∈ s.tracked then 0 else s.removedOld ty := by
  simp [doPoll, St.push, pollRemovals_old]

theorem doBatch_old (s : St) (cs : List Cmd) : (doBatch s cs).removedOld = s.removedOld := by
  cases cs <;> simp [doBatch]

/-- No frame makes a removal event old; the poll makes the buffers of the tracked types fresh. -/
theorem runFrame_old (p : Prog) (h : Hist) (s : St) (f : Frame) (ty : Nat) :
    (runFrame p h s f).removedOld ty = if f = .poll ∧ ty ∈ s.tracked then 0 else s.removedOld ty := by
  cases f <;> simp [runFrame, doBatch_old, doPoll_old]

theorem step_old_le (p : Prog) (h : Hist) {s s' : St} (hs : step p h s = some s') (ty : Nat) : s'.removedOld ty ≤ s.removedOld ty := by
  unfold step at hs
  split at hs
  · cases hs
  · simp only [Option.some.injEq] at hs; subst hs
    rw [runFrame_old]; split <;> simp

theorem startTop_old (s : St) (t : Nat) (op : TopOp) (hne : op ≠ .clearTrackers) : (startTop s t op).removedOld = s.removedOld := by
  unfold startTop
  cases op <;> dsimp only <;> (try split) <;> (try simp [St.push, St.emit, St.fresh, newArc]) <;> (try rfl)
  case clearTrackers => exact absurd rfl hne

/-- A tick that is not the start of a `clear_trackers` operation. -/
def NotClear (p : Prog) (h : Hist) (s : St) : Prop := step p h s = none → h.op s.topIdx s ≠ some .clearTrackers

/-- **Only `clear_trackers` makes a removal event old.** -/
theorem tick_old_le (p : Prog) (h : Hist) {s s' : St} (ht : tick p h s = some s') (hn : NotClear p h s) (ty : Nat) :
    s'.removedOld ty ≤ s.removedOld ty := by
  unfold tick at ht
  split at ht
  · rename_i s'' hs
    simp only [Option.some.injEq] at ht; subst ht
    exact step_old_le p h hs ty
  · rename_i hnone
    split at ht
    · rename_i op hop
      simp only [Option.some.injEq] at ht; subst ht
      rw [startTop_old _ _ _ (fun e => hn hnone (by rw [hop, e]))]
      exact Nat.le_refl _
    · cases ht

/-- Ticks without a `clear_trackers` operation. -/
inductive Seg (p : Prog) (h : Hist) (s0 : St) : St → Prop
  | refl : Seg p h s0 s0
  | tick {s s' : St} : Seg p h s0 s → NotClear p h s → tick p h s = some s' → Seg p h s0 s'

theorem seg_old_le {p : Prog} {h : Hist} {s0 s : St} (hseg : Seg p h s0 s) (ty : Nat) : s.removedOld ty ≤ s0.removedOld ty := by
  induction hseg with
  | refl => exact Nat.le_refl _
  | tick _ hn ht ih => exact Nat.le_trans (tick_old_le p h ht hn ty) ih

end Cobweb
