/-
  Cobweb.Proofs.Flags — the trackers' `currently_reacting` flags are set only between a run's `setup` and its `cleanup`,
  and the cleanup is always the next thing to happen: directly after the body for ordinary systems, as the first
  command on the world queue for exclusive systems. Every other moment of every execution sees idle trackers.
-/
import Cobweb.Proofs.Once

namespace Cobweb

/-- The four `currently_reacting` flags. -/
def Fl (s : St) : Bool × Bool × Bool × Bool :=
  (s.trkSys.reacting, s.trkEvt.reacting, s.trkEnt.reacting, s.trkDsp.reacting)

def Idle (s : St) : Prop := Fl s = (false, false, false, false)

/-- Only trackers that the kind `k` starts may be flagged. -/
def SubFlags (s : St) (k : Kind) : Prop :=
  match k with
  | .plain => Idle s
  | .sysEv _ => s.trkEvt.reacting = false ∧ s.trkEnt.reacting = false ∧ s.trkDsp.reacting = false
  | .bcEv _ => s.trkSys.reacting = false ∧ s.trkEnt.reacting = false ∧ s.trkDsp.reacting = false
  | .entEv _ _ => s.trkSys.reacting = false ∧ s.trkDsp.reacting = false
  | .entReact _ _ => s.trkSys.reacting = false ∧ s.trkEvt.reacting = false ∧ s.trkDsp.reacting = false
  | .dspReact _ _ => s.trkSys.reacting = false ∧ s.trkEvt.reacting = false ∧ s.trkEnt.reacting = false

def isCleanup : Cmd → Bool
  | .cleanup _ => true
  | _ => false

def cleanList (cs : List Cmd) : Prop := ∀ c ∈ cs, isCleanup c = false

def Frame.clean : Frame → Prop
  | .batch cs => cleanList cs
  | .bodyActs _ _ _ acc => cleanList acc
  | _ => True

/-- Frames that may lie below other frames. -/
def Frame.resting : Frame → Bool
  | .bodyActs _ _ _ _ => false
  | .exclActs _ _ => true     -- (a mid-body `world.flush()` leaves the body's frame below the flush)
  | .topActs _ _ => false
  | .cleanup _ => false
  | _ => true

/-- The clean-up of an exclusive system is the first command on the world queue (and only the trackers of its kind may be
    flagged), or nothing is flagged and no clean-up is queued. -/
def Pending (s : St) : Prop :=
  (∃ k tl, s.wq = Cmd.cleanup k :: tl ∧ cleanList tl ∧ SubFlags s k) ∨ (Idle s ∧ cleanList s.wq)

theorem pending_of_settled {s : St} (hi : Idle s) (hw : s.wq = []) : Pending s :=
  Or.inr ⟨hi, by rw [hw]; intro c hc; cases hc⟩

/-- The stack applies the world queue (a poll or a flush) before anything that needs settled trackers: only frames of the
    collector lie above that poll / flush. (A command applied in-line by an exclusive body starts its runner — collector,
    poll — over the body's queued clean-up.) -/
def Leads : List Frame → Prop
  | .gc :: fs => Leads fs
  | .despawnWork _ :: fs => Leads fs
  | .poll :: _ => True
  | .flush :: _ => True
  | _ => False

/-- A collector frame on top of an unsettled state must lead to a poll. -/
def Lead1 (s : St) (g : Frame) (rest : List Frame) : Prop :=
  match g with
  | .gc => (Idle s ∧ s.wq = []) ∨ Leads rest
  | .despawnWork _ => (Idle s ∧ s.wq = []) ∨ Leads rest
  | _ => True

theorem lead1_of_settled {s : St} (hi : Idle s) (hw : s.wq = []) (g : Frame) (rest : List Frame) : Lead1 s g rest := by
  cases g <;> first | trivial | exact Or.inl ⟨hi, hw⟩

/-- What must hold while frame `f` is on top of the stack. -/
def TopOK (s : St) : Frame → Prop
  | .bodyActs _ k _ acc => SubFlags s k ∧ cleanList acc ∧ s.wq = []
  | .cleanup k => SubFlags s k ∧ s.wq = []
  | .exclActs _ _ => (∃ k tl, s.wq = Cmd.cleanup k :: tl ∧ cleanList tl ∧ SubFlags s k) ∨ (Idle s ∧ cleanList s.wq)
  | .flush => (∃ k tl, s.wq = Cmd.cleanup k :: tl ∧ cleanList tl ∧ SubFlags s k) ∨ (Idle s ∧ cleanList s.wq)
  | .batch cs => (∃ k tl, cs = Cmd.cleanup k :: tl ∧ cleanList tl ∧ SubFlags s k ∧ s.wq = []) ∨ (Idle s ∧ cleanList cs ∧ s.wq = [])
  | .topActs _ _ => Idle s ∧ cleanList s.wq
  | .runnerStart _ _ => Pending s
  | .gc => Pending s
  | .despawnWork _ => Pending s
  | .poll => Pending s
  | _ => Idle s ∧ s.wq = []

structure FlagInv (s : St) : Prop where
  top : match s.stack with
    | [] => Idle s ∧ s.wq = []
    | f :: _ => TopOK s f
  below : ∀ g ∈ s.stack.tail, g.clean ∧ g.resting = true
  lead : match s.stack with
    | [] => True
    | f :: rest => Lead1 s f rest

/-- A resting clean frame is fine on top of an idle state with an empty world queue. -/
theorem topOK_reveal (s : St) (g : Frame) (hi : Idle s) (hw : s.wq = []) (hc : g.clean) (hr : g.resting = true) : TopOK s g := by
  cases g <;> simp only [TopOK, Frame.resting] at * <;> try exact ⟨hi, hw⟩
  case batch cs => exact Or.inr ⟨hi, hc, hw⟩
  case flush => exact Or.inr ⟨hi, by rw [hw]; intro c hc; cases hc⟩
  case exclActs => exact Or.inr ⟨hi, by rw [hw]; intro c hc; cases hc⟩
  case runnerStart => exact pending_of_settled hi hw
  case gc => exact pending_of_settled hi hw
  case despawnWork => exact pending_of_settled hi hw
  case poll => exact pending_of_settled hi hw
  all_goals cases hr

theorem flag_pop {s' : St} {rest : List Frame} (hst : s'.stack = rest) (hi : Idle s') (hw : s'.wq = [])
    (hb : ∀ g ∈ rest, g.clean ∧ g.resting = true) : FlagInv s' := by
  refine ⟨?_, ?_, ?_⟩
  · rw [hst]
    cases rest with
    | nil => exact ⟨hi, hw⟩
    | cons g rest => exact topOK_reveal s' g hi hw (hb g (by simp)).1 (hb g (by simp)).2
  · rw [hst]; intro g hg; exact hb g (List.mem_of_mem_tail hg)
  · rw [hst]
    cases rest with
    | nil => trivial
    | cons g rest => exact lead1_of_settled hi hw g rest

theorem flag_push {s' : St} {g : Frame} {gs rest : List Frame} (hst : s'.stack = g :: (gs ++ rest)) (ht : TopOK s' g)
    (hgs : ∀ x ∈ gs, x.clean ∧ x.resting = true) (hb : ∀ x ∈ rest, x.clean ∧ x.resting = true)
    (hl : Lead1 s' g (gs ++ rest) := by trivial) : FlagInv s' := by
  refine ⟨?_, ?_, ?_⟩
  · rw [hst]; exact ht
  · rw [hst]; intro x hx
    simp only [List.tail_cons] at hx
    rcases List.mem_append.mp hx with h | h
    · exact hgs x h
    · exact hb x h
  · rw [hst]; exact hl

/-! ### how the helper functions treat the flags -/

theorem subFlags_of_idle (s : St) (k : Kind) (h : Idle s) : SubFlags s k := by
  simp only [Idle, Fl, Prod.mk.injEq] at h
  cases k <;> simp only [SubFlags, Idle, Fl, Prod.mk.injEq] <;> simp [h]

theorem setupK_subFlags (s : St) (k : Kind) (sys : Nat) (h : Idle s) : SubFlags (setupK s k sys) k := by
  simp only [Idle, Fl, Prod.mk.injEq] at h
  obtain ⟨h1, h2, h3, h4⟩ := h
  cases k <;> simp only [SubFlags, setupK]
  · simp [Idle, Fl, h1, h2, h3, h4]
  · exact ⟨h2, h3, h4⟩
  · refine ⟨h1, h2, ?_⟩
    simp [h4]
  · split <;> simp [h1, h2, h3]
  · exact ⟨h1, h4⟩
  · exact ⟨h1, h3, h4⟩

theorem cleanupK_idle (s : St) (k : Kind) (h : SubFlags s k) : Idle (cleanupK s k) := by
  cases k <;> simp only [SubFlags] at h
  · exact h
  · obtain ⟨h2, h3, h4⟩ := h; simp [Idle, Fl, cleanupK, h2, h3, h4]
  · obtain ⟨h1, h2, h4⟩ := h; simp [Idle, Fl, cleanupK, h1, h2, h4]
  · obtain ⟨h1, h2, h3⟩ := h
    simp only [Idle, Fl, cleanupK]
    split <;> simp [h1, h2, h3]
  · obtain ⟨h1, h4⟩ := h; simp [Idle, Fl, cleanupK, h1, h4]
  · obtain ⟨h1, h3, h4⟩ := h; simp [Idle, Fl, cleanupK, h1, h3, h4]

theorem Fl_applyCmd (s : St) (c : Cmd) (hc : isCleanup c = false) : Fl (applyCmd s c) = Fl s := by
  cases c <;> simp only [isCleanup] at hc <;> (try (exact absurd hc (by decide))) <;> simp only [applyCmd, Fl] <;>
    (try split) <;> (try split) <;> (try split) <;> simp [St.push, St.fresh]

theorem Fl_enqueue (s : St) (a : Act) : Fl (enqueue s a).1 = Fl s := by simp [Fl]

theorem Fl_startBody (s : St) (sys : Nat) (k : Kind) : Fl (startBody s sys k) = Fl (setupK s k sys) := by
  have h1 : ∀ t : St, Fl (preBody t sys k) = Fl (setupK t k sys) := by
    intro t; unfold preBody; dsimp only; split <;> simp [Fl]
  unfold startBody; dsimp only
  have : ∀ (l : List Nat) (t : St), Fl (l.foldl (fun (s : St) pid => s.emit (Ev.dropPayload pid)) t) = Fl t := by
    intro l; induction l with
    | nil => intro t; rfl
    | cons x l ih => intro t; exact (ih _).trans rfl
  rw [this]
  show Fl (observe (preBody s sys k) _).2 = _
  rw [← h1]; simp [Fl]

end Cobweb

namespace Cobweb

def allOK (st : List Frame) : Prop := ∀ g ∈ st, g.clean ∧ g.resting = true

theorem allOK_append {a b : List Frame} (ha : allOK a) (hb : allOK b) : allOK (a ++ b) := by
  intro g hg; rcases List.mem_append.mp hg with h | h
  · exact ha g h
  · exact hb g h

theorem allOK_nil : allOK [] := by intro g hg; cases hg

theorem cleanList_append {a b : List Cmd} (ha : cleanList a) (hb : cleanList b) : cleanList (a ++ b) := by
  intro c hc; rcases List.mem_append.mp hc with h | h
  · exact ha c h
  · exact hb c h

theorem cleanList_map {α : Type} (l : List α) (f : α → Cmd) (h : ∀ x, isCleanup (f x) = false) : cleanList (l.map f) := by
  intro c hc; obtain ⟨x, _, rfl⟩ := List.mem_map.mp hc; exact h x

theorem cleanList_cons {c : Cmd} {cs : List Cmd} (h1 : isCleanup c = false) (h2 : cleanList cs) : cleanList (c :: cs) := by
  intro x hx; rcases List.mem_cons.mp hx with rfl | h
  · exact h1
  · exact h2 x h

theorem cleanList_nil : cleanList [] := by intro c hc; cases hc

theorem regCmds_clean (s : St) (h : Handle) (t : Trig) : cleanList (regCmds s h t).2 := by
  unfold regCmds
  split
  · split
    · intro c hc; simp at hc; subst hc; rfl
    · exact cleanList_nil
  · intro c hc; simp at hc; rcases hc with rfl | rfl <;> rfl
  · split
    · intro c hc; simp at hc; subst hc; rfl
    · split
      · intro c hc; simp at hc; subst hc; rfl
      · exact cleanList_nil

theorem regAll_clean (s : St) (h : Handle) (ts : List Trig) : cleanList (regAll s h ts).2 := by
  induction ts generalizing s with
  | nil => exact cleanList_nil
  | cons t ts ih =>
    unfold regAll; dsimp only
    exact cleanList_append (regCmds_clean s h t) (ih _)

theorem allOK_flush_batch {cs : List Cmd} (h : cleanList cs) : allOK [Frame.flush, Frame.batch cs] := by
  intro g hg; simp at hg; rcases hg with rfl | rfl
  · exact ⟨trivial, rfl⟩
  · exact ⟨h, rfl⟩

theorem allOK_one {g : Frame} (hc : g.clean) (hr : g.resting = true) : allOK [g] := by
  intro x hx; simp at hx; subst hx; exact ⟨hc, hr⟩

/-- Whatever a (non-cleanup) command pushes is clean and may rest. -/
theorem applyCmd_allOK (s : St) (c : Cmd) (hc : isCleanup c = false) :
    ∃ fs, (applyCmd s c).stack = fs ++ s.stack ∧ allOK fs := by
  cases c <;> simp only [isCleanup] at hc <;> (try (exact absurd hc (by decide))) <;> simp only [applyCmd]
  case marker m => exact ⟨[], rfl, allOK_nil⟩
  case run sys => exact ⟨_, rfl, allOK_one trivial rfl⟩
  case sysEvent sys d => exact ⟨_, rfl, allOK_one trivial rfl⟩
  case reactRes sys => exact ⟨_, rfl, allOK_one trivial rfl⟩
  case reactEnt src rt sys => exact ⟨_, rfl, allOK_one trivial rfl⟩
  case reactDsp src sys h => exact ⟨_, rfl, allOK_one trivial rfl⟩
  case reactEv t d sys => exact ⟨_, rfl, allOK_one trivial rfl⟩
  case reactBc d sys => exact ⟨_, rfl, allOK_one trivial rfl⟩
  case spawnStorage sys => split <;> exact ⟨[], rfl, allOK_nil⟩
  case insertOnce sys => split <;> exact ⟨[], rfl, allOK_nil⟩
  case spawnData d x => split <;> exact ⟨[], rfl, allOK_nil⟩
  case broadcast ty pid =>
    split
    · exact ⟨[], rfl, allOK_nil⟩
    · exact ⟨_, rfl, allOK_flush_batch (cleanList_cons rfl (cleanList_map _ _ (fun _ => rfl)))⟩
  case entityEvent e ty pid =>
    split
    · exact ⟨[], rfl, allOK_nil⟩
    · exact ⟨_, rfl, allOK_flush_batch (cleanList_cons rfl (cleanList_append (cleanList_map _ _ (fun _ => rfl)) (cleanList_map _ _ (fun _ => rfl))))⟩
  case resMut ty => exact ⟨_, rfl, allOK_flush_batch (cleanList_map _ _ (fun _ => rfl))⟩
  case tryInsert e ty v => split <;> exact ⟨[], rfl, allOK_nil⟩
  case insReact e ty =>
    split
    · exact ⟨[], rfl, allOK_nil⟩
    · exact ⟨_, rfl, allOK_flush_batch (cleanList_append (cleanList_map _ _ (fun _ => rfl)) (cleanList_map _ _ (fun _ => rfl)))⟩
  case mutReact e ty =>
    exact ⟨_, rfl, allOK_flush_batch (cleanList_append (cleanList_map _ _ (fun _ => rfl)) (cleanList_map _ _ (fun _ => rfl)))⟩
  case register trigs sys mode =>
    cases mode <;> dsimp only
    · refine ⟨[.flush, .batch (regAll s ⟨sys, none⟩ trigs).2], ?_, allOK_flush_batch (regAll_clean _ _ _)⟩
      simp [St.push]
    · refine ⟨[.flush, .batch (regAll (newArc s sys).2 ⟨sys, some (newArc s sys).1⟩ trigs).2], ?_, allOK_flush_batch (regAll_clean _ _ _)⟩
      simp [St.push]
    · refine ⟨[.flush, .batch (regAll (newArc s sys).2 ⟨sys, some (newArc s sys).1⟩ trigs).2], ?_, allOK_flush_batch (regAll_clean _ _ _)⟩
      simp [St.push]
  case regType t ty h => exact ⟨[], by split <;> rfl, allOK_nil⟩
  case regEnt rt e h => exact ⟨[], by split <;> (try split) <;> simp, allOK_nil⟩
  case regDsp e h => exact ⟨[], by split <;> simp, allOK_nil⟩
  case trackRemovals ty => exact ⟨[], by split <;> rfl, allOK_nil⟩
  case revoke sys trigs => exact ⟨[], by simp, allOK_nil⟩
  case despawn e => exact ⟨[], by simp, allOK_nil⟩
  case despawnRec e => exact ⟨_, rfl, allOK_one trivial rfl⟩
  case removeComp e ty => exact ⟨[], by split <;> rfl, allOK_nil⟩
  case ewrInsertLocal e wr v => exact ⟨[], by split <;> rfl, allOK_nil⟩
  case ewrCleanupData sys e wr => exact ⟨[], by split <;> (try split) <;> rfl, allOK_nil⟩
  case ewrAdd e wr v sys =>
    split
    · exact ⟨_, rfl, allOK_flush_batch (cleanList_cons rfl (cleanList_cons rfl cleanList_nil))⟩
    · exact ⟨[], rfl, allOK_nil⟩

theorem enqueue_clean (s : St) (a : Act) : cleanList (enqueue s a).2 := by
  cases a <;> simp only [enqueue] <;> (try split) <;> (try split) <;>
    first
    | exact cleanList_nil
    | exact cleanList_cons rfl (cleanList_map _ _ (fun _ => rfl))
    | (intro c hc; simp at hc; first | (subst hc; rfl) | (rcases hc with rfl | rfl <;> rfl))

end Cobweb

namespace Cobweb

theorem flag_idle_all {s' : St} (hi : Idle s') (hw : s'.wq = []) (hall : allOK s'.stack) : FlagInv s' := by
  refine ⟨?_, ?_, ?_⟩
  · cases hst : s'.stack with
    | nil => exact ⟨hi, hw⟩
    | cons g rest =>
      have := hall g (by rw [hst]; simp)
      exact topOK_reveal s' g hi hw this.1 this.2
  · intro g hg; exact hall g (List.mem_of_mem_tail hg)
  · cases hst : s'.stack with
    | nil => trivial
    | cons g rest => exact lead1_of_settled hi hw g rest

theorem pollRemovals_clean (s : St) : cleanList (pollRemovals s).2 := by
  unfold pollRemovals
  have : ∀ (tys : List Nat) (acc : St × List Cmd), cleanList acc.2 → cleanList (tys.foldl pollRemStep acc).2 := by
    intro tys
    induction tys with
    | nil => intro acc h; exact h
    | cons ty tys ih =>
      intro acc h
      apply ih
      simp only [pollRemStep]
      apply cleanList_append h
      intro c hc
      obtain ⟨e, _, hce⟩ := List.mem_flatMap.mp hc
      simp only [removalCmdsFor] at hce
      rcases List.mem_append.mp hce with h1 | h1
      · obtain ⟨_, _, rfl⟩ := List.mem_map.mp h1; rfl
      · obtain ⟨_, _, rfl⟩ := List.mem_map.mp h1; rfl
  exact this _ _ cleanList_nil

theorem pollDespawns_clean (s : St) : cleanList (pollDespawns s).2 := by
  unfold pollDespawns
  have : ∀ (es : List Nat) (acc : St × List Cmd), cleanList acc.2 → cleanList (es.foldl pollDspStep acc).2 := by
    intro es
    induction es with
    | nil => intro acc h; exact h
    | cons e es ih =>
      intro acc h
      apply ih
      simp only [pollDspStep]
      exact cleanList_append h (cleanList_map _ _ (fun _ => rfl))
  exact this _ _ cleanList_nil

theorem Fl_poll (s : St) : Fl (pollDespawns (pollRemovals s).1).1 = Fl s := by simp [Fl]

theorem Fl_despawn1 (s : St) (e : Nat) : Fl (despawn1 s e) = Fl s := by simp [Fl]
theorem Fl_emit (s : St) (e : Ev) : Fl (s.emit e) = Fl s := rfl

theorem idle_of_Fl {s s' : St} (h : Fl s' = Fl s) (hi : Idle s) : Idle s' := by unfold Idle; rw [h]; exact hi

theorem subFlags_of_Fl {s s' : St} (h : Fl s' = Fl s) (k : Kind) (hs : SubFlags s k) : SubFlags s' k := by
  simp only [Fl, Prod.mk.injEq] at h
  cases k <;> simp only [SubFlags, Idle, Fl, Prod.mk.injEq] at hs ⊢ <;> simp_all

theorem pending_same {s s' : St} (hfl : Fl s' = Fl s) (hwq : s'.wq = s.wq) (h : Pending s) : Pending s' := by
  rcases h with ⟨k, tl, hw, htl, hsub⟩ | ⟨hi, hcl⟩
  · exact Or.inl ⟨k, tl, by rw [hwq]; exact hw, htl, subFlags_of_Fl hfl k hsub⟩
  · exact Or.inr ⟨idle_of_Fl hfl hi, by rw [hwq]; exact hcl⟩

/-- Popping a collector frame in an unsettled state reveals another collector frame, the poll or a flush. -/
theorem flag_reveal_leads {s' : St} {rest : List Frame} (hst : s'.stack = rest) (hP : Pending s') (hl : Leads rest)
    (hb : allOK rest) : FlagInv s' := by
  cases rest with
  | nil => exact absurd hl (by simp [Leads])
  | cons g r =>
    have hbr : ∀ x ∈ r, x.clean ∧ x.resting = true := fun x hx => hb x (List.mem_cons_of_mem _ hx)
    cases g <;> simp only [Leads] at hl
    case gc => exact flag_push (g := .gc) (gs := []) (by simpa using hst) hP (by intro x hx; cases hx) hbr (Or.inr (by simpa using hl))
    case despawnWork w =>
      exact flag_push (g := .despawnWork w) (gs := []) (by simpa using hst) hP (by intro x hx; cases hx) hbr (Or.inr (by simpa using hl))
    case poll => exact flag_push (g := .poll) (gs := []) (by simpa using hst) hP (by intro x hx; cases hx) hbr
    case flush => exact flag_push (g := .flush) (gs := []) (by simpa using hst) hP (by intro x hx; cases hx) hbr

/-- **The flag invariant is preserved by every frame.** -/
theorem flag_runFrame (p : Prog) (hh : Hist) {s : St} {f : Frame} {rest : List Frame} (hc : Ctl s) (ho : OnceInv s)
    (h : FlagInv s) (hs : s.stack = f :: rest) : FlagInv (runFrame p hh { s with stack := rest } f) := by
  have htop : TopOK s f := by have := h.top; rw [hs] at this; exact this
  have hrest : allOK rest := by have := h.below; rw [hs] at this; exact this
  cases f with
  | batch cs =>
    simp only [runFrame]
    cases cs with
    | nil =>
      simp only [doBatch]
      rcases htop with ⟨k, tl, hcs, _⟩ | ⟨hi, _, hw⟩
      · cases hcs
      · exact flag_pop rfl hi hw hrest
    | cons c cs =>
      simp only [doBatch]
      rcases htop with ⟨k, tl, hcs, htl, hsub, hw⟩ | ⟨hi, hcl, hw⟩
      · -- the queued cleanup of an exclusive system
        simp only [List.cons.injEq] at hcs
        obtain ⟨rfl, rfl⟩ := hcs
        simp only [applyCmd]
        have hidle : Idle (cleanupK (({ s with stack := rest } : St).push [.flush, .batch cs]) k) :=
          cleanupK_idle _ k hsub
        apply flag_idle_all hidle (by simp [St.push, hw])
        simp only [cleanupK_stack, St.push]
        exact allOK_append (allOK_flush_batch htl) hrest
      · have hcc : isCleanup c = false := hcl c (by simp)
        obtain ⟨fs, hfs, hok⟩ := applyCmd_allOK (({ s with stack := rest } : St).push [.flush, .batch cs]) c hcc
        have hfl := Fl_applyCmd (({ s with stack := rest } : St).push [.flush, .batch cs]) c hcc
        apply flag_idle_all
        · simp only [Idle]; rw [hfl]; exact hi
        · simp [St.push, hw]
        · rw [hfs]
          exact allOK_append hok (allOK_append (allOK_flush_batch (fun x hx => hcl x (List.mem_cons_of_mem _ hx))) hrest)
  | flush =>
    simp only [runFrame, doFlush]
    rcases htop with ⟨k, tl, hwq, htl, hsub⟩ | ⟨hi, hcl⟩
    · have hne : (({ s with stack := rest } : St).wq.isEmpty) = false := by simp [hwq]
      simp only [hne]
      refine flag_push (g := .batch (Cmd.cleanup k :: tl)) (gs := []) (by simp [St.push, hwq]) ?_ (by intro x hx; cases hx) hrest
      exact Or.inl ⟨k, tl, rfl, htl, hsub, rfl⟩
    · split
      · rename_i hemp
        have hw : s.wq = [] := by simpa using hemp
        exact flag_pop rfl hi hw hrest
      · refine flag_push (g := .batch s.wq) (gs := []) (by simp [St.push]) ?_ (by intro x hx; cases hx) hrest
        exact Or.inr ⟨hi, hcl, rfl⟩
  | bodyActs sys k i acc =>
    obtain ⟨hsub, hacc, hw⟩ := htop
    simp only [runFrame, doBodyActs]
    split
    · refine flag_push (g := .cleanup k) (gs := [.flush, .batch acc]) (by simp [St.push, St.emit]) ⟨hsub, hw⟩
        (allOK_flush_batch hacc) hrest
    · rename_i a _
      refine flag_push (g := .bodyActs sys k (i + 1) (acc ++ (enqueue ({ s with stack := rest } : St) a).2)) (gs := [])
        (by simp [St.push]) ?_ (by intro x hx; cases hx) hrest
      refine ⟨?_, cleanList_append hacc (enqueue_clean _ a), by simp [hw]⟩
      have hfl := Fl_enqueue ({ s with stack := rest } : St) a
      simp only [Fl, Prod.mk.injEq] at hfl
      cases k <;> simp only [SubFlags, Idle, Fl, Prod.mk.injEq] at hsub ⊢ <;> simp_all
  | exclActs sys i =>
    simp only [runFrame, doExclActs]
    have hP : Pending ({ s with stack := rest } : St) := htop
    split
    · -- end of the body: the final flush
      refine flag_push (g := .flush) (gs := []) (by simp [St.push, St.emit]) ?_ (by intro x hx; cases hx) hrest
      rcases htop with ⟨k, tl, hwq, htl, hsub⟩ | ⟨hi, hcl⟩
      · exact Or.inl ⟨k, tl, by simp [St.emit, hwq], htl, hsub⟩
      · exact Or.inr ⟨by simpa [Idle, Fl, St.emit] using hi, by simpa [St.emit] using hcl⟩
    · -- a command applied in-line: its runner starts over whatever is queued
      rename_i t _
      refine flag_push (g := .runnerStart t .plain) (gs := [.exclActs sys (i + 1)]) (by simp [St.push]) ?_
        (by intro x hx; simp at hx; subst hx; exact ⟨trivial, rfl⟩) hrest
      rcases hP with ⟨k, tl, hwq, htl, hsub⟩ | ⟨hi, hcl⟩
      · exact Or.inl ⟨k, tl, by simpa [St.push] using hwq, htl, by cases k <;> simpa [SubFlags, Idle, Fl, St.push] using hsub⟩
      · exact Or.inr ⟨by simpa [Idle, Fl, St.push] using hi, by simpa [St.push] using hcl⟩
    · rename_i a _ _
      have hP' : Pending ({ (enqueue ({ s with stack := rest } : St) a).1 with
          wq := (enqueue ({ s with stack := rest } : St) a).1.wq ++ (enqueue ({ s with stack := rest } : St) a).2 } : St) := by
        have hfl := Fl_enqueue ({ s with stack := rest } : St) a
        rcases htop with ⟨k, tl, hwq, htl, hsub⟩ | ⟨hi, hcl⟩
        · refine Or.inl ⟨k, tl ++ (enqueue ({ s with stack := rest } : St) a).2, by simp [hwq], cleanList_append htl (enqueue_clean _ a), ?_⟩
          simp only [Fl, Prod.mk.injEq] at hfl
          cases k <;> simp only [SubFlags, Idle, Fl, Prod.mk.injEq] at hsub ⊢ <;> simp_all
        · refine Or.inr ⟨?_, ?_⟩
          · simp only [Idle] at hi ⊢; simp only [Fl] at hfl hi ⊢; rw [← hi]; exact hfl
          · show cleanList ((enqueue ({ s with stack := rest } : St) a).1.wq ++ (enqueue ({ s with stack := rest } : St) a).2)
            rw [enqueue_wq]; exact cleanList_append hcl (enqueue_clean _ a)
      have hpush : ∀ fs, Pending (({ (enqueue ({ s with stack := rest } : St) a).1 with
          wq := (enqueue ({ s with stack := rest } : St) a).1.wq ++ (enqueue ({ s with stack := rest } : St) a).2 } : St).push fs) := by
        intro fs
        rcases hP' with ⟨k, tl, hwq, htl, hsub⟩ | ⟨hi, hcl⟩
        · exact Or.inl ⟨k, tl, by simpa [St.push] using hwq, htl, by cases k <;> simpa [SubFlags, Idle, Fl, St.push] using hsub⟩
        · exact Or.inr ⟨by simpa [Idle, Fl, St.push] using hi, by simpa [St.push] using hcl⟩
      split
      · exact flag_push (g := .flush) (gs := [.exclActs sys (i + 1)]) (by simp [St.push]) (hpush _)
          (by intro x hx; simp at hx; subst hx; exact ⟨trivial, rfl⟩) hrest
      · exact flag_push (g := .exclActs sys (i + 1)) (gs := []) (by simp [St.push]) (hpush _) (by intro x hx; cases hx) hrest
  | topActs t i =>
    obtain ⟨hi, hcl⟩ := htop
    simp only [runFrame, doTopActs]
    split
    · refine flag_push (g := .flush) (gs := []) (by simp [St.push]) (Or.inr ⟨hi, hcl⟩) (by intro x hx; cases hx) hrest
    · rename_i a _
      refine flag_push (g := .topActs t (i + 1)) (gs := []) (by simp [St.push]) ?_ (by intro x hx; cases hx) hrest
      refine ⟨?_, by simpa using cleanList_append hcl (enqueue_clean _ a)⟩
      have hfl := Fl_enqueue ({ s with stack := rest } : St) a
      simp only [Idle] at hi ⊢
      simpa [Fl] using hfl.trans hi
  | cleanup k =>
    obtain ⟨hsub, hw⟩ := htop
    exact flag_pop (by simp [runFrame]) (cleanupK_idle _ k hsub) (by simp [runFrame, hw]) hrest
  | onceTail sys =>
    obtain ⟨hi, hw⟩ := htop
    simp only [runFrame, doOnceTail]
    refine flag_push (g := .flush) (gs := [.dropCallback sys]) (by simp [St.push]) ?_ (allOK_one trivial rfl) hrest
    refine Or.inr ⟨?_, ?_⟩
    · exact idle_of_Fl (by simp [Fl]) hi
    · simp [hw]; exact cleanList_cons rfl cleanList_nil
  | dropCallback sys =>
    obtain ⟨hi, hw⟩ := htop
    exact flag_pop rfl hi hw hrest
  | runnerStart sys k =>
    -- (the state may be unsettled: a command applied in-line by an exclusive body; the collector and the poll come first)
    have hP : Pending (runFrame p hh { s with stack := rest } (.runnerStart sys k)) :=
      pending_same (by simp [runFrame, doRunnerStart, Fl, St.push, St.emit]) (by simp [runFrame, doRunnerStart, St.push, St.emit]) htop
    exact flag_push (g := .gc) (gs := [.poll, .runnerLookup sys k s.counter]) (by simp [runFrame, doRunnerStart, St.push, St.emit]) hP
      (by intro g hg; simp at hg; rcases hg with rfl | rfl <;> exact ⟨trivial, rfl⟩) hrest (Or.inr (by simp [Leads]))
  | runnerLookup sys k idx =>
    obtain ⟨hi, hw⟩ := htop
    simp only [runFrame, doRunnerLookup]
    have habort : allOK (abortFrames sys k) := by
      intro g hg; simp [abortFrames] at hg; rcases hg with rfl | rfl | rfl <;> exact ⟨trivial, rfl⟩
    split
    · exact flag_idle_all (by exact hi) (by first | exact hw | simp [hw]) (allOK_append habort hrest)
    · rename_i halive
      have halive : s.alive sys = true := by simpa using halive
      split
      · exact flag_idle_all (by exact hi) (by first | exact hw | simp [hw]) (allOK_append habort hrest)
      · split
        · exact flag_idle_all (by exact hi) (by first | exact hw | simp [hw]) (allOK_append habort hrest)
        · exact flag_idle_all (by exact hi) (by first | exact hw | simp [hw]) hrest
      · rename_i hsto
        have hsto : s.storage sys = some true := hsto
        split
        · -- the wrapper was already taken: unreachable
          rename_i htaken
          exfalso
          simp only [Bool.and_eq_true] at htaken
          have hrun := ho.running sys ⟨htaken.1, htaken.2, halive⟩
          have := hc.runningTaken sys hrun halive
          rw [hsto] at this; cases this
        · have hsub : SubFlags (startBody ({ s with stack := rest, storage := upd s.storage sys (some false), counter := s.counter + 1 } : St) sys k) k := by
            have h1 := setupK_subFlags ({ s with stack := rest, storage := upd s.storage sys (some false), counter := s.counter + 1 } : St) k sys hi
            have h2 := Fl_startBody ({ s with stack := rest, storage := upd s.storage sys (some false), counter := s.counter + 1 } : St) sys k
            simp only [Fl, Prod.mk.injEq] at h2
            cases k <;> simp only [SubFlags, Idle, Fl, Prod.mk.injEq] at h1 ⊢ <;> simp_all
          have hafter : allOK (Frame.afterBody sys idx :: rest) := by
            intro g hg; rcases List.mem_cons.mp hg with rfl | hg'
            · exact ⟨trivial, rfl⟩
            · exact hrest g hg'
          split
          · refine flag_push (g := .bodyActs sys k 0 []) (gs := [.onceTail sys, .afterBody sys idx]) (by simp [St.push]) ?_ ?_ hrest
            · exact ⟨hsub, cleanList_nil, by simp [hw]⟩
            · intro g hg; simp at hg; rcases hg with rfl | rfl <;> exact ⟨trivial, rfl⟩
          · split
            · refine flag_push (g := .exclActs sys 0) (gs := [.afterBody sys idx]) (by simp [St.push]) ?_ (allOK_one trivial rfl) hrest
              exact Or.inl ⟨k, [], by simp [hw], cleanList_nil, hsub⟩
            · refine flag_push (g := .bodyActs sys k 0 []) (gs := [.afterBody sys idx]) (by simp [St.push]) ?_ (allOK_one trivial rfl) hrest
              exact ⟨hsub, cleanList_nil, by simp [hw]⟩
  | afterBody sys idx =>
    obtain ⟨hi, hw⟩ := htop
    apply flag_idle_all (by exact hi) (by first | exact hw | simp [hw])
    show allOK ([Frame.gc, .reinsert sys idx] ++ rest)
    refine allOK_append ?_ hrest
    intro g hg; simp at hg; rcases hg with rfl | rfl <;> exact ⟨trivial, rfl⟩
  | reinsert sys idx =>
    obtain ⟨hi, hw⟩ := htop
    obtain ⟨fs, hst, _⟩ := runFrame_noRun p hh ({ s with stack := rest } : St) (.reinsert sys idx)
      (fun _ _ _ hx => by cases hx) (fun _ _ hx => by cases hx)
    simp only [runFrame, doReinsert]
    refine flag_idle_all ?_ ?_ ?_
    · split <;> (try split) <;> exact hi
    · split <;> (try split) <;> simp [St.push, St.emit, hw]
    ·
      split
      · simp only [St.push, St.emit]
        refine allOK_append ?_ hrest
        intro g hg; simp at hg; rcases hg with rfl | rfl <;> exact ⟨trivial, rfl⟩
      · split <;>
        · simp only [St.push, St.emit]
          refine allOK_append ?_ hrest
          intro g hg; simp at hg; rcases hg with rfl | rfl | rfl | rfl <;> exact ⟨trivial, rfl⟩
      · split <;>
        · simp only [St.push, St.emit]
          refine allOK_append ?_ hrest
          intro g hg; simp at hg; rcases hg with rfl | rfl | rfl <;> exact ⟨trivial, rfl⟩
  | replayTake sys idx =>
    obtain ⟨hi, hw⟩ := htop
    apply flag_idle_all (by exact hi) (by first | exact hw | simp [hw])
    show allOK ([Frame.replayLoop sys s.buffered [] idx] ++ rest)
    exact allOK_append (allOK_one trivial rfl) hrest
  | replayLoop sys r kept idx =>
    obtain ⟨hi, hw⟩ := htop
    simp only [runFrame, doReplayLoop]
    split
    · exact flag_idle_all (by exact hi) (by first | exact hw | simp [hw]) (allOK_append (allOK_one trivial rfl) hrest)
    · split
      · apply flag_idle_all (by exact hi) (by first | exact hw | simp [hw])
        simp only [St.push, St.emit]
        refine allOK_append ?_ hrest
        intro g hg; simp at hg; rcases hg with rfl | rfl <;> exact ⟨trivial, rfl⟩
      · exact flag_idle_all (by exact hi) (by first | exact hw | simp [hw]) (allOK_append (allOK_one trivial rfl) hrest)
  | finish sys idx =>
    obtain ⟨hi, hw⟩ := htop
    simp only [runFrame, doFinish]
    split
    · split
      · exact flag_idle_all (by exact hi) (by first | exact hw | simp [hw]) hrest
      · apply flag_idle_all (by exact hi) (by first | exact hw | simp [hw])
        simp only [St.push, St.emit]
        refine allOK_append ?_ hrest
        intro g hg; simp [abortFrames] at hg; rcases hg with rfl | rfl | rfl | rfl <;> exact ⟨trivial, rfl⟩
    · exact flag_idle_all (by exact hi) (by first | exact hw | simp [hw]) hrest
  | abort sys k =>
    obtain ⟨hi, hw⟩ := htop
    exact flag_pop (by simp [runFrame]) (cleanupK_idle _ k (setupK_subFlags _ k sys hi)) (by simp [runFrame, hw]) hrest
  | gc =>
    have hlead : Lead1 s .gc rest := by have := h.lead; rw [hs] at this; exact this
    have hP : Pending ({ s with stack := rest } : St) := htop
    simp only [runFrame, doGc]
    split
    · rcases hlead with ⟨hi, hw⟩ | hl
      · exact flag_idle_all (by exact hi) (by first | exact hw | simp [hw]) hrest
      · exact flag_reveal_leads rfl hP hl hrest
    · refine flag_push (gs := [.gc]) (rest := rest) rfl (pending_same (by simp [Fl, St.push]) (by simp [St.push]) hP)
        (by intro x hx; simp at hx; subst hx; exact ⟨trivial, rfl⟩) hrest ?_
      rcases hlead with ⟨hi, hw⟩ | hl
      · exact Or.inl ⟨idle_of_Fl (by simp [Fl, St.push]) hi, by simp [St.push, hw]⟩
      · exact Or.inr (by simpa [Leads] using hl)
  | despawnWork work =>
    have hlead : Lead1 s (.despawnWork work) rest := by have := h.lead; rw [hs] at this; exact this
    have hP : Pending ({ s with stack := rest } : St) := htop
    -- every branch keeps the flags and the world queue; it pops, or pushes one more collector frame
    have pushOne : ∀ (s' : St) (w' : List (Nat × Bool)), Fl s' = Fl s → s'.wq = s.wq → s'.stack = .despawnWork w' :: rest → FlagInv s' := by
      intro s' w' hfl hwq hst'
      refine flag_push (g := .despawnWork w') (gs := []) (by simpa using hst') (pending_same hfl hwq hP) (by intro x hx; cases hx) hrest ?_
      rcases hlead with ⟨hi, hw⟩ | hl
      · exact Or.inl ⟨idle_of_Fl hfl hi, by rw [hwq]; exact hw⟩
      · exact Or.inr (by simpa using hl)
    simp only [runFrame, doDespawnWork]
    split
    · rcases hlead with ⟨hi, hw⟩ | hl
      · exact flag_idle_all (by exact hi) (by first | exact hw | simp [hw]) hrest
      · exact flag_reveal_leads rfl hP hl hrest
    · split
      · rename_i e expanded work _
        split
        · exact pushOne _ work (by simp [Fl, St.push]) (by simp [St.push]) (by simp [St.push, despawn1_stack])
        · exact flag_push (g := .flush) (gs := [.despawnWork ((e, true) :: work)]) (rest := rest) rfl
            (pending_same (by simp [Fl, St.push]) (by simp [St.push]) hP)
            (by intro x hx; simp at hx; subst hx; exact ⟨trivial, rfl⟩) hrest
      · split
        · exact pushOne _ _ (by simp [Fl, St.push]) (by simp [St.push]) rfl
        · exact pushOne _ _ (by simp [Fl, St.push]) (by simp [St.push]) rfl
  | poll =>
    simp only [runFrame, doPoll]
    refine flag_push (g := .flush) (gs := []) (by simp [St.push]) ?_ (by intro x hx; cases hx) hrest
    have hnew : cleanList ((pollRemovals ({ s with stack := rest } : St)).2 ++ (pollDespawns (pollRemovals ({ s with stack := rest } : St)).1).2) :=
      cleanList_append (pollRemovals_clean _) (pollDespawns_clean _)
    rcases htop with ⟨k, tl, hwq, htl, hsub⟩ | ⟨hi, hcl⟩
    · refine Or.inl ⟨k, tl ++ ((pollRemovals ({ s with stack := rest } : St)).2 ++ (pollDespawns (pollRemovals ({ s with stack := rest } : St)).1).2), ?_,
        cleanList_append htl hnew, subFlags_of_Fl (by simp [Fl, St.push]) k hsub⟩
      simp only [St.push, pollDespawns_wq, pollRemovals_wq]
      have : ({ s with stack := rest } : St).wq = Cmd.cleanup k :: tl := hwq
      rw [this]; simp
    · refine Or.inr ⟨idle_of_Fl (by simp [Fl, St.push]) hi, ?_⟩
      simp only [St.push, pollDespawns_wq, pollRemovals_wq, List.append_assoc]
      exact cleanList_append hcl hnew

end Cobweb

namespace Cobweb

theorem flag_step (p : Prog) (h : Hist) {s s' : St} (hc : Ctl s) (ho : OnceInv s) (hf : FlagInv s)
    (hs : step p h s = some s') : FlagInv s' := by
  unfold step at hs
  split at hs
  · cases hs
  · rename_i f rest hst
    simp only [Option.some.injEq] at hs
    subst hs
    exact flag_runFrame p h hc ho hf hst

theorem flag_startTop {s : St} (hi : Idle s) (hw : s.wq = []) (hst : s.stack = []) (t : Nat) (op : TopOp) :
    FlagInv (startTop s t op) := by
  have hcmd : ∀ (s1 : St) (c : Cmd), isCleanup c = false → Idle s1 → s1.wq = [] → s1.stack = [] → FlagInv (applyCmd s1 c) := by
    intro s1 c hcc hi1 hw1 hst1
    obtain ⟨fs, hfs, hok⟩ := applyCmd_allOK s1 c hcc
    refine flag_idle_all (idle_of_Fl (Fl_applyCmd s1 c hcc) hi1) (by simp [hw1]) ?_
    rw [hfs, hst1]; simpa using hok
  unfold startTop
  cases op <;> dsimp only
  case acts =>
    refine flag_push (g := .topActs t 0) (gs := []) (rest := []) (by simp [St.push, St.emit, hst]) ?_ (by intro x hx; cases hx) (by intro x hx; cases hx)
    exact ⟨hi, by simp [St.emit, hw]; exact cleanList_nil⟩
  case wDespawn e => exact flag_idle_all (idle_of_Fl (by simp [Fl, St.emit]) hi) (by simp [St.emit, hw]) (by simp [St.emit, hst]; exact allOK_nil)
  case wDespawnRec e => exact flag_idle_all (by exact hi) (by simp [St.push, St.emit, hw]) (by simp [St.push, St.emit, hst]; exact allOK_one trivial rfl)
  case wRemove e ty => exact hcmd _ _ rfl hi (by simp [St.emit, hw]) (by simp [St.emit, hst])
  case wInsertRaw e ty v => exact hcmd _ _ rfl hi (by simp [St.emit, hw]) (by simp [St.emit, hst])
  case wSetParent c p =>
    split
    · exact flag_idle_all (by exact hi) (by simp [St.emit, hw]) (by simp [St.emit, hst]; exact allOK_nil)
    · exact flag_idle_all (by exact hi) (by simp [St.emit, hw]) (by simp [St.emit, hst]; exact allOK_nil)
  case gc => exact flag_idle_all (by exact hi) (by simp [St.push, St.emit, hw]) (by simp [St.push, St.emit, hst]; exact allOK_one trivial rfl)
  case poll => exact flag_idle_all (by exact hi) (by simp [St.push, St.emit, hw]) (by simp [St.push, St.emit, hst]; exact allOK_one trivial rfl)
  case frameEnd =>
    refine flag_idle_all (by exact hi) (by simp [St.push, St.emit, hw]) ?_
    simp only [St.push, St.emit, hst]
    intro g hg; simp at hg; rcases hg with rfl | rfl <;> exact ⟨trivial, rfl⟩
  case clearTrackers => exact flag_idle_all (by exact hi) (by simp [St.emit, hw]) (by simp [St.emit, hst]; exact allOK_nil)
  case wSysEvent sys ty pid => exact hcmd _ _ rfl (by exact hi) (by simp [St.emit, St.fresh, hw]) (by simp [St.emit, St.fresh, hst])
  case wBroadcast ty pid => exact hcmd _ _ rfl (by exact hi) (by simp [St.emit, hw]) (by simp [St.emit, hst])
  case wEntityEvent e ty pid => exact hcmd _ _ rfl (by exact hi) (by simp [St.emit, hw]) (by simp [St.emit, hst])
  case sigPrepare e => exact flag_idle_all (by exact hi) (by simp [St.emit, newArc, hw]) (by simp [St.emit, newArc, hst]; exact allOK_nil)
  case sigClone a =>
    split
    · exact flag_idle_all (idle_of_Fl (by simp [Fl, St.emit]) hi) (by simp [St.emit, hw]) (by simp [St.emit, hst]; exact allOK_nil)
    · exact flag_idle_all (by exact hi) (by simp [St.emit, hw]) (by simp [St.emit, hst]; exact allOK_nil)
  case sigDrop a =>
    split
    · exact flag_idle_all (idle_of_Fl (by simp [Fl, St.emit]) hi) (by simp [St.emit, hw]) (by simp [St.emit, hst]; exact allOK_nil)
    · exact flag_idle_all (by exact hi) (by simp [St.emit, hw]) (by simp [St.emit, hst]; exact allOK_nil)
  case sigThreads a n => exact flag_idle_all (by exact hi) (by simp [St.push, St.emit, hw]) (by simp [St.push, St.emit, hst]; exact allOK_one trivial rfl)

theorem flag_tick (p : Prog) (h : Hist) {s s' : St} (hc : Ctl s) (ho : OnceInv s) (hf : FlagInv s)
    (ht : tick p h s = some s') : FlagInv s' := by
  unfold tick at ht
  split at ht
  · rename_i s'' hs
    simp only [Option.some.injEq] at ht; subst ht
    exact flag_step p h hc ho hf hs
  · rename_i hnone
    split at ht
    · rename_i op _
      simp only [Option.some.injEq] at ht; subst ht
      have hempty : s.stack = [] := by
        unfold step at hnone
        cases hst : s.stack with
        | nil => rfl
        | cons f rest => rw [hst] at hnone; cases hnone
      have htop := hf.top; rw [hempty] at htop
      exact flag_startTop (s := { s with topIdx := s.topIdx + 1 }) htop.1 htop.2 hempty s.topIdx op
    · cases ht

theorem flag_default : FlagInv ({} : St) := ⟨⟨rfl, rfl⟩, (by intro g hg; cases hg), trivial⟩

/-- All three invariants along every execution. -/
theorem all_reach (p : Prog) (h : Hist) {s0 s : St} (hc : Ctl s0) (ho : OnceInv s0) (hf : FlagInv s0) (hr : Reach p h s0 s) :
    Ctl s ∧ OnceInv s ∧ FlagInv s := by
  induction hr with
  | refl => exact ⟨hc, ho, hf⟩
  | tick _ ht ih => exact ⟨ctl_tick p h ih.1 ht, once_tick p h ih.1 ih.2.1 ht, flag_tick p h ih.1 ih.2.1 ih.2.2 ht⟩

end Cobweb
